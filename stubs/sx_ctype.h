/* stubs/sx_ctype.h -- `pre` header of the sx.c proof units (property C20).
 *
 * glibc's <ctype.h> implements isdigit/isxdigit/isspace/tolower as macros
 * over the __ctype_b_loc()/__ctype_tolower_loc() tables, which CBMC does not
 * model (DESIGN P18).  The unit is therefore compiled with -D__NO_CTYPE (the
 * header then only declares the functions) and the functions are modelled
 * here for the ASCII "C" locale.  STATED ASSUMPTION: the reader runs in the
 * "C" locale, where these predicates are exactly the ranges below (ISO C
 * 7.4.1, 7.4.2).  Arguments outside unsigned char/EOF (plain `char` octets
 * >= 0x80 arrive as negative ints) are not in any class, as with glibc.
 *
 * The native replay uses the real libc functions.
 */
#ifndef STUBS_SX_CTYPE_H
#define STUBS_SX_CTYPE_H
#include "spec/sx.h"

#if !VERIF_IS_NATIVE
int isdigit(int c)  { return SPEC_SX_REF_ISDIGIT(c); }
int isxdigit(int c) { return SPEC_SX_REF_ISXDIGIT(c); }
int isspace(int c)  { return SPEC_SX_REF_ISSPACE(c); }
int tolower(int c)  { return SPEC_SX_REF_TOLOWER(c); }
int toupper(int c)  { return SPEC_SX_REF_TOUPPER(c); }
int isalpha(int c)  { return SPEC_SX_REF_ISALPHA(c); }
int isalnum(int c)  { return SPEC_SX_REF_ISALPHA(c) || SPEC_SX_REF_ISDIGIT(c); }
int isupper(int c)  { return SPEC_SX_REF_ISUPPER(c); }
int islower(int c)  { return SPEC_SX_REF_ISLOWER(c); }
#endif

#endif
