/* stubs/register_area_callbacks.h -- pre-header of the register-table proof
 * units (C02, C03, C04): included BEFORE the real src/registers/core.c.
 *
 *  1. byte-loop models of memcpy/memset.  CBMC 6.11's built-in memcpy with a
 *     symbolic length into a uint16_t array copies wrong contents (DESIGN
 *     section 9, probe P6b); every register area is such an array.  The
 *     models are plain loops (unwound by --unwindset memcpy.0:N,memset.0:N,
 *     N = words of the largest copy of the target's table dimension + 1).
 *     Assumption about libc, listed in the evidence.
 *  2. the stub standing for the iteration callback of register_foreach_in
 *     (any return value per call; logs the handles it is given).  The
 *     validator callback stub is st_validator of stubs/register_callbacks.h.
 */
#ifndef STUBS_REGISTER_AREA_CALLBACKS_H
#define STUBS_REGISTER_AREA_CALLBACKS_H
#include <string.h>
#include <ufw/register-table.h>

#if !VERIF_IS_NATIVE
/* Copies whose length is a whole number of 16-bit words (every copy the
 * register code makes) are done word by word -- the same octets, but the
 * verifier is spared the octet-wise updates of uint16_t arrays; anything else
 * octet by octet. */
void *memcpy(void *dst, const void *src, size_t n)
{
  if ((n & 1u) == 0) {
    uint16_t *d = dst;
    const uint16_t *s = src;
    for (size_t i = 0; i < n / 2u; i++)
      d[i] = s[i];
  } else {
    unsigned char *d = dst;
    const unsigned char *s = src;
    for (size_t i = 0; i < n; i++)
      d[i] = s[i];
  }
  return dst;
}

void *memset(void *dst, int c, size_t n)
{
  if ((n & 1u) == 0) {
    uint16_t *d = dst;
    const uint16_t v = (uint16_t)((unsigned char)c * 0x0101u);
    for (size_t i = 0; i < n / 2u; i++)
      d[i] = v;
  } else {
    unsigned char *d = dst;
    for (size_t i = 0; i < n; i++)
      d[i] = (unsigned char)c;
  }
  return dst;
}
#endif

/* iteration callback: returns st_it_rc[k] on its k-th call (k < RB_STUB_CALLS;
 * later calls: any value in the proofs with RB_STUB_UNBOUNDED, else they are
 * flagged) and logs.  It checks what the property promises the callback: the
 * table and the argument are the caller's, the handles come in ascending
 * order without gaps (g_it_first, g_it_first + 1, ...), and no call follows a
 * non-zero result; any breach sets g_it_bad. */
#define RB_STUB_CALLS 8
RegisterTable *g_it_table;
void *g_it_arg;
int st_it_rc[RB_STUB_CALLS];
uint32_t g_it_calls;                   /* number of calls so far */
uint32_t g_it_first;                   /* handle of the first call */
uint32_t g_it_handle[RB_STUB_CALLS];   /* handle of call k */
int g_it_last_rc;                      /* result of the latest call */
bool g_it_bad;                         /* a call with a wrong table/argument/handle, or after a non-zero return */
bool g_it_stopped;
#if !VERIF_IS_NATIVE
int nondet_int(void);
#endif

static int rb_stub_iter(RegisterTable *t, RegisterHandle h, void *arg)
{
  if (t != g_it_table || arg != g_it_arg || g_it_stopped)
    g_it_bad = true;
#ifndef RB_STUB_UNBOUNDED
  if (g_it_calls >= RB_STUB_CALLS)
    g_it_bad = true;
#endif
  if (g_it_calls == 0)
    g_it_first = h;
  else if (h != g_it_first + g_it_calls)
    g_it_bad = true;
  int rc = 0;
  if (g_it_calls < RB_STUB_CALLS) {
#ifndef RB_STUB_UNBOUNDED
    g_it_handle[g_it_calls] = h;     /* the log of the bounded targets; the contract targets go by g_it_first / g_it_calls */
#endif
    rc = st_it_rc[g_it_calls];
  }
#if defined(RB_STUB_UNBOUNDED) && !VERIF_IS_NATIVE
  else
    rc = nondet_int();
#endif
  g_it_calls++;
  g_it_last_rc = rc;
  if (rc != 0)
    g_it_stopped = true;
  return rc;
}

#endif
