/* Stub drivers for the Source/Sink function pointers used by the varint
 * functions (property C14).  Included before the real sources (target key
 * "pre"); plain C, so the native replay runs the very same stubs.
 *
 * Source: delivers the octets mem[pos..len) one per call and then fails with
 * the negative code `err` for ever.  `pos` is the ghost bookkeeping of how many
 * octets the decoder has consumed.  Two entry points, one per driver kind
 * (octet source / chunk source asked for one octet).
 *
 * Sink: accepts every chunk completely and records it (cap/cnt), or - when rc
 * is negative - refuses every call with that code.  Partial acceptance, zero
 * returns and -EINTR/-EAGAIN retries are the business of sink_put_chunk
 * (property C17), not of the varint layer, and are not generated here (with a
 * partially accepting stub each to_sink proof takes minutes instead of
 * seconds).
 */
#ifndef STUBS_VARINT_ENDPOINTS_H
#define STUBS_VARINT_ENDPOINTS_H

struct st_vsrc {
  const unsigned char *mem;
  size_t len;
  size_t pos;
  int err;
};

static int st_varint_octet_source(void *driver, void *out)
{
  struct st_vsrc *s = (struct st_vsrc *)driver;
  if (s->pos >= s->len) {
    return s->err;
  }
  *(unsigned char *)out = s->mem[s->pos];
  s->pos += 1u;
  return 1;
}

static ssize_t st_varint_chunk_source(void *driver, void *out, size_t n)
{
  struct st_vsrc *s = (struct st_vsrc *)driver;
  CHECK(n == 1u, "stub chunk source: the varint decoder asks for one octet at a time");
  if (s->pos >= s->len) {
    return (ssize_t)s->err;
  }
  *(unsigned char *)out = s->mem[s->pos];
  s->pos += 1u;
  return 1;
}

#define ST_VSINK_CAP 16u
struct st_vsink {
  unsigned char cap[ST_VSINK_CAP];
  size_t cnt;
  int rc;
};

static ssize_t st_varint_chunk_sink(void *driver, const void *buf, size_t n)
{
  struct st_vsink *s = (struct st_vsink *)driver;
  if (s->rc < 0) {
    return (ssize_t)s->rc;
  }
  CHECK(n >= 1u, "stub chunk sink: never asked to take nothing");
  CHECK(s->cnt <= ST_VSINK_CAP && n <= ST_VSINK_CAP - s->cnt, "stub chunk sink: more octets than any varint has");
  memcpy(s->cap + s->cnt, buf, n);
  s->cnt += n;
  return (ssize_t)n;
}

static int st_varint_octet_sink(void *driver, unsigned char octet)
{
  struct st_vsink *s = (struct st_vsink *)driver;
  if (s->rc < 0) {
    return s->rc;
  }
  CHECK(s->cnt < ST_VSINK_CAP, "stub octet sink: more octets than any varint has");
  s->cap[s->cnt] = octet;
  s->cnt += 1u;
  return 1;
}

#endif
