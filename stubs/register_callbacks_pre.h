/* stubs/register_callbacks_pre.h -- included BEFORE src/registers/core.c in the
 * typed-access units (C01, C05).
 *
 * The engine inserts the loop contracts of contracts/registers-core.loops (the
 * block/iteration unit of the same source file) into EVERY staged copy of
 * core.c.  They mention ghost objects and macros of that unit, which do not
 * exist here, and none of the loops they annotate is reachable from the
 * typed-access functions.  While core.c is being included the loop-contract
 * clauses are therefore defined away; contracts/registers-typed.h restores the
 * three keywords before the first function contract (and before the loop
 * contract of the memcpy model).  Engine limitation worked around, see report.
 *
 * Target register_sanitise (C05) does NOT include this header: it needs the
 * loop contract of contracts/registers-sanitise.loops; the clauses of the
 * block/iteration unit are then visible too (their ghosts are declared by the
 * .loops prelude; the annotated functions are not reachable from sanitise).
 */
#ifndef STUBS_REGISTER_CALLBACKS_PRE_H
#define STUBS_REGISTER_CALLBACKS_PRE_H
#if !VERIF_IS_NATIVE
#define __CPROVER_loop_invariant(...)
#define __CPROVER_decreases(...)
#define __CPROVER_assigns(...)
#define RT_LOOP_KEYWORDS_HIDDEN 1
#endif
#endif
