/* stubs/regp_backend.h -- the function-pointer dependencies of the register
 * protocol's processing side (properties C06, C09), as nondeterministic stubs
 * with ghost bookkeeping.  They are ASSUMPTIONS about those dependencies
 * (listed in targets/C06.json, targets/C09.json):
 *
 *  memory back end  (RegP.memory.access.m8/m16 .read/.write): logs every call
 *      (count, kind, address, block size, buffer, ghost-indexed payload octet),
 *      checks what C09 promises the back end (the buffer it is asked to fill is
 *      large enough and lies in the frame block behind the received data's
 *      start; a write payload covers the announced block and lies inside the
 *      received data), delivers arbitrary words for a read and returns ANY
 *      verdict: the 12 response codes and out-of-range values, any address.
 *
 *  block allocator  (BlockAllocator.alloc.generic/.slab, .free): a ledger.
 *      Every allocation succeeds or fails nondeterministically; a successful
 *      one hands out an exact-size heap block; free must hit the one live block.
 *
 * Included after the real sources (it needs their types).  Plain C: the same
 * text is compiled natively for replay.
 */
#ifndef STUBS_REGP_BACKEND_H
#define STUBS_REGP_BACKEND_H
#include <ufw/allocator.h>
#include <ufw/register-protocol.h>

/* ---- ghost state (defined in harness/regp-proc.c) ------------------------ */
#define BE_READ16  1
#define BE_WRITE16 2
#define BE_READ8   3
#define BE_WRITE8  4
struct st_be_log {
  size_t calls;        /* number of back-end calls so far */
  int kind;            /* BE_* of the last call */
  uint32_t addr;       /* its address argument */
  size_t n;            /* its block-size argument (words) */
  const void *buf;     /* its buffer argument */
  uint8_t in;          /* write: octet g_k of the buffer as the back end saw it */
  uint8_t out;         /* read: octet g_k of what the back end delivered */
  int status;          /* the verdict it returned ... */
  uint32_t raddr;      /* ... and the address reported with it */
};
extern struct st_be_log g_be;   /* one object: one assigns target */
#define g_be_calls g_be.calls
#define g_be_kind g_be.kind
#define g_be_addr g_be.addr
#define g_be_n g_be.n
#define g_be_buf g_be.buf
#define g_be_in g_be.in
#define g_be_out g_be.out
#define g_be_status g_be.status
#define g_be_raddr g_be.raddr
/* frame block as the receiver left it (set by the harness, tied to the frame
 * by the contracts' requires): base, allocated size, octets in use
 * (sizeof(RPFrame) + raw frame length) */
extern const unsigned char *g_blk_base;
extern size_t g_blk_size;
extern size_t g_blk_used;

extern size_t g_al_allocs;       /* allocation attempts */
extern size_t g_al_frees;        /* frees */
extern size_t g_al_live;         /* live blocks */
extern void *g_al_block;         /* the block handed out last */
extern size_t g_al_bs;           /* block size the allocator is configured for */

/* [buf, buf+len) inside [base+lo, base+hi) of the frame block */
#if VERIF_IS_NATIVE
#define BE_WITHIN(buf, len, lo, hi) \
  ((const unsigned char *)(buf) >= g_blk_base + (lo) && (len) <= (hi) \
   && (size_t)((const unsigned char *)(buf) - g_blk_base) <= (hi) - (len))
#else
#define BE_WITHIN(buf, len, lo, hi) \
  (__CPROVER_same_object((buf), g_blk_base) \
   && (size_t)__CPROVER_POINTER_OFFSET(buf) >= (size_t)__CPROVER_POINTER_OFFSET(g_blk_base) + (lo) \
   && (len) <= (hi) \
   && (size_t)__CPROVER_POINTER_OFFSET(buf) - (size_t)__CPROVER_POINTER_OFFSET(g_blk_base) <= (hi) - (len))
#endif

/* what a read delivers: the octet at the ghost index is a fresh arbitrary
 * value (so "the answer carries what the back end delivered" is decided for
 * every octet position), the other octets keep the block's content, which the
 * harness leaves arbitrary.  -DBE_FULL_HAVOC (thorough tier) overwrites the
 * whole range with arbitrary content first. */
#if VERIF_IS_NATIVE
#define BE_DELIVER(buf, len, octet) do { if ((len) > 0) memset((buf), 0xA5, (len)); \
  if (g_k < (len)) ((unsigned char *)(buf))[g_k] = (octet); } while (0)
#elif defined(BE_FULL_HAVOC)
#define BE_DELIVER(buf, len, octet) do { if ((len) > 0) __CPROVER_havoc_slice((buf), (len)); \
  if (g_k < (len)) ((unsigned char *)(buf))[g_k] = (octet); } while (0)
#else
#define BE_DELIVER(buf, len, octet) do { \
  if (g_k < (len)) ((unsigned char *)(buf))[g_k] = (octet); } while (0)
#endif

#define BE_LOG(kind, address, bsize, buf) do { \
  g_be_calls++; g_be_kind = (kind); g_be_addr = (address); g_be_n = (bsize); g_be_buf = (buf); } while (0)
#define BE_VERDICT(rv) do { IN(int, st_be_status) IN(uint32_t, st_be_address) \
  g_be_status = st_be_status; g_be_raddr = st_be_address; \
  (rv).status = (RPResponse)st_be_status; (rv).address = st_be_address; } while (0)

#define BE_READ_BODY(kind, ws) \
  RPBlockAccess rv; \
  BE_LOG(kind, address, bsize, buf); \
  CHECK(bsize <= g_blk_size && BE_WITHIN(buf, bsize * (ws), sizeof(RPFrame), g_blk_size), \
        "C09: the buffer handed to the back end for a read holds the requested block inside the frame block"); \
  { IN(uint8_t, st_be_octet) BE_DELIVER(buf, bsize * (ws), st_be_octet); \
    if (g_k < bsize * (ws)) g_be_out = st_be_octet; } \
  BE_VERDICT(rv); \
  return rv;

#define BE_WRITE_BODY(kind, ws) \
  RPBlockAccess rv; \
  BE_LOG(kind, address, bsize, buf); \
  CHECK(bsize <= g_blk_size && BE_WITHIN(buf, bsize * (ws), sizeof(RPFrame), g_blk_used), \
        "C09: the payload handed to the back end for a write covers the announced block inside the received data"); \
  if (g_k < bsize * (ws)) g_be_in = ((const unsigned char *)buf)[g_k]; \
  BE_VERDICT(rv); \
  return rv;

static RPBlockAccess st_be_read16(uint32_t address, size_t bsize, uint16_t *buf) { BE_READ_BODY(BE_READ16, 2u) }
static RPBlockAccess st_be_write16(uint32_t address, size_t bsize, const uint16_t *buf) { BE_WRITE_BODY(BE_WRITE16, 2u) }
static RPBlockAccess st_be_read8(uint32_t address, size_t bsize, uint8_t *buf) { BE_READ_BODY(BE_READ8, 1u) }
static RPBlockAccess st_be_write8(uint32_t address, size_t bsize, const uint8_t *buf) { BE_WRITE_BODY(BE_WRITE8, 1u) }

/* ---- allocator ledger ----------------------------------------------------- */
static int st_al_take(void **m, size_t n)
{
  IN(int, st_al_rc)
  g_al_allocs++;
  CHECK(n == g_al_bs, "allocator is asked for its configured block size");
  if (st_al_rc < 0)
    return st_al_rc;                      /* allocation failure: *m untouched */
  {
    IN_MEM(st_al_mem, n)                  /* exact-size block, arbitrary content */
    *m = st_al_mem;
  }
  g_al_live++;
  g_al_block = *m;
  return 0;
}
static int st_al_generic(void *driver, void **m, size_t n) { (void)driver; return st_al_take(m, n); }
static int st_al_slab(void *driver, void **m) { (void)driver; return st_al_take(m, g_al_bs); }
static void st_al_free(void *driver, void *m)
{
  (void)driver;
  CHECK(g_al_live == 1 && m == g_al_block, "C09: free hits the one live block (released exactly once)");
  if (g_al_live > 0)
    g_al_live--;
  g_al_frees++;
#if VERIF_IS_NATIVE
  free(m);
#endif
}

/* ---- checksum stand-ins ----------------------------------------------------
 * src/crc-16-arc.c is not part of these proof units (C16 proves it; the
 * checksum fields of emitted frames are C08's subject).  What the processing
 * side needs is: reads buffer[0..len) -- checked here, so an over-long
 * checksum range is reported at the call -- writes nothing, returns a value. */
#ifndef REGP_NO_CRC_STANDINS
#if VERIF_IS_NATIVE
#include "spec/crc16.h"
#define ST_CRC_BODY(start, octets) \
  uint16_t c = (start); const unsigned char *b_ = (const unsigned char *)buffer; \
  for (size_t i_ = 0; i_ < (octets); i_++) c = spec_crc16_step(c, b_[i_]); return c;
#else
#define ST_CRC_BODY(start, octets) \
  IN(uint16_t, st_crc_value) (void)(start); \
  CHECK((octets) == 0 || __CPROVER_r_ok(buffer, (octets)), "checksum range lies inside the object it is computed over"); \
  return st_crc_value;
#endif
uint16_t ufw_crc16_arc(uint16_t crc, const void *buffer, size_t n) { ST_CRC_BODY(crc, n) }
uint16_t ufw_buffer_crc16_arc(const void *buffer, size_t len) { ST_CRC_BODY(0, len) }
uint16_t ufw_crc16_arc_u16(uint16_t crc, const uint16_t *buffer, size_t len) { ST_CRC_BODY(crc, 2u * len) }
uint16_t ufw_buffer_crc16_arc_u16(const uint16_t *buffer, size_t len) { ST_CRC_BODY(0, 2u * len) }
#endif

/* the stubs are candidates of function-pointer calls only if their address is
 * taken in code */
static RPBlockRead16 st_take_r16 = st_be_read16;
static RPBlockWrite16 st_take_w16 = st_be_write16;
static RPBlockRead8 st_take_r8 = st_be_read8;
static RPBlockWrite8 st_take_w8 = st_be_write8;
static GenericAlloc st_take_ag = st_al_generic;
static SlabAlloc st_take_as = st_al_slab;
static GenericFree st_take_af = st_al_free;

#endif
