/* stubs/sx_alloc.h -- allocation ledger for src/sx.c (property C20), `pre`
 * header.  malloc/calloc/free as used INSIDE sx.c are routed through these
 * wrappers (macros, undone again in contracts/sx.h before any harness code),
 * which call the real allocator and keep a count of the blocks sx.c holds:
 *
 *   g_sx_live  blocks obtained by sx.c and not yet given back
 *
 * "nothing leaks" is `g_sx_live == value before the call`; "freed exactly
 * once" is that count together with the allocator's own double-free /
 * invalid-free checks (CBMC pointer checks in the proof, ASan in the replay).
 * A failed allocation (CBMC 6: malloc may return NULL) is not counted; sx.c
 * treats it as fatal (sxoom -> fprintf, _Exit), which ends the path.
 */
#ifndef STUBS_SX_ALLOC_H
#define STUBS_SX_ALLOC_H
#include <stdlib.h>

size_t g_sx_live;

static inline void *sx_ledger_malloc(size_t n)
{
  void *p = malloc(n);
  if (p != NULL) g_sx_live++;
  return p;
}

static inline void *sx_ledger_calloc(size_t a, size_t b)
{
  void *p = calloc(a, b);
  if (p != NULL) g_sx_live++;
  return p;
}

static inline void sx_ledger_free(void *p)
{
  if (p != NULL) {
    CHECK(g_sx_live > 0, "ledger: free of a block that sx.c does not hold");
    g_sx_live--;
  }
  free(p);
}

#define malloc(n) sx_ledger_malloc(n)
#define calloc(a, b) sx_ledger_calloc(a, b)
#define free(p) sx_ledger_free(p)

#endif
