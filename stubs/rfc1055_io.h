/* Source and sink drivers for the SLIP proofs (property C12).
 *
 * rfc1055.c reaches its data through Source / Sink, i.e. through the function
 * pointers of include/ufw/endpoints.h.  These stubs are the contract of that
 * dependency (DESIGN section 3).  A driver call moves one octet (a chunk sink:
 * any 1 <= m <= min(n, 2) of the offered octets) and returns the count, or
 * returns any negative value instead (error injection at every position).
 *
 *   source, array mode (g_gn_on == 0): an arbitrary octet stream held in a
 *            ghost array g_sl_src[0 .. g_sl_src_len); at its end the driver
 *            returns a negative value (-ENODATA unless another is injected).
 *   source, generator mode (g_gn_on == 1): the stream is the *reference
 *            encoding* (spec/slip.h, RFC 1055) of the payload
 *            g_gn_pay[0 .. g_gn_n), produced octet by octet:
 *              [g_gn_g octets != END, END]  if g_gn_skip  (garbage up to the next delimiter)
 *              [END]                        if g_gn_start (start-of-frame delimiter)
 *              esc(pay[0]) .. esc(pay[n-1]) END
 *            and then the stream is at its end (-ENODATA).  Cursor:
 *            g_gn_c preamble octets delivered, payload index g_gn_i,
 *            position g_gn_s inside the image, g_gn_done after the closing END.
 *   both     g_sl_src_pos counts the octets delivered, g_sl_src_last is the
 *            last one delivered.
 *   sink     ghost position g_sl_snk_pos; the one observed absolute position
 *            g_sl_obs (arbitrary, never assigned) and the octet the driver
 *            received there, g_sl_snk_val ("ghost value instead of ghost
 *            array").
 *   sink acceptor (g_ac_on == 1): every octet the driver receives is checked
 *            against the reference encoding of g_ac_pay[0 .. g_ac_n):
 *            [END if g_ac_sof] esc(pay[0]) esc(pay[1]) ... and an END at an
 *            image boundary closes the frame (g_ac_closed; g_ac_i payload
 *            octets complete).  g_ac_bad is set, for good, by the first octet
 *            that is not the next octet of that encoding, or that follows the
 *            closing END.
 *   failures g_sl_*_err  last negative value the driver returned,
 *            g_sl_*_nneg number of negative values the driver returned.
 *            -EINTR / -EAGAIN (which sink_put_chunk retries) are returned by
 *            the sink at most g_sl_snk_budget more times, so that the retry
 *            loop of the real sink_put_chunk can be unwound completely for
 *            the two-octet escape sequences.
 *
 * Not modelled: a driver call that returns 0 ("nothing happened").  The
 * single-octet API (source_get_octet / sink_put_octet) that rfc1055.c uses
 * does not retry, and rfc1055.c takes 0 for "one octet moved"; the property
 * quantifies over error injection, not over idle drivers.
 *
 * None of the ghost variables is ever assigned by code of /repo.
 */
#ifndef STUBS_RFC1055_IO_H
#define STUBS_RFC1055_IO_H
#include <errno.h>
#include <limits.h>
#include "spec/slip.h"

/* source */
const unsigned char *g_sl_src;
size_t g_sl_src_len, g_sl_src_pos, g_sl_src_nneg;
int g_sl_src_err;
unsigned char g_sl_src_last;
/* source generator */
_Bool g_gn_on, g_gn_skip, g_gn_start, g_gn_done;
const unsigned char *g_gn_pay;
size_t g_gn_n, g_gn_g, g_gn_c, g_gn_i, g_gn_s;
/* sink */
size_t g_sl_snk_pos, g_sl_obs, g_sl_snk_nneg, g_sl_snk_budget;
unsigned char g_sl_snk_val;
int g_sl_snk_err;
/* sink acceptor */
_Bool g_ac_on, g_ac_sof, g_ac_closed, g_ac_bad;
const unsigned char *g_ac_pay;
size_t g_ac_n, g_ac_i, g_ac_s;

#define SL_SRC_DRIVER ((void *)&g_sl_src_pos)
#define SL_SNK_DRIVER ((void *)&g_sl_snk_pos)
#define SL_TRANSIENT(rc) ((rc) == -EINTR || (rc) == -EAGAIN)
/* number of octets in front of the encoded payload in generator mode */
#define SL_GN_SKIPLEN (g_gn_skip ? g_gn_g + 1 : (size_t)0)
#define SL_GN_PRE (SL_GN_SKIPLEN + (g_gn_start ? (size_t)1 : (size_t)0))

#if VERIF_IS_NATIVE
#define SL_CLAMP_NEG(rc) do { if ((rc) < -4096) (rc) = -(1 + (int)((unsigned)(-((rc) + 1)) % 4096u)); } while (0)
#else
#define SL_CLAMP_NEG(rc) do { } while (0)
#endif

/* ---- source side ---- */
static int sl_source_step(void *data, int choice, unsigned char any)
{
  unsigned char c;
  if (choice < 0 || (g_gn_on ? g_gn_done : g_sl_src_pos >= g_sl_src_len)) {
    const int rc = choice < 0 ? choice : -ENODATA;
    g_sl_src_err = rc;
    ASSUME(g_sl_src_nneg < SIZE_MAX); /* fewer than 2^64 failures */
    g_sl_src_nneg++;
    return rc;
  }
  if (!g_gn_on) {
    c = g_sl_src[g_sl_src_pos];
  } else if (g_gn_c < SL_GN_PRE) {
    /* garbage (any octet but the delimiter), its delimiter, the start delimiter */
    c = (g_gn_skip && g_gn_c < g_gn_g) ? (any == SLIP_END ? 0x00u : any) : SLIP_END;
    g_gn_c++;
  } else if (g_gn_i < g_gn_n) {
    c = SLIP_IMG(g_gn_pay[g_gn_i], g_gn_s);
    if (g_gn_s + 1 < SLIP_ESCLEN(g_gn_pay[g_gn_i])) {
      g_gn_s++;
    } else {
      g_gn_s = 0;
      g_gn_i++;
    }
  } else {
    c = SLIP_END;
    g_gn_done = 1;
  }
  *(unsigned char *)data = c;
  g_sl_src_last = c;
  ASSUME(g_sl_src_pos < SIZE_MAX); /* a stream is shorter than 2^64 octets */
  g_sl_src_pos++;
  return 1;
}

int sl_octet_source(void *driver, void *data)
{
  IN(int, st_sl_src_rc)
  IN(uint8_t, st_sl_src_any)
  SL_CLAMP_NEG(st_sl_src_rc);
  CHECK(driver == SL_SRC_DRIVER, "source driver receives its own driver cookie");
  CHECK(__CPROVER_w_ok(data, 1), "source driver is handed a writable octet");
  return sl_source_step(data, st_sl_src_rc, st_sl_src_any);
}

ssize_t sl_chunk_source(void *driver, void *buf, size_t n)
{
  IN(int, st_sl_src_rc)
  IN(uint8_t, st_sl_src_any)
  SL_CLAMP_NEG(st_sl_src_rc);
  CHECK(driver == SL_SRC_DRIVER, "source driver receives its own driver cookie");
  CHECK(n >= 1 && __CPROVER_w_ok(buf, n), "source driver is handed a buffer writable for the n octets announced");
  /* a chunk driver may deliver fewer octets than asked: this one delivers one */
  return (ssize_t)sl_source_step(buf, st_sl_src_rc, st_sl_src_any);
}

/* ---- sink side ---- */
static int sl_sink_fail(int rc)
{
  /* transient values only while the budget lasts, a hard error otherwise */
  if (SL_TRANSIENT(rc)) {
    if (g_sl_snk_budget == 0)
      rc = -EIO;
    else
      g_sl_snk_budget--;
  }
  g_sl_snk_err = rc;
  ASSUME(g_sl_snk_nneg < SIZE_MAX); /* fewer than 2^64 failures */
  g_sl_snk_nneg++;
  return rc;
}

/* the sink driver received octet c as its next octet */
static void sl_sink_take(unsigned char c)
{
  if (g_sl_obs == g_sl_snk_pos)
    g_sl_snk_val = c;
  ASSUME(g_sl_snk_pos < SIZE_MAX); /* a stream is shorter than 2^64 octets */
  g_sl_snk_pos++;
  if (g_ac_on && !g_ac_bad) {
    if (g_ac_closed) {
      g_ac_bad = 1;
    } else if (g_ac_sof) {
      if (c == SLIP_END) g_ac_sof = 0; else g_ac_bad = 1;
    } else if (g_ac_s == 0) {
      if (c == SLIP_END) {
        g_ac_closed = 1;
      } else if (g_ac_i < g_ac_n && c == SLIP_IMG(g_ac_pay[g_ac_i], 0)) {
        if (SLIP_ESCLEN(g_ac_pay[g_ac_i]) == 2) g_ac_s = 1; else g_ac_i++;
      } else {
        g_ac_bad = 1;
      }
    } else {
      if (c == SLIP_IMG(g_ac_pay[g_ac_i], 1)) { g_ac_s = 0; g_ac_i++; } else g_ac_bad = 1;
    }
  }
}

int sl_octet_sink(void *driver, unsigned char c)
{
  IN(int, st_sl_snk_rc)
  SL_CLAMP_NEG(st_sl_snk_rc);
  CHECK(driver == SL_SNK_DRIVER, "sink driver receives its own driver cookie");
  if (st_sl_snk_rc < 0)
    return sl_sink_fail(st_sl_snk_rc);
  sl_sink_take(c);
  return 1;
}

ssize_t sl_chunk_sink(void *driver, const void *buf, size_t n)
{
  IN(int, st_sl_snk_rc)
  IN(_Bool, st_sl_snk_short)
  SL_CLAMP_NEG(st_sl_snk_rc);
  CHECK(driver == SL_SNK_DRIVER, "sink driver receives its own driver cookie");
  CHECK(n >= 1 && __CPROVER_r_ok(buf, n), "sink driver is handed a buffer readable for the n octets announced");
  if (st_sl_snk_rc < 0)
    return (ssize_t)sl_sink_fail(st_sl_snk_rc);
  /* short counts: one octet, or two when at least two are offered (a driver
   * may always take fewer than offered) */
  sl_sink_take(((const unsigned char *)buf)[0]);
  if (n >= 2 && !st_sl_snk_short) {
    sl_sink_take(((const unsigned char *)buf)[1]);
    return 2;
  }
  return 1;
}

/* the addresses must be taken in code for the stubs to be candidates of the
 * function-pointer calls in src/endpoints/core.c */
int (*const sl_take_octet_source)(void *, void *) = sl_octet_source;
ssize_t (*const sl_take_chunk_source)(void *, void *, size_t) = sl_chunk_source;
int (*const sl_take_octet_sink)(void *, unsigned char) = sl_octet_sink;
ssize_t (*const sl_take_chunk_sink)(void *, const void *, size_t) = sl_chunk_sink;

#endif
