/* Source and sink drivers for the SLIP proofs (property C12).
 *
 * rfc1055.c reaches its data through Source / Sink, i.e. through the function
 * pointers of include/ufw/endpoints.h.  These stubs are the contract of that
 * dependency (DESIGN section 3):
 *
 *   source   an octet stream held in a ghost array: g_sl_src[0 .. g_sl_src_len),
 *            next position g_sl_src_pos.  A driver call delivers the next
 *            octet and returns 1, or returns any negative value instead
 *            (error injection at every position); at the end of the stream it
 *            returns a negative value (-ENODATA unless another one is
 *            injected).  The array is needed (instead of the single ghost
 *            octet of the C17 stubs) because what the decoder does depends on
 *            every octet it reads.
 *   sink     ghost position g_sl_snk_pos; the one observed absolute position
 *            g_sl_obs (arbitrary, never assigned) and the octet the driver
 *            received there, g_sl_snk_val ("ghost value instead of ghost
 *            array").  A driver call accepts any 1 <= m <= n of the offered
 *            octets, or returns any negative value.  -EINTR / -EAGAIN (which
 *            sink_put_chunk retries) are returned at most g_sl_snk_budget
 *            more times, so that the retry loop of the real sink_put_chunk
 *            can be unwound completely for the two-octet escape sequences.
 *   both     g_sl_*_err  last negative value the driver returned,
 *            g_sl_*_nneg number of negative values the driver returned.
 *
 * Not modelled: a driver call that returns 0 ("nothing happened").  The
 * single-octet API (source_get_octet / sink_put_octet) that rfc1055.c uses
 * does not retry, and rfc1055.c takes 0 for "one octet moved"; the property
 * quantifies over error injection, not over idle drivers.
 *
 * None of the ghost variables is ever assigned by code of /repo.
 */
#ifndef STUBS_RFC1055_IO_H
#define STUBS_RFC1055_IO_H
#include <errno.h>
#include <limits.h>

const unsigned char *g_sl_src;
size_t g_sl_src_len, g_sl_src_pos, g_sl_src_nneg;
int g_sl_src_err;
size_t g_sl_snk_pos, g_sl_obs, g_sl_snk_nneg, g_sl_snk_budget;
unsigned char g_sl_snk_val;
int g_sl_snk_err;

#define SL_SRC_DRIVER ((void *)&g_sl_src_pos)
#define SL_SNK_DRIVER ((void *)&g_sl_snk_pos)
#define SL_TRANSIENT(rc) ((rc) == -EINTR || (rc) == -EAGAIN)

#if VERIF_IS_NATIVE
#define SL_CLAMP_NEG(rc) do { if ((rc) < -4096) (rc) = -(1 + (int)((unsigned)(-((rc) + 1)) % 4096u)); } while (0)
#else
#define SL_CLAMP_NEG(rc) do { } while (0)
#endif

/* ---- source side ---- */
static int sl_source_step(void *data, int choice)
{
  if (choice < 0 || g_sl_src_pos >= g_sl_src_len) {
    const int rc = choice < 0 ? choice : -ENODATA;
    g_sl_src_err = rc;
    ASSUME(g_sl_src_nneg < SIZE_MAX); /* fewer than 2^64 failures */
    g_sl_src_nneg++;
    return rc;
  }
  *(unsigned char *)data = g_sl_src[g_sl_src_pos];
  g_sl_src_pos++;
  return 1;
}

int sl_octet_source(void *driver, void *data)
{
  IN(int, st_sl_src_rc)
  SL_CLAMP_NEG(st_sl_src_rc);
  CHECK(driver == SL_SRC_DRIVER, "source driver receives its own driver cookie");
  CHECK(__CPROVER_w_ok(data, 1), "source driver is handed a writable octet");
  return sl_source_step(data, st_sl_src_rc);
}

ssize_t sl_chunk_source(void *driver, void *buf, size_t n)
{
  IN(int, st_sl_src_rc)
  SL_CLAMP_NEG(st_sl_src_rc);
  CHECK(driver == SL_SRC_DRIVER, "source driver receives its own driver cookie");
  CHECK(n >= 1 && __CPROVER_w_ok(buf, n), "source driver is handed a buffer writable for the n octets announced");
  /* a chunk driver may deliver fewer octets than asked: this one delivers one */
  return (ssize_t)sl_source_step(buf, st_sl_src_rc);
}

/* ---- sink side ---- */
static int sl_sink_fail(int rc)
{
  /* transient values only while the budget lasts, a hard error otherwise */
  if (SL_TRANSIENT(rc)) {
    if (g_sl_snk_budget == 0)
      rc = -EIO;
    else
      g_sl_snk_budget--;
  }
  g_sl_snk_err = rc;
  ASSUME(g_sl_snk_nneg < SIZE_MAX); /* fewer than 2^64 failures */
  g_sl_snk_nneg++;
  return rc;
}

int sl_octet_sink(void *driver, unsigned char c)
{
  IN(int, st_sl_snk_rc)
  SL_CLAMP_NEG(st_sl_snk_rc);
  CHECK(driver == SL_SNK_DRIVER, "sink driver receives its own driver cookie");
  if (st_sl_snk_rc < 0)
    return sl_sink_fail(st_sl_snk_rc);
  if (g_sl_obs == g_sl_snk_pos)
    g_sl_snk_val = c;
  ASSUME(g_sl_snk_pos < SIZE_MAX); /* a stream is shorter than 2^64 octets */
  g_sl_snk_pos++;
  return 1;
}

ssize_t sl_chunk_sink(void *driver, const void *buf, size_t n)
{
  IN(int, st_sl_snk_rc)
  IN(size_t, st_sl_snk_m)
  SL_CLAMP_NEG(st_sl_snk_rc);
  CHECK(driver == SL_SNK_DRIVER, "sink driver receives its own driver cookie");
  CHECK(n >= 1 && __CPROVER_r_ok(buf, n), "sink driver is handed a buffer readable for the n octets announced");
  if (st_sl_snk_rc < 0)
    return (ssize_t)sl_sink_fail(st_sl_snk_rc);
  {
    /* short counts: any 1 <= m <= n */
    const size_t m = (st_sl_snk_m < 1) ? 1 : (st_sl_snk_m > n ? n : st_sl_snk_m);
#if VERIF_IS_NATIVE
    unsigned acc = 0;
    for (size_t i = 0; i < m; i++)
      acc += ((const unsigned char *)buf)[i];
    (void)acc;
#endif
    if ((size_t)(g_sl_obs - g_sl_snk_pos) < m)
      g_sl_snk_val = ((const unsigned char *)buf)[g_sl_obs - g_sl_snk_pos];
    ASSUME(g_sl_snk_pos <= SIZE_MAX - m); /* a stream is shorter than 2^64 octets */
    g_sl_snk_pos += m;
    return (ssize_t)m;
  }
}

/* the addresses must be taken in code for the stubs to be candidates of the
 * function-pointer calls in src/endpoints/core.c */
int (*const sl_take_octet_source)(void *, void *) = sl_octet_source;
ssize_t (*const sl_take_chunk_source)(void *, void *, size_t) = sl_chunk_source;
int (*const sl_take_octet_sink)(void *, unsigned char) = sl_octet_sink;
ssize_t (*const sl_take_chunk_sink)(void *, const void *, size_t) = sl_chunk_sink;

#endif
