/* Source / Sink drivers of the C13 proof unit: the nondeterministic drivers of
 * stubs/endpoint_drivers.h (C17) -- the same functions under the same names
 * with the same ghost streams -- plus one switch,
 *
 *   g_lp_dof   "deliver or fail": when set, a source driver that is asked for
 *              ONE octet never answers 0 (it delivers the octet or returns a
 *              negative value, -EINTR / -EAGAIN included).
 *
 * The varint prefix is read with single driver calls (varint_from_source ->
 * source_get_octet), and the statement of C13 (like those of C12 and C14) does
 * not cover a driver that answers such a call with "nothing yet": the decoder
 * contracts state the value of a varint prefix under g_lp_dof only; the switch
 * is arbitrary in every harness, so all other clauses are proved for the
 * unrestricted drivers too.  Fixed-width prefixes and payloads are read through
 * source_get_chunk, which retries: no restriction there.
 *
 * The switch only removes behaviours of the C17 drivers (the answer 0 leaves
 * every ghost untouched, so assuming it away is a pure restriction):
 * everything C17 proved about source_get_chunk, sink_put_chunk, sts_n, ... for
 * the unrestricted drivers holds for these.
 */
#ifndef STUBS_LENGTH_PREFIX_IO_H
#define STUBS_LENGTH_PREFIX_IO_H

int g_lp_dof;

#define ep_octet_source ep_octet_source_any
#define ep_chunk_source ep_chunk_source_any
#include "stubs/endpoint_drivers.h"
#undef ep_octet_source
#undef ep_chunk_source

int ep_octet_source(void *driver, void *data)
{
  const int rc = ep_octet_source_any(driver, data);
  ASSUME(!g_lp_dof || rc != 0);
  return rc;
}

ssize_t ep_chunk_source(void *driver, void *buf, size_t n)
{
  const ssize_t rc = ep_chunk_source_any(driver, buf, n);
  ASSUME(!(g_lp_dof && n == 1u) || rc != 0);
  return rc;
}

/* addresses taken in code: candidates of the function-pointer calls */
ssize_t (*const lp_take_chunk_source)(void *, void *, size_t) = ep_chunk_source;
int (*const lp_take_octet_source)(void *, void *) = ep_octet_source;

#endif
