/* Nondeterministic drivers behind Source / Sink (property C17 and every
 * property whose code reads from a Source or writes to a Sink).
 *
 * The drivers of ufw endpoints are reached through function pointers; these
 * stubs are their contract (DESIGN section 3): a driver call returns any count
 * its interface allows -- a chunk driver any 1 <= m <= n, an octet driver 1 --
 * or 0, or -EINTR / -EAGAIN, or any other negative value (hard error).
 *
 * Abstract stream ("ghost value instead of ghost array"): positions are
 * absolute octet indices; a stream is shorter than 2^64 octets (EP_NOWRAP:
 * a driver never advances its position past SIZE_MAX).
 *
 *   source side   g_src_pos   position of the next octet the driver delivers
 *                 g_a, g_val  the one observed position and the stream's octet
 *                             there; a driver call that delivers position g_a
 *                             stores g_val, every other delivered octet is
 *                             arbitrary
 *                 g_src_err   last negative value the driver returned
 *                 g_src_nhard number of hard errors the driver returned
 *   sink side     g_snk_pos   position of the next octet the driver accepts
 *                 g_b, g_snk_val  the one observed position and the octet the
 *                             driver received there (meaningful once g_snk_pos
 *                             has passed g_b)
 *                 g_snk_err, g_snk_nhard  as above
 *
 * None of these is ever assigned by code of /repo.  The driver cookie must be
 * EP_SRC_DRIVER / EP_SNK_DRIVER; the stubs check that it arrives unchanged and
 * that the buffer they are handed is accessible for the n octets announced.
 */
#ifndef STUBS_ENDPOINT_DRIVERS_H
#define STUBS_ENDPOINT_DRIVERS_H
#include <errno.h>
#include <limits.h>

size_t g_src_pos, g_snk_pos, g_b, g_src_nhard, g_snk_nhard;
unsigned char g_val, g_snk_val;
int g_src_err, g_snk_err;

#define EP_SRC_DRIVER ((void *)&g_src_pos)
#define EP_SNK_DRIVER ((void *)&g_snk_pos)
/* position p lies in [p0, p0 + n) (written with one comparison; p0 + n does not wrap) */
#define EP_IN(p, p0, n) ((size_t)((size_t)(p) - (size_t)(p0)) < (size_t)(n))
/* a stream position never wraps */
#define EP_NOWRAP(pos, m) ASSUME((pos) <= SIZE_MAX - (size_t)(m))
#define EP_TRANSIENT(rc) ((rc) == -EINTR || (rc) == -EAGAIN)

#if VERIF_IS_NATIVE
/* natively the arbitrary octets of the stream are a fixed function of the
 * position; the observed one is g_val */
#define EP_STREAM(p) ((size_t)(p) == g_a ? g_val : (unsigned char)(((size_t)(p) * 167u + 13u) ^ ((size_t)(p) >> 8)))
/* choice of a driver return value: any negative int, 0, or a count 1..n */
#define EP_CHOOSE(name, n) \
  if (name > 0) name = ((n) == 0) ? 0 : (ssize_t)(1u + (size_t)(name - 1) % (size_t)(n)); \
  if (name < -4096) name = -(ssize_t)(1u + (size_t)(-(name + 1)) % 4096u); \
  EP_FAIR(name, n)
/* native replay only: a replayed script ends by repeating its last value; a
 * driver that has made no progress 64 times in a row then makes progress, so
 * that the replay of a retry loop terminates (the proofs make no such
 * assumption, and do not claim termination) */
static unsigned ep_idle;
#define EP_FAIR(name, n) \
  if (name > 0) ep_idle = 0; \
  else if ((name == 0 || EP_TRANSIENT(name)) && (n) != 0 && ++ep_idle > 64u) { name = 1; ep_idle = 0; }
#else
#define EP_CHOOSE(name, n) \
  ASSUME(name >= -(ssize_t)INT_MAX); \
  ASSUME(name <= 0 || (size_t)name <= (size_t)(n));
#endif

/* bookkeeping of a negative driver return */
#define EP_SRC_FAIL(rc) do { g_src_err = (int)(rc); if (!EP_TRANSIENT(rc)) g_src_nhard++; } while (0)
#define EP_SNK_FAIL(rc) do { g_snk_err = (int)(rc); if (!EP_TRANSIENT(rc)) g_snk_nhard++; } while (0)

ssize_t ep_chunk_source(void *driver, void *buf, size_t n)
{
  IN(ssize_t, st_src_rc)
  CHECK(driver == EP_SRC_DRIVER, "source driver receives its own driver cookie");
  CHECK(n == 0 || __CPROVER_w_ok(buf, n), "source driver is handed a buffer writable for the n octets announced");
  EP_CHOOSE(st_src_rc, n > (size_t)SSIZE_MAX ? (size_t)SSIZE_MAX : n)
  if (st_src_rc < 0) {
    EP_SRC_FAIL(st_src_rc);
    return st_src_rc;
  }
  if (st_src_rc == 0)
    return 0;
  {
    const size_t m = (size_t)st_src_rc;
#if VERIF_IS_NATIVE
    for (size_t i = 0; i < m; i++)
      ((unsigned char *)buf)[i] = EP_STREAM(g_src_pos + i);
#else
    __CPROVER_havoc_slice(buf, m);
    if (EP_IN(g_a, g_src_pos, m))
      ((unsigned char *)buf)[g_a - g_src_pos] = g_val;
#endif
    EP_NOWRAP(g_src_pos, m);
    g_src_pos += m;
  }
  return st_src_rc;
}

int ep_octet_source(void *driver, void *data)
{
  IN(int, st_src_rc1)
  IN(uint8_t, st_src_octet)
  CHECK(driver == EP_SRC_DRIVER, "source driver receives its own driver cookie");
  CHECK(__CPROVER_w_ok(data, 1), "source driver is handed a writable octet");
#if VERIF_IS_NATIVE
  if (st_src_rc1 < -4096) st_src_rc1 = -(int)(1u + (unsigned)(-(st_src_rc1 + 1)) % 4096u);
  EP_FAIR(st_src_rc1, 1)
#endif
  if (st_src_rc1 < 0) {
    EP_SRC_FAIL(st_src_rc1);
    return st_src_rc1;
  }
  if (st_src_rc1 == 0)
    return 0;
#if VERIF_IS_NATIVE
  *(unsigned char *)data = EP_STREAM(g_src_pos);
#else
  *(unsigned char *)data = (g_a == g_src_pos) ? g_val : st_src_octet;
#endif
  EP_NOWRAP(g_src_pos, 1u);
  g_src_pos += 1u;
  return 1;
}

ssize_t ep_chunk_sink(void *driver, const void *buf, size_t n)
{
  IN(ssize_t, st_snk_rc)
  CHECK(driver == EP_SNK_DRIVER, "sink driver receives its own driver cookie");
  CHECK(n == 0 || __CPROVER_r_ok(buf, n), "sink driver is handed a buffer readable for the n octets announced");
  EP_CHOOSE(st_snk_rc, n > (size_t)SSIZE_MAX ? (size_t)SSIZE_MAX : n)
  if (st_snk_rc < 0) {
    EP_SNK_FAIL(st_snk_rc);
    return st_snk_rc;
  }
  if (st_snk_rc == 0)
    return 0;
  {
    const size_t m = (size_t)st_snk_rc;
#if VERIF_IS_NATIVE
    /* touch every octet the driver claims to have taken (ASan) */
    unsigned acc = 0;
    for (size_t i = 0; i < m; i++)
      acc += ((const unsigned char *)buf)[i];
    (void)acc;
#endif
    if (EP_IN(g_b, g_snk_pos, m))
      g_snk_val = ((const unsigned char *)buf)[g_b - g_snk_pos];
    EP_NOWRAP(g_snk_pos, m);
    g_snk_pos += m;
  }
  return st_snk_rc;
}

int ep_octet_sink(void *driver, unsigned char c)
{
  IN(int, st_snk_rc1)
  CHECK(driver == EP_SNK_DRIVER, "sink driver receives its own driver cookie");
#if VERIF_IS_NATIVE
  if (st_snk_rc1 < -4096) st_snk_rc1 = -(int)(1u + (unsigned)(-(st_snk_rc1 + 1)) % 4096u);
  EP_FAIR(st_snk_rc1, 1)
#endif
  if (st_snk_rc1 < 0) {
    EP_SNK_FAIL(st_snk_rc1);
    return st_snk_rc1;
  }
  if (st_snk_rc1 == 0)
    return 0;
  if (g_b == g_snk_pos)
    g_snk_val = c;
  EP_NOWRAP(g_snk_pos, 1u);
  g_snk_pos += 1u;
  return 1;
}

/* the addresses must be taken in code for the stubs to be candidates of the
 * function-pointer calls in src/endpoints/core.c */
ssize_t (*const ep_take_chunk_source)(void *, void *, size_t) = ep_chunk_source;
int (*const ep_take_octet_source)(void *, void *) = ep_octet_source;
ssize_t (*const ep_take_chunk_sink)(void *, const void *, size_t) = ep_chunk_sink;
int (*const ep_take_octet_sink)(void *, unsigned char) = ep_octet_sink;

#endif
