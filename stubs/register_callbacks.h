/* stubs/register_callbacks.h -- assumed contracts of the function-pointer
 * dependencies of typed register access (C01, C05):
 *
 *   st_validator     a validator callback (REGV_TYPE_CALLBACK): its verdict is
 *                    SPEC_CB_VERDICT(address, type, bit pattern) -- arbitrary
 *                    but fixed (spec/registers.h);
 *   st_area_read /   the read/write callbacks of a callback-backed area: a
 *   st_area_write    faithful word store with a nondeterministic verdict.  The
 *                    device's words are modelled as the block behind a->mem
 *                    (the library touches a callback-backed area's storage
 *                    only through these callbacks in the functions proved
 *                    here).  A refused transfer changes nothing.  The verdict
 *                    of the NEXT call is held in st_rd_verdict/st_wr_verdict
 *                    (low three bits = RegisterAccessCode, 0 = success) so that
 *                    a contract can speak about it at function entry; each
 *                    call draws the verdict of the following one.
 *
 * The stubs CHECK what typed access promises its callbacks: transfers of one
 * register (1..4 words) that lie inside the area.
 */
#ifndef STUBS_REGISTER_CALLBACKS_H
#define STUBS_REGISTER_CALLBACKS_H
#include "spec/registers.h"

uint8_t st_rd_verdict, st_wr_verdict;
uint32_t st_rd_address, st_wr_address;
#if VERIF_IS_NATIVE
uint64_t st_cb_seed;
#endif

#define ST_CODE(verdict) ((RegisterAccessCode)((verdict) & 7u))
#define ST_REFUSES(verdict) (((verdict) & 7u) != 0u)
/* a READ callback that fails does not claim anything about the content: it
 * reports any code but RANGE/INVALID (those two, which register_sanitise takes
 * for "content is bad", are mapped to IO_ERROR) */
#define ST_RD_CODE(verdict) \
  ((ST_CODE(verdict) == REG_ACCESS_RANGE || ST_CODE(verdict) == REG_ACCESS_INVALID) ? REG_ACCESS_IO_ERROR : ST_CODE(verdict))

bool st_validator(const RegisterEntry *e, RegisterValue v)
{
  CHECK(e != NULL, "validator: entry pointer is not NULL");
  CHECK(v.type == e->type, "validator: consulted only with a value of the register's type");
  return SPEC_CB_VERDICT(e->address, e->type, spec_bits(e->type, v.value));
}

RegisterAccess st_area_write(RegisterArea *a, const RegisterAtom *src,
                             RegisterOffset offset, RegisterOffset n)
{
  RegisterAccess rv;
  CHECK(a != NULL && src != NULL, "area write: pointers are not NULL");
  CHECK(n >= 1u && n <= 4u, "area write: typed access transfers one register (1..4 words)");
  CHECK(offset <= a->size && n <= a->size - offset, "area write: transfer lies inside the area");
  rv.code = ST_CODE(st_wr_verdict);
  rv.address = st_wr_address;
  if (rv.code == REG_ACCESS_SUCCESS) {
    rv.address = 0u;
    if (n > 0u) a->mem[offset] = src[0];
    if (n > 1u) a->mem[offset + 1u] = src[1];
    if (n > 2u) a->mem[offset + 2u] = src[2];
    if (n > 3u) a->mem[offset + 3u] = src[3];
  }
  { IN(uint8_t, st_wr_next) st_wr_verdict = st_wr_next; }
  return rv;
}

RegisterAccess st_area_read(const RegisterArea *a, RegisterAtom *dest,
                            RegisterOffset offset, RegisterOffset n)
{
  RegisterAccess rv;
  CHECK(a != NULL && dest != NULL, "area read: pointers are not NULL");
  CHECK(n >= 1u && n <= 4u, "area read: typed access transfers one register (1..4 words)");
  CHECK(offset <= a->size && n <= a->size - offset, "area read: transfer lies inside the area");
  rv.code = ST_RD_CODE(st_rd_verdict);
  rv.address = st_rd_address;
  if (rv.code == REG_ACCESS_SUCCESS) {
    rv.address = 0u;
    if (n > 0u) dest[0] = a->mem[offset];
    if (n > 1u) dest[1] = a->mem[offset + 1u];
    if (n > 2u) dest[2] = a->mem[offset + 2u];
    if (n > 3u) dest[3] = a->mem[offset + 3u];
  }
  { IN(uint8_t, st_rd_next) st_rd_verdict = st_rd_next; }
  return rv;
}

/* libc model (assumption about libc): CBMC 6.11's built-in memcpy copies wrong
 * contents for a symbolic length into a uint16_t array (DESIGN section 9, P6b).
 * Targets that execute reg_mem_read/reg_mem_write define RT_MEMCPY_MODEL: a
 * plain octet loop, closed by its own loop contract (facts at the ghost word
 * index g_k and, spelled out, for the first eight octets = one register). */
#if !VERIF_IS_NATIVE && defined(RT_MEMCPY_MODEL)
#define ST_MC_B(i, d, s, k) IMPLIES((size_t)(k) < (i), (d)[k] == (s)[k])
void *memcpy(void *dest, const void *src, size_t n)
{
  unsigned char *d = dest;
  const unsigned char *s = src;
  for (size_t i = 0; i < n; i++)
    __CPROVER_assigns(i, __CPROVER_object_upto(d, n))
    __CPROVER_loop_invariant(i <= n)
    __CPROVER_loop_invariant(IMPLIES(g_k < n / 2u && 2u * g_k < i, d[2u * g_k] == s[2u * g_k]))
    __CPROVER_loop_invariant(IMPLIES(g_k < n / 2u && 2u * g_k + 1u < i, d[2u * g_k + 1u] == s[2u * g_k + 1u]))
    __CPROVER_loop_invariant(ST_MC_B(i, d, s, 0) && ST_MC_B(i, d, s, 1) && ST_MC_B(i, d, s, 2) && ST_MC_B(i, d, s, 3))
    __CPROVER_loop_invariant(ST_MC_B(i, d, s, 4) && ST_MC_B(i, d, s, 5) && ST_MC_B(i, d, s, 6) && ST_MC_B(i, d, s, 7))
    __CPROVER_decreases(n - i)
  {
    d[i] = s[i];
  }
  return dest;
}
#elif !VERIF_IS_NATIVE && defined(RT_MEMCPY_WORDS)
/* the same assumption for plain bounded runs (no loop contracts): every copy
 * the register code makes is a whole number of 16-bit words and is done word
 * by word (unwound by --unwindset memcpy.0:N); anything else octet by octet */
void *memcpy(void *dest, const void *src, size_t n)
{
  if ((n & 1u) == 0u) {
    uint16_t *d = dest;
    const uint16_t *s = src;
    for (size_t i = 0; i < n / 2u; i++)
      d[i] = s[i];
  } else {
    unsigned char *d = dest;
    const unsigned char *s = src;
    for (size_t i = 0; i < n; i++)
      d[i] = s[i];
  }
  return dest;
}
#endif

#endif /* STUBS_REGISTER_CALLBACKS_H */
