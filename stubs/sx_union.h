/* stubs/sx_union.h -- `pre` header of the sx.c proof units (C20), LAST in the
 * pre list.
 *
 * Measured with CBMC 6.11: a pointer stored in a union whose first member is
 * an integer (struct sx_node: union { uint64_t u64; char *symbol; struct
 * sx_pair *pair; } data) loses its provenance -- `node->data.pair->car` read
 * back right after `node->data.pair = calloc(...)` is an "integer address"
 * with unconstrained content, in plain cbmc and under dfcc alike.  With a
 * pointer member first the same program verifies.  The header cannot be
 * edited, so inside <ufw/sx.h> and sx.c the keyword `union` is read as
 * `struct`: the three members get separate storage.
 *
 * STATED MODELLING ASSUMPTION: sx.c never reads a member of `data` other
 * than the one it last wrote (no type punning).  The model is stricter than
 * C there: such a read yields an unconstrained value in the proof.
 *
 * Every other header that sx.c includes is included here first (all have
 * include guards), so no system header is affected.
 */
#ifndef STUBS_SX_UNION_H
#define STUBS_SX_UNION_H
#include <ctype.h>
#include <stdbool.h>
#include <stddef.h>
#include <stdint.h>
#include <stdlib.h>
#include <string.h>
#include <stdio.h>
#include <ufw/compat/strings.h>
#include <ufw/compiler.h>
#include <ufw/toolchain.h>
#ifdef INC_UFW_SX_H_8528c541
#error "ufw/sx.h must not be included before stubs/sx_union.h"
#endif
#define union struct
#endif
