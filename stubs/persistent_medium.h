/* Stubs for the function-pointer dependencies of src/persistent-storage.c
 * (C10, C11): the medium's block read / block write callbacks and the user
 * supplied checksum algorithm.  They are the *assumed contracts* of these
 * dependencies and own the ghost state the postconditions talk about.
 *
 * Ghost medium image.  The medium is an octet array indexed by 32-bit
 * absolute addresses.  Of it the proofs observe
 *   - the checksum field [g_ps_lo, g_ps_dlo): its (2 or 4) octets are kept
 *     explicitly in g_ps_f0..g_ps_f3,
 *   - ONE more octet: the one at absolute address g_a (g_a is arbitrary and
 *     never assigned, so a statement about g_ps_cell is a statement about
 *     every octet outside the checksum field: data area and everything
 *     outside the instance's region alike).
 * A read delivers arbitrary octets except at the observed positions; a write
 * updates the observed positions that it covers.
 *
 * Region monitor: every access that touches an octet (n > 0) must lie inside
 * [g_ps_lo, g_ps_hi) = [checksum.address, data.address + data.size)  (CHECK).
 * (A zero-length access touches nothing; its address may be the one-past-the-
 * end address, which is 0 modulo 2^32 for a region ending at the top.)
 *
 * Fault injection: every call may transfer short (0 .. n-1 octets, chosen
 * nondeterministically; a short write is torn after that many octets); this
 * sets g_ps_fault.  Which call fails is the stub's choice, so every fault
 * position is covered.
 *
 * Write log: g_ps_nwr counts the write calls (saturating at 3), the first two
 * are recorded as (address, requested length, octets actually transferred).
 * g_ps_nrd counts the reads.
 *
 * Checksum algorithm = streaming fold.  The only thing assumed of the user's
 * algorithm f is that it is a fold over the octets, i.e. chunk-composable:
 * f(c, init) over the chunks of an image in order, each call continuing from
 * the previous result, ends in a value that depends on the image (and the
 * initial value) only: g_ps_cfinal, arbitrary.  Intermediate results are
 * arbitrary (fresh) values.  The stub CHECKs that the library uses the
 * algorithm that way: first call continues from the configured initial value,
 * every further call from the previous result, the octets fed are the octets
 * of the medium's data image at the running position (observed at g_a), never
 * more than the image.  After the whole image has been fed the result is
 * g_ps_cfinal = "the configured algorithm applied to the data image on the
 * medium".  A data write after the fold started would invalidate that reading
 * and is CHECKed not to happen.
 */
#ifndef STUBS_PERSISTENT_MEDIUM_H
#define STUBS_PERSISTENT_MEDIUM_H
#include <stddef.h>
#include <stdint.h>

extern uint64_t g_ps_lo, g_ps_dlo, g_ps_hi; /* region [lo,hi), data area [dlo,hi) */
extern uint8_t g_ps_f0, g_ps_f1, g_ps_f2, g_ps_f3; /* medium octets lo+0..lo+3 (checksum field) */
extern uint8_t g_ps_cell;                   /* medium octet at address g_a (outside the field) */
extern int g_ps_fault;                      /* some stub call failed / transferred short */
extern unsigned g_ps_nrd, g_ps_nwr;         /* number of read / write calls, saturating at 3 */
extern uint64_t g_ps_w0a, g_ps_w0n, g_ps_w0r; /* first write: address, requested length, octets transferred */
extern uint64_t g_ps_w1a, g_ps_w1n, g_ps_w1r; /* second write */
extern size_t g_ps_cpos;                    /* octets of the data image fed to the checksum so far */
extern uint32_t g_ps_crun, g_ps_cfinal;     /* running value / value after the whole image */

#define PM_SAT3(x) ((x) < 3u ? (x) + 1u : 3u)
/* g_a is an address the single-cell model observes (not part of the field) */
#define PM_CELL_ADDR() ((uint64_t)g_a < g_ps_lo || (uint64_t)g_a >= g_ps_dlo)
#define PM_IN(a, start, len) ((uint64_t)(a) >= (uint64_t)(start) && (uint64_t)(a) - (uint64_t)(start) < (uint64_t)(len))
/* loop invariants of chunked fills: address x has been covered when the loop that
 * started at a0 and covers k octets in all has advanced to `now` with `rest` octets to
 * go (stated on the code's own variable `now`; after the last chunk `now` may have
 * wrapped to 0 at the top of the 32-bit address space, hence the rest == 0 case) */
#define PM_DONE(x, a0, now, rest, k) ((uint64_t)(x) >= (uint64_t)(a0) \
    && ((rest) == 0 ? (uint64_t)(x) - (uint64_t)(a0) < (uint64_t)(k) : (uint64_t)(x) < (uint64_t)(now)))

/* PM_DELIVER: the havocked destination octet IS the observed medium octet
 * (proof: constrains the arbitrary value just delivered; native: stores it) */
#if VERIF_IS_NATIVE
#define PM_HAVOC(p, n) memset((p), 0xA5, (n))
#define PM_DELIVER(lv, v) ((lv) = (v))
#else
#define PM_HAVOC(p, n) __CPROVER_havoc_slice((p), (n))
#define PM_DELIVER(lv, v) __CPROVER_assume((lv) == (v))
#endif

#define PM_RD(k, f) { if ((uint64_t)(k) < (uint64_t)r) PM_DELIVER(d[k], f); }
static size_t st_medium_read(void *dst, uint32_t address, size_t n)
{
  uint8_t *d = (uint8_t *)dst;
  if (n > 0 && !((uint64_t)address >= g_ps_lo && (uint64_t)address <= g_ps_hi && (uint64_t)n <= g_ps_hi - (uint64_t)address)) {
    CHECK(0, "PM region monitor: medium read inside [checksum.address, data.address + data.size)");
    return n;
  }
  if (!(n == 0 || __CPROVER_w_ok(dst, n))) {
    CHECK(0, "PM medium read: destination buffer takes the requested octets");
    return n;
  }
  size_t r = n;
  IN(size_t, st_rd_short)
  if (st_rd_short < n) { r = st_rd_short; g_ps_fault = 1; }
  g_ps_nrd = PM_SAT3(g_ps_nrd);
  if (r > 0) {
    PM_HAVOC(d, r);
    /* the delivered octets are arbitrary except at the observed positions.
     * Field octets: case split on the field octet j the access starts at, so
     * that the buffer is indexed by constants (symbolic-index accesses made
     * the proofs 3x slower) */
    if ((uint64_t)address < g_ps_dlo) {
      /* the read starts inside the checksum field, at its octet j */
      const uint64_t j = (uint64_t)address - g_ps_lo;
      if (j == 0) { PM_RD(0, g_ps_f0) if (g_ps_lo + 1 < g_ps_dlo) PM_RD(1, g_ps_f1) if (g_ps_lo + 2 < g_ps_dlo) PM_RD(2, g_ps_f2) if (g_ps_lo + 3 < g_ps_dlo) PM_RD(3, g_ps_f3) }
      else if (j == 1) { PM_RD(0, g_ps_f1) if (g_ps_lo + 2 < g_ps_dlo) PM_RD(1, g_ps_f2) if (g_ps_lo + 3 < g_ps_dlo) PM_RD(2, g_ps_f3) }
      else if (j == 2) { PM_RD(0, g_ps_f2) if (g_ps_lo + 3 < g_ps_dlo) PM_RD(1, g_ps_f3) }
      else if (j == 3) { PM_RD(0, g_ps_f3) }
    }
    if (PM_CELL_ADDR() && PM_IN(g_a, address, r)) PM_DELIVER(d[(uint64_t)g_a - address], g_ps_cell);
  }
  return r;
}

#define PM_WR(k, f) { if ((uint64_t)(k) < (uint64_t)r) (f) = s[k]; }
static size_t st_medium_write(uint32_t address, const void *src, size_t n)
{
  const uint8_t *s = (const uint8_t *)src;
  if (n > 0 && !((uint64_t)address >= g_ps_lo && (uint64_t)address <= g_ps_hi && (uint64_t)n <= g_ps_hi - (uint64_t)address)) {
    CHECK(0, "PM region monitor: medium write inside [checksum.address, data.address + data.size)");
    return n;
  }
  if (!(n == 0 || __CPROVER_r_ok(src, n))) {
    CHECK(0, "PM medium write: source buffer holds the requested octets");
    return n;
  }
  CHECK(!(g_ps_cpos > 0 && n > 0 && (uint64_t)address + n > g_ps_dlo),
        "PM checksum: no data write after the fold over the data image started");
  size_t r = n;
  IN(size_t, st_wr_short)
  if (st_wr_short < n) { r = st_wr_short; g_ps_fault = 1; }
  if (g_ps_nwr == 0) { g_ps_w0a = address; g_ps_w0n = n; g_ps_w0r = r; }
  else if (g_ps_nwr == 1) { g_ps_w1a = address; g_ps_w1n = n; g_ps_w1r = r; }
  g_ps_nwr = PM_SAT3(g_ps_nwr);
  if (r > 0) {
    if ((uint64_t)address < g_ps_dlo) {
      /* the write starts inside the checksum field, at its octet j */
      const uint64_t j = (uint64_t)address - g_ps_lo;
      if (j == 0) { PM_WR(0, g_ps_f0) if (g_ps_lo + 1 < g_ps_dlo) PM_WR(1, g_ps_f1) if (g_ps_lo + 2 < g_ps_dlo) PM_WR(2, g_ps_f2) if (g_ps_lo + 3 < g_ps_dlo) PM_WR(3, g_ps_f3) }
      else if (j == 1) { PM_WR(0, g_ps_f1) if (g_ps_lo + 2 < g_ps_dlo) PM_WR(1, g_ps_f2) if (g_ps_lo + 3 < g_ps_dlo) PM_WR(2, g_ps_f3) }
      else if (j == 2) { PM_WR(0, g_ps_f2) if (g_ps_lo + 3 < g_ps_dlo) PM_WR(1, g_ps_f3) }
      else if (j == 3) { PM_WR(0, g_ps_f3) }
    }
    if (PM_CELL_ADDR() && PM_IN(g_a, address, r)) g_ps_cell = s[(uint64_t)g_a - address];
  }
  return r;
}

/* one step of the streaming fold; mask = 0xffff / 0xffffffff */
static uint32_t pm_fold_step(const unsigned char *data, size_t n, uint32_t init, uint32_t mask)
{
  const uint64_t dsize = g_ps_hi - g_ps_dlo;
  if (!((uint64_t)g_ps_cpos <= dsize && (uint64_t)n <= dsize - (uint64_t)g_ps_cpos)) {
    CHECK(0, "PM checksum: the algorithm is fed the data image once, not more");
    return init;
  }
  CHECK(init == (g_ps_crun & mask),
        "PM checksum: a call continues from the previous result (the first from the configured initial value)");
  if (n == 0) return init;
  if (!__CPROVER_r_ok(data, n)) {
    CHECK(0, "PM checksum: chunk handed to the algorithm is readable");
    return init;
  }
  if (PM_CELL_ADDR() && PM_IN(g_a, g_ps_dlo + g_ps_cpos, n))
    CHECK(data[(uint64_t)g_a - (g_ps_dlo + g_ps_cpos)] == g_ps_cell,
          "PM checksum: the octets fed are the medium's data image, in order");
  g_ps_cpos += n;
  IN(uint32_t, st_cs_mid)
  g_ps_crun = ((uint64_t)g_ps_cpos == dsize) ? g_ps_cfinal : st_cs_mid;
  return g_ps_crun & mask;
}

static uint16_t st_sum16(const unsigned char *data, size_t n, uint16_t init)
{
  return (uint16_t)pm_fold_step(data, n, init, 0xffffu);
}

static uint32_t st_sum32(const unsigned char *data, size_t n, uint32_t init)
{
  return pm_fold_step(data, n, init, 0xffffffffu);
}
#endif
