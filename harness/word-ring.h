/* Second instantiation of the ring-buffer macros of include/ufw/ring-buffer.h
 * and include/ufw/ring-buffer-iter.h with a 32-bit element type (C19: "and
 * element types").  This is what a user of the library writes; the expanded
 * code is the library's macro text. */
#ifndef HARNESS_WORD_RING_H
#define HARNESS_WORD_RING_H
#include <stdint.h>
#include <ufw/ring-buffer.h>
#include <ufw/ring-buffer-iter.h>
#define RB_HAVE_WORD_RING 1
RING_BUFFER_API(word_ring, uint32_t)
RING_BUFFER_ITER_API(word_ring, uint32_t)
RING_BUFFER(word_ring, uint32_t)
RING_BUFFER_ITER(word_ring, uint32_t)
#endif
