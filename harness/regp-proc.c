/* Harnesses for the processing side of the register protocol (C06, C09).
 *
 * Every memory object handed to the code under proof is an exact-size heap
 * block (IN_MEM), so an access one octet outside it fails a pointer check
 * (proof) or ASan (native replay).  The frame block has exactly
 * alloc->blocksize octets, like the blocks of the allocator stub.
 */

#if VERIF_IS_NATIVE
/* Native replay runs the REAL emit / receive path: the rest of the library is
 * compiled into the driver (the proof units replace it by contracts). */
#include <byte-buffer.c>
#include <endpoints/core.c>
#include <endpoints/trivial.c>
#include <endpoints/buffer.c>
#include <variable-length-integer.c>
#include <length-prefix.c>
#include <rfc1055.c>
#ifdef RPP_UNIT_REGP
#ifndef RPP_UNIT_SINK
#include <endpoints/continuable-sink.c>
#endif
#include <allocator.c>
#endif
/* endpoints of the instance: a sink that swallows everything, a source that
 * delivers the octets of a replay / random input and then fails */
static const unsigned char *nat_stream; static size_t nat_len, nat_pos;
static ssize_t nat_sink(void *d, const void *b, size_t n) { (void)d; (void)b; return (ssize_t)n; }
static ssize_t nat_source(void *d, void *b, size_t n)
{
  (void)d;
  if (nat_pos >= nat_len) return -EIO;
  if (n > nat_len - nat_pos) n = nat_len - nat_pos;
  memcpy(b, nat_stream + nat_pos, n); nat_pos += n;
  return (ssize_t)n;
}
#define RPP_NATIVE_ENDPOINTS(p) do { chunk_sink_init(&(p).ep.sink, nat_sink, NULL); \
  chunk_source_init(&(p).ep.source, nat_source, NULL); } while (0)
#else
#define RPP_NATIVE_ENDPOINTS(p) do { } while (0)
#endif

/* ---- ghost state ---------------------------------------------------------- */
#ifndef REGP_TX_GHOSTS_DEFINED
#define REGP_TX_GHOSTS_DEFINED
size_t g_tx_count;
uint8_t g_tx_hdr[16];
size_t g_tx_hs;
const void *g_tx_pl;
size_t g_tx_ps;
uint8_t g_tx_octet;
int g_tx_framing;
const Sink *g_tx_sink;
#endif
struct st_be_log g_be;
const unsigned char *g_blk_base;
size_t g_blk_size, g_blk_used;
size_t g_al_allocs, g_al_frees, g_al_live, g_al_bs;
void *g_al_block;
uint8_t g_rx_octet;
int g_dec_rc, g_dec_id;
size_t g_dec_len;
#ifdef REGP_USE_WIRE_H
const uint16_t *g_crcT;   /* ghost checksum trace of C16, see RPP_DEC_FRAME_CAP */
#define RPP_MAKE_TRACE() \
  uint16_t *trace_ = malloc((REGP_PF_MAX + 1u) * sizeof(uint16_t)); ASSUME(trace_ != NULL); g_crcT = trace_;
#else
#define RPP_MAKE_TRACE()
#endif

/* native random search draws unconstrained values: fold a value that is
 * outside the input domain into it (identity on every value of the domain, so
 * extracted counterexamples replay unchanged) */
#if VERIF_IS_NATIVE
#define RPP_FOLD(var, lo, hi) do { if ((var) < (lo) || (var) > (hi)) \
  (var) = (lo) + (__typeof__(var))((unsigned long long)(var) % ((unsigned long long)(hi) - (unsigned long long)(lo) + 1u)); } while (0)
#else
#define RPP_FOLD(var, lo, hi) do { } while (0)
#endif

/* hooks for case splits of a target (defines in targets/*.json) */
#ifndef RPP_PIN_ALLOC
#define RPP_PIN_ALLOC
#endif
#ifndef RPP_PIN_P
#define RPP_PIN_P
#endif

/* counters start anywhere: "exactly one more" is relative */
#define RPP_COUNTERS() \
  IN(size_t, in_tx0) IN(size_t, in_be0) g_tx_count = in_tx0; g_be_calls = in_be0;

/* an allocator configured with the stub drivers, any kind, any block size
 * above sizeof(RPFrame) */
#define RPP_MAKE_ALLOC() \
  IN(int, in_altype) IN(size_t, in_blocksize) \
  RPP_FOLD(in_altype, 0, 1); RPP_FOLD(in_blocksize, sizeof(RPFrame) + 1u, (size_t)RPP_BSMAX); \
  ASSUME(in_altype == UFW_ALLOC_GENERIC || in_altype == UFW_ALLOC_SLAB); \
  ASSUME(in_blocksize > sizeof(RPFrame) && in_blocksize <= RPP_BSMAX); RPP_PIN_ALLOC \
  BlockAllocator al; \
  al.type = (Allocator)in_altype; al.blocksize = in_blocksize; al.driver = NULL; \
  if (in_altype == UFW_ALLOC_GENERIC) al.alloc.generic = st_al_generic; else al.alloc.slab = st_al_slab; \
  al.free = st_al_free; \
  g_al_bs = in_blocksize;

/* a protocol instance: either memory word size, either transport, any
 * sequence counter, stub back end, the allocator above */
#define RPP_MAKE_P() \
  RPP_MAKE_ALLOC() \
  IN(int, in_memtype) IN(int, in_eptype) IN(uint16_t, in_session) \
  RPP_FOLD(in_memtype, 0, 1); RPP_FOLD(in_eptype, 0, 1); \
  ASSUME(in_memtype == RP_MEMTYPE_8 || in_memtype == RP_MEMTYPE_16); \
  ASSUME(in_eptype == RP_EP_SERIAL || in_eptype == RP_EP_TCP); RPP_PIN_P \
  RegP p; \
  p.memory.type = (RPMemoryType)in_memtype; \
  if (in_memtype == RP_MEMTYPE_16) { p.memory.access.m16.read = st_be_read16; p.memory.access.m16.write = st_be_write16; } \
  else { p.memory.access.m8.read = st_be_read8; p.memory.access.m8.write = st_be_write8; } \
  p.session.sequence = in_session; \
  p.ep.type = (RPEndpointType)in_eptype; \
  p.alloc = &al; \
  RPP_NATIVE_ENDPOINTS(p);

/* a frame structure with arbitrary header fields (named for replay) */
#define RPP_MAKE_FRAME_FIELDS(f) \
  IN(int, in_type) IN(uint8_t, in_options) IN(unsigned, in_meta) IN(uint16_t, in_seq) \
  IN(uint32_t, in_addr) IN(uint32_t, in_bsz) \
  (f)->header.version = 0; (f)->header.type = (RPFrameType)in_type; (f)->header.options = in_options; \
  (f)->header.meta.raw = in_meta; (f)->header.sequence = in_seq; (f)->header.address = in_addr; \
  (f)->header.blocksize = in_bsz;

#ifdef RPP_UNIT_REGP

/* ------------------------------------------------------------------------ */
/* C06: matching API and helpers                                              */

#define H_IS(fn) \
void h_##fn(void) \
{ \
  IN(int, in_null) IN(int, in_type) IN(uint8_t, in_options) \
  RPFrame f; \
  f.header.type = (RPFrameType)in_type; f.header.options = in_options; \
  fn(in_null ? (const RPFrame *)0 : &f); \
  VERIF_CANARY(); \
}
H_IS(regp_is_valid)
H_IS(regp_is_request)
H_IS(regp_is_response)
H_IS(regp_is_read_request)
H_IS(regp_is_write_request)
H_IS(regp_is_read_response)
H_IS(regp_is_write_response)
H_IS(regp_is_meta_message)

#define H_OPT(fn) \
void h_##fn(void) \
{ \
  IN(int, in_type) IN(uint8_t, in_options) \
  RPFrame f; \
  f.header.type = (RPFrameType)in_type; f.header.options = in_options; \
  fn(&f); \
  VERIF_CANARY(); \
}
H_OPT(regp_is_16bitsem)
H_OPT(regp_has_hdcrc)
H_OPT(regp_has_plcrc)

void h_memtype_valid(void)
{
  IN(int, in_memtype) IN(uint8_t, in_options)
  RegP p; RPFrame f;
  p.memory.type = (RPMemoryType)in_memtype;
  f.header.options = in_options;
  memtype_valid(&p, &f);
  VERIF_CANARY();
}

void h_req2resp(void)
{
  IN(int, in_type)
  req2resp((RPFrameType)in_type);
  VERIF_CANARY();
}

void h_msem_size(void)
{
  IN(int, in_memtype) IN(unsigned, in_msem) IN(size_t, in_n)
  RegP p;
  p.memory.type = (RPMemoryType)in_memtype;
  msem_size(&p, in_msem, in_n);
  VERIF_CANARY();
}

void h_trxbufsize(void)
{
  IN(size_t, in_blocksize)
  BlockAllocator al; RegP p;
  al.blocksize = in_blocksize;
  p.alloc = &al;
  trxbufsize(&p);
  VERIF_CANARY();
}

void h_regaccess2blockaccess(void)
{
  IN(int, in_code) IN(uint32_t, in_address)
  RegisterAccess a;
  a.code = (RegisterAccessCode)in_code; a.address = in_address;
  regaccess2blockaccess(a);
  VERIF_CANARY();
}

/* ------------------------------------------------------------------------ */
/* C06: responders                                                            */

#define H_RESP_PROLOGUE() \
  GHOST_HAVOC(); \
  RPP_MAKE_P() \
  RPP_COUNTERS() \
  RPFrame f; \
  RPP_MAKE_FRAME_FIELDS(&f)

void h_send_resp_0(void)
{
  H_RESP_PROLOGUE()
  IN(int, in_code) IN(unsigned, in_msem)
  send_resp_0(&p, &f, (RPResponse)in_code, in_msem);
  VERIF_CANARY();
}

void h_send_resp_32(void)
{
  H_RESP_PROLOGUE()
  IN(int, in_code) IN(unsigned, in_msem) IN(uint32_t, in_datum)
  send_resp_32(&p, &f, (RPResponse)in_code, in_datum, in_msem);
  VERIF_CANARY();
}

void h_regp_resp_ack(void)
{
  H_RESP_PROLOGUE()
  IN(size_t, in_n) IN(int, in_nopl)
  ASSUME(in_n <= RPP_BSMAX);
  size_t octets = in_n * (in_memtype == RP_MEMTYPE_16 ? 2u : 1u);
  IN_MEM(in_pl, octets)
  regp_resp_ack(&p, &f, in_nopl ? (const void *)0 : in_pl, in_nopl ? 0u : in_n);
  VERIF_CANARY();
}

#define H_ERR0(fn) \
void h_##fn(void) \
{ \
  H_RESP_PROLOGUE() \
  fn(&p, &f); \
  VERIF_CANARY(); \
}
#define H_ERR32(fn) \
void h_##fn(void) \
{ \
  H_RESP_PROLOGUE() \
  IN(uint32_t, in_datum) \
  fn(&p, &f, in_datum); \
  VERIF_CANARY(); \
}
H_ERR0(regp_resp_ewordsize)
H_ERR0(regp_resp_epayloadcrc)
H_ERR0(regp_resp_epayloadsize)
H_ERR0(regp_resp_ebusy)
H_ERR0(regp_resp_eio)
H_ERR32(regp_resp_erxoverflow)
H_ERR32(regp_resp_etxoverflow)
H_ERR32(regp_resp_eunmapped)
H_ERR32(regp_resp_eaccess)
H_ERR32(regp_resp_erange)
H_ERR32(regp_resp_einvalid)

void h_regp_resp_meta(void)
{
  GHOST_HAVOC();
  RPP_MAKE_P()
  RPP_COUNTERS()
  IN(uint8_t, in_meta)
  regp_resp_meta(&p, in_meta);
  VERIF_CANARY();
}

/* ------------------------------------------------------------------------ */
/* C06 + C09: regp_process on a frame laid out in its block as the receiver   */
/* leaves it: any type / options / sequence / address / block size, any       */
/* error id, any raw length, any header length the parser can produce         */

void h_regp_process(void)
{
  GHOST_HAVOC();
  RPP_MAKE_P()
  RPP_COUNTERS()
  IN(int, in_errid) IN(int, in_noframe) IN(size_t, in_rawsize) IN(size_t, in_hlen) IN(size_t, in_framesize)
  ASSUME(in_rawsize <= in_blocksize - sizeof(RPFrame));
  ASSUME(in_hlen <= 16u && in_hlen <= in_rawsize);
  IN_MEM(in_block, in_blocksize)
  RPFrame *f = (RPFrame *)in_block;
  RPP_MAKE_FRAME_FIELDS(f)
  f->raw.memory = in_block + sizeof(RPFrame);
  f->raw.size = in_rawsize;
  f->payload.data = in_block + sizeof(RPFrame) + in_hlen;
  f->payload.size = in_rawsize - in_hlen;
  RPMaybeFrame mf;
  mf.error.id = in_errid; mf.error.framesize = in_framesize;
  mf.frame = in_noframe ? (RPFrame *)0 : f;
  g_blk_base = in_block; g_blk_size = in_blocksize; g_blk_used = sizeof(RPFrame) + in_rawsize;
  IN(uint8_t, in_rx_octet)
  g_rx_octet = in_rx_octet;
  regp_process(&p, &mf);
  VERIF_CANARY();
}

#endif /* RPP_UNIT_REGP */

/* ------------------------------------------------------------------------ */
/* C09: allocator front end, release                                          */

void h_block_alloc(void)
{
  RPP_MAKE_ALLOC()
  IN(size_t, in_allocs0)
  g_al_allocs = in_allocs0; g_al_live = 0;
  void *m = (void *)0;
  block_alloc(&al, &m);
  VERIF_CANARY();
}

void h_block_free(void)
{
  RPP_MAKE_ALLOC()
  IN(size_t, in_frees0) IN(size_t, in_live0) IN(int, in_other)
  IN_MEM(in_block, in_blocksize)
  IN_MEM(in_else, 1)
  g_al_frees = in_frees0; g_al_live = in_live0; g_al_block = in_other ? in_else : in_block;
  block_free(&al, in_block);
  VERIF_CANARY();
}

#ifdef RPP_UNIT_REGP
void h_regp_free(void)
{
  RPP_MAKE_P()
  IN(size_t, in_frees0) IN(size_t, in_live0) IN(int, in_other) IN(int, in_noframe)
  IN_MEM(in_block, in_blocksize)
  IN_MEM(in_else, 1)
  g_al_frees = in_frees0; g_al_live = in_live0; g_al_block = in_other ? in_else : in_block;
  regp_free(&p, in_noframe ? (RPFrame *)0 : (RPFrame *)in_block);
  VERIF_CANARY();
}

void h_setup_buffer(void)
{
  IN(size_t, in_size) IN(size_t, in_used) IN(size_t, in_offset)
  IN_MEM(in_data, 1)
  ByteBuffer b = { in_data, in_size, in_used, in_offset };
  setup_buffer(&b);
  VERIF_CANARY();
}

#endif /* RPP_UNIT_REGP */

#if defined(RPP_UNIT_REGP) && defined(RPP_UNIT_SINK)
/* ------------------------------------------------------------------------ */
/* C09: the continuable sink in any state of its invariant                    */

#define RPP_MAKE_CS() \
  RPP_MAKE_ALLOC() \
  IN(size_t, in_fbsize) IN(size_t, in_fbused) IN(size_t, in_fboffset) \
  ASSUME(in_fbsize >= 1 && in_fbsize <= RPP_FBMAX && in_fboffset <= in_fbused && in_fbused <= in_fbsize); \
  IN_MEM(in_fbdata, in_fbsize) \
  ByteBuffer fb = { in_fbdata, in_fbsize, in_fbused, in_fboffset }; \
  IN(int, in_hasblock) IN(size_t, in_used) IN(size_t, in_offset) IN(size_t, in_size) \
  IN(int, in_errid) IN(size_t, in_datacount) IN(size_t, in_allocs0) IN(size_t, in_live0) \
  IN_MEM(in_block, in_blocksize) \
  ContinuableSink cs; \
  cs.alloc = &al; cs.fallback = &fb; cs.postalloc = setup_buffer; \
  cs.buffer.data = in_hasblock ? in_block : (unsigned char *)0; \
  cs.buffer.size = in_size; cs.buffer.used = in_used; cs.buffer.offset = in_offset; \
  cs.error.id = in_errid; cs.error.datacount = in_datacount; \
  g_al_allocs = in_allocs0; g_al_live = in_live0; g_al_block = in_block;

void h_cs_add(void)
{
  GHOST_HAVOC();
  RPP_MAKE_CS()
  IN(size_t, in_n)
  ASSUME(in_n <= 2 * RPP_BSMAX);
  IN_MEM(in_chunk, in_n)
  /* keep both size queries of the byte buffer in the unit whichever the code uses */
  (void)byte_buffer_avail(&fb); (void)byte_buffer_rest(&fb);
  cs_add(&cs, in_chunk, in_n);
  VERIF_CANARY();
}

void h_run_continuable_sink(void)
{
  GHOST_HAVOC();
  RPP_MAKE_CS()
  IN(size_t, in_n)
  ASSUME(in_n <= 2 * RPP_BSMAX);
  IN_MEM(in_chunk, in_n)
  run_continuable_sink(&cs, in_chunk, in_n);
  VERIF_CANARY();
}

void h_continuable_sink_init(void)
{
  RPP_MAKE_CS()
  Sink s;
  continuable_sink_init(&s, &cs);
  VERIF_CANARY();
}

/* the state continuable_sink_init establishes, with a clean ledger and an
 * empty fallback buffer as regp_recv sets them up, satisfies the invariant */
void h_cs_invariant_base(void)
{
  RPP_MAKE_CS()
  ASSUME(in_fbused == 0 && in_fboffset == 0);
  Sink s;
  g_al_allocs = 0; g_al_live = 0;
  continuable_sink_init(&s, &cs);
  CHECK(RPP_CS_WF(&cs), "initial state of the continuable sink satisfies the invariant");
  VERIF_CANARY();
}

#endif

#ifdef RPP_UNIT_REGP
/* ------------------------------------------------------------------------ */
/* C09: early replies                                                         */

#define H_EARLY_PROLOGUE() \
  GHOST_HAVOC(); \
  RPP_MAKE_P() \
  RPP_COUNTERS() \
  IN(size_t, in_fbsize) IN(size_t, in_fbused) IN(size_t, in_fboffset) \
  ASSUME(in_fbsize >= 1 && in_fbsize <= RPP_FBMAX && in_fboffset <= in_fbused && in_fbused <= in_fbsize); \
  IN_MEM(in_fbdata, in_fbsize) \
  ByteBuffer fb = { in_fbdata, in_fbsize, in_fbused, in_fboffset };

void h_send_early_response(void)
{
  H_EARLY_PROLOGUE()
  IN(int, in_code)
  send_early_response(&p, &fb, (RPResponse)in_code);
  VERIF_CANARY();
}

void h_early_ebusy(void)
{
  H_EARLY_PROLOGUE()
  early_ebusy(&p, &fb);
  VERIF_CANARY();
}

void h_early_erxoverflow(void)
{
  H_EARLY_PROLOGUE()
  early_erxoverflow(&p, &fb);
  VERIF_CANARY();
}

#endif

#if defined(REGP_USE_WIRE_H) && defined(RPP_UNIT_REGP)
/* The structure of a parsed frame that the receiver's proof assumes
 * (RPP_PF_STRUCT) follows from the reference-decoder contract of parse_frame
 * (contracts/regp-wire.h, enforced in C07): parse_frame is replaced by THAT
 * contract here.  Block of fixed size with symbolic fill, as in C07's own
 * target (a symbolic-size block makes the trace axiom intractable). */
void h_lemma_parse_frame_structure(void)
{
  IN(size_t, in_n)
  ASSUME(in_n <= REGP_PF_MAX);
  IN_MEM(in_block, sizeof(RPFrame) + REGP_PF_MAX)
  uint16_t *T = malloc((REGP_PF_MAX + 1u) * sizeof(uint16_t));
  ASSUME(T != NULL);
  g_crcT = T;
  ByteBuffer fb = { in_block, sizeof(RPFrame) + REGP_PF_MAX, sizeof(RPFrame) + in_n, 0 };
  ASSUME(IMPLIES(in_n >= 12u, in_n <= RPW_PF_HLEN(&fb) + CRC_NMAX));
#if VERIF_IS_NATIVE
  if (in_n >= 12u && in_n > RPW_PF_HLEN(&fb)) {
    const unsigned char *pl_ = RPW_PF_RAW(&fb) + RPW_PF_HLEN(&fb);
    T[0] = 0;
    for (size_t i_ = 0; i_ < in_n - RPW_PF_HLEN(&fb); i_++) T[i_ + 1] = spec_crc16_step(T[i_], pl_[i_]);
  }
#else
  ASSUME(IMPLIES(in_n >= 12u, REGP_PF_TRACE_OK(&fb)));
#endif
  int rc = parse_frame(&fb);
  CHECK(RPP_PF_STRUCT(&fb, rc), "the reference-decoder contract of parse_frame implies the structure the receiver relies on");
  VERIF_CANARY();
}
#endif

#if defined(RPP_UNIT_REGP) && defined(RPP_UNIT_SINK)
/* ------------------------------------------------------------------------ */
/* C09: the receiver                                                          */

void h_regp_recv(void)
{
  GHOST_HAVOC();
  RPP_MAKE_P()
  RPP_COUNTERS()
  g_al_allocs = 0; g_al_live = 0; g_al_frees = 0;
  RPP_MAKE_TRACE()
#if VERIF_IS_NATIVE
  /* the proof abstracts the decoders; natively the real ones run on a stream */
  IN(size_t, in_streamlen)
  RPP_FOLD(in_streamlen, 0, 4 * (size_t)RPP_BSMAX);
  ASSUME(in_streamlen <= 4 * RPP_BSMAX);
  IN_MEM(in_stream, in_streamlen)
  nat_stream = in_stream; nat_len = in_streamlen; nat_pos = 0;
#endif
  RPMaybeFrame mf;
  regp_recv(&p, &mf);
  VERIF_CANARY();
}

/* composition: what regp_recv promises about a returned frame is what
 * regp_process requires (same predicates, tied to the block observation) */
void h_lemma_recv_process(void)
{
  GHOST_HAVOC();
  RPP_MAKE_P()
  RPP_COUNTERS()
  g_al_allocs = 0; g_al_live = 0; g_al_frees = 0;
  RPP_MAKE_TRACE()
  RPMaybeFrame mf;
  int rc = regp_recv(&p, &mf);
  if (g_dec_rc >= 0) {
    if (mf.frame != NULL) {
      g_blk_base = (const unsigned char *)mf.frame; g_blk_size = p.alloc->blocksize;
      g_blk_used = sizeof(RPFrame) + (RPP_ID_PARSED(mf.error.id) ? mf.frame->raw.size : 0u);
    }
    CHECK(RPP_FRAME_WF(&p, &mf), "a frame returned by regp_recv satisfies the precondition of regp_process");
    /* CBMC resolves a dereference through its points-to sets, which an
     * assumed equality (the replaced contract of regp_recv) does not feed: the
     * two pointers stored inside the block are re-stored from the block's base
     * -- a no-op by the assertion just before -- so that reads through them
     * reach the block. */
    if (mf.frame != NULL && RPP_ID_PARSED(mf.error.id)) {
      const size_t hl = RPP_HLEN(mf.frame);
      CHECK(RPP_SAME_BLOCK(mf.frame->payload.data, mf.frame) && RPP_SAME_BLOCK(mf.frame->raw.memory, mf.frame)
            && RPP_PDIFF(mf.frame->raw.memory, mf.frame) == sizeof(RPFrame) && hl <= 16u,
            "pointers of a parsed frame point into its block");
      mf.frame->raw.memory = (unsigned char *)mf.frame + sizeof(RPFrame);
      mf.frame->payload.data = (unsigned char *)mf.frame + sizeof(RPFrame) + hl;
    }
    /* name the payload octet at the ghost index, as the contract of regp_process does */
    if (RPP_VALID(&p, &mf) && !RPP_IS_READ(&mf) && g_k < RPP_BS(&mf) * RPP_WS(&p))
      g_rx_octet = ((const uint8_t *)mf.frame->payload.data)[g_k];
    regp_process(&p, &mf);
    regp_free(&p, mf.frame);
    CHECK(g_al_live == 0 && g_al_frees <= g_al_allocs && g_al_allocs <= 1,
          "after the documented receive / process / free sequence no block is live, none was freed twice");
  }
  (void)rc;
  VERIF_CANARY();
}
#endif
