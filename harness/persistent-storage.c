/* Harnesses for src/persistent-storage.c (C10, C11).
 *
 * Input domain of PS_STATE(): every placement (32-bit checksum address, region
 * not wrapping), both checksum widths, every initial value, every data size
 * 1..PS_DMAX, no auxiliary buffer or one of ANY size 0..PS_AMAX (exact-size
 * heap block), arbitrary medium content (checksum field octets, the octet at
 * the arbitrary address g_a), arbitrary value g_ps_cfinal of the configured
 * algorithm on the medium's data image.  Faults are chosen inside the stubs.
 */
#ifndef PS_DMAX
#define PS_DMAX 0xffffffffull
#endif
#ifndef PS_AMAX
#define PS_AMAX 0x100000000ull
#endif

/* ghost state of stubs/persistent_medium.h */
uint64_t g_ps_lo, g_ps_dlo, g_ps_hi;
uint8_t g_ps_f0, g_ps_f1, g_ps_f2, g_ps_f3;
uint8_t g_ps_cell;
int g_ps_fault;
unsigned g_ps_nrd, g_ps_nwr;
uint64_t g_ps_w0a, g_ps_w0n, g_ps_w0r, g_ps_w1a, g_ps_w1n, g_ps_w1r;
size_t g_ps_cpos;
uint32_t g_ps_crun, g_ps_cfinal;
const uint16_t *g_tsT;

/* the stubs' addresses are taken in code: candidates of the function-pointer calls */
PersistentBlockRead ps_take_rd = st_medium_read;
PersistentBlockWrite ps_take_wr = st_medium_write;
PersistentChksum16 ps_take_c16 = st_sum16;
PersistentChksum32 ps_take_c32 = st_sum32;

#define PS_FOLD_RESET(st) do { g_ps_cpos = 0; \
    g_ps_crun = ((st).checksum.type == PERSISTENT_CHECKSUM_16BIT) ? (uint32_t)(st).checksum.initial.sum16 \
                                                                   : (st).checksum.initial.sum32; } while (0)

#define PS_STATE() \
  GHOST_HAVOC(); \
  IN(uint32_t, in_caddr) IN(size_t, in_dsize) IN(int, in_wide) IN(uint32_t, in_init) \
  IN(int, in_has_aux) IN(size_t, in_auxn) \
  IN(uint8_t, in_f0) IN(uint8_t, in_f1) IN(uint8_t, in_f2) IN(uint8_t, in_f3) IN(uint8_t, in_cell) \
  IN(uint32_t, in_cfinal) \
  ASSUME(in_dsize >= 1 && (uint64_t)in_dsize <= PS_DMAX); \
  ASSUME((uint64_t)in_caddr + (in_wide ? 4u : 2u) + (uint64_t)in_dsize <= 0x100000000ull); \
  ASSUME((uint64_t)in_auxn <= PS_AMAX); \
  IN_MEM(in_aux, in_auxn) \
  PersistentStorage st; \
  memset(&st, 0, sizeof st); \
  st.checksum.address = in_caddr; \
  st.checksum.type = in_wide ? PERSISTENT_CHECKSUM_32BIT : PERSISTENT_CHECKSUM_16BIT; \
  st.checksum.size = in_wide ? 4u : 2u; \
  if (in_wide) { st.checksum.initial.sum32 = in_init; st.checksum.process.c32 = st_sum32; } \
  else { st.checksum.initial.sum16 = (uint16_t)in_init; st.checksum.process.c16 = st_sum16; } \
  st.data.address = in_caddr + (in_wide ? 4u : 2u); \
  st.data.size = in_dsize; \
  st.block.read = st_medium_read; \
  st.block.write = st_medium_write; \
  st.buffer.data = in_has_aux ? in_aux : (unsigned char *)0; \
  st.buffer.size = in_auxn; \
  g_ps_lo = in_caddr; g_ps_dlo = g_ps_lo + (in_wide ? 4u : 2u); g_ps_hi = g_ps_dlo + in_dsize; \
  g_ps_f0 = in_f0; g_ps_f1 = in_f1; g_ps_f2 = in_f2; g_ps_f3 = in_f3; g_ps_cell = in_cell; \
  g_ps_cfinal = in_cfinal; g_ps_fault = 0; g_ps_nrd = 0; g_ps_nwr = 0; \
  g_ps_w0a = g_ps_w0n = g_ps_w0r = g_ps_w1a = g_ps_w1n = g_ps_w1r = 0; \
  PS_FOLD_RESET(st);

/* an arbitrary instance record (configuration functions) */
#define PS_RAW() \
  IN(int, in_wide) \
  IN_MEM(in_st, sizeof(PersistentStorage)) \
  PersistentStorage *sp = (PersistentStorage *)in_st; \
  sp->checksum.type = in_wide ? PERSISTENT_CHECKSUM_32BIT : PERSISTENT_CHECKSUM_16BIT;

/* ---- configuration ------------------------------------------------------ */
void h_checksum_size(void)
{
  PS_RAW()
  checksum_size(sp);
  VERIF_CANARY();
}

void h_set_data_address(void)
{
  PS_RAW()
  set_data_address(sp);
  VERIF_CANARY();
}

void h_persistent_sum16(void)
{
  PS_RAW()
  IN(uint16_t, in_init)
  persistent_sum16(sp, st_sum16, in_init);
  VERIF_CANARY();
}

void h_persistent_sum32(void)
{
  PS_RAW()
  IN(uint32_t, in_init)
  persistent_sum32(sp, st_sum32, in_init);
  VERIF_CANARY();
}

void h_persistent_init(void)
{
  PS_RAW()
  IN(size_t, in_size)
  persistent_init(sp, in_size, st_medium_read, st_medium_write);
  VERIF_CANARY();
}

void h_persistent_place(void)
{
  PS_RAW()
  IN(uint32_t, in_addr)
  persistent_place(sp, in_addr);
  VERIF_CANARY();
}

void h_persistent_buffer(void)
{
  PS_RAW()
  IN(size_t, in_n) IN(int, in_null)
  IN_MEM(in_b, 1)
  persistent_buffer(sp, in_null ? (unsigned char *)0 : in_b, in_n);
  VERIF_CANARY();
}

/* Lemma (configuration): an instance set up through the API (init, then a
 * checksum algorithm and a placement in either order, then an auxiliary
 * buffer of any size) has the layout every operation contract requires
 * (PS_CFG_OK), for every placement that does not wrap and both widths. */
void h_lemma_config(void)
{
  IN(size_t, in_size) IN(uint32_t, in_addr) IN(int, in_wide) IN(int, in_order) IN(uint32_t, in_init)
  IN(int, in_use_default) IN(size_t, in_n)
  IN_MEM(in_st, sizeof(PersistentStorage))
  IN_MEM(in_b, 1)
  PersistentStorage *sp = (PersistentStorage *)in_st;
  ASSUME(in_size >= 1 && (uint64_t)in_size <= 0x100000000ull);
  ASSUME((uint64_t)in_addr + (in_wide ? 4u : 2u) + (uint64_t)in_size <= 0x100000000ull);
  persistent_init(sp, in_size, st_medium_read, st_medium_write);
  if (in_use_default) {
    ASSUME(!in_wide);
    CHECK(sp->checksum.process.c16 == trivialsum && sp->checksum.initial.sum16 == 0,
          "default algorithm is the trivial sum started at 0");
    persistent_place(sp, in_addr);
  } else if (in_order) {
    persistent_place(sp, in_addr);
    if (in_wide) persistent_sum32(sp, st_sum32, in_init); else persistent_sum16(sp, st_sum16, (uint16_t)in_init);
  } else {
    if (in_wide) persistent_sum32(sp, st_sum32, in_init); else persistent_sum16(sp, st_sum16, (uint16_t)in_init);
    persistent_place(sp, in_addr);
  }
  persistent_buffer(sp, in_b, in_n);
  CHECK(PS_CFG_OK(sp), "API-configured instance is well formed: field at the placement, data right behind it");
  CHECK(sp->checksum.address == in_addr && sp->data.size == in_size
        && PS_16(sp) == !in_wide, "placement, size and width as configured");
  CHECK(sp->block.read == st_medium_read && sp->block.write == st_medium_write, "medium callbacks as configured");
  CHECK(sp->buffer.data == in_b && sp->buffer.size == in_n, "auxiliary buffer as configured");
  VERIF_CANARY();
}

/* ---- the default algorithm --------------------------------------------- */
#if VERIF_IS_NATIVE
#define TS_TRACE(T, start, bytes, n) \
  uint16_t *T = (uint16_t *)verif_alloc_exact("ghost_T", ((n) + 1) * 2); \
  T[0] = (start); for (size_t i_ = 0; i_ < (n); i_++) T[i_ + 1] = spec_bytesum16((bytes) + i_, 1, T[i_]);
#else
#define TS_TRACE(T, start, bytes, n) \
  uint16_t *T = malloc(((n) + 1) * sizeof(uint16_t)); ASSUME(T != NULL);
#endif

void h_trivialsum(void)
{
  IN(uint16_t, in_init) IN(size_t, in_n)
  ASSUME(in_n <= TS_NMAX);
  IN_MEM(in_buf, in_n)
  TS_TRACE(T, in_init, in_buf, in_n)
  g_tsT = T;
  trivialsum(in_buf, in_n, in_init);
  VERIF_CANARY();
}

/* Lemma: the trivial sum is a streaming fold (chunk-composable), i.e. an
 * instance of what stubs/persistent_medium.h assumes of the algorithm. */
void h_lemma_trivialsum_concat(void)
{
  IN(uint16_t, in_init) IN(size_t, in_n) IN(size_t, in_m)
  ASSUME(in_n <= TS_NMAX && in_m <= in_n);
  IN_MEM(in_buf, in_n)
  TS_TRACE(T, in_init, in_buf, in_n)
#if !VERIF_IS_NATIVE
  ASSUME(TS_TRACE_OK(T, in_init, in_buf, in_n));
#endif
  g_tsT = T;
  uint16_t whole = trivialsum(in_buf, in_n, in_init);
  uint16_t first = trivialsum(in_buf, in_m, in_init);
  g_tsT = T + in_m;
  uint16_t second = trivialsum(in_buf + in_m, in_n - in_m, first);
  CHECK(second == whole, "trivialsum(buf[0..n)) == trivialsum continued over the second chunk");
  VERIF_CANARY();
}

/* ---- checksum helpers ---------------------------------------------------- */
void h_persistent_checksum(void)
{
  PS_STATE()
  IN_MEM(in_src, in_dsize)
  /* the image handed in is the medium's data image */
  if (PS_GA_IN(g_ps_dlo, in_dsize)) g_ps_cell = in_src[(uint64_t)g_a - g_ps_dlo];
  persistent_checksum(&st, in_src);
  VERIF_CANARY();
}

void h_persistent_calculate_checksum(void)
{
  PS_STATE()
  persistent_calculate_checksum(&st);
  VERIF_CANARY();
}

void h_persistent_store_checksum(void)
{
  PS_STATE()
  IN(uint32_t, in_sum) IN(unsigned, in_nwr)
  IN(uint64_t, in_w0a) IN(uint64_t, in_w0n) IN(uint64_t, in_w0r)
  PersistentChecksum sum;
  sum.sum32 = in_sum;
  ASSUME(in_nwr <= 3);
  g_ps_nwr = in_nwr; g_ps_w0a = in_w0a; g_ps_w0n = in_w0n; g_ps_w0r = in_w0r;
  persistent_store_checksum(&st, sum);
  VERIF_CANARY();
}

void h_persistent_fetch_checksum(void)
{
  PS_STATE()
  persistent_fetch_checksum(&st);
  VERIF_CANARY();
}

void h_persistent_match(void)
{
  PS_RAW()
  IN(uint32_t, in_a) IN(uint32_t, in_b)
  PersistentChecksum a, b;
  a.sum32 = in_a;
  b.sum32 = in_b;
  persistent_match(sp, a, b);
  VERIF_CANARY();
}

/* ---- public operations --------------------------------------------------- */
void h_persistent_validate(void)
{
  PS_STATE()
  persistent_validate(&st);
  VERIF_CANARY();
}

void h_persistent_fetch_part(void)
{
  PS_STATE()
  IN(size_t, in_offset) IN(size_t, in_n)
  size_t dl = SPEC_PS_IN_RANGE(in_offset, in_n, in_dsize) ? in_n : 1;
  IN_MEM(in_dst, dl)
  persistent_fetch_part(in_dst, &st, in_offset, in_n);
  VERIF_CANARY();
}

void h_persistent_fetch(void)
{
  PS_STATE()
  IN_MEM(in_dst, in_dsize)
  persistent_fetch(in_dst, &st);
  VERIF_CANARY();
}

void h_persistent_store_part(void)
{
  PS_STATE()
  IN(size_t, in_offset) IN(size_t, in_n)
  size_t sl = SPEC_PS_IN_RANGE(in_offset, in_n, in_dsize) ? in_n : 1;
  IN_MEM(in_src, sl)
  persistent_store_part(&st, in_src, in_offset, in_n);
  VERIF_CANARY();
}

void h_persistent_store(void)
{
  PS_STATE()
  IN_MEM(in_src, in_dsize)
  persistent_store(&st, in_src);
  VERIF_CANARY();
}

/* persistent_writen has two call sites (its precondition): the checksum field
 * and the data area; one target each, together they cover the precondition */
void h_persistent_writen_field(void)
{
  PS_STATE()
  IN(uint8_t, in_item)
  persistent_writen(&st, in_caddr, in_item, in_wide ? 4u : 2u);
  VERIF_CANARY();
}

void h_persistent_writen_data(void)
{
  PS_STATE()
  IN(uint8_t, in_item)
  persistent_writen(&st, (uint32_t)g_ps_dlo, in_item, in_dsize);
  VERIF_CANARY();
}

void h_persistent_reset(void)
{
  PS_STATE()
  IN(uint8_t, in_item)
  persistent_reset(&st, in_item);
  VERIF_CANARY();
}

/* ---- lemmas over the contracts (C10) -------------------------------------- */

/* After a successful full or partial store, validation succeeds and a fetch
 * returns exactly the stored image (the part from src, the rest as before). */
void h_lemma_store_validate_fetch(void)
{
  PS_STATE()
  IN(size_t, in_offset) IN(size_t, in_n) IN(int, in_full)
  if (in_full) { in_offset = 0; in_n = in_dsize; }
  ASSUME(SPEC_PS_IN_RANGE(in_offset, in_n, in_dsize));
  IN_MEM(in_src, in_n)
  IN_MEM(in_dst, in_dsize)
  const uint8_t old_cell = g_ps_cell;
  PersistentAccess rs = in_full ? persistent_store(&st, in_src)
                                : persistent_store_part(&st, in_src, in_offset, in_n);
  if (rs == PERSISTENT_ACCESS_SUCCESS) {
    CHECK(!g_ps_fault, "success only without a failed medium call");
    PS_FOLD_RESET(st);
    PersistentAccess rv = persistent_validate(&st);
    CHECK(g_ps_fault || rv == PERSISTENT_ACCESS_SUCCESS, "store succeeded => validation succeeds");
    if (!g_ps_fault) {
      PersistentAccess rf = persistent_fetch(in_dst, &st);
      CHECK(g_ps_fault || rf == PERSISTENT_ACCESS_SUCCESS, "store succeeded => fetch succeeds");
      if (!g_ps_fault && PS_GA_IN(g_ps_dlo, in_dsize)) {
        const size_t i = (size_t)((uint64_t)g_a - g_ps_dlo);
        if (i >= in_offset && i - in_offset < in_n)
          CHECK(in_dst[i] == in_src[i - in_offset], "fetch returns the stored part");
        else
          CHECK(in_dst[i] == old_cell, "fetch returns the untouched rest of the image");
      }
    }
  } else {
    CHECK(rs == PERSISTENT_ACCESS_IO_ERROR && g_ps_fault, "an in-range store fails only with an I/O error after a failed medium call");
  }
  VERIF_CANARY();
}

/* Any alteration of a stored octet (data octet: the image's checksum becomes
 * in_cfinal2; field octet: the field value changes) is reported as invalid
 * data whenever the configured checksum distinguishes the two images. */
void h_lemma_alteration_detected(void)
{
  PS_STATE()
  IN(int, in_alter_field) IN(uint32_t, in_cfinal2) IN(uint8_t, in_newoctet) IN(unsigned, in_which)
  /* a valid store: the field holds the checksum of the data image */
  ASSUME(PS_FIELD(&st) == PS_FINAL(&st));
  if (in_alter_field) {
    ASSUME(in_which < (in_wide ? 4u : 2u));
    uint8_t *f = in_which == 0 ? &g_ps_f0 : in_which == 1 ? &g_ps_f1 : in_which == 2 ? &g_ps_f2 : &g_ps_f3;
    ASSUME(in_newoctet != *f);
    *f = in_newoctet;
  } else {
    /* a data octet changed; the checksum distinguishes the two images */
    const uint32_t before = PS_FINAL(&st);
    g_ps_cfinal = in_cfinal2;
    ASSUME(PS_FINAL(&st) != before);
  }
  PersistentAccess rv = persistent_validate(&st);
  CHECK(g_ps_fault || rv == PERSISTENT_ACCESS_INVALID_DATA, "altered octet => invalid data");
  CHECK(!g_ps_fault || rv == PERSISTENT_ACCESS_IO_ERROR, "failed read => I/O error");
  VERIF_CANARY();
}

/* ---- lemma over the contracts (C11) ----------------------------------------
 * Crash points.  A store that is cut off after a prefix of its medium writes,
 * the last one torn at any octet, leaves the medium in a state that the
 * store_part contract describes under fault injection (a crash after w octets
 * of a write and a write that transfers w octets and makes the library stop
 * leave the same medium): write log (nwr, w0r, w1r).  Validation afterwards
 * (fresh instance, no faults) succeeds only if the field matches the data
 * image on the medium; at whole-write granularity (every issued write
 * transferred nothing or everything) the data image is exactly the previous or
 * exactly the new one, and new data with the old field validates only when the
 * two images have the same checksum. */
void h_lemma_crash_points(void)
{
  PS_STATE()
  IN(size_t, in_offset) IN(size_t, in_n)
  IN(uint32_t, in_cfinal_old) IN(uint32_t, in_cfinal_torn)
  ASSUME(SPEC_PS_IN_RANGE(in_offset, in_n, in_dsize));
  IN_MEM(in_src, in_n)
  IN_MEM(in_dst, in_dsize)
  /* before: a valid store of the previous image, whose checksum is in_cfinal_old;
   * g_ps_cfinal = in_cfinal is the checksum of the NEW image */
  const uint32_t f_new = PS_FINAL(&st);
  g_ps_cfinal = in_cfinal_old;
  const uint32_t f_old = PS_FINAL(&st);
  ASSUME(PS_FIELD(&st) == f_old);
  g_ps_cfinal = in_cfinal;
  const uint8_t old_cell = g_ps_cell;
  persistent_store_part(&st, in_src, in_offset, in_n);
  /* the medium now; its data image's checksum: */
  const int data_new = (g_ps_w0r == in_n), data_old = (g_ps_w0r == 0);
  if (data_new) g_ps_cfinal = in_cfinal;
  else if (data_old) g_ps_cfinal = in_cfinal_old;
  else g_ps_cfinal = in_cfinal_torn;
  CHECK(g_ps_nwr == 1 || (g_ps_nwr == 2 && data_new), "crash states: data write (maybe torn), then checksum write only after complete data");
  /* restart: fresh instance over the same medium, no faults from here on */
  const int store_failed = g_ps_fault;
  g_ps_fault = 0;
  PS_FOLD_RESET(st);
  PersistentAccess rv = persistent_validate(&st);
  if (!g_ps_fault) {
    CHECK(rv != PERSISTENT_ACCESS_SUCCESS || PS_FIELD(&st) == PS_FINAL(&st),
          "validation succeeds only if the field matches the data image on the medium");
    const int whole = (data_new || data_old) && (g_ps_nwr == 1 || g_ps_w1r == 0 || g_ps_w1r == (in_wide ? 4u : 2u));
    if (whole && rv == PERSISTENT_ACCESS_SUCCESS) {
      PersistentAccess rf = persistent_fetch(in_dst, &st);
      if (!g_ps_fault && PS_GA_IN(g_ps_dlo, in_dsize)) {
        const size_t i = (size_t)((uint64_t)g_a - g_ps_dlo);
        const int in_part = (i >= in_offset && i - in_offset < in_n);
        CHECK(rf == PERSISTENT_ACCESS_SUCCESS, "fetch after validation");
        if (data_old && in_n > 0)
          CHECK(in_dst[i] == old_cell, "whole-write crash before the data write: exactly the previous image");
        if (data_new)
          CHECK(in_dst[i] == (in_part ? in_src[i - in_offset] : old_cell), "whole-write crash after the data write: exactly the new image");
        if (data_new && (g_ps_nwr == 1 || g_ps_w1r == 0))
          CHECK(f_old == f_new, "new data with the old field validates only if the checksum does not distinguish the images");
      }
    }
    if (!store_failed)
      CHECK(rv == PERSISTENT_ACCESS_SUCCESS, "complete store validates");
  }
  VERIF_CANARY();
}
