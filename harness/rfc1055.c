/* Harnesses for src/rfc1055.c (C12). */
#ifndef SL_NMAX
#define SL_NMAX 16
#endif

/* a Source / Sink over the stub drivers, octet or chunk kind */
#define SL_MAKE_SOURCE(src, kindsel) \
  Source src; \
  if (kindsel) octet_source_init(&src, sl_octet_source, SL_SRC_DRIVER); \
  else chunk_source_init(&src, sl_chunk_source, SL_SRC_DRIVER);
#define SL_MAKE_SINK(snk, kindsel) \
  Sink snk; \
  if (kindsel) octet_sink_init(&snk, sl_octet_sink, SL_SNK_DRIVER); \
  else chunk_sink_init(&snk, sl_chunk_sink, SL_SNK_DRIVER);

/* arbitrary sink-side ghost state */
#define SL_SINK_STATE() \
  IN(size_t, in_snk_pos) IN(size_t, in_obs) IN(uint8_t, in_snk_val) IN(int, in_snk_err) IN(size_t, in_snk_nneg) \
  IN(size_t, in_budget) \
  ASSUME(in_budget <= 1); \
  g_sl_snk_pos = in_snk_pos; g_sl_obs = in_obs; g_sl_snk_val = in_snk_val; g_sl_snk_err = in_snk_err; \
  g_sl_snk_nneg = in_snk_nneg; g_sl_snk_budget = in_budget;

/* arbitrary source stream of in_len <= maxlen octets, position in_pos <= in_len */
#define SL_SOURCE_STATE(maxlen) \
  IN(size_t, in_len) IN(size_t, in_pos) IN(int, in_src_err) IN(size_t, in_src_nneg) \
  ASSUME(in_len <= (maxlen) && in_pos <= in_len); \
  IN_MEM(in_stream, in_len) \
  g_sl_src = in_stream; g_sl_src_len = in_len; g_sl_src_pos = in_pos; g_sl_src_err = in_src_err; \
  g_sl_src_nneg = in_src_nneg;

/* the reference macros themselves: the image of an octet never contains the
 * delimiter, has the stated length, and unescaping inverts escaping */
void h_slip_spec(void)
{
  IN(uint8_t, in_d)
  CHECK(SLIP_ESCLEN(in_d) == 1 || SLIP_ESCLEN(in_d) == 2, "an image is one or two octets long");
  CHECK(SLIP_IMG(in_d, 0) != SLIP_END, "first image octet is not the delimiter");
  CHECK(IMPLIES(SLIP_ESCLEN(in_d) == 2, SLIP_IMG(in_d, 1) != SLIP_END && SLIP_IMG(in_d, 0) == SLIP_ESC
        && SLIP_ESC_VALID(SLIP_IMG(in_d, 1)) && SLIP_UNESC(SLIP_IMG(in_d, 1)) == in_d), "escape pair is ESC x, x valid, unesc(x) == d");
  CHECK(IMPLIES(SLIP_ESCLEN(in_d) == 1, SLIP_IMG(in_d, 0) == in_d && in_d != SLIP_ESC), "plain octets are sent as themselves");
  CHECK(SLIP_WORST(3, 0) == 7 && SLIP_WORST(3, 1) == 8 && RFC1055_WORST_CASE(3, false) == 7 && RFC1055_WORST_CASE(3, true) == 8,
        "worst case is 2n+1 (2n+2 with start-of-frame)");
  VERIF_CANARY();
}

void h_source_get_octet(void)
{
  IN(_Bool, in_kind) IN(uint8_t, in_d0)
  SL_SOURCE_STATE(4)
  SL_MAKE_SOURCE(src, in_kind)
  unsigned char d = in_d0;
  source_get_octet(&src, &d);
  VERIF_CANARY();
}

void h_sink_put_octet(void)
{
  IN(_Bool, in_kind) IN(uint8_t, in_d)
  SL_SINK_STATE()
  SL_MAKE_SINK(snk, in_kind)
  sink_put_octet(&snk, in_d);
  VERIF_CANARY();
}

void h_rfc1055_context_init(void)
{
  IN(uint32_t, in_flags) IN(int, in_s0) IN(uint32_t, in_f0)
  RFC1055Context ctx;
  ctx.state = in_s0; ctx.flags = in_f0;
  rfc1055_context_init(&ctx, in_flags);
  VERIF_CANARY();
}

void h_rfc1055_open(void)
{
  IN(uint32_t, in_flags) IN(int, in_state) IN(_Bool, in_kind)
  ASSUME(in_state >= 0 && in_state <= 2);
  SL_SINK_STATE()
  SL_MAKE_SINK(snk, in_kind)
  RFC1055Context ctx;
  ctx.state = in_state; ctx.flags = in_flags;
  rfc1055_open(&ctx, &snk);
  VERIF_CANARY();
}

void h_rfc1055_close(void)
{
  IN(_Bool, in_kind)
  SL_SINK_STATE()
  SL_MAKE_SINK(snk, in_kind)
  rfc1055_close(&snk);
  VERIF_CANARY();
}

void h_rfc1055_encode_octet(void)
{
  IN(_Bool, in_kind) IN(uint8_t, in_d)
  SL_SINK_STATE()
  SL_MAKE_SINK(snk, in_kind)
  rfc1055_encode_octet(&snk, in_d);
  VERIF_CANARY();
}

void h_rfc1055_decode_octet(void)
{
  IN(_Bool, in_kind) IN(uint8_t, in_d0)
  SL_SOURCE_STATE(4)
  SL_MAKE_SOURCE(src, in_kind)
  unsigned char d = in_d0;
  rfc1055_decode_octet(&src, &d);
  VERIF_CANARY();
}

void h_transition(void)
{
  IN(_Bool, in_kind)
  SL_SOURCE_STATE(4)
  SL_MAKE_SOURCE(src, in_kind)
  transition(&src);
  VERIF_CANARY();
}

/* Lemma: decode_octet o encode_octet = id.  encode_octet's contract says the
 * sink receives the image esc(d) = SLIP_IMG(d, 0 .. SLIP_ESCLEN(d)); here a
 * source stream that carries that image (followed by anything) is handed to
 * decode_octet (replaced by its contract): it returns d and consumes exactly
 * the image. */
void h_lemma_octet_roundtrip(void)
{
  IN(_Bool, in_kind) IN(uint8_t, in_d) IN(uint8_t, in_d0)
  SL_SOURCE_STATE(4)
  SL_MAKE_SOURCE(src, in_kind)
  const size_t m = SLIP_ESCLEN(in_d);
  ASSUME(in_len - in_pos >= m);
  ASSUME(in_stream[in_pos] == SLIP_IMG(in_d, 0));
  ASSUME(IMPLIES(m == 2, in_stream[in_pos + 1] == SLIP_IMG(in_d, 1)));
  unsigned char d = in_d0;
  const size_t nneg0 = g_sl_src_nneg;
  const int rc = rfc1055_decode_octet(&src, &d);
  CHECK(IMPLIES(g_sl_src_nneg == nneg0, rc == (int)m && d == in_d && g_sl_src_pos == in_pos + m),
        "decode_octet(esc(d)) == d, consuming exactly the image");
  CHECK(IMPLIES(g_sl_src_nneg != nneg0, rc < 0 && rc == g_sl_src_err), "a source error is returned unchanged");
  VERIF_CANARY();
}

/* ------------------------------------------------------------------------ */
/* frame level */

const size_t *g_sl_off;
_Bool g_sl_fm;
const unsigned char *g_sl_pay;
size_t g_sl_n, g_sl_g;

/* offset map: unconstrained in proof mode (the contract's requires pins it),
 * computed from the reference definition natively */
#if VERIF_IS_NATIVE
#define SL_OFFSETS(off, P, n) \
  size_t *off = (size_t *)verif_alloc_exact("ghost_off", ((n) + 1) * sizeof(size_t)); \
  (void)spec_slip_offsets((P), (n), off);
#else
#define SL_OFFSETS(off, P, n) \
  size_t *off = malloc(((n) + 1) * sizeof(size_t)); ASSUME(off != NULL);
#endif

void h_rfc1055_encode(void)
{
  GHOST_HAVOC();
  IN(_Bool, in_skind) IN(_Bool, in_kkind) IN(uint32_t, in_flags) IN(int, in_state)
  ASSUME(in_state >= 0 && in_state <= 2);
  SL_SINK_STATE()
  SL_SOURCE_STATE(SL_NMAX + 4)
  ASSUME(in_len - in_pos <= SL_NMAX);
  SL_OFFSETS(off, in_stream + in_pos, in_len - in_pos)
  g_sl_off = off;
  SL_MAKE_SOURCE(src, in_skind)
  SL_MAKE_SINK(snk, in_kkind)
  RFC1055Context ctx;
  ctx.state = in_state; ctx.flags = in_flags;
  rfc1055_encode(&ctx, &src, &snk);
  VERIF_CANARY();
}

/* decode: arbitrary stream / state / flags; with in_fm the stream is
 * additionally laid out as garbage, delimiters and the encoding of in_pay */
void h_rfc1055_decode(void)
{
  GHOST_HAVOC();
  IN(_Bool, in_skind) IN(_Bool, in_kkind) IN(uint32_t, in_flags) IN(int, in_state)
  IN(_Bool, in_fm) IN(size_t, in_n) IN(size_t, in_g)
  ASSUME(in_state >= 0 && in_state <= 2);
  ASSUME(in_n <= SL_NMAX && in_g <= SL_NMAX);
#ifdef SL_DECODE_ONLY_FM
  ASSUME(in_fm == SL_DECODE_ONLY_FM);
#endif
  SL_SINK_STATE()
  SL_SOURCE_STATE(3 * SL_NMAX + 8)
  IN_MEM(in_pay, in_n)
  SL_OFFSETS(off, in_pay, in_n)
#if VERIF_IS_NATIVE
  if (in_fm) {
    /* build the stream the frame-mode precondition describes: the octets in
     * front of in_pos are kept, then garbage (taken from the input, END
     * replaced), delimiters, the reference encoding, two more octets */
    const int sof = (in_flags & 1u) != 0;
    if (in_state == RFC1055_SEARCH_FOR_START && !sof) verif_spurious("classic mode is never in SEARCH_FOR_START");
    const size_t skip = in_state == RFC1055_SEARCH_FOR_END ? in_g + 1 : 0;
    const size_t start = (sof && in_state != RFC1055_NORMAL) ? 1 : 0;
    const size_t total = in_pos + skip + start + off[in_n] + 1 + 2;
    unsigned char *s = verif_alloc_exact("ghost_stream", total);
    size_t o = 0;
    for (size_t i = 0; i < in_pos; i++) s[o++] = in_stream[i];
    if (skip) {
      for (size_t j = 0; j < in_g; j++) {
        unsigned char c = (in_pos + j < in_len) ? in_stream[in_pos + j] : (unsigned char)(0x11u + j);
        s[o++] = (c == SLIP_END) ? 0x00 : c;
      }
      s[o++] = SLIP_END;
    }
    if (start) s[o++] = SLIP_END;
    o += spec_slip_encode(in_pay, in_n, s + o);
    s[o++] = 0x42; s[o++] = SLIP_END;
    g_sl_src = s; g_sl_src_len = total;
  }
#endif
  g_sl_fm = in_fm; g_sl_n = in_n; g_sl_g = in_g; g_sl_pay = in_pay; g_sl_off = off;
  SL_MAKE_SOURCE(src, in_skind)
  SL_MAKE_SINK(snk, in_kkind)
  RFC1055Context ctx;
  ctx.state = in_state; ctx.flags = in_flags;
  rfc1055_decode(&ctx, &src, &snk);
  VERIF_CANARY();
}
