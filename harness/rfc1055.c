/* Harnesses for src/rfc1055.c (C12).  Ghost state and drivers:
 * stubs/rfc1055_io.h. */
#ifndef SL_LMAX
#define SL_LMAX 4096
#endif
/* how often the sink driver may answer -EINTR / -EAGAIN (retried by
 * sink_put_chunk); the bounded fallback runs without such answers */
#ifndef SL_BUDGET_MAX
#ifdef VERIF_FALLBACK
#define SL_BUDGET_MAX 0
#else
#define SL_BUDGET_MAX 1
#endif
#endif

/* Native replay only: fold arbitrary drawn values into the admitted domain
 * (values that are already admissible are left alone), so that the random
 * search of the replay driver does not waste its tries on rejected inputs.
 * Proof mode: no effect, the domain is described by the ASSUMEs alone. */
#if VERIF_IS_NATIVE
#define SL_FOLD(x, m) do { (x) = (x) % (m); } while (0)
#define SL_FOLD_STATE(x) do { (x) = (((x) % 3) + 3) % 3; } while (0)
#define SL_NATIVE(stmt) do { stmt; } while (0)
#else
#define SL_FOLD(x, m) do { } while (0)
#define SL_FOLD_STATE(x) do { } while (0)
#define SL_NATIVE(stmt) do { } while (0)
#endif

/* a Source / Sink over the stub drivers, octet or chunk kind */
#define SL_MAKE_SOURCE(src, kindsel) \
  Source src; \
  if (kindsel) octet_source_init(&src, sl_octet_source, SL_SRC_DRIVER); \
  else chunk_source_init(&src, sl_chunk_source, SL_SRC_DRIVER);
#define SL_MAKE_SINK(snk, kindsel) \
  Sink snk; \
  if (kindsel) octet_sink_init(&snk, sl_octet_sink, SL_SNK_DRIVER); \
  else chunk_sink_init(&snk, sl_chunk_sink, SL_SNK_DRIVER);

/* arbitrary sink-side ghost state; acceptor off */
#define SL_SINK_STATE() \
  IN(size_t, in_snk_pos) IN(size_t, in_obs) IN(uint8_t, in_snk_val) IN(int, in_snk_err) IN(size_t, in_snk_nneg) \
  IN(size_t, in_budget) \
  SL_FOLD(in_budget, 2); \
  ASSUME(in_budget <= SL_BUDGET_MAX); \
  g_sl_snk_pos = in_snk_pos; g_sl_obs = in_obs; g_sl_snk_val = in_snk_val; g_sl_snk_err = in_snk_err; \
  g_sl_snk_nneg = in_snk_nneg; g_sl_snk_budget = in_budget; g_ac_on = 0;

/* ... and an acceptor in an arbitrary consistent state, on or off, over a
 * payload of at most maxn octets */
#define SL_ACCEPTOR_STATE(maxn) \
  IN(_Bool, in_ac_on) IN(_Bool, in_ac_sof) IN(_Bool, in_ac_closed) IN(_Bool, in_ac_bad) \
  IN(size_t, in_ac_n) IN(size_t, in_ac_i) IN(size_t, in_ac_s) \
  SL_FOLD(in_ac_n, (maxn) + 1); SL_FOLD(in_ac_i, in_ac_n + 1); SL_FOLD(in_ac_s, 2); \
  ASSUME(in_ac_n <= (maxn) && in_ac_i <= in_ac_n && in_ac_s <= 1); \
  IN_MEM(in_ac_pay, in_ac_n) \
  SL_NATIVE(if (in_ac_s == 1 && !(in_ac_i < in_ac_n && SLIP_SPECIAL(in_ac_pay[in_ac_i < in_ac_n ? in_ac_i : 0]))) in_ac_s = 0); \
  ASSUME(IMPLIES(in_ac_s == 1, in_ac_i < in_ac_n && SLIP_SPECIAL(in_ac_pay[in_ac_i < in_ac_n ? in_ac_i : 0]))); \
  g_ac_on = in_ac_on; g_ac_sof = in_ac_sof; g_ac_closed = in_ac_closed; g_ac_bad = in_ac_bad; \
  g_ac_pay = in_ac_pay; g_ac_n = in_ac_n; g_ac_i = in_ac_i; g_ac_s = in_ac_s;

/* arbitrary array-mode source stream of in_len <= maxlen octets, position
 * in_pos <= in_len */
#define SL_SOURCE_STATE(maxlen) \
  IN(size_t, in_len) IN(size_t, in_pos) IN(int, in_src_err) IN(size_t, in_src_nneg) IN(uint8_t, in_src_last) \
  SL_FOLD(in_len, (maxlen) + 1); SL_FOLD(in_pos, in_len + 1); \
  ASSUME(in_len <= (maxlen) && in_pos <= in_len); \
  IN_MEM(in_stream, in_len) \
  g_gn_on = 0; \
  g_sl_src = in_stream; g_sl_src_len = in_len; g_sl_src_pos = in_pos; g_sl_src_err = in_src_err; \
  g_sl_src_nneg = in_src_nneg; g_sl_src_last = in_src_last;

/* ... or (in_gn_on) a generator over a payload of at most maxn octets behind
 * at most maxg octets of garbage, with its cursor in an arbitrary consistent
 * place */
#define SL_GENERATOR_STATE(maxn, maxg) \
  IN(_Bool, in_gn_on) IN(_Bool, in_gn_skip) IN(_Bool, in_gn_start) IN(_Bool, in_gn_done) \
  IN(size_t, in_gn_n) IN(size_t, in_gn_g) IN(size_t, in_gn_c) IN(size_t, in_gn_i) IN(size_t, in_gn_s) \
  SL_FOLD(in_gn_n, (maxn) + 1); SL_FOLD(in_gn_g, (maxg) + 1); \
  ASSUME(in_gn_n <= (maxn) && in_gn_g <= (maxg)); \
  IN_MEM(in_gn_pay, in_gn_n) \
  SL_FOLD(in_gn_c, (in_gn_skip ? in_gn_g + 1 : 0) + (in_gn_start ? 1 : 0) + 1); SL_FOLD(in_gn_i, in_gn_n + 1); SL_FOLD(in_gn_s, 2); \
  SL_NATIVE(if (in_gn_s == 1 && !(in_gn_i < in_gn_n && SLIP_SPECIAL(in_gn_pay[in_gn_i < in_gn_n ? in_gn_i : 0]))) in_gn_s = 0); \
  SL_NATIVE(if (in_gn_c < (in_gn_skip ? in_gn_g + 1 : 0) + (in_gn_start ? 1 : 0)) { in_gn_i = 0; in_gn_s = 0; in_gn_done = 0; }); \
  SL_NATIVE(if (in_gn_done) { in_gn_i = in_gn_n; in_gn_s = 0; }); \
  g_gn_on = in_gn_on; g_gn_skip = in_gn_skip; g_gn_start = in_gn_start; g_gn_done = in_gn_done; \
  g_gn_pay = in_gn_pay; g_gn_n = in_gn_n; g_gn_g = in_gn_g; g_gn_c = in_gn_c; g_gn_i = in_gn_i; g_gn_s = in_gn_s; \
  ASSUME(in_gn_c <= SL_GN_PRE && in_gn_i <= in_gn_n && in_gn_s <= 1); \
  ASSUME(IMPLIES(in_gn_s == 1, in_gn_i < in_gn_n && SLIP_SPECIAL(in_gn_pay[in_gn_i < in_gn_n ? in_gn_i : 0]))); \
  ASSUME(IMPLIES(in_gn_c < SL_GN_PRE, in_gn_i == 0 && in_gn_s == 0 && !in_gn_done)); \
  ASSUME(IMPLIES(in_gn_done, in_gn_i == in_gn_n && in_gn_s == 0));

/* the reference macros themselves: the image of an octet never contains the
 * delimiter, has the stated length, and unescaping inverts escaping */
void h_slip_spec(void)
{
  IN(uint8_t, in_d)
  CHECK(SLIP_ESCLEN(in_d) == 1 || SLIP_ESCLEN(in_d) == 2, "an image is one or two octets long");
  CHECK(SLIP_IMG(in_d, 0) != SLIP_END, "first image octet is not the delimiter");
  CHECK(IMPLIES(SLIP_ESCLEN(in_d) == 2, SLIP_IMG(in_d, 1) != SLIP_END && SLIP_IMG(in_d, 0) == SLIP_ESC
        && SLIP_ESC_VALID(SLIP_IMG(in_d, 1)) && SLIP_UNESC(SLIP_IMG(in_d, 1)) == in_d), "escape pair is ESC x, x valid, unesc(x) == d");
  CHECK(IMPLIES(SLIP_ESCLEN(in_d) == 1, SLIP_IMG(in_d, 0) == in_d && in_d != SLIP_ESC), "plain octets are sent as themselves");
  CHECK(SLIP_WORST(3, 0) == 7 && SLIP_WORST(3, 1) == 8 && RFC1055_WORST_CASE(3, false) == 7 && RFC1055_WORST_CASE(3, true) == 8,
        "worst case is 2n+1 (2n+2 with start-of-frame)");
  VERIF_CANARY();
}

/* Lemma: the generator (source side) and the acceptor (sink side) are the
 * same reference encoding: whatever the generator produces for a payload in
 * start-of-frame or classic framing, octet by octet, the acceptor accepts,
 * and it is closed exactly when the generator is done.  (Closes the loop
 * "encode emits what the acceptor accepts" / "decode reads what the generator
 * produces".)  Loop invariant, any payload length. */
void h_lemma_generator_acceptor(void)
{
  IN(_Bool, in_sof) IN(size_t, in_n)
  ASSUME(in_n <= SL_LMAX);
  IN_MEM(in_pay, in_n)
  g_sl_snk_pos = 0; g_sl_obs = 0; g_sl_snk_val = 0; g_sl_snk_nneg = 0; g_sl_snk_budget = 0; g_sl_snk_err = 0;
  g_sl_src_pos = 0; g_sl_src_nneg = 0; g_sl_src_err = 0; g_sl_src_last = 0; g_sl_src = in_pay; g_sl_src_len = 0;
  g_gn_on = 1; g_gn_skip = 0; g_gn_g = 0; g_gn_start = in_sof; g_gn_done = 0;
  g_gn_pay = in_pay; g_gn_n = in_n; g_gn_c = 0; g_gn_i = 0; g_gn_s = 0;
  g_ac_on = 1; g_ac_sof = in_sof; g_ac_closed = 0; g_ac_bad = 0; g_ac_pay = in_pay; g_ac_n = in_n; g_ac_i = 0; g_ac_s = 0;
  while (!g_gn_done)
  __CPROVER_assigns(g_sl_src_pos, g_sl_src_last, g_gn_c, g_gn_i, g_gn_s, g_gn_done,
                    g_sl_snk_pos, g_sl_snk_val, g_ac_sof, g_ac_closed, g_ac_bad, g_ac_i, g_ac_s)
  __CPROVER_loop_invariant(g_gn_c <= SL_GN_PRE && g_gn_i <= g_gn_n && g_gn_s <= 1)
  __CPROVER_loop_invariant(IMPLIES(g_gn_s == 1, g_gn_i < g_gn_n && SLIP_SPECIAL(in_pay[g_gn_i < g_gn_n ? g_gn_i : 0])))
  __CPROVER_loop_invariant(IMPLIES(g_gn_c < SL_GN_PRE, g_gn_i == 0 && g_gn_s == 0 && !g_gn_done))
  __CPROVER_loop_invariant(IMPLIES(g_gn_done, g_gn_i == g_gn_n && g_gn_s == 0))
  __CPROVER_loop_invariant(!g_ac_bad)
  __CPROVER_loop_invariant(g_ac_closed == g_gn_done)
  __CPROVER_loop_invariant(g_ac_i == g_gn_i && g_ac_s == g_gn_s)
  __CPROVER_loop_invariant(g_ac_sof == (g_gn_c < SL_GN_PRE))
  __CPROVER_loop_invariant(g_sl_snk_pos == g_sl_src_pos && g_sl_src_pos <= g_gn_c + 2 * g_gn_i + g_gn_s + (g_gn_done ? 1 : 0))
  __CPROVER_decreases((SL_GN_PRE - g_gn_c) + 2 * (g_gn_n - g_gn_i) - g_gn_s + (g_gn_done ? 0 : 1))
  {
    unsigned char c = 0;
    const int rc = sl_source_step(&c, 1, 0);
    CHECK(rc == 1, "the generator delivers an octet until it is done");
    sl_sink_take(c);
  }
  CHECK(!g_ac_bad && g_ac_closed && g_ac_i == in_n && g_ac_s == 0 && !g_ac_sof,
        "the acceptor accepts exactly what the generator produces");
  CHECK(g_sl_src_pos <= SLIP_WORST(in_n, in_sof), "the reference encoding is at most 2n+1 (+1) octets long");
  VERIF_CANARY();
}

void h_source_get_octet(void)
{
  IN(_Bool, in_kind) IN(uint8_t, in_d0)
  SL_SOURCE_STATE(4)
  SL_MAKE_SOURCE(src, in_kind)
  unsigned char d = in_d0;
  source_get_octet(&src, &d);
  VERIF_CANARY();
}

void h_sink_put_octet(void)
{
  IN(_Bool, in_kind) IN(uint8_t, in_d)
  SL_SINK_STATE()
  SL_MAKE_SINK(snk, in_kind)
  sink_put_octet(&snk, in_d);
  VERIF_CANARY();
}

void h_rfc1055_context_init(void)
{
  IN(uint32_t, in_flags) IN(int, in_s0) IN(uint32_t, in_f0)
  RFC1055Context ctx;
  ctx.state = in_s0; ctx.flags = in_f0;
  rfc1055_context_init(&ctx, in_flags);
  VERIF_CANARY();
}

void h_rfc1055_open(void)
{
  IN(uint32_t, in_flags) IN(int, in_state) IN(_Bool, in_kind)
  SL_FOLD_STATE(in_state);
  ASSUME(in_state >= 0 && in_state <= 2);
  SL_SINK_STATE()
  SL_ACCEPTOR_STATE(4)
  SL_MAKE_SINK(snk, in_kind)
  RFC1055Context ctx;
  ctx.state = in_state; ctx.flags = in_flags;
  rfc1055_open(&ctx, &snk);
  VERIF_CANARY();
}

void h_rfc1055_close(void)
{
  IN(_Bool, in_kind)
  SL_SINK_STATE()
  SL_ACCEPTOR_STATE(4)
  SL_MAKE_SINK(snk, in_kind)
  rfc1055_close(&snk);
  VERIF_CANARY();
}

/* the two sink kinds are checked by separate targets (SL_SINK_KIND 1 = octet
 * sink behind sink_adapt, 0 = chunk sink), the kind being a constant keeps
 * the unwound retry loops of sink_put_chunk small */
void h_rfc1055_encode_octet(void)
{
#ifdef SL_SINK_KIND
  const _Bool in_kind = SL_SINK_KIND;
#else
  IN(_Bool, in_kind)
#endif
  IN(uint8_t, in_d)
  SL_SINK_STATE()
  SL_ACCEPTOR_STATE(4)
  SL_MAKE_SINK(snk, in_kind)
  rfc1055_encode_octet(&snk, in_d);
  VERIF_CANARY();
}

void h_rfc1055_decode_octet(void)
{
  IN(_Bool, in_kind) IN(uint8_t, in_d0)
  SL_SOURCE_STATE(4)
  SL_GENERATOR_STATE(4, 4)
  SL_MAKE_SOURCE(src, in_kind)
  unsigned char d = in_d0;
  rfc1055_decode_octet(&src, &d);
  VERIF_CANARY();
}

void h_transition(void)
{
  IN(_Bool, in_kind)
  SL_SOURCE_STATE(4)
  SL_GENERATOR_STATE(4, 4)
  SL_MAKE_SOURCE(src, in_kind)
  transition(&src);
  VERIF_CANARY();
}

/* Lemma: decode_octet o encode_octet = id.  encode_octet's contract says the
 * sink receives the image esc(d) = SLIP_IMG(d, 0 .. SLIP_ESCLEN(d)); here a
 * source stream that carries that image (followed by anything) is handed to
 * decode_octet (replaced by its contract): it returns d and consumes exactly
 * the image. */
void h_lemma_octet_roundtrip(void)
{
  IN(_Bool, in_kind) IN(uint8_t, in_d) IN(uint8_t, in_d0)
  SL_SOURCE_STATE(4)
  SL_MAKE_SOURCE(src, in_kind)
  const size_t m = SLIP_ESCLEN(in_d);
  ASSUME(in_len - in_pos >= m);
  ASSUME(in_stream[in_pos] == SLIP_IMG(in_d, 0));
  ASSUME(IMPLIES(m == 2, in_stream[in_pos + 1] == SLIP_IMG(in_d, 1)));
  unsigned char d = in_d0;
  const size_t nneg0 = g_sl_src_nneg;
  const int rc = rfc1055_decode_octet(&src, &d);
  CHECK(IMPLIES(g_sl_src_nneg == nneg0, rc > 0 && d == in_d && g_sl_src_pos == in_pos + m),
        "decode_octet(esc(d)) == d, consuming exactly the image");
  CHECK(IMPLIES(g_sl_src_nneg != nneg0, rc < 0 && rc == g_sl_src_err), "a source error is returned unchanged");
  VERIF_CANARY();
}

/* ------------------------------------------------------------------------ */
/* frame level */

/* encode: arbitrary payload (the rest of an array-mode source stream), any
 * flags, error injection at every driver call; with in_ac_on the sink
 * compares what it receives with the reference encoding of that payload */
void h_rfc1055_encode(void)
{
  GHOST_HAVOC();
#ifdef VERIF_FALLBACK
  /* bounded whole-stack fallback: one endpoint kind each keeps it small */
  const _Bool in_skind = 1, in_kkind = 0;
#else
  IN(_Bool, in_skind) IN(_Bool, in_kkind)
#endif
  IN(uint32_t, in_flags) IN(int, in_state) IN(_Bool, in_ac_on)
  SL_FOLD_STATE(in_state);
  ASSUME(in_state >= 0 && in_state <= 2);
  SL_SINK_STATE()
  SL_SOURCE_STATE(SL_LMAX)
  g_ac_on = in_ac_on; g_ac_pay = in_stream + in_pos; g_ac_n = in_len - in_pos;
  g_ac_sof = (in_flags & RFC1055_WITH_SOF) != 0; g_ac_i = 0; g_ac_s = 0; g_ac_closed = 0; g_ac_bad = 0;
  SL_MAKE_SOURCE(src, in_skind)
  SL_MAKE_SINK(snk, in_kkind)
  RFC1055Context ctx;
  ctx.state = in_state; ctx.flags = in_flags;
  rfc1055_encode(&ctx, &src, &snk);
  VERIF_CANARY();
}

/* decode: arbitrary array-mode stream, or a generated stream (reference
 * encoding of a payload behind garbage / delimiters) with the generator in an
 * arbitrary consistent place; any state, any flags, error injection at every
 * driver call */
void h_rfc1055_decode(void)
{
  GHOST_HAVOC();
  IN(_Bool, in_skind) IN(_Bool, in_kkind) IN(uint32_t, in_flags) IN(int, in_state)
  SL_FOLD_STATE(in_state);
  ASSUME(in_state >= 0 && in_state <= 2);
  SL_SINK_STATE()
  SL_SOURCE_STATE(SL_LMAX)
  SL_GENERATOR_STATE(SL_LMAX, SL_LMAX)
  SL_MAKE_SOURCE(src, in_skind)
  SL_MAKE_SINK(snk, in_kkind)
  RFC1055Context ctx;
  ctx.state = in_state; ctx.flags = in_flags;
  rfc1055_decode(&ctx, &src, &snk);
  VERIF_CANARY();
}

/* Lemma (concatenation / resynchronisation step, over the contract of
 * rfc1055_decode): after a call that consumed a delimiter as its last octet
 * the decoder is in the state in which a generated frame (with its start
 * delimiter in start-of-frame mode) is accepted by the frame-level clause of
 * the same contract; i.e. post-state of one decode == pre-state of the next. */
void h_lemma_decode_twice(void)
{
  GHOST_HAVOC();
  IN(_Bool, in_skind) IN(_Bool, in_kkind) IN(uint32_t, in_flags) IN(int, in_state)
  SL_FOLD_STATE(in_state);
  ASSUME(in_state >= 0 && in_state <= 2);
  SL_SINK_STATE()
  SL_SOURCE_STATE(SL_LMAX)
  SL_GENERATOR_STATE(SL_LMAX, SL_LMAX)
  SL_MAKE_SOURCE(src, in_skind)
  SL_MAKE_SINK(snk, in_kkind)
  RFC1055Context ctx;
  ctx.state = in_state; ctx.flags = in_flags;
  const _Bool sof = (in_flags & RFC1055_WITH_SOF) != 0;
  /* first call: anything (arbitrary stream or generator anywhere) */
  const size_t p0 = g_sl_src_pos;
  const int rc1 = rfc1055_decode(&ctx, &src, &snk);
  const _Bool resync = g_sl_src_pos != p0 && g_sl_src_last == SLIP_END && !(rc1 < 0 && rc1 == g_sl_src_err && rc1 == -EILSEQ);
  /* second call: a fresh generated frame, laid out for the state the first
   * call left behind */
  IN(size_t, in_n2)
  ASSUME(in_n2 <= SL_LMAX);
  IN_MEM(in_pay2, in_n2)
  g_gn_on = 1; g_gn_pay = in_pay2; g_gn_n = in_n2; g_gn_g = 0; g_gn_c = 0; g_gn_i = 0; g_gn_s = 0; g_gn_done = 0;
  g_gn_skip = 0; g_gn_start = sof && ctx.state != RFC1055_NORMAL;
  const size_t q1 = g_sl_snk_pos, sn1 = g_sl_src_nneg, kn1 = g_sl_snk_nneg;
  ASSUME(resync);
  CHECK(ctx.state != RFC1055_SEARCH_FOR_END, "after a consumed delimiter the decoder is not skipping");
  g_sl_obs = q1 + g_k;
  const int rc2 = rfc1055_decode(&ctx, &src, &snk);
  CHECK(IMPLIES(g_sl_src_nneg == sn1 && g_sl_snk_nneg == kn1, rc2 == 1 && g_sl_snk_pos - q1 == in_n2),
        "the frame after a delimiter is delivered completely");
  CHECK(IMPLIES(g_k < g_sl_snk_pos - q1 && g_k < in_n2, g_sl_snk_val == in_pay2[g_k < in_n2 ? g_k : 0]),
        "... and intact");
  VERIF_CANARY();
}
