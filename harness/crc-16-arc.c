/* Harnesses for src/crc-16-arc.c (C16). */
const uint16_t *g_crcT;

/* the trace: proof mode leaves it unconstrained (the contract's requires pins
 * it); native mode computes it from the reference definition */
#if VERIF_IS_NATIVE
#define CRC_TRACE(T, start, bytes, n) \
  uint16_t *T = (uint16_t *)verif_alloc_exact("ghost_T", ((n) + 1) * 2); \
  T[0] = (start); for (size_t i_ = 0; i_ < (n); i_++) T[i_ + 1] = spec_crc16_step(T[i_], ((const uint8_t *)(bytes))[i_]);
#else
#define CRC_TRACE(T, start, bytes, n) \
  uint16_t *T = malloc(((n) + 1) * sizeof(uint16_t)); ASSUME(T != NULL);
#endif

/* the call-free form of the reference step equals the bitwise definition */
void h_spec_step_linear(void)
{
  IN(uint16_t, in_crc) IN(uint8_t, in_octet)
  CHECK(SPEC_CRC16_STEP(in_crc, in_octet) == spec_crc16_step(in_crc, in_octet), "linear form == bitwise CRC-16/ARC step");
  VERIF_CANARY();
}

void h_crc16_octet(void)
{
  IN(uint16_t, in_crc) IN(uint8_t, in_octet)
  crc16_octet(in_crc, in_octet);
  VERIF_CANARY();
}

void h_ufw_crc16_arc(void)
{
  IN(uint16_t, in_crc) IN(size_t, in_n) IN(size_t, in_off)
  ASSUME(in_n <= CRC_NMAX && in_off <= 3);
  /* the octets start at any alignment: the block's end is exact */
  IN_MEM(in_blk, in_n + in_off)
  unsigned char *in_buf = in_blk + in_off;
  CRC_TRACE(T, in_crc, in_buf, in_n)
  g_crcT = T;
  ufw_crc16_arc(in_crc, in_buf, in_n);
  VERIF_CANARY();
}

void h_ufw_buffer_crc16_arc(void)
{
  IN(size_t, in_n) IN(size_t, in_off)
  ASSUME(in_n <= CRC_NMAX && in_off <= 3);
  IN_MEM(in_blk, in_n + in_off)
  unsigned char *in_buf = in_blk + in_off;
  CRC_TRACE(T, 0, in_buf, in_n)
  g_crcT = T;
  ufw_buffer_crc16_arc(in_buf, in_n);
  VERIF_CANARY();
}

void h_ufw_crc16_arc_u16(void)
{
  IN(uint16_t, in_crc) IN(size_t, in_n)
  ASSUME(2 * in_n <= CRC_NMAX && in_n <= CRC_NMAX);
  IN_MEM(in_buf, 2 * in_n)
  CRC_TRACE(T, in_crc, in_buf, 2 * in_n)
  g_crcT = T;
  ufw_crc16_arc_u16(in_crc, (const uint16_t *)in_buf, in_n);
  VERIF_CANARY();
}

void h_ufw_buffer_crc16_arc_u16(void)
{
  IN(size_t, in_n)
  ASSUME(2 * in_n <= CRC_NMAX && in_n <= CRC_NMAX);
  IN_MEM(in_buf, 2 * in_n)
  CRC_TRACE(T, 0, in_buf, 2 * in_n)
  g_crcT = T;
  ufw_buffer_crc16_arc_u16((const uint16_t *)in_buf, in_n);
  VERIF_CANARY();
}

/* Lemma (concatenation): checksumming buf[0..n) equals continuing the checksum
 * of buf[0..m) over buf[m..n); all three calls are replaced by the contract,
 * the two partial calls see slices of the one trace. */
void h_lemma_crc_concat(void)
{
  IN(uint16_t, in_crc) IN(size_t, in_n) IN(size_t, in_m)
  ASSUME(in_n <= CRC_NMAX && in_m <= in_n);
  IN_MEM(in_buf, in_n)
  CRC_TRACE(T, in_crc, in_buf, in_n)
#if !VERIF_IS_NATIVE
  ASSUME(CRC_TRACE_OK(T, in_crc, in_buf, in_n));
#endif
  g_crcT = T;
  uint16_t whole = ufw_crc16_arc(in_crc, in_buf, in_n);
  uint16_t first = ufw_crc16_arc(in_crc, in_buf, in_m);
  g_crcT = T + in_m;
  uint16_t second = ufw_crc16_arc(first, in_buf + in_m, in_n - in_m);
  CHECK(second == whole, "crc(buf[0..n)) == crc continued over the second part");
  VERIF_CANARY();
}

/* Lemma (word variant == octet variant on the in-memory image) */
void h_lemma_crc_u16_image(void)
{
  IN(uint16_t, in_crc) IN(size_t, in_n)
  ASSUME(2 * in_n <= CRC_NMAX && in_n <= CRC_NMAX);
  IN_MEM(in_buf, 2 * in_n)
  CRC_TRACE(T, in_crc, in_buf, 2 * in_n)
#if !VERIF_IS_NATIVE
  ASSUME(CRC_TRACE_OK(T, in_crc, in_buf, 2 * in_n));
#endif
  g_crcT = T;
  uint16_t a = ufw_crc16_arc_u16(in_crc, (const uint16_t *)in_buf, in_n);
  uint16_t b = ufw_crc16_arc(in_crc, in_buf, 2 * in_n);
  CHECK(a == b, "word variant equals octet variant over the in-memory image");
  VERIF_CANARY();
}
