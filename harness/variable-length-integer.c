/* Harnesses for src/variable-length-integer.c (C14).
 *
 * Decoder input: every octet string of up to VI_SMAX octets, in an exact-size
 * heap block, read from every offset 0..size - so the memory ends at every
 * possible truncation point (also: no octet left at all).  The fill mark of a
 * decoding buffer is arbitrary (the library's tests decode with used == 0).
 * Source input: the same kind of block served by the stub source from every
 * position, as octet driver or as chunk driver, ending with any negative code.
 * Encoder input: every value of the width, every buffer state with
 * offset == used <= size <= VI_SMAX.
 */
#ifndef VI_SMAX
#define VI_SMAX 16
#endif

#define VI_DEC_STATE() \
  GHOST_HAVOC(); \
  IN(size_t, in_size) IN(size_t, in_used) IN(size_t, in_offset) \
  ASSUME(in_size >= 1 && in_size <= VI_SMAX && in_offset <= in_size); \
  IN_MEM(in_data, in_size) \
  ByteBuffer b = { in_data, in_size, in_used, in_offset };

#define VI_ENC_STATE() \
  GHOST_HAVOC(); \
  IN(size_t, in_size) IN(size_t, in_used) \
  ASSUME(in_size >= 1 && in_size <= VI_SMAX && in_used <= in_size); \
  IN_MEM(in_data, in_size) \
  ByteBuffer b = { in_data, in_size, in_used, in_used };

/* a source over in_octets[in_pos..in_len), either driver kind */
#define VI_SRC_STATE() \
  GHOST_HAVOC(); \
  IN(size_t, in_len) IN(size_t, in_pos) IN(int, st_err) IN(int, in_kind) \
  ASSUME(in_len <= VI_SMAX && in_pos <= in_len && st_err < 0); \
  IN_MEM(in_octets, in_len) \
  struct st_vsrc drv = { in_octets, in_len, in_pos, st_err }; \
  Source src; \
  if (in_kind) { chunk_source_init(&src, st_varint_chunk_source, &drv); } \
  else { octet_source_init(&src, st_varint_octet_source, &drv); }

/* a sink that has already taken in_cnt octets; refuses with st_rc if negative
 * (not with the retry codes: that loop belongs to sink_put_chunk, C17) */
#define VI_SINK_STATE() \
  GHOST_HAVOC(); \
  IN(size_t, in_cnt) IN(int, st_rc) IN(int, in_kind) \
  ASSUME(in_cnt <= ST_VSINK_CAP - SPEC_VARINT_MAX64 && st_rc != -EINTR && st_rc != -EAGAIN); \
  IN_MEM(in_cap, ST_VSINK_CAP) \
  struct st_vsink drv; \
  memcpy(drv.cap, in_cap, ST_VSINK_CAP); drv.cnt = in_cnt; drv.rc = st_rc; \
  Sink snk; \
  if (in_kind) { chunk_sink_init(&snk, st_varint_chunk_sink, &drv); } \
  else { octet_sink_init(&snk, st_varint_octet_sink, &drv); }

/* ---- the reference definition is consistent with itself ---------------- */

/* for every value: the image is minimal (top group non-zero unless it is the
 * only one, nothing left above it), within 5 resp. 10 octets, and the
 * reference decoder reads it back: same value, exactly its octets - also when
 * the octet string goes on behind it, and TRUNCATED for every proper prefix */
void h_spec_roundtrip(void)
{
  IN(uint64_t, in_n) IN(size_t, in_avail) IN(int, in_w32)
  ASSUME(IMPLIES(in_w32, in_n <= 0xffffffffu));
  const size_t max = in_w32 ? SPEC_VARINT_MAX32 : SPEC_VARINT_MAX64;
  const size_t len = spec_varint_len(in_n);
  CHECK(len >= 1 && len <= max, "spec: image length within the maximum of the width");
  CHECK(len == 10 || (in_n >> (7u * len)) == 0, "spec: all of the value is inside the image");
  CHECK(len == 1 || ((in_n >> (7u * (len - 1u))) & 0x7fu) != 0, "spec: minimal - top group is not zero");
  ASSUME(in_avail <= VI_SMAX);
  IN_MEM(in_octets, in_avail)
  for (size_t k = 0; k < 10; k++) {
    if (k < len && k < in_avail) in_octets[k] = spec_varint_octet(in_n, k);
  }
  CHECK(IMPLIES(len >= 1 && in_avail >= 1, ((in_octets[0] & 0x80u) != 0) == (len > 1)), "spec: continuation bit on all but the last");
  struct spec_varint_result r = spec_varint_decode(in_octets, in_avail, max);
  CHECK(IMPLIES(in_avail >= len, r.verdict == SPEC_VARINT_OK && r.value == in_n && r.consumed == len),
        "spec: decode(image(n)) == n, consuming exactly the image");
  CHECK(IMPLIES(in_avail < len, r.verdict == SPEC_VARINT_TRUNCATED && r.consumed == 0),
        "spec: every proper prefix of an image is TRUNCATED");
  VERIF_CANARY();
}

/* ---- helpers ----------------------------------------------------------- */

void h_varint_done(void)
{
  IN(uint8_t, in_octet)
  varint_done(in_octet);
  VERIF_CANARY();
}

void h_varint_encode(void)
{
  VI_ENC_STATE()
  IN(uint64_t, in_n)
  ASSUME(in_size - in_used >= spec_varint_len(in_n));
  varint_encode(in_n, &b);
  VERIF_CANARY();
}

void h_varint_decode(void)
{
  VI_DEC_STATE()
  IN(size_t, in_max)
  ASSUME(in_max <= SPEC_VARINT_MAX64);
  union varint64 out;
  varint_decode(&b, in_max, &out);
  VERIF_CANARY();
}

void h_varint_from_source(void)
{
  VI_SRC_STATE()
  IN(size_t, in_max)
  ASSUME(in_max <= SPEC_VARINT_MAX64);
  union varint64 out;
  varint_from_source(&src, in_max, &out);
  VERIF_CANARY();
}

/* ---- typed functions ---------------------------------------------------- */

#define H_DECODE(fn, type) \
void h_##fn(void) \
{ \
  VI_DEC_STATE() \
  type out; \
  fn(&b, &out); \
  VERIF_CANARY(); \
}
H_DECODE(varint_decode_u32, uint32_t)
H_DECODE(varint_decode_s32, int32_t)
H_DECODE(varint_decode_u64, uint64_t)
H_DECODE(varint_decode_s64, int64_t)

#define H_ENCODE(fn, type) \
void h_##fn(void) \
{ \
  VI_ENC_STATE() \
  IN(type, in_n) \
  fn(&b, in_n); \
  VERIF_CANARY(); \
}
H_ENCODE(varint_encode_u32, uint32_t)
H_ENCODE(varint_encode_s32, int32_t)
H_ENCODE(varint_encode_u64, uint64_t)
H_ENCODE(varint_encode_s64, int64_t)

#define H_FROM_SOURCE(fn, type) \
void h_##fn(void) \
{ \
  VI_SRC_STATE() \
  type out; \
  fn(&src, &out); \
  VERIF_CANARY(); \
}
H_FROM_SOURCE(varint_u32_from_source, uint32_t)
H_FROM_SOURCE(varint_s32_from_source, int32_t)
H_FROM_SOURCE(varint_u64_from_source, uint64_t)
H_FROM_SOURCE(varint_s64_from_source, int64_t)

#define H_TO_SINK(fn, type) \
void h_##fn(void) \
{ \
  VI_SINK_STATE() \
  IN(type, in_n) \
  fn(&snk, in_n); \
  VERIF_CANARY(); \
}
H_TO_SINK(varint_u32_to_sink, uint32_t)
H_TO_SINK(varint_s32_to_sink, int32_t)
H_TO_SINK(varint_u64_to_sink, uint64_t)
H_TO_SINK(varint_s64_to_sink, int64_t)

#define H_LENGTH(fn, type) \
void h_##fn(void) \
{ \
  IN(type, in_n) \
  fn(in_n); \
  VERIF_CANARY(); \
}
H_LENGTH(varint_u64_length, uint64_t)
H_LENGTH(varint_s64_length, int64_t)
H_LENGTH(varint_u32_length, uint32_t)
H_LENGTH(varint_s32_length, int32_t)

/* ---- lemmas over the contracts ------------------------------------------ */

/* decode(encode(x)) == x from the same buffer, consuming exactly the encoded
 * octets; the return value of the encoder is the length query, <= max.
 * Then the same octets through a source (either driver kind): same value,
 * exactly those octets fetched. */
#define H_ROUNDTRIP(sfx, type, enc, dec, from, lenq, max) \
void h_lemma_roundtrip_##sfx(void) \
{ \
  VI_ENC_STATE() \
  IN(type, in_n) IN(int, st_err) IN(int, in_kind) \
  ASSUME(in_size - in_used >= (max) && st_err < 0); \
  const int e = enc(&b, in_n); \
  CHECK(e > 0 && (size_t)e <= (max), "encoded length is at most the maximum of the width"); \
  CHECK((size_t)e == lenq(in_n), "encoded length == length query"); \
  CHECK(b.used == in_used + (size_t)e && b.offset == in_used, "encoder appended exactly its octets"); \
  type back = 0; \
  const int d = dec(&b, &back); \
  CHECK(d == e, "buffer decoder consumed exactly the encoded octets"); \
  CHECK(b.offset == in_used + (size_t)e, "read mark is behind the number"); \
  CHECK(back == in_n, "decode(encode(x)) == x"); \
  struct st_vsrc drv = { in_data + in_used, in_size - in_used, 0, st_err }; \
  Source src; \
  if (in_kind) { chunk_source_init(&src, st_varint_chunk_source, &drv); } \
  else { octet_source_init(&src, st_varint_octet_source, &drv); } \
  type back2 = 0; \
  const int s = from(&src, &back2); \
  CHECK(s == e, "source decoder fetched exactly the encoded octets"); \
  CHECK(drv.pos == (size_t)e, "source position is behind the number"); \
  CHECK(back2 == in_n, "from_source(encode(x)) == x"); \
  VERIF_CANARY(); \
}
H_ROUNDTRIP(u32, uint32_t, varint_encode_u32, varint_decode_u32, varint_u32_from_source, varint_u32_length, SPEC_VARINT_MAX32)
H_ROUNDTRIP(s32, int32_t, varint_encode_s32, varint_decode_s32, varint_s32_from_source, varint_s32_length, SPEC_VARINT_MAX32)
H_ROUNDTRIP(u64, uint64_t, varint_encode_u64, varint_decode_u64, varint_u64_from_source, varint_u64_length, SPEC_VARINT_MAX64)
H_ROUNDTRIP(s64, int64_t, varint_encode_s64, varint_decode_s64, varint_s64_from_source, varint_s64_length, SPEC_VARINT_MAX64)

/* For every octet string: buffer decoder and source decoder agree on the
 * verdict (success / illegal sequence / cut off) and, on success, on value and
 * consumed count; a cut-off number consumes nothing from the buffer. */
#define H_AGREE(sfx, type, dec, from, max) \
void h_lemma_agree_##sfx(void) \
{ \
  VI_DEC_STATE() \
  IN(int, st_err) IN(int, in_kind) \
  ASSUME(st_err < 0 && st_err != -EILSEQ); \
  struct st_vsrc drv = { in_data + in_offset, in_size - in_offset, 0, st_err }; \
  Source src; \
  if (in_kind) { chunk_source_init(&src, st_varint_chunk_source, &drv); } \
  else { octet_source_init(&src, st_varint_octet_source, &drv); } \
  type vb = 0, vs = 0; \
  const int rb = dec(&b, &vb); \
  const int rs = from(&src, &vs); \
  CHECK((rb > 0) == (rs > 0), "both decoders succeed or both fail"); \
  CHECK(rb != 0 && rs != 0, "a decoder never reports zero octets"); \
  CHECK((rb == -EILSEQ) == (rs == -EILSEQ), "both or neither report an illegal sequence"); \
  CHECK(IMPLIES(rb > 0, rb == rs && vb == vs), "same value and same consumed count"); \
  CHECK(IMPLIES(rb > 0, b.offset == in_offset + (size_t)rb && drv.pos == (size_t)rb && (size_t)rb <= (max)), \
        "consumed count is the advance of both read positions"); \
  CHECK(IMPLIES(rb < 0, b.offset == in_offset), "a failed buffer decode consumes nothing"); \
  CHECK(IMPLIES(rs == -EILSEQ, in_size - in_offset >= (max)), "illegal only with max octets and no terminator"); \
  CHECK(IMPLIES(rs < 0 && rs != -EILSEQ, rs == st_err && in_size - in_offset < (max)), \
        "otherwise the number was cut off by the end of the data"); \
  VERIF_CANARY(); \
}
H_AGREE(u32, uint32_t, varint_decode_u32, varint_u32_from_source, SPEC_VARINT_MAX32)
H_AGREE(s32, int32_t, varint_decode_s32, varint_s32_from_source, SPEC_VARINT_MAX32)
H_AGREE(u64, uint64_t, varint_decode_u64, varint_u64_from_source, SPEC_VARINT_MAX64)
H_AGREE(s64, int64_t, varint_decode_s64, varint_s64_from_source, SPEC_VARINT_MAX64)
