/* Harnesses for src/length-prefix.c (C13).  Sources and sinks are the
 * nondeterministic drivers of stubs/endpoint_drivers.h (any fragmentation, 0,
 * -EINTR, -EAGAIN, any hard error) as wrapped by stubs/length_prefix_io.h (the
 * switch g_lp_dof is arbitrary), set up through the library's constructors;
 * the ghost state of the abstract streams is arbitrary at the start of every
 * harness.  Payload memory, buffers, chunk arrays and prefix objects are
 * exact-size heap blocks. */
#ifndef LP_NMAX
#define LP_NMAX 70000
#endif

size_t g_lp_sum[9];
size_t g_lp_c;

#if VERIF_IS_NATIVE
#define LP_FOLD(x, lo, hi) if ((x) < (lo) || (x) > (hi)) x = (lo) + (size_t)(x) % ((size_t)(hi) - (size_t)(lo) + 1u);
#else
#define LP_FOLD(x, lo, hi)
#endif

#define LP_GHOSTS() \
  GHOST_HAVOC(); \
  IN(size_t, in_src_pos) IN(size_t, in_snk_pos) IN(size_t, in_b) \
  IN(size_t, in_src_nhard) IN(size_t, in_snk_nhard) IN(size_t, in_lp_c) \
  IN(uint8_t, in_val) IN(uint8_t, in_snk_val) IN(int, in_src_err) IN(int, in_snk_err) IN(int, in_dof) \
  LP_FOLD(in_src_pos, 0, SIZE_MAX / 2) LP_FOLD(in_snk_pos, 0, SIZE_MAX / 2) \
  g_src_pos = in_src_pos; g_snk_pos = in_snk_pos; g_b = in_b; \
  g_src_nhard = in_src_nhard; g_snk_nhard = in_snk_nhard; g_lp_c = in_lp_c; \
  g_val = in_val; g_snk_val = in_snk_val; g_src_err = in_src_err; g_snk_err = in_snk_err; \
  g_lp_dof = (in_dof != 0);

#define LP_KIND(k) \
  IN(int, in_kind) LP_FOLD(in_kind, 0, 5) ASSUME(in_kind >= 0 && in_kind <= 5); \
  const LengthPrefixKind k = (LengthPrefixKind)in_kind;

#define LP_SOURCE(s) \
  IN(int, in_src_kind) LP_FOLD(in_src_kind, 0, 1) ASSUME(in_src_kind == 0 || in_src_kind == 1); \
  Source s; \
  if (in_src_kind == 0) octet_source_init(&s, ep_octet_source, EP_SRC_DRIVER); \
  else chunk_source_init(&s, ep_chunk_source, EP_SRC_DRIVER);
#define LP_SINK(s) \
  IN(int, in_snk_kind) LP_FOLD(in_snk_kind, 0, 1) ASSUME(in_snk_kind == 0 || in_snk_kind == 1); \
  Sink s; \
  if (in_snk_kind == 0) octet_sink_init(&s, ep_octet_sink, EP_SNK_DRIVER); \
  else chunk_sink_init(&s, ep_chunk_sink, EP_SNK_DRIVER);

/* a payload length: anything the harness can supply memory for, or anything
 * the kind cannot frame (then the memory is not looked at) */
#if VERIF_IS_NATIVE
#define LP_LEN(in_n, k, fits) IN(size_t, in_n) if (fits(k, in_n) && in_n > LP_NMAX) in_n %= (LP_NMAX + 1u);
#else
#define LP_LEN(in_n, k, fits) IN(size_t, in_n) ASSUME(in_n <= LP_NMAX || !fits(k, in_n));
#endif
#define LP_BUFLEN(in_n) ((in_n) <= LP_NMAX ? (in_n) : 1)

/* a byte buffer in any state offset <= used <= size <= LP_NMAX */
#define LP_BUFFER(b) \
  IN(size_t, in_size) IN(size_t, in_used) IN(size_t, in_offset) \
  LP_FOLD(in_size, 1, LP_NMAX) LP_FOLD(in_used, 0, in_size) LP_FOLD(in_offset, 0, in_used) \
  ASSUME(in_size >= 1 && in_size <= LP_NMAX && in_offset <= in_used && in_used <= in_size); \
  IN_MEM(in_data, in_size) \
  ByteBuffer *b = malloc(sizeof(ByteBuffer)); ASSUME(b != NULL); \
  b->data = in_data; b->size = in_size; b->used = in_used; b->offset = in_offset;

/* ---- static-state invariant: base target (plain harness, initialisers) ---- */
void h_static_kind_table(void)
{
  CHECK(LP_STATIC_OK(), "kind[]: widths, maxima and codecs of the six kinds are those of the specification");
  CHECK(sizeof(kind) / sizeof(kind[0]) == 6u, "kind[] has one entry per LengthPrefixKind");
  CHECK(sizeof(((LengthPrefixBuffer *)0)->prefix_) == LP_PREFIX_ROOM
        && sizeof(((LengthPrefixChunks *)0)->prefix_) == LP_PREFIX_ROOM, "prefix objects have room for the longest prefix");
  VERIF_CANARY();
}

/* ---- spec lemmas ------------------------------------------------------------ */

/* a stream that holds prefix(k, L) is a prefix of value L and length
 * lp_spec_len(k, L) in the sense of the decoders' contracts, and of no other
 * value or length: the decoders' relational postcondition determines the
 * announced length of every well-formed frame */
void h_lemma_prefix_unique(void)
{
  LP_KIND(k)
  IN(uint64_t, in_len) IN(uint64_t, in_v) IN(size_t, in_m)
  IN_MEM(in_s, 10)
  ASSUME(LP_FITS(k, in_len));
  const size_t l = lp_spec_len(k, in_len);
  CHECK(l >= 1u && l <= LP_PREFIX_ROOM, "a prefix has 1..10 octets");
  for (size_t i = 0; i < 10u; i++)
    ASSUME(IMPLIES(i < l, in_s[i] == lp_spec_octet(k, in_len, i)));
  /* it is a prefix of value L */
  CHECK(lp_dec_shape(k, in_len, l), "prefix(k, L) has the shape of a prefix of value L");
  for (size_t i = 0; i < 10u; i++)
    CHECK(IMPLIES(i < l, lp_dec_octet(k, in_len, l, i, in_s[i])), "every octet of prefix(k, L) is accepted for value L");
  /* and of nothing else */
  ASSUME(lp_dec_shape(k, in_v, in_m));
  for (size_t i = 0; i < 10u; i++)
    ASSUME(IMPLIES(i < in_m, lp_dec_octet(k, in_v, in_m, i, in_s[i])));
  CHECK(in_m == l, "the prefix length is determined");
  CHECK(in_v == in_len, "the announced length is determined");
  VERIF_CANARY();
}

/* ---- leaves ------------------------------------------------------------------ */

void h_ref_u8(void)
{
  IN_MEM(in_buf, 1)
  ref_u8(in_buf);
  VERIF_CANARY();
}

void h_set_u8(void)
{
  IN_MEM(in_buf, 1)
  IN(uint8_t, in_value)
  set_u8(in_buf, in_value);
  VERIF_CANARY();
}

void h_encode_prefix(void)
{
  GHOST_HAVOC();
  LP_KIND(k)
  IN(size_t, in_n) IN(int, in_apart)
  IN_MEM(in_lpb, sizeof(LengthPrefixBuffer))
  IN_MEM(in_bb, sizeof(ByteBuffer))
  LengthPrefixBuffer *lpb = (LengthPrefixBuffer *)in_lpb;
  /* the view is a member of the prefix object (as in every caller), or apart */
  encode_prefix(k, in_apart ? (ByteBuffer *)in_bb : &lpb->prefix, lpb->prefix_, in_n);
  VERIF_CANARY();
}

/* ---- prefix objects ----------------------------------------------------------- */

void h_flenp_memory_encode(void)
{
  GHOST_HAVOC();
  LP_KIND(k)
  IN(size_t, in_n) IN(int, in_null)
  IN_MEM(in_lpb, sizeof(LengthPrefixBuffer))
  IN_MEM(in_buf, 1)
  flenp_memory_encode(k, (LengthPrefixBuffer *)in_lpb, in_null ? (void *)0 : in_buf, in_n);
  VERIF_CANARY();
}

void h_flenp_buffer_encode(void)
{
  GHOST_HAVOC();
  LP_KIND(k)
  LP_BUFFER(b)
  IN_MEM(in_lpb, sizeof(LengthPrefixBuffer))
  flenp_buffer_encode(k, (LengthPrefixBuffer *)in_lpb, b);
  VERIF_CANARY();
}

void h_flenp_buffer_encode_n(void)
{
  GHOST_HAVOC();
  LP_KIND(k)
  LP_BUFFER(b)
  IN(size_t, in_n)
  IN_MEM(in_lpb, sizeof(LengthPrefixBuffer))
  flenp_buffer_encode_n(k, (LengthPrefixBuffer *)in_lpb, b, in_n);
  VERIF_CANARY();
}

/* ---- chunk lists ----------------------------------------------------------------
 * in_chunks <= LP_CMAX chunks, each an own exact-size heap block in any state
 * (empty chunks included), `active` anywhere in 0..chunks; the ghost prefix
 * sums are computed here (native replay) resp. constrained by the contract's
 * precondition (proof). */
#ifndef LP_CHUNK_NMAX
#define LP_CHUNK_NMAX 4096
#endif
#define LP_ONE_CHUNK(i) \
  IN(size_t, in_size##i) IN(size_t, in_used##i) IN(size_t, in_offset##i) \
  LP_FOLD(in_size##i, 1, LP_CHUNK_NMAX) LP_FOLD(in_used##i, 0, in_size##i) LP_FOLD(in_offset##i, 0, in_used##i) \
  ASSUME(in_size##i >= 1 && in_size##i <= LP_CHUNK_NMAX && in_offset##i <= in_used##i && in_used##i <= in_size##i); \
  IN_MEM(in_data##i, in_size##i) \
  if ((i) < in_chunks) { \
    chunk[i].data = in_data##i; chunk[i].size = in_size##i; chunk[i].used = in_used##i; chunk[i].offset = in_offset##i; \
  }
#if LP_CMAX == 2
#define LP_EACH(M) M(0) M(1)
#define LP_LAST(M) M(2)
#elif LP_CMAX == 3
#define LP_EACH(M) M(0) M(1) M(2)
#define LP_LAST(M) M(3)
#elif LP_CMAX == 4
#define LP_EACH(M) M(0) M(1) M(2) M(3)
#define LP_LAST(M) M(4)
#elif LP_CMAX == 6
#define LP_EACH(M) M(0) M(1) M(2) M(3) M(4) M(5)
#define LP_LAST(M) M(6)
#elif LP_CMAX == 8
#define LP_EACH(M) M(0) M(1) M(2) M(3) M(4) M(5) M(6) M(7)
#define LP_LAST(M) M(8)
#endif
/* the ghost prefix sums: computed (native replay) resp. arbitrary and
 * constrained by LP_CHUNKS_OK in the contract's precondition (proof) */
#if VERIF_IS_NATIVE
#define LP_ONE_SUM(i)
#define LP_SUMS(oc) \
  for (size_t i_ = 0; i_ <= LP_CMAX; i_++) g_lp_sum[i_] = 0; \
  for (size_t i_ = (oc)->active; i_ < (oc)->chunks; i_++) \
    g_lp_sum[i_ + 1] = g_lp_sum[i_] + ((oc)->chunk[i_].used - (oc)->chunk[i_].offset);
#else
#define LP_ONE_SUM(i) IN(size_t, in_sum##i) g_lp_sum[i] = in_sum##i;
#define LP_SUMS(oc) LP_EACH(LP_ONE_SUM) LP_LAST(LP_ONE_SUM)
#endif
#define LP_CHUNKS(oc) \
  IN(size_t, in_chunks) IN(size_t, in_active) \
  LP_FOLD(in_chunks, 0, LP_CMAX) LP_FOLD(in_active, 0, in_chunks) \
  ASSUME(in_chunks <= LP_CMAX && in_active <= in_chunks); \
  ByteBuffer *chunk = malloc(in_chunks * sizeof(ByteBuffer)); ASSUME(chunk != NULL); \
  LP_EACH(LP_ONE_CHUNK) \
  (oc)->chunks = in_chunks; (oc)->active = in_active; (oc)->chunk = chunk; \
  LP_SUMS(oc)

void h_flenp_chunks_use(void)
{
  LP_GHOSTS()
  LP_KIND(k)
  IN_MEM(in_lpc, sizeof(LengthPrefixChunks))
  LengthPrefixChunks *lpc = (LengthPrefixChunks *)in_lpc;
  LP_CHUNKS(&lpc->payload)
  flenp_chunks_use(k, lpc);
  VERIF_CANARY();
}

/* ---- encoders into a sink --------------------------------------------------------- */

void h_flenp_memory_to_sink(void)
{
  LP_GHOSTS()
  LP_KIND(k)
  LP_SINK(snk)
  LP_LEN(in_n, k, LP_FITS_TOTAL)
  IN_MEM(in_buf, LP_BUFLEN(in_n))
  flenp_memory_to_sink(k, &snk, in_buf, in_n);
  VERIF_CANARY();
}

void h_flenp_buffer_to_sink(void)
{
  LP_GHOSTS()
  LP_KIND(k)
  LP_SINK(snk)
  LP_BUFFER(b)
  flenp_buffer_to_sink(k, &snk, b);
  VERIF_CANARY();
}

void h_flenp_buffer_to_sink_n(void)
{
  LP_GHOSTS()
  LP_KIND(k)
  LP_SINK(snk)
  LP_BUFFER(b)
  IN(size_t, in_n)
  flenp_buffer_to_sink_n(k, &snk, b, in_n);
  VERIF_CANARY();
}

void h_flenp_chunks_to_sink(void)
{
  LP_GHOSTS()
  LP_KIND(k)
  LP_SINK(snk)
  ByteChunks *oc = malloc(sizeof(ByteChunks)); ASSUME(oc != NULL);
  LP_CHUNKS(oc)
  flenp_chunks_to_sink(k, &snk, oc);
  VERIF_CANARY();
}

/* ---- decoders ----------------------------------------------------------------------- */

void h_decode_prefix(void)
{
  LP_GHOSTS()
  LP_KIND(k)
  LP_SOURCE(src)
  IN_MEM(in_len, sizeof(uint64_t))
  decode_prefix(k, &src, (uint64_t *)in_len);
  VERIF_CANARY();
}

void h_flenp_memory_from_source(void)
{
  LP_GHOSTS()
  LP_KIND(k)
  LP_SOURCE(src)
  IN(size_t, in_size) LP_FOLD(in_size, 0, LP_NMAX) ASSUME(in_size <= LP_NMAX);
  IN_MEM(in_mem, in_size)
  flenp_memory_from_source(k, &src, in_mem, in_size);
  VERIF_CANARY();
}

void h_flenp_buffer_from_source(void)
{
  LP_GHOSTS()
  LP_KIND(k)
  LP_SOURCE(src)
  LP_BUFFER(b)
  flenp_buffer_from_source(k, &src, b);
  VERIF_CANARY();
}

void h_flenp_decode_source_to_sink(void)
{
  LP_GHOSTS()
  LP_KIND(k)
  LP_SOURCE(src)
  LP_SINK(snk)
  flenp_decode_source_to_sink(k, &src, &snk);
  VERIF_CANARY();
}

/* consecutive frames: the second decoder call starts where the first stopped,
 * behind the first frame, so its prefix and payload are the stream's octets
 * that follow -- derived from the contract of flenp_memory_from_source alone
 * (two replaced calls).  The lemma is carried by a function with a contract of
 * its own (its requires clause is that of the two calls), because under dfcc
 * the static kind[] table has its invariant only inside a function under
 * contract. */
static void lp_two_frames(const LengthPrefixKind k, Source *source,
                          unsigned char *mem1, size_t size1, unsigned char *mem2, size_t size2)
{
  const size_t p0 = g_src_pos;
  const ssize_t l1 = flenp_memory_from_source(k, source, mem1, size1);
  const size_t p1 = g_src_pos;
  if (l1 > 0) {
    const size_t m1 = p1 - p0 - (size_t)l1;
    const ssize_t l2 = flenp_memory_from_source(k, source, mem2, size2);
    const size_t p2 = g_src_pos;
    if (l2 > 0 && LP_PREFIX_CLAIMED(k)) {
      const size_t m2 = p2 - p1 - (size_t)l2;
      CHECK(lp_dec_shape(k, (uint64_t)l2, m2), "second frame: its prefix has the shape of a prefix of the returned length");
      CHECK(IMPLIES(g_a >= p1 && g_a - p1 < m2, lp_dec_octet(k, (uint64_t)l2, m2, g_a - p1, g_val)),
            "second frame: its prefix octets are the stream's octets behind the first frame");
      CHECK(IMPLIES(g_a >= p1 + m2 && g_a - p1 - m2 < (size_t)l2, mem2[g_a - p1 - m2] == g_val),
            "second frame: its payload is the stream's octets behind its prefix");
      CHECK(IMPLIES(g_a >= p0 + m1 && g_a - p0 - m1 < (size_t)l1, mem1[g_a - p0 - m1] == g_val),
            "first frame: its payload is still in place");
      CHECK(p2 == p0 + m1 + (size_t)l1 + m2 + (size_t)l2, "the stream position is behind both frames");
    }
  }
}

static void lp_two_frames(const LengthPrefixKind k, Source *source,
                          unsigned char *mem1, size_t size1, unsigned char *mem2, size_t size2)
__CPROVER_requires(LP_KIND_OK(k) && LP_STATIC_OK() && EP_SOURCE_OK(source))
__CPROVER_requires(size1 <= (size_t)SSIZE_MAX
    && IMPLIES(size1 > 0u, __CPROVER_w_ok(mem1, size1) && LP_SEP(mem1) && !__CPROVER_same_object(mem1, source)))
__CPROVER_requires(size2 <= (size_t)SSIZE_MAX
    && IMPLIES(size2 > 0u, __CPROVER_w_ok(mem2, size2) && LP_SEP(mem2) && !__CPROVER_same_object(mem2, source)))
__CPROVER_requires(IMPLIES(size1 > 0u && size2 > 0u, !__CPROVER_same_object(mem1, mem2)))
__CPROVER_assigns(LP_SRC_ASSIGNS; size1 > 0u: __CPROVER_object_upto(mem1, size1);
    size2 > 0u: __CPROVER_object_upto(mem2, size2))
__CPROVER_ensures(g_src_pos >= __CPROVER_old(g_src_pos))
;

void h_lemma_consecutive_frames(void)
{
  LP_GHOSTS()
  LP_KIND(k)
  LP_SOURCE(src)
  IN(size_t, in_size1) IN(size_t, in_size2)
  LP_FOLD(in_size1, 0, LP_NMAX) LP_FOLD(in_size2, 0, LP_NMAX)
  ASSUME(in_size1 <= LP_NMAX && in_size2 <= LP_NMAX);
  IN_MEM(in_mem1, in_size1)
  IN_MEM(in_mem2, in_size2)
  lp_two_frames(k, &src, in_mem1, in_size1, in_mem2, in_size2);
  VERIF_CANARY();
}
