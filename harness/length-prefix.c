/* Harnesses for src/length-prefix.c (C13).  Sources and sinks are the
 * nondeterministic drivers of stubs/endpoint_drivers.h (any fragmentation, 0,
 * -EINTR, -EAGAIN, any hard error) as wrapped by stubs/length_prefix_io.h (the
 * switch g_lp_dof is arbitrary), set up through the library's constructors;
 * the ghost state of the abstract streams is arbitrary at the start of every
 * harness.  Payload memory, buffers, chunk arrays and prefix objects are
 * exact-size heap blocks. */
#ifndef LP_NMAX
#define LP_NMAX 70000
#endif

size_t g_lp_sum[9], g_lp_pos[9];
size_t g_lp_c;

#if VERIF_IS_NATIVE
#define LP_FOLD(x, lo, hi) if ((x) < (lo) || (x) > (hi)) x = (lo) + (size_t)(x) % ((size_t)(hi) - (size_t)(lo) + 1u);
#else
#define LP_FOLD(x, lo, hi)
#endif

#define LP_GHOSTS() \
  GHOST_HAVOC(); \
  IN(size_t, in_src_pos) IN(size_t, in_snk_pos) IN(size_t, in_b) \
  IN(size_t, in_src_nhard) IN(size_t, in_snk_nhard) IN(size_t, in_lp_c) \
  IN(uint8_t, in_val) IN(uint8_t, in_snk_val) IN(int, in_src_err) IN(int, in_snk_err) IN(int, in_dof) \
  LP_FOLD(in_src_pos, 0, SIZE_MAX / 2) LP_FOLD(in_snk_pos, 0, SIZE_MAX / 2) \
  g_src_pos = in_src_pos; g_snk_pos = in_snk_pos; g_b = in_b; \
  g_src_nhard = in_src_nhard; g_snk_nhard = in_snk_nhard; g_lp_c = in_lp_c; \
  g_val = in_val; g_snk_val = in_snk_val; g_src_err = in_src_err; g_snk_err = in_snk_err; \
  g_lp_dof = (in_dof != 0);

#define LP_KIND(k) \
  IN(int, in_kind) LP_FOLD(in_kind, 0, 5) ASSUME(in_kind >= 0 && in_kind <= 5); \
  const LengthPrefixKind k = (LengthPrefixKind)in_kind;

#define LP_SOURCE(s) \
  IN(int, in_src_kind) LP_FOLD(in_src_kind, 0, 1) ASSUME(in_src_kind == 0 || in_src_kind == 1); \
  Source s; \
  if (in_src_kind == 0) octet_source_init(&s, ep_octet_source, EP_SRC_DRIVER); \
  else chunk_source_init(&s, ep_chunk_source, EP_SRC_DRIVER);
#define LP_SINK(s) \
  IN(int, in_snk_kind) LP_FOLD(in_snk_kind, 0, 1) ASSUME(in_snk_kind == 0 || in_snk_kind == 1); \
  Sink s; \
  if (in_snk_kind == 0) octet_sink_init(&s, ep_octet_sink, EP_SNK_DRIVER); \
  else chunk_sink_init(&s, ep_chunk_sink, EP_SNK_DRIVER);

/* a payload length: anything the harness can supply memory for, or anything
 * the kind cannot frame (then the memory is not looked at) */
#if VERIF_IS_NATIVE
#define LP_LEN(in_n, k, fits) IN(size_t, in_n) if (fits(k, in_n) && in_n > LP_NMAX) in_n %= (LP_NMAX + 1u);
#else
#define LP_LEN(in_n, k, fits) IN(size_t, in_n) ASSUME(in_n <= LP_NMAX || !fits(k, in_n));
#endif
#define LP_BUFLEN(in_n) ((in_n) <= LP_NMAX ? (in_n) : 1)

/* Bounded fallback builds (plain cbmc --unwind on the real callees, HOWTO
 * "Bounded fallback"): the sizes of the payload blocks are the constant caps
 * instead of arbitrary values below them -- with a symbolic-size heap block
 * and the real source / sink loops unwound around the stub drivers the
 * formula does not get through propositional reduction (> 30 GB).  The states
 * offset <= used <= size stay arbitrary, the blocks stay exact-size. */
#if defined(VERIF_FALLBACK) && !VERIF_IS_NATIVE
#define LP_IN_SIZE(name, cap) size_t name = (cap);
#else
#define LP_IN_SIZE(name, cap) IN(size_t, name)
#endif

/* a byte buffer in any state offset <= used <= size <= LP_NMAX */
#define LP_BUFFER(b) \
  LP_IN_SIZE(in_size, LP_NMAX) IN(size_t, in_used) IN(size_t, in_offset) \
  LP_FOLD(in_size, 1, LP_NMAX) LP_FOLD(in_used, 0, in_size) LP_FOLD(in_offset, 0, in_used) \
  ASSUME(in_size >= 1 && in_size <= LP_NMAX && in_offset <= in_used && in_used <= in_size); \
  IN_MEM(in_data, in_size) \
  ByteBuffer *b = malloc(sizeof(ByteBuffer)); ASSUME(b != NULL); \
  b->data = in_data; b->size = in_size; b->used = in_used; b->offset = in_offset;

/* ---- static-state invariant: base target (plain harness, initialisers) ---- */
void h_static_kind_table(void)
{
  CHECK(LP_STATIC_OK(), "kind[]: widths, maxima and codecs of the six kinds are those of the specification");
  CHECK(sizeof(kind) / sizeof(kind[0]) == 6u, "kind[] has one entry per LengthPrefixKind");
  CHECK(sizeof(((LengthPrefixBuffer *)0)->prefix_) == LP_PREFIX_ROOM
        && sizeof(((LengthPrefixChunks *)0)->prefix_) == LP_PREFIX_ROOM, "prefix objects have room for the longest prefix");
  VERIF_CANARY();
}

/* ---- spec lemmas ------------------------------------------------------------ */

/* a stream that holds prefix(k, L) is a prefix of value L and length
 * lp_spec_len(k, L) in the sense of the decoders' contracts, and of no other
 * value or length: the decoders' relational postcondition determines the
 * announced length of every well-formed frame */
void h_lemma_prefix_unique(void)
{
  LP_KIND(k)
  IN(uint64_t, in_len) IN(uint64_t, in_v) IN(size_t, in_m)
  IN_MEM(in_s, 10)
  ASSUME(LP_FITS(k, in_len));
  const size_t l = lp_spec_len(k, in_len);
  CHECK(l >= 1u && l <= LP_PREFIX_ROOM, "a prefix has 1..10 octets");
  for (size_t i = 0; i < 10u; i++)
    ASSUME(IMPLIES(i < l, in_s[i] == lp_spec_octet(k, in_len, i)));
  /* it is a prefix of value L */
  CHECK(lp_dec_shape(k, in_len, l), "prefix(k, L) has the shape of a prefix of value L");
  for (size_t i = 0; i < 10u; i++)
    CHECK(IMPLIES(i < l, lp_dec_octet(k, in_len, l, i, in_s[i])), "every octet of prefix(k, L) is accepted for value L");
  /* and of nothing else */
  ASSUME(lp_dec_shape(k, in_v, in_m));
  for (size_t i = 0; i < 10u; i++)
    ASSUME(IMPLIES(i < in_m, lp_dec_octet(k, in_v, in_m, i, in_s[i])));
  CHECK(in_m == l, "the prefix length is determined");
  CHECK(in_v == in_len, "the announced length is determined");
  VERIF_CANARY();
}

/* ---- leaves ------------------------------------------------------------------ */

void h_ref_u8(void)
{
  IN_MEM(in_buf, 1)
  ref_u8(in_buf);
  VERIF_CANARY();
}

void h_set_u8(void)
{
  IN_MEM(in_buf, 1)
  IN(uint8_t, in_value)
  set_u8(in_buf, in_value);
  VERIF_CANARY();
}

void h_encode_prefix(void)
{
  GHOST_HAVOC();
  LP_KIND(k)
  IN(size_t, in_n) IN(int, in_apart)
  IN_MEM(in_lpb, sizeof(LengthPrefixBuffer))
  IN_MEM(in_bb, sizeof(ByteBuffer))
  LengthPrefixBuffer *lpb = (LengthPrefixBuffer *)in_lpb;
  /* the view is a member of the prefix object (as in every caller), or apart */
  encode_prefix(k, in_apart ? (ByteBuffer *)in_bb : &lpb->prefix, lpb->prefix_, in_n);
  VERIF_CANARY();
}

/* ---- prefix objects ----------------------------------------------------------- */

void h_flenp_memory_encode(void)
{
  GHOST_HAVOC();
  LP_KIND(k)
  IN(size_t, in_n) IN(int, in_null)
  IN_MEM(in_lpb, sizeof(LengthPrefixBuffer))
  IN_MEM(in_buf, 1)
  flenp_memory_encode(k, (LengthPrefixBuffer *)in_lpb, in_null ? (void *)0 : in_buf, in_n);
  VERIF_CANARY();
}

void h_flenp_buffer_encode(void)
{
  GHOST_HAVOC();
  LP_KIND(k)
  LP_BUFFER(b)
  IN_MEM(in_lpb, sizeof(LengthPrefixBuffer))
  flenp_buffer_encode(k, (LengthPrefixBuffer *)in_lpb, b);
  VERIF_CANARY();
}

void h_flenp_buffer_encode_n(void)
{
  GHOST_HAVOC();
  LP_KIND(k)
  LP_BUFFER(b)
  IN(size_t, in_n)
  IN_MEM(in_lpb, sizeof(LengthPrefixBuffer))
  flenp_buffer_encode_n(k, (LengthPrefixBuffer *)in_lpb, b, in_n);
  VERIF_CANARY();
}

/* ---- chunk lists ----------------------------------------------------------------
 * in_chunks <= LP_CMAX chunks, each an own exact-size heap block in any state
 * (empty chunks included), `active` anywhere in 0..chunks; the chunk array has
 * LP_CMAX entries (a fixed-size block: a symbolic-size array of structs costs
 * a multiple of the solver time; entries from in_chunks on are arbitrary and
 * an access behind entry LP_CMAX - 1 leaves the block); the ghost prefix
 * sums are computed here (native replay) resp. constrained by the contract's
 * precondition (proof). */
#ifndef LP_CHUNK_NMAX
#define LP_CHUNK_NMAX 4096
#endif
#define LP_ONE_CHUNK(i) \
  LP_IN_SIZE(in_size##i, LP_CHUNK_NMAX) IN(size_t, in_used##i) IN(size_t, in_offset##i) \
  LP_FOLD(in_size##i, 0, LP_CHUNK_NMAX) LP_FOLD(in_used##i, 0, in_size##i) LP_FOLD(in_offset##i, 0, in_used##i) \
  ASSUME(in_size##i <= LP_CHUNK_NMAX && in_offset##i <= in_used##i && in_used##i <= in_size##i); \
  IN_MEM(in_data##i, in_size##i) \
  if ((i) < in_chunks) { \
    chunk[i].data = in_size##i == 0u ? (unsigned char *)0 : in_data##i; chunk[i].size = in_size##i; chunk[i].used = in_used##i; chunk[i].offset = in_offset##i; \
  }
#if LP_CMAX == 2
#define LP_EACH(M) M(0) M(1)
#define LP_LAST(M) M(2)
#elif LP_CMAX == 3
#define LP_EACH(M) M(0) M(1) M(2)
#define LP_LAST(M) M(3)
#elif LP_CMAX == 4
#define LP_EACH(M) M(0) M(1) M(2) M(3)
#define LP_LAST(M) M(4)
#elif LP_CMAX == 6
#define LP_EACH(M) M(0) M(1) M(2) M(3) M(4) M(5)
#define LP_LAST(M) M(6)
#elif LP_CMAX == 8
#define LP_EACH(M) M(0) M(1) M(2) M(3) M(4) M(5) M(6) M(7)
#define LP_LAST(M) M(8)
#endif
/* the ghost prefix sums: computed (native replay) resp. arbitrary and
 * constrained by LP_CHUNKS_OK in the contract's precondition (proof) */
#if VERIF_IS_NATIVE
#define LP_ONE_SUM(i)
#define LP_SUMS(oc) \
  for (size_t i_ = 0; i_ <= LP_CMAX; i_++) g_lp_sum[i_] = 0; \
  for (size_t i_ = (oc)->active; i_ < (oc)->chunks; i_++) \
    g_lp_sum[i_ + 1] = g_lp_sum[i_] + ((oc)->chunk[i_].used - (oc)->chunk[i_].offset);
#else
#define LP_ONE_SUM(i) IN(size_t, in_sum##i) g_lp_sum[i] = in_sum##i;
#define LP_SUMS(oc) LP_EACH(LP_ONE_SUM) LP_LAST(LP_ONE_SUM)
#endif
/* ... and the ghost positions for the frame sent from the current sink position */
#if VERIF_IS_NATIVE
#define LP_POSITIONS(k, oc) \
  for (size_t i_ = 0; i_ <= LP_CMAX; i_++) \
    g_lp_pos[i_] = g_snk_pos + lp_spec_len((k), g_lp_sum[(oc)->chunks]) + g_lp_sum[i_ < (oc)->chunks ? i_ : (oc)->chunks];
#else
#define LP_ONE_POS(i) IN(size_t, in_pos##i) g_lp_pos[i] = in_pos##i;
#define LP_POSITIONS(k, oc) LP_EACH(LP_ONE_POS) LP_LAST(LP_ONE_POS)
#endif
#define LP_CHUNKS(oc) \
  IN(size_t, in_chunks) IN(size_t, in_active) \
  LP_FOLD(in_chunks, 0, LP_CMAX) LP_FOLD(in_active, 0, in_chunks) \
  ASSUME(in_chunks <= LP_CMAX && in_active <= in_chunks); \
  ByteBuffer *chunk = malloc(LP_CMAX * sizeof(ByteBuffer)); ASSUME(chunk != NULL); \
  LP_EACH(LP_ONE_CHUNK) \
  (oc)->chunks = in_chunks; (oc)->active = in_active; (oc)->chunk = chunk; \
  LP_SUMS(oc)

void h_flenp_chunks_use(void)
{
  LP_GHOSTS()
  LP_KIND(k)
  IN_MEM(in_lpc, sizeof(LengthPrefixChunks))
  LengthPrefixChunks *lpc = (LengthPrefixChunks *)in_lpc;
  LP_CHUNKS(&lpc->payload)
  flenp_chunks_use(k, lpc);
  VERIF_CANARY();
}

/* ---- encoders into a sink --------------------------------------------------------- */

void h_flenp_memory_to_sink(void)
{
  LP_GHOSTS()
  LP_KIND(k)
  LP_SINK(snk)
  LP_LEN(in_n, k, LP_FITS_TOTAL)
  IN_MEM(in_buf, LP_BUFLEN(in_n))
  flenp_memory_to_sink(k, &snk, in_buf, in_n);
  VERIF_CANARY();
}

void h_flenp_buffer_to_sink(void)
{
  LP_GHOSTS()
  LP_KIND(k)
  LP_SINK(snk)
  LP_BUFFER(b)
  flenp_buffer_to_sink(k, &snk, b);
  VERIF_CANARY();
}

void h_flenp_buffer_to_sink_n(void)
{
  LP_GHOSTS()
  LP_KIND(k)
  LP_SINK(snk)
  LP_BUFFER(b)
  IN(size_t, in_n)
  flenp_buffer_to_sink_n(k, &snk, b, in_n);
  VERIF_CANARY();
}

void h_flenp_chunks_to_sink(void)
{
  LP_GHOSTS()
  LP_KIND(k)
  LP_SINK(snk)
  ByteChunks *oc = malloc(sizeof(ByteChunks)); ASSUME(oc != NULL);
  LP_CHUNKS(oc)
  LP_POSITIONS(k, oc)
  flenp_chunks_to_sink(k, &snk, oc);
  VERIF_CANARY();
}

/* ---- decoders ----------------------------------------------------------------------- */

void h_decode_prefix(void)
{
  LP_GHOSTS()
  LP_KIND(k)
  LP_SOURCE(src)
  IN_MEM(in_len, sizeof(uint64_t))
  decode_prefix(k, &src, (uint64_t *)in_len);
  VERIF_CANARY();
}

void h_flenp_memory_from_source(void)
{
  LP_GHOSTS()
  LP_KIND(k)
  LP_SOURCE(src)
  IN(size_t, in_size) LP_FOLD(in_size, 0, LP_NMAX) ASSUME(in_size <= LP_NMAX);
  IN_MEM(in_mem, in_size)
  flenp_memory_from_source(k, &src, in_mem, in_size);
  VERIF_CANARY();
}

void h_flenp_buffer_from_source(void)
{
  LP_GHOSTS()
  LP_KIND(k)
  LP_SOURCE(src)
  LP_BUFFER(b)
  flenp_buffer_from_source(k, &src, b);
  VERIF_CANARY();
}

void h_flenp_decode_source_to_sink(void)
{
  LP_GHOSTS()
  LP_KIND(k)
  LP_SOURCE(src)
  LP_SINK(snk)
  flenp_decode_source_to_sink(k, &src, &snk);
  VERIF_CANARY();
}

/* consecutive frames: the second decoder call starts where the first stopped,
 * behind the first frame, so its prefix and payload are the stream's octets
 * that follow -- derived from the contract of flenp_memory_from_source alone
 * (two replaced calls).  The lemma is carried by a function with a contract of
 * its own (its requires clause is that of the two calls), because under dfcc
 * the static kind[] table has its invariant only inside a function under
 * contract. */
static void lp_two_frames(const LengthPrefixKind k, Source *source,
                          unsigned char *mem1, size_t size1, unsigned char *mem2, size_t size2)
{
  const size_t p0 = g_src_pos;
  const ssize_t l1 = flenp_memory_from_source(k, source, mem1, size1);
  const size_t p1 = g_src_pos;
  if (l1 > 0) {
    const size_t m1 = p1 - p0 - (size_t)l1;
    const ssize_t l2 = flenp_memory_from_source(k, source, mem2, size2);
    const size_t p2 = g_src_pos;
    if (l2 > 0 && LP_PREFIX_CLAIMED(k)) {
      const size_t m2 = p2 - p1 - (size_t)l2;
      CHECK(lp_dec_shape(k, (uint64_t)l2, m2), "second frame: its prefix has the shape of a prefix of the returned length");
      CHECK(IMPLIES(g_a >= p1 && g_a - p1 < m2, lp_dec_octet(k, (uint64_t)l2, m2, g_a - p1, g_val)),
            "second frame: its prefix octets are the stream's octets behind the first frame");
      CHECK(IMPLIES(g_a >= p1 + m2 && g_a - p1 - m2 < (size_t)l2, mem2[g_a - p1 - m2] == g_val),
            "second frame: its payload is the stream's octets behind its prefix");
      CHECK(IMPLIES(g_a >= p0 + m1 && g_a - p0 - m1 < (size_t)l1, mem1[g_a - p0 - m1] == g_val),
            "first frame: its payload is still in place");
      CHECK(p2 == p0 + m1 + (size_t)l1 + m2 + (size_t)l2, "the stream position is behind both frames");
    }
  }
}

static void lp_two_frames(const LengthPrefixKind k, Source *source,
                          unsigned char *mem1, size_t size1, unsigned char *mem2, size_t size2)
__CPROVER_requires(LP_KIND_OK(k) && LP_STATIC_OK() && EP_SOURCE_OK(source))
__CPROVER_requires(size1 <= (size_t)SSIZE_MAX
    && IMPLIES(size1 > 0u, __CPROVER_w_ok(mem1, size1) && LP_SEP(mem1) && !__CPROVER_same_object(mem1, source)))
__CPROVER_requires(size2 <= (size_t)SSIZE_MAX
    && IMPLIES(size2 > 0u, __CPROVER_w_ok(mem2, size2) && LP_SEP(mem2) && !__CPROVER_same_object(mem2, source)))
__CPROVER_requires(IMPLIES(size1 > 0u && size2 > 0u, !__CPROVER_same_object(mem1, mem2)))
__CPROVER_assigns(LP_SRC_ASSIGNS; size1 > 0u: __CPROVER_object_upto(mem1, size1);
    size2 > 0u: __CPROVER_object_upto(mem2, size2))
__CPROVER_ensures(g_src_pos >= __CPROVER_old(g_src_pos))
;

void h_lemma_consecutive_frames(void)
{
  LP_GHOSTS()
  LP_KIND(k)
  LP_SOURCE(src)
  IN(size_t, in_size1) IN(size_t, in_size2)
  LP_FOLD(in_size1, 0, LP_NMAX) LP_FOLD(in_size2, 0, LP_NMAX)
  ASSUME(in_size1 <= LP_NMAX && in_size2 <= LP_NMAX);
  IN_MEM(in_mem1, in_size1)
  IN_MEM(in_mem2, in_size2)
  lp_two_frames(k, &src, in_mem1, in_size1, in_mem2, in_size2);
  VERIF_CANARY();
}

/* ---- the redundant ghost facts of LP_CHUNKS_OK / LP_CHUNKS_POS_OK ------------
 * "every partial sum is at most the total", "every chunk ends at or before the
 * frame's end", "the frame's end is payload start + total" are consequences of
 * the recurrences (sums and positions grow by the unread counts, no wrap):
 * spelling them out in the preconditions restricts nothing. */
#define LP_G_REC(i) \
  ASSUME(IMPLIES(in_active <= (i) && (i) < in_chunks, \
    g_lp_sum[(i) + 1] == g_lp_sum[i] + rest[i] && g_lp_sum[(i) + 1] >= g_lp_sum[i] \
    && g_lp_pos[(i) + 1] == g_lp_pos[i] + rest[i] && g_lp_pos[(i) + 1] >= g_lp_pos[i]));
#define LP_G_REST(i) IN(size_t, in_rest##i) rest[i] = in_rest##i;
#define LP_G_SUM(i) IN(size_t, in_gsum##i) g_lp_sum[i] = in_gsum##i;
#define LP_G_POS(i) IN(size_t, in_gpos##i) g_lp_pos[i] = in_gpos##i;
#define LP_G_CHECK(i) \
  CHECK(IMPLIES(in_active <= (i) && (i) < in_chunks, g_lp_sum[(i) + 1] <= g_lp_sum[in_chunks]), \
        "a partial sum is at most the total"); \
  CHECK(IMPLIES(in_active <= (i) && (i) < in_chunks, g_lp_pos[(i) + 1] <= g_lp_pos[in_chunks]), \
        "a chunk ends at or before the frame's end");
void h_lemma_chunk_ghosts(void)
{
  IN(size_t, in_chunks) IN(size_t, in_active)
  ASSUME(in_chunks <= LP_CMAX && in_active <= in_chunks);
  size_t rest[9];
  LP_EACH(LP_G_REST)
  LP_EACH(LP_G_SUM) LP_LAST(LP_G_SUM)
  LP_EACH(LP_G_POS) LP_LAST(LP_G_POS)
  ASSUME(g_lp_sum[in_active] == 0u);
  LP_EACH(LP_G_REC)
  LP_EACH(LP_G_CHECK)
  CHECK(g_lp_pos[in_chunks] == (size_t)(g_lp_pos[in_active] + g_lp_sum[in_chunks]),
        "the frame's end is the payload's start plus the total");
  CHECK(g_lp_pos[in_chunks] >= g_lp_pos[in_active], "the payload does not wrap");
  VERIF_CANARY();
}

/* ---- bounded round trip on concrete streams (tier B) ----------------------------
 * Two frames of every kind are written into a real ByteBuffer through the
 * library's buffer sink (sink_to_buffer) and read back through its buffer
 * source (source_from_buffer): everything is the real code (endpoints/core.c,
 * endpoints/buffer.c, byte-buffer.c, variable-length-integer.c), the loops are
 * unwound.  Payload lengths 1..LP_RT_NMAX, destination capacities 0..LP_RT_NMAX
 * + 1 (below, at and above the length), the second frame is appended to a
 * partly filled buffer.  This is where "out of memory exactly when the length
 * exceeds the room" is run for all kinds. */
#ifdef LP_UNIT_ROUNDTRIP
#ifndef LP_RT_NMAX
#define LP_RT_NMAX 3
#endif
#define LP_RT_WIRE (2u * (LP_PREFIX_ROOM + LP_RT_NMAX))
void h_roundtrip_buffers(void)
{
  GHOST_HAVOC();
  LP_KIND(k)
  IN(size_t, in_n1) IN(size_t, in_n2) IN(size_t, in_cap) IN(size_t, in_fill)
  LP_FOLD(in_n1, 1, LP_RT_NMAX) LP_FOLD(in_n2, 1, LP_RT_NMAX) LP_FOLD(in_cap, 0, LP_RT_NMAX + 1) LP_FOLD(in_fill, 0, 2)
  ASSUME(in_n1 >= 1 && in_n1 <= LP_RT_NMAX && in_n2 >= 1 && in_n2 <= LP_RT_NMAX);
  ASSUME(in_cap <= LP_RT_NMAX + 1u && in_fill <= 2u);
  IN_MEM(in_p1, in_n1)
  IN_MEM(in_p2, in_n2)
  IN_MEM(in_wire, LP_RT_WIRE)
  ByteBuffer wb;
  Sink snk;
  byte_buffer_space(&wb, in_wire, LP_RT_WIRE);
  sink_to_buffer(&snk, &wb);

  /* encode */
  const size_t l1 = lp_spec_len(k, in_n1), l2 = lp_spec_len(k, in_n2);
  const ssize_t r1 = flenp_memory_to_sink(k, &snk, in_p1, in_n1);
  CHECK(r1 == (ssize_t)(l1 + in_n1), "first frame: total reported");
  const ssize_t r2 = flenp_memory_to_sink(k, &snk, in_p2, in_n2);
  CHECK(r2 == (ssize_t)(l2 + in_n2), "second frame: total reported");
  CHECK(wb.used == l1 + in_n1 + l2 + in_n2 && wb.offset == 0u, "the wire holds both frames and nothing else");
  CHECK(IMPLIES(g_k < l1, in_wire[g_k] == lp_spec_octet(k, in_n1, g_k)), "first frame: prefix on the wire");
  CHECK(IMPLIES(g_k < in_n1, in_wire[l1 + g_k] == in_p1[g_k]), "first frame: payload on the wire");
  CHECK(IMPLIES(g_k < l2, in_wire[l1 + in_n1 + g_k] == lp_spec_octet(k, in_n2, g_k)), "second frame: prefix on the wire");
  CHECK(IMPLIES(g_k < in_n2, in_wire[l1 + in_n1 + l2 + g_k] == in_p2[g_k]), "second frame: payload on the wire");

  /* decode: first frame into memory of in_cap octets */
  Source src;
  source_from_buffer(&src, &wb);
  IN_MEM(in_dst, in_cap)
  IN(uint8_t, in_mark)
  if (g_j < in_cap) in_dst[g_j] = in_mark;
  const ssize_t d1 = flenp_memory_from_source(k, &src, in_dst, in_cap);
  if (in_cap >= in_n1) {
    CHECK(d1 == (ssize_t)in_n1, "first frame: room >= length: the length is returned");
    CHECK(IMPLIES(g_k < in_n1, in_dst[g_k] == in_p1[g_k]), "first frame: exactly the payload");
    CHECK(IMPLIES(g_j < in_cap && g_j >= in_n1, in_dst[g_j] == in_mark), "first frame: nothing behind the payload is touched");
    CHECK(wb.offset == l1 + in_n1, "the stream position is behind the first frame");

    /* second frame appended to a buffer that holds in_fill octets already */
    IN(size_t, in_bsize)
    LP_FOLD(in_bsize, in_fill == 0 ? 1 : in_fill, in_fill + LP_RT_NMAX + 1)
    ASSUME(in_bsize >= 1u && in_bsize >= in_fill && in_bsize <= in_fill + LP_RT_NMAX + 1u);
    IN_MEM(in_bdata, in_bsize)
    IN(uint8_t, in_old)
    if (g_j < in_bsize) in_bdata[g_j] = in_old;
    ByteBuffer db;
    byte_buffer_set(&db, in_bdata, in_bsize, in_fill, 0u);
    const ssize_t d2 = flenp_buffer_from_source(k, &src, &db);
    if (in_bsize - in_fill >= in_n2) {
      CHECK(d2 == (ssize_t)in_n2, "second frame: room >= length: the length is returned");
      CHECK(db.used == in_fill + in_n2 && db.offset == 0u, "second frame: appended, used advanced by the length");
      CHECK(IMPLIES(g_k < in_n2, in_bdata[in_fill + g_k] == in_p2[g_k]), "second frame: exactly the payload behind the filled region");
      CHECK(IMPLIES(g_j < in_bsize && (g_j < in_fill || g_j >= in_fill + in_n2), in_bdata[g_j] == in_old),
            "second frame: the filled region and the rest of the buffer are untouched");
      CHECK(wb.offset == wb.used, "the stream is used up");
    } else {
      CHECK(d2 == -ENOMEM, "second frame: room < length: out of memory");
      CHECK(db.used == in_fill && db.offset == 0u && IMPLIES(g_j < in_bsize, in_bdata[g_j] == in_old),
            "second frame: out of memory leaves the buffer alone");
    }
  } else {
    CHECK(d1 == -ENOMEM, "first frame: room < length: out of memory");
    CHECK(IMPLIES(g_j < in_cap, in_dst[g_j] == in_mark), "first frame: out of memory leaves the destination alone");
  }
  VERIF_CANARY();
}
#endif /* LP_UNIT_ROUNDTRIP */
