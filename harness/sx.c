/* Harnesses for the contracts of src/sx.c (C20). */
#ifndef SX_NMAX
#define SX_NMAX 4096   /* cap on the input length in the per-function proofs (nothing is unwound to it) */
#endif


/* base target of the static-state invariants: a plain harness (no dfcc), the
 * statics have the values of their initialisers */
void h_static_tables(void)
{
  CHECK(SX_STATIC_DIGITS_IS(__CPROVER_r_ok), "static state: digits is \"0123456789abcdef\"");
  CHECK(SX_STATIC_SYMTAB_IS(__CPROVER_r_ok), "static state: syminitchtab is the symbol-initial table");
  VERIF_CANARY();
}

void h_digit2int(void)
{
  IN(char, in_c)
  digit2int(in_c);
  VERIF_CANARY();
}

void h_issyminitch(void)
{
  IN(char, in_c)
  issyminitch(in_c);
  VERIF_CANARY();
}

void h_issymch(void)
{
  IN(char, in_c)
  issymch(in_c);
  VERIF_CANARY();
}

void h_nextisdelimiter(void)
{
  IN(char, in_c)
  nextisdelimiter(in_c);
  VERIF_CANARY();
}

/* ---- allocation ---- */
void h_make_node(void) { IN(size_t, in_live) g_sx_live = in_live; make_node(); VERIF_CANARY(); }
void h_sx_make_integer(void) { IN(size_t, in_live) IN(uint64_t, in_v) g_sx_live = in_live; sx_make_integer(in_v); VERIF_CANARY(); }
void h_sx_make_empty_list(void) { IN(size_t, in_live) g_sx_live = in_live; sx_make_empty_list(); VERIF_CANARY(); }
void h_make_pair(void) { IN(size_t, in_live) g_sx_live = in_live; make_pair(); VERIF_CANARY(); }

void h_sx_cons(void)
{
  IN(size_t, in_live) IN(int, in_carnull) IN(int, in_cdrnull)
  g_sx_live = in_live;
  struct sx_node *a = in_carnull ? NULL : malloc(sizeof *a);
  struct sx_node *d = in_cdrnull ? NULL : malloc(sizeof *d);
  sx_cons(a, d);
  VERIF_CANARY();
}

void h_sx_make_symboln(void)
{
  GHOST_HAVOC();
  IN(size_t, in_live) IN(size_t, in_len)
  ASSUME(in_len <= SX_NMAX);
  IN_MEM(in_s, in_len)
  g_sx_live = in_live;
  sx_make_symboln((const char *)in_s, in_len);
  VERIF_CANARY();
}

/* ---- scanners: input is an exact-size block of in_n octets ---- */
#define SX_INPUT() \
  GHOST_HAVOC(); \
  IN(size_t, in_live) IN(size_t, in_n) IN(size_t, in_i) \
  ASSUME(in_n <= SX_NMAX); \
  IN_MEM(in_s, in_n) \
  g_sx_live = in_live;

void h_skip_ws(void)
{
  SX_INPUT()
  skip_ws((const char *)in_s, in_n, in_i);
  VERIF_CANARY();
}

void h_looking_at(void)
{
  SX_INPUT()
  ASSUME(in_i < in_n);
  looking_at((const char *)in_s, in_n, in_i);
  VERIF_CANARY();
}

void h_parse_symbol(void)
{
  SX_INPUT()
  ASSUME(in_i < in_n);
  size_t pos = in_i;
  parse_symbol((const char *)in_s, in_n, &pos);
  VERIF_CANARY();
}

void h_parse_integer_(void)
{
  SX_INPUT()
  IN(int, in_hex)
  ASSUME(in_i < in_n);
  size_t pos = in_i;
  struct sx_node *r = parse_integer_((const char *)in_s, in_n, &pos, in_hex ? 2u : 0u,
                                     in_hex ? isxdigit : isdigit, in_hex ? 16u : 10u);
#if VERIF_IS_NATIVE
  if (r != NULL)
    CHECK(r->data.u64 == spec_sx_value((const char *)in_s, in_i + (in_hex ? 2u : 0u), pos, in_hex ? 16u : 10u),
          "value == positional value (most significant digit first) modulo 2^64");
#endif
  VERIF_CANARY();
}

void h_parse_integer(void)
{
  SX_INPUT()
  ASSUME(in_i < in_n);
  size_t pos = in_i;
  parse_integer((const char *)in_s, in_n, &pos);
  VERIF_CANARY();
}

void h_parse_hinteger(void)
{
  SX_INPUT()
  ASSUME(in_i < in_n);
  size_t pos = in_i;
  parse_hinteger((const char *)in_s, in_n, &pos);
  VERIF_CANARY();
}

void h_sx_parse_token(void)
{
  SX_INPUT()
  struct sx_parse_result r = sx_parse_token((const char *)in_s, in_n, in_i);
  (void)r;
  VERIF_CANARY();
}

/* ---- value of an integer literal (tier B: up to SX_VDIGITS digits, loops
 * unwound; plain harness, no contracts, the real digit2int and the real
 * static table).  20 decimal digits cover every value below 2^64 and the
 * first wrapping ones; 16 hex digits are all 64-bit patterns. */
#ifndef SX_VDIGITS
#define SX_VDIGITS 20
#endif
static void sx_integer_value(int hex)
{
  const size_t off = hex ? 2u : 0u;
  IN(size_t, in_n)
  ASSUME(in_n > off && in_n <= SX_VDIGITS + off);
  IN_MEM(in_s, in_n)
  const char *s = (const char *)in_s;
  if (hex) { ASSUME(s[0] == '#' && s[1] == 'x' && SPEC_SX_ISXDIGIT(s[2])); }
  else { ASSUME(SPEC_SX_ISDIGIT(s[0])); }
  size_t pos = 0;
  struct sx_node *r = hex ? parse_hinteger(s, in_n, &pos) : parse_integer(s, in_n, &pos);
  if (r != NULL) {
    CHECK(r->type == SXT_INTEGER, "integer literal yields an integer node");
    CHECK(r->data.u64 == spec_sx_value(s, off, pos, hex ? 16u : 10u),
          "value == positional value of the digit run (hex digits in either case), modulo 2^64");
#ifdef SX_VHORNER
    CHECK(r->data.u64 == spec_sx_horner(s, off, pos, hex ? 16u : 10u),
          "value == most-significant-digit-first (Horner) reading, modulo 2^64");
#endif
  }
}
void h_integer_value_dec(void) { sx_integer_value(0); VERIF_CANARY(); }
void h_integer_value_hex(void) { sx_integer_value(1); VERIF_CANARY(); }
