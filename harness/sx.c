/* Harnesses for the contracts of src/sx.c (C20). */
#ifndef SX_NMAX
#define SX_NMAX 4096   /* cap on the input length in the per-function proofs (nothing is unwound to it) */
#endif


/* ghost tables of spec/sx.h.  In the proof they are arbitrary arrays (the
 * contracts quantify over every table that satisfies the defining equations);
 * the native replay computes them. */
const struct sx_tabs *g_sxt;
const char *g_sx_s; size_t g_sx_n;   /* the input that the tables describe */
int g_sx_tabs;   /* 0: tables unconstrained, 1: run tables satisfy their equations, 2: C T E L too */
/* the tables computed from the text, last position first */
static void sx_tables(const char *s, size_t n)
{
  struct sx_tabs *t = calloc(1, sizeof *t);
#if !VERIF_IS_NATIVE
  ASSUME(t != NULL);
#endif
  g_sxt = t; g_sx_s = s; g_sx_n = n;
  g_sx_tabs = 0;
  if (n > SX_QMAX) return;
  g_sx_tabs = 2;
  for (size_t k = 0; k < n; k++) t->CH[k] = s[k];
  t->W[n] = t->S[n] = t->D[n] = t->X[n] = n; t->X[n + 1] = n + 1; t->L[n + 1] = SX_FAIL(n);
  for (size_t k = n; k-- > 0;) {
    t->W[k] = SPEC_SX_REF_ISSPACE(s[k]) ? t->W[k + 1] : k;
    t->S[k] = SPEC_SX_REF_ISSYMCH(s[k]) ? t->S[k + 1] : k;
    t->D[k] = SPEC_SX_REF_ISDIGIT(s[k]) ? t->D[k + 1] : k;
    t->X[k] = SPEC_SX_REF_ISXDIGIT(s[k]) ? t->X[k + 1] : k;
  }
  for (size_t k = 0; k < n; k++) {
    t->C[k] = (unsigned char)spec_sx_looking_at(s, n, k);
    t->T[k] = SX_ATOM_T(s, n, t->C[k], k);
  }
  for (size_t k = n + 1; k-- > 0;) {
    const size_t j = t->W[k];
    t->E[k] = SX_EXPR_END(n, j);
    t->L[k] = SX_TAIL_END(n, k, j);
  }
}
#if VERIF_IS_NATIVE
#define SX_TABLES(s, n, level) sx_tables((const char *)(s), (n)); if (g_sx_tabs > (level)) g_sx_tabs = (level);
#else
/* level 1: the run tables only (scanners, tokenizer); level 2: all tables */
#define SX_TABLES(s, n, level) \
  { struct sx_tabs *t_ = malloc(sizeof *t_); ASSUME(t_ != NULL); g_sxt = t_; } \
  { IN(int, in_tabs) ASSUME(in_tabs >= 0 && in_tabs <= (level)); g_sx_tabs = in_tabs; } \
  g_sx_s = (const char *)(s); g_sx_n = (n); \
  ASSUME(SX_GHOST_INVARIANT_RUNS((const char *)(s), (n))); \
  if ((level) >= 2) ASSUME(SX_GHOST_INVARIANT_GRAMMAR((const char *)(s), (n)));
#endif

/* base target of the static-state invariants: a plain harness (no dfcc), the
 * statics have the values of their initialisers */
void h_static_tables(void)
{
  CHECK(SX_STATIC_DIGITS_IS(__CPROVER_r_ok), "static state: digits is \"0123456789abcdef\"");
  CHECK(SX_STATIC_SYMTAB_IS(__CPROVER_r_ok), "static state: syminitchtab is the symbol-initial table");
  VERIF_CANARY();
}

/* the mask form of the character classes (used by the contracts) equals the
 * readable form, for every int */
void h_spec_charclasses(void)
{
  IN(int, in_c)
  CHECK(SPEC_SX_ISDIGIT(in_c) == SPEC_SX_REF_ISDIGIT(in_c), "mask form == readable form: digit");
  CHECK(SPEC_SX_ISXDIGIT(in_c) == SPEC_SX_REF_ISXDIGIT(in_c), "mask form == readable form: xdigit");
  CHECK(SPEC_SX_ISSPACE(in_c) == SPEC_SX_REF_ISSPACE(in_c), "mask form == readable form: space");
  CHECK(SPEC_SX_ISSYMINIT(in_c) == SPEC_SX_REF_ISSYMINIT(in_c), "mask form == readable form: symbol-initial");
  CHECK(SPEC_SX_ISSYMCH(in_c) == SPEC_SX_REF_ISSYMCH(in_c), "mask form == readable form: symbol constituent");
  CHECK(SPEC_SX_ISDELIM(in_c) == SPEC_SX_REF_ISDELIM(in_c), "mask form == readable form: delimiter");
  CHECK(SPEC_SX_DIGITVAL(in_c) == SPEC_SX_REF_DIGITVAL(in_c), "mask form == readable form: digit value");
  VERIF_CANARY();
}

void h_digit2int(void)
{
  IN(char, in_c)
  digit2int(in_c);
  VERIF_CANARY();
}

void h_issyminitch(void)
{
  IN(char, in_c)
  issyminitch(in_c);
  VERIF_CANARY();
}

void h_issymch(void)
{
  IN(char, in_c)
  issymch(in_c);
  VERIF_CANARY();
}

void h_nextisdelimiter(void)
{
  IN(char, in_c)
  nextisdelimiter(in_c);
  VERIF_CANARY();
}

/* ---- allocation ---- */
void h_make_node(void) { IN(size_t, in_live) g_sx_live = in_live; make_node(); VERIF_CANARY(); }
void h_sx_make_integer(void) { IN(size_t, in_live) IN(uint64_t, in_v) g_sx_live = in_live; sx_make_integer(in_v); VERIF_CANARY(); }
void h_sx_make_empty_list(void) { IN(size_t, in_live) g_sx_live = in_live; sx_make_empty_list(); VERIF_CANARY(); }
void h_make_pair(void) { IN(size_t, in_live) g_sx_live = in_live; make_pair(); VERIF_CANARY(); }

void h_sx_cons(void)
{
  IN(size_t, in_live) IN(int, in_carnull) IN(int, in_cdrnull)
  g_sx_live = in_live;
  struct sx_node *a = in_carnull ? NULL : malloc(sizeof *a);
  struct sx_node *d = in_cdrnull ? NULL : malloc(sizeof *d);
  sx_cons(a, d);
  VERIF_CANARY();
}

void h_sx_make_symboln(void)
{
  GHOST_HAVOC();
  IN(size_t, in_live) IN(size_t, in_len)
  ASSUME(in_len <= SX_NMAX);
  IN_MEM(in_s, in_len)
  g_sx_live = in_live;
  sx_make_symboln((const char *)in_s, in_len);
  VERIF_CANARY();
}

/* ---- scanners: input is an exact-size block of in_n octets ---- */
#define SX_INPUT_(level) \
  GHOST_HAVOC(); \
  IN(size_t, in_live) IN(size_t, in_n) IN(size_t, in_i) \
  ASSUME(in_n <= SX_NMAX); \
  IN_MEM(in_s, in_n) \
  SX_TABLES(in_s, in_n, level) \
  g_sx_live = in_live;
/* non-vacuity of the table-conditional clauses: the harness end is reachable
 * with the flag fully up (tables that satisfy every equation exist) */
#define SX_CANARY_TABS(level) if (g_sx_tabs == (level)) { VERIF_CANARY(); }
#define SX_INPUT() SX_INPUT_(1)
#define SX_INPUT2() SX_INPUT_(2)

void h_skip_ws(void)
{
  SX_INPUT()
  skip_ws((const char *)in_s, in_n, in_i);
  SX_CANARY_TABS(1)
  VERIF_CANARY();
}

void h_looking_at(void)
{
  GHOST_HAVOC();
  IN(size_t, in_n) IN(size_t, in_i)
  ASSUME(in_n <= SX_NMAX);
  IN_MEM(in_s, in_n)
  ASSUME(in_i < in_n);
  looking_at((const char *)in_s, in_n, in_i);
  VERIF_CANARY();
}

void h_parse_symbol(void)
{
  SX_INPUT()
  ASSUME(in_i < in_n);
  size_t pos = in_i;
  parse_symbol((const char *)in_s, in_n, &pos);
  SX_CANARY_TABS(1)
  VERIF_CANARY();
}

void h_parse_integer_(void)
{
  SX_INPUT()
  IN(int, in_hex)
  ASSUME(in_i < in_n);
  size_t pos = in_i;
  struct sx_node *r = parse_integer_((const char *)in_s, in_n, &pos, in_hex ? 2u : 0u,
                                     in_hex ? isxdigit : isdigit, in_hex ? 16u : 10u);
#if VERIF_IS_NATIVE
  if (r != NULL)
    CHECK(r->data.u64 == spec_sx_value((const char *)in_s, in_i + (in_hex ? 2u : 0u), pos, in_hex ? 16u : 10u),
          "value == positional value (most significant digit first) modulo 2^64");
#endif
  SX_CANARY_TABS(1)
  VERIF_CANARY();
}

void h_parse_integer(void)
{
  SX_INPUT()
  ASSUME(in_i < in_n);
  size_t pos = in_i;
  parse_integer((const char *)in_s, in_n, &pos);
  SX_CANARY_TABS(1)
  VERIF_CANARY();
}

void h_parse_hinteger(void)
{
  SX_INPUT()
  ASSUME(in_i < in_n);
  size_t pos = in_i;
  parse_hinteger((const char *)in_s, in_n, &pos);
  SX_CANARY_TABS(1)
  VERIF_CANARY();
}

void h_sx_parse_token(void)
{
  SX_INPUT()
  struct sx_parse_result r = sx_parse_token((const char *)in_s, in_n, in_i);
  (void)r;
  SX_CANARY_TABS(1)
  VERIF_CANARY();
}

void h_sx_parse_(void)
{
  SX_INPUT2()
  struct sx_parse_result r = sx_parse_((const char *)in_s, in_n, in_i);
  (void)r;
  SX_CANARY_TABS(2)
  VERIF_CANARY();
}

void h_sx_parse_list(void)
{
  SX_INPUT2()
  struct sx_parse_result r = sx_parse_list((const char *)in_s, in_n, in_i);
  (void)r;
  SX_CANARY_TABS(2)
  VERIF_CANARY();
}

void h_sx_parse(void)
{
  SX_INPUT2()
  struct sx_parse_result r = sx_parse((const char *)in_s, in_n, in_i);
  (void)r;
  SX_CANARY_TABS(2)
  VERIF_CANARY();
}

void h_sx_parse_stringn(void)
{
  SX_INPUT2()
  struct sx_parse_result r = sx_parse_stringn((const char *)in_s, in_n);
  (void)r;
  SX_CANARY_TABS(2)
  VERIF_CANARY();
}

/* NUL-terminated: a block of exactly in_n + 1 octets, the NUL is the last */
void h_sx_parse_string(void)
{
  GHOST_HAVOC();
  IN(size_t, in_live) IN(size_t, in_n)
  ASSUME(in_n <= SX_QMAX);
  IN_MEM(in_s, in_n + 1)
  for (size_t k = 0; k < SX_QMAX; k++)
    if (k < in_n) ASSUME(in_s[k] != 0);
  in_s[in_n] = 0;
  g_a = in_n;
  SX_TABLES(in_s, in_n, 2)
  g_sx_live = in_live;
  struct sx_parse_result r = sx_parse_string((const char *)in_s);
  (void)r;
  SX_CANARY_TABS(2)
  VERIF_CANARY();
}

/* ---- the table equations (spec/sx.h) ---- */

/* the range facts that the equations carry follow from the bare recurrences */
void h_tables_ranges(void)
{
  IN(size_t, in_n)
  ASSUME(in_n <= SX_QMAX);
  IN_MEM(in_s, in_n)
  const char *s = (const char *)in_s;
  { struct sx_tabs *t_ = malloc(sizeof *t_); ASSUME(t_ != NULL); g_sxt = t_; }
#if VERIF_IS_NATIVE
  sx_tables(s, in_n);
#else
  const size_t n = in_n;
#define SX_BARE_RUN(R, ISC, k_) ((R)[n] == n && __CPROVER_forall { size_t k_; (k_ < SX_QMAX) ==> ((k_ < n) ==> \
      (R)[k_] == (ISC(g_sxCH[k_]) ? (R)[k_ + 1] : k_)) })
  ASSUME(SX_CH_EQ(s, n, kh_));
  ASSUME(SX_BARE_RUN(g_sxW, SPEC_SX_REF_ISSPACE, kw_));
  ASSUME(SX_BARE_RUN(g_sxS, SPEC_SX_REF_ISSYMCH, ks_));
  ASSUME(SX_BARE_RUN(g_sxD, SPEC_SX_REF_ISDIGIT, kd_));
  ASSUME(SX_BARE_RUN(g_sxX, SPEC_SX_REF_ISXDIGIT, kx_) && g_sxX[n + 1] == n + 1);
  ASSUME(__CPROVER_forall { size_t kc_; (kc_ < SX_QMAX) ==> ((kc_ < n) ==>
        (g_sxC[kc_] == SX_CLS(s, n, kc_) && g_sxT[kc_] == SX_ATOM_T(s, n, g_sxC[kc_], kc_))) });
  ASSUME(__CPROVER_forall { size_t ke_; (ke_ < SX_QMAX + 1) ==> ((ke_ <= n) ==>
        (g_sxE[ke_] == SX_EXPR_END(n, g_sxW[ke_]) && g_sxL[ke_] == SX_TAIL_END(n, ke_, g_sxW[ke_]))) });
  ASSUME(g_sxL[n + 1] == SX_FAIL(n));
#endif
  IN(size_t, in_k)
  ASSUME(in_k <= in_n);
  CHECK(in_k <= g_sxW[in_k] && g_sxW[in_k] <= in_n, "recurrence => k <= W[k] <= n");
  CHECK(in_k <= g_sxS[in_k] && g_sxS[in_k] <= in_n, "recurrence => k <= S[k] <= n");
  CHECK(in_k <= g_sxD[in_k] && g_sxD[in_k] <= in_n, "recurrence => k <= D[k] <= n");
  CHECK(in_k <= g_sxX[in_k] && g_sxX[in_k] <= in_n, "recurrence => k <= X[k] <= n");
  CHECK(in_k >= in_n || g_sxT[in_k] == SX_FAIL(in_n) || (in_k < g_sxT[in_k] && g_sxT[in_k] <= in_n), "recurrence => k < T[k] <= n or FAIL");
  CHECK(g_sxE[in_k] == SX_FAIL(in_n) || (in_k < g_sxE[in_k] && g_sxE[in_k] <= in_n), "recurrence => k < E[k] <= n or FAIL");
  CHECK(g_sxL[in_k] == SX_FAIL(in_n) || (in_k < g_sxL[in_k] && g_sxL[in_k] <= in_n), "recurrence => k < L[k] <= n or FAIL");
  VERIF_CANARY();
}

/* The reference side of the bounded targets reads a COPY of the input in a
 * small fixed-size array (cells of a constant-size array are plain variables
 * for the solver; every read of the exact-size input block, whose size is
 * symbolic, costs array constraints against every other read of it). */
#define SX_COPY_INPUT(cp, s, n, max) \
  char cp[(max) + 1]; \
  for (size_t k_ = 0; k_ < (max); k_++) cp[k_] = (k_ < (n)) ? (s)[k_] : '\0'; \
  cp[max] = '\0';

/* tables that satisfy every equation exist for every input: the ones computed
 * from the text (the same routine that the native replay uses) do */
void h_tables_exist(void)
{
  IN(size_t, in_n)
  ASSUME(in_n <= SX_QMAX);
  IN_MEM(in_s, in_n)
  const char *s = (const char *)in_s;
  sx_tables(s, in_n);
#if !VERIF_IS_NATIVE
  CHECK(g_sx_tabs == 2, "tables computed");
  CHECK(SX_GHOST_INVARIANT_RUNS(s, in_n), "computed tables satisfy the run equations");
  CHECK(SX_GHOST_INVARIANT_GRAMMAR(s, in_n), "computed tables satisfy the grammar equations");
#endif
  VERIF_CANARY();
}

/* ---- value of an integer literal (tier B: up to SX_VDIGITS digits, loops
 * unwound; plain harness, no contracts, the real digit2int and the real
 * static table).  20 decimal digits cover every value below 2^64 and the
 * first wrapping ones; 16 hex digits are all 64-bit patterns. */
#ifndef SX_VDIGITS
#define SX_VDIGITS 20
#endif
static void sx_integer_value(int hex)
{
  const size_t off = hex ? 2u : 0u;
  IN(size_t, in_n)
  ASSUME(in_n > off && in_n <= SX_VDIGITS + off);
  IN_MEM(in_s, in_n)
  const char *s = (const char *)in_s;
  if (hex) { ASSUME(s[0] == '#' && s[1] == 'x' && SPEC_SX_ISXDIGIT(s[2])); }
  else { ASSUME(SPEC_SX_ISDIGIT(s[0])); }
  size_t pos = 0;
  struct sx_node *r = hex ? parse_hinteger(s, in_n, &pos) : parse_integer(s, in_n, &pos);
  if (r != NULL) {
    CHECK(r->type == SXT_INTEGER, "integer literal yields an integer node");
    CHECK(r->data.u64 == spec_sx_value(s, off, pos, hex ? 16u : 10u),
          "value == positional value of the digit run (hex digits in either case), modulo 2^64");
#ifdef SX_VHORNER
    CHECK(r->data.u64 == spec_sx_horner(s, off, pos, hex ? 16u : 10u),
          "value == most-significant-digit-first (Horner) reading, modulo 2^64");
#endif
  }
}
void h_integer_value_dec(void) { sx_integer_value(0); VERIF_CANARY(); }
void h_integer_value_hex(void) { sx_integer_value(1); VERIF_CANARY(); }

/* ==== the reference reader =================================================
 * A recursive-descent reader written from the grammar in spec/sx.h, used by
 * target tables_vs_reference to tie the table equations of the contracts to
 * the grammar, on every string of up to SX_BN octets over a 10-character
 * alphabet that has a member of every class the reader distinguishes.  (A
 * whole-stack run of the real reader against it was measured: more than
 * 40 GB of solver memory at 2 octets; dropped, see targets/C20.json.) */
#ifndef SX_BN
#define SX_BN 5
#endif
#define SX_ALPHABET_OK(c) ((c) == '(' || (c) == ')' || (c) == ' ' || (c) == 'a' || (c) == '1' \
                           || (c) == '#' || (c) == 'x' || (c) == 'F' || (c) == '-' || (c) == '{')

static size_t ref_skip_ws(const char *s, size_t n, size_t i)
{
  while (i < n && SPEC_SX_REF_ISSPACE(s[i])) i++;
  return i;
}

/* 0: s[i..n) does not begin with a complete expression
 * 1: it does, *end is the position just past it (and, when t != NULL was
 *    given, the tree t is that expression)
 * 2: it does, but the tree t is not that expression */
static int ref_list_tail(const char *s, size_t n, size_t i, size_t *end, const struct sx_node *t, int cmp);

static int ref_expr(const char *s, size_t n, size_t i, size_t *end, const struct sx_node *t, int cmp)
{
  i = ref_skip_ws(s, n, i);
  if (i >= n) return 0;
  const char c = s[i];
  if (c == '(') return ref_list_tail(s, n, i + 1, end, t, cmp);
  if (c == ')') return 0;
  if ((n - i > 2 && c == '#' && s[i + 1] == 'x' && SPEC_SX_REF_ISXDIGIT(s[i + 2])) || SPEC_SX_REF_ISDIGIT(c)) {
    const int hex = (c == '#');
    size_t j = hex ? i + 2 : i;
    uint64_t v = 0;
    while (j < n && (hex ? SPEC_SX_REF_ISXDIGIT(s[j]) : SPEC_SX_REF_ISDIGIT(s[j]))) {
      v = v * (hex ? 16u : 10u) + SPEC_SX_REF_DIGITVAL(s[j]);
      j++;
    }
    if (j < n && !SPEC_SX_REF_ISDELIM(s[j])) return 0;
    *end = j;
    if (cmp && !(t != NULL && t->type == SXT_INTEGER && t->data.u64 == v)) return 2;
    return 1;
  }
  if (SPEC_SX_REF_ISSYMINIT(c)) {
    size_t j = i;
    while (j < n && SPEC_SX_REF_ISSYMCH(s[j])) j++;
    if (j < n && !SPEC_SX_REF_ISDELIM(s[j])) return 0;
    *end = j;
    if (cmp) {
      if (!(t != NULL && t->type == SXT_SYMBOL && t->data.symbol != NULL)) return 2;
      for (size_t k = 0; k < j - i; k++)
        if (t->data.symbol[k] != s[i + k]) return 2;
      if (t->data.symbol[j - i] != '\0') return 2;
    }
    return 1;
  }
  return 0;
}

static int ref_list_tail(const char *s, size_t n, size_t i, size_t *end, const struct sx_node *t, int cmp)
{
  i = ref_skip_ws(s, n, i);
  if (i >= n) return 0;                        /* unterminated list */
  if (s[i] == ')') {
    *end = i + 1;
    if (cmp && !(t != NULL && t->type == SXT_EMPTY_LIST)) return 2;
    return 1;
  }
  int bad = 0;
  const struct sx_node *car = NULL, *cdr = NULL;
  if (cmp) {
    if (t != NULL && t->type == SXT_PAIR && t->data.pair != NULL) { car = t->data.pair->car; cdr = t->data.pair->cdr; }
    else { bad = 1; cmp = 0; }                 /* keep recognising, the answer is 0 or 2 */
  }
  size_t e1 = 0;
  const int r1 = ref_expr(s, n, i, &e1, car, cmp);
  if (r1 == 0) return 0;
  const int r2 = ref_list_tail(s, n, e1, end, cdr, cmp);
  if (r2 == 0) return 0;
  return (bad || r1 == 2 || r2 == 2) ? 2 : 1;
}


/* the table E of spec/sx.h is the reference reader: for every short string,
 * E[0] is where ref_expr() says the first expression ends (or both say there
 * is none).  Links the equations that the contracts use to the grammar as
 * written in ref_expr / ref_list_tail. */
void h_tables_vs_reference(void)
{
  IN(size_t, in_n) IN(size_t, in_i)
  ASSUME(in_n <= SX_BN && in_i <= in_n);
  IN_MEM(in_s, in_n)
  const char *s = (const char *)in_s;
  for (size_t k = 0; k < SX_BN; k++)
    if (k < in_n) ASSUME(SX_ALPHABET_OK(s[k]));
  SX_TABLES(in_s, in_n, 2)
  ASSUME(g_sx_tabs == 2);
  SX_COPY_INPUT(cp, s, in_n, SX_BN)
  size_t end = 0;
  const int ref = ref_expr(cp, in_n, in_i, &end, NULL, 0);
  CHECK((ref != 0) == (g_sxE[in_i] <= in_n), "E[i] is valid exactly when the reference reader finds an expression at i");
  CHECK(IMPLIES(ref != 0, g_sxE[in_i] == end), "E[i] is where the reference reader's expression ends");
  VERIF_CANARY();
}

/* sx_destroy on every tree of depth <= 3 that the constructors can build
 * (also with absent children): every block is given back exactly once (the
 * ledger returns to its start value; a double or foreign free fails the
 * allocator's checks), the caller's pointer is cleared. */
static struct sx_node *sx_any_tree(unsigned depth)
{
  IN(int, in_kind)
  if (depth == 0 || in_kind <= 0) { IN(uint64_t, in_val) return sx_make_integer(in_val); }
  if (in_kind == 1) return sx_make_empty_list();
  if (in_kind == 2) { IN(char, in_c0) char name[3] = { in_c0, 'b', 0 }; return sx_make_symbol(name); }
  if (in_kind == 3) return NULL;
  struct sx_node *a = sx_any_tree(depth - 1);
  struct sx_node *d = sx_any_tree(depth - 1);
  return sx_cons(a, d);
}
void h_sx_destroy_trees(void)
{
  const size_t base = g_sx_live;
  struct sx_node *t = sx_any_tree(3);
  sx_destroy(&t);
  CHECK(t == NULL, "sx_destroy clears the caller's pointer");
  CHECK(g_sx_live == base, "every block of the tree given back exactly once (ledger at its start value)");
  VERIF_CANARY();
}
