/* Harnesses for the wire side of src/register-protocol.c (C08, C07). */
#ifndef REGP_TX_GHOSTS_DEFINED
#define REGP_TX_GHOSTS_DEFINED
size_t g_tx_count;
uint8_t g_tx_hdr[16];
size_t g_tx_hs;
const void *g_tx_pl;
size_t g_tx_ps;
uint8_t g_tx_octet;
int g_tx_framing;
const Sink *g_tx_sink;
#endif
#ifndef REGP_CRC_GHOST_DEFINED
#define REGP_CRC_GHOST_DEFINED
const uint16_t *g_crcT;
#endif

#ifndef RPW_ERR_PAYLOAD_MAX
#define RPW_ERR_PAYLOAD_MAX 32
#endif

/* ghost CRC trace over `n` octets at `bytes`: unconstrained in proofs (the
 * contracts' requires pin it), computed from the reference step natively */
#if VERIF_IS_NATIVE
#define RPW_TRACE(T, cap, bytes, n) \
  uint16_t *T = (uint16_t *)verif_alloc_exact("ghost_T", ((cap) + 1) * 2); \
  T[0] = 0; for (size_t i_ = 0; i_ < (cap); i_++) \
    T[i_ + 1] = i_ < (size_t)(n) ? spec_crc16_step(T[i_], ((const uint8_t *)(bytes))[i_]) : 0;
#define RPW_TRACE_ASSUME(T, bytes, n)
#else
#define RPW_TRACE(T, cap, bytes, n) \
  uint16_t *T = malloc(((cap) + 1) * sizeof(uint16_t)); ASSUME(T != NULL);
#define RPW_TRACE_ASSUME(T, bytes, n) ASSUME(CRC_TRACE_OK(T, 0, bytes, n));
#endif

/* the transmit record starts arbitrary */
#define RPW_TX_HAVOC() do { IN(size_t, in_txc) g_tx_count = in_txc; } while (0)

/* an instance: transport, memory word size, sequence counter arbitrary */
#define RPW_INSTANCE() \
  GHOST_HAVOC(); RPW_TX_HAVOC(); \
  IN(int, in_ep) IN(int, in_mem) IN(uint16_t, in_seq) \
  ASSUME(in_ep == RP_EP_SERIAL || in_ep == RP_EP_TCP); \
  ASSUME(in_mem == RP_MEMTYPE_8 || in_mem == RP_MEMTYPE_16); \
  RegP *p = malloc(sizeof(RegP)); ASSUME(p != NULL); \
  memset(p, 0, sizeof(RegP)); \
  p->ep.type = (RPEndpointType)in_ep; p->memory.type = (RPMemoryType)in_mem; p->session.sequence = in_seq;

#define RPW_TYPE_IN(v) ((v) == 0 || (v) == 1 || (v) == 2 || (v) == 3 || (v) == 15)

/* ---------------------------------------------------------- header codec */

void h_make_motv(void)
{
  RPW_INSTANCE()
  IN(unsigned, in_msem) IN(uint8_t, in_meta) IN(int, in_type) IN(size_t, in_n)
  ASSUME(in_msem <= 2 && in_meta <= 15 && RPW_TYPE_IN(in_type));
  make_motv(p, in_msem, in_meta, (RPFrameType)in_type, in_n);
  VERIF_CANARY();
}

void h_populate_header(void)
{
  RPW_INSTANCE()
  IN(unsigned, in_msem) IN(uint8_t, in_meta) IN(int, in_type) IN(size_t, in_n)
  IN(uint16_t, in_seqno) IN(uint32_t, in_addr) IN(uint16_t, in_plcrc)
  ASSUME(in_msem <= 2 && in_meta <= 15 && RPW_TYPE_IN(in_type) && in_n <= 0xffffffffu);
  IN_MEM(in_buf, 16)
  populate_header((uint16_t *)in_buf, p, in_msem, (RPFrameType)in_type, in_meta, in_seqno, in_addr, in_n, in_plcrc);
  VERIF_CANARY();
}

void h_encode_header(void)
{
  RPW_INSTANCE()
  IN(unsigned, in_msem) IN(uint8_t, in_meta) IN(int, in_type) IN(size_t, in_n)
  IN(uint16_t, in_seqno) IN(uint32_t, in_addr) IN(uint16_t, in_plcrc)
  ASSUME(in_msem <= 2 && in_meta <= 15 && RPW_TYPE_IN(in_type) && in_n <= 0xffffffffu);
  IN_MEM(in_buf, 16)
  encode_header((uint16_t *)in_buf, p, in_msem, (RPFrameType)in_type, in_meta, in_seqno, in_addr, in_n, in_plcrc);
  VERIF_CANARY();
}

/* every octet sequence of every length 0..16 (exact-size block: a read past
 * the n octets leaves the object) */
void h_parse_header(void)
{
  GHOST_HAVOC();
  IN(size_t, in_n)
  ASSUME(in_n <= 16);
  IN_MEM(in_buf, in_n)
  RPFrame *frame = malloc(sizeof(RPFrame)); ASSUME(frame != NULL);
  parse_header(frame, in_buf, in_n);
  VERIF_CANARY();
}

/* longer inputs: only the first 16 octets matter */
void h_parse_header_long(void)
{
  GHOST_HAVOC();
  IN(size_t, in_n)
  ASSUME(in_n >= 16 && in_n <= 4096);
  IN_MEM(in_buf, in_n)
  RPFrame *frame = malloc(sizeof(RPFrame)); ASSUME(frame != NULL);
  parse_header(frame, in_buf, in_n);
  VERIF_CANARY();
}

void h_payload_plausible(void)
{
  GHOST_HAVOC();
  IN(int, in_type) IN(uint8_t, in_opts) IN(uint32_t, in_bs) IN(size_t, in_psize)
  ASSUME(RPW_TYPE_IN(in_type));
  RPFrame *f = malloc(sizeof(RPFrame)); ASSUME(f != NULL);
  f->header.type = (RPFrameType)in_type; f->header.options = in_opts;
  f->header.blocksize = in_bs; f->payload.size = in_psize;
  payload_plausible(f);
  VERIF_CANARY();
}

void h_check_payload(void)
{
  GHOST_HAVOC();
  IN(int, in_type) IN(uint8_t, in_opts) IN(uint32_t, in_bs) IN(uint16_t, in_plcrc) IN(uint16_t, in_hdcrc)
  ASSUME(RPW_TYPE_IN(in_type) && in_opts <= 7);
  size_t psize = SPEC_PAYLOAD_OCTETS((unsigned)in_type, in_opts, in_bs);
  ASSUME(psize <= CRC_NMAX);
  IN_MEM(in_payload, psize)
  RPW_TRACE(T, psize, in_payload, psize)
  g_crcT = T;
  RPFrame *f = malloc(sizeof(RPFrame)); ASSUME(f != NULL);
  f->header.type = (RPFrameType)in_type; f->header.options = in_opts;
  f->header.blocksize = in_bs; f->header.plcrc = in_plcrc; f->header.hdcrc = in_hdcrc;
  f->payload.size = psize; f->payload.data = in_payload;
  check_payload(f);
  VERIF_CANARY();
}

/* every block content: RPFrame (arbitrary) followed by an arbitrary octet
 * sequence of every length 0 .. REGP_PF_MAX */
void h_parse_frame(void)
{
  GHOST_HAVOC();
  IN(size_t, in_n)
  ASSUME(in_n <= REGP_PF_MAX);
  /* fixed-size block, `used` symbolic (as in regp_recv: allocator block with
   * the frame filling part of it); a symbolic-size block makes the trace axiom
   * intractable (measured: > 10 GiB).  Reads past `used` are decided by the
   * exact-size targets parse_header and check_payload.  The raw frame is a
   * named input of its own so that its first octets show in counterexamples. */
  IN_MEM(in_raw, REGP_PF_MAX)
  unsigned char *block = malloc(sizeof(RPFrame) + REGP_PF_MAX); ASSUME(block != NULL);
  unsigned char *raw = block + sizeof(RPFrame);
  memcpy(raw, in_raw, REGP_PF_MAX);
  size_t hlen = in_n >= 12 ? SPEC_HLEN(SPEC_F_OPTS(raw)) : 0;
  RPW_TRACE(T, REGP_PF_MAX, raw + hlen, in_n > hlen ? in_n - hlen : 0)
  g_crcT = T;
  ByteBuffer fb = { block, sizeof(RPFrame) + REGP_PF_MAX, sizeof(RPFrame) + in_n, 0 };
  parse_frame(&fb);
  VERIF_CANARY();
}

/* --------------------------------------------------------------- framing */

void h_send_memory(void)
{
  RPW_INSTANCE()
  IN(size_t, in_hs) IN(int, in_haspl) IN(size_t, in_ps)
  ASSUME(in_hs == 12 || in_hs == 14 || in_hs == 16);
  ASSUME(in_ps <= 4096);
  IN_MEM(in_hdr, in_hs)
  IN_MEM(in_pl, in_ps)
  send_memory(p, in_hdr, in_hs, in_haspl ? in_pl : NULL, in_ps);
  VERIF_CANARY();
}

/* -------------------------------------------------------------- emitters */

void h_regp_req_read8(void)
{
  RPW_INSTANCE()
  IN(uint32_t, in_addr) IN(size_t, in_n)
  ASSUME(in_n <= 0xffffffffu);
  regp_req_read8(p, in_addr, in_n);
  VERIF_CANARY();
}

void h_regp_req_read16(void)
{
  RPW_INSTANCE()
  IN(uint32_t, in_addr) IN(size_t, in_n)
  ASSUME(in_n <= 0xffffffffu);
  regp_req_read16(p, in_addr, in_n);
  VERIF_CANARY();
}

void h_regp_req_write8(void)
{
  RPW_INSTANCE()
  IN(uint32_t, in_addr) IN(size_t, in_n)
  ASSUME(in_n <= CRC_NMAX);
  IN_MEM(in_buf, in_n)
  RPW_TRACE(T, in_n, in_buf, in_n)
  g_crcT = T;
  regp_req_write8(p, in_addr, in_n, in_buf);
  VERIF_CANARY();
}

void h_regp_req_write16(void)
{
  RPW_INSTANCE()
  IN(uint32_t, in_addr) IN(size_t, in_n)
  ASSUME(in_n <= CRC_NMAX / 2);
  IN_MEM(in_buf, 2 * in_n)
  RPW_TRACE(T, 2 * in_n, in_buf, 2 * in_n)
  g_crcT = T;
  regp_req_write16(p, in_addr, in_n, (const uint16_t *)in_buf);
  VERIF_CANARY();
}

void h_regp_reset_session(void)
{
  RPW_INSTANCE()
  regp_reset_session(p);
  VERIF_CANARY();
}

#ifndef REGP_PROC_OWNS_RESPONDERS
/* the request being answered: type, sequence, address arbitrary */
#define RPW_REQ_FRAME() \
  IN(int, in_ftype) IN(uint16_t, in_fseq) IN(uint32_t, in_faddr) \
  ASSUME(in_ftype == RP_FRAME_READ_REQUEST || in_ftype == RP_FRAME_WRITE_REQUEST); \
  RPFrame *f = malloc(sizeof(RPFrame)); ASSUME(f != NULL); \
  f->header.type = (RPFrameType)in_ftype; f->header.sequence = in_fseq; f->header.address = in_faddr;

void h_send_resp_0(void)
{
  RPW_INSTANCE()
  RPW_REQ_FRAME()
  IN(int, in_code) IN(unsigned, in_msem)
  ASSUME(in_code >= 0 && in_code <= 11 && in_msem <= 2);
  send_resp_0(p, f, (RPResponse)in_code, in_msem);
  VERIF_CANARY();
}

void h_send_resp_32(void)
{
  RPW_INSTANCE()
  RPW_REQ_FRAME()
  IN(int, in_code) IN(unsigned, in_msem) IN(uint32_t, in_datum)
  ASSUME(in_code >= 0 && in_code <= 11 && in_msem <= 2);
  send_resp_32(p, f, (RPResponse)in_code, in_datum, in_msem);
  VERIF_CANARY();
}

void h_regp_resp_ack(void)
{
  RPW_INSTANCE()
  RPW_REQ_FRAME()
  IN(size_t, in_n) IN(int, in_haspl)
  ASSUME(in_n <= CRC_NMAX / 2);
  ASSUME(IMPLIES(!in_haspl || in_ftype == RP_FRAME_WRITE_REQUEST, in_n == 0));
  size_t octets = in_n * (in_mem == RP_MEMTYPE_16 ? 2 : 1);
  IN_MEM(in_buf, octets)
  RPW_TRACE(T, octets, in_buf, octets)
  g_crcT = T;
  regp_resp_ack(p, f, in_haspl ? in_buf : NULL, in_n);
  VERIF_CANARY();
}

#define RPW_H_ERESP_0(fn) \
  void h_##fn(void) { RPW_INSTANCE() RPW_REQ_FRAME() fn(p, f); VERIF_CANARY(); }
#define RPW_H_ERESP_32(fn) \
  void h_##fn(void) { RPW_INSTANCE() RPW_REQ_FRAME() IN(uint32_t, in_datum) fn(p, f, in_datum); VERIF_CANARY(); }
RPW_H_ERESP_0(regp_resp_ewordsize)
RPW_H_ERESP_0(regp_resp_epayloadcrc)
RPW_H_ERESP_0(regp_resp_epayloadsize)
RPW_H_ERESP_32(regp_resp_erxoverflow)
RPW_H_ERESP_32(regp_resp_etxoverflow)
RPW_H_ERESP_0(regp_resp_ebusy)
RPW_H_ERESP_32(regp_resp_eunmapped)
RPW_H_ERESP_32(regp_resp_eaccess)
RPW_H_ERESP_32(regp_resp_erange)
RPW_H_ERESP_32(regp_resp_einvalid)
RPW_H_ERESP_0(regp_resp_eio)

void h_regp_resp_meta(void)
{
  RPW_INSTANCE()
  IN(uint8_t, in_meta)
  ASSUME(in_meta == 1 || in_meta == 2);
  regp_resp_meta(p, in_meta);
  VERIF_CANARY();
}

/* ------------------------------------------------- round trip (C08 lemmas)
 * The emitter is replaced by its contract (so the transmit record holds the
 * document's image of the frame), the recorded header is put in front of the
 * payload in a receive block, and parse_frame -- replaced by its contract, the
 * reference decoder -- must accept it and yield the emitter's fields.  Both
 * contracts are enforced on the real functions by their own targets. */

#define RPW_RT_BLOCK() \
  IN_MEM(in_block, sizeof(RPFrame) + REGP_PF_MAX) \
  unsigned char *raw = in_block + sizeof(RPFrame);

/* ghost trace over the payload that will sit behind a header of hs octets */
#define RPW_RT_TRACE(hs, octets) \
  RPW_TRACE(T, REGP_PF_MAX, raw + (hs), octets) \
  RPW_TRACE_ASSUME(T, raw + (hs), octets) \
  g_crcT = T;

static int rpw_rt_receive(unsigned char *block, size_t hs, size_t ps)
{
  unsigned char *raw = block + sizeof(RPFrame);
  CHECK(g_tx_hs == hs, "round trip: header length is the one the document prescribes");
  CHECK(g_tx_ps == ps, "round trip: payload length");
  if (g_tx_hs != hs || g_tx_ps != ps) return 1;
  raw[0] = g_tx_hdr[0]; raw[1] = g_tx_hdr[1]; raw[2] = g_tx_hdr[2]; raw[3] = g_tx_hdr[3];
  raw[4] = g_tx_hdr[4]; raw[5] = g_tx_hdr[5]; raw[6] = g_tx_hdr[6]; raw[7] = g_tx_hdr[7];
  raw[8] = g_tx_hdr[8]; raw[9] = g_tx_hdr[9]; raw[10] = g_tx_hdr[10]; raw[11] = g_tx_hdr[11];
  if (hs >= 14) { raw[12] = g_tx_hdr[12]; raw[13] = g_tx_hdr[13]; }
  if (hs >= 16) { raw[14] = g_tx_hdr[14]; raw[15] = g_tx_hdr[15]; }
  ByteBuffer fb = { block, sizeof(RPFrame) + REGP_PF_MAX, sizeof(RPFrame) + hs + ps, 0 };
  return parse_frame(&fb);
}

#define RPW_RT_CHECK(rc, type_, w16_, meta_, seq_, addr_, bs_, hs_, ps_) do { \
  const RPFrame *rf = (const RPFrame *)in_block; \
  CHECK((rc) == 0, "round trip: the receiver accepts the emitted frame"); \
  CHECK((unsigned)rf->header.type == (unsigned)(type_), "round trip: type"); \
  CHECK(rf->header.options == SPEC_EMIT_OPTS(in_ep == RP_EP_SERIAL, (w16_), (unsigned)(type_), (bs_)), "round trip: option bits"); \
  CHECK(rf->header.meta.raw == (unsigned)(meta_), "round trip: response code / meta"); \
  CHECK(rf->header.sequence == (uint16_t)(seq_), "round trip: sequence number"); \
  CHECK(rf->header.address == (uint32_t)(addr_), "round trip: address"); \
  CHECK(rf->header.blocksize == (uint32_t)(bs_), "round trip: block size"); \
  CHECK(rf->payload.size == (size_t)(ps_) && rf->payload.data == (void *)(raw + (hs_)), "round trip: payload location and size"); \
  /* (read through raw + hs, which payload.data was just checked to equal: the \
   * verifier cannot dereference a pointer it only knows by an equality) */ \
  CHECK(IMPLIES(g_k < (size_t)(ps_), (raw + (hs_))[g_k < (size_t)(ps_) ? g_k : 0] == g_tx_octet), "round trip: payload octets"); \
} while (0)

#define RPW_HS(type_, w16_, n_) SPEC_HLEN(SPEC_EMIT_OPTS(in_ep == RP_EP_SERIAL, (w16_), (type_), (n_)))

void h_lemma_rt_req_read(void)
{
  RPW_INSTANCE()
  RPW_RT_BLOCK()
  IN(uint32_t, in_addr) IN(size_t, in_n) IN(int, in_w16)
  ASSUME(in_n <= 0xffffffffu);
  RPW_RT_TRACE(0, 0)
  if (in_w16) regp_req_read16(p, in_addr, in_n); else regp_req_read8(p, in_addr, in_n);
  size_t hs = RPW_HS(SPEC_T_READ_REQ, in_w16 != 0, in_n);
  int rc = rpw_rt_receive(in_block, hs, 0);
  RPW_RT_CHECK(rc, SPEC_T_READ_REQ, in_w16 != 0, 0, in_seq, in_addr, in_n, hs, 0);
  VERIF_CANARY();
}

void h_lemma_rt_req_write8(void)
{
  RPW_INSTANCE()
  RPW_RT_BLOCK()
  IN(uint32_t, in_addr) IN(size_t, in_n)
  ASSUME(in_n <= CRC_NMAX);
  size_t hs = RPW_HS(SPEC_T_WRITE_REQ, 0, in_n);
  RPW_RT_TRACE(hs, in_n)
  regp_req_write8(p, in_addr, in_n, raw + hs);
  int rc = rpw_rt_receive(in_block, hs, in_n);
  RPW_RT_CHECK(rc, SPEC_T_WRITE_REQ, 0, 0, in_seq, in_addr, in_n, hs, in_n);
  VERIF_CANARY();
}

void h_lemma_rt_req_write16(void)
{
  RPW_INSTANCE()
  RPW_RT_BLOCK()
  IN(uint32_t, in_addr) IN(size_t, in_n)
  ASSUME(in_n <= CRC_NMAX / 2);
  size_t hs = RPW_HS(SPEC_T_WRITE_REQ, 1, in_n);
  RPW_RT_TRACE(hs, 2 * in_n)
  regp_req_write16(p, in_addr, in_n, (const uint16_t *)(raw + hs));
  int rc = rpw_rt_receive(in_block, hs, 2 * in_n);
  RPW_RT_CHECK(rc, SPEC_T_WRITE_REQ, 1, 0, in_seq, in_addr, in_n, hs, 2 * in_n);
  VERIF_CANARY();
}

/* acknowledgements with and without payload */
void h_lemma_rt_ack(void)
{
  RPW_INSTANCE()
  RPW_RT_BLOCK()
  RPW_REQ_FRAME()
  IN(size_t, in_n) IN(int, in_haspl)
  ASSUME(in_n <= CRC_NMAX / 2);
  ASSUME(IMPLIES(!in_haspl || in_ftype == RP_FRAME_WRITE_REQUEST, in_n == 0));
  int w16 = in_mem == RP_MEMTYPE_16;
  size_t octets = in_n * (w16 ? 2 : 1);
  size_t hs = RPW_HS((unsigned)in_ftype + 1u, w16, in_n);
  RPW_RT_TRACE(hs, octets)
  regp_resp_ack(p, f, in_haspl ? raw + hs : NULL, in_n);
  int rc = rpw_rt_receive(in_block, hs, octets);
  RPW_RT_CHECK(rc, (unsigned)in_ftype + 1u, w16, 0, in_fseq, in_faddr, in_n, hs, octets);
  VERIF_CANARY();
}

/* each of the eleven error responses, to read and to write requests */
void h_lemma_rt_eresp(void)
{
  RPW_INSTANCE()
  RPW_RT_BLOCK()
  RPW_REQ_FRAME()
  IN(int, in_code) IN(uint32_t, in_datum)
  ASSUME(in_code >= 1 && in_code <= 11);
  int with32 = 0;
  switch (in_code) {
  case 1: regp_resp_ewordsize(p, f); break;
  case 2: regp_resp_epayloadcrc(p, f); break;
  case 3: regp_resp_epayloadsize(p, f); break;
  case 4: regp_resp_erxoverflow(p, f, in_datum); with32 = 1; break;
  case 5: regp_resp_etxoverflow(p, f, in_datum); with32 = 1; break;
  case 6: regp_resp_ebusy(p, f); break;
  case 7: regp_resp_eunmapped(p, f, in_datum); with32 = 1; break;
  case 8: regp_resp_eaccess(p, f, in_datum); with32 = 1; break;
  case 9: regp_resp_erange(p, f, in_datum); with32 = 1; break;
  case 10: regp_resp_einvalid(p, f, in_datum); with32 = 1; break;
  default: regp_resp_eio(p, f); break;
  }
  size_t ps = with32 ? 4 : 0;
  size_t hs = RPW_HS((unsigned)in_ftype + 1u, 0, ps);
  /* the payload of these responses is the big-endian datum (3.1.5 ...): the
   * record pins it at every index, the receive block is filled accordingly */
  if (with32) {
    CHECK(IMPLIES(g_k < 4, g_tx_octet == SPEC_BE32_OCTET(in_datum, g_k)), "error response payload is the 32-bit datum, most significant octet first");
    raw[hs] = SPEC_BE32_OCTET(in_datum, 0); raw[hs + 1] = SPEC_BE32_OCTET(in_datum, 1);
    raw[hs + 2] = SPEC_BE32_OCTET(in_datum, 2); raw[hs + 3] = SPEC_BE32_OCTET(in_datum, 3);
  }
  RPW_RT_TRACE(hs, ps)
  int rc = rpw_rt_receive(in_block, hs, ps);
  RPW_RT_CHECK(rc, (unsigned)in_ftype + 1u, 0, in_code, in_fseq, in_faddr, ps, hs, ps);
  VERIF_CANARY();
}

void h_lemma_rt_meta(void)
{
  RPW_INSTANCE()
  RPW_RT_BLOCK()
  IN(uint8_t, in_meta)
  ASSUME(in_meta == 1 || in_meta == 2);
  RPW_RT_TRACE(0, 0)
  regp_resp_meta(p, in_meta);
  size_t hs = RPW_HS(SPEC_T_META, 0, 0);
  int rc = rpw_rt_receive(in_block, hs, 0);
  RPW_RT_CHECK(rc, SPEC_T_META, 0, in_meta, 0, 0, 0, hs, 0);
  VERIF_CANARY();
}
#endif /* REGP_PROC_OWNS_RESPONDERS */

/* the real encoder against the real decoder, no specification in between:
 * every header encode_header produces is accepted by parse_header with the
 * same fields (probe P11 of DESIGN.md) */
void h_lemma_codec_real(void)
{
  RPW_INSTANCE()
  IN(unsigned, in_msem) IN(uint8_t, in_meta) IN(int, in_type) IN(size_t, in_n)
  IN(uint16_t, in_seqno) IN(uint32_t, in_addr) IN(uint16_t, in_plcrc)
  ASSUME(in_msem <= 2 && RPW_TYPE_IN(in_type) && in_n <= 0xffffffffu);
  ASSUME(SPEC_META_OK((unsigned)in_type, in_meta));
  IN_MEM(in_buf, 16)
  size_t words = encode_header((uint16_t *)in_buf, p, in_msem, (RPFrameType)in_type, in_meta, in_seqno, in_addr, in_n, in_plcrc);
  RPFrame *frame = malloc(sizeof(RPFrame)); ASSUME(frame != NULL);
  int rc = parse_header(frame, in_buf, 2 * words);
  CHECK(rc == (int)words, "real round trip: own header accepted, same length");
  CHECK(frame->header.type == (RPFrameType)in_type && frame->header.meta.raw == in_meta
        && frame->header.sequence == in_seqno && frame->header.address == in_addr
        && frame->header.blocksize == (uint32_t)in_n, "real round trip: same fields");
  CHECK(IMPLIES(regp_has_plcrc(frame), frame->header.plcrc == in_plcrc), "real round trip: payload checksum word");
  VERIF_CANARY();
}

/* successive requests of a session: sequence numbers increase by one mod 2^16 */
void h_lemma_seq_successive(void)
{
  RPW_INSTANCE()
  IN(int, in_first) IN(int, in_second) IN(uint32_t, in_addr) IN(size_t, in_n)
  ASSUME(in_n <= 0xffffffffu);
  if (in_first) regp_req_read16(p, in_addr, in_n); else regp_req_read8(p, in_addr, in_n);
  uint16_t s1 = SPEC_BE16_AT(g_tx_hdr, 2);
  if (in_second) regp_req_read16(p, in_addr, in_n); else regp_req_read8(p, in_addr, in_n);
  uint16_t s2 = SPEC_BE16_AT(g_tx_hdr, 2);
  CHECK(s1 == in_seq && s2 == (uint16_t)(s1 + 1u), "successive requests carry sequence numbers increasing by one modulo 2^16");
  CHECK(p->session.sequence == (uint16_t)(in_seq + 2u), "counter advanced twice");
  regp_reset_session(p);
  regp_req_read8(p, in_addr, in_n);
  CHECK(SPEC_BE16_AT(g_tx_hdr, 2) == 0u, "first request after a session reset carries sequence number 0");
  VERIF_CANARY();
}

/* --------------------------------------------------- corruption (C07 b) */

/* bit position b of an octet sequence in transmission order; lsb_first = the
 * order a UART puts the bits of an octet on a serial line */
static void rpw_flip(unsigned char *h, unsigned b, int lsb_first)
{
  h[b / 8u] ^= (unsigned char)(lsb_first ? (1u << (b % 8u)) : (0x80u >> (b % 8u)));
}
static void rpw_copy16(unsigned char *dst, const unsigned char *src)
{
  dst[0] = src[0]; dst[1] = src[1]; dst[2] = src[2]; dst[3] = src[3];
  dst[4] = src[4]; dst[5] = src[5]; dst[6] = src[6]; dst[7] = src[7];
  dst[8] = src[8]; dst[9] = src[9]; dst[10] = src[10]; dst[11] = src[11];
  dst[12] = src[12]; dst[13] = src[13]; dst[14] = src[14]; dst[15] = src[15];
}
#ifndef RPW_BURST_LSB_FIRST
#define RPW_BURST_LSB_FIRST 1
#endif

/* Header part, real parse_header twice: an accepted serial header (header
 * checksum present), then the same octets with an error pattern confined to
 * the protected fields (sequence, address, block size, checksums = octets 2 ..
 * header end): the verdict must be "bad header checksum". */
#define RPW_ACCEPTED_SERIAL_HEADER() \
  IN_MEM(in_h, 16) \
  RPFrame *frame = malloc(sizeof(RPFrame)); ASSUME(frame != NULL); \
  int rc1 = parse_header(frame, in_h, 16); \
  ASSUME(rc1 >= 0 && (SPEC_F_OPTS(in_h) & SPEC_O_HDCRC)); \
  unsigned hbits = 8u * SPEC_HLEN(SPEC_F_OPTS(in_h)); \
  unsigned char *h2 = malloc(16); ASSUME(h2 != NULL); \
  rpw_copy16(h2, in_h);

void h_hdr_err_2bit(void)
{
  GHOST_HAVOC();
  RPW_ACCEPTED_SERIAL_HEADER()
  IN(unsigned, in_b1) IN(unsigned, in_b2)
  ASSUME(in_b1 >= 16 && in_b1 <= in_b2 && in_b2 < hbits);
  rpw_flip(h2, in_b1, 0);
  if (in_b2 != in_b1) rpw_flip(h2, in_b2, 0);
  int rc2 = parse_header(frame, h2, 16);
  CHECK(rc2 == -EILSEQ, "every one- and two-bit error in the protected header fields is classified as bad header checksum");
  VERIF_CANARY();
}

/* Burst = error pattern confined to a window of 16 consecutive bit positions
 * of the serial line (each octet least significant bit first, as a UART sends
 * it; RPW_BURST_LSB_FIRST 0: most significant bit first).  Regions of the
 * protected part: 0 = sequence, address, block size (bits 16..95), 1 = first
 * checksum word, 2 = second checksum word.  RPW_BURST_STRADDLE 0: windows
 * inside one region; 1: windows that straddle a region boundary; 2: both.
 * RPW_BURST_SOLID: all bits of the window inverted.  A checksum word is sent
 * most significant octet first although CRC-16/ARC is a reflected CRC, and the
 * header checksum sits between block size and payload checksum but covers
 * both, so a window that straddles a checksum word boundary is not a burst of
 * the checksummed bit sequence (see targets/C07.json: undecided_parts). */
#ifndef RPW_BURST_STRADDLE
#define RPW_BURST_STRADDLE 0
#endif
#ifndef RPW_BURST_SOLID
#define RPW_BURST_SOLID 0
#endif
#define RPW_HDR_REGION(b) ((b) < 96u ? 0 : (b) < 112u ? 1 : 2)
void h_hdr_err_burst(void)
{
  GHOST_HAVOC();
  RPW_ACCEPTED_SERIAL_HEADER()
  IN(unsigned, in_start) IN(uint16_t, in_pattern)
  ASSUME(in_pattern != 0 && (in_pattern & 1u));
  ASSUME(in_start >= 16 && in_start < hbits);
  unsigned last = in_start;
  for (unsigned i = 0; i < 16; i++) {
    if (in_pattern & (1u << i)) {
      ASSUME(in_start + i < hbits);
      rpw_flip(h2, in_start + i, RPW_BURST_LSB_FIRST);
      last = in_start + i;
    }
  }
#if RPW_BURST_SOLID
  ASSUME(((unsigned)in_pattern & ((unsigned)in_pattern + 1u)) == 0u);
#endif
  {
    int straddles = RPW_HDR_REGION(in_start) != RPW_HDR_REGION(last);
    ASSUME(RPW_BURST_STRADDLE == 2 || (RPW_BURST_STRADDLE ? straddles : !straddles));
  }
  int rc2 = parse_header(frame, h2, 16);
#if RPW_BURST_STRADDLE == 2 && !RPW_BURST_SOLID
  /* the clause exactly as property C07 states it (KNOWN FINDING: it does not
   * hold, see targets/C07.json) */
  CHECK(rc2 == -EILSEQ, "C07 clause as stated: every non-zero error pattern inside every 16-bit window over the protected header fields is classified as bad header checksum");
#else
  CHECK(rc2 == -EILSEQ, "every error burst of up to 16 bits in the protected header fields is classified as bad header checksum");
#endif
  VERIF_CANARY();
}

/* Frame part at the level of the reference verdict (which parse_frame is
 * proved to return): a frame accepted with a header checksum, one bit of the
 * first header word flipped -> rejected, whatever the payload checksum of the
 * damaged frame comes out as. */
void h_lemma_word0_bit(void)
{
  GHOST_HAVOC();
  IN(size_t, in_n) IN(uint16_t, in_crc1) IN(uint16_t, in_crc2) IN(unsigned, in_b)
  ASSUME(in_n <= REGP_PF_MAX && in_b < 16);
  IN_MEM(in_f, REGP_PF_MAX)
  ASSUME(spec_frame_result(in_f, in_n, in_crc1) == 0 && (SPEC_F_OPTS(in_f) & SPEC_O_HDCRC));
  rpw_flip(in_f, in_b, 0);
  CHECK(spec_frame_result(in_f, in_n, in_crc2) != 0 && !spec_frame_open(in_f, in_n),
        "a single-bit error in the first header word is rejected (bad encoding, bad header checksum or implausible payload size)");
  VERIF_CANARY();
}

/* truncation and extension: the same octets with any other length are
 * rejected (too short for the header: bad encoding; otherwise implausible
 * payload size) */
void h_lemma_trunc_ext(void)
{
  GHOST_HAVOC();
  IN(size_t, in_n) IN(size_t, in_n2) IN(uint16_t, in_crc1) IN(uint16_t, in_crc2)
  ASSUME(in_n <= REGP_PF_MAX && in_n2 <= REGP_PF_MAX && in_n2 != in_n);
  IN_MEM(in_f, REGP_PF_MAX)
  ASSUME(spec_frame_result(in_f, in_n, in_crc1) == 0);
  int r2 = spec_frame_result(in_f, in_n2, in_crc2);
  CHECK(r2 == -EBADMSG || r2 == -EFAULT, "a truncated or extended frame is rejected as bad header encoding or implausible payload size");
  CHECK(!spec_frame_open(in_f, in_n2), "and is not in the corner the document leaves open");
  VERIF_CANARY();
}

/* Payload part on the real CRC functions.  CRC-16/ARC with initial value 0
 * is linear over GF(2): crc(m xor e) == crc(m) xor crc(e).  One step is
 * checked on the real crc16_octet for every pair of state/octet pairs; the
 * fold follows by induction over the octets (on paper; a bounded machine
 * check of the fold was unstable in the SAT back end, 33 s .. > 600 s, and
 * was dropped).  So a corrupted payload keeps its checksum exactly when
 * crc(e) == 0, and the two
 * detection targets decide crc(e) != 0 on the real function for every error
 * pattern of the class at every position of an all-zero message of every
 * length up to RPW_ERR_PAYLOAD_MAX octets.  check_payload is proved to
 * compare exactly this checksum with the transmitted one.  Tier B: bounded
 * payload length. */
void h_lemma_crc_step_linear(void)
{
  GHOST_HAVOC();
  IN(uint16_t, in_c1) IN(uint16_t, in_c2) IN(uint8_t, in_o1) IN(uint8_t, in_o2)
  CHECK(crc16_octet((uint16_t)(in_c1 ^ in_c2), (uint8_t)(in_o1 ^ in_o2))
        == (uint16_t)(crc16_octet(in_c1, in_o1) ^ crc16_octet(in_c2, in_o2)),
        "one CRC-16/ARC step is linear over GF(2)");
  CHECK(IMPLIES(crc16_octet(in_c1, 0) == 0, in_c1 == 0), "a zero octet maps only the zero state to zero");
  VERIF_CANARY();
}

void h_payload_err_2bit(void)
{
  GHOST_HAVOC();
  IN(size_t, in_len) IN(unsigned, in_b1) IN(unsigned, in_b2)
  ASSUME(in_len >= 1 && in_len <= RPW_ERR_PAYLOAD_MAX);
  ASSUME(in_b1 <= in_b2 && in_b2 < 8u * in_len);
  IN_MEM(in_e, in_len)
  memset(in_e, 0, in_len);
  rpw_flip(in_e, in_b1, 0);
  if (in_b2 != in_b1) rpw_flip(in_e, in_b2, 0);
  CHECK(ufw_buffer_crc16_arc(in_e, in_len) != 0, "every one- and two-bit error in the payload changes its CRC-16/ARC");
  VERIF_CANARY();
}

void h_payload_err_burst(void)
{
  GHOST_HAVOC();
  IN(size_t, in_len) IN(unsigned, in_start) IN(uint16_t, in_pattern)
  ASSUME(in_len >= 1 && in_len <= RPW_ERR_PAYLOAD_MAX);
  ASSUME(in_pattern != 0 && (in_pattern & 1u) && in_start < 8u * in_len);
  IN_MEM(in_e, in_len)
  memset(in_e, 0, in_len);
  for (unsigned i = 0; i < 16; i++) {
    if (in_pattern & (1u << i)) {
      ASSUME(in_start + i < 8u * in_len);
      rpw_flip(in_e, in_start + i, RPW_BURST_LSB_FIRST);
    }
  }
#if RPW_BURST_SOLID
  ASSUME(((unsigned)in_pattern & ((unsigned)in_pattern + 1u)) == 0u);
#endif
  CHECK(ufw_buffer_crc16_arc(in_e, in_len) != 0, "every error burst of up to 16 bits in the payload changes its CRC-16/ARC");
  VERIF_CANARY();
}

/* ------------------------------------------- wire link (C08 <- C13 / C12)
 * Targets with REGP_WIRE_LINK: the sink of the instance is the nondeterministic
 * driver of stubs/endpoint_drivers.h (C17/C13: any fragmentation, 0, -EINTR,
 * -EAGAIN, any hard error); its ghost stream state is arbitrary at the start. */
#ifdef REGP_WIRE_LINK
#if VERIF_IS_NATIVE
#define RPL_FOLD(x, lo, hi) if ((x) < (lo) || (x) > (hi)) x = (lo) + (size_t)(x) % ((size_t)(hi) - (size_t)(lo) + 1u);
#else
#define RPL_FOLD(x, lo, hi)
#endif
#define RPL_SINK_GHOSTS() \
  IN(size_t, in_snk_pos) IN(size_t, in_b) IN(size_t, in_snk_nhard) \
  IN(uint8_t, in_snk_val) IN(int, in_snk_err) IN(int, in_snk_kind) \
  RPL_FOLD(in_snk_pos, 0, SIZE_MAX / 2) RPL_FOLD(in_snk_kind, 0, 1) \
  ASSUME(in_snk_pos <= SIZE_MAX / 2 && (in_snk_kind == 0 || in_snk_kind == 1)); \
  g_snk_pos = in_snk_pos; g_b = in_b; g_snk_nhard = in_snk_nhard; \
  g_snk_val = in_snk_val; g_snk_err = in_snk_err;
#define RPL_STUB_SINK(snk) \
  if (in_snk_kind == 0) octet_sink_init((snk), ep_octet_sink, EP_SNK_DRIVER); \
  else chunk_sink_init((snk), ep_chunk_sink, EP_SNK_DRIVER);
#endif

#if defined(REGP_WIRE_LINK) && REGP_WIRE_LINK == 1
size_t g_lp_sum[9], g_lp_pos[9];
size_t g_lp_c;

/* the glue ghosts of C13 for the list {header chunk, payload chunk} framed
 * with the varint kind from the sink's current position (computed, not
 * assumed: the same code runs in the native replay) */
/* (spelt out here: a spec function that is called from harness code as well
 * as from contract clauses is instrumented by dfcc in a way that breaks its
 * calls from other spec functions -- "not enough arguments") */
#define RPL_VLEN(n) ((uint64_t)(n) < (UINT64_C(1) << 7) ? 1u : (uint64_t)(n) < (UINT64_C(1) << 14) ? 2u \
  : (uint64_t)(n) < (UINT64_C(1) << 21) ? 3u : (uint64_t)(n) < (UINT64_C(1) << 28) ? 4u \
  : (uint64_t)(n) < (UINT64_C(1) << 35) ? 5u : (uint64_t)(n) < (UINT64_C(1) << 42) ? 6u \
  : (uint64_t)(n) < (UINT64_C(1) << 49) ? 7u : (uint64_t)(n) < (UINT64_C(1) << 56) ? 8u \
  : (uint64_t)(n) < (UINT64_C(1) << 63) ? 9u : 10u)
static void rpl_lenp_glue(size_t hs, int haspl, size_t ps)
{
  const size_t n = hs + (haspl ? ps : 0u);
  IN(size_t, in_lp_c)
  g_lp_c = in_lp_c;
  g_lp_sum[0] = 0u; g_lp_sum[1] = hs; g_lp_sum[2] = n;
  g_lp_pos[0] = g_snk_pos + RPL_VLEN(n);
  g_lp_pos[1] = g_lp_pos[0] + hs;
  g_lp_pos[2] = g_lp_pos[0] + n;
}

/* E(send_memory), wire view, TCP: every instance state, header length,
 * payload present / absent / empty, every sink driver behaviour */
void h_send_memory_tcp_wire(void)
{
  RPW_INSTANCE()
  ASSUME(in_ep == RP_EP_TCP);
  RPL_SINK_GHOSTS()
  RPL_STUB_SINK(&p->ep.sink)
  IN(size_t, in_hs) IN(int, in_haspl) IN(size_t, in_ps)
  ASSUME(in_hs == 12 || in_hs == 14 || in_hs == 16);
  RPL_FOLD(in_ps, 0, 4096)
  ASSUME(in_ps <= 4096);
  IN_MEM(in_hdr, in_hs)
  IN_MEM(in_pl, in_ps)
  rpl_lenp_glue(in_hs, in_haspl != 0, in_ps);
  send_memory(p, in_hdr, in_hs, in_haspl ? in_pl : NULL, in_ps);
  VERIF_CANARY();
}

/* lemma_tx_record_lenp: every chunk list the transmit-record contract of
 * flenp_chunks_to_sink admits (1 or 2 chunks, first 1..16 octets, read from the
 * start, used == size), any sink driver behaviour */
void h_lemma_tx_record_lenp(void)
{
  GHOST_HAVOC(); RPW_TX_HAVOC();
  RPL_SINK_GHOSTS()
  Sink *snk = malloc(sizeof(Sink)); ASSUME(snk != NULL);
  RPL_STUB_SINK(snk)
  IN(size_t, in_hs) IN(int, in_two) IN(size_t, in_ps)
  RPL_FOLD(in_hs, 1, 16) RPL_FOLD(in_ps, 0, 4096)
  ASSUME(in_hs >= 1 && in_hs <= 16 && in_ps <= 4096);
  IN_MEM(in_hdr, in_hs)
  IN_MEM(in_pl, in_ps)
  ByteChunks *oc = malloc(sizeof(ByteChunks)); ASSUME(oc != NULL);
  /* (fixed-size array: a symbolic-size block of structs blows the formula up) */
  ByteBuffer *chunk = malloc(2 * sizeof(ByteBuffer)); ASSUME(chunk != NULL);
  chunk[0].data = in_hdr; chunk[0].size = in_hs; chunk[0].used = in_hs; chunk[0].offset = 0;
  if (in_two) { chunk[1].data = in_pl; chunk[1].size = in_ps; chunk[1].used = in_ps; chunk[1].offset = 0; }
  oc->chunks = in_two ? 2 : 1; oc->active = 0; oc->chunk = chunk;
  rpl_lenp_glue(in_hs, in_two != 0, in_ps);
  rpw_lenp_recorded(LENP_VARIABLE, snk, oc);
  VERIF_CANARY();
}
#endif /* REGP_WIRE_LINK == 1 */

#if defined(REGP_WIRE_LINK) && REGP_WIRE_LINK == 2
/* ----------------------------------------- wire view, serial (5.1), bounded
 * Whole stack, nothing replaced: the real send_memory, source_from_chunks,
 * read_from_chunks over the real chunk list, rfc1055_encode /
 * rfc1055_encode_octet, sink_put_octet / sink_put_chunk, into the sink driver
 * stub of C12 (stubs/rfc1055_io.h, pre-included: octet or chunk kind; a call
 * moves one octet -- chunk kind: one or two -- or fails with any negative
 * value).  doc/regp.txt 5.1: "SLIP as specified in RFC1055, in its classical
 * form without start-of-frame octets": the sink receives the reference
 * encoding of F = hdr ++ pl followed by END, and no leading END.  Stated twice:
 *   - C12's acceptor (g_ac_*): every octet the driver receives is compared
 *     with the streaming reference encoding of F; never "bad", closed after
 *     exactly |F| payload octets on success, not closed on failure;
 *   - directly: E = spec_slip_encode(F) (spec/slip.h, written from RFC 1055),
 *     the octet received at the observed position g_sl_obs (arbitrary) is
 *     E[g_sl_obs - q0], the count is |E| on success, a proper part on failure.
 * Tier B: header chunk <= RPL_HSMAX, payload <= RPL_PSMAX octets (every content,
 * SLIP special octets included, in both), loops unwound with unwinding assertions.
 * The stub does not answer 0 / transient values here (budget 0: a transient
 * value is turned into a hard error by the stub), as in C12. */
#ifndef RPL_PSMAX
#define RPL_PSMAX 2
#endif
/* SCALED DOWN: the header chunk has 1 .. RPL_HSMAX octets instead of 12 / 14 /
 * 16 (send_memory and the stack below it never branch on the chunk lengths
 * except for "exhausted"); a whole-stack run at full header length did not
 * finish (every Source/Sink call is a function-pointer call out of a union,
 * which symbolic execution does not resolve: 250 000 steps, 6 M variables at
 * 12 + 4 octets).  Frames of real length rest on C12's inductive contract of
 * rfc1055_encode and on the record view of send_memory. */
#ifndef RPL_HSMAX
#define RPL_HSMAX 2
#endif
#define RPL_FMAX (RPL_HSMAX + RPL_PSMAX)

void h_send_memory_serial_wire(void)
{
  /* (the instance is a local object set up field by field: the memset of
   * RPW_INSTANCE over a heap block costs the field sensitivity that keeps the
   * function-pointer calls of this whole-stack run resolved) */
  GHOST_HAVOC();
  IN(int, in_mem) IN(uint16_t, in_seq)
  ASSUME(in_mem == RP_MEMTYPE_8 || in_mem == RP_MEMTYPE_16);
  RegP inst;
  RegP *p = &inst;
  p->ep.type = RP_EP_SERIAL; p->memory.type = (RPMemoryType)in_mem; p->session.sequence = in_seq;
  IN(size_t, in_w_pos) IN(size_t, in_w_obs) IN(uint8_t, in_w_val) IN(int, in_w_kind)
  RPL_FOLD(in_w_pos, 0, SIZE_MAX / 2) RPL_FOLD(in_w_kind, 0, 1)
  ASSUME(in_w_pos <= SIZE_MAX / 2 && (in_w_kind == 0 || in_w_kind == 1));
  g_sl_snk_pos = in_w_pos; g_sl_obs = in_w_obs; g_sl_snk_val = in_w_val;
  g_sl_snk_nneg = 0; g_sl_snk_err = 0; g_sl_snk_budget = 0;
  if (in_w_kind == 0) octet_sink_init(&p->ep.sink, sl_octet_sink, SL_SNK_DRIVER);
  else chunk_sink_init(&p->ep.sink, sl_chunk_sink, SL_SNK_DRIVER);
  /* RPL_HS_PIN / RPL_PS_PIN: case split over the lengths by targets (constant
   * block sizes and loop bounds: symbolic ones cost minutes of symbolic
   * execution); RPL_PS_PIN == -1: no payload chunk (pl == NULL) */
#ifdef RPL_HS_PIN
  size_t in_hs = RPL_HS_PIN;
#else
  IN(size_t, in_hs)
#endif
#ifdef RPL_PS_PIN
  const int in_haspl = (RPL_PS_PIN) >= 0;
  const size_t in_ps = (RPL_PS_PIN) >= 0 ? (RPL_PS_PIN) : 0;
#else
  IN(int, in_haspl) IN(size_t, in_ps)
  RPL_FOLD(in_ps, 0, RPL_PSMAX)
#endif
#if VERIF_IS_NATIVE
  if (in_hs < 1 || in_hs > RPL_HSMAX) in_hs = 1 + in_hs % RPL_HSMAX;
#endif
  ASSUME(in_hs >= 1 && in_hs <= RPL_HSMAX);
  ASSUME(in_ps <= RPL_PSMAX);
  IN_MEM(in_hdr, in_hs)
  IN_MEM(in_pl, in_ps)
  /* reference: F = hdr ++ pl, E = esc(F[0]) .. esc(F[n-1]) END */
  const size_t n = in_hs + (in_haspl ? in_ps : 0u);
  unsigned char *F = malloc(RPL_FMAX); ASSUME(F != NULL);
  unsigned char *E = malloc(2 * RPL_FMAX + 1); ASSUME(E != NULL);
  for (size_t i = 0; i < RPL_FMAX; i++)
    F[i] = i < in_hs ? in_hdr[i] : (i < n ? in_pl[i - in_hs] : 0u);
  const size_t elen = spec_slip_encode(F, n, E);
  g_ac_on = 1; g_ac_pay = F; g_ac_n = n; g_ac_sof = 0; g_ac_i = 0; g_ac_s = 0; g_ac_closed = 0; g_ac_bad = 0;

  const int rc = send_memory(p, in_hdr, in_hs, in_haspl ? in_pl : NULL, in_ps);

  const size_t sent = (size_t)(g_sl_snk_pos - in_w_pos);
  const size_t rel = (size_t)(in_w_obs - in_w_pos);
  CHECK(rc <= 0, "serial: result is 0 or a negative error value");
  CHECK(!g_ac_bad, "serial: every octet the sink received is the next octet of the RFC 1055 encoding of header ++ payload (classical form, no start-of-frame octet)");
  CHECK(IMPLIES(rc == 0, g_ac_closed && g_ac_i == n && g_ac_s == 0), "serial: on success the frame is complete: all of header ++ payload, then END");
  CHECK(IMPLIES(rc < 0, !g_ac_closed), "serial: a failed transmission is not a complete frame");
  CHECK(sent <= elen, "serial: never more octets than SLIP(header ++ payload)");
  CHECK(IMPLIES(rc == 0, sent == elen && g_sl_snk_nneg == 0), "serial: success means the whole SLIP image was accepted, without a driver failure");
  CHECK(IMPLIES(rc < 0, rc == g_sl_snk_err && g_sl_snk_nneg == 1 && sent < elen), "serial: a sink driver error comes back unchanged, a proper initial part was sent");
  CHECK(IMPLIES(rel < sent, g_sl_snk_val == E[rel < elen ? rel : 0]), "serial: the octets on the wire are SLIP(header ++ payload), RFC 1055 classical form");
  CHECK(IMPLIES(!(rel < sent), g_sl_snk_val == in_w_val), "serial: nothing is sent outside the frame");
  CHECK(elen >= n + 1 && elen <= 2 * n + 1 && E[0] != SLIP_END, "reference sanity: no leading END, length within n+1 .. 2n+1");
  VERIF_CANARY();
}
#endif /* REGP_WIRE_LINK == 2 */

/* ------------------------------------------------------ native replay only */
#if VERIF_IS_NATIVE && defined(REGP_WIRE_LINK)
/* link targets: the framing layer of the other transport is not part of the
 * unit (and not reachable: the transport is pinned) */
#if REGP_WIRE_LINK == 1
int rfc1055_encode(const RFC1055Context *ctx, Source *source, Sink *sink)
{ (void)ctx; (void)source; (void)sink; return -EIO; }
#else
ssize_t flenp_chunks_to_sink(const LengthPrefixKind k, Sink *sink, ByteChunks *oc)
{ (void)k; (void)sink; (void)oc; return -EIO; }
#endif
ssize_t flenp_decode_source_to_sink(const LengthPrefixKind k, Source *source, Sink *sink)
#if REGP_WIRE_LINK == 1
;
#else
{ (void)k; (void)source; (void)sink; return -EIO; }
#endif
int rfc1055_decode(RFC1055Context *ctx, Source *source, Sink *sink)
#if REGP_WIRE_LINK == 2
;
#else
{ (void)ctx; (void)source; (void)sink; return -EIO; }
#endif
#endif
#if VERIF_IS_NATIVE && !defined(REGP_WIRE_LINK)
/* The framing entry points are replaced by ASSUMED contracts in the proofs;
 * natively they are stand-ins that implement exactly that contract (record
 * the chunk list in the ghost transmit record), so that the emitters'
 * postconditions can be evaluated on the real emitter code.  The decoders are
 * not reachable from any harness of this file. */
static void rpw_native_record(const ByteChunks *c, int framing, const Sink *sink)
{
  g_tx_count++; g_tx_framing = framing; g_tx_sink = sink;
  g_tx_hs = c->chunk[0].used;
  for (size_t i = 0; i < 16 && i < c->chunk[0].used; i++) g_tx_hdr[i] = c->chunk[0].data[i];
  g_tx_pl = c->chunks == 2 ? c->chunk[1].data : NULL;
  g_tx_ps = c->chunks == 2 ? c->chunk[1].used : 0;
  if (c->chunks == 2 && g_k < c->chunk[1].used) g_tx_octet = c->chunk[1].data[g_k];
}
ssize_t flenp_chunks_to_sink(const LengthPrefixKind k, Sink *sink, ByteChunks *oc)
{ (void)k; rpw_native_record(oc, SPEC_TX_LENP, sink); return 0; }
int rfc1055_encode(const RFC1055Context *ctx, Source *source, Sink *sink)
{ (void)ctx; rpw_native_record((const ByteChunks *)source->driver, SPEC_TX_SLIP, sink); return 0; }
ssize_t flenp_decode_source_to_sink(const LengthPrefixKind k, Source *source, Sink *sink)
{ (void)k; (void)source; (void)sink; return -EIO; }
int rfc1055_decode(RFC1055Context *ctx, Source *source, Sink *sink)
{ (void)ctx; (void)source; (void)sink; return -EIO; }
#endif
