/* Harnesses for the wire side of src/register-protocol.c (C08, C07). */
#ifndef REGP_TX_GHOSTS_DEFINED
#define REGP_TX_GHOSTS_DEFINED
size_t g_tx_count;
uint8_t g_tx_hdr[16];
size_t g_tx_hs;
const void *g_tx_pl;
size_t g_tx_ps;
uint8_t g_tx_octet;
int g_tx_framing;
const Sink *g_tx_sink;
#endif
#ifndef REGP_CRC_GHOST_DEFINED
#define REGP_CRC_GHOST_DEFINED
const uint16_t *g_crcT;
#endif

#ifndef RPW_ERR_PAYLOAD_MAX
#define RPW_ERR_PAYLOAD_MAX 32
#endif

/* ghost CRC trace over `n` octets at `bytes`: unconstrained in proofs (the
 * contracts' requires pin it), computed from the reference step natively */
#if VERIF_IS_NATIVE
#define RPW_TRACE(T, cap, bytes, n) \
  uint16_t *T = (uint16_t *)verif_alloc_exact("ghost_T", ((cap) + 1) * 2); \
  T[0] = 0; for (size_t i_ = 0; i_ < (cap); i_++) \
    T[i_ + 1] = i_ < (size_t)(n) ? spec_crc16_step(T[i_], ((const uint8_t *)(bytes))[i_]) : 0;
#define RPW_TRACE_ASSUME(T, bytes, n)
#else
#define RPW_TRACE(T, cap, bytes, n) \
  uint16_t *T = malloc(((cap) + 1) * sizeof(uint16_t)); ASSUME(T != NULL);
#define RPW_TRACE_ASSUME(T, bytes, n) ASSUME(CRC_TRACE_OK(T, 0, bytes, n));
#endif

/* the transmit record starts arbitrary */
#define RPW_TX_HAVOC() do { IN(size_t, in_txc) g_tx_count = in_txc; } while (0)

/* an instance: transport, memory word size, sequence counter arbitrary */
#define RPW_INSTANCE() \
  GHOST_HAVOC(); RPW_TX_HAVOC(); \
  IN(int, in_ep) IN(int, in_mem) IN(uint16_t, in_seq) \
  ASSUME(in_ep == RP_EP_SERIAL || in_ep == RP_EP_TCP); \
  ASSUME(in_mem == RP_MEMTYPE_8 || in_mem == RP_MEMTYPE_16); \
  RegP *p = malloc(sizeof(RegP)); ASSUME(p != NULL); \
  memset(p, 0, sizeof(RegP)); \
  p->ep.type = (RPEndpointType)in_ep; p->memory.type = (RPMemoryType)in_mem; p->session.sequence = in_seq;

#define RPW_TYPE_IN(v) ((v) == 0 || (v) == 1 || (v) == 2 || (v) == 3 || (v) == 15)

/* ---------------------------------------------------------- header codec */

void h_make_motv(void)
{
  RPW_INSTANCE()
  IN(unsigned, in_msem) IN(uint8_t, in_meta) IN(int, in_type) IN(size_t, in_n)
  ASSUME(in_msem <= 2 && in_meta <= 15 && RPW_TYPE_IN(in_type));
  make_motv(p, in_msem, in_meta, (RPFrameType)in_type, in_n);
  VERIF_CANARY();
}

void h_populate_header(void)
{
  RPW_INSTANCE()
  IN(unsigned, in_msem) IN(uint8_t, in_meta) IN(int, in_type) IN(size_t, in_n)
  IN(uint16_t, in_seqno) IN(uint32_t, in_addr) IN(uint16_t, in_plcrc)
  ASSUME(in_msem <= 2 && in_meta <= 15 && RPW_TYPE_IN(in_type) && in_n <= 0xffffffffu);
  IN_MEM(in_buf, 16)
  populate_header((uint16_t *)in_buf, p, in_msem, (RPFrameType)in_type, in_meta, in_seqno, in_addr, in_n, in_plcrc);
  VERIF_CANARY();
}

void h_encode_header(void)
{
  RPW_INSTANCE()
  IN(unsigned, in_msem) IN(uint8_t, in_meta) IN(int, in_type) IN(size_t, in_n)
  IN(uint16_t, in_seqno) IN(uint32_t, in_addr) IN(uint16_t, in_plcrc)
  ASSUME(in_msem <= 2 && in_meta <= 15 && RPW_TYPE_IN(in_type) && in_n <= 0xffffffffu);
  IN_MEM(in_buf, 16)
  encode_header((uint16_t *)in_buf, p, in_msem, (RPFrameType)in_type, in_meta, in_seqno, in_addr, in_n, in_plcrc);
  VERIF_CANARY();
}

/* every octet sequence of every length 0..16 (exact-size block: a read past
 * the n octets leaves the object) */
void h_parse_header(void)
{
  IN(size_t, in_n)
  ASSUME(in_n <= 16);
  IN_MEM(in_buf, in_n)
  RPFrame *frame = malloc(sizeof(RPFrame)); ASSUME(frame != NULL);
  parse_header(frame, in_buf, in_n);
  VERIF_CANARY();
}

/* longer inputs: only the first 16 octets matter */
void h_parse_header_long(void)
{
  IN(size_t, in_n)
  ASSUME(in_n >= 16 && in_n <= 4096);
  IN_MEM(in_buf, in_n)
  RPFrame *frame = malloc(sizeof(RPFrame)); ASSUME(frame != NULL);
  parse_header(frame, in_buf, in_n);
  VERIF_CANARY();
}

void h_payload_plausible(void)
{
  IN(int, in_type) IN(uint8_t, in_opts) IN(uint32_t, in_bs) IN(size_t, in_psize)
  ASSUME(RPW_TYPE_IN(in_type));
  RPFrame *f = malloc(sizeof(RPFrame)); ASSUME(f != NULL);
  f->header.type = (RPFrameType)in_type; f->header.options = in_opts;
  f->header.blocksize = in_bs; f->payload.size = in_psize;
  payload_plausible(f);
  VERIF_CANARY();
}

void h_check_payload(void)
{
  IN(int, in_type) IN(uint8_t, in_opts) IN(uint32_t, in_bs) IN(uint16_t, in_plcrc)
  ASSUME(RPW_TYPE_IN(in_type) && in_opts <= 7);
  size_t psize = SPEC_PAYLOAD_OCTETS((unsigned)in_type, in_opts, in_bs);
  ASSUME(psize <= CRC_NMAX);
  IN_MEM(in_payload, psize)
  RPW_TRACE(T, psize, in_payload, psize)
  g_crcT = T;
  RPFrame *f = malloc(sizeof(RPFrame)); ASSUME(f != NULL);
  f->header.type = (RPFrameType)in_type; f->header.options = in_opts;
  f->header.blocksize = in_bs; f->header.plcrc = in_plcrc;
  f->payload.size = psize; f->payload.data = in_payload;
  check_payload(f);
  VERIF_CANARY();
}

/* every block content: RPFrame (arbitrary) followed by an arbitrary octet
 * sequence of every length 0 .. REGP_PF_MAX */
void h_parse_frame(void)
{
  IN(size_t, in_n)
  ASSUME(in_n <= REGP_PF_MAX);
  IN_MEM(in_block, sizeof(RPFrame) + in_n)
  RPW_TRACE(T, REGP_PF_MAX, in_block + sizeof(RPFrame) + (in_n >= 12 ? SPEC_HLEN(SPEC_F_OPTS(in_block + sizeof(RPFrame))) : 0),
            (in_n >= 12 && in_n > SPEC_HLEN(SPEC_F_OPTS(in_block + sizeof(RPFrame))))
              ? in_n - SPEC_HLEN(SPEC_F_OPTS(in_block + sizeof(RPFrame))) : 0)
  g_crcT = T;
  ByteBuffer fb = { in_block, sizeof(RPFrame) + in_n, sizeof(RPFrame) + in_n, 0 };
  parse_frame(&fb);
  VERIF_CANARY();
}

/* ------------------------------------------------------ native replay only */
#if VERIF_IS_NATIVE
/* The framing entry points are replaced by ASSUMED contracts in the proofs;
 * natively they are stand-ins that implement exactly that contract (record
 * the chunk list in the ghost transmit record), so that the emitters'
 * postconditions can be evaluated on the real emitter code.  The decoders are
 * not reachable from any harness of this file. */
static void rpw_native_record(const ByteChunks *c, int framing, const Sink *sink)
{
  g_tx_count++; g_tx_framing = framing; g_tx_sink = sink;
  g_tx_hs = c->chunk[0].used;
  for (size_t i = 0; i < 16 && i < c->chunk[0].used; i++) g_tx_hdr[i] = c->chunk[0].data[i];
  g_tx_pl = c->chunks == 2 ? c->chunk[1].data : NULL;
  g_tx_ps = c->chunks == 2 ? c->chunk[1].used : 0;
  if (c->chunks == 2 && g_k < c->chunk[1].used) g_tx_octet = c->chunk[1].data[g_k];
}
ssize_t flenp_chunks_to_sink(const LengthPrefixKind k, Sink *sink, ByteChunks *oc)
{ (void)k; rpw_native_record(oc, SPEC_TX_LENP, sink); return 0; }
int rfc1055_encode(const RFC1055Context *ctx, Source *source, Sink *sink)
{ (void)ctx; rpw_native_record((const ByteChunks *)source->driver, SPEC_TX_SLIP, sink); return 0; }
ssize_t flenp_decode_source_to_sink(const LengthPrefixKind k, Source *source, Sink *sink)
{ (void)k; (void)source; (void)sink; return -EIO; }
int rfc1055_decode(RFC1055Context *ctx, Source *source, Sink *sink)
{ (void)ctx; (void)source; (void)sink; return -EIO; }
#endif
