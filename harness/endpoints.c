/* Harnesses for src/endpoints/core.c (C17).  The drivers are the
 * nondeterministic stubs of stubs/endpoint_drivers.h; the ghost state of the
 * abstract stream (positions, observed octets, error bookkeeping) is arbitrary
 * at the start of every harness.  Buffers are exact-size heap blocks. */
#ifndef EP_NMAX
#define EP_NMAX 4096
#endif

/* native replay / random search only: fold a drawn value into the range the
 * proof assumes, so that a replayed or random run is not rejected as
 * "precondition not met" (proof mode: no effect) */
#if VERIF_IS_NATIVE
#define EP_FOLD(x, lo, hi) if ((x) < (lo) || (x) > (hi)) x = (lo) + (size_t)(x) % ((size_t)(hi) - (size_t)(lo) + 1u);
#else
#define EP_FOLD(x, lo, hi)
#endif

#define EP_GHOSTS() \
  GHOST_HAVOC(); \
  IN(size_t, in_src_pos) IN(size_t, in_snk_pos) IN(size_t, in_b) \
  IN(size_t, in_src_nhard) IN(size_t, in_snk_nhard) \
  IN(uint8_t, in_val) IN(uint8_t, in_snk_val) IN(int, in_src_err) IN(int, in_snk_err) \
  EP_FOLD(in_src_pos, 0, SIZE_MAX / 2) EP_FOLD(in_snk_pos, 0, SIZE_MAX / 2) \
  g_src_pos = in_src_pos; g_snk_pos = in_snk_pos; g_b = in_b; \
  g_src_nhard = in_src_nhard; g_snk_nhard = in_snk_nhard; \
  g_val = in_val; g_snk_val = in_snk_val; g_src_err = in_src_err; g_snk_err = in_snk_err;

/* a Source / Sink of either kind, set up through the library's constructors */
#define EP_SOURCE(s) \
  IN(int, in_src_kind) EP_FOLD(in_src_kind, 0, 1) ASSUME(in_src_kind == 0 || in_src_kind == 1); \
  Source s; \
  if (in_src_kind == 0) octet_source_init(&s, ep_octet_source, EP_SRC_DRIVER); \
  else chunk_source_init(&s, ep_chunk_source, EP_SRC_DRIVER);
#define EP_SINK(s) \
  IN(int, in_snk_kind) EP_FOLD(in_snk_kind, 0, 1) ASSUME(in_snk_kind == 0 || in_snk_kind == 1); \
  Sink s; \
  if (in_snk_kind == 0) octet_sink_init(&s, ep_octet_sink, EP_SNK_DRIVER); \
  else chunk_sink_init(&s, ep_chunk_sink, EP_SNK_DRIVER);

/* a count: any value whose buffer the harness can supply, or an invalid one */
#define EP_COUNT(in_n) \
  IN(size_t, in_n) if (in_n <= (size_t)SSIZE_MAX) { EP_FOLD(in_n, 0, EP_NMAX) } ASSUME(in_n <= EP_NMAX || in_n > (size_t)SSIZE_MAX);
/* a count for the plumbing loops: arbitrary in the proof; the native replay
 * folds huge counts down so that a replayed run ends */
#if VERIF_IS_NATIVE
#define EP_ANY_COUNT(in_n) IN(size_t, in_n) if (in_n > EP_NMAX && in_n <= (size_t)SSIZE_MAX) in_n %= (EP_NMAX + 1u);
#else
#define EP_ANY_COUNT(in_n) IN(size_t, in_n)
#endif
#define EP_BUFLEN(in_n) ((in_n) <= EP_NMAX ? (in_n) : 1)

void h_source_get_octet(void)
{
  EP_GHOSTS() EP_SOURCE(s)
  IN_MEM(in_buf, 1)
  source_get_octet(&s, in_buf);
  VERIF_CANARY();
}

void h_source_adapt(void)
{
  EP_GHOSTS()
  IN(size_t, in_n) EP_FOLD(in_n, 0, EP_NMAX) ASSUME(in_n <= EP_NMAX);
  IN_MEM(in_buf, in_n)
  source_adapt(ep_octet_source, EP_SRC_DRIVER, in_buf, in_n);
  VERIF_CANARY();
}

void h_once_source_get_chunk(void)
{
  EP_GHOSTS() EP_SOURCE(s)
  IN(size_t, in_n) EP_FOLD(in_n, 0, EP_NMAX) ASSUME(in_n <= EP_NMAX);
  IN_MEM(in_buf, in_n)
  once_source_get_chunk(&s, in_buf, in_n);
  VERIF_CANARY();
}

void h_source_get_chunk_atmost(void)
{
  EP_GHOSTS() EP_SOURCE(s)
  IN(size_t, in_n) EP_FOLD(in_n, 0, EP_NMAX) ASSUME(in_n <= EP_NMAX);
  IN_MEM(in_buf, in_n)
  source_get_chunk_atmost(&s, in_buf, in_n);
  VERIF_CANARY();
}

void h_source_get_chunk(void)
{
  EP_GHOSTS() EP_SOURCE(s)
  EP_COUNT(in_n)
  IN_MEM(in_buf, EP_BUFLEN(in_n))
  source_get_chunk(&s, in_buf, in_n);
  VERIF_CANARY();
}

void h_sink_put_octet(void)
{
  EP_GHOSTS() EP_SINK(k)
  IN(uint8_t, in_octet)
  sink_put_octet(&k, in_octet);
  VERIF_CANARY();
}

void h_sink_adapt(void)
{
  EP_GHOSTS()
  IN(size_t, in_n) EP_FOLD(in_n, 0, EP_NMAX) ASSUME(in_n <= EP_NMAX);
  IN_MEM(in_buf, in_n)
  sink_adapt(ep_octet_sink, EP_SNK_DRIVER, in_buf, in_n);
  VERIF_CANARY();
}

void h_once_sink_put_chunk(void)
{
  EP_GHOSTS() EP_SINK(k)
  IN(size_t, in_n) EP_FOLD(in_n, 0, EP_NMAX) ASSUME(in_n <= EP_NMAX);
  IN_MEM(in_buf, in_n)
  once_sink_put_chunk(&k, in_buf, in_n);
  VERIF_CANARY();
}

void h_sink_put_chunk_atmost(void)
{
  EP_GHOSTS() EP_SINK(k)
  IN(size_t, in_n) EP_FOLD(in_n, 0, EP_NMAX) ASSUME(in_n <= EP_NMAX);
  IN_MEM(in_buf, in_n)
  sink_put_chunk_atmost(&k, in_buf, in_n);
  VERIF_CANARY();
}

void h_sink_put_chunk(void)
{
  EP_GHOSTS() EP_SINK(k)
  EP_COUNT(in_n)
  IN_MEM(in_buf, EP_BUFLEN(in_n))
  sink_put_chunk(&k, in_buf, in_n);
  VERIF_CANARY();
}

/* ---- source-to-sink plumbing ---- */
void h_sts_cbc(void)
{
  EP_GHOSTS() EP_SOURCE(s) EP_SINK(k)
  sts_cbc(&s, &k);
  VERIF_CANARY();
}

void h_sts_n_cbc(void)
{
  EP_GHOSTS() EP_SOURCE(s) EP_SINK(k)
  EP_ANY_COUNT(in_n)
  sts_n_cbc(&s, &k, in_n);
  VERIF_CANARY();
}

void h_sts_drain_cbc(void)
{
  EP_GHOSTS() EP_SOURCE(s) EP_SINK(k)
  sts_drain_cbc(&s, &k);
  VERIF_CANARY();
}

void h_sts_atmost_via_sink(void)
{
  EP_GHOSTS() EP_SOURCE(s) EP_SINK(k)
  IN(size_t, in_n)
  sts_atmost_via_sink(&s, &k, in_n);
  VERIF_CANARY();
}

void h_sts_atmost_via_source(void)
{
  EP_GHOSTS() EP_SOURCE(s) EP_SINK(k)
  IN(size_t, in_n)
  sts_atmost_via_source(&s, &k, in_n);
  VERIF_CANARY();
}

void h_sts_atmost(void)
{
  EP_GHOSTS() EP_SOURCE(s) EP_SINK(k)
  IN(size_t, in_n)
  sts_atmost(&s, &k, in_n);
  VERIF_CANARY();
}

void h_sts_some(void)
{
  EP_GHOSTS() EP_SOURCE(s) EP_SINK(k)
  sts_some(&s, &k);
  VERIF_CANARY();
}

void h_sts_n(void)
{
  EP_GHOSTS() EP_SOURCE(s) EP_SINK(k)
  EP_ANY_COUNT(in_n)
  sts_n(&s, &k, in_n);
  VERIF_CANARY();
}

void h_sts_drain(void)
{
  EP_GHOSTS() EP_SOURCE(s) EP_SINK(k)
  sts_drain(&s, &k);
  VERIF_CANARY();
}

/* ---- plumbing through an auxiliary buffer ----
 * any buffer state offset <= used <= size <= EP_NMAX, exact-size storage */
#define EP_AUX(b) \
  IN(size_t, in_size) IN(size_t, in_used) IN(size_t, in_offset) \
  EP_FOLD(in_size, 1, EP_NMAX) EP_FOLD(in_used, 0, in_size) EP_FOLD(in_offset, 0, in_used) \
  ASSUME(in_size >= 1 && in_size <= EP_NMAX && in_offset <= in_used && in_used <= in_size); \
  IN_MEM(in_data, in_size) \
  ByteBuffer b = { in_data, in_size, in_used, in_offset };

void h_sts_some_aux(void)
{
  EP_GHOSTS() EP_SOURCE(s) EP_SINK(k) EP_AUX(b)
  sts_some_aux(&s, &k, &b);
  VERIF_CANARY();
}

void h_sts_atmost_aux(void)
{
  EP_GHOSTS() EP_SOURCE(s) EP_SINK(k) EP_AUX(b)
  IN(size_t, in_n)
  sts_atmost_aux(&s, &k, &b, in_n);
  VERIF_CANARY();
}

void h_sts_n_aux(void)
{
  EP_GHOSTS() EP_SOURCE(s) EP_SINK(k) EP_AUX(b)
  EP_ANY_COUNT(in_n)
  sts_n_aux(&s, &k, &b, in_n);
  VERIF_CANARY();
}

void h_sts_drain_aux(void)
{
  EP_GHOSTS() EP_SOURCE(s) EP_SINK(k) EP_AUX(b)
  sts_drain_aux(&s, &k, &b);
  VERIF_CANARY();
}

/* ---- src/endpoints/buffer.c ---- */
#ifdef EP_UNIT_BUFFER
#ifndef EP_CHUNKS_MAX
#define EP_CHUNKS_MAX 4
#endif
#define EP_BB_STATE(b, in_size, in_used, in_offset, in_data) \
  IN(size_t, in_size) IN(size_t, in_used) IN(size_t, in_offset) \
  EP_FOLD(in_size, 1, EP_NMAX) EP_FOLD(in_used, 0, in_size) EP_FOLD(in_offset, 0, in_used) \
  ASSUME(in_size >= 1 && in_size <= EP_NMAX && in_offset <= in_used && in_used <= in_size); \
  IN_MEM(in_data, in_size) \
  ByteBuffer b = { in_data, in_size, in_used, in_offset };

void h_read_from_buffer(void)
{
  GHOST_HAVOC();
  EP_BB_STATE(b, in_size, in_used, in_offset, in_data)
  IN(size_t, in_n)
  size_t rest = in_used - in_offset;
  size_t dstlen = rest == 0 ? 1 : (in_n < rest ? in_n : rest);
  IN_MEM(in_dst, dstlen)
  read_from_buffer(&b, in_dst, in_n);
  VERIF_CANARY();
}

void h_write_to_buffer(void)
{
  GHOST_HAVOC();
  EP_BB_STATE(b, in_size, in_used, in_offset, in_data)
  IN(size_t, in_n)
  size_t srclen = in_n <= in_size - in_used ? in_n : 1;
  IN_MEM(in_src, srclen)
  write_to_buffer(&b, in_src, in_n);
  VERIF_CANARY();
}

/* read_from_chunks: plain harness (no dfcc), real byte_buffer_consume_at_most.
 * Up to EP_CHUNKS_MAX chunks, every one in an arbitrary well-formed state.
 * CBMC 6.11 reads the loop-local `rc` of the backward-goto loop stale when
 * exits of different iterations are merged; the result is right when the
 * feasible exit is the last unwound iteration.  Hence one target per number
 * EP_SKIP of chunks that are skipped (exactly EP_SKIP empty chunks from
 * `active` on, then a chunk with unread octets or the end of the list), each
 * unwound exactly EP_SKIP + 1 times with the unwinding assertion on.
 * Obligations: chunks without unread octets are skipped and only those
 * (nothing lost); the octets come, in order, from the first chunk that has
 * some, at most n of them, and only that chunk's offset moves; -ENODATA
 * exactly when every chunk from `active` on is empty; nothing else changes. */
#if EP_CHUNKS_MAX > 4
#error "h_read_from_chunks sets up at most 4 chunks"
#endif
#define EP_CHUNK(i) \
  IN(size_t, in_size##i) IN(size_t, in_used##i) IN(size_t, in_offset##i) \
  EP_FOLD(in_size##i, 1, EP_CNMAX) EP_FOLD(in_used##i, 0, in_size##i) EP_FOLD(in_offset##i, 0, in_used##i) \
  ASSUME(in_size##i >= 1 && in_size##i <= EP_CNMAX && in_offset##i <= in_used##i && in_used##i <= in_size##i); \
  IN_MEM(in_data##i, in_size##i) \
  if (i < EP_CHUNKS_MAX) { chunk[i < EP_CHUNKS_MAX ? i : 0].data = in_data##i; chunk[i < EP_CHUNKS_MAX ? i : 0].size = in_size##i; \
    chunk[i < EP_CHUNKS_MAX ? i : 0].used = in_used##i; chunk[i < EP_CHUNKS_MAX ? i : 0].offset = in_offset##i; \
    old_data[i < EP_CHUNKS_MAX ? i : 0] = in_data##i; old_size[i < EP_CHUNKS_MAX ? i : 0] = in_size##i; \
    old_used[i < EP_CHUNKS_MAX ? i : 0] = in_used##i; old_offset[i < EP_CHUNKS_MAX ? i : 0] = in_offset##i; \
    old_cell[i < EP_CHUNKS_MAX ? i : 0] = in_data##i[g_k < in_size##i ? g_k : 0]; }
#ifndef EP_CNMAX
#define EP_CNMAX 16
#endif
#ifndef EP_SKIP
#define EP_SKIP 0
#endif
#define EP_CHUNK_EMPTY(i) (chunk[(i) < EP_CHUNKS_MAX ? (i) : 0].used == chunk[(i) < EP_CHUNKS_MAX ? (i) : 0].offset)

void h_read_from_chunks(void)
{
  GHOST_HAVOC();
  IN(size_t, in_chunks) IN(size_t, in_active)
  EP_FOLD(in_chunks, 0, EP_CHUNKS_MAX) EP_FOLD(in_active, 0, in_chunks)
  ASSUME(in_chunks <= EP_CHUNKS_MAX && in_active <= in_chunks);
  ByteBuffer chunk[EP_CHUNKS_MAX];
  unsigned char *old_data[EP_CHUNKS_MAX], old_cell[EP_CHUNKS_MAX];
  size_t old_size[EP_CHUNKS_MAX], old_used[EP_CHUNKS_MAX], old_offset[EP_CHUNKS_MAX];
  EP_CHUNK(0) EP_CHUNK(1) EP_CHUNK(2) EP_CHUNK(3)
  ByteChunks c = { in_chunks, in_active, chunk };
  IN(size_t, in_n) EP_FOLD(in_n, 1, EP_CNMAX)
  ASSUME(in_n >= 1 && in_n <= EP_CNMAX);
  IN_MEM(in_dst, in_n)
  /* exactly EP_SKIP chunks are skipped */
  ASSUME(in_active + EP_SKIP <= in_chunks);
  ASSUME(IMPLIES(EP_SKIP > 0, EP_CHUNK_EMPTY(in_active)));
  ASSUME(IMPLIES(EP_SKIP > 1, EP_CHUNK_EMPTY(in_active + 1)));
  ASSUME(IMPLIES(EP_SKIP > 2, EP_CHUNK_EMPTY(in_active + 2)));
  ASSUME(IMPLIES(EP_SKIP > 3, EP_CHUNK_EMPTY(in_active + 3)));
  ASSUME(in_active + EP_SKIP == in_chunks || !EP_CHUNK_EMPTY(in_active + EP_SKIP));

  const ssize_t r = read_from_chunks(&c, in_dst, in_n);
  CHECK(c.active == in_active + EP_SKIP, "exactly the empty chunks in front are skipped");

  CHECK(c.chunks == in_chunks && c.chunk == chunk, "the chunk list itself is unchanged");
  CHECK(c.active >= in_active && c.active <= in_chunks, "active only moves forward, never past the list");
  CHECK(r == -ENODATA || (r >= 1 && (size_t)r <= in_n), "returns -ENODATA or a count 1..n");
  CHECK(IMPLIES(r < 0, c.active == in_chunks), "-ENODATA only after the whole list has been examined");
  CHECK(IMPLIES(r >= 0, c.active < in_chunks), "a count comes from a chunk of the list");
  if (g_j < in_chunks && g_j < EP_CHUNKS_MAX) {
    const ByteBuffer *q = &chunk[g_j];
    CHECK(q->data == old_data[g_j] && q->size == old_size[g_j] && q->used == old_used[g_j],
          "no chunk's storage, size or fill level changes");
    CHECK(q->data[g_k < q->size ? g_k : 0] == old_cell[g_j], "no chunk's content changes");
    CHECK(IMPLIES(g_j >= in_active && g_j < c.active, old_used[g_j] == old_offset[g_j]),
          "only chunks without unread octets are skipped");
    CHECK(IMPLIES(!(r >= 0 && g_j == c.active), q->offset == old_offset[g_j]),
          "only the offset of the chunk that was read from moves");
    if (r >= 0 && g_j == c.active) {
      const size_t rest = old_used[g_j] - old_offset[g_j];
      CHECK(rest > 0, "the chunk read from had unread octets");
      CHECK((size_t)r == (in_n < rest ? in_n : rest), "count == min(n, unread octets of that chunk)");
      CHECK(q->offset == old_offset[g_j] + (size_t)r, "its offset advances by the count");
      CHECK(IMPLIES(g_a < (size_t)r, in_dst[g_a < in_n ? g_a : 0] == q->data[(old_offset[g_j] + g_a) < q->size ? (old_offset[g_j] + g_a) : 0]),
            "the octets delivered are that chunk's oldest unread octets, in order");
    }
  }
  VERIF_CANARY();
}

void h_source_from_buffer(void)
{
  IN_MEM(in_bb, sizeof(ByteBuffer))
  Source s;
  source_from_buffer(&s, (ByteBuffer *)in_bb);
  VERIF_CANARY();
}

void h_source_from_chunks(void)
{
  IN_MEM(in_bc, sizeof(ByteChunks))
  Source s;
  source_from_chunks(&s, (ByteChunks *)in_bc);
  VERIF_CANARY();
}

void h_sink_to_buffer(void)
{
  IN_MEM(in_bb, sizeof(ByteBuffer))
  Sink k;
  sink_to_buffer(&k, (ByteBuffer *)in_bb);
  VERIF_CANARY();
}
#endif /* EP_UNIT_BUFFER */

/* ---- src/endpoints/trivial.c ---- */
#ifdef EP_UNIT_TRIVIAL
void h_run_source_zero(void)
{
  GHOST_HAVOC();
  IN(size_t, in_n) EP_FOLD(in_n, 0, EP_NMAX) ASSUME(in_n <= EP_NMAX);
  IN_MEM(in_buf, in_n)
  run_source_zero((void *)0, in_buf, in_n);
  VERIF_CANARY();
}

void h_run_sink_null(void)
{
  IN(size_t, in_n) EP_FOLD(in_n, 0, EP_NMAX) ASSUME(in_n <= EP_NMAX);
  IN_MEM(in_buf, in_n)
  run_sink_null((void *)0, in_buf, in_n);
  VERIF_CANARY();
}

void h_run_source_empty(void)
{
  IN(size_t, in_n)
  IN_MEM(in_buf, 1)
  run_source_empty((void *)0, in_buf, in_n);
  VERIF_CANARY();
}

/* base target of the static-state invariant: plain harness, the objects have
 * the values of their initialisers */
void h_trivial_static_ok(void)
{
  CHECK(EP_STATIC_OK(), "source_empty, source_zero and sink_null are initialised as chunk endpoints of their drivers");
  VERIF_CANARY();
}
#endif /* EP_UNIT_TRIVIAL */

/* ---- constructors ---- */
void h_octet_source_init(void)
{
  IN_MEM(in_cookie, 1)
  Source s;
  octet_source_init(&s, ep_octet_source, in_cookie);
  VERIF_CANARY();
}

void h_chunk_source_init(void)
{
  IN_MEM(in_cookie, 1)
  Source s;
  chunk_source_init(&s, ep_chunk_source, in_cookie);
  VERIF_CANARY();
}

void h_octet_sink_init(void)
{
  IN_MEM(in_cookie, 1)
  Sink k;
  octet_sink_init(&k, ep_octet_sink, in_cookie);
  VERIF_CANARY();
}

void h_chunk_sink_init(void)
{
  IN_MEM(in_cookie, 1)
  Sink k;
  chunk_sink_init(&k, ep_chunk_sink, in_cookie);
  VERIF_CANARY();
}
