/* Harness template of one ring-buffer instance (included once per instance by
 * harness/ring-buffer.c with RB_N / RB_T set). */

void RB_H(_init)(void)
{
  GHOST_HAVOC();
  IN(size_t, in_cap) IN(size_t, in_h0) IN(size_t, in_t0) IN(size_t, in_c0) IN(_Bool, in_o0)
  ASSUME(in_cap >= 1 && in_cap <= RB_INIT_CMAX);
  RB_MEM(in_data, in_cap)
  RB_N r = { (RB_T *)0, in_h0, in_t0, in_c0, in_o0 };
  RB_F(_init)(&r, (RB_T *)in_data, in_cap);
  VERIF_CANARY();
}

void RB_H(_advance_head)(void)
{
  RB_STATE()
  RB_F(_advance_head)(&r);
  VERIF_CANARY();
}

void RB_H(_advance_tail)(void)
{
  RB_STATE()
  ASSUME(in_tail < in_cap);
  RB_F(_advance_tail)(&r);
  VERIF_CANARY();
}

void RB_H(_size)(void)
{
  RB_STATE()
  RB_F(_size)(&r);
  VERIF_CANARY();
}

void RB_H(_empty)(void)
{
  RB_STATE()
  RB_F(_empty)(&r);
  VERIF_CANARY();
}

void RB_H(_full)(void)
{
  RB_STATE()
  RB_F(_full)(&r);
  VERIF_CANARY();
}

void RB_H(_clear)(void)
{
  RB_STATE()
  RB_F(_clear)(&r);
  VERIF_CANARY();
}

void RB_H(_get)(void)
{
  RB_STATE()
  RB_F(_get)(&r);
  VERIF_CANARY();
}

void RB_H(_put)(void)
{
  RB_STATE()
  RB_IN(RB_T, in_item)
  RB_F(_put)(&r, in_item);
  VERIF_CANARY();
}

void RB_H(_override_if_full)(void)
{
  RB_STATE()
  IN(_Bool, in_state)
  RB_F(_override_if_full)(&r, in_state);
  VERIF_CANARY();
}

void RB_H(_iter)(void)
{
  RB_STATE()
  IN(int, in_mode) IN(size_t, in_s0) IN(size_t, in_i0) IN(size_t, in_z0) IN(int, in_m0)
  ASSUME(in_mode == RING_BUFFER_ITER_OLD_TO_NEW || in_mode == RING_BUFFER_ITER_NEW_TO_OLD);
  rb_iter it = { in_s0, in_i0, in_z0, (rb_iter_mode)in_m0 };
  RB_F(_iter)(&it, &r, (rb_iter_mode)in_mode);
  VERIF_CANARY();
}

void RB_H(_inspect)(void)
{
  RB_STATE()
  IN(size_t, in_steps) IN(size_t, in_index) IN(int, in_mode)
  ASSUME(in_index < in_cap);
  rb_iter it = { in_steps, in_index, in_cap, (rb_iter_mode)in_mode };
  RB_F(_inspect)(&r, &it);
  VERIF_CANARY();
}

/* Iterator lemma: for every state and both modes, the documented iteration
 * idiom  for (iter(); !done(); advance()) inspect()  visits, at step j, the
 * j-th oldest element (old-to-new) resp. the j-th newest element (new-to-old)
 * and stops after exactly len steps.  iter / done / advance / inspect are
 * replaced by their contracts; the loop is closed by a loop invariant, so the
 * number of steps is not bounded by unwinding. */
void RB_H(_lemma_iter)(void)
{
  RB_STATE()
  IN(int, in_mode)
  ASSUME(in_mode == RING_BUFFER_ITER_OLD_TO_NEW || in_mode == RING_BUFFER_ITER_NEW_TO_OLD);
  rb_iter it = { 0, 0, 0, RING_BUFFER_ITER_OLD_TO_NEW };
  const size_t len = RB_LEN(&r);
  size_t j = 0;
  RB_F(_iter)(&it, &r, (rb_iter_mode)in_mode);
  while (!rb_iter_done(&it))
  __CPROVER_assigns(j, it.steps, it.index)
  __CPROVER_loop_invariant(j <= len && it.steps == len - j && it.size == in_cap && it.mode == (rb_iter_mode)in_mode)
  __CPROVER_loop_invariant(IMPLIES(j < len && in_mode == RING_BUFFER_ITER_OLD_TO_NEW,
      it.index == RB_SLOT_(in_tail, j, in_cap)))
  __CPROVER_loop_invariant(IMPLIES(j < len && in_mode == RING_BUFFER_ITER_NEW_TO_OLD,
      it.index == RB_SLOT_(in_tail, len - 1 - j, in_cap)))
  __CPROVER_decreases(len - j)
  {
    RB_T v = RB_F(_inspect)(&r, &it);
    CHECK(IMPLIES(in_mode == RING_BUFFER_ITER_OLD_TO_NEW, v == RB_Q(&r, j)),
          "old-to-new iterator yields the j-th oldest element at step j");
    CHECK(IMPLIES(in_mode == RING_BUFFER_ITER_NEW_TO_OLD, v == RB_Q(&r, len - 1 - j)),
          "new-to-old iterator yields the j-th newest element at step j");
    rb_iter_advance(&it);
    j++;
  }
  CHECK(j == len, "iteration ends after exactly size steps");
  CHECK(r.head == in_head && r.tail == in_tail && r.datasize == in_cap, "iteration leaves the queue alone");
  VERIF_CANARY();
}

/* Composition lemma over the contracts of put / get / size: two puts into a
 * queue with room for two append in order behind the old content, and get
 * then delivers the oldest element. */
void RB_H(_lemma_fifo)(void)
{
  RB_STATE()
  RB_IN(RB_T, in_a) RB_IN(RB_T, in_b) IN(_Bool, in_sel)
  const size_t len = RB_LEN(&r);
  ASSUME(len + 2 <= in_cap);
  /* instantiate the universally quantified queue position */
  g_k = in_sel ? len : 0;
  const RB_T q0 = RB_Q(&r, 0);
  RB_F(_put)(&r, in_a);
  RB_F(_put)(&r, in_b);
  CHECK(RB_F(_size)(&r) == len + 2, "two puts with room: size grows by two");
  CHECK(IMPLIES(g_k == len, RB_Q(&r, len) == in_a), "first put is element len");
  CHECK(RB_Q(&r, len + 1) == in_b, "second put is element len + 1");
  RB_T x = RB_F(_get)(&r);
  CHECK(IMPLIES(g_k == len && len == 0, x == in_a), "get on [a, b] returns a");
  CHECK(IMPLIES(g_k == 0 && len > 0, x == q0), "get returns the element that was oldest before the puts");
  CHECK(RB_F(_size)(&r) == len + 1, "get removes one element");
  VERIF_CANARY();
}
