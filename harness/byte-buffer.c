/* Harnesses for the contracts of src/byte-buffer.c (C18).  Every buffer state
 * with offset <= used <= size <= BB_SMAX is admitted, the storage is an
 * exact-size heap block, so a touch outside the size octets fails a pointer
 * check (proof) or ASan (replay). */
#ifndef BB_SMAX
#define BB_SMAX 4096
#endif

#define BB_STATE() \
  GHOST_HAVOC(); \
  IN(size_t, in_size) IN(size_t, in_used) IN(size_t, in_offset) \
  ASSUME(in_size >= 1 && in_size <= BB_SMAX && in_offset <= in_used && in_used <= in_size); \
  IN_MEM(in_data, in_size) \
  ByteBuffer b = { in_data, in_size, in_used, in_offset };

void h_byte_buffer_null(void)
{
  IN(size_t, in_size) IN(size_t, in_used) IN(size_t, in_offset)
  ByteBuffer b = { (unsigned char *)0, in_size, in_used, in_offset };
  byte_buffer_null(&b);
  VERIF_CANARY();
}

void h_byte_buffer_set(void)
{
  IN(size_t, in_size) IN(size_t, in_used) IN(size_t, in_offset) IN(int, in_null)
  IN(size_t, in_s0) IN(size_t, in_u0) IN(size_t, in_o0)
  IN_MEM(in_data, 1)
  ByteBuffer b = { (unsigned char *)0, in_s0, in_u0, in_o0 };
  byte_buffer_set(&b, in_null ? (void *)0 : in_data, in_size, in_used, in_offset);
  VERIF_CANARY();
}

void h_byte_buffer_use(void)
{
  IN(size_t, in_size) IN(int, in_null)
  IN(size_t, in_s0) IN(size_t, in_u0) IN(size_t, in_o0)
  IN_MEM(in_data, 1)
  ByteBuffer b = { (unsigned char *)0, in_s0, in_u0, in_o0 };
  byte_buffer_use(&b, in_null ? (void *)0 : in_data, in_size);
  VERIF_CANARY();
}

void h_byte_buffer_space(void)
{
  IN(size_t, in_size) IN(int, in_null)
  IN(size_t, in_s0) IN(size_t, in_u0) IN(size_t, in_o0)
  IN_MEM(in_data, 1)
  ByteBuffer b = { (unsigned char *)0, in_s0, in_u0, in_o0 };
  byte_buffer_space(&b, in_null ? (void *)0 : in_data, in_size);
  VERIF_CANARY();
}

void h_byte_buffer_avail(void)
{
  BB_STATE()
  byte_buffer_avail(&b);
  VERIF_CANARY();
}

void h_byte_buffer_rest(void)
{
  BB_STATE()
  byte_buffer_rest(&b);
  VERIF_CANARY();
}

void h_byte_buffer_add(void)
{
  BB_STATE()
  IN(size_t, in_n)
  size_t srclen = in_n <= in_size - in_used ? in_n : 1;
  IN_MEM(in_src, srclen)
  byte_buffer_add(&b, in_src, in_n);
  VERIF_CANARY();
}

void h_byte_buffer_consume(void)
{
  BB_STATE()
  IN(size_t, in_n)
  size_t dstlen = in_n <= in_used - in_offset ? in_n : 1;
  IN_MEM(in_dst, dstlen)
  byte_buffer_consume(&b, in_dst, in_n);
  VERIF_CANARY();
}

void h_byte_buffer_consume_at_most(void)
{
  BB_STATE()
  IN(size_t, in_n)
  size_t rest = in_used - in_offset;
  size_t dstlen = rest == 0 ? 1 : (in_n < rest ? in_n : rest);
  IN_MEM(in_dst, dstlen)
  byte_buffer_consume_at_most(&b, in_dst, in_n);
  VERIF_CANARY();
}

void h_byte_buffer_rewind(void)
{
  BB_STATE()
  byte_buffer_rewind(&b);
  VERIF_CANARY();
}

void h_byte_buffer_clear(void)
{
  BB_STATE()
  byte_buffer_clear(&b);
  VERIF_CANARY();
}

void h_byte_buffer_reset(void)
{
  BB_STATE()
  byte_buffer_reset(&b);
  VERIF_CANARY();
}

void h_byte_buffer_repeat(void)
{
  BB_STATE()
  byte_buffer_repeat(&b);
  VERIF_CANARY();
}
