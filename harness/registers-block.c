/* Harnesses for the table-walking part of src/registers/core.c
 * (properties C04, C03, C02). */

/* ---- layer 1: leaf predicates, one arbitrary area / entry -------------- */

static RegisterArea *rb_any_area(void)
{
  IN_MEM(in_area, sizeof(RegisterArea))
  return (RegisterArea *)in_area;
}

static RegisterEntry *rb_any_entry(void)
{
  IN_MEM(in_entry, sizeof(RegisterEntry))
  RegisterEntry *e = (RegisterEntry *)in_entry;
  ASSUME(RB_TYPE_IS_ENUM(e->type));
  return e;
}

void h_is_end_of_areas(void)
{
  is_end_of_areas(rb_any_area());
  VERIF_CANARY();
}

void h_is_end_of_entries(void)
{
  is_end_of_entries(rb_any_entry());
  VERIF_CANARY();
}

void h_reg_min(void)
{
  IN(size_t, in_a) IN(size_t, in_b)
  reg_min(in_a, in_b);
  VERIF_CANARY();
}

void h_register_area_can_write(void)
{
  register_area_can_write(rb_any_area());
  VERIF_CANARY();
}

void h_register_area_is_writeable(void)
{
  register_area_is_writeable(rb_any_area());
  VERIF_CANARY();
}

void h_register_area_is_readable(void)
{
  register_area_is_readable(rb_any_area());
  VERIF_CANARY();
}

void h_ra_addr_is_part_of(void)
{
  IN(uint32_t, in_addr)
  ra_addr_is_part_of(rb_any_area(), in_addr);
  VERIF_CANARY();
}

void h_ra_reg_is_part_of(void)
{
  ra_reg_is_part_of(rb_any_area(), rb_any_entry());
  VERIF_CANARY();
}

void h_ra_reg_fits_into(void)
{
  ra_reg_fits_into(rb_any_area(), rb_any_entry());
  VERIF_CANARY();
}

void h_ra_range_touches(void)
{
  IN(uint32_t, in_addr) IN(uint32_t, in_n)
  ra_range_touches(rb_any_area(), in_addr, in_n);
  VERIF_CANARY();
}

void h_reg_range_touches(void)
{
  IN(uint32_t, in_addr) IN(uint32_t, in_n)
  reg_range_touches(rb_any_entry(), in_addr, in_n);
  VERIF_CANARY();
}

void h_need_to_load_default(void)
{
  RegisterEntry *e = rb_any_entry();
  e->area = rb_any_area();
  need_to_load_default(e);
  VERIF_CANARY();
}

void h_register_entry_size(void)
{
  register_entry_size(rb_any_entry());
  VERIF_CANARY();
}

/* ---- layer 2: walkers over lists of arbitrary length ---------------------
 * exact-size heap blocks of symbolic length and arbitrary content */
size_t g_rb_na, g_rb_ne;

void h_reg_count_areas(void)
{
  GHOST_HAVOC();
  IN(size_t, in_term)                      /* position of a terminator */
  ASSUME(in_term <= AREA_HANDLE_MAX);
  RegisterArea *in_list = malloc(sizeof(RegisterArea) * (in_term + 1));
  ASSUME(in_list != NULL);
  ASSUME(RB_AREA_IS_END(&in_list[in_term]));
  g_rb_na = in_term;
  reg_count_areas(in_list);
  VERIF_CANARY();
}

void h_reg_count_entries(void)
{
  GHOST_HAVOC();
  IN(size_t, in_term)
  ASSUME(in_term <= 0x3ffffff);            /* the block must fit CBMC's largest object */
  RegisterEntry *in_list = malloc(sizeof(RegisterEntry) * (in_term + 1));
  ASSUME(in_list != NULL);
  ASSUME(RB_ENTRY_IS_END(&in_list[in_term]));
  g_rb_ne = in_term;
  reg_count_entries(in_list);
  VERIF_CANARY();
}

/* a table whose lists have arbitrary length and content (no terminators
 * needed: the walkers below go by t->areas / t->entries) */
static RegisterTable *rb_any_table(void)
{
  IN(uint16_t, in_areas) IN(uint32_t, in_entries)
  ASSUME(in_entries <= 0x3ffffff);
  RegisterArea *in_alist = malloc(sizeof(RegisterArea) * in_areas);
  RegisterEntry *in_elist = malloc(sizeof(RegisterEntry) * in_entries);
  RegisterTable *t = malloc(sizeof(RegisterTable));
  ASSUME(in_alist != NULL && in_elist != NULL && t != NULL);
  IN(uint16_t, in_tflags)
  t->flags = in_tflags; t->areas = in_areas; t->entries = in_entries;
  t->area = in_alist; t->entry = in_elist;
  return t;
}

void h_ra_find_area_by_addr(void)
{
  GHOST_HAVOC();
  IN(uint32_t, in_addr)
  ra_find_area_by_addr(rb_any_table(), in_addr);
  VERIF_CANARY();
}

void h_ra_first_entry_of_next(void)
{
  GHOST_HAVOC();
  IN(uint32_t, in_start)
  ra_first_entry_of_next(rb_any_table(), rb_any_area(), in_start);
  VERIF_CANARY();
}

/* the local contract of register_set: one linked register of arbitrary
 * type / constraint / default at any offset of one memory-backed area of
 * RB_SZ words, any handle of a table of up to RB_NE registers, any value */
void h_c04_register_set(void)
{
  GHOST_HAVOC();
  IN(uint32_t, in_entries) IN(uint32_t, in_idx)
  ASSUME(in_idx < in_entries && in_entries <= RB_NE);
  RegisterEntry *in_elist = malloc(sizeof(RegisterEntry) * RB_NE);
  RegisterArea *a = malloc(sizeof(RegisterArea));
  RegisterTable *t = malloc(sizeof(RegisterTable));
  RegisterAtom *in_amem = malloc(sizeof(RegisterAtom) * RB_SZ);
  ASSUME(in_elist != NULL && a != NULL && t != NULL && in_amem != NULL);
  IN(uint32_t, in_abase) IN(uint16_t, in_aflags) IN(_Bool, in_awrite)
  for (uint32_t w = 0; w < RB_SZ; w++) {
    IN(uint16_t, in_aword)
    in_amem[w] = in_aword;
  }
  a->read = reg_mem_read; a->write = in_awrite ? reg_mem_write : NULL;
  a->flags = in_aflags; a->base = in_abase; a->size = RB_SZ; a->mem = in_amem;
  for (uint32_t j = 0; j < RB_NE; j++) {   /* no stray pointers in the other entries */
    in_elist[j].area = a; in_elist[j].name = NULL; in_elist[j].user = NULL;
  }
  RegisterEntry *e = &in_elist[in_idx];
  IN(uint8_t, in_etype) IN(uint64_t, in_edefault) IN(uint32_t, in_eaddr) IN(uint32_t, in_eoffset)
  IN(uint8_t, in_echeck) IN(uint64_t, in_emin) IN(uint64_t, in_emax)
  ASSUME(in_etype <= REG_TYPE_FLOAT64 && in_echeck <= REGV_TYPE_CALLBACK);
  e->type = (RegisterType)in_etype;
  ASSUME(in_eoffset <= RB_SZ && RB_WORDS(e->type) <= RB_SZ - in_eoffset);
  e->default_value.u64 = in_edefault; e->address = in_eaddr; e->area = a; e->offset = in_eoffset;
  e->check.type = (RegisterValidatorType)in_echeck;
  e->check.arg.range.min.u64 = in_emin; e->check.arg.range.max.u64 = in_emax;
  if (e->check.type == REGV_TYPE_CALLBACK)
    e->check.arg.cb = st_validator;
  IN(uint16_t, in_tflags) IN(uint16_t, in_tareas)
  t->flags = in_tflags | REG_TF_INITIALISED; t->areas = in_tareas; t->area = a;
  t->entries = in_entries; t->entry = in_elist;
  IN(uint8_t, in_vtype) IN(uint64_t, in_vbits)
  ASSUME(in_vtype <= REG_TYPE_INVALID);
  RegisterValue v; v.type = (RegisterType)in_vtype; v.value.u64 = in_vbits;
#if VERIF_IS_NATIVE
  { IN(uint64_t, in_cb_seed) st_cb_seed = in_cb_seed; }
#endif
  register_set(t, in_idx, v);
  VERIF_CANARY();
}

/* ---- bounded (tier B) table family ------------------------------------
 * A description has in_na <= RB_NA areas and in_ne <= RB_NE registers, each
 * list closed by its terminator, all in exact-size heap blocks.  Everything
 * else is symbolic: bases, sizes (1..RB_SZ words, end inside the 32-bit
 * space), flags, callbacks present or not, addresses, types, constraint
 * kinds and limits, defaults, validator verdicts, table flags. */
struct rb_ghost g_rb;
#ifdef RB_TYPE_LIST
static const RegisterType rb_type_list[] = { RB_TYPE_LIST, REG_TYPE_INVALID };
#endif

struct rb_tab {
  RegisterTable *t;
  RegisterArea *area;
  RegisterEntry *entry;
  uint32_t na, ne;
};

#define RB_AK_WRITE 1u   /* area has a write callback (reg_mem_write) */
#define RB_AK_READ 2u    /* area has a read callback (reg_mem_read) */
#define RB_AK_MEM 4u     /* area is memory-backed */

/* Blocks have the constant size of the family's dimension (symbolic-size
 * heap objects and symbolic placements make the queries explode).  A list of
 * in_na < RB_NA areas leaves slack behind its terminator, but in_na == RB_NA
 * is part of the family and there the terminator is the block's last element:
 * a read behind the terminator or before the first element leaves the object.
 * The same holds for register lists and for area storage (size == RB_SZ).
 * Writes into slack are caught for every size by the assigns clauses. */
#define RB_PLACE(blk, cap, len, atend) (blk)

static struct rb_tab rb_description(void)
{
  struct rb_tab T;
  IN(uint32_t, in_na) IN(uint32_t, in_ne)
  ASSUME(in_na <= RB_NA && in_ne <= RB_NE);
  RegisterArea *ablk = malloc((RB_NA + 1) * sizeof(RegisterArea));
  RegisterEntry *eblk = malloc((RB_NE + 1) * sizeof(RegisterEntry));
  RegisterTable *tblk = malloc(sizeof(RegisterTable));
  ASSUME(ablk != NULL && eblk != NULL && tblk != NULL);
  T.na = in_na; T.ne = in_ne;
  T.area = RB_PLACE(ablk, RB_NA + 1, in_na + 1, in_areas_atend);
  T.entry = RB_PLACE(eblk, RB_NE + 1, in_ne + 1, in_entries_atend);
  T.t = tblk;
  for (uint32_t i = 0; i <= RB_NA; i++) {
    if (i < in_na) {
      RegisterArea *a = &T.area[i];
      IN(uint32_t, in_abase) IN(uint32_t, in_asize) IN(uint16_t, in_aflags) IN(uint8_t, in_akind)
      IN(uint32_t, in_afirst) IN(uint32_t, in_alast) IN(uint32_t, in_acount)
#ifdef RB_FIXED_ASIZE
      in_asize = RB_SZ;
#endif
      ASSUME(in_asize >= 1 && in_asize <= RB_SZ && RB_M64(in_abase) + in_asize <= 0xffffffffull);
      ASSUME(in_akind <= 7 && IMPLIES(in_akind & (RB_AK_WRITE | RB_AK_READ), in_akind & RB_AK_MEM));
      a->base = in_abase; a->size = in_asize; a->flags = in_aflags;
      a->read = (in_akind & RB_AK_READ) ? reg_mem_read : NULL;
      a->write = (in_akind & RB_AK_WRITE) ? reg_mem_write : NULL;
      a->entry.first = in_afirst; a->entry.last = in_alast; a->entry.count = in_acount;
      a->mem = NULL;
      if (in_akind & RB_AK_MEM) {
        RegisterAtom *in_amem = malloc(sizeof(RegisterAtom) * RB_SZ);
        ASSUME(in_amem != NULL);
        for (uint32_t w = 0; w < RB_SZ; w++) {
          IN(uint16_t, in_aword)
          in_amem[w] = in_aword;
        }
        a->mem = RB_PLACE(in_amem, RB_SZ, in_asize, in_amem_atend);
      }
    } else if (i == in_na) {
      RegisterArea end = REGISTER_AREA_END;
      T.area[i] = end;
    }
  }
  for (uint32_t j = 0; j <= RB_NE; j++) {
    if (j < in_ne) {
      RegisterEntry *e = &T.entry[j];
      IN(uint8_t, in_etype) IN(uint64_t, in_edefault) IN(uint32_t, in_eaddr) IN(uint16_t, in_eflags)
      IN(uint8_t, in_echeck) IN(uint64_t, in_emin) IN(uint64_t, in_emax)
      ASSUME(in_etype <= REG_TYPE_FLOAT64 && in_echeck <= REGV_TYPE_CALLBACK);
#ifdef RB_TYPE_LIST
      /* variant with the register types fixed per index (RB_TYPE_LIST): the
       * serialiser behind rds_serdes[type] and the register size are then
       * constants for the symbolic execution */
      in_etype = (uint8_t)rb_type_list[j];
#endif
      e->type = (RegisterType)in_etype;
      ASSUME(RB_M64(in_eaddr) + RB_WORDS(e->type) <= 0xffffffffull);
      e->default_value.u64 = in_edefault;
      e->address = in_eaddr;
      e->flags = in_eflags;
      e->check.type = (RegisterValidatorType)in_echeck;
      e->check.arg.range.min.u64 = in_emin;
      e->check.arg.range.max.u64 = in_emax;
      if (e->check.type == REGV_TYPE_CALLBACK)
        e->check.arg.cb = st_validator;
      e->name = NULL; e->user = NULL;
      e->area = NULL; e->offset = 0;
    } else if (j == in_ne) {
      RegisterEntry end = REGISTER_ENTRY_END;
      T.entry[j] = end;
    }
  }
  IN(uint16_t, in_tflags) IN(uint16_t, in_tareas) IN(uint32_t, in_tentries)
#if VERIF_IS_NATIVE
  { IN(uint64_t, in_cb_seed) st_cb_seed = in_cb_seed; }
#endif
  T.t->flags = in_tflags; T.t->areas = in_tareas; T.t->entries = in_tentries;
  T.t->area = T.area; T.t->entry = T.entry;
  return T;
}

/* snapshot of the description for the "unchanged" clauses */
static void rb_snapshot(const struct rb_tab *T)
{
  RegisterArea *a0 = malloc((RB_NA + 1) * sizeof(RegisterArea));
  RegisterEntry *e0 = malloc((RB_NE + 1) * sizeof(RegisterEntry));
  ASSUME(a0 != NULL && e0 != NULL);
  for (uint32_t i = 0; i <= RB_NA; i++)
    if (i <= T->na)
      a0[i] = T->area[i];
  for (uint32_t j = 0; j <= RB_NE; j++)
    if (j <= T->ne)
      e0[j] = T->entry[j];
  g_rb.na = T->na; g_rb.ne = T->ne;
  g_rb_na = T->na; g_rb_ne = T->ne;      /* terminator positions for the counters' contracts */
  g_rb.area0 = a0; g_rb.entry0 = e0;
}

/* the statement's postconditions of register_init, asserted after the call */
#define RB_INIT_POST(t, r, be) do { \
  CHECK(rb_init_verdict_ok(r, g_rb.init), "init: first violated rule and its offender, or success"); \
  CHECK(IMPLIES(g_rb.init.code != REG_INIT_SUCCESS, !RB_INITIALISED(t)), "init: failure leaves the table uninitialised"); \
  CHECK(IMPLIES(g_rb.init.code == REG_INIT_SUCCESS, \
      RB_INITIALISED(t) && ((t)->flags & REG_TF_DURING_INIT) == 0 && (t)->areas == g_rb.na && (t)->entries == g_rb.ne), \
      "init: success marks the table initialised and records its dimensions"); \
  CHECK(RB_BE(t) == (be), "init: byte order kept"); \
  CHECK(rb_description_same(t, g_rb.area0, g_rb.na, g_rb.entry0, g_rb.ne), "init: description unchanged"); \
  CHECK(IMPLIES(g_rb.init.code == REG_INIT_SUCCESS, rb_table_wf(t)), \
      "init: success leaves a well-formed table, every area records exactly its run of registers"); \
  CHECK(IMPLIES(g_rb.init.code == REG_INIT_SUCCESS, rb_init_words_ok(t, g_rb.na, g_rb.ne, be)), \
      "init: defaults loaded where areas load defaults, every other word zero"); \
} while (0)

/* C04: register_init on an arbitrary description of the family */
void h_register_init(void)
{
  GHOST_HAVOC();
  struct rb_tab T = rb_description();
  bool be = (T.t->flags & REG_TF_BIG_ENDIAN) != 0;
  rb_snapshot(&T);
  g_rb.init = rb_spec_first_violation(T.area, T.na, T.entry, T.ne, be);
  RegisterInit r = register_init(T.t);
  RB_INIT_POST(T.t, r, be);
  VERIF_CANARY();
}

/* the same check without the contract machinery (whole stack inlined, no
 * frame check beyond the exact-size blocks and the "unchanged" clauses) */
void h_register_init_plain(void)
{
  GHOST_HAVOC();
  struct rb_tab T = rb_description();
  bool be = (T.t->flags & REG_TF_BIG_ENDIAN) != 0;
  rb_snapshot(&T);
  g_rb.init = rb_spec_first_violation(T.area, T.na, T.entry, T.ne, be);
  RegisterInit r = register_init(T.t);
  RB_INIT_POST(T.t, r, be);
  VERIF_CANARY();
}
