/* Harnesses for the table-walking part of src/registers/core.c
 * (properties C04, C03, C02). */

/* ---- layer 1: leaf predicates, one arbitrary area / entry -------------- */

static RegisterArea *rb_any_area(void)
{
  IN_MEM(in_area, sizeof(RegisterArea))
  return (RegisterArea *)in_area;
}

static RegisterEntry *rb_any_entry(void)
{
  IN_MEM(in_entry, sizeof(RegisterEntry))
  RegisterEntry *e = (RegisterEntry *)in_entry;
  ASSUME(RB_TYPE_IS_ENUM(e->type));
  return e;
}

void h_is_end_of_areas(void)
{
  is_end_of_areas(rb_any_area());
  VERIF_CANARY();
}

void h_is_end_of_entries(void)
{
  is_end_of_entries(rb_any_entry());
  VERIF_CANARY();
}

void h_reg_min(void)
{
  IN(size_t, in_a) IN(size_t, in_b)
  reg_min(in_a, in_b);
  VERIF_CANARY();
}

void h_register_area_can_write(void)
{
  register_area_can_write(rb_any_area());
  VERIF_CANARY();
}

void h_register_area_is_writeable(void)
{
  register_area_is_writeable(rb_any_area());
  VERIF_CANARY();
}

void h_register_area_is_readable(void)
{
  register_area_is_readable(rb_any_area());
  VERIF_CANARY();
}

void h_ra_addr_is_part_of(void)
{
  IN(uint32_t, in_addr)
  ra_addr_is_part_of(rb_any_area(), in_addr);
  VERIF_CANARY();
}

void h_ra_reg_is_part_of(void)
{
  ra_reg_is_part_of(rb_any_area(), rb_any_entry());
  VERIF_CANARY();
}

void h_ra_reg_fits_into(void)
{
  ra_reg_fits_into(rb_any_area(), rb_any_entry());
  VERIF_CANARY();
}

void h_ra_range_touches(void)
{
  IN(uint32_t, in_addr) IN(uint32_t, in_n)
  ra_range_touches(rb_any_area(), in_addr, in_n);
  VERIF_CANARY();
}

void h_reg_range_touches(void)
{
  IN(uint32_t, in_addr) IN(uint32_t, in_n)
  reg_range_touches(rb_any_entry(), in_addr, in_n);
  VERIF_CANARY();
}

void h_need_to_load_default(void)
{
  RegisterEntry *e = rb_any_entry();
  e->area = rb_any_area();
  need_to_load_default(e);
  VERIF_CANARY();
}

void h_register_entry_size(void)
{
  register_entry_size(rb_any_entry());
  VERIF_CANARY();
}

/* ---- layer 2: walkers over lists of arbitrary length ---------------------
 * exact-size heap blocks of symbolic length and arbitrary content */
size_t g_rb_na, g_rb_ne;

void h_reg_count_areas(void)
{
  GHOST_HAVOC();
  IN(size_t, in_term)                      /* position of a terminator */
#ifdef RB_LIST_CAP
  ASSUME(in_term <= RB_LIST_CAP);            /* tier A-len: list length capped, loop proof inductive */
#endif
  ASSUME(in_term <= AREA_HANDLE_MAX);
  RegisterArea *in_list = malloc(sizeof(RegisterArea) * (in_term + 1));
  ASSUME(in_list != NULL);
  ASSUME(RB_AREA_IS_END(&in_list[in_term]));
  g_rb_na = in_term;
  reg_count_areas(in_list);
  VERIF_CANARY();
}

void h_reg_count_entries(void)
{
  GHOST_HAVOC();
  IN(size_t, in_term)
#ifdef RB_LIST_CAP
  ASSUME(in_term <= RB_LIST_CAP);
#endif
  ASSUME(in_term <= 0x3ffffff);            /* the block must fit CBMC's largest object */
  RegisterEntry *in_list = malloc(sizeof(RegisterEntry) * (in_term + 1));
  ASSUME(in_list != NULL);
  ASSUME(RB_ENTRY_IS_END(&in_list[in_term]));
  g_rb_ne = in_term;
  reg_count_entries(in_list);
  VERIF_CANARY();
}

/* a table whose lists have arbitrary length and content (no terminators
 * needed: the walkers below go by t->areas / t->entries) */
static RegisterTable *rb_any_table(void)
{
  IN(uint16_t, in_areas) IN(uint32_t, in_entries)
  ASSUME(in_entries <= 0x3ffffff);
  RegisterArea *in_alist = malloc(sizeof(RegisterArea) * in_areas);
  RegisterEntry *in_elist = malloc(sizeof(RegisterEntry) * in_entries);
  RegisterTable *t = malloc(sizeof(RegisterTable));
  ASSUME(in_alist != NULL && in_elist != NULL && t != NULL);
  IN(uint16_t, in_tflags)
  t->flags = in_tflags; t->areas = in_areas; t->entries = in_entries;
  t->area = in_alist; t->entry = in_elist;
  return t;
}

void h_ra_find_area_by_addr(void)
{
  GHOST_HAVOC();
  IN(uint32_t, in_addr)
  ra_find_area_by_addr(rb_any_table(), in_addr);
  VERIF_CANARY();
}

void h_ra_first_entry_of_next(void)
{
  GHOST_HAVOC();
  IN(uint32_t, in_start)
  ra_first_entry_of_next(rb_any_table(), rb_any_area(), in_start);
  VERIF_CANARY();
}

void h_reg_entry_is_in_memory(void)
{
  GHOST_HAVOC();
  reg_entry_is_in_memory(rb_any_table(), rb_any_entry());
  VERIF_CANARY();
}

/* ---- layer 2b: walkers of block access / iteration (tier A-len) ------------
 * lists of symbolic length (<= RB_AMAX areas, <= RB_EMAX registers) in
 * exact-size blocks, arbitrary content: everything the contracts need beyond
 * that is in their requires clauses */
#define RB_AK_WRITE 1u   /* area has a write callback (reg_mem_write) */
#define RB_AK_READ 2u    /* area has a read callback (reg_mem_read) */
#define RB_AK_MEM 4u     /* area is memory-backed */
uint32_t g_rb_x;
uint32_t g_rb_an, g_rb_ab[17], g_rb_ae[17];
bool g_rb_aw[17];
RegisterEntry g_rb_e0;
uint16_t g_rb_f0;
uint32_t g_rb_en, g_rb_ea[65], g_rb_ee[65];

/* the area map of a table (ghost data the contracts tie to the table by
 * RB_LINKED_A; computed, so that the native replay has it too) */
static void rb_emap_of(const RegisterTable *t)
{
  const RegisterEntry *te = t->entry;
  g_rb_en = t->entries;
  for (uint32_t j = 0; j < RB_EMAX; j++) {
    g_rb_ea[j] = 0; g_rb_ee[j] = 0;
    if (j < g_rb_en) {
      g_rb_ea[j] = te[j].address;
      g_rb_ee[j] = te[j].address + RB_WORDS(te[j].type);
    }
  }
}

static void rb_map_of(const RegisterTable *t)
{
  const RegisterArea *ta = t->area;
  g_rb_an = t->areas;
  for (uint32_t i = 0; i < RB_AMAX; i++) {
    g_rb_ab[i] = 0; g_rb_ae[i] = 0; g_rb_aw[i] = false;
    if (i < g_rb_an) {
      g_rb_ab[i] = ta[i].base;
      g_rb_ae[i] = ta[i].base + ta[i].size;
      g_rb_aw[i] = RB_AREA_WRITABLE(&ta[i]);
    }
  }
}

/* Lists in blocks of the constant size of the cap, every field of every
 * element assigned from a named input (unconstrained heap blocks of symbolic
 * size cost the solver an array constraint per pair of accesses). */
static RegisterTable *rb_len_table(void)
{
  IN(uint16_t, in_areas) IN(uint32_t, in_entries)
  ASSUME(in_areas <= RB_AMAX && in_entries <= RB_EMAX);
  RegisterArea *in_alist = malloc(sizeof(RegisterArea) * RB_AMAX);
  RegisterEntry *in_elist = malloc(sizeof(RegisterEntry) * RB_EMAX);
  RegisterTable *t = malloc(sizeof(RegisterTable));
  ASSUME(in_alist != NULL && in_elist != NULL && t != NULL);
  for (uint32_t i = 0; i < RB_AMAX; i++) {
    RegisterArea *a = &in_alist[i];
    IN(uint32_t, in_abase) IN(uint32_t, in_asize) IN(uint16_t, in_aflags) IN(uint8_t, in_akind)
    IN(uint32_t, in_afirst) IN(uint32_t, in_alast) IN(uint32_t, in_acount)
    a->base = in_abase; a->size = in_asize; a->flags = in_aflags;
    a->read = (in_akind & RB_AK_READ) ? reg_mem_read : NULL;
    a->write = (in_akind & RB_AK_WRITE) ? reg_mem_write : NULL;
    a->entry.first = in_afirst; a->entry.last = in_alast; a->entry.count = in_acount;
    a->mem = NULL;
  }
#ifndef RB_NO_ENTRIES
  for (uint32_t j = 0; j < RB_EMAX; j++) {
    RegisterEntry *e = &in_elist[j];
    IN(uint8_t, in_etype) IN(uint32_t, in_eaddr) IN(uint16_t, in_eflags) IN(uint32_t, in_eoffset)
    ASSUME(in_etype <= REG_TYPE_INVALID);
    e->type = (RegisterType)in_etype; e->address = in_eaddr; e->flags = in_eflags; e->offset = in_eoffset;
    e->default_value.u64 = 0; e->check.type = REGV_TYPE_TRIVIAL; e->check.arg.range.min.u64 = 0; e->check.arg.range.max.u64 = 0;
    e->name = NULL; e->user = NULL; e->area = NULL;
  }
#endif
  IN(uint16_t, in_tflags)
  t->flags = in_tflags; t->areas = in_areas; t->entries = in_entries;
  t->area = in_alist; t->entry = in_elist;
  IN(uint32_t, in_gx)
  g_rb_x = in_gx;
  rb_map_of(t);
#ifndef RB_NO_ENTRIES
  rb_emap_of(t);
#endif
  return t;
}

void h_register_block_touches_hole(void)
{
  GHOST_HAVOC();
  IN(uint32_t, in_addr) IN(uint32_t, in_n)
  register_block_touches_hole(rb_len_table(), in_addr, in_n);
  VERIF_CANARY();
}

/* the register the ghost index g_k designates, before the call */
static void rb_snapshot_entry(const RegisterTable *t)
{
  if (g_k < t->entries) {
    g_rb_e0 = t->entry[g_k];
    g_rb_f0 = g_rb_e0.flags;
  }
}

static void rb_stub_reset(RegisterTable *t, void *arg)
{
  g_it_table = t; g_it_arg = arg; g_it_calls = 0; g_it_first = 0; g_it_last_rc = 0; g_it_bad = false; g_it_stopped = false;
  for (uint32_t k = 0; k < RB_STUB_CALLS; k++) {
    IN(int, st_rc)
    st_it_rc[k] = st_rc;
  }
}

/* ra_find_area_by_addr on a short list: the clause that speaks about every
 * index below the result at once (RB_FIND_NONE_BELOW) */
void h_ra_find_area_by_addr_short(void)
{
  GHOST_HAVOC();
  IN(uint32_t, in_addr)
  ra_find_area_by_addr(rb_len_table(), in_addr);
  VERIF_CANARY();
}

void h_ra_writeable(void)
{
  GHOST_HAVOC();
  IN(uint32_t, in_addr) IN(uint32_t, in_n)
  ra_writeable(rb_len_table(), in_addr, in_n);
  VERIF_CANARY();
}

void h_reg_taint_in_range(void)
{
  GHOST_HAVOC();
  IN(uint32_t, in_addr) IN(uint32_t, in_n)
  RegisterTable *t = rb_len_table();
  rb_snapshot_entry(t);
  reg_taint_in_range(t, in_addr, in_n);
  VERIF_CANARY();
}

void h_find_area(void)
{
  GHOST_HAVOC();
  IN(uint16_t, in_first) IN(uint16_t, in_last) IN(uint32_t, in_addr)
  find_area(rb_any_table(), in_first, in_last, in_addr);
  VERIF_CANARY();
}

void h_find_reg(void)
{
  GHOST_HAVOC();
  IN(uint32_t, in_first) IN(uint32_t, in_last) IN(uint32_t, in_addr)
  find_reg(rb_len_table(), in_first, in_last, in_addr);
  VERIF_CANARY();
}

static registerCallback rb_the_callback = rb_stub_iter;

void h_reg_iterate(void)
{
  GHOST_HAVOC();
  IN(uint32_t, in_start) IN(uint32_t, in_end)
  IN_MEM(in_arg, 1)
  RegisterTable *t = rb_len_table();
  rb_stub_reset(t, in_arg);
  reg_iterate(t, in_start, in_end, rb_the_callback, in_arg);
  VERIF_CANARY();
}

void h_register_foreach_in_contract(void)
{
  GHOST_HAVOC();
  IN(uint32_t, in_addr) IN(uint32_t, in_off)
  IN_MEM(in_arg, 1)
  RegisterTable *t = rb_len_table();
  rb_stub_reset(t, in_arg);
  register_foreach_in(t, in_addr, in_off, rb_the_callback, in_arg);
  VERIF_CANARY();
}

/* ---- bounded (tier B) table family ------------------------------------
 * A description has in_na <= RB_NA areas and in_ne <= RB_NE registers, each
 * list closed by its terminator, all in exact-size heap blocks.  Everything
 * else is symbolic: bases, sizes (1..RB_SZ words, end inside the 32-bit
 * space), flags, callbacks present or not, addresses, types, constraint
 * kinds and limits, defaults, validator verdicts, table flags. */
struct rb_ghost g_rb;
#ifdef RB_TYPE_LIST
static const RegisterType rb_type_list[] = { RB_TYPE_LIST, REG_TYPE_INVALID };
#endif

struct rb_tab {
  RegisterTable *t;
  RegisterArea *area;
  RegisterEntry *entry;
  uint32_t na, ne;
};


/* Blocks have the constant size of the family's dimension (symbolic-size
 * heap objects and symbolic placements make the queries explode).  A list of
 * in_na < RB_NA areas leaves slack behind its terminator, but in_na == RB_NA
 * is part of the family and there the terminator is the block's last element:
 * a read behind the terminator or before the first element leaves the object.
 * The same holds for register lists and for area storage (size == RB_SZ).
 * Writes into slack are caught for every size by the assigns clauses. */
#define RB_PLACE(blk, cap, len, atend) (blk)

static struct rb_tab rb_description_of(bool linked)
{
  struct rb_tab T;
  IN(uint32_t, in_na) IN(uint32_t, in_ne)
  ASSUME(in_na <= RB_NA && in_ne <= RB_NE);
  RegisterArea *ablk = malloc((RB_NA + 1) * sizeof(RegisterArea));
  RegisterEntry *eblk = malloc((RB_NE + 1) * sizeof(RegisterEntry));
  RegisterTable *tblk = malloc(sizeof(RegisterTable));
  ASSUME(ablk != NULL && eblk != NULL && tblk != NULL);
  T.na = in_na; T.ne = in_ne;
  T.area = RB_PLACE(ablk, RB_NA + 1, in_na + 1, in_areas_atend);
  T.entry = RB_PLACE(eblk, RB_NE + 1, in_ne + 1, in_entries_atend);
  T.t = tblk;
  for (uint32_t i = 0; i <= RB_NA; i++) {
    if (i < in_na) {
      RegisterArea *a = &T.area[i];
      IN(uint32_t, in_abase) IN(uint32_t, in_asize) IN(uint16_t, in_aflags) IN(uint8_t, in_akind)
      IN(uint32_t, in_afirst) IN(uint32_t, in_alast) IN(uint32_t, in_acount)
#ifdef RB_FIXED_ASIZE
      in_asize = RB_SZ;
#endif
      ASSUME(in_asize >= 1 && in_asize <= RB_SZ && RB_M64(in_abase) + in_asize <= 0xffffffffull);
#ifdef RB_ADDR_WINDOW
      ASSUME(in_abase < RB_ADDR_WINDOW);
#endif
      ASSUME(in_akind <= 7 && IMPLIES(in_akind & (RB_AK_WRITE | RB_AK_READ), in_akind & RB_AK_MEM));
      if (linked)            /* block access: memory-backed areas as MEMORY_AREA*() makes them */
        ASSUME((in_akind & (RB_AK_READ | RB_AK_MEM)) == (RB_AK_READ | RB_AK_MEM));
      a->base = in_abase; a->size = in_asize; a->flags = in_aflags;
      a->read = (in_akind & RB_AK_READ) ? reg_mem_read : NULL;
      a->write = (in_akind & RB_AK_WRITE) ? reg_mem_write : NULL;
      a->entry.first = in_afirst; a->entry.last = in_alast; a->entry.count = in_acount;
      a->mem = NULL;
      if (in_akind & RB_AK_MEM) {
        RegisterAtom *in_amem = malloc(sizeof(RegisterAtom) * RB_SZ);
        ASSUME(in_amem != NULL);
        for (uint32_t w = 0; w < RB_SZ; w++) {
          IN(uint16_t, in_aword)
          in_amem[w] = in_aword;
        }
        a->mem = RB_PLACE(in_amem, RB_SZ, in_asize, in_amem_atend);
      }
    } else if (i == in_na) {
      RegisterArea end = REGISTER_AREA_END;
      T.area[i] = end;
    }
  }
  for (uint32_t j = 0; j <= RB_NE; j++) {
    if (j < in_ne) {
      RegisterEntry *e = &T.entry[j];
      IN(uint8_t, in_etype) IN(uint64_t, in_edefault) IN(uint32_t, in_eaddr) IN(uint16_t, in_eflags)
      IN(uint8_t, in_echeck) IN(uint64_t, in_emin) IN(uint64_t, in_emax)
      ASSUME(in_etype <= REG_TYPE_FLOAT64 && in_echeck <= REGV_TYPE_CALLBACK);
#ifdef RB_TYPE_LIST
      /* variant with the register types fixed per index (RB_TYPE_LIST): the
       * serialiser behind rds_serdes[type] and the register size are then
       * constants for the symbolic execution */
      in_etype = (uint8_t)rb_type_list[j];
#endif
      e->type = (RegisterType)in_etype;
#ifdef RB_ADDR_WINDOW
      ASSUME(in_eaddr < RB_ADDR_WINDOW);
#endif
      ASSUME(RB_M64(in_eaddr) + RB_WORDS(e->type) <= 0xffffffffull);
      e->default_value.u64 = in_edefault;
      e->address = in_eaddr;
      e->flags = in_eflags;
      e->check.type = (RegisterValidatorType)in_echeck;
      e->check.arg.range.min.u64 = in_emin;
      e->check.arg.range.max.u64 = in_emax;
      if (e->check.type == REGV_TYPE_CALLBACK)
        e->check.arg.cb = st_validator;
      e->name = NULL; e->user = NULL;
      e->area = NULL; e->offset = 0;
      if (linked) {          /* what register_init leaves: pinned by the well-formedness assumption */
        IN(uint32_t, in_eai) IN(uint32_t, in_eoffset)
        ASSUME(in_eai < RB_NA);
        e->area = &T.area[in_eai]; e->offset = in_eoffset;
      }
    } else if (j == in_ne) {
      RegisterEntry end = REGISTER_ENTRY_END;
      T.entry[j] = end;
    }
  }
  IN(uint16_t, in_tflags) IN(uint16_t, in_tareas) IN(uint32_t, in_tentries)
#if VERIF_IS_NATIVE
  { IN(uint64_t, in_cb_seed) st_cb_seed = in_cb_seed; }
#endif
  T.t->flags = in_tflags; T.t->areas = in_tareas; T.t->entries = in_tentries;
  T.t->area = T.area; T.t->entry = T.entry;
  return T;
}

static struct rb_tab rb_description(void)
{
  return rb_description_of(false);
}

/* value models of the table before and after the call */
static struct rb_model rb_pre, rb_post;

static void rb_take_pre(const struct rb_tab *T)
{
  rb_model_of(&rb_pre, T->t, T->na, T->ne);
  g_rb.na = T->na; g_rb.ne = T->ne;
  g_rb_na = T->na; g_rb_ne = T->ne;      /* terminator positions for the counters' contracts */
}

/* the statement's postconditions of register_init, asserted after the call.
 * RB_POST_GROUP (target define) selects one group of clauses so that the
 * groups are discharged by separate, parallel queries; 0 = all. */
#ifndef RB_POST_GROUP
#define RB_POST_GROUP 0
#endif
#define RB_G(n) (RB_POST_GROUP == 0 || RB_POST_GROUP == (n))
#define RB_INIT_POST(t, r, be) do { \
  rb_model_of(&rb_post, t, g_rb.na, g_rb.ne); \
  if (RB_G(1)) { \
    CHECK(rb_init_verdict_ok(r, g_rb.init), "init: first violated rule and its offender, or success"); \
    CHECK(IMPLIES(g_rb.init.code != REG_INIT_SUCCESS, !RB_INITIALISED(t)), "init: failure leaves the table uninitialised"); \
    CHECK(IMPLIES(g_rb.init.code == REG_INIT_SUCCESS, \
        RB_INITIALISED(t) && ((t)->flags & REG_TF_DURING_INIT) == 0), "init: success marks the table initialised, init phase over"); \
    CHECK(RB_BE(t) == (be), "init: byte order kept"); \
  } \
  if (RB_G(2)) { \
    CHECK(rb_description_same(&rb_pre, &rb_post), "init: description unchanged"); \
    CHECK(IMPLIES(g_rb.init.code == REG_INIT_SUCCESS, rb_model_wf(&rb_post)), \
        "init: success leaves a well-formed table, every area records exactly its run of registers"); \
  } \
  if (RB_G(3)) { \
    CHECK(IMPLIES(g_rb.init.code == REG_INIT_SUCCESS, rb_init_words_ok(&rb_pre, &rb_post, be)), \
        "init: defaults loaded where areas load defaults, every other word zero"); \
  } \
} while (0)

/* C04: register_init on an arbitrary description of the family */
void h_register_init(void)
{
  GHOST_HAVOC();
  struct rb_tab T = rb_description();
  bool be = (T.t->flags & REG_TF_BIG_ENDIAN) != 0;
  rb_take_pre(&T);
  g_rb.init = rb_spec_first_violation(&rb_pre);
  RegisterInit r = register_init(T.t);
  RB_INIT_POST(T.t, r, be);
  VERIF_CANARY();
}


/* ---- initialised tables (C03, C02) ---------------------------------------
 * A table of the family as register_init leaves it: rb_model_wf is ASSUMED
 * (it is the postcondition of C04's targets), everything it does not pin is
 * symbolic: stored words, area flags, write callback present or not, register
 * flags, first/last of areas without registers.  The initialised flag itself
 * is symbolic: without it nothing at all is assumed about the lists' content
 * beyond their terminators. */
static struct rb_tab rb_initialised_table(void)
{
  struct rb_tab T = rb_description_of(true);
  T.t->areas = (AreaHandle)T.na; T.t->entries = T.ne;
  rb_take_pre(&T);
  ASSUME(IMPLIES(RB_INITIALISED(T.t), rb_model_wf(&rb_pre)));
  return T;
}

/* caller buffer: block of RB_NB words; the n words handed to the call are its
 * first n; words behind them must stay what they were.  n == RB_NB is part of
 * the family: there an access behind the n words leaves the object. */
static RegisterAtom *rb_buf, rb_buf0[RB_NB];

static void rb_buffer(void)
{
  rb_buf = malloc(sizeof(RegisterAtom) * RB_NB);
  ASSUME(rb_buf != NULL);
  for (uint32_t i = 0; i < RB_NB; i++) {
    IN(uint16_t, in_bufword)
    rb_buf[i] = in_bufword;
    rb_buf0[i] = in_bufword;
  }
}

/* C03: block read */
void h_register_block_read(void)
{
  GHOST_HAVOC();
  struct rb_tab T = rb_initialised_table();
  IN(uint32_t, in_addr) IN(uint32_t, in_n)
  ASSUME(in_n <= RB_NB);     /* the request may end beyond the address space: it is then never all mapped */
  rb_buffer();
  struct rb_access_expect x = rb_spec_block_read(&rb_pre, in_addr, in_n);
  RegisterAccess r = register_block_read(T.t, in_addr, in_n, rb_buf);
  rb_model_of(&rb_post, T.t, T.na, T.ne);
  CHECK(rb_access_verdict_ok(r, x),
        "block read: succeeds iff all n addresses are mapped (n == 0 always), else reports the first unmapped address; uninitialised table reported as such");
  for (uint32_t i = 0; i < RB_NB; i++) {
    if (i < in_n)
      CHECK(IMPLIES(x.code == REG_ACCESS_SUCCESS, rb_buf[i] == rb_spec_read_word(&rb_pre, in_addr, i)),
            "block read: word i is the word stored at addr+i, zero for areas that are not readable");
    else
      CHECK(rb_buf[i] == rb_buf0[i], "block read: nothing outside the caller's n words is written");
  }
  CHECK(rb_model_same(&rb_pre, &rb_post), "block read: the table is unchanged");
  VERIF_CANARY();
}

/* C03: iteration.  The callback is the stub rb_stub_iter (any result per
 * call, logs its calls). */
static registerCallback rb_pick_callback(void)
{
  return rb_stub_iter;
}

void h_register_foreach_in(void)
{
  GHOST_HAVOC();
  struct rb_tab T = rb_initialised_table();
  IN(uint32_t, in_addr) IN(uint32_t, in_off)
  ASSUME(RB_M64(in_addr) + in_off <= 0xffffffffull);
  IN_MEM(in_arg, 1)
  g_it_table = T.t; g_it_arg = in_arg; g_it_calls = 0; g_it_first = 0; g_it_last_rc = 0; g_it_bad = false; g_it_stopped = false;
  for (uint32_t k = 0; k < RB_STUB_CALLS; k++) {
    IN(int, st_rc)
    st_it_rc[k] = st_rc;
  }
  struct rb_iter_expect x = rb_spec_iter(&rb_pre, in_addr, in_off);
  RegisterAccess r = register_foreach_in(T.t, in_addr, in_off, rb_pick_callback(), in_arg);
  rb_model_of(&rb_post, T.t, T.na, T.ne);
  if (!RB_INITIALISED(T.t)) {
    CHECK(r.code == REG_ACCESS_UNINITIALISED && g_it_calls == 0, "iteration: uninitialised table reported as such, no callback");
  } else {
    /* calls expected: the run of overlapping registers up to and including the first non-zero result */
    uint32_t want = 0;
    bool stopped = false;
    int last_rc = 0;
    for (uint32_t k = 0; k < RB_NE; k++)
      if (k < x.count && !stopped) {
        want = k + 1;
        last_rc = st_it_rc[k];
        stopped = last_rc != 0;
      }
    CHECK(!g_it_bad, "iteration: callback gets the table and the argument, and no call follows a non-zero result");
    CHECK(g_it_calls == want, "iteration: callback called exactly for the registers overlapping the range, up to the first non-zero result");
    for (uint32_t k = 0; k < RB_NE; k++)
      if (k < want && k < g_it_calls)
        CHECK(g_it_handle[k] == x.first + k, "iteration: registers visited in ascending order starting with the first one overlapping the range");
    if (stopped && last_rc < 0)
      CHECK(r.code == REG_ACCESS_FAILURE && r.address == rb_pre.e[x.first + want - 1 < RB_NE ? x.first + want - 1 : 0].address,
            "iteration: negative callback result means failure at that register's address");
    else
      CHECK(r.code == REG_ACCESS_SUCCESS, "iteration: success unless a callback result is negative");
  }
  CHECK(rb_model_same(&rb_pre, &rb_post), "iteration: the table is unchanged");
  VERIF_CANARY();
}

/* C02: block write */
void h_register_block_write(void)
{
  GHOST_HAVOC();
  struct rb_tab T = rb_initialised_table();
  IN(uint32_t, in_addr) IN(uint32_t, in_n)
  ASSUME(in_n <= RB_NB && RB_M64(in_addr) + in_n <= 0xffffffffull);
  rb_buffer();
  struct rb_access_expect x = rb_spec_block_write(&rb_pre, in_addr, in_n, rb_buf0);
  RegisterAccess r = register_block_write(T.t, in_addr, in_n, rb_buf);
  rb_model_of(&rb_post, T.t, T.na, T.ne);
  CHECK(rb_access_verdict_ok(r, x),
        "block write: succeeds iff all words mapped, all touched areas writable, every overlapped register still decodes and satisfies its constraint with the new words overlaid; else names the class and the first address inside the request at which it arises");
  if (x.code == REG_ACCESS_SUCCESS && RB_INITIALISED(T.t))
    CHECK(rb_write_done_ok(&rb_pre, &rb_post, in_addr, in_n, rb_buf0),
          "block write: on success exactly the n words change and exactly the overlapped registers are marked touched");
  else
    CHECK(rb_model_same(&rb_pre, &rb_post), "block write: on failure no word and no flag of the table changes");
  for (uint32_t i = 0; i < RB_NB; i++)
    CHECK(rb_buf[i] == rb_buf0[i], "block write: the caller's buffer is not written");
  VERIF_CANARY();
}
