/* Harnesses for the typed-access part of src/registers/core.c (C01, C05).
 *
 * The table fixture is POINTWISE: `entries` is an arbitrary 32-bit number, the
 * entry array is an exact-size heap block of that many entries with arbitrary
 * content, and only the addressed entry (when idx < entries) is made well
 * formed -- from named scalars, so that a counterexample can be replayed.  A
 * read of t->entry[idx] with idx == entries leaves the block.  An
 * uninitialised table may have a NULL entry pointer.
 */
RegisterAtom *g_cell;
static RegisterAtom rt_elsewhere;   /* a word outside every table object */

/* take the addresses of all function-pointer candidates in code */
static registerWrite rt_pick_write(int sel)
{
  return sel == 0 ? (registerWrite)0 : (sel == 1 ? reg_mem_write : st_area_write);
}

static registerRead rt_pick_read(int sel)
{
  return sel == 1 ? reg_mem_read : st_area_read;
}

static validatorFunction rt_pick_validator(void)
{
  return st_validator;
}

/* one area with exact-size storage of arbitrary content */
#ifdef RT_ASIZE
#define RT_AREA_SIZE(name) IN(uint32_t, name) ASSUME(name <= RT_ASIZE);
#else
#define RT_AREA_SIZE(name) IN(uint32_t, name)
#endif
#define RT_AREA(a, pfx) \
  RT_AREA_SIZE(pfx##_size) IN(int, pfx##_wsel) IN(int, pfx##_rsel) IN(uint16_t, pfx##_aflags) IN(uint32_t, pfx##_base) \
  ASSUME(pfx##_size >= 1u); \
  /* selectors reduced modulo their range (instead of ASSUMEd into it) so that \
   * natively drawn random inputs are rarely rejected */ \
  pfx##_wsel = (int)((unsigned)pfx##_wsel % 3u); pfx##_rsel = 1 + (int)((unsigned)pfx##_rsel % 2u); \
  RT_STORE_BLOCK(pfx##_store, pfx##_size) \
  IN_MEM(pfx##_areamem, sizeof(RegisterArea)) \
  RegisterArea *a = (RegisterArea *)pfx##_areamem; \
  a->read = rt_pick_read(pfx##_rsel); a->write = rt_pick_write(pfx##_wsel); \
  a->flags = pfx##_aflags; a->base = pfx##_base; a->size = pfx##_size; \
  a->mem = pfx##_store;

/* a well-formed register `e` (a local struct) of area a, from named scalars */
#define RT_ENTRY(e, a, pfx) \
  IN(int, pfx##_type) IN(int, pfx##_check) IN(uint32_t, pfx##_offset) IN(uint32_t, pfx##_address) \
  IN(uint64_t, pfx##_lim0) IN(uint64_t, pfx##_lim1) IN(uint64_t, pfx##_default) IN(uint16_t, pfx##_eflags) \
  pfx##_type = (int)((unsigned)pfx##_type % 8u); pfx##_check = (int)((unsigned)pfx##_check % 6u); \
  ASSUME(SPEC_REG_TYPE_OK(pfx##_type) && SPEC_REGV_TYPE_OK(pfx##_check)); \
  ASSUME(pfx##_offset <= (a)->size && SPEC_REG_WORDS(pfx##_type) <= (a)->size - pfx##_offset); \
  RegisterEntry e; \
  e.type = (RegisterType)pfx##_type; e.default_value.u64 = pfx##_default; \
  e.address = pfx##_address; e.area = (a); e.offset = pfx##_offset; \
  e.check.type = (RegisterValidatorType)pfx##_check; \
  e.check.arg.range.min.u64 = pfx##_lim0; e.check.arg.range.max.u64 = pfx##_lim1; \
  if (pfx##_check == REGV_TYPE_CALLBACK) e.check.arg.cb = rt_pick_validator(); \
  e.name = (char *)0; e.flags = pfx##_eflags; e.user = (void *)0;

/* exact-size storage of n words with arbitrary content (typed: word access
 * stays word access in the verifier) */
#if VERIF_IS_NATIVE
#define RT_STORE_BLOCK(name, n) \
  RegisterAtom *name = (RegisterAtom *)verif_alloc_exact(#name, (size_t)(n) * sizeof(RegisterAtom));
#else
#define RT_STORE_BLOCK(name, n) \
  RegisterAtom *name = malloc(sizeof(RegisterAtom) * (size_t)(n)); __CPROVER_assume(name != NULL);
#endif

/* exact-size block of n entries with arbitrary content */
#if VERIF_IS_NATIVE
#define RT_ENTRY_BLOCK(name, n) \
  RegisterEntry *name = (RegisterEntry *)verif_alloc_exact(#name, (size_t)(n) * sizeof(RegisterEntry));
#else
#define RT_ENTRY_BLOCK(name, n) \
  RegisterEntry *name = malloc(sizeof(RegisterEntry) * (size_t)(n)); __CPROVER_assume(name != NULL);
#endif

/* table t with arbitrary flags/entries; entry in_idx (if any) lives in area a */
#define RT_TABLE() \
  GHOST_HAVOC(); \
  IN(uint16_t, in_flags) IN(uint32_t, in_entries) IN(uint32_t, in_idx) IN(uint16_t, in_areas) \
  IN(uint8_t, in_wr_verdict) IN(uint8_t, in_rd_verdict) IN(uint32_t, in_wr_address) IN(uint32_t, in_rd_address) \
  st_wr_verdict = in_wr_verdict; st_rd_verdict = in_rd_verdict; \
  st_wr_address = in_wr_address; st_rd_address = in_rd_address; \
  RT_NATIVE_SEED() \
  RT_AREA(a, in_a) \
  RT_ENTRIES_BLOCK() \
  RegisterTable tab; RegisterTable *t = &tab; \
  t->flags = in_flags; t->areas = in_areas; t->area = a; t->entries = in_entries; \
  t->entry = in_entry_first; \
  if ((in_flags & REG_TF_INITIALISED) == 0) { IN(int, in_entry_null) if (in_entry_null) t->entry = (RegisterEntry *)0; } \
  else if (in_idx < in_entries) { RT_ENTRY(ent, a, in_e) t->entry[in_idx] = ent; } \
  g_cell = (g_k < a->size) ? &a->mem[g_k] : &rt_elsewhere;

/* The entry array: a block of exactly in_entries entries.  Default: any 32-bit
 * count.  With RT_EMAX the count is capped (the block stays exact-size): the
 * solver then no longer has to reason about idx * sizeof(RegisterEntry) for
 * 32-bit idx, which dominated the run time. */
#ifdef RT_EMAX
#define RT_ENTRIES_BLOCK() \
  ASSUME(in_entries <= RT_EMAX); \
  RT_ENTRY_BLOCK(in_entry_block, in_entries) \
  RegisterEntry *in_entry_first = in_entry_block;
#else
#define RT_ENTRIES_BLOCK() \
  RT_ENTRY_BLOCK(in_entry_block, in_entries) \
  RegisterEntry *in_entry_first = in_entry_block;
#endif

#if VERIF_IS_NATIVE
#define RT_NATIVE_SEED() { IN(uint64_t, in_cb_seed) st_cb_seed = in_cb_seed; }
#else
#define RT_NATIVE_SEED()
#endif

#define RT_VALUE(v) \
  IN(int, in_vtype) IN(uint64_t, in_vbits) \
  RegisterValue v; v.type = (RegisterType)in_vtype; v.value.u64 = in_vbits;

/* ---- serialisers / deserialisers --------------------------------------- */

#define H_RDS_SER(fn, TY) \
void h_##fn(void) \
{ \
  RT_VALUE(v) IN(_Bool, in_be) \
  IN_MEM(in_r, SPEC_REG_WORDS(TY) * sizeof(RegisterAtom)) \
  fn(v, (RegisterAtom *)in_r, in_be); \
  VERIF_CANARY(); \
}

#define H_RDS_DES(fn, TY) \
void h_##fn(void) \
{ \
  IN(int, in_vtype) IN(uint64_t, in_vbits) IN(_Bool, in_be) \
  IN_MEM(in_r, SPEC_REG_WORDS(TY) * sizeof(RegisterAtom)) \
  IN_MEM(in_vmem, sizeof(RegisterValue)) \
  RegisterValue *v = (RegisterValue *)in_vmem; \
  v->type = (RegisterType)in_vtype; v->value.u64 = in_vbits; \
  fn((const RegisterAtom *)in_r, v, in_be); \
  VERIF_CANARY(); \
}

H_RDS_SER(rds_u16_ser, REG_TYPE_UINT16)
H_RDS_SER(rds_u32_ser, REG_TYPE_UINT32)
H_RDS_SER(rds_u64_ser, REG_TYPE_UINT64)
H_RDS_SER(rds_s16_ser, REG_TYPE_SINT16)
H_RDS_SER(rds_s32_ser, REG_TYPE_SINT32)
H_RDS_SER(rds_s64_ser, REG_TYPE_SINT64)
H_RDS_SER(rds_f32_ser, REG_TYPE_FLOAT32)
H_RDS_SER(rds_f64_ser, REG_TYPE_FLOAT64)
H_RDS_DES(rds_u16_des, REG_TYPE_UINT16)
H_RDS_DES(rds_u32_des, REG_TYPE_UINT32)
H_RDS_DES(rds_u64_des, REG_TYPE_UINT64)
H_RDS_DES(rds_s16_des, REG_TYPE_SINT16)
H_RDS_DES(rds_s32_des, REG_TYPE_SINT32)
H_RDS_DES(rds_s64_des, REG_TYPE_SINT64)
H_RDS_DES(rds_f32_des, REG_TYPE_FLOAT32)
H_RDS_DES(rds_f64_des, REG_TYPE_FLOAT64)

/* the octet image is what the statement says: spot-check of the spec itself
 * (most significant octet first iff big-endian) and of decode o image == id */
void h_spec_image(void)
{
  IN(uint64_t, in_bits) IN(unsigned, in_n) IN(_Bool, in_be)
  ASSUME(in_n == 1u || in_n == 2u || in_n == 4u);
  uint64_t bits = in_bits & SPEC_MASK(in_n);
  uint16_t w[4];
  w[0] = spec_word(bits, in_n, in_be, 0u);
  w[1] = in_n > 1u ? spec_word(bits, in_n, in_be, 1u) : 0u;
  w[2] = in_n > 2u ? spec_word(bits, in_n, in_be, 2u) : 0u;
  w[3] = in_n > 2u ? spec_word(bits, in_n, in_be, 3u) : 0u;
  const unsigned char *o = (const unsigned char *)w;
  CHECK(IMPLIES(in_be, o[0] == (uint8_t)(bits >> (16u * in_n - 8u))), "big-endian: first octet is the most significant");
  CHECK(IMPLIES(in_be, o[2u * in_n - 1u] == (uint8_t)bits), "big-endian: last octet is the least significant");
  CHECK(IMPLIES(!in_be, o[0] == (uint8_t)bits), "little-endian: first octet is the least significant");
  CHECK(IMPLIES(!in_be, o[2u * in_n - 1u] == (uint8_t)(bits >> (16u * in_n - 8u))), "little-endian: last octet is the most significant");
  CHECK(spec_decode(w, in_n, in_be) == bits, "decode(image(bits)) == bits");
  CHECK(SPEC_WORDS_ARE(w, in_n, bits, in_be), "image words are the image");
  VERIF_CANARY();
}

/* ---- constraint checks --------------------------------------------------- */

void h_rv_check_min_value(void)
{
  RT_VALUE(v) IN(uint64_t, in_limit)
  RegisterValueU lim; lim.u64 = in_limit;
  rv_check_min_value(lim, v);
  VERIF_CANARY();
}

void h_rv_check_max_value(void)
{
  RT_VALUE(v) IN(uint64_t, in_limit)
  RegisterValueU lim; lim.u64 = in_limit;
  rv_check_max_value(lim, v);
  VERIF_CANARY();
}

#define RT_LONE_ENTRY() \
  RT_NATIVE_SEED() \
  IN(uint32_t, in_a_size) ASSUME(in_a_size >= 4u); \
  IN_MEM(in_a_areamem, sizeof(RegisterArea)) \
  RegisterArea *a = (RegisterArea *)in_a_areamem; a->size = in_a_size; \
  RT_ENTRY_BLOCK(e, 1u) \
  { RT_ENTRY(ent, a, in_e) *e = ent; }

void h_rv_check_range(void)
{
  RT_VALUE(v)
  RT_LONE_ENTRY()
  rv_check_range(e, v);
  VERIF_CANARY();
}

void h_rv_validate(void)
{
  RT_VALUE(v) IN(uint16_t, in_flags)
  RT_LONE_ENTRY()
  RegisterTable tab; tab.flags = in_flags; tab.areas = 0; tab.area = a; tab.entries = 1; tab.entry = e;
  rv_validate(&tab, e, v);
  VERIF_CANARY();
}

/* the call-free macro layer of the spec (used by the contracts) says the same
 * as the case-by-case function layer, for all arguments */
void h_spec_layers(void)
{
  RT_VALUE(v) IN(uint64_t, in_limit) IN(_Bool, in_during)
  RT_LONE_ENTRY()
  RegisterValueU lim; lim.u64 = in_limit;
  const RegisterType ty = e->type;
  CHECK(SPEC_BITS(ty, v.value) == spec_bits(ty, v.value), "SPEC_BITS == spec_bits");
  CHECK(SPEC_FLOAT_OK(ty, v.value) == spec_float_ok(ty, spec_bits(ty, v.value)), "SPEC_FLOAT_OK == spec_float_ok");
  CHECK(SPEC_MIN_OK(v.type, v.value, lim) == spec_min_ok(v.type, v.value, lim), "SPEC_MIN_OK == spec_min_ok");
  CHECK(SPEC_MAX_OK(v.type, v.value, lim) == spec_max_ok(v.type, v.value, lim), "SPEC_MAX_OK == spec_max_ok");
  CHECK(SPEC_VALID(e, v.type, v.value, in_during) == spec_valid(e, v, in_during), "SPEC_VALID == spec_valid");
  CHECK(rt_valid(*e, v, in_during) == spec_valid(e, v, in_during), "rt_valid == spec_valid");
  RegisterValueU back = spec_value_of(ty, spec_bits(ty, v.value));
  CHECK(spec_bits(ty, back) == spec_bits(ty, v.value), "value_of(bits(v)) has the bits of v");
  VERIF_CANARY();
}

/* ---- memory-area callbacks ------------------------------------------------ */

void h_reg_mem_write(void)
{
  GHOST_HAVOC();
  RT_AREA(a, in_a)
  IN(uint32_t, in_offset) IN(uint32_t, in_n)
  ASSUME(in_offset <= in_a_size && in_n <= in_a_size - in_offset);
  IN_MEM(in_src, (size_t)in_n * sizeof(RegisterAtom))
  reg_mem_write(a, (const RegisterAtom *)in_src, in_offset, in_n);
  VERIF_CANARY();
}

void h_reg_mem_read(void)
{
  GHOST_HAVOC();
  RT_AREA(a, in_a)
  IN(uint32_t, in_offset) IN(uint32_t, in_n)
  ASSUME(in_offset <= in_a_size && in_n <= in_a_size - in_offset);
  IN_MEM(in_dest, (size_t)in_n * sizeof(RegisterAtom))
  reg_mem_read(a, (RegisterAtom *)in_dest, in_offset, in_n);
  VERIF_CANARY();
}

/* ---- typed set / get -------------------------------------------------------- */

void h_register_set(void)
{
  RT_TABLE()
  RT_VALUE(v)
  register_set(t, in_idx, v);
  VERIF_CANARY();
}

void h_register_set_unsafe(void)
{
  RT_TABLE()
  RT_VALUE(v)
  register_set_unsafe(t, in_idx, v);
  VERIF_CANARY();
}

void h_register_get(void)
{
  RT_TABLE()
  IN(int, in_vtype) IN(uint64_t, in_vbits)
  IN_MEM(in_vmem, sizeof(RegisterValue))
  RegisterValue *v = (RegisterValue *)in_vmem;
  v->type = (RegisterType)in_vtype; v->value.u64 = in_vbits;
  register_get(t, in_idx, v);
  VERIF_CANARY();
}

/* ---- lemmas over the contracts (calls replaced by contracts) ----------------- */

/* L1: a successful typed set followed by a get returns the identical value
 * (bit-identical, also for floats) of the register's type; the get can only
 * fail because the device refuses the read.  One harness per set variant. */
#define H_LEMMA_SET_GET(name, SETFN, CHECKED) \
void name(void) \
{ \
  RT_TABLE() \
  RT_VALUE(v) \
  IN_MEM(in_outmem, sizeof(RegisterValue)) \
  RegisterValue *out = (RegisterValue *)in_outmem; \
  RegisterAccess s = SETFN(t, in_idx, v); \
  uint8_t rd = st_rd_verdict; \
  RegisterAccess g = register_get(t, in_idx, out); \
  if (s.code == REG_ACCESS_SUCCESS) { \
    RegisterType ty = t->entry[in_idx].type; \
    CHECK(IMPLIES(CHECKED, v.type == ty), "a checked set succeeds only with a value of the register's type"); \
    CHECK(IMPLIES(!(t->entry[in_idx].area->read == st_area_read && ST_REFUSES(rd)), g.code == REG_ACCESS_SUCCESS), \
          "get after a successful set succeeds (unless the device refuses the read)"); \
    CHECK(IMPLIES(g.code == REG_ACCESS_SUCCESS, out->type == ty), "get returns the register's type"); \
    CHECK(IMPLIES(g.code == REG_ACCESS_SUCCESS, spec_bits(ty, out->value) == spec_bits(ty, v.value)), \
          "get returns the identical value (bit pattern)"); \
  } \
  VERIF_CANARY(); \
}

H_LEMMA_SET_GET(h_lemma_set_get, register_set, 1)
H_LEMMA_SET_GET(h_lemma_set_unsafe_get, register_set_unsafe, 0)

/* L2: with a correctly typed value the unchecked variant stores exactly what
 * the checked variant stores -- both store the image of the value (two
 * harnesses with one replaced call each; a single harness with both calls in
 * sequence proves the same but takes four times as long) -- and the unchecked
 * variant is refused for a subset of the reasons of the checked one: it still
 * refuses bad handles and non-finite floats. */
void h_lemma_checked_stores(void)
{
  RT_TABLE()
  RT_VALUE(v)
  RegisterAccess s = register_set(t, in_idx, v);
  if (s.code == REG_ACCESS_SUCCESS) {
    CHECK(v.type == t->entry[in_idx].type, "checked: only a value of the register's type is stored");
    CHECK(rt_bits(t, in_idx) == spec_bits(v.type, v.value), "checked: the stored words are the image of the value");
  }
  VERIF_CANARY();
}

void h_lemma_unchecked_stores(void)
{
  RT_TABLE()
  RT_VALUE(v)
  RegisterAccess s = register_set_unsafe(t, in_idx, v);
  if (s.code == REG_ACCESS_SUCCESS && v.type == t->entry[in_idx].type)
    CHECK(rt_bits(t, in_idx) == spec_bits(v.type, v.value),
          "unchecked, correctly typed: the stored words are the image of the value (= what the checked variant stores)");
  CHECK(IMPLIES(RT_INIT(t) && in_idx >= t->entries, s.code == REG_ACCESS_NOENTRY), "unchecked: no such entry");
  CHECK(IMPLIES(RT_ADDRESSED(t, in_idx) && !SPEC_FLOAT_OK(t->entry[in_idx].type, v.value), s.code != REG_ACCESS_SUCCESS),
        "unchecked: non-finite floats refused");
  VERIF_CANARY();
}

/* the unchecked variant is refused for a subset of the reasons of the checked
 * one (a statement about the two contracts; no call) */
void h_lemma_reasons_subset(void)
{
  RT_TABLE()
  RT_VALUE(v)
  unsigned rc = rt_set_reasons(t, in_idx, v, true);
  unsigned ru = rt_set_reasons(t, in_idx, v, false);
  CHECK((ru & ~rc) == 0u, "unchecked: refused only for reasons for which the checked variant is refused too");
  CHECK((rc & ~ru & ~RT_R_RANGE) == 0u, "the variants differ only in the type/constraint check");
  VERIF_CANARY();
}

/* ---- handle bound (plain harness on the real code, no contracts) --------------
 * "a handle that is not a register of the table is reported as 'no such entry',
 * also by the unchecked variant", for every handle >= entries including
 * entries itself (one past the end of the exact-size entry block).  This is
 * part of the contracts of register_set/_unsafe/_get as well; the separate
 * harness exists because an out-of-bounds entry read makes hundreds of
 * obligations of the big targets fail at once (slow to report). */
void h_handle_bound(void)
{
  RT_TABLE()
  RT_VALUE(v) IN(int, in_which)
  IN_MEM(in_outmem, sizeof(RegisterValue))
  ASSUME(RT_INIT(t) && in_idx >= in_entries);
  RegisterAtom before = *g_cell;
  RegisterAccess r;
  if (in_which == 0)
    r = register_set(t, in_idx, v);
  else if (in_which == 1)
    r = register_set_unsafe(t, in_idx, v);
  else
    r = register_get(t, in_idx, (RegisterValue *)in_outmem);
  CHECK(r.code == REG_ACCESS_NOENTRY, "handle >= entries: no such entry");
  CHECK(*g_cell == before, "handle >= entries: storage unchanged");
  VERIF_CANARY();
}

/* ======================= C05 ================================================== */
uint64_t g_old_bits;

/* bit operations: the ghost g_old_bits is COMPUTED here (decode of the words
 * the register holds before the call) */
#define H_BITOP(fn) \
void h_##fn(void) \
{ \
  RT_TABLE() \
  RT_VALUE(v) \
  g_old_bits = RT_ADDRESSED(t, in_idx) ? rt_bits(t, in_idx) : 0u; \
  fn(t, in_idx, v); \
  VERIF_CANARY(); \
}

H_BITOP(register_bit_set)
H_BITOP(register_bit_clear)

void h_reg_entry_sane(void)
{
  RT_TABLE()
  reg_entry_sane(t, in_idx);
  VERIF_CANARY();
}

void h_reg_entry_load_default(void)
{
  RT_TABLE()
  ASSUME(RT_ADDRESSED(t, in_idx));
  reg_entry_load_default(t, in_idx);
  VERIF_CANARY();
}

/* sanitise: a table of 0..RT_SAN_EMAX registers spread over two areas (each
 * memory backed or callback backed, with or without write callback), every
 * type, constraint kind (no always-fail), bound, default, flag word, byte
 * order and -- the point -- ARBITRARY storage content; g_reg is an arbitrary
 * handle, g_cell an arbitrary word of either area or outside both.  The ghosts
 * of spec/registers-sanitise.h are COMPUTED here from the table. */
RegisterHandle g_reg;
RegisterAtom *g_rs_w;
uint16_t *g_rs_fl;
unsigned g_rs_n;
bool g_rs_be, g_rs_old_acc, g_rs_def_acc, g_rs_cell_free, g_rs_all_cf;
uint64_t g_rs_defbits;
uint16_t g_rs_flags0;
static RegisterAtom rt_rs_no_words[4];
static uint16_t rt_rs_no_flags;

#define RT_SAN_ENTRY(i, pfx) \
  if ((i) < in_entries) { \
    IN(_Bool, pfx##_in_b) \
    RegisterArea *ar = pfx##_in_b ? area_b : area_a; \
    RT_ENTRY(ent, ar, pfx) \
    ASSUME(pfx##_check != REGV_TYPE_FAIL); \
    t->entry[i] = ent; \
  }

/* register i (if any) shares no word with register g_reg; is outside g_cell;
 * cannot fail */
#define RT_SAN_H_DISJOINT(i) IMPLIES((i) < t->entries && g_reg < t->entries && (i) != g_reg, rt_disjoint(t, i, g_reg))
#define RT_SAN_H_OUTSIDE(i) IMPLIES((i) < t->entries, rt_cell_outside(t, i, g_cell))
#define RT_SAN_H_CANNOT_FAIL(i) IMPLIES((i) < t->entries, rt_san_cannot_fail(t, i))

#ifdef RT_SAN_FIXED_BLOCKS
/* constant-size blocks: areas of exactly RT_ASIZE words, entry block of exactly
 * RT_SAN_EMAX entries (the family contains the exact-fit cases: a register
 * ending at the last word, a table of RT_SAN_EMAX registers) */
#undef RT_AREA_SIZE
#define RT_AREA_SIZE(name) uint32_t name = RT_ASIZE;
#define RT_SAN_ENTRY_BLOCK() RT_ENTRY_BLOCK(in_entry_block, RT_SAN_EMAX)
#else
#define RT_SAN_ENTRY_BLOCK() RT_ENTRY_BLOCK(in_entry_block, in_entries)
#endif

#if RT_SAN_EMAX <= 2
#define RT_SAN_ENTRIES() RT_SAN_ENTRY(0u, in_e0) RT_SAN_ENTRY(1u, in_e1)
#elif RT_SAN_EMAX <= 4
#define RT_SAN_ENTRIES() RT_SAN_ENTRY(0u, in_e0) RT_SAN_ENTRY(1u, in_e1) RT_SAN_ENTRY(2u, in_e2) RT_SAN_ENTRY(3u, in_e3)
#elif RT_SAN_EMAX <= 8
#define RT_SAN_ENTRIES() RT_SAN_ENTRY(0u, in_e0) RT_SAN_ENTRY(1u, in_e1) RT_SAN_ENTRY(2u, in_e2) RT_SAN_ENTRY(3u, in_e3) \
  RT_SAN_ENTRY(4u, in_e4) RT_SAN_ENTRY(5u, in_e5) RT_SAN_ENTRY(6u, in_e6) RT_SAN_ENTRY(7u, in_e7)
#else
#define RT_SAN_ENTRIES() RT_SAN_ENTRY(0u, in_e0) RT_SAN_ENTRY(1u, in_e1) RT_SAN_ENTRY(2u, in_e2) RT_SAN_ENTRY(3u, in_e3) \
  RT_SAN_ENTRY(4u, in_e4) RT_SAN_ENTRY(5u, in_e5) RT_SAN_ENTRY(6u, in_e6) RT_SAN_ENTRY(7u, in_e7) \
  RT_SAN_ENTRY(8u, in_e8) RT_SAN_ENTRY(9u, in_e9) RT_SAN_ENTRY(10u, in_e10) RT_SAN_ENTRY(11u, in_e11) \
  RT_SAN_ENTRY(12u, in_e12) RT_SAN_ENTRY(13u, in_e13) RT_SAN_ENTRY(14u, in_e14) RT_SAN_ENTRY(15u, in_e15)
#endif

/* the table: t, area_a, area_b, g_reg, g_cell; registers filled in when the
 * table is initialised */
#define RT_SAN_TABLE() \
  GHOST_HAVOC(); \
  IN(uint16_t, in_flags) IN(uint32_t, in_entries) IN(uint16_t, in_areas) IN(uint32_t, in_reg) \
  IN(uint8_t, in_wr_verdict) IN(uint8_t, in_rd_verdict) IN(uint32_t, in_wr_address) IN(uint32_t, in_rd_address) \
  IN(_Bool, in_cell_in_b) IN(_Bool, in_cell_free) IN(_Bool, in_all_cf) \
  st_wr_verdict = in_wr_verdict; st_rd_verdict = in_rd_verdict; \
  st_wr_address = in_wr_address; st_rd_address = in_rd_address; \
  RT_NATIVE_SEED() \
  ASSUME(in_entries <= RT_SAN_EMAX); \
  RegisterArea *area_a, *area_b; \
  { RT_AREA(a, in_a) area_a = a; } \
  { RT_AREA(a, in_b) area_b = a; } \
  RT_SAN_ENTRY_BLOCK() \
  RegisterTable tab; RegisterTable *t = &tab; \
  t->flags = in_flags; t->areas = in_areas; t->area = area_a; t->entries = in_entries; t->entry = in_entry_block; \
  g_reg = in_reg; \
  g_cell = in_cell_in_b ? ((g_k < area_b->size) ? &area_b->mem[g_k] : &rt_elsewhere) \
                        : ((g_k < area_a->size) ? &area_a->mem[g_k] : &rt_elsewhere); \
  if ((in_flags & REG_TF_INITIALISED) != 0) { \
    RT_SAN_ENTRIES() \
  } else { \
    IN(int, in_entry_null) if (in_entry_null) t->entry = (RegisterEntry *)0; \
  }

void h_register_sanitise(void)
{
  RT_SAN_TABLE()
  g_rs_w = rt_rs_no_words; g_rs_fl = &rt_rs_no_flags; g_rs_n = 0u; g_rs_be = RT_BE(t);
  g_rs_flags0 = 0u; g_old_bits = 0u; g_rs_defbits = 0u; g_rs_old_acc = false; g_rs_def_acc = false;
  g_rs_cell_free = false; g_rs_all_cf = false;
  if (RT_INIT(t)) {
    /* table well-formedness (C04): no register shares a word with g_reg */
    ASSUME(RT_SAN_ALL(RT_SAN_H_DISJOINT));
    if (g_reg < t->entries) {
      const RegisterEntry e = t->entry[g_reg];
      g_rs_w = e.area->mem + e.offset;
      g_rs_fl = &t->entry[g_reg].flags;
      g_rs_n = SPEC_REG_WORDS(e.type);
      g_rs_flags0 = e.flags;
      g_old_bits = rt_bits(t, g_reg);
      g_rs_defbits = SPEC_BITS(e.type, e.default_value);
      g_rs_old_acc = RT_ACC(t, g_reg, g_old_bits);
      g_rs_def_acc = RT_ACC(t, g_reg, g_rs_defbits);
    }
    g_rs_cell_free = in_cell_free && RT_SAN_ALL(RT_SAN_H_OUTSIDE);
    g_rs_all_cf = in_all_cf && RT_SAN_ALL(RT_SAN_H_CANNOT_FAIL);
  }
  register_sanitise(t);
  VERIF_CANARY();
}

/* ---- sanitise, bounded (tier B): the REAL register_sanitise with everything
 * below it (reg_entry_sane, reg_entry_load_default, register_get,
 * register_set, deserialisers, serialisers, validators, area callbacks) on a
 * table of at most RT_SAN_EMAX registers; the statement is asserted here,
 * for EVERY register of the table, after the call. */
#define RT_SANB_PAIR(i, j) IMPLIES((i) < t->entries && (j) < t->entries, rt_disjoint(t, i, j))
#if RT_SAN_EMAX <= 2
#define RT_SANB_PAIRS() (RT_SANB_PAIR(0u, 1u))
#else
#define RT_SANB_PAIRS() (RT_SANB_PAIR(0u, 1u) && RT_SANB_PAIR(0u, 2u) && RT_SANB_PAIR(0u, 3u) \
  && RT_SANB_PAIR(1u, 2u) && RT_SANB_PAIR(1u, 3u) && RT_SANB_PAIR(2u, 3u))
#endif

#define RT_SANB_BEFORE(k) \
  const bool has##k = RT_INIT(t) && (k) < t->entries; \
  const uint64_t ob##k = has##k ? rt_bits(t, k) : 0u; \
  const uint16_t of##k = has##k ? t->entry[k].flags : 0u; \
  const bool oa##k = has##k && rt_bits_acceptable(t, k, ob##k);

#define RT_SANB_AFTER(k) \
  if (has##k && rv.code == REG_ACCESS_SUCCESS) { \
    const uint64_t nb = rt_bits(t, k); \
    CHECK(IMPLIES(oa##k, nb == ob##k), "sanitise: a register whose content decodes and meets its constraint keeps its value"); \
    CHECK(IMPLIES(!oa##k, rt_holds(t, k, rt_default_bits(t, k))), "sanitise: a register whose content does not decode or violates its constraint is reset to its default"); \
    CHECK((t->entry[k].flags & REG_EF_TOUCHED) == 0, "sanitise: touched mark cleared"); \
    CHECK((t->entry[k].flags | REG_EF_TOUCHED) == (of##k | REG_EF_TOUCHED), "sanitise: no other flag changed"); \
    CHECK(rt_bits_acceptable(t, k, nb), "sanitise: the invariant is re-established (content decodes and meets the constraint)"); \
  }

void h_sanitise_bounded(void)
{
  RT_SAN_TABLE()
  if (RT_INIT(t))
    ASSUME(RT_SANB_PAIRS());   /* table well-formedness (C04) */
  const bool cell_free = RT_INIT(t) && RT_SAN_ALL(RT_SAN_H_OUTSIDE);
  const bool all_cf = RT_INIT(t) && RT_SAN_ALL(RT_SAN_H_CANNOT_FAIL);
  const RegisterAtom cell0 = *g_cell;
  const RegisterTable tab0 = tab;
  RT_SANB_BEFORE(0u) RT_SANB_BEFORE(1u)
#if RT_SAN_EMAX > 2
  RT_SANB_BEFORE(2u) RT_SANB_BEFORE(3u)
#endif
  RegisterAccess rv = register_sanitise(t);
  CHECK(IMPLIES(!RT_INIT(t), rv.code == REG_ACCESS_UNINITIALISED && *g_cell == cell0), "sanitise: uninitialised table refused, nothing written");
  RT_SANB_AFTER(0u) RT_SANB_AFTER(1u)
#if RT_SAN_EMAX > 2
  RT_SANB_AFTER(2u) RT_SANB_AFTER(3u)
#endif
  CHECK(IMPLIES(all_cf, rv.code == REG_ACCESS_SUCCESS), "sanitise: fails only where a default cannot be loaded or a device refuses");
  CHECK(IMPLIES(cell_free, *g_cell == cell0), "sanitise: words that belong to no register are never touched");
  CHECK(tab.flags == tab0.flags && tab.entries == tab0.entries && tab.entry == tab0.entry, "sanitise: table header unchanged");
  VERIF_CANARY();
}
