/* Harnesses for the ring buffer (C19).  Every representation state with
 * 1 <= capacity <= RB_CMAX, head < capacity, tail <= capacity is admitted
 * (this is exactly the reachable set, see contracts/ring-buffer.h); the
 * storage is an exact-size heap block, so a touch outside the capacity fails
 * a pointer check (proof) or ASan (replay).
 *
 * The harness bodies are written once (harness/ring-buffer.tpl.c) and
 * instantiated for octet_ring (uint8_t) and word_ring (uint32_t). */
#ifndef RB_CMAX
#define RB_CMAX 4096
#endif
/* capacity bound of the init target, whose zeroing loop sits inside a macro
 * and can only be unwound (tier B) */
#ifndef RB_INIT_CMAX
#define RB_INIT_CMAX 64
#endif

/* pasted in one step: the intermediate token <inst>_<fn> must not appear,
 * the native replay driver #defines it to its checking wrapper */
#define RB_CAT3_(a, b, c) a##b##c
#define RB_CAT3(a, b, c) RB_CAT3_(a, b, c)
#define RB_H(s) RB_CAT3(h_, RB_N, s)
/* IN() pastes the type name: expand RB_T first */
#define RB_IN(type, name) IN(type, name)

#define RB_STATE() \
  GHOST_HAVOC(); \
  IN(size_t, in_cap) IN(size_t, in_head) IN(size_t, in_tail) IN(_Bool, in_ovr) \
  ASSUME(in_cap >= 1 && in_cap <= RB_CMAX && in_head < in_cap && in_tail <= in_cap); \
  RB_MEM(in_data, in_cap) \
  RB_N r = { (RB_T *)in_data, in_head, in_tail, in_cap, in_ovr };

/* the division-free view macros agree with the modular definition of the
 * property statement / DESIGN: len = distance from tail forward to head (a
 * full turn when they coincide), Q[k] sits at (tail + k) mod capacity */
void h_rb_view_mod(void)
{
  IN(size_t, in_cap) IN(size_t, in_head) IN(size_t, in_tail) IN(size_t, in_k)
  ASSUME(in_cap >= 1 && in_cap <= RB_CMAX && in_head < in_cap && in_tail <= in_cap && in_k <= in_cap);
  CHECK(IMPLIES(in_tail < in_cap, RB_SLOT_(in_tail, in_k, in_cap) == (in_tail + in_k) % in_cap), "slot(tail, k) == (tail + k) mod capacity");
  CHECK(IMPLIES(in_tail < in_cap, RB_LEN_(in_head, in_tail, in_cap) == (in_head + (in_cap - in_tail) - 1) % in_cap + 1),
        "len == forward distance from tail to head, a full turn when equal");
  CHECK(IMPLIES(in_tail == in_cap, RB_LEN_(in_head, in_tail, in_cap) == 0), "tail == capacity encodes the empty queue");
  CHECK(RB_LEN_(in_head, in_tail, in_cap) <= in_cap, "len <= capacity");
  /* the write slot is the slot behind the newest element */
  CHECK(IMPLIES(in_tail < in_cap, RB_SLOT_(in_tail, RB_LEN_(in_head, in_tail, in_cap), in_cap) == in_head),
        "slot(tail, len) == head");
  VERIF_CANARY();
}

void h_rb_iter_done(void)
{
  IN(size_t, in_steps) IN(size_t, in_index) IN(size_t, in_size) IN(int, in_mode)
  rb_iter it = { in_steps, in_index, in_size, (rb_iter_mode)in_mode };
  rb_iter_done(&it);
  VERIF_CANARY();
}

void h_rb_iter_advance(void)
{
  IN(size_t, in_steps) IN(size_t, in_index) IN(size_t, in_size) IN(int, in_mode)
  ASSUME(in_mode == RING_BUFFER_ITER_OLD_TO_NEW || in_mode == RING_BUFFER_ITER_NEW_TO_OLD);
  ASSUME(in_size >= 1 && in_index < in_size && in_steps > 0);
  rb_iter it = { in_steps, in_index, in_size, (rb_iter_mode)in_mode };
  rb_iter_advance(&it);
  VERIF_CANARY();
}

/* storage block of exactly n elements, arbitrary content */
#define RB_N octet_ring
#define RB_T uint8_t
#define RB_MEM(name, n) IN_MEM(name, n)
#include "harness/ring-buffer.tpl.c"
#undef RB_N
#undef RB_T
#undef RB_MEM

#ifdef RB_HAVE_WORD_RING
#define RB_N word_ring
#define RB_T uint32_t
/* typed block (an octet-typed block written through uint32_t lvalues is an
 * order of magnitude slower in the back end) */
#if VERIF_IS_NATIVE
#define RB_MEM(name, n) uint32_t *name = (uint32_t *)verif_alloc_exact(#name, (n) * sizeof(uint32_t));
#else
#define RB_MEM(name, n) uint32_t *name = malloc((n) * sizeof(uint32_t)); __CPROVER_assume(name != NULL);
#endif
#include "harness/ring-buffer.tpl.c"
#undef RB_N
#undef RB_T
#undef RB_MEM
#endif
