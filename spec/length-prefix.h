/* Reference definition of ufw's length-prefix framing, written from the
 * statement of property C13 (not from the code):
 *
 *   a frame is  prefix(kind, L) ++ payload[0..L)
 *
 *   kind            prefix                                  largest L
 *   LENP_VARIABLE   minimal base-128 varint of L (C14)      SSIZE_MAX
 *   LENP_OCTET      one octet                               255
 *   LENP_LE_16BIT   two octets, least significant first     65535
 *   LENP_BE_16BIT   two octets, most significant first      65535
 *   LENP_LE_32BIT   four octets, least significant first    2^32 - 1
 *   LENP_BE_32BIT   four octets, most significant first     2^32 - 1
 *
 * (varint kind: the interface reports octet counts as ssize_t, so SSIZE_MAX
 * is the largest length that can be framed at all; the encoders that report
 * the frame's total additionally need  L + prefix length <= SSIZE_MAX.)
 *
 * Decoding is stated as the inverse *relation*: the octets s[0..m) of a stream
 * are "a prefix of value v" -- for the fixed kinds m is the kind's width and
 * s is the image of v; for the varint kind s[m-1] is the first octet without
 * continuation bit, m <= 10, and v is the sum of the 7-bit groups (mod 2^64).
 * lemma_prefix_unique (harness) shows that a stream holding prefix(kind, L) is
 * a prefix of value L and of no other value / length.
 *
 * Everything is loop-free plain C (native replay evaluates the same text).
 */
#ifndef SPEC_LENGTH_PREFIX_H
#define SPEC_LENGTH_PREFIX_H
#include <stddef.h>
#include <stdint.h>
#include <limits.h>
#include <ufw/compat/ssize-t.h>
#include <ufw/length-prefix.h>
#include "spec/varint.h"

#define LP_PREFIX_ROOM 10u /* octets of a prefix object's prefix_ member */

#define LP_KIND_OK(k) ((k) == LENP_VARIABLE || (k) == LENP_OCTET || (k) == LENP_LE_16BIT \
  || (k) == LENP_LE_32BIT || (k) == LENP_BE_16BIT || (k) == LENP_BE_32BIT)
#define LP_IS16(k) ((k) == LENP_LE_16BIT || (k) == LENP_BE_16BIT)
#define LP_IS32(k) ((k) == LENP_LE_32BIT || (k) == LENP_BE_32BIT)

/* width of a fixed kind's prefix, 0 for the varint kind */
#define LP_WIDTH(k) ((k) == LENP_OCTET ? 1u : LP_IS16(k) ? 2u : LP_IS32(k) ? 4u : 0u)
/* largest payload length of the kind */
#define LP_MAX(k) ((k) == LENP_OCTET ? UINT64_C(255) : LP_IS16(k) ? UINT64_C(65535) \
  : LP_IS32(k) ? UINT64_C(4294967295) : (uint64_t)SSIZE_MAX)
/* the length can be framed with this kind: n <= SSIZE_MAX and n <= LP_MAX(k)
 * (written without ?: so that it can stand in an assigns clause) */
#define LP_FITS(k, n) ((uint64_t)(n) <= (uint64_t)SSIZE_MAX \
  && !((k) == LENP_OCTET && (uint64_t)(n) > UINT64_C(255)) \
  && !(LP_IS16(k) && (uint64_t)(n) > UINT64_C(65535)) \
  && !(LP_IS32(k) && (uint64_t)(n) > UINT64_C(4294967295)))

/* number of octets of prefix(kind, n) */
static inline size_t lp_spec_len(LengthPrefixKind k, uint64_t n)
{
  return k == LENP_VARIABLE ? spec_varint_len(n) : (size_t)LP_WIDTH(k);
}

/* ... and the frame's total can be reported as ssize_t */
#define LP_FITS_TOTAL(k, n) (LP_FITS(k, n) && (uint64_t)(n) <= (uint64_t)SSIZE_MAX - lp_spec_len((k), (n)))

/* octet i (i < lp_spec_len) of prefix(kind, n); total (clamped) */
static inline unsigned char lp_spec_octet(LengthPrefixKind k, uint64_t n, size_t i)
{
  switch (k) {
  case LENP_OCTET:
    return (unsigned char)(n & 0xffu);
  case LENP_LE_16BIT:
    return (unsigned char)((n >> (8u * (i < 2u ? i : 1u))) & 0xffu);
  case LENP_BE_16BIT:
    return (unsigned char)((n >> (8u * (1u - (i < 2u ? i : 1u)))) & 0xffu);
  case LENP_LE_32BIT:
    return (unsigned char)((n >> (8u * (i < 4u ? i : 3u))) & 0xffu);
  case LENP_BE_32BIT:
    return (unsigned char)((n >> (8u * (3u - (i < 4u ? i : 3u)))) & 0xffu);
  default:
    return spec_varint_octet(n, i);
  }
}

/* 7-bit group i of a varint, as far as it lies inside 64 bits */
#define LP_GROUP_MASK(i) ((i) < 9u ? 0x7fu : 0x01u)

/* m octets can be a prefix of value v at all */
static inline int lp_dec_shape(LengthPrefixKind k, uint64_t v, size_t m)
{
  if (k != LENP_VARIABLE)
    return m == (size_t)LP_WIDTH(k) && v <= LP_MAX(k);
  return m >= 1u && m <= SPEC_VARINT_MAX64 && (m >= SPEC_VARINT_MAX64 || (v >> (7u * (m < 10u ? m : 9u))) == 0u);
}

/* octet `o` can be octet i (i < m) of an m-octet prefix of value v */
static inline int lp_dec_octet(LengthPrefixKind k, uint64_t v, size_t m, size_t i, unsigned char o)
{
  if (k != LENP_VARIABLE)
    return o == lp_spec_octet(k, v, i);
  {
    const size_t ii = i < 10u ? i : 9u;
    return ((o & 0x80u) != 0u) == (ii + 1u < m)
        && (unsigned)((v >> (7u * ii)) & 0x7fu) == (unsigned)(o & LP_GROUP_MASK(ii));
  }
}

#endif
