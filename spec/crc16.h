/* Reference definition of CRC-16/ARC, written from the parameters in the
 * property statement: polynomial 0x8005 reflected (0xA001), no final xor, bit
 * at a time.  Unrolled by macro so that it is loop-free in proofs. */
#ifndef SPEC_CRC16_H
#define SPEC_CRC16_H
#include <stdint.h>
#define SPEC_CRC16_BIT(c) ((uint16_t)(((c) >> 1) ^ (((c) & 1u) ? 0xA001u : 0u)))
static inline uint16_t spec_crc16_step(uint16_t crc, uint8_t octet)
{
  uint16_t c = (uint16_t)(crc ^ octet);
  c = SPEC_CRC16_BIT(c); c = SPEC_CRC16_BIT(c); c = SPEC_CRC16_BIT(c); c = SPEC_CRC16_BIT(c);
  c = SPEC_CRC16_BIT(c); c = SPEC_CRC16_BIT(c); c = SPEC_CRC16_BIT(c); c = SPEC_CRC16_BIT(c);
  return c;
}

/* The same function as one expression (quantifier bodies must be call-free):
 * CRC is linear over GF(2), so the step is (crc >> 8) xor the contributions of
 * the set bits of the low octet.  Target `spec_step_linear` proves
 * SPEC_CRC16_STEP == spec_crc16_step for all 2^24 arguments on every run. */
#define SPEC_CRC16_X(crc, o) ((unsigned)(((crc) ^ (o)) & 0xffu))
#define SPEC_CRC16_STEP(crc, o) ((uint16_t)(((unsigned)(crc) >> 8) \
  ^ ((SPEC_CRC16_X(crc, o) & 0x01u) ? 0xc0c1u : 0u) ^ ((SPEC_CRC16_X(crc, o) & 0x02u) ? 0xc181u : 0u) \
  ^ ((SPEC_CRC16_X(crc, o) & 0x04u) ? 0xc301u : 0u) ^ ((SPEC_CRC16_X(crc, o) & 0x08u) ? 0xc601u : 0u) \
  ^ ((SPEC_CRC16_X(crc, o) & 0x10u) ? 0xcc01u : 0u) ^ ((SPEC_CRC16_X(crc, o) & 0x20u) ? 0xd801u : 0u) \
  ^ ((SPEC_CRC16_X(crc, o) & 0x40u) ? 0xf001u : 0u) ^ ((SPEC_CRC16_X(crc, o) & 0x80u) ? 0xa001u : 0u)))
#endif
