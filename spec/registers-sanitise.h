/* spec/registers-sanitise.h -- ghost state and the call-free clauses of the
 * loop contract of register_sanitise (contracts/registers-sanitise.loops,
 * property C05, sanitise part).
 *
 * This header is included into EVERY staged copy of src/registers/core.c (the
 * engine inserts the `%` prelude of a .loops file into each unit that stages
 * the source), so it only declares: extern ghosts and macros.  The ghosts are
 * defined in harness/registers-typed.c.
 *
 * The ghosts name ONE arbitrary register g_reg of the table (a fact stated at
 * g_reg is the universally quantified fact) by plain values and two
 * pointers, so that the loop invariant does not walk t->entry[g_reg].area->mem
 * (loop invariants must be call-free, and every textual dereference of such a
 * path costs symbolic-execution time):
 *
 *   g_rs_w      the first storage word of register g_reg
 *   g_rs_fl     the flag word of entry g_reg
 *   g_rs_n      its width in words (1, 2, 4)
 *   g_rs_be     the table is big-endian
 *   g_old_bits  the pattern the register held when sanitise was called
 *   g_rs_flags0 its flag word when sanitise was called
 *   g_rs_defbits the pattern of its default value
 *   g_rs_old_acc the content at entry was acceptable (decodes, meets the constraint)
 *   g_rs_def_acc the default is acceptable
 *   g_cell      an arbitrary valid word; g_rs_cell_free: it belongs to no register
 *
 * All of them are bound to the table in the `requires` of register_sanitise
 * (contracts/registers-typed.h); none is assigned by the code.
 */
#ifndef SPEC_REGISTERS_SANITISE_H
#define SPEC_REGISTERS_SANITISE_H
#include "spec/registers.h"

extern RegisterHandle g_reg;
extern RegisterAtom *g_cell;
extern RegisterAtom *g_rs_w;
extern uint16_t *g_rs_fl;
extern unsigned g_rs_n;
extern bool g_rs_be, g_rs_old_acc, g_rs_def_acc, g_rs_cell_free;
extern uint64_t g_old_bits, g_rs_defbits;
extern uint16_t g_rs_flags0;
extern uint8_t st_rd_verdict, st_wr_verdict;

/* register g_reg has been dealt with: acceptable content kept, anything else
 * replaced by the (acceptable) default; touched mark cleared, no other flag
 * changed */
#define RS_DONE \
  (((g_rs_old_acc && SPEC_DECODE(g_rs_w, g_rs_n, g_rs_be) == g_old_bits) \
    || (!g_rs_old_acc && g_rs_def_acc && SPEC_WORDS_ARE(g_rs_w, g_rs_n, g_rs_defbits, g_rs_be))) \
   && *g_rs_fl == (uint16_t)(g_rs_flags0 & ~REG_EF_TOUCHED))

/* register g_reg has not been reached: words and flags as at entry */
#define RS_PENDING \
  (SPEC_DECODE(g_rs_w, g_rs_n, g_rs_be) == g_old_bits && *g_rs_fl == g_rs_flags0)

/* what one pass of the loop may write: the flag word and the storage words of
 * register q (by width: the size of an assigns target is a constant) */
#define RS_HAS(t, q) ((((t)->flags & REG_TF_INITIALISED) != 0) && (q) < (t)->entries)
#define RS_TGT(t, q) \
    RS_HAS(t, q): (t)->entry[q].flags; \
    RS_HAS(t, q) && SPEC_REG_W1((t)->entry[q].type): \
        __CPROVER_object_upto((t)->entry[q].area->mem + (t)->entry[q].offset, 1u * sizeof(RegisterAtom)); \
    RS_HAS(t, q) && SPEC_REG_W2((t)->entry[q].type): \
        __CPROVER_object_upto((t)->entry[q].area->mem + (t)->entry[q].offset, 2u * sizeof(RegisterAtom)); \
    RS_HAS(t, q) && SPEC_REG_W4((t)->entry[q].type): \
        __CPROVER_object_upto((t)->entry[q].area->mem + (t)->entry[q].offset, 4u * sizeof(RegisterAtom))

/* the table is capped at RT_SAN_EMAX registers (tier A-len): assigns targets
 * cannot be quantified */
#ifndef RT_SAN_EMAX
#define RT_SAN_EMAX 4
#endif
#if RT_SAN_EMAX <= 2
#define RS_ALL_TGT(t) RS_TGT(t, 0u); RS_TGT(t, 1u)
#elif RT_SAN_EMAX <= 4
#define RS_ALL_TGT(t) RS_TGT(t, 0u); RS_TGT(t, 1u); RS_TGT(t, 2u); RS_TGT(t, 3u)
#elif RT_SAN_EMAX <= 8
#define RS_ALL_TGT(t) RS_TGT(t, 0u); RS_TGT(t, 1u); RS_TGT(t, 2u); RS_TGT(t, 3u); \
    RS_TGT(t, 4u); RS_TGT(t, 5u); RS_TGT(t, 6u); RS_TGT(t, 7u)
#else
#define RS_ALL_TGT(t) RS_TGT(t, 0u); RS_TGT(t, 1u); RS_TGT(t, 2u); RS_TGT(t, 3u); \
    RS_TGT(t, 4u); RS_TGT(t, 5u); RS_TGT(t, 6u); RS_TGT(t, 7u); \
    RS_TGT(t, 8u); RS_TGT(t, 9u); RS_TGT(t, 10u); RS_TGT(t, 11u); \
    RS_TGT(t, 12u); RS_TGT(t, 13u); RS_TGT(t, 14u); RS_TGT(t, 15u)
#endif

#endif /* SPEC_REGISTERS_SANITISE_H */
