/* Reference definition of SLIP framing, written from RFC 1055 (and its
 * start-of-frame extension named in the property statement), not from the
 * code: END = 0xC0 delimits frames; inside a frame END is sent as ESC ESC_END
 * and ESC (0xDB) as ESC ESC_ESC; every other octet is sent as itself.
 * Call-free macros, so they can be used inside quantifiers and loop
 * invariants and compile natively. */
#ifndef SPEC_SLIP_H
#define SPEC_SLIP_H
#include <stddef.h>
#include <stdint.h>

#define SLIP_END     0xC0u
#define SLIP_ESC     0xDBu
#define SLIP_ESC_END 0xDCu
#define SLIP_ESC_ESC 0xDDu

#define SLIP_U8(d) ((unsigned)(d) & 0xffu)
/* payload octets that must be escaped */
#define SLIP_SPECIAL(d) (SLIP_U8(d) == SLIP_END || SLIP_U8(d) == SLIP_ESC)
/* length of the image esc(d) of one payload octet */
#define SLIP_ESCLEN(d) (SLIP_SPECIAL(d) ? (size_t)2 : (size_t)1)
/* j-th octet (j < SLIP_ESCLEN(d)) of the image esc(d) */
#define SLIP_IMG(d, j) ((unsigned char)(!SLIP_SPECIAL(d) ? SLIP_U8(d) \
    : ((j) == 0 ? SLIP_ESC : (SLIP_U8(d) == SLIP_END ? SLIP_ESC_END : SLIP_ESC_ESC))))
/* a valid second octet of an escape sequence, and what it stands for */
#define SLIP_ESC_VALID(s) (SLIP_U8(s) == SLIP_ESC_END || SLIP_U8(s) == SLIP_ESC_ESC)
#define SLIP_UNESC(s) ((unsigned char)(SLIP_U8(s) == SLIP_ESC_END ? SLIP_END : SLIP_ESC))

/* worst-case length of an encoded frame of n payload octets (property
 * statement: 2n+1, 2n+2 with start-of-frame) */
#define SLIP_WORST(n, sof) ((size_t)2 * (size_t)(n) + ((sof) ? (size_t)2 : (size_t)1))

/* The encoding of a payload P[0..n) as a relation between P, an offset map
 * off[0..n] and an octet stream E (E[0] is the first octet of the image of
 * P[0]):  off[0] = 0,  off[k+1] = off[k] + esclen(P[k]),  E[off[k] + j] =
 * esc(P[k])[j],  E[off[n]] = END.  SLIP_ENC_AT is the clause for one payload
 * index k (the offset recurrence and the image of octet k). */
#define SLIP_OFF_STEP(P, off, k) ((off)[(k) + 1] == (off)[(k)] + SLIP_ESCLEN((P)[(k)]))
#define SLIP_ENC_AT(E, P, off, k) \
  (SLIP_OFF_STEP(P, off, k) \
   && (E)[(off)[(k)]] == SLIP_IMG((P)[(k)], 0) \
   && (!SLIP_SPECIAL((P)[(k)]) || (E)[(off)[(k)] + 1] == SLIP_IMG((P)[(k)], 1)))

/* reference encoder / offset map for native replay and spec sanity */
static inline size_t spec_slip_offsets(const unsigned char *P, size_t n, size_t *off)
{
  off[0] = 0;
  for (size_t k = 0; k < n; k++)
    off[k + 1] = off[k] + SLIP_ESCLEN(P[k]);
  return off[n];
}
static inline size_t spec_slip_encode(const unsigned char *P, size_t n, unsigned char *E)
{
  size_t o = 0;
  for (size_t k = 0; k < n; k++) {
    if (P[k] == SLIP_END) { E[o++] = SLIP_ESC; E[o++] = SLIP_ESC_END; }
    else if (P[k] == SLIP_ESC) { E[o++] = SLIP_ESC; E[o++] = SLIP_ESC_ESC; }
    else E[o++] = P[k];
  }
  E[o++] = SLIP_END;
  return o;
}
#endif
