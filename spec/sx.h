/* spec/sx.h -- reference definitions for the s-expression reader (C20).
 * Plain C, shared by the proof units and the native replay.
 *
 * Grammar (src/sx.c file comment + the character tables of the code):
 *   expr    := ws* ( symbol | integer | '(' expr* ws* ')' )
 *   symbol  := syminit symch*          followed by a delimiter or the end
 *   integer := digit+ | "#x" xdigit+   followed by a delimiter or the end
 *   delimiter := '(' | ')' | whitespace
 * Values: decimal / hexadecimal positional value, hex digits in either case,
 * modulo 2^64 (the reader has no overflow status; a literal that does not
 * fit wraps -- stated, not judged, by the contracts).
 */
#ifndef SPEC_SX_H
#define SPEC_SX_H
#include <stdbool.h>
#include <stddef.h>
#include <stdint.h>

/* ---- character classes, readable form (ASCII, "C" locale) ---------------
 * symbol constituents: letters and "+%|/_:;.!?$&=*<>~" start a symbol,
 * digits and '-' may follow.  The NUL octet is not a constituent. */
#define SPEC_SX_REF_ISDIGIT(c)  ((c) >= '0' && (c) <= '9')
#define SPEC_SX_REF_ISLOWER(c)  ((c) >= 'a' && (c) <= 'z')
#define SPEC_SX_REF_ISUPPER(c)  ((c) >= 'A' && (c) <= 'Z')
#define SPEC_SX_REF_ISALPHA(c)  (SPEC_SX_REF_ISLOWER(c) || SPEC_SX_REF_ISUPPER(c))
#define SPEC_SX_REF_ISXDIGIT(c) (SPEC_SX_REF_ISDIGIT(c) || ((c) >= 'a' && (c) <= 'f') || ((c) >= 'A' && (c) <= 'F'))
#define SPEC_SX_REF_ISSPACE(c)  ((c) == ' ' || ((c) >= '\t' && (c) <= '\r'))
#define SPEC_SX_REF_TOLOWER(c)  (SPEC_SX_REF_ISUPPER(c) ? (c) - 'A' + 'a' : (c))
#define SPEC_SX_REF_TOUPPER(c)  (SPEC_SX_REF_ISLOWER(c) ? (c) - 'a' + 'A' : (c))
#define SPEC_SX_REF_ISSYMPUNCT(c) ((c) == '+' || (c) == '%' || (c) == '|' || (c) == '/' || (c) == '_' \
  || (c) == ':' || (c) == ';' || (c) == '.' || (c) == '!' || (c) == '?' || (c) == '$' || (c) == '&' \
  || (c) == '=' || (c) == '*' || (c) == '<' || (c) == '>' || (c) == '~')
#define SPEC_SX_REF_ISSYMINIT(c) (SPEC_SX_REF_ISALPHA(c) || SPEC_SX_REF_ISSYMPUNCT(c))
#define SPEC_SX_REF_ISSYMCH(c)   (SPEC_SX_REF_ISSYMINIT(c) || SPEC_SX_REF_ISDIGIT(c) || (c) == '-')
#define SPEC_SX_REF_ISDELIM(c)   ((c) == '(' || (c) == ')' || SPEC_SX_REF_ISSPACE(c))
/* value of a digit character in either letter case; 0 for any other octet */
#define SPEC_SX_REF_DIGITVAL(c) ((uint64_t)(SPEC_SX_REF_ISDIGIT(c) ? (c) - '0' \
  : ((c) >= 'a' && (c) <= 'f') ? (c) - 'a' + 10 \
  : ((c) >= 'A' && (c) <= 'F') ? (c) - 'A' + 10 : 0))

/* ---- the same classes as 128-bit membership masks ------------------------
 * The contracts use these: the argument (usually a memory read s[...] that
 * carries its own pointer checks) occurs 5 times instead of up to 60, and
 * the text stays call-free for loop invariants.  Target `spec_charclasses`
 * proves mask form == readable form for every int value. */
#define SPEC_SX_INSET(c, lo, hi) \
  ((c) >= 0 && (c) < 128 && ((((c) < 64 ? (uint64_t)(lo) >> ((c) & 63) : (uint64_t)(hi) >> ((c) & 63)) & 1) != 0))
#define SPEC_SX_INSET_(c, m) SPEC_SX_INSET(c, m)
#define SPEC_SX_M_DIGIT 0x03ff000000000000ull, 0x0000000000000000ull
#define SPEC_SX_M_XDIGIT 0x03ff000000000000ull, 0x0000007e0000007eull
#define SPEC_SX_M_SPACE 0x0000000100003e00ull, 0x0000000000000000ull
#define SPEC_SX_M_SYMINIT 0xfc00cc7200000000ull, 0x57fffffe87fffffeull
#define SPEC_SX_M_SYMCH 0xffffec7200000000ull, 0x57fffffe87fffffeull
#define SPEC_SX_M_DELIM 0x0000030100003e00ull, 0x0000000000000000ull
#define SPEC_SX_ISDIGIT(c)   SPEC_SX_INSET_(c, SPEC_SX_M_DIGIT)
#define SPEC_SX_ISXDIGIT(c)  SPEC_SX_INSET_(c, SPEC_SX_M_XDIGIT)
#define SPEC_SX_ISSPACE(c)   SPEC_SX_INSET_(c, SPEC_SX_M_SPACE)
#define SPEC_SX_ISSYMINIT(c) SPEC_SX_INSET_(c, SPEC_SX_M_SYMINIT)
#define SPEC_SX_ISSYMCH(c)   SPEC_SX_INSET_(c, SPEC_SX_M_SYMCH)
#define SPEC_SX_ISDELIM(c)   SPEC_SX_INSET_(c, SPEC_SX_M_DELIM)
/* '0'..'9' = 0x30.., 'A'.. = 0x41.., 'a'.. = 0x61..: low nibble, +9 for letters */
#define SPEC_SX_DIGITVAL(c) \
  ((uint64_t)(SPEC_SX_ISXDIGIT(c) ? ((c) & 15) + ((((c) & 64) != 0) ? 9 : 0) : 0))
#define SX_ISBASEDIGIT(base, c) ((base) == 10 ? SPEC_SX_ISDIGIT(c) : SPEC_SX_ISXDIGIT(c))

/* ---- token classes of looking_at(), same numbering as enum sx_what ------- */
#define SPEC_SX_AT_UNKNOWN 0
#define SPEC_SX_AT_SYMBOL 1
#define SPEC_SX_AT_INT_DEC 2
#define SPEC_SX_AT_INT_HEX 3
#define SPEC_SX_AT_OPEN 4
#define SPEC_SX_AT_CLOSE 5
/* i < n is required.  A hex literal needs "#x" AND one hex digit inside the
 * input; nothing at or beyond s[n] is consulted. */
static inline int spec_sx_looking_at(const char *s, size_t n, size_t i)
{
  const char c0 = s[i];
  if (n - i > 2 && c0 == '#') {
    const char c1 = s[i + 1], c2 = s[i + 2];
    if (c1 == 'x' && SPEC_SX_ISXDIGIT(c2)) return SPEC_SX_AT_INT_HEX;
  }
  if (c0 == '(') return SPEC_SX_AT_OPEN;
  if (c0 == ')') return SPEC_SX_AT_CLOSE;
  if (SPEC_SX_ISDIGIT(c0)) return SPEC_SX_AT_INT_DEC;
  if (SPEC_SX_ISSYMINIT(c0)) return SPEC_SX_AT_SYMBOL;
  return SPEC_SX_AT_UNKNOWN;
}

/* ---- values ---------------------------------------------------------------
 * positional value of the digit run s[from..to) in base 10 or 16, modulo
 * 2^64: the digit k places from the right counts base^k (definition of
 * positional notation; powers as a literal table, 10^k mod 2^64) */
#define SPEC_SX_VALUE_MAXDIGITS 24
static const uint64_t spec_sx_pow10[SPEC_SX_VALUE_MAXDIGITS] = { 1ull, 10ull, 100ull, 1000ull, 10000ull, 100000ull, 1000000ull, 10000000ull, 100000000ull, 1000000000ull, 10000000000ull, 100000000000ull, 1000000000000ull, 10000000000000ull, 100000000000000ull, 1000000000000000ull, 10000000000000000ull, 100000000000000000ull, 1000000000000000000ull, 10000000000000000000ull, 7766279631452241920ull, 3875820019684212736ull, 1864712049423024128ull, 200376420520689664ull };
static inline uint64_t spec_sx_pow(uint64_t base, size_t k)
{
  if (base == 16) return k < 16 ? (uint64_t)1 << (4 * k) : 0;
  return k < SPEC_SX_VALUE_MAXDIGITS ? spec_sx_pow10[k] : 0 /* not used beyond the table */;
}
static inline uint64_t spec_sx_value(const char *s, size_t from, size_t to, uint64_t base)
{
  uint64_t v = 0;
  for (size_t k = 0; k < to - from; k++)
    v += spec_sx_pow(base, k) * SPEC_SX_REF_DIGITVAL(s[to - 1 - k]);
  return v;
}
/* the same value read most significant digit first (Horner) */
static inline uint64_t spec_sx_horner(const char *s, size_t from, size_t to, uint64_t base)
{
  uint64_t v = 0;
  for (size_t k = from; k < to; k++)
    v = v * base + SPEC_SX_REF_DIGITVAL(s[k]);
  return v;
}

/* ---- the grammar as ghost tables (proof side: contracts/sx.h) -------------
 * "Which prefix of s[i..n) is a complete expression" is a recursive function
 * of the text.  A contract cannot call it, so -- as for the checksums -- it is
 * pinned by ghost tables with one entry per input position: arbitrary arrays
 * constrained only by LOCAL defining equations (bounded quantifier over the
 * constant SX_QMAX: tier A-len, input length <= SX_QMAX; every equation
 * refers to larger positions only, so the tables are unique):
 *   CH[k] the input octet s[k]
 *   W[k]  first position >= k that is not whitespace, or n
 *   S[k], D[k], X[k]  end of the run of symbol constituents / decimal digits
 *         / hexadecimal digits starting at k
 *   C[k]  token class at k (spec_sx_looking_at)
 *   T[k]  end of the atom (symbol / integer) that starts at k when one does
 *         and a delimiter or the end of the input follows it, else SX_FAIL(n)
 *   E[k]  position just past the expression that starts (after whitespace)
 *         at k, or SX_FAIL(n) when s[k..n) does not begin with one
 *   L[k]  position just past the ')' that closes a list whose elements start
 *         at k, or SX_FAIL(n)
 * Each equation also carries the range of its entry (k <= W[k] <= n; k < E[k]
 * <= n or FAIL ...), which follows from the recurrence by induction; target
 * `tables_ranges` proves that from the bare recurrences.  The native replay
 * computes the tables (harness/sx.c); target `tables_vs_reference` compares
 * E with the recursive reference reader on all short strings.
 *
 * The equations are stated ONCE per function, in `requires`, under the ghost
 * flag g_sx_tabs (arbitrary): 0 = nothing is known about the tables, >= 1 =
 * the run tables W S D X satisfy their equations, 2 = C T E L too.  Every
 * clause that speaks about the tables is conditional on the flag, so the
 * contracts hold for all tables and all flags, and a caller that replaces a
 * callee re-establishes the (identical) precondition.
 */
#ifndef SX_QMAX
#define SX_QMAX 32
#endif
#define SX_FAIL(n) ((n) + 1)
#define SX_TAB_LEN (SX_QMAX + 2)
#if SX_QMAX > 200
#error "table entries are octets: SX_QMAX must stay below 200"
#endif
/* one ghost object (a single pointer keeps every table read unambiguous for
 * the solver); entries are octets: positions are <= SX_QMAX + 1 < 256 */
struct sx_tabs {
  char CH[SX_TAB_LEN];     /* CH[k] == s[k]: the one place where the input itself is read */
  unsigned char W[SX_TAB_LEN], S[SX_TAB_LEN], D[SX_TAB_LEN], X[SX_TAB_LEN],
                C[SX_TAB_LEN], T[SX_TAB_LEN], E[SX_TAB_LEN], L[SX_TAB_LEN];
};
extern const struct sx_tabs *g_sxt;
#define g_sxCH (g_sxt->CH)
#define g_sxW (g_sxt->W)
#define g_sxS (g_sxt->S)
#define g_sxD (g_sxt->D)
#define g_sxX (g_sxt->X)
#define g_sxC (g_sxt->C)
#define g_sxT (g_sxt->T)
#define g_sxE (g_sxt->E)
#define g_sxL (g_sxt->L)
extern int g_sx_tabs;

/* s[e] or a delimiter when e is the end of the input */
#define SX_AT(s, n, e) ((e) < (n) ? g_sxCH[e] : ' ')
/* token class at j < n (call-free twin of spec_sx_looking_at) */
#define SX_CLS(s, n, j) \
  (((n) - (j) > 2 && g_sxCH[j] == '#' && SX_AT(s, n, (j) + 1) == 'x' && SPEC_SX_REF_ISXDIGIT(SX_AT(s, n, (j) + 2))) ? SPEC_SX_AT_INT_HEX \
   : g_sxCH[j] == '(' ? SPEC_SX_AT_OPEN : g_sxCH[j] == ')' ? SPEC_SX_AT_CLOSE \
   : SPEC_SX_REF_ISDIGIT(g_sxCH[j]) ? SPEC_SX_AT_INT_DEC : SPEC_SX_REF_ISSYMINIT(g_sxCH[j]) ? SPEC_SX_AT_SYMBOL : SPEC_SX_AT_UNKNOWN)
/* raw end of the atom of class c that starts at j */
#define SX_ATOM_END(c, j) ((c) == SPEC_SX_AT_SYMBOL ? g_sxS[j] : (c) == SPEC_SX_AT_INT_DEC ? g_sxD[j] : g_sxX[(j) + 2])
#define SX_IS_ATOM(c) ((c) == SPEC_SX_AT_SYMBOL || (c) == SPEC_SX_AT_INT_DEC || (c) == SPEC_SX_AT_INT_HEX)
#define SX_ATOM_T(s, n, c, j) \
  ((SX_IS_ATOM(c) && (SX_ATOM_END(c, j) >= (n) || SPEC_SX_REF_ISDELIM(SX_AT(s, n, SX_ATOM_END(c, j))))) \
   ? SX_ATOM_END(c, j) : SX_FAIL(n))
/* E[k] and L[k] in terms of the other entries; j is W[k] */
#define SX_EXPR_END(n, j) \
  ((j) >= (n) ? SX_FAIL(n) : g_sxC[j] == SPEC_SX_AT_OPEN ? g_sxL[(j) + 1] : g_sxT[j])
#define SX_TAIL_END(n, k, j) \
  ((j) >= (n) ? SX_FAIL(n) : g_sxC[j] == SPEC_SX_AT_CLOSE ? (j) + 1 \
   : g_sxE[k] > (n) ? SX_FAIL(n) : g_sxL[g_sxE[k] <= (n) ? g_sxE[k] : 0])

#define SX_TABS_MEM_OK __CPROVER_r_ok(g_sxt, sizeof(struct sx_tabs))
#define SX_NC(n) ((n) <= SX_QMAX ? (n) : 0)
/* (the input s is a block of symbolic size: every textual read of it costs the
 * solver array constraints against every other one, so the equations read the
 * copy CH, whose cells are plain variables once k_ is instantiated) */
#define SX_CH_EQ(s, n, k_) \
  ((n) <= SX_QMAX && __CPROVER_forall { size_t k_; (k_ < SX_QMAX) ==> ((k_ < (n)) ==> g_sxCH[k_] == (s)[k_]) })
#define SX_RUN_EQ(R, ISC, s, n, k_) \
  ((n) <= SX_QMAX && (R)[SX_NC(n)] == (n) \
   && __CPROVER_forall { size_t k_; (k_ < SX_QMAX) ==> ((k_ < (n)) ==> \
      ((R)[k_] == (ISC(g_sxCH[k_]) ? (R)[k_ + 1] : k_) && (R)[k_] <= (n) && (R)[k_] >= k_)) })
#define SX_CLS_EQ(s, n, k_) \
  ((n) <= SX_QMAX && __CPROVER_forall { size_t k_; (k_ < SX_QMAX) ==> ((k_ < (n)) ==> \
      (g_sxC[k_] == SX_CLS(s, n, k_) && g_sxT[k_] == SX_ATOM_T(s, n, g_sxC[k_], k_) \
       && (g_sxT[k_] == SX_FAIL(n) || (k_ < g_sxT[k_] && g_sxT[k_] <= (n))))) })
#define SX_EL_EQ(s, n, k_) \
  ((n) <= SX_QMAX && g_sxL[SX_NC(n) + 1] == SX_FAIL(n) \
   && __CPROVER_forall { size_t k_; (k_ < SX_QMAX + 1) ==> ((k_ <= (n)) ==> \
        (g_sxE[k_] == SX_EXPR_END(n, g_sxW[k_]) && g_sxL[k_] == SX_TAIL_END(n, k_, g_sxW[k_]) \
         && (g_sxE[k_] == SX_FAIL(n) || (k_ < g_sxE[k_] && g_sxE[k_] <= (n))) \
         && (g_sxL[k_] == SX_FAIL(n) || (k_ < g_sxL[k_] && g_sxL[k_] <= (n))))) })
/* The equations are an invariant of GHOST state only (the tables, the flag
 * and the ghost record g_sx_s / g_sx_n of which input they describe) plus the
 * input octets, which no function of the reader may assign.  They are assumed
 * once, by the harness that creates the ghost state (SX_TABLES in
 * harness/sx.c; the native replay computes the tables instead), and every
 * contract only requires that it is called on THAT input when the flag is up
 * -- re-asserting seven quantified formulas at each replaced call made the
 * expression-level proofs run out of time. */
extern const char *g_sx_s;
extern size_t g_sx_n;
#define SX_GHOST_INVARIANT_RUNS(s, n) \
  (IMPLIES(g_sx_tabs >= 1, SX_CH_EQ(s, n, kh_)) \
   && IMPLIES(g_sx_tabs >= 1, SX_RUN_EQ(g_sxW, SPEC_SX_REF_ISSPACE, s, n, kw_)) \
   && IMPLIES(g_sx_tabs >= 1, SX_RUN_EQ(g_sxS, SPEC_SX_REF_ISSYMCH, s, n, ks_)) \
   && IMPLIES(g_sx_tabs >= 1, SX_RUN_EQ(g_sxD, SPEC_SX_REF_ISDIGIT, s, n, kd_)) \
   && IMPLIES(g_sx_tabs >= 1, SX_RUN_EQ(g_sxX, SPEC_SX_REF_ISXDIGIT, s, n, kx_) && g_sxX[SX_NC(n) + 1] == (n) + 1))
#define SX_GHOST_INVARIANT_GRAMMAR(s, n) \
  (IMPLIES(g_sx_tabs >= 2, SX_CLS_EQ(s, n, kc_)) \
   && IMPLIES(g_sx_tabs >= 2, SX_EL_EQ(s, n, ke_)))
#define SX_TABS_REQUIRES(s, n) \
  __CPROVER_requires(SX_TABS_MEM_OK) \
  __CPROVER_requires(IMPLIES(g_sx_tabs >= 1, (s) == g_sx_s && (n) == g_sx_n))
#define SX_RUNS_REQUIRES(s, n) SX_TABS_REQUIRES(s, n)
#define SX_RUNS_OK(s, n) (g_sx_tabs >= 1)
#define SX_GRAMMAR_OK(s, n) (g_sx_tabs >= 2)

#endif
