/* spec/registers-block.h -- flat address-space model of a register table
 * (properties C02, C03, C04).  Written from the property statements, not from
 * src/registers/core.c:
 *
 *   - an area i maps the addresses  base_i <= a < base_i + size_i  (mathematical
 *     integers: everything here is computed in 64 bit, nothing wraps);
 *   - a register j occupies  address_j .. address_j + words(type_j) - 1;
 *   - the word stored at a mapped address a is  area.mem[a - base];
 *   - a register's value is the octet image of its words (low octet of a word
 *     first), most significant octet first iff the table is big-endian;
 *   - a value is acceptable iff it decodes (floats: zero or normal) and meets
 *     the register's constraint (inclusive min / max / range, "fail" only
 *     during initialisation, callback = the validator's verdict).
 *
 * Plain C: the same text is compiled by goto-cc for the proofs and by gcc for
 * the native replay.  Loops are bounded by the table dimensions (tier B).
 */
#ifndef SPEC_REGISTERS_BLOCK_H
#define SPEC_REGISTERS_BLOCK_H
#include <stdint.h>
#include <stdbool.h>

#define RB_M64(x) ((uint64_t)(x))

/* table dimensions of the bounded (tier B) targets: every loop below has a
 * constant bound, so that symbolic execution unrolls it completely */
#ifndef RB_NA
#define RB_NA 3          /* areas */
#endif
#ifndef RB_NE
#define RB_NE 4          /* registers */
#endif
#ifndef RB_SZ
#define RB_SZ 5          /* words per area */
#endif

/* words of a register by type (u16: one 16-bit word, ...); 0 for anything
 * that is not a value type.  Macro: usable in loop invariants/quantifiers. */
#define RB_WORDS(ty) \
  (((ty) == REG_TYPE_UINT16 || (ty) == REG_TYPE_SINT16) ? 1u : \
   ((ty) == REG_TYPE_UINT32 || (ty) == REG_TYPE_SINT32 || (ty) == REG_TYPE_FLOAT32) ? 2u : \
   ((ty) == REG_TYPE_UINT64 || (ty) == REG_TYPE_SINT64 || (ty) == REG_TYPE_FLOAT64) ? 4u : 0u)
#define RB_TYPE_IS_VALUE(ty) ((int)(ty) >= (int)REG_TYPE_UINT16 && (int)(ty) <= (int)REG_TYPE_FLOAT64)
#define RB_TYPE_IS_ENUM(ty) ((int)(ty) >= (int)REG_TYPE_UINT16 && (int)(ty) <= (int)REG_TYPE_INVALID)
#define RB_CHECK_IS_ENUM(ct) ((int)(ct) >= (int)REGV_TYPE_TRIVIAL && (int)(ct) <= (int)REGV_TYPE_CALLBACK)

/* mathematical reading of areas and registers */
#define RB_A_END(a) (RB_M64((a)->base) + RB_M64((a)->size))
#define RB_A_HAS(a, x) (RB_M64((a)->base) <= RB_M64(x) && RB_M64(x) < RB_A_END(a))
#define RB_E_END(e) (RB_M64((e)->address) + RB_M64(RB_WORDS((e)->type)))
#define RB_E_INSIDE(e, a) (RB_M64((a)->base) <= RB_M64((e)->address) && RB_E_END(e) <= RB_A_END(a))
/* [lo, lo+len) and the register overlap */
#define RB_E_OVERLAPS(e, lo, len) \
  (RB_M64((e)->address) < RB_M64(lo) + RB_M64(len) && RB_M64(lo) < RB_E_END(e))

/* list terminators as documented in register-table.h (REGISTER_AREA_END,
 * REGISTER_ENTRY_END) */
#define RB_AREA_IS_END(a) \
  ((a)->read == NULL && (a)->write == NULL && (a)->base == 0 && (a)->size == 0 && (a)->mem == NULL)
#define RB_ENTRY_IS_END(e) ((e)->type == REG_TYPE_INVALID)

#define RB_AREA_LOADS_DEFAULTS(a) ((a)->write != NULL && ((a)->flags & REG_AF_SKIP_DEFAULTS) == 0)
#define RB_AREA_WRITABLE(a) ((a)->write != NULL && ((a)->flags & REG_AF_WRITEABLE) != 0)
#define RB_AREA_READABLE(a) ((a)->read != NULL && ((a)->flags & REG_AF_READABLE) != 0)

/* ---- values ---------------------------------------------------------- */

/* the value's bit pattern (low 16/32/64 bits by type) */
static inline uint64_t rb_bits_of(RegisterType ty, RegisterValueU v)
{
  switch (ty) {
  case REG_TYPE_UINT16: return v.u16;
  case REG_TYPE_SINT16: return (uint16_t)v.s16;
  case REG_TYPE_UINT32: return v.u32;
  case REG_TYPE_SINT32: return (uint32_t)v.s32;
  case REG_TYPE_FLOAT32: return v.u32;      /* same storage as f32 */
  case REG_TYPE_UINT64: return v.u64;
  case REG_TYPE_SINT64: return (uint64_t)v.s64;
  case REG_TYPE_FLOAT64: return v.u64;      /* same storage as f64 */
  default: return 0;
  }
}

static inline RegisterValueU rb_value_of(RegisterType ty, uint64_t bits)
{
  RegisterValueU v;
  v.u64 = 0;
  switch (ty) {
  case REG_TYPE_UINT16: v.u16 = (uint16_t)bits; break;
  case REG_TYPE_SINT16: v.u16 = (uint16_t)bits; break;
  case REG_TYPE_UINT32: case REG_TYPE_SINT32: case REG_TYPE_FLOAT32: v.u32 = (uint32_t)bits; break;
  default: v.u64 = bits; break;
  }
  return v;
}

/* octet k (0 = first in memory) of the image of an n-octet value */
static inline uint8_t rb_image_octet(uint64_t bits, unsigned noct, bool be, unsigned k)
{
  unsigned sh = be ? 8u * (noct - 1u - k) : 8u * k;
  return (uint8_t)(bits >> sh);
}

/* word w of the image of a value of type ty */
static inline uint16_t rb_image_word(RegisterType ty, uint64_t bits, bool be, unsigned w)
{
  unsigned noct = 2u * RB_WORDS(ty);
  if (2u * w + 1u >= noct)
    return 0;
  return (uint16_t)(rb_image_octet(bits, noct, be, 2u * w)
                    | ((uint16_t)rb_image_octet(bits, noct, be, 2u * w + 1u) << 8));
}

/* bit pattern encoded by the words w[0 .. words(ty)) */
static inline uint64_t rb_decode(RegisterType ty, bool be, const uint16_t *w)
{
  unsigned noct = 2u * RB_WORDS(ty);
  uint64_t bits = 0;
  for (unsigned k = 0; k < 8u; k++) {
    if (k < noct) {
      uint8_t o = (k & 1u) ? (uint8_t)(w[k / 2u] >> 8) : (uint8_t)(w[k / 2u] & 0xffu);
      unsigned sh = be ? 8u * (noct - 1u - k) : 8u * k;
      bits |= (uint64_t)o << sh;
    }
  }
  return bits;
}

/* floats must be zero or normal (exponent field neither 0 nor all ones) */
static inline bool rb_decodes(RegisterType ty, uint64_t bits)
{
  if (ty == REG_TYPE_FLOAT32) {
    uint32_t b = (uint32_t)bits, ex = (b >> 23) & 0xffu;
    return (b & 0x7fffffffu) == 0 || (ex != 0 && ex != 0xffu);
  }
  if (ty == REG_TYPE_FLOAT64) {
    uint64_t ex = (bits >> 52) & 0x7ffu;
    return (bits & 0x7fffffffffffffffull) == 0 || (ex != 0 && ex != 0x7ffu);
  }
  return RB_TYPE_IS_VALUE(ty);
}

static inline bool rb_ge(RegisterType ty, RegisterValueU v, RegisterValueU lim)
{
  switch (ty) {
  case REG_TYPE_UINT16: return v.u16 >= lim.u16;
  case REG_TYPE_UINT32: return v.u32 >= lim.u32;
  case REG_TYPE_UINT64: return v.u64 >= lim.u64;
  case REG_TYPE_SINT16: return v.s16 >= lim.s16;
  case REG_TYPE_SINT32: return v.s32 >= lim.s32;
  case REG_TYPE_SINT64: return v.s64 >= lim.s64;
  case REG_TYPE_FLOAT32: return v.f32 >= lim.f32;
  case REG_TYPE_FLOAT64: return v.f64 >= lim.f64;
  default: return false;
  }
}

static inline bool rb_le(RegisterType ty, RegisterValueU v, RegisterValueU lim)
{
  switch (ty) {
  case REG_TYPE_UINT16: return v.u16 <= lim.u16;
  case REG_TYPE_UINT32: return v.u32 <= lim.u32;
  case REG_TYPE_UINT64: return v.u64 <= lim.u64;
  case REG_TYPE_SINT16: return v.s16 <= lim.s16;
  case REG_TYPE_SINT32: return v.s32 <= lim.s32;
  case REG_TYPE_SINT64: return v.s64 <= lim.s64;
  case REG_TYPE_FLOAT32: return v.f32 <= lim.f32;
  case REG_TYPE_FLOAT64: return v.f64 <= lim.f64;
  default: return false;
  }
}

/* constraint of register e met by the value with bit pattern `bits`;
 * cb_verdict = what the register's validator callback says about it */
static inline bool rb_constraint_ok(const RegisterEntry *e, uint64_t bits, bool during_init, bool cb_verdict)
{
  RegisterValueU v = rb_value_of(e->type, bits);
  switch (e->check.type) {
  case REGV_TYPE_TRIVIAL: return true;
  case REGV_TYPE_FAIL: return during_init;
  case REGV_TYPE_MIN: return rb_ge(e->type, v, e->check.arg.min);
  case REGV_TYPE_MAX: return rb_le(e->type, v, e->check.arg.max);
  case REGV_TYPE_RANGE: return rb_ge(e->type, v, e->check.arg.range.min) && rb_le(e->type, v, e->check.arg.range.max);
  case REGV_TYPE_CALLBACK: return cb_verdict;
  default: return false;
  }
}

/* ---- the flat address space ------------------------------------------ */

/* index of the area mapping address x, na if none */
static inline uint32_t rb_area_of(const RegisterArea *area, uint32_t na, uint64_t x)
{
  for (uint32_t i = 0; i < RB_NA && i < na; i++)
    if (x <= 0xffffffffull && RB_A_HAS(&area[i], x))
      return i;
  return na;
}

/* first unmapped address in [lo, lo+len), or lo+len if all are mapped.  The
 * first unmapped address of a range is the range's start or the end of an
 * area (the address behind a mapped one). */
static inline uint64_t rb_first_unmapped(const RegisterArea *area, uint32_t na, uint32_t lo, uint32_t len)
{
  uint64_t hi = RB_M64(lo) + RB_M64(len), best = hi;
  if (len == 0)
    return hi;
  if (rb_area_of(area, na, lo) == na)
    return lo;
  for (uint32_t i = 0; i < RB_NA && i < na; i++) {
    uint64_t c = RB_A_END(&area[i]);
    if (c > lo && c < best && rb_area_of(area, na, c) == na)
      best = c;
  }
  return best;
}

/* first address in [lo, lo+len) that lies in an area that is not writable,
 * or lo+len */
static inline uint64_t rb_first_readonly(const RegisterArea *area, uint32_t na, uint32_t lo, uint32_t len)
{
  uint64_t hi = RB_M64(lo) + RB_M64(len), best = hi;
  for (uint32_t i = 0; i < RB_NA && i < na; i++) {
    const RegisterArea *a = &area[i];
    if (a->size != 0 && !RB_AREA_WRITABLE(a) && RB_M64(a->base) < hi && RB_M64(lo) < RB_A_END(a)) {
      uint64_t c = RB_M64(a->base) > RB_M64(lo) ? RB_M64(a->base) : RB_M64(lo);
      if (c < best)
        best = c;
    }
  }
  return best;
}

/* the word stored at mapped address x (0 if x is unmapped or has no memory) */
static inline uint16_t rb_stored_word(const RegisterArea *area, uint32_t na, uint64_t x)
{
  uint32_t i = rb_area_of(area, na, x);
  if (i == na || area[i].mem == NULL)
    return 0;
  return area[i].mem[x - RB_M64(area[i].base)];
}

/* ---- C04: the first violated rule of a table description --------------
 * Rules as listed in the statement.  Areas are scanned in ascending index and
 * the first offender is reported (order before overlap for one index); then
 * registers likewise for order/overlap; then registers in ascending index for
 * placement before default.  An index offends against "ascending" /
 * "non-overlapping" if it does so with respect to ANY earlier index. */
struct rb_init_expect {
  RegisterInitCode code;
  uint32_t index;
};

static inline bool rb_default_ok(const RegisterEntry *e, bool be, bool cb_verdict)
{
  uint64_t bits = rb_bits_of(e->type, e->default_value);
  (void)be;
  return rb_decodes(e->type, bits) && rb_constraint_ok(e, bits, true, cb_verdict);
}

static inline struct rb_init_expect
rb_spec_first_violation(const RegisterArea *area, uint32_t na, const RegisterEntry *entry, uint32_t ne,
                        bool be, const bool *cb_verdict)
{
  struct rb_init_expect r = { REG_INIT_SUCCESS, 0 };
  if (na == 0) {
    r.code = REG_INIT_NO_AREAS;
    return r;
  }
  for (uint32_t i = 1; i < RB_NA && i < na; i++) {
    for (uint32_t k = 0; k < RB_NA && k < i; k++)
      if (area[i].base < area[k].base) {
        r.code = REG_INIT_AREA_INVALID_ORDER; r.index = i;
        return r;
      }
    for (uint32_t k = 0; k < RB_NA && k < i; k++)
      if (RB_M64(area[i].base) < RB_A_END(&area[k])) {
        r.code = REG_INIT_AREA_ADDRESS_OVERLAP; r.index = i;
        return r;
      }
  }
  for (uint32_t j = 1; j < RB_NE && j < ne; j++) {
    for (uint32_t k = 0; k < RB_NE && k < j; k++)
      if (entry[j].address < entry[k].address) {
        r.code = REG_INIT_ENTRY_INVALID_ORDER; r.index = j;
        return r;
      }
    for (uint32_t k = 0; k < RB_NE && k < j; k++)
      if (RB_M64(entry[j].address) < RB_E_END(&entry[k])) {
        r.code = REG_INIT_ENTRY_ADDRESS_OVERLAP; r.index = j;
        return r;
      }
  }
  for (uint32_t j = 0; j < RB_NE && j < ne; j++) {
    uint32_t in = na;
    for (uint32_t i = 0; i < RB_NA && i < na; i++)
      if (in == na && RB_E_INSIDE(&entry[j], &area[i]))
        in = i;
    if (in == na) {
      r.code = REG_INIT_ENTRY_IN_MEMORY_HOLE; r.index = j;
      return r;
    }
    if (RB_AREA_LOADS_DEFAULTS(&area[in]) && !rb_default_ok(&entry[j], be, cb_verdict[j])) {
      r.code = REG_INIT_ENTRY_INVALID_DEFAULT; r.index = j;
      return r;
    }
  }
  return r;
}

/* word k of area ai after a successful initialisation: the image word of the
 * default of the register located there if the area loads defaults, else 0 */
static inline uint16_t
rb_spec_init_word(const RegisterArea *area, uint32_t na, const RegisterEntry *entry, uint32_t ne,
                  bool be, uint32_t ai, uint32_t k)
{
  if (ai >= na || k >= area[ai].size || !RB_AREA_LOADS_DEFAULTS(&area[ai]))
    return 0;
  uint64_t x = RB_M64(area[ai].base) + k;
  for (uint32_t j = 0; j < RB_NE && j < ne; j++)
    if (RB_M64(entry[j].address) <= x && x < RB_E_END(&entry[j]))
      return rb_image_word(entry[j].type, rb_bits_of(entry[j].type, entry[j].default_value), be,
                           (unsigned)(x - RB_M64(entry[j].address)));
  return 0;
}

/* ---- table well-formedness ---------------------------------------------
 * What register_init establishes (C04) and what block access and iteration
 * rely on (C02, C03): areas and registers ascending and disjoint inside the
 * 32-bit space, every register linked to the one area that contains it
 * wholly (area pointer, offset), every area recording exactly the contiguous
 * run of the registers linked to it.  (Nothing is said about first/last of an
 * area without registers.) */
static inline uint32_t rb_area_index(const RegisterTable *t, const RegisterArea *a)
{
  for (uint32_t i = 0; i < RB_NA && i < t->areas; i++)
    if (a == &t->area[i])
      return i;
  return t->areas;
}

static inline bool rb_wf_area(const RegisterTable *t, uint32_t i)
{
  const RegisterArea *a = &t->area[i];
  if (a->size < 1 || RB_A_END(a) > 0xffffffffull)
    return false;
  if (i + 1 < t->areas && RB_A_END(a) > RB_M64(t->area[i + 1].base))
    return false;
  return true;
}

static inline bool rb_wf_entry(const RegisterTable *t, uint32_t j)
{
  const RegisterEntry *e = &t->entry[j];
  if (!RB_TYPE_IS_VALUE(e->type) || !RB_CHECK_IS_ENUM(e->check.type) || RB_E_END(e) > 0xffffffffull)
    return false;
  if (j + 1 < t->entries && RB_E_END(e) > RB_M64(t->entry[j + 1].address))
    return false;
  uint32_t ai = rb_area_index(t, e->area);
  if (ai >= t->areas)
    return false;
  const RegisterArea *a = &t->area[ai];
  return RB_E_INSIDE(e, a) && e->offset == e->address - a->base;
}

static inline bool rb_wf_run(const RegisterTable *t, uint32_t i)
{
  const RegisterArea *a = &t->area[i];
  uint32_t cnt = 0, first = 0, last = 0;
  for (uint32_t j = 0; j < RB_NE && j < t->entries; j++)
    if (t->entry[j].area == a) {
      if (cnt == 0)
        first = j;
      last = j;
      cnt++;
    }
  if (a->entry.count != cnt)
    return false;
  return cnt == 0 || (a->entry.first == first && a->entry.last == last && last - first + 1u == cnt);
}

static inline bool rb_table_wf(const RegisterTable *t)
{
  if (t->areas < 1 || t->areas > RB_NA || t->entries > RB_NE)
    return false;
  for (uint32_t i = 0; i < RB_NA && i < t->areas; i++)
    if (!rb_wf_area(t, i))
      return false;
  for (uint32_t j = 0; j < RB_NE && j < t->entries; j++)
    if (!rb_wf_entry(t, j))
      return false;
  for (uint32_t i = 0; i < RB_NA && i < t->areas; i++)
    if (!rb_wf_run(t, i))
      return false;
  return true;
}

/* ---- C04: postconditions of register_init as plain C -------------------- */

#define RB_AREA_DESC_SAME(a, b) ((a)->read == (b)->read && (a)->write == (b)->write && (a)->flags == (b)->flags \
    && (a)->base == (b)->base && (a)->size == (b)->size && (a)->mem == (b)->mem)
#define RB_ENTRY_DESC_SAME(a, b) ((a)->type == (b)->type && (a)->default_value.u64 == (b)->default_value.u64 \
    && (a)->address == (b)->address && (a)->check.type == (b)->check.type \
    && (a)->check.arg.range.min.u64 == (b)->check.arg.range.min.u64 \
    && (a)->check.arg.range.max.u64 == (b)->check.arg.range.max.u64 \
    && (a)->name == (b)->name && (a)->flags == (b)->flags && (a)->user == (b)->user)

/* the description (terminators included) is what it was */
static inline bool rb_description_same(const RegisterTable *t, const RegisterArea *area0, uint32_t na,
                                       const RegisterEntry *entry0, uint32_t ne)
{
  for (uint32_t i = 0; i <= RB_NA && i <= na; i++)
    if (!RB_AREA_DESC_SAME(&t->area[i], &area0[i]))
      return false;
  for (uint32_t j = 0; j <= RB_NE && j <= ne; j++)
    if (!RB_ENTRY_DESC_SAME(&t->entry[j], &entry0[j]))
      return false;
  return true;
}

/* every word of every memory-backed area is the image word of the default
 * located there (areas that load defaults) or zero */
static inline bool rb_init_words_ok(const RegisterTable *t, uint32_t na, uint32_t ne, bool be)
{
  for (uint32_t i = 0; i < RB_NA && i < na; i++) {
    const RegisterArea *a = &t->area[i];
    if (a->mem != NULL)
      for (uint32_t k = 0; k < RB_SZ && k < a->size; k++)
        if (a->mem[k] != rb_spec_init_word(t->area, na, t->entry, ne, be, i, k))
          return false;
  }
  return true;
}

static inline bool rb_init_verdict_ok(RegisterInit r, struct rb_init_expect x)
{
  if (r.code != x.code)
    return false;
  switch (x.code) {
  case REG_INIT_NO_AREAS: case REG_INIT_AREA_INVALID_ORDER: case REG_INIT_AREA_ADDRESS_OVERLAP:
    return r.pos.area == x.index;
  case REG_INIT_ENTRY_INVALID_ORDER: case REG_INIT_ENTRY_ADDRESS_OVERLAP:
  case REG_INIT_ENTRY_IN_MEMORY_HOLE: case REG_INIT_ENTRY_INVALID_DEFAULT:
    return r.pos.entry == x.index;
  default:
    return true;
  }
}

#endif
