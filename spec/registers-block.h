/* spec/registers-block.h -- flat address-space model of a register table
 * (properties C02, C03, C04).  Written from the property statements, not from
 * src/registers/core.c:
 *
 *   - an area i maps the addresses  base_i <= a < base_i + size_i  (mathematical
 *     integers: everything here is computed in 64 bit, nothing wraps);
 *   - a register j occupies  address_j .. address_j + words(type_j) - 1;
 *   - the word stored at a mapped address a is  area.mem[a - base];
 *   - a register's value is the octet image of its words (low octet of a word
 *     first), most significant octet first iff the table is big-endian;
 *   - a value is acceptable iff it decodes (floats: zero or normal) and meets
 *     the register's constraint (inclusive min / max / range, "fail" only
 *     during initialisation, callback = the validator's verdict) -- these
 *     value-level notions are taken from spec/registers.h (C01's oracle).
 *
 * Plain C: the same text is compiled by goto-cc for the proofs and by gcc for
 * the native replay.  Loops are bounded by the table dimensions (tier B).
 */
#ifndef SPEC_REGISTERS_BLOCK_H
#define SPEC_REGISTERS_BLOCK_H
#include <stdint.h>
#include <stdbool.h>
#include "spec/registers.h"

#define RB_M64(x) ((uint64_t)(x))

/* table dimensions of the bounded (tier B) targets: every loop below has a
 * constant bound, so that symbolic execution unrolls it completely */
#ifndef RB_NA
#define RB_NA 3          /* areas */
#endif
#ifndef RB_NE
#define RB_NE 4          /* registers */
#endif
#ifndef RB_SZ
#define RB_SZ 5          /* words per area */
#endif
#ifndef RB_NB
#define RB_NB (RB_NA * RB_SZ + 2)   /* words of the caller buffer of block access */
#endif

/* words of a register by type (u16: one 16-bit word, ...); 0 for anything
 * that is not a value type.  Macro: usable in loop invariants/quantifiers. */
#define RB_WORDS(ty) \
  (((ty) == REG_TYPE_UINT16 || (ty) == REG_TYPE_SINT16) ? 1u : \
   ((ty) == REG_TYPE_UINT32 || (ty) == REG_TYPE_SINT32 || (ty) == REG_TYPE_FLOAT32) ? 2u : \
   ((ty) == REG_TYPE_UINT64 || (ty) == REG_TYPE_SINT64 || (ty) == REG_TYPE_FLOAT64) ? 4u : 0u)
#define RB_TYPE_IS_VALUE(ty) ((int)(ty) >= (int)REG_TYPE_UINT16 && (int)(ty) <= (int)REG_TYPE_FLOAT64)
#define RB_TYPE_IS_ENUM(ty) ((int)(ty) >= (int)REG_TYPE_UINT16 && (int)(ty) <= (int)REG_TYPE_INVALID)
#define RB_CHECK_IS_ENUM(ct) ((int)(ct) >= (int)REGV_TYPE_TRIVIAL && (int)(ct) <= (int)REGV_TYPE_CALLBACK)

/* mathematical reading of areas and registers */
#define RB_A_END(a) (RB_M64((a)->base) + RB_M64((a)->size))
#define RB_A_HAS(a, x) (RB_M64((a)->base) <= RB_M64(x) && RB_M64(x) < RB_A_END(a))
#define RB_E_END(e) (RB_M64((e)->address) + RB_M64(RB_WORDS((e)->type)))
#define RB_E_INSIDE(e, a) (RB_M64((a)->base) <= RB_M64((e)->address) && RB_E_END(e) <= RB_A_END(a))
/* [lo, lo+len) and the register overlap */
#define RB_E_OVERLAPS(e, lo, len) \
  ((len) != 0 && RB_M64((e)->address) < RB_M64(lo) + RB_M64(len) && RB_M64(lo) < RB_E_END(e))

/* the code's own (wrapping, 32-bit) reading: bit-precise leaf contracts */
#define RB_U32(x) ((uint32_t)(x))
/* the code's (wrapping) end of an area / a register */
#define RB_A_END32(a) RB_U32((a)->base + (a)->size)
#define RB_E_END32(e) RB_U32((e)->address + RB_WORDS((e)->type))
#define RB_A_NOWRAP(a) (RB_A_END(a) <= 0xffffffffull)
#define RB_E_NOWRAP(e) (RB_E_END(e) <= 0xffffffffull)
#define RB_PART_OF32(a, addr) ((a)->base <= (addr) && !(RB_A_END32(a) <= (addr)))
#define RB_FITS32(a, e) (RB_E_END32(e) <= RB_A_END32(a))
#define RB_RANGE_TOUCHES32(end32, start, addr, n) \
  (((end32) <= (addr)) ? -1 : ((RB_U32((addr) + (n)) <= (start)) ? 1 : 0))

/* ---- area map: the flat address space as plain values ----------------------
 * (walker / caller contracts, tier A-len: at most RB_AMAX areas, RB_EMAX
 * registers).  g_rb_an areas; area r maps  g_rb_ab[r] <= x < g_rb_ae[r].  The
 * contracts tie the map to the real table once (RB_LINKED_A: base and
 * mathematical end of every area; an end that fits 32 bit = "no wrap") and
 * state everything else on the map: CBMC 6.11 pays for every textual pointer
 * dereference, and a loop needs the facts at its OWN index, which a single
 * ghost index cannot give.  Call-free macros: usable in requires/ensures,
 * loop invariants and quantifier bodies; bounded quantifiers are expanded by
 * the SAT back end. */
#ifndef RB_AMAX
#define RB_AMAX 16u          /* at most 16: RB_MAPPED spells out 16 areas */
#endif
#ifndef RB_EMAX
#define RB_EMAX 64u
#endif
extern uint32_t g_rb_an, g_rb_ab[17], g_rb_ae[17];
extern bool g_rb_aw[17];   /* area is writable (write callback and WRITEABLE flag) */
#define RB_ALL_A(q, body) __CPROVER_forall { unsigned q; (q < RB_AMAX) ==> (body) }
#define RB_ALL_E(q, body) __CPROVER_forall { unsigned q; (q < RB_EMAX) ==> (body) }
#define RB_LINKED_A(t) \
  (g_rb_an == (t)->areas && g_rb_an <= RB_AMAX \
   && RB_ALL_A(q_la, IMPLIES(q_la < g_rb_an, g_rb_ab[q_la] == (t)->area[q_la].base && RB_M64(g_rb_ae[q_la]) == RB_A_END(&(t)->area[q_la]))))
/* every area has at least one word */
#define RB_MAP_WF RB_ALL_A(q_wf, IMPLIES(q_wf < g_rb_an, g_rb_ab[q_wf] < g_rb_ae[q_wf]))
#define RB_MA_HAS(r, x) ((r) < g_rb_an && g_rb_ab[r] <= (x) && (x) < g_rb_ae[r])
/* address x is mapped (bounded exists, spelled out so that it can stand inside a bounded forall) */
#define RB_MAPPED(x) \
  (RB_MA_HAS(0u, x) || RB_MA_HAS(1u, x) || RB_MA_HAS(2u, x) || RB_MA_HAS(3u, x) \
   || RB_MA_HAS(4u, x) || RB_MA_HAS(5u, x) || RB_MA_HAS(6u, x) || RB_MA_HAS(7u, x) \
   || RB_MA_HAS(8u, x) || RB_MA_HAS(9u, x) || RB_MA_HAS(10u, x) || RB_MA_HAS(11u, x) \
   || RB_MA_HAS(12u, x) || RB_MA_HAS(13u, x) || RB_MA_HAS(14u, x) || RB_MA_HAS(15u, x))
/* every area end strictly inside (lo, hi) is itself mapped: together with
 * "lo is mapped" this says that all of [lo, hi) is mapped (an unmapped address
 * has a first unmapped address at or below it, and that is lo or an area end) */
#define RB_ENDS_MAPPED(lo, hi) \
  RB_ALL_A(q_em, IMPLIES(q_em < g_rb_an && (lo) < g_rb_ae[q_em] && g_rb_ae[q_em] < (hi), RB_MAPPED(g_rb_ae[q_em])))
/* areas ascending and disjoint (adjacent pairs; with RB_MAP_WF the whole chain) */
#define RB_MAP_SORTED RB_ALL_A(q_ms, IMPLIES(q_ms + 1u < g_rb_an, g_rb_ae[q_ms] <= g_rb_ab[q_ms + 1u]))
#define RB_LINKED_AW(t) RB_ALL_A(q_aw, IMPLIES(q_aw < g_rb_an, g_rb_aw[q_aw] == RB_AREA_WRITABLE(&(t)->area[q_aw])))
#define RB_MA_RO(r, x) (RB_MA_HAS(r, x) && !g_rb_aw[r])
/* address x lies in an area that is not writable */
#define RB_READONLY_AT(x) \
  (RB_MA_RO(0u, x) || RB_MA_RO(1u, x) || RB_MA_RO(2u, x) || RB_MA_RO(3u, x) \
   || RB_MA_RO(4u, x) || RB_MA_RO(5u, x) || RB_MA_RO(6u, x) || RB_MA_RO(7u, x) \
   || RB_MA_RO(8u, x) || RB_MA_RO(9u, x) || RB_MA_RO(10u, x) || RB_MA_RO(11u, x) \
   || RB_MA_RO(12u, x) || RB_MA_RO(13u, x) || RB_MA_RO(14u, x) || RB_MA_RO(15u, x))
/* every area before index i that overlaps [lo, hi) is writable */
#define RB_WRITABLE_BELOW(i, lo, hi) \
  RB_ALL_A(q_wb, IMPLIES(q_wb < (i) && q_wb < g_rb_an && g_rb_ab[q_wb] < (hi) && (lo) < g_rb_ae[q_wb], g_rb_aw[q_wb]))

/* ---- register map: addresses and ends of the registers as plain values -------
 * g_rb_en registers; register q occupies g_rb_ea[q] <= x < g_rb_ee[q].  Tied to
 * the real list by RB_LINKED_E (which also says: value type, end inside the
 * 32-bit space). */
extern uint32_t g_rb_en, g_rb_ea[65], g_rb_ee[65];
#define RB_ALL_ENTRIES_ENUM(t) RB_ALL_E(q_en, IMPLIES(q_en < (t)->entries, RB_TYPE_IS_ENUM((t)->entry[q_en].type)))
#define RB_LINKED_E(t) \
  (g_rb_en == (t)->entries && g_rb_en <= RB_EMAX \
   && RB_ALL_E(q_le, IMPLIES(q_le < g_rb_en, RB_TYPE_IS_VALUE((t)->entry[q_le].type) && g_rb_ea[q_le] == (t)->entry[q_le].address \
                                       && RB_M64(g_rb_ee[q_le]) == RB_E_END(&(t)->entry[q_le]))))
/* registers ascending and disjoint (adjacent pairs; ends above starts by RB_LINKED_E) */
#define RB_EMAP_SORTED RB_ALL_E(q_es, IMPLIES(q_es + 1u < g_rb_en, g_rb_ee[q_es] <= g_rb_ea[q_es + 1u]))
/* ... stated between every index and index k (what a loop with an early exit needs) */
#define RB_EMAP_SORTED_AT(k) \
  RB_ALL_E(q_ea, IMPLIES((k) < g_rb_en && q_ea < g_rb_en, \
      IMPLIES(q_ea < (k), g_rb_ee[q_ea] <= g_rb_ea[k]) && IMPLIES((k) < q_ea, g_rb_ee[k] <= g_rb_ea[q_ea])))
/* register k overlaps [lo, hi) */
#define RB_ME_OVERLAPS(k, lo, hi) (g_rb_ea[k] < (hi) && (lo) < g_rb_ee[k])
/* assigns targets: the flags field of every register (spelled out for the cap:
 * a whole-list target would let the loop contract havoc the list, and would
 * not say that nothing but the marks may change) */
#define RB_FLAGS_TGT(t, q) (q) < (t)->entries: (t)->entry[q].flags
#define RB_FLAGS_TGT8(t, b) RB_FLAGS_TGT(t, (b) + 0u); RB_FLAGS_TGT(t, (b) + 1u); RB_FLAGS_TGT(t, (b) + 2u); RB_FLAGS_TGT(t, (b) + 3u); \
   RB_FLAGS_TGT(t, (b) + 4u); RB_FLAGS_TGT(t, (b) + 5u); RB_FLAGS_TGT(t, (b) + 6u); RB_FLAGS_TGT(t, (b) + 7u)
#if RB_EMAX <= 16
#define RB_ALL_FLAGS_TGT(t) RB_FLAGS_TGT8(t, 0u); RB_FLAGS_TGT8(t, 8u)
#else
#define RB_ALL_FLAGS_TGT(t) RB_FLAGS_TGT8(t, 0u); RB_FLAGS_TGT8(t, 8u); RB_FLAGS_TGT8(t, 16u); RB_FLAGS_TGT8(t, 24u); \
   RB_FLAGS_TGT8(t, 32u); RB_FLAGS_TGT8(t, 40u); RB_FLAGS_TGT8(t, 48u); RB_FLAGS_TGT8(t, 56u)
#endif
/* everything but the flags of register e is what the snapshot s says */
#define RB_ENTRY_EQ_BUT_FLAGS(e, s) \
  ((e)->type == (s)->type && (e)->default_value.u64 == (s)->default_value.u64 && (e)->address == (s)->address \
   && (e)->area == (s)->area && (e)->offset == (s)->offset && (e)->check.type == (s)->check.type \
   && (e)->check.arg.range.min.u64 == (s)->check.arg.range.min.u64 \
   && (e)->check.arg.range.max.u64 == (s)->check.arg.range.max.u64 \
   && (e)->name == (s)->name && (e)->user == (s)->user)
#define RB_COVERED(lo, hi) (IMPLIES((lo) < (hi), RB_MAPPED(lo)) && RB_ENDS_MAPPED(lo, hi))

/* ra_find_area_by_addr: no area before the result claims the address, for every
 * index at once (A-len targets only) */
#ifdef RB_SHORT_TABLES
#define RB_FIND_NONE_BELOW(t, n, addr) \
  IMPLIES((t)->areas <= RB_AMAX, RB_ALL_A(q_fn, IMPLIES(q_fn < (n), !RB_PART_OF32(&(t)->area[q_fn], addr))))
#else
#define RB_FIND_NONE_BELOW(t, n, addr) 1
#endif

/* list terminators as documented in register-table.h (REGISTER_AREA_END,
 * REGISTER_ENTRY_END) */
#define RB_AREA_IS_END(a) \
  ((a)->read == NULL && (a)->write == NULL && (a)->base == 0 && (a)->size == 0 && (a)->mem == NULL)
#define RB_ENTRY_IS_END(e) ((e)->type == REG_TYPE_INVALID)

#define RB_AREA_LOADS_DEFAULTS(a) ((a)->write != NULL && ((a)->flags & REG_AF_SKIP_DEFAULTS) == 0)
#define RB_AREA_WRITABLE(a) ((a)->write != NULL && ((a)->flags & REG_AF_WRITEABLE) != 0)
#define RB_AREA_READABLE(a) ((a)->read != NULL && ((a)->flags & REG_AF_READABLE) != 0)

/* ---- values ----------------------------------------------------------
 * Value-level semantics (bit pattern, octet image, float acceptability,
 * constraints, validator verdict) are those of spec/registers.h, the oracle of
 * typed access (C01); the block-level properties add the layout on top. */
static inline uint64_t rb_bits_of(RegisterType ty, RegisterValueU v)
{
  return spec_bits(ty, v);
}

/* word w of the image of a value of type ty */
static inline uint16_t rb_image_word(RegisterType ty, uint64_t bits, bool be, unsigned w)
{
  unsigned n = RB_WORDS(ty);
  if (w >= n)
    return 0;
  return spec_word(bits, n, be, w);
}

/* bit pattern encoded by the words w[0 .. words(ty)) */
static inline uint64_t rb_decode(RegisterType ty, bool be, const uint16_t *w)
{
  return spec_decode(w, RB_WORDS(ty), be);
}

/* floats must be zero or normal */
static inline bool rb_decodes(RegisterType ty, uint64_t bits)
{
  return RB_TYPE_IS_VALUE(ty) && spec_float_ok(ty, bits);
}

/* constraint of register e met by the value with bit pattern `bits` */
static inline bool rb_constraint_ok(const RegisterEntry *e, uint64_t bits, bool during_init)
{
  RegisterValue v;
  v.type = e->type;
  v.value = spec_value_of(e->type, bits);
  return spec_valid(e, v, during_init);
}

/* ---- the model: a table as plain values --------------------------------
 * Copies of the table header, of both lists (terminators included), of every
 * stored word, and the index of the area each register is linked to.  The
 * spec functions below work on the model only; it is taken once before the
 * call (what the statement calls the description / the current content) and
 * once after it.  (Besides being the natural reading of the statements this
 * keeps the symbolic execution cheap: CBMC 6.11 pays for every textual
 * pointer dereference.) */
struct rb_model {
  uint16_t tflags;
  uint32_t tareas, tentries;
  uint32_t na, ne;                       /* list lengths = terminator positions */
  RegisterArea a[RB_NA + 1];
  RegisterEntry e[RB_NE + 1];
  uint16_t w[RB_NA][RB_SZ];              /* stored words; 0 where there is no storage */
  uint32_t ai[RB_NE + 1];                /* area the register's area pointer designates, na if none */
};

static inline void rb_model_of(struct rb_model *m, const RegisterTable *t, uint32_t na, uint32_t ne)
{
  const RegisterArea *ta = t->area;
  const RegisterEntry *te = t->entry;
  m->tflags = t->flags; m->tareas = t->areas; m->tentries = t->entries;
  m->na = na; m->ne = ne;
  for (uint32_t i = 0; i <= RB_NA; i++)
    if (i <= na)
      m->a[i] = ta[i];
  for (uint32_t i = 0; i < RB_NA; i++)
    for (uint32_t k = 0; k < RB_SZ; k++) {
      m->w[i][k] = 0;
      if (i < na && m->a[i].mem != NULL && k < m->a[i].size)
        m->w[i][k] = m->a[i].mem[k];
    }
  for (uint32_t j = 0; j <= RB_NE; j++)
    if (j <= ne)
      m->e[j] = te[j];
  for (uint32_t j = 0; j < RB_NE; j++) {
    m->ai[j] = na;
    if (j < ne)
      for (uint32_t i = 0; i < RB_NA; i++)
        if (i < na && m->ai[j] == na && m->e[j].area == &ta[i])
          m->ai[j] = i;
  }
}

/* ---- the flat address space ------------------------------------------ */

/* index of the area mapping address x, na if none */
static inline uint32_t rb_area_of(const struct rb_model *m, uint64_t x)
{
  for (uint32_t i = 0; i < RB_NA && i < m->na; i++)
    if (x <= 0xffffffffull && RB_A_HAS(&m->a[i], x))
      return i;
  return m->na;
}

/* first unmapped address in [lo, lo+len), or lo+len if all are mapped.  The
 * first unmapped address of a range is the range's start or the end of an
 * area (the address behind a mapped one). */
static inline uint64_t rb_first_unmapped(const struct rb_model *m, uint32_t lo, uint32_t len)
{
  uint64_t hi = RB_M64(lo) + RB_M64(len), best = hi;
  if (len == 0)
    return hi;
  if (rb_area_of(m, lo) == m->na)
    return lo;
  for (uint32_t i = 0; i < RB_NA && i < m->na; i++) {
    uint64_t c = RB_A_END(&m->a[i]);
    if (c > lo && c < best && rb_area_of(m, c) == m->na)
      best = c;
  }
  return best;
}

/* first address in [lo, lo+len) that lies in an area that is not writable,
 * or lo+len */
static inline uint64_t rb_first_readonly(const struct rb_model *m, uint32_t lo, uint32_t len)
{
  uint64_t hi = RB_M64(lo) + RB_M64(len), best = hi;
  for (uint32_t i = 0; i < RB_NA && i < m->na; i++) {
    const RegisterArea *a = &m->a[i];
    if (!RB_AREA_WRITABLE(a) && RB_M64(a->base) < hi && RB_M64(lo) < RB_A_END(a)) {
      uint64_t c = RB_M64(a->base) > RB_M64(lo) ? RB_M64(a->base) : RB_M64(lo);
      if (c < best)
        best = c;
    }
  }
  return best;
}

/* the word stored at address x (0 if x is unmapped or has no storage) */
static inline uint16_t rb_stored_word(const struct rb_model *m, uint64_t x)
{
  for (uint32_t i = 0; i < RB_NA && i < m->na; i++)
    if (x <= 0xffffffffull && RB_A_HAS(&m->a[i], x))
      for (uint32_t k = 0; k < RB_SZ; k++)
        if (RB_M64(m->a[i].base) + k == x)
          return m->w[i][k];
  return 0;
}

/* ---- C04: the first violated rule of a table description --------------
 * Rules as listed in the statement.  Areas are scanned in ascending index and
 * the first offender is reported (order before overlap for one index); then
 * registers likewise for order/overlap; then registers in ascending index for
 * placement before default.  An index offends against "ascending" /
 * "non-overlapping" if it does so with respect to ANY earlier index. */
struct rb_init_expect {
  RegisterInitCode code;
  uint32_t index;
};

static inline bool rb_default_ok(const RegisterEntry *e)
{
  uint64_t bits = rb_bits_of(e->type, e->default_value);
  return rb_decodes(e->type, bits) && rb_constraint_ok(e, bits, true);
}

static inline struct rb_init_expect rb_spec_first_violation(const struct rb_model *m)
{
  struct rb_init_expect r = { REG_INIT_SUCCESS, 0 };
  const uint32_t na = m->na, ne = m->ne;
  if (na == 0) {
    r.code = REG_INIT_NO_AREAS;
    return r;
  }
  for (uint32_t i = 1; i < RB_NA && i < na; i++) {
    for (uint32_t k = 0; k < RB_NA && k < i; k++)
      if (m->a[i].base < m->a[k].base) {
        r.code = REG_INIT_AREA_INVALID_ORDER; r.index = i;
        return r;
      }
    for (uint32_t k = 0; k < RB_NA && k < i; k++)
      if (RB_M64(m->a[i].base) < RB_A_END(&m->a[k])) {
        r.code = REG_INIT_AREA_ADDRESS_OVERLAP; r.index = i;
        return r;
      }
  }
  for (uint32_t j = 1; j < RB_NE && j < ne; j++) {
    for (uint32_t k = 0; k < RB_NE && k < j; k++)
      if (m->e[j].address < m->e[k].address) {
        r.code = REG_INIT_ENTRY_INVALID_ORDER; r.index = j;
        return r;
      }
    for (uint32_t k = 0; k < RB_NE && k < j; k++)
      if (RB_M64(m->e[j].address) < RB_E_END(&m->e[k])) {
        r.code = REG_INIT_ENTRY_ADDRESS_OVERLAP; r.index = j;
        return r;
      }
  }
  for (uint32_t j = 0; j < RB_NE && j < ne; j++) {
    uint32_t in = na;
    for (uint32_t i = 0; i < RB_NA && i < na; i++)
      if (in == na && RB_E_INSIDE(&m->e[j], &m->a[i]))
        in = i;
    if (in == na) {
      r.code = REG_INIT_ENTRY_IN_MEMORY_HOLE; r.index = j;
      return r;
    }
    bool loads = false;
    for (uint32_t i = 0; i < RB_NA && i < na; i++)
      if (i == in)
        loads = RB_AREA_LOADS_DEFAULTS(&m->a[i]);
    if (loads && !rb_default_ok(&m->e[j])) {
      r.code = REG_INIT_ENTRY_INVALID_DEFAULT; r.index = j;
      return r;
    }
  }
  return r;
}

/* word k of area i after a successful initialisation: the image word of the
 * default of the register located there if the area loads defaults, else 0 */
static inline uint16_t rb_spec_init_word(const struct rb_model *m, bool be, uint32_t i, uint32_t k)
{
  if (!RB_AREA_LOADS_DEFAULTS(&m->a[i]))
    return 0;
  uint64_t x = RB_M64(m->a[i].base) + k;
  for (uint32_t j = 0; j < RB_NE && j < m->ne; j++)
    if (RB_M64(m->e[j].address) <= x && x < RB_E_END(&m->e[j]))
      return rb_image_word(m->e[j].type, rb_bits_of(m->e[j].type, m->e[j].default_value), be,
                           (unsigned)(x - RB_M64(m->e[j].address)));
  return 0;
}

/* ---- table well-formedness ---------------------------------------------
 * What register_init establishes (C04) and what block access and iteration
 * rely on (C02, C03): the table header records the list lengths; areas and
 * registers ascending and disjoint inside the 32-bit space; every register
 * linked to the one area that contains it wholly (area pointer, offset);
 * every area recording exactly the contiguous run of the registers linked to
 * it.  (Nothing is said about first/last of an area without registers.) */
static inline bool rb_wf_area(const struct rb_model *m, uint32_t i)
{
  const RegisterArea *a = &m->a[i];
  if (a->size < 1 || RB_A_END(a) > 0xffffffffull)
    return false;
  if (i + 1 < m->na && RB_A_END(a) > RB_M64(m->a[i + 1].base))
    return false;
  return true;
}

static inline bool rb_wf_entry(const struct rb_model *m, uint32_t j)
{
  const RegisterEntry *e = &m->e[j];
  if (!RB_TYPE_IS_VALUE(e->type) || !RB_CHECK_IS_ENUM(e->check.type) || RB_E_END(e) > 0xffffffffull)
    return false;
  if (j + 1 < m->ne && RB_E_END(e) > RB_M64(m->e[j + 1].address))
    return false;
  if (m->ai[j] >= m->na)
    return false;
  for (uint32_t i = 0; i < RB_NA && i < m->na; i++)
    if (i == m->ai[j] && !(RB_E_INSIDE(e, &m->a[i]) && e->offset == e->address - m->a[i].base))
      return false;
  return true;
}

static inline bool rb_wf_run(const struct rb_model *m, uint32_t i)
{
  const RegisterArea *a = &m->a[i];
  uint32_t cnt = 0, first = 0, last = 0;
  for (uint32_t j = 0; j < RB_NE && j < m->ne; j++)
    if (m->ai[j] == i) {
      if (cnt == 0)
        first = j;
      last = j;
      cnt++;
    }
  if (a->entry.count != cnt)
    return false;
  return cnt == 0 || (a->entry.first == first && a->entry.last == last && last - first + 1u == cnt);
}

static inline bool rb_model_wf(const struct rb_model *m)
{
  if (m->na < 1 || m->na > RB_NA || m->ne > RB_NE || m->tareas != m->na || m->tentries != m->ne)
    return false;
  for (uint32_t i = 0; i < RB_NA && i < m->na; i++)
    if (!rb_wf_area(m, i))
      return false;
  for (uint32_t j = 0; j < RB_NE && j < m->ne; j++)
    if (!rb_wf_entry(m, j))
      return false;
  for (uint32_t i = 0; i < RB_NA && i < m->na; i++)
    if (!rb_wf_run(m, i))
      return false;
  return true;
}

/* ---- C04: postconditions of register_init as plain C -------------------- */

#define RB_AREA_DESC_SAME(a, b) ((a)->read == (b)->read && (a)->write == (b)->write && (a)->flags == (b)->flags \
    && (a)->base == (b)->base && (a)->size == (b)->size && (a)->mem == (b)->mem)
#define RB_ENTRY_DESC_SAME(a, b) ((a)->type == (b)->type && (a)->default_value.u64 == (b)->default_value.u64 \
    && (a)->address == (b)->address && (a)->check.type == (b)->check.type \
    && (a)->check.arg.range.min.u64 == (b)->check.arg.range.min.u64 \
    && (a)->check.arg.range.max.u64 == (b)->check.arg.range.max.u64 \
    && (a)->name == (b)->name && (a)->flags == (b)->flags && (a)->user == (b)->user)

/* the description (terminators included) is what it was */
static inline bool rb_description_same(const struct rb_model *pre, const struct rb_model *post)
{
  for (uint32_t i = 0; i <= RB_NA; i++)
    if (i <= pre->na && !RB_AREA_DESC_SAME(&post->a[i], &pre->a[i]))
      return false;
  for (uint32_t j = 0; j <= RB_NE; j++)
    if (j <= pre->ne && !RB_ENTRY_DESC_SAME(&post->e[j], &pre->e[j]))
      return false;
  return true;
}

/* every word of every memory-backed area is the image word of the default
 * located there (areas that load defaults) or zero */
static inline bool rb_init_words_ok(const struct rb_model *pre, const struct rb_model *post, bool be)
{
  for (uint32_t i = 0; i < RB_NA; i++)
    for (uint32_t k = 0; k < RB_SZ; k++)
      if (i < pre->na && pre->a[i].mem != NULL && k < pre->a[i].size
          && post->w[i][k] != rb_spec_init_word(pre, be, i, k))
        return false;
  return true;
}

static inline bool rb_init_verdict_ok(RegisterInit r, struct rb_init_expect x)
{
  if (r.code != x.code)
    return false;
  switch (x.code) {
  case REG_INIT_NO_AREAS: case REG_INIT_AREA_INVALID_ORDER: case REG_INIT_AREA_ADDRESS_OVERLAP:
    return r.pos.area == x.index;
  case REG_INIT_ENTRY_INVALID_ORDER: case REG_INIT_ENTRY_ADDRESS_OVERLAP:
  case REG_INIT_ENTRY_IN_MEMORY_HOLE: case REG_INIT_ENTRY_INVALID_DEFAULT:
    return r.pos.entry == x.index;
  default:
    return true;
  }
}

/* ---- C03: block read --------------------------------------------------
 * Statement: on an initialised table a read of n words succeeds exactly when
 * all n addresses are mapped; word i is then the word stored at addr+i (zero
 * for areas that are not readable); otherwise the first unmapped address is
 * reported; n == 0 always succeeds; an uninitialised table is reported as
 * such. */
struct rb_access_expect {
  RegisterAccessCode code;
  uint32_t address;
  bool address_matters;
};

static inline struct rb_access_expect rb_spec_block_read(const struct rb_model *m, uint32_t addr, uint32_t n)
{
  struct rb_access_expect r = { REG_ACCESS_SUCCESS, 0, false };
  if ((m->tflags & REG_TF_INITIALISED) == 0) {
    r.code = REG_ACCESS_UNINITIALISED;
    return r;
  }
  if (n == 0)
    return r;
  uint64_t u = rb_first_unmapped(m, addr, n);
  if (u < RB_M64(addr) + RB_M64(n)) {
    r.code = REG_ACCESS_NOENTRY; r.address = (uint32_t)u; r.address_matters = true;
  }
  return r;
}

/* word i of a successful read */
static inline uint16_t rb_spec_read_word(const struct rb_model *m, uint32_t addr, uint32_t i)
{
  uint64_t x = RB_M64(addr) + i;
  for (uint32_t a = 0; a < RB_NA && a < m->na; a++)
    if (x <= 0xffffffffull && RB_A_HAS(&m->a[a], x))
      return RB_AREA_READABLE(&m->a[a]) ? rb_stored_word(m, x) : 0;
  return 0;
}

static inline bool rb_access_verdict_ok(RegisterAccess r, struct rb_access_expect x)
{
  return r.code == x.code && (!x.address_matters || r.address == x.address);
}

/* nothing of the table changed: header, lists, every stored word */
static inline bool rb_model_same(const struct rb_model *pre, const struct rb_model *post)
{
  if (pre->tflags != post->tflags || pre->tareas != post->tareas || pre->tentries != post->tentries)
    return false;
  if (!rb_description_same(pre, post))
    return false;
  for (uint32_t i = 0; i < RB_NA; i++) {
    if (i < pre->na && (pre->a[i].entry.first != post->a[i].entry.first || pre->a[i].entry.last != post->a[i].entry.last
                        || pre->a[i].entry.count != post->a[i].entry.count))
      return false;
    for (uint32_t k = 0; k < RB_SZ; k++)
      if (pre->w[i][k] != post->w[i][k])
        return false;
  }
  for (uint32_t j = 0; j < RB_NE; j++)
    if (j < pre->ne && (pre->ai[j] != post->ai[j] || pre->e[j].offset != post->e[j].offset))
      return false;
  return true;
}

/* ---- C03: iteration over an address range ----------------------------------
 * Statement: the callback is called exactly for the registers that overlap
 * [addr, addr+off), in ascending order, stopping at the first non-zero callback
 * result; a negative result means failure at that register's address. */
struct rb_iter_expect {
  uint32_t first;     /* handle of the first register overlapping the range */
  uint32_t count;     /* number of registers overlapping it (a contiguous run) */
};

static inline struct rb_iter_expect rb_spec_iter(const struct rb_model *m, uint32_t addr, uint32_t off)
{
  struct rb_iter_expect r = { 0, 0 };
  for (uint32_t j = 0; j < RB_NE && j < m->ne; j++)
    if (RB_E_OVERLAPS(&m->e[j], addr, off)) {
      if (r.count == 0)
        r.first = j;
      r.count++;
    }
  return r;
}

/* ---- C02: block write ---------------------------------------------------
 * Statement: a write of n words succeeds exactly when every addressed word is
 * mapped, every touched area is writable, and every register the block
 * overlaps (fully or partly) still decodes and satisfies its constraint once
 * the new words are overlaid on its current content; otherwise the failure
 * class is named with the first address inside the request at which it arises.
 * Precedence between classes (the statement names none): the documented order
 * of the checks -- read-only, unmapped, then the registers in ascending order
 * (decode before constraint). */
static inline struct rb_access_expect
rb_spec_block_write(const struct rb_model *m, uint32_t addr, uint32_t n, const uint16_t *buf)
{
  struct rb_access_expect r = { REG_ACCESS_SUCCESS, 0, false };
  const uint64_t hi = RB_M64(addr) + RB_M64(n);
  const bool be = (m->tflags & REG_TF_BIG_ENDIAN) != 0;
  if ((m->tflags & REG_TF_INITIALISED) == 0) {
    r.code = REG_ACCESS_UNINITIALISED;
    return r;
  }
  if (n == 0)
    return r;
  r.address_matters = true;
  uint64_t x = rb_first_readonly(m, addr, n);
  if (x < hi) {
    r.code = REG_ACCESS_READONLY; r.address = (uint32_t)x;
    return r;
  }
  x = rb_first_unmapped(m, addr, n);
  if (x < hi) {
    r.code = REG_ACCESS_NOENTRY; r.address = (uint32_t)x;
    return r;
  }
  for (uint32_t j = 0; j < RB_NE && j < m->ne; j++) {
    const RegisterEntry *e = &m->e[j];
    if (RB_E_OVERLAPS(e, addr, n)) {
      uint16_t w[4] = { 0, 0, 0, 0 };
      for (uint32_t k = 0; k < 4u; k++)
        if (k < RB_WORDS(e->type)) {
          uint64_t a = RB_M64(e->address) + k;
          if (RB_M64(addr) <= a && a < hi) {
            for (uint32_t i = 0; i < RB_NB; i++)     /* buf[a - addr] */
              if (RB_M64(addr) + i == a)
                w[k] = buf[i];
          } else {
            w[k] = rb_stored_word(m, a);
          }
        }
      uint64_t bits = rb_decode(e->type, be, w);
      r.address = e->address > addr ? e->address : addr;
      if (!rb_decodes(e->type, bits)) {
        r.code = REG_ACCESS_INVALID;
        return r;
      }
      if (!rb_constraint_ok(e, bits, (m->tflags & REG_TF_DURING_INIT) != 0)) {
        r.code = REG_ACCESS_RANGE;
        return r;
      }
    }
  }
  r.address = 0; r.address_matters = false;
  return r;
}

/* after a successful write: exactly the n addressed words hold the caller's
 * words, exactly the overlapped registers are marked touched, nothing else of
 * the table changed */
static inline bool
rb_write_done_ok(const struct rb_model *pre, const struct rb_model *post, uint32_t addr, uint32_t n, const uint16_t *buf)
{
  const uint64_t hi = RB_M64(addr) + RB_M64(n);
  if (pre->tflags != post->tflags || pre->tareas != post->tareas || pre->tentries != post->tentries)
    return false;
  for (uint32_t i = 0; i <= RB_NA; i++)
    if (i <= pre->na && !RB_AREA_DESC_SAME(&post->a[i], &pre->a[i]))
      return false;
  for (uint32_t i = 0; i < RB_NA; i++) {
    if (i < pre->na && (pre->a[i].entry.first != post->a[i].entry.first || pre->a[i].entry.last != post->a[i].entry.last
                        || pre->a[i].entry.count != post->a[i].entry.count))
      return false;
    for (uint32_t k = 0; k < RB_SZ; k++) {
      uint16_t want = pre->w[i][k];
      if (i < pre->na && k < pre->a[i].size) {
        uint64_t a = RB_M64(pre->a[i].base) + k;
        if (RB_M64(addr) <= a && a < hi)
          for (uint32_t b = 0; b < RB_NB; b++)
            if (RB_M64(addr) + b == a)
              want = buf[b];
      }
      if (post->w[i][k] != want)
        return false;
    }
  }
  for (uint32_t j = 0; j <= RB_NE; j++)
    if (j <= pre->ne) {
      RegisterEntry was = pre->e[j];
      if (j < pre->ne && RB_E_OVERLAPS(&pre->e[j], addr, n))
        was.flags |= REG_EF_TOUCHED;
      if (!RB_ENTRY_DESC_SAME(&post->e[j], &was))
        return false;
      if (j < pre->ne && (pre->ai[j] != post->ai[j] || pre->e[j].offset != post->e[j].offset))
        return false;
    }
  return true;
}

#endif
