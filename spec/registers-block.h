/* spec/registers-block.h -- flat address-space model of a register table
 * (properties C02, C03, C04).  Written from the property statements, not from
 * src/registers/core.c:
 *
 *   - an area i maps the addresses  base_i <= a < base_i + size_i  (mathematical
 *     integers: everything here is computed in 64 bit, nothing wraps);
 *   - a register j occupies  address_j .. address_j + words(type_j) - 1;
 *   - the word stored at a mapped address a is  area.mem[a - base];
 *   - a register's value is the octet image of its words (low octet of a word
 *     first), most significant octet first iff the table is big-endian;
 *   - a value is acceptable iff it decodes (floats: zero or normal) and meets
 *     the register's constraint (inclusive min / max / range, "fail" only
 *     during initialisation, callback = the validator's verdict) -- these
 *     value-level notions are taken from spec/registers.h (C01's oracle).
 *
 * Plain C: the same text is compiled by goto-cc for the proofs and by gcc for
 * the native replay.  Loops are bounded by the table dimensions (tier B).
 */
#ifndef SPEC_REGISTERS_BLOCK_H
#define SPEC_REGISTERS_BLOCK_H
#include <stdint.h>
#include <stdbool.h>
#include "spec/registers.h"

#define RB_M64(x) ((uint64_t)(x))

/* table dimensions of the bounded (tier B) targets: every loop below has a
 * constant bound, so that symbolic execution unrolls it completely */
#ifndef RB_NA
#define RB_NA 3          /* areas */
#endif
#ifndef RB_NE
#define RB_NE 4          /* registers */
#endif
#ifndef RB_SZ
#define RB_SZ 5          /* words per area */
#endif

/* words of a register by type (u16: one 16-bit word, ...); 0 for anything
 * that is not a value type.  Macro: usable in loop invariants/quantifiers. */
#define RB_WORDS(ty) \
  (((ty) == REG_TYPE_UINT16 || (ty) == REG_TYPE_SINT16) ? 1u : \
   ((ty) == REG_TYPE_UINT32 || (ty) == REG_TYPE_SINT32 || (ty) == REG_TYPE_FLOAT32) ? 2u : \
   ((ty) == REG_TYPE_UINT64 || (ty) == REG_TYPE_SINT64 || (ty) == REG_TYPE_FLOAT64) ? 4u : 0u)
#define RB_TYPE_IS_VALUE(ty) ((int)(ty) >= (int)REG_TYPE_UINT16 && (int)(ty) <= (int)REG_TYPE_FLOAT64)
#define RB_TYPE_IS_ENUM(ty) ((int)(ty) >= (int)REG_TYPE_UINT16 && (int)(ty) <= (int)REG_TYPE_INVALID)
#define RB_CHECK_IS_ENUM(ct) ((int)(ct) >= (int)REGV_TYPE_TRIVIAL && (int)(ct) <= (int)REGV_TYPE_CALLBACK)

/* mathematical reading of areas and registers */
#define RB_A_END(a) (RB_M64((a)->base) + RB_M64((a)->size))
#define RB_A_HAS(a, x) (RB_M64((a)->base) <= RB_M64(x) && RB_M64(x) < RB_A_END(a))
#define RB_E_END(e) (RB_M64((e)->address) + RB_M64(RB_WORDS((e)->type)))
#define RB_E_INSIDE(e, a) (RB_M64((a)->base) <= RB_M64((e)->address) && RB_E_END(e) <= RB_A_END(a))
/* [lo, lo+len) and the register overlap */
#define RB_E_OVERLAPS(e, lo, len) \
  (RB_M64((e)->address) < RB_M64(lo) + RB_M64(len) && RB_M64(lo) < RB_E_END(e))

/* the code's own (wrapping, 32-bit) reading: bit-precise leaf contracts */
#define RB_U32(x) ((uint32_t)(x))
/* the code's (wrapping) end of an area / a register */
#define RB_A_END32(a) RB_U32((a)->base + (a)->size)
#define RB_E_END32(e) RB_U32((e)->address + RB_WORDS((e)->type))
#define RB_A_NOWRAP(a) (RB_A_END(a) <= 0xffffffffull)
#define RB_E_NOWRAP(e) (RB_E_END(e) <= 0xffffffffull)
#define RB_PART_OF32(a, addr) ((a)->base <= (addr) && !(RB_A_END32(a) <= (addr)))
#define RB_FITS32(a, e) (RB_E_END32(e) <= RB_A_END32(a))
#define RB_RANGE_TOUCHES32(end32, start, addr, n) \
  (((end32) <= (addr)) ? -1 : ((RB_U32((addr) + (n)) <= (start)) ? 1 : 0))

/* list terminators as documented in register-table.h (REGISTER_AREA_END,
 * REGISTER_ENTRY_END) */
#define RB_AREA_IS_END(a) \
  ((a)->read == NULL && (a)->write == NULL && (a)->base == 0 && (a)->size == 0 && (a)->mem == NULL)
#define RB_ENTRY_IS_END(e) ((e)->type == REG_TYPE_INVALID)

#define RB_AREA_LOADS_DEFAULTS(a) ((a)->write != NULL && ((a)->flags & REG_AF_SKIP_DEFAULTS) == 0)
#define RB_AREA_WRITABLE(a) ((a)->write != NULL && ((a)->flags & REG_AF_WRITEABLE) != 0)
#define RB_AREA_READABLE(a) ((a)->read != NULL && ((a)->flags & REG_AF_READABLE) != 0)

/* ---- values ----------------------------------------------------------
 * Value-level semantics (bit pattern, octet image, float acceptability,
 * constraints, validator verdict) are those of spec/registers.h, the oracle of
 * typed access (C01); the block-level properties add the layout on top. */
static inline uint64_t rb_bits_of(RegisterType ty, RegisterValueU v)
{
  return spec_bits(ty, v);
}

/* word w of the image of a value of type ty */
static inline uint16_t rb_image_word(RegisterType ty, uint64_t bits, bool be, unsigned w)
{
  unsigned n = RB_WORDS(ty);
  if (w >= n)
    return 0;
  return spec_word(bits, n, be, w);
}

/* bit pattern encoded by the words w[0 .. words(ty)) */
static inline uint64_t rb_decode(RegisterType ty, bool be, const uint16_t *w)
{
  return spec_decode(w, RB_WORDS(ty), be);
}

/* floats must be zero or normal */
static inline bool rb_decodes(RegisterType ty, uint64_t bits)
{
  return RB_TYPE_IS_VALUE(ty) && spec_float_ok(ty, bits);
}

/* constraint of register e met by the value with bit pattern `bits` */
static inline bool rb_constraint_ok(const RegisterEntry *e, uint64_t bits, bool during_init)
{
  RegisterValue v;
  v.type = e->type;
  v.value = spec_value_of(e->type, bits);
  return spec_valid(e, v, during_init);
}

/* ---- the flat address space ------------------------------------------ */

/* index of the area mapping address x, na if none */
static inline uint32_t rb_area_of(const RegisterArea *area, uint32_t na, uint64_t x)
{
  for (uint32_t i = 0; i < RB_NA && i < na; i++)
    if (x <= 0xffffffffull && RB_A_HAS(&area[i], x))
      return i;
  return na;
}

/* first unmapped address in [lo, lo+len), or lo+len if all are mapped.  The
 * first unmapped address of a range is the range's start or the end of an
 * area (the address behind a mapped one). */
static inline uint64_t rb_first_unmapped(const RegisterArea *area, uint32_t na, uint32_t lo, uint32_t len)
{
  uint64_t hi = RB_M64(lo) + RB_M64(len), best = hi;
  if (len == 0)
    return hi;
  if (rb_area_of(area, na, lo) == na)
    return lo;
  for (uint32_t i = 0; i < RB_NA && i < na; i++) {
    uint64_t c = RB_A_END(&area[i]);
    if (c > lo && c < best && rb_area_of(area, na, c) == na)
      best = c;
  }
  return best;
}

/* first address in [lo, lo+len) that lies in an area that is not writable,
 * or lo+len */
static inline uint64_t rb_first_readonly(const RegisterArea *area, uint32_t na, uint32_t lo, uint32_t len)
{
  uint64_t hi = RB_M64(lo) + RB_M64(len), best = hi;
  for (uint32_t i = 0; i < RB_NA && i < na; i++) {
    const RegisterArea *a = &area[i];
    if (a->size != 0 && !RB_AREA_WRITABLE(a) && RB_M64(a->base) < hi && RB_M64(lo) < RB_A_END(a)) {
      uint64_t c = RB_M64(a->base) > RB_M64(lo) ? RB_M64(a->base) : RB_M64(lo);
      if (c < best)
        best = c;
    }
  }
  return best;
}

/* the word stored at mapped address x (0 if x is unmapped or has no memory) */
static inline uint16_t rb_stored_word(const RegisterArea *area, uint32_t na, uint64_t x)
{
  uint32_t i = rb_area_of(area, na, x);
  if (i == na || area[i].mem == NULL)
    return 0;
  return area[i].mem[x - RB_M64(area[i].base)];
}

/* ---- C04: the first violated rule of a table description --------------
 * Rules as listed in the statement.  Areas are scanned in ascending index and
 * the first offender is reported (order before overlap for one index); then
 * registers likewise for order/overlap; then registers in ascending index for
 * placement before default.  An index offends against "ascending" /
 * "non-overlapping" if it does so with respect to ANY earlier index. */
struct rb_init_expect {
  RegisterInitCode code;
  uint32_t index;
};

static inline bool rb_default_ok(const RegisterEntry *e)
{
  uint64_t bits = rb_bits_of(e->type, e->default_value);
  return rb_decodes(e->type, bits) && rb_constraint_ok(e, bits, true);
}

static inline struct rb_init_expect
rb_spec_first_violation(const RegisterArea *area, uint32_t na, const RegisterEntry *entry, uint32_t ne,
                        bool be)
{
  (void)be;
  struct rb_init_expect r = { REG_INIT_SUCCESS, 0 };
  if (na == 0) {
    r.code = REG_INIT_NO_AREAS;
    return r;
  }
  for (uint32_t i = 1; i < RB_NA && i < na; i++) {
    for (uint32_t k = 0; k < RB_NA && k < i; k++)
      if (area[i].base < area[k].base) {
        r.code = REG_INIT_AREA_INVALID_ORDER; r.index = i;
        return r;
      }
    for (uint32_t k = 0; k < RB_NA && k < i; k++)
      if (RB_M64(area[i].base) < RB_A_END(&area[k])) {
        r.code = REG_INIT_AREA_ADDRESS_OVERLAP; r.index = i;
        return r;
      }
  }
  for (uint32_t j = 1; j < RB_NE && j < ne; j++) {
    for (uint32_t k = 0; k < RB_NE && k < j; k++)
      if (entry[j].address < entry[k].address) {
        r.code = REG_INIT_ENTRY_INVALID_ORDER; r.index = j;
        return r;
      }
    for (uint32_t k = 0; k < RB_NE && k < j; k++)
      if (RB_M64(entry[j].address) < RB_E_END(&entry[k])) {
        r.code = REG_INIT_ENTRY_ADDRESS_OVERLAP; r.index = j;
        return r;
      }
  }
  for (uint32_t j = 0; j < RB_NE && j < ne; j++) {
    uint32_t in = na;
    for (uint32_t i = 0; i < RB_NA && i < na; i++)
      if (in == na && RB_E_INSIDE(&entry[j], &area[i]))
        in = i;
    if (in == na) {
      r.code = REG_INIT_ENTRY_IN_MEMORY_HOLE; r.index = j;
      return r;
    }
    if (RB_AREA_LOADS_DEFAULTS(&area[in]) && !rb_default_ok(&entry[j])) {
      r.code = REG_INIT_ENTRY_INVALID_DEFAULT; r.index = j;
      return r;
    }
  }
  return r;
}

/* word k of area ai after a successful initialisation: the image word of the
 * default of the register located there if the area loads defaults, else 0 */
static inline uint16_t
rb_spec_init_word(const RegisterArea *area, uint32_t na, const RegisterEntry *entry, uint32_t ne,
                  bool be, uint32_t ai, uint32_t k)
{
  if (ai >= na || k >= area[ai].size || !RB_AREA_LOADS_DEFAULTS(&area[ai]))
    return 0;
  uint64_t x = RB_M64(area[ai].base) + k;
  for (uint32_t j = 0; j < RB_NE && j < ne; j++)
    if (RB_M64(entry[j].address) <= x && x < RB_E_END(&entry[j]))
      return rb_image_word(entry[j].type, rb_bits_of(entry[j].type, entry[j].default_value), be,
                           (unsigned)(x - RB_M64(entry[j].address)));
  return 0;
}

/* ---- table well-formedness ---------------------------------------------
 * What register_init establishes (C04) and what block access and iteration
 * rely on (C02, C03): areas and registers ascending and disjoint inside the
 * 32-bit space, every register linked to the one area that contains it
 * wholly (area pointer, offset), every area recording exactly the contiguous
 * run of the registers linked to it.  (Nothing is said about first/last of an
 * area without registers.) */
static inline uint32_t rb_area_index(const RegisterTable *t, const RegisterArea *a)
{
  for (uint32_t i = 0; i < RB_NA && i < t->areas; i++)
    if (a == &t->area[i])
      return i;
  return t->areas;
}

static inline bool rb_wf_area(const RegisterTable *t, uint32_t i)
{
  const RegisterArea *a = &t->area[i];
  if (a->size < 1 || RB_A_END(a) > 0xffffffffull)
    return false;
  if (i + 1 < t->areas && RB_A_END(a) > RB_M64(t->area[i + 1].base))
    return false;
  return true;
}

static inline bool rb_wf_entry(const RegisterTable *t, uint32_t j)
{
  const RegisterEntry *e = &t->entry[j];
  if (!RB_TYPE_IS_VALUE(e->type) || !RB_CHECK_IS_ENUM(e->check.type) || RB_E_END(e) > 0xffffffffull)
    return false;
  if (j + 1 < t->entries && RB_E_END(e) > RB_M64(t->entry[j + 1].address))
    return false;
  uint32_t ai = rb_area_index(t, e->area);
  if (ai >= t->areas)
    return false;
  const RegisterArea *a = &t->area[ai];
  return RB_E_INSIDE(e, a) && e->offset == e->address - a->base;
}

static inline bool rb_wf_run(const RegisterTable *t, uint32_t i)
{
  const RegisterArea *a = &t->area[i];
  uint32_t cnt = 0, first = 0, last = 0;
  for (uint32_t j = 0; j < RB_NE && j < t->entries; j++)
    if (t->entry[j].area == a) {
      if (cnt == 0)
        first = j;
      last = j;
      cnt++;
    }
  if (a->entry.count != cnt)
    return false;
  return cnt == 0 || (a->entry.first == first && a->entry.last == last && last - first + 1u == cnt);
}

static inline bool rb_table_wf(const RegisterTable *t)
{
  if (t->areas < 1 || t->areas > RB_NA || t->entries > RB_NE)
    return false;
  for (uint32_t i = 0; i < RB_NA && i < t->areas; i++)
    if (!rb_wf_area(t, i))
      return false;
  for (uint32_t j = 0; j < RB_NE && j < t->entries; j++)
    if (!rb_wf_entry(t, j))
      return false;
  for (uint32_t i = 0; i < RB_NA && i < t->areas; i++)
    if (!rb_wf_run(t, i))
      return false;
  return true;
}

/* ---- C04: postconditions of register_init as plain C -------------------- */

#define RB_AREA_DESC_SAME(a, b) ((a)->read == (b)->read && (a)->write == (b)->write && (a)->flags == (b)->flags \
    && (a)->base == (b)->base && (a)->size == (b)->size && (a)->mem == (b)->mem)
#define RB_ENTRY_DESC_SAME(a, b) ((a)->type == (b)->type && (a)->default_value.u64 == (b)->default_value.u64 \
    && (a)->address == (b)->address && (a)->check.type == (b)->check.type \
    && (a)->check.arg.range.min.u64 == (b)->check.arg.range.min.u64 \
    && (a)->check.arg.range.max.u64 == (b)->check.arg.range.max.u64 \
    && (a)->name == (b)->name && (a)->flags == (b)->flags && (a)->user == (b)->user)

/* the description (terminators included) is what it was */
static inline bool rb_description_same(const RegisterTable *t, const RegisterArea *area0, uint32_t na,
                                       const RegisterEntry *entry0, uint32_t ne)
{
  for (uint32_t i = 0; i <= RB_NA && i <= na; i++)
    if (!RB_AREA_DESC_SAME(&t->area[i], &area0[i]))
      return false;
  for (uint32_t j = 0; j <= RB_NE && j <= ne; j++)
    if (!RB_ENTRY_DESC_SAME(&t->entry[j], &entry0[j]))
      return false;
  return true;
}

/* every word of every memory-backed area is the image word of the default
 * located there (areas that load defaults) or zero */
static inline bool rb_init_words_ok(const RegisterTable *t, uint32_t na, uint32_t ne, bool be)
{
  for (uint32_t i = 0; i < RB_NA && i < na; i++) {
    const RegisterArea *a = &t->area[i];
    if (a->mem != NULL)
      for (uint32_t k = 0; k < RB_SZ && k < a->size; k++)
        if (a->mem[k] != rb_spec_init_word(t->area, na, t->entry, ne, be, i, k))
          return false;
  }
  return true;
}

static inline bool rb_init_verdict_ok(RegisterInit r, struct rb_init_expect x)
{
  if (r.code != x.code)
    return false;
  switch (x.code) {
  case REG_INIT_NO_AREAS: case REG_INIT_AREA_INVALID_ORDER: case REG_INIT_AREA_ADDRESS_OVERLAP:
    return r.pos.area == x.index;
  case REG_INIT_ENTRY_INVALID_ORDER: case REG_INIT_ENTRY_ADDRESS_OVERLAP:
  case REG_INIT_ENTRY_IN_MEMORY_HOLE: case REG_INIT_ENTRY_INVALID_DEFAULT:
    return r.pos.entry == x.index;
  default:
    return true;
  }
}

/* ---- register_set as register_init sees it (initialised table, valid
 * handle, register linked to its area): accepted iff the value is valid for
 * the register (type, constraint), the area has a write callback and the
 * value decodes; then the register's words hold the value's image. */
static inline bool rb_set_accepts(const RegisterTable *t, RegisterHandle idx, RegisterValue v)
{
  const RegisterEntry *e = &t->entry[idx];
  return spec_valid(e, v, (t->flags & REG_TF_DURING_INIT) != 0)
      && e->area->write != NULL
      && spec_float_ok(e->type, spec_bits(e->type, v.value));
}

static inline bool rb_set_stored(const RegisterTable *t, RegisterHandle idx, RegisterValue v)
{
  const RegisterEntry *e = &t->entry[idx];
  const uint16_t *w = e->area->mem + e->offset;
  const unsigned n = RB_WORDS(e->type);
  const uint64_t bits = spec_bits(e->type, v.value);
  const bool be = (t->flags & REG_TF_BIG_ENDIAN) != 0;
  for (unsigned k = 0; k < 4u; k++)
    if (k < n && w[k] != spec_word(bits, n, be, k))
      return false;
  return true;
}

#endif
