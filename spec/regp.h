/* spec/regp.h -- reference reading of doc/regp.txt ("The Register Protocol
 * (Version 0)"), written from the document, not from src/register-protocol.c.
 *
 * Two halves, both pure C (shared by the proofs and by the native replay):
 *
 *   encoder  SPEC_HDR_OCTET(i, ...)   octet i of the header the document
 *                                     prescribes for given field values
 *            SPEC_EMIT_OPTS(...)      option bits a sender must use on a
 *                                     transport (section 5)
 *            spec_hdr_crc(h, opts)    header checksum (section 4)
 *   decoder  spec_hdr_result(h, n)    verdict on a header image
 *            spec_frame_result(...)   verdict on a whole de-framed frame
 *            SPEC_F_*(h)              field accessors
 *
 * Frame layout (section 2), 16-bit words, most significant octet first:
 *
 *   word 0   meta[15:12] options[11:8] type[7:4] version[3:0]
 *   word 1   sequence number
 *   word 2,3 target address (upper word first)
 *   word 4,5 block size (upper word first)
 *   then     header checksum   -- exists iff WITH-HEADER-CRC
 *   then     payload checksum  -- exists iff WITH-PAYLOAD-CRC
 *   then     payload octets
 *
 * "The existence of the Checksum fields is governed by the value of option
 * bits": a checksum word that does not exist occupies no octets, so the header
 * is 12, 14 or 16 octets long.  The header checksum is CRC-16/ARC (initial
 * value zero) over all header octets except the header checksum itself: the
 * six fixed words, continued over the payload checksum word when that exists
 * (the property statement lists the checksum among the protected fields).
 *
 * Readings that the document leaves to the reader, fixed here and listed in
 * the evidence:
 *  - block size counts the payload of every message except READ-REQUEST in
 *    units of the word size announced by WORD-SIZE-16 (octets or 16-bit
 *    words); READ-REQUEST and META carry no payload;
 *  - order of the receiver's checks: header encoding (incl. "too short to
 *    hold the header the option bits announce"), header checksum, payload
 *    size, payload checksum -- each check needs the result of the previous;
 *  - a frame that sets WITH-PAYLOAD-CRC but carries no payload violates a
 *    "shall" of the sender (2.2.3); what the receiver does with a non-zero
 *    checksum word in such a frame is not fixed by the document (corner
 *    SPEC_FRAME_OPEN: accepted or bad payload checksum are both admitted).
 */
#ifndef SPEC_REGP_H
#define SPEC_REGP_H
#include <stddef.h>
#include <stdint.h>
#include <errno.h>
#include "spec/crc16.h"

#define SPEC_RP_VERSION 0u

#define SPEC_T_READ_REQ   0u
#define SPEC_T_READ_RESP  1u
#define SPEC_T_WRITE_REQ  2u
#define SPEC_T_WRITE_RESP 3u
#define SPEC_T_META       15u

#define SPEC_O_W16   1u
#define SPEC_O_HDCRC 2u
#define SPEC_O_PLCRC 4u
#define SPEC_O_RESERVED 8u

#define SPEC_RESP_MAX 11u   /* ACKNOWLEDGE .. EIO, section 3 */
#define SPEC_META_MIN 1u    /* EHEADERENC */
#define SPEC_META_MAX 2u    /* EHEADERCRC */

/* framing kinds of section 5 */
#define SPEC_TX_SLIP 1      /* serial: RFC 1055, classical form */
#define SPEC_TX_LENP 2      /* TCP: varint length prefix */

#define SPEC_T_IS_REQUEST(t)  ((t) == SPEC_T_READ_REQ || (t) == SPEC_T_WRITE_REQ)
#define SPEC_T_IS_RESPONSE(t) ((t) == SPEC_T_READ_RESP || (t) == SPEC_T_WRITE_RESP)
#define SPEC_T_KNOWN(t) (SPEC_T_IS_REQUEST(t) || SPEC_T_IS_RESPONSE(t) || (t) == SPEC_T_META)

/* ---------------------------------------------------------------- encoder */

#define SPEC_BE16_OCTET(v, i) ((uint8_t)(((unsigned)(uint16_t)(v)) >> (8u * (1u - ((unsigned)(i) & 1u)))))
#define SPEC_BE32_OCTET(v, i) ((uint8_t)(((uint32_t)(v)) >> (8u * (3u - ((unsigned)(i) & 3u)))))

/* octet i (0..11) of the six fixed header words */
#define SPEC_HDR_OCTET(i, type, opts, meta, seq, addr, bs) \
  ((i) == 0 ? (uint8_t)((((unsigned)(meta) & 15u) << 4) | ((unsigned)(opts) & 15u)) \
   : (i) == 1 ? (uint8_t)((((unsigned)(type) & 15u) << 4) | SPEC_RP_VERSION) \
   : (i) < 4 ? SPEC_BE16_OCTET(seq, (i) - 2) \
   : (i) < 8 ? SPEC_BE32_OCTET(addr, (i) - 4) \
   : SPEC_BE32_OCTET(bs, (i) - 8))

/* option bits section 5 mandates for a sender: header checksum exactly on
 * serial links, payload checksum exactly on serial links for messages that
 * carry payload (a read request never does, 2.1.1) */
#define SPEC_EMIT_OPTS(serial, w16, type, n) \
  (((w16) ? SPEC_O_W16 : 0u) | ((serial) ? SPEC_O_HDCRC : 0u) \
   | (((serial) && (n) > 0 && (type) != SPEC_T_READ_REQ) ? SPEC_O_PLCRC : 0u))

/* header length in octets for given option bits */
#define SPEC_HLEN(opts) (12u + (((opts) & SPEC_O_HDCRC) ? 2u : 0u) + (((opts) & SPEC_O_PLCRC) ? 2u : 0u))
/* offsets of the checksum words (valid when the option bit is set) */
#define SPEC_HDCRC_OFF 12u
#define SPEC_PLCRC_OFF(opts) (((opts) & SPEC_O_HDCRC) ? 14u : 12u)

/* header checksum of the header image h (at least SPEC_HLEN(opts) octets) */
static inline uint16_t spec_hdr_crc(const uint8_t *h, unsigned opts)
{
  uint16_t c = 0;
  c = spec_crc16_step(c, h[0]); c = spec_crc16_step(c, h[1]);
  c = spec_crc16_step(c, h[2]); c = spec_crc16_step(c, h[3]);
  c = spec_crc16_step(c, h[4]); c = spec_crc16_step(c, h[5]);
  c = spec_crc16_step(c, h[6]); c = spec_crc16_step(c, h[7]);
  c = spec_crc16_step(c, h[8]); c = spec_crc16_step(c, h[9]);
  c = spec_crc16_step(c, h[10]); c = spec_crc16_step(c, h[11]);
  if (opts & SPEC_O_PLCRC) {
    c = spec_crc16_step(c, h[SPEC_PLCRC_OFF(opts)]);
    c = spec_crc16_step(c, h[SPEC_PLCRC_OFF(opts) + 1u]);
  }
  return c;
}

/* checksum of a four-octet payload (the 32-bit big-endian datum of the error
 * responses of section 3.1) */
static inline uint16_t spec_crc_be32(uint32_t v)
{
  uint16_t c = 0;
  c = spec_crc16_step(c, SPEC_BE32_OCTET(v, 0)); c = spec_crc16_step(c, SPEC_BE32_OCTET(v, 1));
  c = spec_crc16_step(c, SPEC_BE32_OCTET(v, 2)); c = spec_crc16_step(c, SPEC_BE32_OCTET(v, 3));
  return c;
}

/* ---------------------------------------------------------------- decoder */

#define SPEC_U8(h) ((const uint8_t *)(h))
#define SPEC_F_META(h)    ((unsigned)(SPEC_U8(h)[0] >> 4))
#define SPEC_F_OPTS(h)    ((unsigned)(SPEC_U8(h)[0] & 15u))
#define SPEC_F_TYPE(h)    ((unsigned)(SPEC_U8(h)[1] >> 4))
#define SPEC_F_VERSION(h) ((unsigned)(SPEC_U8(h)[1] & 15u))
#define SPEC_BE16_AT(h, o) ((uint16_t)(((unsigned)SPEC_U8(h)[o] << 8) | SPEC_U8(h)[(o) + 1u]))
#define SPEC_BE32_AT(h, o) ((uint32_t)(((uint32_t)SPEC_U8(h)[o] << 24) | ((uint32_t)SPEC_U8(h)[(o) + 1u] << 16) \
                                       | ((uint32_t)SPEC_U8(h)[(o) + 2u] << 8) | SPEC_U8(h)[(o) + 3u]))
#define SPEC_F_SEQ(h)   SPEC_BE16_AT(h, 2u)
#define SPEC_F_ADDR(h)  SPEC_BE32_AT(h, 4u)
#define SPEC_F_BS(h)    SPEC_BE32_AT(h, 8u)
/* checksum fields read as zero when they do not exist */
#define SPEC_F_HDCRC(h) ((SPEC_F_OPTS(h) & SPEC_O_HDCRC) ? SPEC_BE16_AT(h, SPEC_HDCRC_OFF) : (uint16_t)0)
#define SPEC_F_PLCRC(h) ((SPEC_F_OPTS(h) & SPEC_O_PLCRC) ? SPEC_BE16_AT(h, SPEC_PLCRC_OFF(SPEC_F_OPTS(h))) : (uint16_t)0)

/* meta field rule per message type (section 2, 2.1.5, 3) */
#define SPEC_META_OK(type, meta) \
  (SPEC_T_IS_REQUEST(type) ? (meta) == 0u \
   : SPEC_T_IS_RESPONSE(type) ? (meta) <= SPEC_RESP_MAX \
   : (type) == SPEC_T_META ? ((meta) >= SPEC_META_MIN && (meta) <= SPEC_META_MAX) : 0)

/* header well-formed: long enough, version, known type, reserved option bit
 * clear, meta field rule, and all announced checksum words present */
static inline int spec_hdr_enc_ok(const void *h, size_t n)
{
  if (n < 12u) return 0;
  if (SPEC_F_VERSION(h) != SPEC_RP_VERSION) return 0;
  if (!SPEC_T_KNOWN(SPEC_F_TYPE(h))) return 0;
  if (SPEC_F_OPTS(h) & SPEC_O_RESERVED) return 0;
  if (!SPEC_META_OK(SPEC_F_TYPE(h), SPEC_F_META(h))) return 0;
  if (n < SPEC_HLEN(SPEC_F_OPTS(h))) return 0;
  return 1;
}

/* verdict on a header: -EBADMSG bad header encoding, -EILSEQ bad header
 * checksum, otherwise the header length in 16-bit words (6, 7 or 8) */
static inline int spec_hdr_result(const void *h, size_t n)
{
  if (!spec_hdr_enc_ok(h, n)) return -EBADMSG;
  if ((SPEC_F_OPTS(h) & SPEC_O_HDCRC)
      && spec_hdr_crc(SPEC_U8(h), SPEC_F_OPTS(h)) != SPEC_F_HDCRC(h)) return -EILSEQ;
  return (int)(SPEC_HLEN(SPEC_F_OPTS(h)) / 2u);
}

/* payload octets the header announces for a frame of this type */
#define SPEC_WORD_OCTETS(opts) (((opts) & SPEC_O_W16) ? (size_t)2 : (size_t)1)
#define SPEC_PAYLOAD_OCTETS(type, opts, bs) \
  (((type) == SPEC_T_READ_REQ || (type) == SPEC_T_META) ? (size_t)0 : (size_t)(bs) * SPEC_WORD_OCTETS(opts))
/* payload size rule: 0 plausible, -EFAULT implausible */
#define SPEC_PLSIZE_RESULT(type, opts, bs, plen) \
  (((size_t)(plen) == SPEC_PAYLOAD_OCTETS(type, opts, bs)) ? 0 : -EFAULT)

/* verdict on a whole frame of n octets; plcrc_computed is CRC-16/ARC of the
 * payload octets h[hlen..n) (supplied by the caller: ghost trace in proofs,
 * computed natively).  0 accepted, -EBADMSG, -EILSEQ, -EFAULT implausible
 * payload size, -EPROTO bad payload checksum. */
static inline int spec_frame_result(const void *h, size_t n, uint16_t plcrc_computed)
{
  const int hr = spec_hdr_result(h, n);
  if (hr < 0) return hr;
  const size_t plen = n - 2u * (size_t)hr;
  if (SPEC_PLSIZE_RESULT(SPEC_F_TYPE(h), SPEC_F_OPTS(h), SPEC_F_BS(h), plen) != 0) return -EFAULT;
  if ((SPEC_F_OPTS(h) & SPEC_O_PLCRC) && plen > 0u && plcrc_computed != SPEC_F_PLCRC(h)) return -EPROTO;
  return 0;
}

/* the corner the document leaves open (see head of file) */
static inline int spec_frame_open(const void *h, size_t n)
{
  const int hr = spec_hdr_result(h, n);
  if (hr < 0) return 0;
  return n == 2u * (size_t)hr
      && SPEC_PLSIZE_RESULT(SPEC_F_TYPE(h), SPEC_F_OPTS(h), SPEC_F_BS(h), 0u) == 0
      && (SPEC_F_OPTS(h) & SPEC_O_PLCRC) && SPEC_F_PLCRC(h) != 0u;
}

/* number of payload octets of an n-octet frame whose header is well-formed,
 * 0 otherwise (clamped so that it can index a ghost trace unconditionally) */
static inline size_t spec_frame_plen(const void *h, size_t n)
{
  if (!spec_hdr_enc_ok(h, n)) return 0;
  return n - SPEC_HLEN(SPEC_F_OPTS(h));
}

#endif
