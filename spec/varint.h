/* Reference definition of ufw's variable-length integers, written from the
 * statement of property C14 (not from the code):
 *
 *   - the image of a value is its minimal little-endian base-128 form: the
 *     value is cut into 7-bit groups, least significant group first, as few
 *     groups as possible (at least one); every octet but the last carries the
 *     continuation bit 0x80;
 *   - decoding an octet string of which `avail` octets exist, with at most
 *     `max` octets per number: the first octet without continuation bit among
 *     the first max terminates the number; if the string ends before a
 *     terminator was seen it is TRUNCATED (an error that consumes nothing); if
 *     max octets exist and none terminates, the sequence is ILLEGAL.
 *
 * Everything is loop-free (closed forms / macro-unrolled over the constant ten
 * groups of a 64-bit value), so the functions can be used in contract clauses
 * without unwinding, and they are plain C for the native replay.
 */
#ifndef SPEC_VARINT_H
#define SPEC_VARINT_H
#include <stddef.h>
#include <stdint.h>

#define SPEC_VARINT_MAX32 5u
#define SPEC_VARINT_MAX64 10u

/* number of 7-bit groups of the minimal form: smallest L >= 1 with n < 2^(7L) */
static inline size_t spec_varint_len(uint64_t n)
{
  return n < (UINT64_C(1) << 7) ? 1u
       : n < (UINT64_C(1) << 14) ? 2u
       : n < (UINT64_C(1) << 21) ? 3u
       : n < (UINT64_C(1) << 28) ? 4u
       : n < (UINT64_C(1) << 35) ? 5u
       : n < (UINT64_C(1) << 42) ? 6u
       : n < (UINT64_C(1) << 49) ? 7u
       : n < (UINT64_C(1) << 56) ? 8u
       : n < (UINT64_C(1) << 63) ? 9u : 10u;
}

/* octet k (k < spec_varint_len(n)) of the image of n; k is clamped so that the
 * function is total */
static inline unsigned char spec_varint_octet(uint64_t n, size_t k)
{
  const size_t kk = k < 10u ? k : 9u;
  const unsigned group = (unsigned)((n >> (7u * kk)) & 0x7fu);
  return (unsigned char)(group | (kk + 1u < spec_varint_len(n) ? 0x80u : 0u));
}

enum spec_varint_verdict {
  SPEC_VARINT_OK = 0,        /* value and consumed are meaningful */
  SPEC_VARINT_TRUNCATED = 1, /* the octet string ends inside the number */
  SPEC_VARINT_ILLEGAL = 2    /* max octets, none of them a terminator */
};

struct spec_varint_result {
  enum spec_varint_verdict verdict;
  uint64_t value;   /* sum of group_k * 128^k over the consumed octets, mod 2^64 */
  size_t consumed;  /* OK: octets of the number; otherwise 0 */
};

/* one position of the reference decoder; max <= 10 */
#define SPEC_VARINT_STEP(k) \
  if ((k) < max) { \
    if ((k) >= avail) { r.verdict = SPEC_VARINT_TRUNCATED; r.value = 0; return r; } \
    r.value |= (uint64_t)(octets[k] & 0x7fu) << (7u * (k)); \
    if ((octets[k] & 0x80u) == 0u) { r.verdict = SPEC_VARINT_OK; r.consumed = (k) + 1u; return r; } \
  }

/* reads octets[k] only for k < avail and k < max */
static inline struct spec_varint_result
spec_varint_decode(const unsigned char *octets, size_t avail, size_t max)
{
  struct spec_varint_result r;
  r.verdict = SPEC_VARINT_ILLEGAL;
  r.value = 0;
  r.consumed = 0;
  SPEC_VARINT_STEP(0u) SPEC_VARINT_STEP(1u) SPEC_VARINT_STEP(2u) SPEC_VARINT_STEP(3u)
  SPEC_VARINT_STEP(4u) SPEC_VARINT_STEP(5u) SPEC_VARINT_STEP(6u) SPEC_VARINT_STEP(7u)
  SPEC_VARINT_STEP(8u) SPEC_VARINT_STEP(9u)
  r.value = 0;
  return r;
}

/* the value mappings of the typed interfaces: signed values travel as their
 * two's complement bit pattern of the same width (decoding "returns the same
 * value" for every signed value; there is no zig-zag step) */
#define SPEC_VARINT_OF_U32(n) ((uint64_t)(uint32_t)(n))
#define SPEC_VARINT_OF_S32(n) ((uint64_t)(uint32_t)(int32_t)(n))
#define SPEC_VARINT_OF_U64(n) ((uint64_t)(n))
#define SPEC_VARINT_OF_S64(n) ((uint64_t)(int64_t)(n))

#endif
