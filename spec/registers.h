/* spec/registers.h -- reference semantics of typed register access
 * (properties C01, C05).  Written from the property statements, not from
 * src/registers/core.c:
 *
 *   - a register of type u16/s16 occupies one 16-bit word, u32/s32/f32 two,
 *     u64/s64/f64 four;
 *   - the value's image is its 16/32/64-bit pattern (two's complement for
 *     signed, IEEE-754 binary32/64 for floats) written as 2/4/8 octets, most
 *     significant octet first iff the table is big-endian, else least
 *     significant first; octet k of the image is octet k of the register's
 *     storage (storage word w holds octets 2w and 2w+1 at increasing octet
 *     addresses; on the little-endian host of the pinned build that is
 *     word == octet[2w] | octet[2w+1] << 8);
 *   - a float is acceptable iff it is zero or normal: exponent field neither
 *     all-zeros (zero excepted) nor all-ones.  Stated on the BIT PATTERN, so it
 *     does not depend on isnormal()/fpclassify();
 *   - a value is valid for a register iff it has the register's type and meets
 *     the constraint: none; inclusive minimum; inclusive maximum; inclusive
 *     range; always-fail (passes only while the table is being initialised);
 *     callback = the validator's verdict, an arbitrary but FIXED predicate of
 *     (register address, type, bit pattern): an uninterpreted function in the
 *     proofs, a seeded hash natively.
 *
 * Plain C, loop-free; compiled by goto-cc for the proofs and by gcc for the
 * native replay.
 */
#ifndef SPEC_REGISTERS_H
#define SPEC_REGISTERS_H
#include <stdint.h>
#include <stdbool.h>
#include <ufw/register-table.h>

/* ---- types ------------------------------------------------------------ */

#define SPEC_REG_TYPE_OK(ty) ((int)(ty) >= (int)REG_TYPE_UINT16 && (int)(ty) <= (int)REG_TYPE_FLOAT64)
#define SPEC_REGV_TYPE_OK(ct) ((int)(ct) >= (int)REGV_TYPE_TRIVIAL && (int)(ct) <= (int)REGV_TYPE_CALLBACK)
#define SPEC_REG_WORDS(ty) \
  (((ty) == REG_TYPE_UINT16 || (ty) == REG_TYPE_SINT16) ? 1u : \
   ((ty) == REG_TYPE_UINT32 || (ty) == REG_TYPE_SINT32 || (ty) == REG_TYPE_FLOAT32) ? 2u : \
   ((ty) == REG_TYPE_UINT64 || (ty) == REG_TYPE_SINT64 || (ty) == REG_TYPE_FLOAT64) ? 4u : 0u)
/* the same without ?: (usable in assigns-clause conditions) */
#define SPEC_REG_W1(ty) ((ty) == REG_TYPE_UINT16 || (ty) == REG_TYPE_SINT16)
#define SPEC_REG_W2(ty) ((ty) == REG_TYPE_UINT32 || (ty) == REG_TYPE_SINT32 || (ty) == REG_TYPE_FLOAT32)
#define SPEC_REG_W4(ty) ((ty) == REG_TYPE_UINT64 || (ty) == REG_TYPE_SINT64 || (ty) == REG_TYPE_FLOAT64)
#define SPEC_REG_IS_UNSIGNED(ty) \
  ((ty) == REG_TYPE_UINT16 || (ty) == REG_TYPE_UINT32 || (ty) == REG_TYPE_UINT64)
#define SPEC_REG_IS_SIGNED(ty) \
  ((ty) == REG_TYPE_SINT16 || (ty) == REG_TYPE_SINT32 || (ty) == REG_TYPE_SINT64)

/* ---- bit patterns ------------------------------------------------------ */

static inline uint32_t spec_f32_bits(float f)
{
  union { float f; uint32_t u; } c;
  c.f = f;
  return c.u;
}

static inline uint64_t spec_f64_bits(double f)
{
  union { double f; uint64_t u; } c;
  c.f = f;
  return c.u;
}

static inline float spec_f32_of(uint32_t u)
{
  union { float f; uint32_t u; } c;
  c.u = u;
  return c.f;
}

static inline double spec_f64_of(uint64_t u)
{
  union { double f; uint64_t u; } c;
  c.u = u;
  return c.f;
}

/* the 16/32/64-bit pattern of a value of type ty (zero-extended to 64 bit) */
static inline uint64_t spec_bits(RegisterType ty, RegisterValueU v)
{
  switch (ty) {
  case REG_TYPE_UINT16:  return v.u16;
  case REG_TYPE_SINT16:  return (uint16_t)v.s16;
  case REG_TYPE_UINT32:  return v.u32;
  case REG_TYPE_SINT32:  return (uint32_t)v.s32;
  case REG_TYPE_FLOAT32: return spec_f32_bits(v.f32);
  case REG_TYPE_UINT64:  return v.u64;
  case REG_TYPE_SINT64:  return (uint64_t)v.s64;
  case REG_TYPE_FLOAT64: return spec_f64_bits(v.f64);
  default:               return 0u;
  }
}

/* the value of type ty that has the given bit pattern */
static inline RegisterValueU spec_value_of(RegisterType ty, uint64_t bits)
{
  RegisterValueU v;
  v.u64 = 0u;
  switch (ty) {
  case REG_TYPE_UINT16:  v.u16 = (uint16_t)bits; break;
  case REG_TYPE_SINT16:  v.s16 = (int16_t)(uint16_t)bits; break;
  case REG_TYPE_UINT32:  v.u32 = (uint32_t)bits; break;
  case REG_TYPE_SINT32:  v.s32 = (int32_t)(uint32_t)bits; break;
  case REG_TYPE_FLOAT32: v.f32 = spec_f32_of((uint32_t)bits); break;
  case REG_TYPE_UINT64:  v.u64 = bits; break;
  case REG_TYPE_SINT64:  v.s64 = (int64_t)bits; break;
  case REG_TYPE_FLOAT64: v.f64 = spec_f64_of(bits); break;
  default: break;
  }
  return v;
}

/* bits that belong to a pattern of n words */
#define SPEC_MASK(n) ((n) >= 4u ? 0xffffffffffffffffull : (((uint64_t)1 << (16u * (n))) - 1u))

/* ---- octet image -------------------------------------------------------- */

/* octet k (0 <= k < 2n) of the image of an n-word pattern */
#define SPEC_OCTET(bits, n, be, k) \
  ((uint8_t)(((uint64_t)(bits) >> (8u * ((be) ? (2u * (n) - 1u - (k)) : (k)))) & 0xffu))
static inline uint8_t spec_octet(uint64_t bits, unsigned n, bool be, unsigned k)
{
  return SPEC_OCTET(bits, n, be, k);
}

/* storage word w (0 <= w < n): octets 2w and 2w+1 at increasing addresses,
 * read as a uint16_t by the little-endian host */
#define SPEC_WORD(bits, n, be, w) \
  ((uint16_t)((uint16_t)SPEC_OCTET(bits, n, be, 2u * (w)) | ((uint16_t)SPEC_OCTET(bits, n, be, 2u * (w) + 1u) << 8)))
static inline uint16_t spec_word(uint64_t bits, unsigned n, bool be, unsigned w)
{
  return SPEC_WORD(bits, n, be, w);
}

/* "the n words at p hold exactly the image of bits" (n <= 4, no loop) */
#define SPEC_WORDS_ARE(p, n, bits, be) \
  (((n) < 1u || (p)[0] == SPEC_WORD(bits, n, be, 0u)) && \
   ((n) < 2u || (p)[1] == SPEC_WORD(bits, n, be, 1u)) && \
   ((n) < 3u || (p)[2] == SPEC_WORD(bits, n, be, 2u)) && \
   ((n) < 4u || (p)[3] == SPEC_WORD(bits, n, be, 3u)))

/* function form (arguments evaluated once) */
static inline bool spec_words_are(const uint16_t *p, unsigned n, uint64_t bits, bool be)
{
  return SPEC_WORDS_ARE(p, n, bits, be);
}

/* contribution of storage word w to the pattern */
#define SPEC_WORD_BITS(x, n, be, w) \
  ((((uint64_t)((x) & 0xffu)) << (8u * ((be) ? (2u * (n) - 1u - 2u * (w)) : (2u * (w))))) | \
   (((uint64_t)(((x) >> 8) & 0xffu)) << (8u * ((be) ? (2u * (n) - 2u - 2u * (w)) : (2u * (w) + 1u)))))
/* the pattern whose image the n words at p are (n <= 4) */
static inline uint64_t spec_decode(const uint16_t *p, unsigned n, bool be)
{
  uint64_t bits = 0u;
  if (n >= 1u) bits |= SPEC_WORD_BITS((uint64_t)p[0], n, be, 0u);
  if (n >= 2u) bits |= SPEC_WORD_BITS((uint64_t)p[1], n, be, 1u);
  if (n >= 3u) bits |= SPEC_WORD_BITS((uint64_t)p[2], n, be, 2u);
  if (n >= 4u) bits |= SPEC_WORD_BITS((uint64_t)p[3], n, be, 3u);
  return bits;
}

/* ---- floats -------------------------------------------------------------- */

/* zero, or exponent field not in {0, all-ones}: on the bit pattern */
static inline bool spec_float_ok(RegisterType ty, uint64_t bits)
{
  if (ty == REG_TYPE_FLOAT32) {
    const uint32_t b = (uint32_t)bits;
    const uint32_t e = (b >> 23) & 0xffu;
    return ((b & 0x7fffffffu) == 0u) || (e != 0u && e != 0xffu);
  }
  if (ty == REG_TYPE_FLOAT64) {
    const uint64_t e = (bits >> 52) & 0x7ffu;
    return ((bits & 0x7fffffffffffffffull) == 0u) || (e != 0u && e != 0x7ffu);
  }
  return true;
}

/* ---- constraints --------------------------------------------------------- */

static inline int64_t spec_signed_of(RegisterType ty, uint64_t bits)
{
  switch (ty) {
  case REG_TYPE_SINT16: return (int16_t)(uint16_t)bits;
  case REG_TYPE_SINT32: return (int32_t)(uint32_t)bits;
  default:              return (int64_t)bits;
  }
}

/* value >= limit in the order of the type (inclusive); floats: IEEE order,
 * false if either side is a NaN */
static inline bool spec_min_ok(RegisterType ty, RegisterValueU v, RegisterValueU lim)
{
  if (!SPEC_REG_TYPE_OK(ty))
    return false;
  if (SPEC_REG_IS_UNSIGNED(ty))
    return spec_bits(ty, v) >= spec_bits(ty, lim);
  if (SPEC_REG_IS_SIGNED(ty))
    return spec_signed_of(ty, spec_bits(ty, v)) >= spec_signed_of(ty, spec_bits(ty, lim));
  if (ty == REG_TYPE_FLOAT32)
    return v.f32 >= lim.f32;
  return v.f64 >= lim.f64;
}

static inline bool spec_max_ok(RegisterType ty, RegisterValueU v, RegisterValueU lim)
{
  if (!SPEC_REG_TYPE_OK(ty))
    return false;
  if (SPEC_REG_IS_UNSIGNED(ty))
    return spec_bits(ty, v) <= spec_bits(ty, lim);
  if (SPEC_REG_IS_SIGNED(ty))
    return spec_signed_of(ty, spec_bits(ty, v)) <= spec_signed_of(ty, spec_bits(ty, lim));
  if (ty == REG_TYPE_FLOAT32)
    return v.f32 <= lim.f32;
  return v.f64 <= lim.f64;
}

/* the verdict of a validator callback: arbitrary, but a fixed function of
 * (register address, type, bit pattern).  CBMC treats the
 * __CPROVER_uninterpreted_ prefix as an uninterpreted function symbol. */
#if !VERIF_IS_NATIVE
_Bool __CPROVER_uninterpreted_reg_cb_verdict(uint32_t address, int type, uint64_t bits);
#define SPEC_CB_VERDICT(address, type, bits) \
  __CPROVER_uninterpreted_reg_cb_verdict((uint32_t)(address), (int)(type), (uint64_t)(bits))
#else
extern uint64_t st_cb_seed;
static inline bool spec_cb_verdict_native(uint32_t address, int type, uint64_t bits)
{
  uint64_t x = bits ^ st_cb_seed ^ ((uint64_t)address << 32) ^ ((uint64_t)(unsigned)type << 24);
  x ^= x >> 33; x *= 0xff51afd7ed558ccdull; x ^= x >> 33; x *= 0xc4ceb9fe1a85ec53ull; x ^= x >> 33;
  return (x & 1u) != 0u;
}
#define SPEC_CB_VERDICT(address, type, bits) \
  spec_cb_verdict_native((uint32_t)(address), (int)(type), (uint64_t)(bits))
#endif

/* v is valid for register e */
static inline bool spec_valid(const RegisterEntry *e, RegisterValue v, bool during_init)
{
  if (v.type != e->type)
    return false;
  switch (e->check.type) {
  case REGV_TYPE_TRIVIAL:  return true;
  case REGV_TYPE_FAIL:     return during_init;
  case REGV_TYPE_MIN:      return spec_min_ok(e->type, v.value, e->check.arg.min);
  case REGV_TYPE_MAX:      return spec_max_ok(e->type, v.value, e->check.arg.max);
  case REGV_TYPE_RANGE:    return spec_min_ok(e->type, v.value, e->check.arg.range.min)
                                && spec_max_ok(e->type, v.value, e->check.arg.range.max);
  case REGV_TYPE_CALLBACK: return SPEC_CB_VERDICT(e->address, e->type, spec_bits(e->type, v.value));
  default:                 return false;
  }
}

/* the same for a value given by its bit pattern, of the register's own type */
static inline bool spec_valid_bits(const RegisterEntry *e, uint64_t bits, bool during_init)
{
  RegisterValue v;
  v.type = e->type;
  v.value = spec_value_of(e->type, bits);
  return spec_valid(e, v, during_init);
}

/* ---- typed set / get: outcome ------------------------------------------------ */

/* Reasons for which the statement says a typed set is refused; several may
 * apply at once, the statement fixes no precedence among the last three.  An
 * uninitialised table and a handle that is not a register of the table are
 * decided before anything of an entry is looked at. */
#define SPEC_R_UNINIT   1u
#define SPEC_R_NOENTRY  2u
#define SPEC_R_RANGE    4u    /* wrong type or constraint violated (checked variant only) */
#define SPEC_R_READONLY 8u    /* the area has no write callback */
#define SPEC_R_INVALID  16u   /* float NaN, infinite or subnormal */

static inline unsigned spec_set_reasons(const RegisterTable *t, RegisterHandle idx, RegisterValue v, bool checked)
{
  if ((t->flags & REG_TF_INITIALISED) == 0)
    return SPEC_R_UNINIT;
  if (idx >= t->entries)
    return SPEC_R_NOENTRY;
  const RegisterEntry *e = t->entry + idx;
  unsigned r = 0u;
  if (checked && !spec_valid(e, v, (t->flags & REG_TF_DURING_INIT) != 0))
    r |= SPEC_R_RANGE;
  if (e->area->write == NULL)
    r |= SPEC_R_READONLY;
  if (!spec_float_ok(e->type, spec_bits(e->type, v.value)))
    r |= SPEC_R_INVALID;
  return r;
}

/* the reported code names one of the reasons that apply */
static inline bool spec_code_names_reason(RegisterAccessCode code, unsigned reasons)
{
  return (code == REG_ACCESS_UNINITIALISED && (reasons & SPEC_R_UNINIT) != 0u)
      || (code == REG_ACCESS_NOENTRY && (reasons & SPEC_R_NOENTRY) != 0u)
      || (code == REG_ACCESS_RANGE && (reasons & SPEC_R_RANGE) != 0u)
      || (code == REG_ACCESS_READONLY && (reasons & SPEC_R_READONLY) != 0u)
      || (code == REG_ACCESS_INVALID && (reasons & SPEC_R_INVALID) != 0u);
}

/* the words of register idx hold exactly the image of `bits` */
static inline bool spec_reg_holds(const RegisterTable *t, RegisterHandle idx, uint64_t bits)
{
  const RegisterEntry *e = t->entry + idx;
  return spec_words_are(e->area->mem + e->offset, SPEC_REG_WORDS(e->type), bits,
                        (t->flags & REG_TF_BIG_ENDIAN) != 0);
}

/* the pattern that the words of register idx are the image of */
static inline uint64_t spec_reg_bits(const RegisterTable *t, RegisterHandle idx)
{
  const RegisterEntry *e = t->entry + idx;
  return spec_decode(e->area->mem + e->offset, SPEC_REG_WORDS(e->type), (t->flags & REG_TF_BIG_ENDIAN) != 0);
}

#endif /* SPEC_REGISTERS_H */
