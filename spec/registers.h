/* spec/registers.h -- reference semantics of typed register access
 * (properties C01, C05).  Written from the property statements, not from
 * src/registers/core.c:
 *
 *   - a register of type u16/s16 occupies one 16-bit word, u32/s32/f32 two,
 *     u64/s64/f64 four;
 *   - the value's image is its 16/32/64-bit pattern (two's complement for
 *     signed, IEEE-754 binary32/64 for floats) written as 2/4/8 octets, most
 *     significant octet first iff the table is big-endian, else least
 *     significant first; octet k of the image is octet k of the register's
 *     storage (storage word w holds octets 2w and 2w+1 at increasing octet
 *     addresses; on the little-endian host of the pinned build that is
 *     word == octet[2w] | octet[2w+1] << 8);
 *   - a float is acceptable iff it is zero or normal: exponent field neither
 *     all-zeros (zero excepted) nor all-ones.  Stated on the BIT PATTERN, so it
 *     does not depend on isnormal()/fpclassify();
 *   - a value is valid for a register iff it has the register's type and meets
 *     the constraint: none; inclusive minimum; inclusive maximum; inclusive
 *     range; always-fail (passes only while the table is being initialised);
 *     callback = the validator's verdict, an arbitrary but FIXED predicate of
 *     (register address, type, bit pattern): an uninterpreted function in the
 *     proofs, a seeded hash natively.
 *
 * Two layers.  The MACROS (SPEC_...) are call-free expressions and are what
 * the contracts use: dfcc instruments every function that a contract clause
 * calls (each local assignment is checked against a write set), which made
 * clause evaluation the dominant cost; boolean macros are also free of ?: so
 * that they may appear in assigns-clause conditions.  The FUNCTIONS (spec_...)
 * say the same thing case by case and are used by harness code and stubs;
 * target `spec_layers` proves macro == function for all arguments.
 *
 * Plain C, loop-free; compiled by goto-cc for the proofs and by gcc for the
 * native replay.  Host: little-endian, IEEE-754 (the pinned build).
 */
#ifndef SPEC_REGISTERS_H
#define SPEC_REGISTERS_H
#include <stdint.h>
#include <stdbool.h>
#include <ufw/register-table.h>

/* ---- types ------------------------------------------------------------ */

#define SPEC_REG_TYPE_OK(ty) ((int)(ty) >= (int)REG_TYPE_UINT16 && (int)(ty) <= (int)REG_TYPE_FLOAT64)
#define SPEC_REGV_TYPE_OK(ct) ((int)(ct) >= (int)REGV_TYPE_TRIVIAL && (int)(ct) <= (int)REGV_TYPE_CALLBACK)
#define SPEC_REG_W1(ty) ((ty) == REG_TYPE_UINT16 || (ty) == REG_TYPE_SINT16)
#define SPEC_REG_W2(ty) ((ty) == REG_TYPE_UINT32 || (ty) == REG_TYPE_SINT32 || (ty) == REG_TYPE_FLOAT32)
#define SPEC_REG_W4(ty) ((ty) == REG_TYPE_UINT64 || (ty) == REG_TYPE_SINT64 || (ty) == REG_TYPE_FLOAT64)
#define SPEC_REG_WORDS(ty) (SPEC_REG_W1(ty) ? 1u : SPEC_REG_W2(ty) ? 2u : SPEC_REG_W4(ty) ? 4u : 0u)
#define SPEC_REG_IS_UNSIGNED(ty) \
  ((ty) == REG_TYPE_UINT16 || (ty) == REG_TYPE_UINT32 || (ty) == REG_TYPE_UINT64)
#define SPEC_REG_IS_SIGNED(ty) \
  ((ty) == REG_TYPE_SINT16 || (ty) == REG_TYPE_SINT32 || (ty) == REG_TYPE_SINT64)

/* ---- bit patterns ------------------------------------------------------ */

/* macro: all members of RegisterValueU start at the same address, so on the
 * little-endian host the 16/32/64-bit pattern of the value of type ty is the
 * low 16/32/64 bits of the u64 member (written without ?:) */
#define SPEC_BITS(ty, u) \
  ((u).u64 & ((-(uint64_t)SPEC_REG_W1(ty) & 0xffffull) | (-(uint64_t)SPEC_REG_W2(ty) & 0xffffffffull) \
              | (-(uint64_t)SPEC_REG_W4(ty))))

static inline uint32_t spec_f32_bits(float f)
{
  union { float f; uint32_t u; } c;
  c.f = f;
  return c.u;
}

static inline uint64_t spec_f64_bits(double f)
{
  union { double f; uint64_t u; } c;
  c.f = f;
  return c.u;
}

static inline float spec_f32_of(uint32_t u)
{
  union { float f; uint32_t u; } c;
  c.u = u;
  return c.f;
}

static inline double spec_f64_of(uint64_t u)
{
  union { double f; uint64_t u; } c;
  c.u = u;
  return c.f;
}

/* function: the 16/32/64-bit pattern of a value of type ty, case by case */
static inline uint64_t spec_bits(RegisterType ty, RegisterValueU v)
{
  switch (ty) {
  case REG_TYPE_UINT16:  return v.u16;
  case REG_TYPE_SINT16:  return (uint16_t)v.s16;
  case REG_TYPE_UINT32:  return v.u32;
  case REG_TYPE_SINT32:  return (uint32_t)v.s32;
  case REG_TYPE_FLOAT32: return spec_f32_bits(v.f32);
  case REG_TYPE_UINT64:  return v.u64;
  case REG_TYPE_SINT64:  return (uint64_t)v.s64;
  case REG_TYPE_FLOAT64: return spec_f64_bits(v.f64);
  default:               return 0u;
  }
}

/* the value of type ty that has the given bit pattern */
static inline RegisterValueU spec_value_of(RegisterType ty, uint64_t bits)
{
  RegisterValueU v;
  v.u64 = 0u;
  switch (ty) {
  case REG_TYPE_UINT16:  v.u16 = (uint16_t)bits; break;
  case REG_TYPE_SINT16:  v.s16 = (int16_t)(uint16_t)bits; break;
  case REG_TYPE_UINT32:  v.u32 = (uint32_t)bits; break;
  case REG_TYPE_SINT32:  v.s32 = (int32_t)(uint32_t)bits; break;
  case REG_TYPE_FLOAT32: v.f32 = spec_f32_of((uint32_t)bits); break;
  case REG_TYPE_UINT64:  v.u64 = bits; break;
  case REG_TYPE_SINT64:  v.s64 = (int64_t)bits; break;
  case REG_TYPE_FLOAT64: v.f64 = spec_f64_of(bits); break;
  default: break;
  }
  return v;
}

/* bits that belong to a pattern of n words */
#define SPEC_MASK(n) ((n) >= 4u ? 0xffffffffffffffffull : (((uint64_t)1 << (16u * (n))) - 1u))

/* ---- octet image -------------------------------------------------------- */

/* octet k (0 <= k < 2n) of the image of an n-word pattern */
#define SPEC_OCTET(bits, n, be, k) \
  ((uint8_t)(((uint64_t)(bits) >> (8u * ((be) ? (2u * (n) - 1u - (k)) : (k)))) & 0xffu))
static inline uint8_t spec_octet(uint64_t bits, unsigned n, bool be, unsigned k)
{
  return SPEC_OCTET(bits, n, be, k);
}

/* storage word w (0 <= w < n): octets 2w and 2w+1 at increasing addresses,
 * read as a uint16_t by the little-endian host */
#define SPEC_WORD(bits, n, be, w) \
  ((uint16_t)((uint16_t)SPEC_OCTET(bits, n, be, 2u * (w)) | ((uint16_t)SPEC_OCTET(bits, n, be, 2u * (w) + 1u) << 8)))
static inline uint16_t spec_word(uint64_t bits, unsigned n, bool be, unsigned w)
{
  return SPEC_WORD(bits, n, be, w);
}

/* "the n words at p hold exactly the image of bits" (n <= 4, no loop) */
#define SPEC_WORDS_ARE(p, n, bits, be) \
  (((n) < 1u || (p)[0] == SPEC_WORD(bits, n, be, 0u)) && \
   ((n) < 2u || (p)[1] == SPEC_WORD(bits, n, be, 1u)) && \
   ((n) < 3u || (p)[2] == SPEC_WORD(bits, n, be, 2u)) && \
   ((n) < 4u || (p)[3] == SPEC_WORD(bits, n, be, 3u)))

/* contribution of storage word w to the pattern */
#define SPEC_WORD_BITS(x, n, be, w) \
  ((((uint64_t)((x) & 0xffu)) << (8u * ((be) ? (2u * (n) - 1u - 2u * (w)) : (2u * (w))))) | \
   (((uint64_t)(((x) >> 8) & 0xffu)) << (8u * ((be) ? (2u * (n) - 2u - 2u * (w)) : (2u * (w) + 1u)))))
/* the pattern whose image the n words at p are (n <= 4) */
#define SPEC_DECODE(p, n, be) \
  (((n) >= 1u ? SPEC_WORD_BITS((uint64_t)(p)[0], n, be, 0u) : (uint64_t)0u) | \
   ((n) >= 2u ? SPEC_WORD_BITS((uint64_t)(p)[1], n, be, 1u) : (uint64_t)0u) | \
   ((n) >= 3u ? SPEC_WORD_BITS((uint64_t)(p)[2], n, be, 2u) : (uint64_t)0u) | \
   ((n) >= 4u ? SPEC_WORD_BITS((uint64_t)(p)[3], n, be, 3u) : (uint64_t)0u))
static inline uint64_t spec_decode(const uint16_t *p, unsigned n, bool be)
{
  return SPEC_DECODE(p, n, be);
}

/* ---- floats -------------------------------------------------------------- */

/* zero, or exponent field not in {0, all-ones}: on the bit pattern */
#define SPEC_F32_OK(b) \
  ((((b) & 0x7fffffffu) == 0u) || ((((b) >> 23) & 0xffu) != 0u && (((b) >> 23) & 0xffu) != 0xffu))
#define SPEC_F64_OK(b) \
  ((((b) & 0x7fffffffffffffffull) == 0u) || ((((b) >> 52) & 0x7ffu) != 0u && (((b) >> 52) & 0x7ffu) != 0x7ffu))
/* for a value u (RegisterValueU) read as type ty */
#define SPEC_FLOAT_OK(ty, u) \
  (((ty) != REG_TYPE_FLOAT32 && (ty) != REG_TYPE_FLOAT64) \
   || ((ty) == REG_TYPE_FLOAT32 && SPEC_F32_OK((u).u32)) \
   || ((ty) == REG_TYPE_FLOAT64 && SPEC_F64_OK((u).u64)))

static inline bool spec_float_ok(RegisterType ty, uint64_t bits)
{
  if (ty == REG_TYPE_FLOAT32) {
    const uint32_t b = (uint32_t)bits;
    const uint32_t e = (b >> 23) & 0xffu;
    return ((b & 0x7fffffffu) == 0u) || (e != 0u && e != 0xffu);
  }
  if (ty == REG_TYPE_FLOAT64) {
    const uint64_t e = (bits >> 52) & 0x7ffu;
    return ((bits & 0x7fffffffffffffffull) == 0u) || (e != 0u && e != 0x7ffu);
  }
  return true;
}

/* ---- constraints --------------------------------------------------------- */

/* value >= / <= limit in the order of the type (inclusive); floats: IEEE
 * order, false if either side is a NaN; false for anything that is not a
 * value type */
#define SPEC_CMP_OK(ty, v, lim, OP) \
  (((ty) == REG_TYPE_UINT16 && (v).u16 OP (lim).u16) || ((ty) == REG_TYPE_UINT32 && (v).u32 OP (lim).u32) \
   || ((ty) == REG_TYPE_UINT64 && (v).u64 OP (lim).u64) || ((ty) == REG_TYPE_SINT16 && (v).s16 OP (lim).s16) \
   || ((ty) == REG_TYPE_SINT32 && (v).s32 OP (lim).s32) || ((ty) == REG_TYPE_SINT64 && (v).s64 OP (lim).s64) \
   || ((ty) == REG_TYPE_FLOAT32 && (v).f32 OP (lim).f32) || ((ty) == REG_TYPE_FLOAT64 && (v).f64 OP (lim).f64))
#define SPEC_MIN_OK(ty, v, lim) SPEC_CMP_OK(ty, v, lim, >=)
#define SPEC_MAX_OK(ty, v, lim) SPEC_CMP_OK(ty, v, lim, <=)

static inline int64_t spec_signed_of(RegisterType ty, uint64_t bits)
{
  switch (ty) {
  case REG_TYPE_SINT16: return (int16_t)(uint16_t)bits;
  case REG_TYPE_SINT32: return (int32_t)(uint32_t)bits;
  default:              return (int64_t)bits;
  }
}

/* function form, on the patterns: unsigned as zero-extended, signed as
 * sign-extended 64-bit integers, floats by IEEE comparison */
static inline bool spec_min_ok(RegisterType ty, RegisterValueU v, RegisterValueU lim)
{
  if (!SPEC_REG_TYPE_OK(ty))
    return false;
  if (SPEC_REG_IS_UNSIGNED(ty))
    return spec_bits(ty, v) >= spec_bits(ty, lim);
  if (SPEC_REG_IS_SIGNED(ty))
    return spec_signed_of(ty, spec_bits(ty, v)) >= spec_signed_of(ty, spec_bits(ty, lim));
  if (ty == REG_TYPE_FLOAT32)
    return v.f32 >= lim.f32;
  return v.f64 >= lim.f64;
}

static inline bool spec_max_ok(RegisterType ty, RegisterValueU v, RegisterValueU lim)
{
  if (!SPEC_REG_TYPE_OK(ty))
    return false;
  if (SPEC_REG_IS_UNSIGNED(ty))
    return spec_bits(ty, v) <= spec_bits(ty, lim);
  if (SPEC_REG_IS_SIGNED(ty))
    return spec_signed_of(ty, spec_bits(ty, v)) <= spec_signed_of(ty, spec_bits(ty, lim));
  if (ty == REG_TYPE_FLOAT32)
    return v.f32 <= lim.f32;
  return v.f64 <= lim.f64;
}

/* the verdict of a validator callback: arbitrary, but a fixed function of
 * (register address, type, bit pattern).  CBMC treats the
 * __CPROVER_uninterpreted_ prefix as an uninterpreted function symbol. */
#if !VERIF_IS_NATIVE
unsigned __CPROVER_uninterpreted_reg_cb_verdict(uint32_t address, int type, uint64_t bits);
/* (an uninterpreted _Bool may come back as any 8-bit pattern: use one bit of an unsigned) */
#define SPEC_CB_VERDICT(address, type, bits) \
  ((__CPROVER_uninterpreted_reg_cb_verdict((uint32_t)(address), (int)(type), (uint64_t)(bits)) & 1u) != 0u)
#else
extern uint64_t st_cb_seed;
static inline bool spec_cb_verdict_native(uint32_t address, int type, uint64_t bits)
{
  uint64_t x = bits ^ st_cb_seed ^ ((uint64_t)address << 32) ^ ((uint64_t)(unsigned)type << 24);
  x ^= x >> 33; x *= 0xff51afd7ed558ccdull; x ^= x >> 33; x *= 0xc4ceb9fe1a85ec53ull; x ^= x >> 33;
  return (x & 1u) != 0u;
}
#define SPEC_CB_VERDICT(address, type, bits) \
  spec_cb_verdict_native((uint32_t)(address), (int)(type), (uint64_t)(bits))
#endif

/* value `vu` (RegisterValueU) of type `vty` is valid for register e (pointer);
 * `during` = the table is being initialised */
#define SPEC_VALID(e, vty, vu, during) \
  ((vty) == (e)->type \
   && ((e)->check.type == REGV_TYPE_TRIVIAL \
       || ((e)->check.type == REGV_TYPE_FAIL && (during)) \
       || ((e)->check.type == REGV_TYPE_MIN && SPEC_MIN_OK((e)->type, vu, (e)->check.arg.min)) \
       || ((e)->check.type == REGV_TYPE_MAX && SPEC_MAX_OK((e)->type, vu, (e)->check.arg.max)) \
       || ((e)->check.type == REGV_TYPE_RANGE && SPEC_MIN_OK((e)->type, vu, (e)->check.arg.range.min) \
           && SPEC_MAX_OK((e)->type, vu, (e)->check.arg.range.max)) \
       || ((e)->check.type == REGV_TYPE_CALLBACK \
           && SPEC_CB_VERDICT((e)->address, (e)->type, SPEC_BITS((e)->type, vu)))))

static inline bool spec_valid(const RegisterEntry *e, RegisterValue v, bool during_init)
{
  if (v.type != e->type)
    return false;
  switch (e->check.type) {
  case REGV_TYPE_TRIVIAL:  return true;
  case REGV_TYPE_FAIL:     return during_init;
  case REGV_TYPE_MIN:      return spec_min_ok(e->type, v.value, e->check.arg.min);
  case REGV_TYPE_MAX:      return spec_max_ok(e->type, v.value, e->check.arg.max);
  case REGV_TYPE_RANGE:    return spec_min_ok(e->type, v.value, e->check.arg.range.min)
                                && spec_max_ok(e->type, v.value, e->check.arg.range.max);
  case REGV_TYPE_CALLBACK: return SPEC_CB_VERDICT(e->address, e->type, spec_bits(e->type, v.value));
  default:                 return false;
  }
}

#endif /* SPEC_REGISTERS_H */
