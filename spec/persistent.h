/* Reference definitions for the persistent-storage properties (C10, C11),
 * written from the property statements, shared by the proofs and the native
 * replay.
 *
 *  - "offset + n beyond the data size" is meant in mathematical integers:
 *    SPEC_PS_IN_RANGE never forms the sum.
 *  - the trivial checksum is the 16-bit sum of the octets (mod 2^16), started
 *    at `init`; SPEC_BYTESUM16_STEP is its fold step.
 *  - the checksum field on the medium is the in-memory image of the uint16_t /
 *    uint32_t value (little-endian machine model of the pinned build).
 */
#ifndef SPEC_PERSISTENT_H
#define SPEC_PERSISTENT_H
#include <stddef.h>
#include <stdint.h>

#define SPEC_PS_IN_RANGE(offset, n, size) ((offset) <= (size) && (n) <= (size) - (offset))

#define SPEC_BYTESUM16_STEP(c, o) ((uint16_t)(((unsigned)(c) + (unsigned)(uint8_t)(o)) & 0xffffu))

static inline uint16_t spec_bytesum16(const unsigned char *data, size_t n, uint16_t init)
{
  uint32_t acc = init;
  for (size_t i = 0; i < n; i++)
    acc = (acc + data[i]) % 65536u;
  return (uint16_t)acc;
}

/* value of a 2- resp. 4-octet little-endian field */
#define SPEC_PS_LE16(b0, b1) ((uint32_t)((uint32_t)(b0) | ((uint32_t)(b1) << 8)))
#define SPEC_PS_LE32(b0, b1, b2, b3) \
  ((uint32_t)((uint32_t)(b0) | ((uint32_t)(b1) << 8) | ((uint32_t)(b2) << 16) | ((uint32_t)(b3) << 24)))
/* octet i of the little-endian image of v */
#define SPEC_PS_OCTET(v, i) ((uint8_t)(((uint32_t)(v) >> (8 * (i))) & 0xffu))
#endif
