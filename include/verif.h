/* verif.h -- prelude of every proof unit and of every native replay driver.
 *
 * Proof mode (default):   compiled by goto-cc, contracts are CBMC clauses.
 * Native mode (-DVERIF_NATIVE): compiled by gcc with ASan/UBSan; inputs come
 * from the replay file through IN()/IN_MEM(); the contract of the function
 * under test is evaluated by a generated wrapper (tools/native.py).
 */
#ifndef VERIF_H
#define VERIF_H

#include <stddef.h>
#include <stdint.h>
#include <stdlib.h>
#include <string.h>
#include <sys/types.h>

/* implication without CBMC's ==> so the same text is plain C natively */
#define IMPLIES(a, b) (!(a) || (b))

/* Ghost indices: arbitrary, never assigned by the code under proof.  A
 * postcondition stated at g_k is the universally quantified statement. */
extern size_t g_k, g_j, g_a;

#ifndef VERIF_NATIVE

#define VERIF_GHOSTS size_t g_k, g_j, g_a;
#define GHOST_HAVOC() do { g_k = nondet_size_t(); g_j = nondet_size_t(); g_a = nondet_size_t(); } while (0)

/* named scalar input: unconstrained */
#define IN(type, name) type name = nondet_##type();
#define VERIF_ND(type) type nondet_##type(void);
VERIF_ND(size_t) VERIF_ND(ssize_t) VERIF_ND(int) VERIF_ND(unsigned) VERIF_ND(long)
VERIF_ND(uint8_t) VERIF_ND(uint16_t) VERIF_ND(uint32_t) VERIF_ND(uint64_t)
VERIF_ND(int8_t) VERIF_ND(int16_t) VERIF_ND(int32_t) VERIF_ND(int64_t)
VERIF_ND(float) VERIF_ND(double) VERIF_ND(char) VERIF_ND(_Bool)
/* named memory input: exact-size heap block, unconstrained content.  The
 * witness reads make the first cells and the ghost-index cell visible in
 * counterexample traces (heap content is otherwise not part of a trace). */
#ifdef VERIF_TRACE
#define VERIF_W(name, len, i) \
  { unsigned char name##_w##i = ((size_t)(i) < (size_t)(len)) ? ((unsigned char *)name)[i] : 0; (void)name##_w##i; }
#define IN_MEM(name, len) \
  unsigned char *name = malloc(len); __CPROVER_assume(name != NULL); \
  VERIF_W(name,len,0) VERIF_W(name,len,1) VERIF_W(name,len,2) VERIF_W(name,len,3) \
  VERIF_W(name,len,4) VERIF_W(name,len,5) VERIF_W(name,len,6) VERIF_W(name,len,7) \
  VERIF_W(name,len,8) VERIF_W(name,len,9) VERIF_W(name,len,10) VERIF_W(name,len,11) \
  VERIF_W(name,len,12) VERIF_W(name,len,13) VERIF_W(name,len,14) VERIF_W(name,len,15) \
  { unsigned char name##_wk = (g_k < (size_t)(len)) ? ((unsigned char *)name)[g_k] : 0; (void)name##_wk; } \
  { unsigned char name##_wj = (g_j < (size_t)(len)) ? ((unsigned char *)name)[g_j] : 0; (void)name##_wj; }
#else
#define IN_MEM(name, len) \
  unsigned char *name = malloc(len); __CPROVER_assume(name != NULL);
#endif
#define ASSUME(c) __CPROVER_assume(c)
#define CHECK(c, msg) __CPROVER_assert(c, msg)
/* reachability canary: must be reported FAILED by every proof run */
#define VERIF_CANARY() __CPROVER_assert(0, "VERIF-CANARY end of harness reachable")
#define VERIF_IS_NATIVE 0

#else /* VERIF_NATIVE */

#include <stdio.h>
#define VERIF_GHOSTS size_t g_k, g_j, g_a;
long long verif_replay_scalar(const char *name, int *found);
void verif_spurious(const char *what);
void verif_fail(const char *what);
#define GHOST_HAVOC() do { int f_; g_k = (size_t)verif_replay_scalar("g_k", &f_); \
  g_j = (size_t)verif_replay_scalar("g_j", &f_); g_a = (size_t)verif_replay_scalar("g_a", &f_); } while (0)
#define IN(type, name) type name; { int f_; name = (type)verif_replay_scalar(#name, &f_); }
#define VERIF_ND(type)
unsigned char *verif_alloc_exact(const char *name, size_t len);
#define IN_MEM(name, len) unsigned char *name = verif_alloc_exact(#name, (len));
#define ASSUME(c) do { if (!(c)) verif_spurious(#c); } while (0)
#define CHECK(c, msg) do { if (!(c)) verif_fail(msg); } while (0)
#define VERIF_CANARY() do { } while (0)
#define VERIF_IS_NATIVE 1
#define __CPROVER_assume(c) ASSUME(c)
#define __CPROVER_assert(c, msg) CHECK(c, msg)

#endif

#endif /* VERIF_H */
