/* models.h -- contracts standing in for libc functions whose CBMC built-in
 * model is unusable in a given proof (memmove with symbolic overlapping
 * ranges does not terminate in reasonable time; memcpy with symbolic length
 * into uint16_t arrays copies wrong contents, DESIGN section 9).  They are
 * used only through --replace-call-with-contract and are *assumptions about
 * libc*, listed as such in the evidence.  The copied-content fact is stated at
 * the ghost index g_k relative to the start of the copy, which is the index
 * the callers' postconditions use. */
#ifndef VERIF_MODELS_H
#define VERIF_MODELS_H
#include <string.h>
#define VM_CL(i, n) ((i) < (n) ? (i) : 0)

void *memmove(void *dest, const void *src, size_t n)
__CPROVER_requires(n == 0 || (__CPROVER_w_ok(dest, n) && __CPROVER_r_ok(src, n)))
__CPROVER_assigns(n > 0: __CPROVER_object_upto(dest, n))
__CPROVER_ensures(__CPROVER_return_value == dest)
__CPROVER_ensures(IMPLIES(g_k < n,
    ((unsigned char *)dest)[VM_CL(g_k, n)] == __CPROVER_old(((const unsigned char *)src)[VM_CL(g_k, n)])))
;
#endif
