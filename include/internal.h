/* Forwarding header for NATIVE replay builds only: tools/native.py compiles a
 * cleaned copy of src/registers/core.c from another directory, so its
 * `#include "internal.h"` no longer finds src/registers/internal.h next to
 * it.  (In proof builds the real file is found first, relative to core.c.) */
#include "registers/internal.h"
