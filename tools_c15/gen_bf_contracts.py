#!/usr/bin/env python3
"""Generator of the C15 proof unit (endian codecs, include/ufw/binary-format.h).

Writes, from the *naming scheme* of the API and the *property statement* of C15
(not from the function bodies):

  contracts/binary-format.h          contracts of all bf_* functions
  harness/binary-format.c            one harness per function + lemma harnesses
  harness/binary-format.pre.h        proof TU prelude: includes the real header
  harness/binary-format.noswap.pre.h same, with UFW_USE_BUILTIN_SWAP undefined
  targets/C15.json                   the target list

usage:
  python3 tools_c15/gen_bf_contracts.py [--repo DIR]          (re)generate
  python3 tools_c15/gen_bf_contracts.py [--repo DIR] --check  exit 1 if the
        committed files differ from what would be generated now (header gained,
        lost or re-typed a function, call graph changed)

The header of DIR (default $VERIF_REPO or /repo) is read for three things only:
 1. the inventory of `static inline` functions: every one must be explained by
    the scheme  bf_swapW | bf_{ref,set}_{u,s,f}W{n,b,l} | bf_inrange_{u,s}W,
    with exactly the signature the scheme predicts, and every function the
    scheme predicts must exist.  Anything else: generation FAILS (exit 2).
 2. the call graph among bf_* functions in the active configuration
    (gcc -E with the pinned defines): callers are verified against the
    *contracts* of their callees (--replace-call-with-contract).
 3. which functions reach a swap that has a compiler-builtin and a hand-written
    variant (second configuration, thorough tier).
The bodies are never turned into specification text.
"""
import json
import os
import re
import subprocess
import sys
import tempfile

HERE = os.path.dirname(os.path.dirname(os.path.abspath(__file__)))

WIDTHS = [16, 24, 32, 40, 48, 56, 64]
PARTIAL = [24, 40, 48, 56]
ORDERS = ["n", "b", "l"]
NATIVE_IS = "l"  # pinned build: -DSYSTEM_ENDIANNESS_LITTLE (the pre-header #errors otherwise)
BUILTIN_SWAPS = ["bf_swap16", "bf_swap32", "bf_swap64"]
PINNED_DEFS = ["-DSYSTEM_ENDIANNESS_LITTLE", "-DUFW_USE_BUILTIN_SWAP", "-D_DEFAULT_SOURCE", "-DNDEBUG"]


class GenError(Exception):
    pass


def ucont(w):
    return "uint16_t" if w == 16 else ("uint32_t" if w <= 32 else "uint64_t")


def scont(w):
    return ucont(w)[1:]


def vtype(kind, w):
    if kind == "u":
        return ucont(w)
    if kind == "s":
        return scont(w)
    return {32: "float", 64: "double"}[w]


# --------------------------------------------------------------------------
# what the naming scheme predicts


def scheme():
    """name -> dict(op, kind, w, order, ret, params) in header order."""
    out = {}
    for w in WIDTHS:
        out["bf_swap%d" % w] = dict(op="swap", kind="u", w=w, order=None, ret=ucont(w),
                                    params="const %s value" % ucont(w))
    for op in ("ref", "set"):
        for kind in "usf":
            for o in ORDERS:
                for w in WIDTHS:
                    if kind == "f" and w not in (32, 64):
                        continue
                    name = "bf_%s_%s%d%s" % (op, kind, w, o)
                    if op == "ref":
                        out[name] = dict(op=op, kind=kind, w=w, order=o, ret=vtype(kind, w),
                                         params="const void *ptr")
                    else:
                        out[name] = dict(op=op, kind=kind, w=w, order=o, ret="void *",
                                         params="void *ptr, const %s value" % vtype(kind, w))
    for w in PARTIAL:
        for kind in "us":
            out["bf_inrange_%s%d" % (kind, w)] = dict(op="inrange", kind=kind, w=w, order=None, ret="bool",
                                                      params="const %s value" % vtype(kind, w))
    return out


def norm(s):
    s = re.sub(r"\s+", " ", s.strip())
    s = re.sub(r"\s*\*\s*", " *", s)
    return s.strip()


# --------------------------------------------------------------------------
# reading the header


FN_RE = re.compile(r"^static\s+inline\s+([A-Za-z_][\w \t\*]*?)\s*\n?\s*\b(\w+)\s*\(([^)]*)\)\s*\{", re.M)


def match_brace(text, i):
    depth = 0
    while i < len(text):
        if text[i] == "{":
            depth += 1
        elif text[i] == "}":
            depth -= 1
            if depth == 0:
                return i
        i += 1
    raise GenError("unbalanced braces")


def strip_comments(text):
    return re.sub(r"/\*.*?\*/", lambda m: re.sub(r"[^\n]", " ", m.group(0)), text, flags=re.S)


def functions_of(text):
    """[(name, ret, params, body)] of all static inline function definitions."""
    out = []
    for m in FN_RE.finditer(text):
        end = match_brace(text, m.end() - 1)
        out.append((m.group(2), norm(m.group(1)), norm(m.group(3)), text[m.end():end]))
    return out


def read_header(repo):
    path = os.path.join(repo, "include/ufw/binary-format.h")
    raw = strip_comments(open(path).read())
    raw_fns = functions_of(raw)
    n_static = len(re.findall(r"^static\b", raw, re.M))
    if n_static != len(raw_fns):
        raise GenError("%s: %d lines start with 'static' but %d function definitions were parsed; "
                       "the generator does not understand this header any more" % (path, n_static, len(raw_fns)))
    # active configuration: preprocess with the pinned defines
    sys.path.insert(0, os.path.join(HERE, "tools"))
    os.environ.setdefault("VERIF_REPO", repo)
    import engine  # noqa: E402  (read-only use of render_toolchain)
    engine.REPO = repo
    with tempfile.TemporaryDirectory(prefix="genbf_") as tmp:
        engine.render_toolchain(os.path.join(tmp, "ufw", "toolchain.h"))
        p = subprocess.run(["gcc", "-E", "-P", "-std=gnu99", "-I" + os.path.join(repo, "include"), "-I" + tmp]
                           + PINNED_DEFS + [path], capture_output=True, text=True)
        if p.returncode != 0:
            raise GenError("gcc -E failed: " + p.stderr[-2000:])
    act = [f for f in functions_of(p.stdout) if f[0].startswith("bf_")]
    return path, raw_fns, act


def inventory(repo):
    path, raw_fns, act = read_header(repo)
    exp = scheme()
    problems = []
    seen = {}
    for name, ret, params, _ in raw_fns:
        if name in seen:
            problems.append("function %s is defined more than once (conditional variants?)" % name)
        seen[name] = (ret, params)
        if name not in exp:
            problems.append("header defines %s, which the naming scheme of this generator does not explain" % name)
            continue
        e = exp[name]
        if norm(ret) != norm(e["ret"]) or norm(params) != norm(e["params"]):
            problems.append("%s: signature '%s (%s)' differs from the scheme's '%s (%s)'" %
                            (name, ret, params, norm(e["ret"]), norm(e["params"])))
    for name in exp:
        if name not in seen:
            problems.append("scheme predicts %s, the header does not define it" % name)
    active = {f[0]: f for f in act}
    for name in seen:
        if name not in active:
            problems.append("%s is not compiled in the pinned configuration" % name)
    if problems:
        raise GenError("inventory of %s does not match the generator:\n  " % path + "\n  ".join(problems))
    calls = {}
    for name, _, _, body in act:
        cs = []
        for c in re.findall(r"\b(bf_\w+)\s*\(", body):
            if c not in exp:
                raise GenError("%s calls %s, unknown to the generator" % (name, c))
            if c not in cs:
                cs.append(c)
        calls[name] = cs
    order = [f[0] for f in raw_fns]
    return exp, calls, order


def reaches(calls, name, goals, memo=None):
    memo = {} if memo is None else memo
    if name in memo:
        return memo[name]
    memo[name] = False
    r = name in goals or any(reaches(calls, c, goals, memo) for c in calls.get(name, []))
    memo[name] = r
    return r


# --------------------------------------------------------------------------
# contract text (from the property statement)


def eff(order):
    return NATIVE_IS if order == "n" else order


def order_word(order):
    return {"b": "big-endian", "l": "little-endian",
            "n": "native (= %s-endian on the pinned build)" % {"b": "big", "l": "little"}[NATIVE_IS]}[order]


def value_image(kind, w):
    """64-bit image of parameter `value` (two's complement / IEEE bit pattern)."""
    if kind == "f":
        return "((uint64_t)bf_spec_f%d_bits(value))" % w
    return "BF_U(value)"


def octet_shift(order, n, k):
    return 8 * (n - 1 - k) if eff(order) == "b" else 8 * k


def contract_of(name, d):
    op, kind, w, order = d["op"], d["kind"], d["w"], d["order"]
    n = w // 8
    L = []
    if op == "swap":
        L.append("/* %s: reverses exactly the low %d octets */" % (name, n))
        L.append("static inline %s %s(%s)" % (d["ret"], name, d["params"]))
        L.append("__CPROVER_assigns()")
        for k in range(n):
            L.append("__CPROVER_ensures(((BF_U(__CPROVER_return_value) >> %d) & 0xff) == ((BF_U(value) >> %d) & 0xff))"
                     % (8 * k, 8 * (n - 1 - k)))
        cw = int(ucont(w)[4:-2])
        if cw > w:
            L.append("/* a %d-bit value maps to a %d-bit value (nothing but the low %d octets is produced) */" % (w, w, n))
            L.append("__CPROVER_ensures(IMPLIES((BF_U(value) >> %d) == 0, (BF_U(__CPROVER_return_value) >> %d) == 0))" % (w, w))
        L.append(";")
    elif op == "inrange":
        L.append("/* %s: true exactly for the values representable as %s %d-bit integer */" %
                 (name, "unsigned" if kind == "u" else "two's complement", w))
        L.append("static inline %s %s(%s)" % (d["ret"], name, d["params"]))
        L.append("__CPROVER_assigns()")
        if kind == "u":
            L.append("__CPROVER_ensures((__CPROVER_return_value != 0) == ((uint64_t)value <= UINT64_C(0x%x)))" % ((1 << w) - 1))
        else:
            L.append("__CPROVER_ensures((__CPROVER_return_value != 0) == ((int64_t)value >= -INT64_C(0x%x) && (int64_t)value <= INT64_C(0x%x)))"
                     % (1 << (w - 1), (1 << (w - 1)) - 1))
        L.append(";")
    elif op == "set":
        L.append("/* %s: writes the %d octets of `value`, %s, at ptr; nothing else; returns ptr + %d */" %
                 (name, n, order_word(order), n))
        L.append("static inline %s%s(%s)" % (d["ret"], name, d["params"]))
        L.append("__CPROVER_requires(BF_BLK_OK(ptr, %d))" % n)
        L.append("__CPROVER_assigns(__CPROVER_object_upto(ptr, %d))" % n)
        L.append("__CPROVER_ensures(__CPROVER_return_value == (void *)((unsigned char *)ptr + %d))" % n)
        img = value_image(kind, w)
        for k in range(n):
            L.append("__CPROVER_ensures(BF_O(ptr, %d) == ((%s >> %d) & 0xff))" % (k, img, octet_shift(order, n, k)))
        L.append("__CPROVER_ensures(BF_NEIGHBOUR_SAME(%d))" % n)
        L.append(";")
    elif op == "ref":
        how = {"u": "zero-extended", "s": "sign-extended from bit %d" % (w - 1), "f": "as IEEE-754 bit pattern (NaN payloads included)"}[kind]
        L.append("/* %s: the %d octets at ptr, %s, %s; reads nothing else, writes nothing */" %
                 (name, n, order_word(order), how))
        L.append("static inline %s %s(%s)" % (d["ret"], name, d["params"]))
        L.append("__CPROVER_requires(__CPROVER_r_ok(ptr, %d))" % n)
        L.append("__CPROVER_assigns()")
        asm = "BF_%sE%d(ptr)" % ("B" if eff(order) == "b" else "L", n)
        if kind == "u":
            L.append("__CPROVER_ensures(BF_U(__CPROVER_return_value) == %s)" % asm)
        elif kind == "s":
            L.append("__CPROVER_ensures(BF_U(__CPROVER_return_value) == BF_SEXT(%s, %d))" % (asm, w))
        else:
            L.append("__CPROVER_ensures((uint64_t)bf_spec_f%d_bits(__CPROVER_return_value) == %s)" % (w, asm))
        L.append(";")
    return "\n".join(L) + "\n"


GEN_NOTE = """ * GENERATED by tools_c15/gen_bf_contracts.py -- do not edit.
 * Regenerate:  python3 tools_c15/gen_bf_contracts.py            (reads /repo or $VERIF_REPO)
 * Up to date?: python3 tools_c15/gen_bf_contracts.py --check"""


def gen_contracts(exp, order):
    L = []
    L.append("""/* Contracts of include/ufw/binary-format.h (property C15), %d functions.
 *
%s
 *
 * The clauses are derived from the naming scheme
 *   bf_swapW | bf_{ref,set}_{u,s,f}W{n,b,l} | bf_inrange_{u,s}W
 * and the property statement, not from the function bodies:
 *   set     octet k of the image == (value >> 8*(W/8-1-k)) & 0xff (big-endian)
 *                                   (value >> 8*k) & 0xff         (little-endian)
 *           native == little-endian (pinned build, -DSYSTEM_ENDIANNESS_LITTLE);
 *           writes exactly W/8 octets (assigns clause; restated at the ghost
 *           index g_j for every other octet of the surrounding block);
 *           returns ptr + W/8.  `value` of a signed kind is taken as its two's
 *           complement image, of a float kind as its IEEE-754 bit pattern.
 *   ref     value reassembled from exactly W/8 octets; zero-extended (u),
 *           sign-extended from bit W-1 (s), bit-identical (f: compared as bit
 *           patterns through a union, never with ==, so NaN payloads count).
 *   swap    octet lane k of the result == lane W/8-1-k of the argument.
 *   inrange true <=> value in [0, 2^W) (u) / [-2^(W-1), 2^(W-1)) (s).
 * Octets are enumerated explicitly (W/8 <= 8), so a failed clause names the
 * octet.  The same text is evaluated natively by the replay wrapper.
 */
#ifndef CONTRACTS_BINARY_FORMAT_H
#define CONTRACTS_BINARY_FORMAT_H

#include <stdbool.h>
#include <stdint.h>

/* Ghost description of the exact-size block the codec works in (set by the
 * harness): ptr == g_bf_blk + g_bf_off, the block has g_bf_len octets. */
extern unsigned char *g_bf_blk;
extern size_t g_bf_len, g_bf_off;

/* octet k at p, as a 64-bit number */
#define BF_O(p, k) ((uint64_t)((const unsigned char *)(p))[k])
/* 64-bit image of an integer: unsigned zero-extended, signed sign-extended */
#define BF_U(v) ((uint64_t)(v))
/* sign extension of the w-bit number u (u < 2^w) to 64 bits */
#define BF_SEXT(u, w) ((((u) >> ((w) - 1)) & 1) ? ((u) | (~UINT64_C(0) << ((w) - 1))) : (u))
#define BF_MASK(w) (~UINT64_C(0) >> (64 - (w)))

/* IEEE-754 bit patterns (the machine model of the proof: binary32/binary64) */
static inline uint32_t bf_spec_f32_bits(float v) { union { float f; uint32_t u; } c; c.f = v; return c.u; }
static inline uint64_t bf_spec_f64_bits(double v) { union { double f; uint64_t u; } c; c.f = v; return c.u; }
static inline float bf_spec_f32_from_bits(uint32_t u) { union { float f; uint32_t u; } c; c.u = u; return c.f; }
static inline double bf_spec_f64_from_bits(uint64_t u) { union { double f; uint64_t u; } c; c.u = u; return c.f; }

#define BF_BLK_OK(ptr, n) \\
  (g_bf_len <= 64 && g_bf_off <= g_bf_len && (size_t)(n) <= g_bf_len - g_bf_off \\
   && (unsigned char *)(ptr) == g_bf_blk + g_bf_off \\
   && __CPROVER_rw_ok(g_bf_blk, g_bf_len) && __CPROVER_w_ok(ptr, n))
#define BF_CL(i) ((i) < g_bf_len ? (i) : 0)
/* every octet of the block outside [g_bf_off, g_bf_off + n) keeps its value */
#define BF_NEIGHBOUR_SAME(n) \\
  IMPLIES(g_j < g_bf_len && (g_j < g_bf_off || g_j >= g_bf_off + (size_t)(n)), \\
          g_bf_blk[BF_CL(g_j)] == __CPROVER_old(g_bf_blk[BF_CL(g_j)]))
""" % (len(exp), GEN_NOTE))
    for n in range(2, 9):
        be = " | ".join("(BF_O(p, %d) << %d)" % (k, 8 * (n - 1 - k)) for k in range(n))
        le = " | ".join("(BF_O(p, %d) << %d)" % (k, 8 * k) for k in range(n))
        L.append("#define BF_BE%d(p) (%s)" % (n, be))
        L.append("#define BF_LE%d(p) (%s)" % (n, le))
    L.append("")
    for name in order:
        L.append(contract_of(name, exp[name]))
    L.append("#endif /* CONTRACTS_BINARY_FORMAT_H */")
    return "\n".join(L) + "\n"


# --------------------------------------------------------------------------
# harnesses


def in_value(kind, w):
    """(declaration text, expression) of an arbitrary argument of the kind."""
    if kind == "f":
        bt = "uint%d_t" % w
        return ("IN(%s, in_vbits) %s v = bf_spec_f%d_from_bits(in_vbits);" % (bt, vtype(kind, w), w), "v")
    return ("IN(%s, in_v)" % vtype(kind, w), "in_v")


def harness_of(name, d):
    op, kind, w = d["op"], d["kind"], d["w"]
    n = w // 8
    L = ["void h_%s(void)" % name, "{"]
    if op in ("swap", "inrange"):
        L.append("  IN(%s, in_v)" % vtype(kind, w))
        L.append("  %s(in_v);" % name)
    elif op == "set":
        decl, e = in_value(kind, w)
        L.append("  BF_BLOCK(%d)" % n)
        L.append("  " + decl)
        L.append("  %s(in_blk + in_off, %s);" % (name, e))
    else:
        L.append("  BF_BLOCK(%d)" % n)
        L.append("  %s(in_blk + in_off);" % name)
    L += ["  VERIF_CANARY();", "}", ""]
    return "\n".join(L)


def lemma_roundtrip(kind, w, o, suffix=""):
    n = w // 8
    s, r = "bf_set_%s%d%s" % (kind, w, o), "bf_ref_%s%d%s" % (kind, w, o)
    decl, e = in_value(kind, w)
    L = ["void h_l_rt_%s%d%s%s(void)" % (kind, w, o, suffix), "{"]
    L.append("  BF_BLOCK(%d)" % n)
    L.append("  " + decl)
    L.append("  unsigned char before = in_blk[g_j < g_bf_len ? g_j : 0];")
    L.append("  void *end = %s(in_blk + in_off, %s);" % (s, e))
    L.append("  %s r = %s(in_blk + in_off);" % (vtype(kind, w), r))
    L.append('  CHECK(end == (void *)(in_blk + in_off + %d), "%s returns ptr + %d");' % (n, s, n))
    L.append('  CHECK(IMPLIES(g_j < g_bf_len && (g_j < in_off || g_j >= in_off + %d), in_blk[g_j < g_bf_len ? g_j : 0] == before), '
             '"%s leaves the neighbouring octets untouched");' % (n, s))
    if kind == "f":
        L.append('  CHECK(bf_spec_f%d_bits(r) == in_vbits, "%s(%s(v)) is bit-identical to v (NaN payloads included)");' % (w, r, s))
    elif w in PARTIAL:
        if kind == "u":
            L.append('  CHECK(BF_U(r) == (BF_U(in_v) & BF_MASK(%d)), "%s(%s(v)) == v on the low %d bits");' % (w, r, s, w))
        else:
            L.append('  CHECK(BF_U(r) == BF_SEXT(BF_U(in_v) & BF_MASK(%d), %d), "%s(%s(v)) == low %d bits of v, sign-extended");'
                     % (w, w, r, s, w))
        L.append('  CHECK((r == in_v) == (bf_inrange_%s%d(in_v) != 0), "%s(%s(v)) == v exactly when bf_inrange_%s%d(v)");'
                 % (kind, w, r, s, kind, w))
    else:
        L.append('  CHECK(r == in_v, "%s(%s(v)) == v");' % (r, s))
    L += ["  VERIF_CANARY();", "}", ""]
    return "\n".join(L)


def lemma_involution(w, suffix=""):
    t = ucont(w)
    f = "bf_swap%d" % w
    L = ["void h_l_invol_swap%d%s(void)" % (w, suffix), "{"]
    L.append("  IN(%s, in_v)" % t)
    L.append("  %s once = %s(in_v);" % (t, f))
    L.append("  %s twice = %s(once);" % (t, f))
    if int(t[4:-2]) == w:
        L.append('  CHECK(twice == in_v, "%s(%s(v)) == v");' % (f, f))
    else:
        L.append('  CHECK((BF_U(twice) & BF_MASK(%d)) == (BF_U(in_v) & BF_MASK(%d)), "%s(%s(v)) == v on the low %d bits");' % (w, w, f, f, w))
        L.append('  CHECK(IMPLIES((BF_U(in_v) >> %d) == 0, twice == in_v), "%s is an involution on %d-bit values");' % (w, f, w))
    L += ["  VERIF_CANARY();", "}", ""]
    return "\n".join(L)


def gen_harness(exp, order):
    L = []
    L.append("""/* Harnesses for include/ufw/binary-format.h (property C15).
 *
%s
 *
 * BF_BLOCK(n): the n octets the codec works on sit at offset in_off (0..7,
 * every alignment) of an exact-size heap block with in_tail (0..1) octets
 * behind them, arbitrary content: any access outside [ptr, ptr + n) that is
 * not inside the block fails a pointer check (proof) / ASan (replay), any
 * write inside the block but outside the n octets fails the assigns clause
 * and the neighbour clause at g_j.  Float arguments are made from arbitrary
 * bit patterns (all NaNs, signalling ones and every payload included).
 */
unsigned char *g_bf_blk;
size_t g_bf_len, g_bf_off;

#define BF_BLOCK(n) \\
  GHOST_HAVOC(); \\
  IN(size_t, in_off) IN(size_t, in_tail) \\
  ASSUME(in_off <= 7 && in_tail <= 1); \\
  IN_MEM(in_blk, in_off + (n) + in_tail) \\
  g_bf_blk = in_blk; g_bf_len = in_off + (n) + in_tail; g_bf_off = in_off;

/* ---- one harness per function: the call is checked against the contract ---- */
""" % GEN_NOTE)
    for name in order:
        L.append(harness_of(name, exp[name]))
    L.append("/* ---- lemma: loading what was stored returns the value (real code, nothing replaced) ---- */\n")
    for kind in "usf":
        for w in WIDTHS:
            if kind == "f" and w not in (32, 64):
                continue
            for o in ORDERS:
                L.append(lemma_roundtrip(kind, w, o))
    L.append("/* ---- lemma: the swaps are involutions ---- */\n")
    for w in WIDTHS:
        L.append(lemma_involution(w))
    L.append("""/* ---- the proof's float model keeps every bit pattern: union punning and
 * by-value passing are the identity on all 2^32 / 2^64 patterns (quiet and
 * signalling NaNs with any payload included), so the float clauses above are
 * not vacuous ---- */
static float bf_h_pass_f32(float x) { return x; }
static double bf_h_pass_f64(double x) { return x; }

void h_l_f32_bits_model(void)
{
  IN(uint32_t, in_vbits)
  float f = bf_spec_f32_from_bits(in_vbits);
  float g = bf_h_pass_f32(f);
  CHECK(bf_spec_f32_bits(g) == in_vbits, "float: from_bits, copy, by-value call, bits is the identity on all 2^32 patterns");
  VERIF_CANARY();
}

void h_l_f64_bits_model(void)
{
  IN(uint64_t, in_vbits)
  double f = bf_spec_f64_from_bits(in_vbits);
  double g = bf_h_pass_f64(f);
  CHECK(bf_spec_f64_bits(g) == in_vbits, "double: from_bits, copy, by-value call, bits is the identity on all 2^64 patterns");
  VERIF_CANARY();
}
""")
    return "\n".join(L)


PRE = """/* Prelude of the C15 proof unit: the real header is the code under proof
 * (the unit has no .c source of its own).
 *
%s
 */
%s#if !defined(SYSTEM_ENDIANNESS_LITTLE) || defined(SYSTEM_ENDIANNESS_BIG)
#error "contracts/binary-format.h is generated for the pinned little-endian build (native == little)"
#endif
#include <ufw/binary-format.h>
#if UFW_BITS_PER_BYTE != 8
#error "contracts/binary-format.h is generated for 8-bit bytes"
#endif
"""

NOSWAP = """/* second configuration (thorough tier): the hand-written swaps instead of the
 * compiler builtins; the engine always passes -DUFW_USE_BUILTIN_SWAP */
#undef UFW_USE_BUILTIN_SWAP
"""


# --------------------------------------------------------------------------
# targets


def gen_targets(exp, calls, order):
    T = []
    for name in order:
        d = exp[name]
        t = {"name": name, "entry": "h_" + name, "enforce": name}
        if calls.get(name):
            t["replace"] = list(calls[name])
        T.append(t)
    for kind in "usf":
        for w in WIDTHS:
            if kind == "f" and w not in (32, 64):
                continue
            for o in ORDERS:
                T.append({"name": "l_rt_%s%d%s" % (kind, w, o), "entry": "h_l_rt_%s%d%s" % (kind, w, o),
                          "about": "bf_ref_%s%d%s/bf_set_%s%d%s" % (kind, w, o, kind, w, o)})
    for w in WIDTHS:
        T.append({"name": "l_invol_swap%d" % w, "entry": "h_l_invol_swap%d" % w, "about": "bf_swap%d" % w})
    T.append({"name": "l_f32_bits_model", "entry": "h_l_f32_bits_model", "about": "bf_spec_f32_bits"})
    T.append({"name": "l_f64_bits_model", "entry": "h_l_f64_bits_model", "about": "bf_spec_f64_bits"})
    # second configuration: hand-written bf_swap16/32/64.  Everything that
    # reaches one of them is enforced again with the real callees inlined
    # (no replacement), and the lemmas are repeated.
    nos = {"pre": ["harness/binary-format.noswap.pre.h", "harness/binary-format.pre.h"], "tiers": ["thorough"]}
    memo = {}
    for name in order:
        if reaches(calls, name, set(BUILTIN_SWAPS), memo):
            t = {"name": name + "_handswap", "entry": "h_" + name, "enforce": name}
            t.update(nos)
            T.append(t)
    for kind in "usf":
        for w in (16, 32, 64):
            if kind == "f" and w == 16:
                continue
            for o in ORDERS:
                if reaches(calls, "bf_set_%s%d%s" % (kind, w, o), set(BUILTIN_SWAPS), memo) or \
                   reaches(calls, "bf_ref_%s%d%s" % (kind, w, o), set(BUILTIN_SWAPS), memo):
                    t = {"name": "l_rt_%s%d%s_handswap" % (kind, w, o), "entry": "h_l_rt_%s%d%s" % (kind, w, o),
                         "about": "bf_ref_%s%d%s/bf_set_%s%d%s" % (kind, w, o, kind, w, o)}
                    t.update(nos)
                    T.append(t)
    for w in (16, 32, 64):
        t = {"name": "l_invol_swap%d_handswap" % w, "entry": "h_l_invol_swap%d" % w, "about": "bf_swap%d" % w}
        t.update(nos)
        T.append(t)
    n_fn = len(order)
    spec = {
        "property": "C15",
        "generated_by": "tools_c15/gen_bf_contracts.py (do not edit; regenerate)",
        "explanation": (
            "All %d static inline functions of include/ufw/binary-format.h are enforced, one target each, against contracts "
            "generated from the naming scheme and the property statement: set = octet k of the image is the value's octet "
            "(most significant first for b, least significant first for l and n), exactly W/8 octets assigned, every other "
            "octet of an exact-size block unchanged (ghost index g_j), returns ptr + W/8, at every offset 0..7; ref = value "
            "reassembled from exactly W/8 octets, zero-/sign-extended, floats compared as bit patterns; swap = lane reversal; "
            "inrange <=> representable.  Callers are proved against the contracts of their callees (replace), so a failure is "
            "reported at the function that is wrong.  Lemma targets run the real code without replacement: "
            "ref(set(v)) == v on the low W bits (== v exactly when bf_inrange_*(v)), float round trips bit-identical for all "
            "2^32/2^64 patterns, swaps are involutions.  All functions are loop-free: full 64-bit input domain, no bounds.  "
            "Thorough tier: second configuration without UFW_USE_BUILTIN_SWAP (hand-written bf_swap16/32/64), every function "
            "that reaches one of them enforced again with the real callees inlined." % n_fn),
        "common": {
            "sources": [],
            "pre": ["harness/binary-format.pre.h"],
            "contracts": ["contracts/binary-format.h"],
            "harness": "harness/binary-format.c",
            "tier": "A",
            "timeout": {"quick": 120, "thorough": 300},
        },
        "assumptions": [
            "machine model of the pinned build: LP64, 8-bit bytes, little-endian (native order == little), IEEE-754 binary32/binary64, two's complement",
            "quick-tier configuration (-DUFW_USE_BUILTIN_SWAP): bf_swap16/32/64 are __builtin_bswap16/32/64; what is verified is CBMC's model of these builtins, the compiler's implementation is trusted (the hand-written variants are verified in the thorough tier)",
            "the SYSTEM_ENDIANNESS_BIG branches and the UFW_BITS_PER_BYTE == 16 branches of the header are not compiled in the pinned configuration and are not verified",
            "float kinds: values are passed by value in the proof's float model, which keeps all bit patterns (targets l_f32_bits_model / l_f64_bits_model); a target ABI that quiets signalling NaNs when passing floats in registers (x87) is outside the model",
        ],
        "undecided_parts": [
            "big-endian hosts (native == big) and 16-bit-byte machines: other preprocessor branches of the same header",
            "tools/make-binary-format.scm (the generator of the header) is not verified; its output is",
            "a function added to the header later is not covered until tools_c15/gen_bf_contracts.py is re-run (it fails loudly on names outside the scheme; --check compares the committed files with the header)",
        ],
        "manifest": {
            "text": ("Proof (CBMC code contracts, SAT) for every one of the %d codec functions over the full input domain: "
                     "every 16..64-bit value, every octet content, every offset 0..7 in an exact-size block. "
                     "Octet placement, frame (neighbours untouched), returned pointer, sign extension, bit-exact floats incl. NaN payloads, "
                     "swap involution and range predicates are decided, not sampled; only the pinned little-endian 8-bit-byte configuration." % n_fn),
            "technique": "function contracts (goto-instrument --dfcc) enforced per function, callees replaced by contracts; lemma harnesses on the inlined real code",
        },
        "targets": T,
    }
    return json.dumps(spec, indent=1) + "\n"


# --------------------------------------------------------------------------


def main(argv):
    repo = os.environ.get("VERIF_REPO", "/repo")
    check = False
    i = 1
    while i < len(argv):
        if argv[i] == "--repo":
            repo = argv[i + 1]
            i += 2
        elif argv[i] == "--check":
            check = True
            i += 1
        else:
            print(__doc__)
            return 2
    try:
        exp, calls, order = inventory(repo)
    except GenError as e:
        print("gen_bf_contracts: GENERATION FAILED\n" + str(e), file=sys.stderr)
        return 2
    files = {
        "contracts/binary-format.h": gen_contracts(exp, order),
        "harness/binary-format.c": gen_harness(exp, order),
        "harness/binary-format.pre.h": PRE % (GEN_NOTE, ""),
        "harness/binary-format.noswap.pre.h": "/* " + GEN_NOTE.lstrip(" *") + "\n */\n" + NOSWAP,
        "targets/C15.json": gen_targets(exp, calls, order),
    }
    rc = 0
    for rel, text in files.items():
        p = os.path.join(HERE, rel)
        if check:
            old = open(p).read() if os.path.exists(p) else None
            if old != text:
                print("gen_bf_contracts: %s is out of date with %s" % (rel, repo))
                rc = 1
        else:
            open(p, "w").write(text)
            print("wrote %s" % rel)
    if not check:
        print("%d functions, %d targets" % (len(order), len(json.loads(files["targets/C15.json"])["targets"])))
    return rc


if __name__ == "__main__":
    sys.exit(main(sys.argv))
