#!/bin/sh
# Rebuild /repo (guard off: no guard exists, the checks need no hooks) and run
# the pinned test suite; prints the number of passing / failing TAP subtests.
set -e
cmake --build /repo/_build >/dev/null 2>&1 || { echo "build failed"; exit 1; }
out=$(ctest --test-dir /repo/_build -j8 --timeout 900 -V 2>&1) || { echo "$out" | tail -20; echo "ctest failed"; exit 1; }
ok=$(echo "$out" | grep -cE "^[0-9]+: ok" || true)
bad=$(echo "$out" | grep -cE "^[0-9]+: not ok" || true)
echo "tap subtests ok=$ok not_ok=$bad"
[ "$bad" = 0 ] && [ "$ok" -ge 902 ]
