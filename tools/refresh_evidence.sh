#!/bin/sh
# run every claimed check (quick) on /repo itself so that the committed evidence comes from clean runs
cd "$(dirname "$0")/.." || exit 2
rc=0
for p in $(python3 -c "import json; print(' '.join(json.load(open('tools/claimed.json'))))"); do
  ./check $p quick 2>/dev/null | tail -1 || rc=1
done
exit $rc
