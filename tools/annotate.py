#!/usr/bin/env python3
"""Mechanical insertion of CBMC loop contracts into a staged copy of a real
source file.

A `.loops` file has the form

    % <text inserted verbatim after the last #include line (ghost externs)>
    @ <function> <loop ordinal, 0-based, counting for/while heads in the body>
      <clause text, inserted between the loop head's ')' and the body>
    @ ...

Nothing of the original file is dropped, rewritten or reordered: every insertion
is wrapped in the marker comments /*@VERIF<*/ ... /*>VERIF@*/ and `strip()`
removes exactly those; the engine requires strip(annotate(x)) == x byte for
byte on every run.

A function or a loop ordinal that the `.loops` file names but the source no
longer has is an *extraction break* (AnnotateError), never a violation.
"""
import re
import sys

OPEN = "/*@VERIF<*/"
CLOSE = "/*>VERIF@*/"


class AnnotateError(Exception):
    pass


def parse_loops(text):
    prelude, entries, cur = [], [], None
    for line in text.splitlines():
        if line.startswith("#"):
            continue
        if line.startswith("%"):
            prelude.append(line[1:].strip())
        elif line.startswith("@"):
            parts = line[1:].split()
            if len(parts) != 2:
                raise AnnotateError("bad @ line: " + line)
            cur = {"fn": parts[0], "ord": int(parts[1]), "text": []}
            entries.append(cur)
        elif line.strip():
            if cur is None:
                raise AnnotateError("clause before @: " + line)
            cur["text"].append(line.strip())
    return prelude, entries


def mask(src):
    """Return src with comments, strings and char literals replaced by spaces
    (same length), so that structural scanning sees code only."""
    out = list(src)
    i, n = 0, len(src)
    while i < n:
        c = src[i]
        if src.startswith("/*", i):
            j = src.find("*/", i + 2)
            j = n if j < 0 else j + 2
            for k in range(i, j):
                if out[k] != "\n":
                    out[k] = " "
            i = j
        elif src.startswith("//", i):
            j = src.find("\n", i)
            j = n if j < 0 else j
            for k in range(i, j):
                out[k] = " "
            i = j
        elif c == '"' or c == "'":
            q = c
            j = i + 1
            while j < n and src[j] != q:
                if src[j] == "\\":
                    j += 1
                j += 1
            for k in range(i + 1, min(j, n)):
                if out[k] != "\n":
                    out[k] = " "
            i = j + 1
        else:
            i += 1
    return "".join(out)


def match_paren(m, i, op="(", cl=")"):
    depth = 0
    for j in range(i, len(m)):
        if m[j] == op:
            depth += 1
        elif m[j] == cl:
            depth -= 1
            if depth == 0:
                return j
    raise AnnotateError("unbalanced %s at %d" % (op, i))


def find_function_body(m, fn):
    """Locate `fn ( ... ) {` at brace depth 0; return (body_start, body_end)
    indices of the braces."""
    depth = 0
    # precompute brace depth at each position lazily
    pos = 0
    pat = re.compile(r"\b" + re.escape(fn) + r"\s*\(")
    depths = []
    d = 0
    for ch in m:
        depths.append(d)
        if ch == "{":
            d += 1
        elif ch == "}":
            d -= 1
    for mo in pat.finditer(m):
        if depths[mo.start()] != 0:
            continue
        close = match_paren(m, mo.end() - 1)
        j = close + 1
        # a function defined inside a macro body has line continuations here
        while j < len(m) and m[j] in " \t\r\n\\":
            j += 1
        if j < len(m) and m[j] == "{":
            return j, match_paren(m, j, "{", "}")
    raise AnnotateError("function definition not found: " + fn)


def loop_heads(m, b0, b1):
    """Yield index just after the ')' closing each for/while head inside
    m[b0:b1], in textual order; `while` that closes a do-while is skipped."""
    res = []
    for mo in re.finditer(r"\b(for|while)\s*\(", m[b0:b1]):
        s = b0 + mo.start()
        close = match_paren(m, b0 + mo.end() - 1)
        if mo.group(1) == "while":
            # do { } while (...) ;  -> next non-space after ')' is ';' and the
            # previous non-space before 'while' is '}' of a do-body
            j = close + 1
            while j < len(m) and m[j] in " \t\r\n":
                j += 1
            k = s - 1
            while k >= 0 and m[k] in " \t\r\n":
                k -= 1
            if j < len(m) and m[j] == ";" and k >= 0 and m[k] == "}":
                # could still be `while(x);` after a block; check for matching do
                ob = None
                depth = 0
                for q in range(k, b0 - 1, -1):
                    if m[q] == "}":
                        depth += 1
                    elif m[q] == "{":
                        depth -= 1
                        if depth == 0:
                            ob = q
                            break
                if ob is not None and re.search(r"\bdo\s*$", m[b0:ob]):
                    continue
        res.append(close + 1)
    return res


def annotate(src, loops_text, breaks=None):
    """breaks: if a list is given, entries that cannot be placed are appended
    to it as (function, ordinal, message) instead of raising."""
    prelude, entries = parse_loops(loops_text)
    m = mask(src)
    inserts = []  # (position, text)
    if prelude:
        last = None
        for mo in re.finditer(r"^[ \t]*#[ \t]*include\b[^\n]*\n", m, re.M):
            last = mo.end()
        if last is None:
            last = 0
        inserts.append((last, OPEN + "\n" + "\n".join(prelude) + "\n" + CLOSE))
    counts = {}
    for e in entries:
        counts[e["fn"]] = max(counts.get(e["fn"], 0), e["ord"] + 1)
    for e in entries:
        try:
            b0, b1 = find_function_body(m, e["fn"])
            heads = loop_heads(m, b0, b1)
            if e["ord"] >= len(heads):
                raise AnnotateError("function %s has %d loops, ordinal %d requested"
                                    % (e["fn"], len(heads), e["ord"]))
        except AnnotateError as ex:
            if breaks is None:
                raise
            breaks.append((e["fn"], e["ord"], str(ex)))
            continue
        pos = heads[e["ord"]]
        eol = src.find("\n", pos)
        eol = len(src) if eol < 0 else eol
        if src[pos:eol].rstrip().endswith("\\"):
            # loop head inside a macro body (line continuation): the insertion
            # must stay on the same logical line
            inserts.append((pos, OPEN + " " + " ".join(e["text"]) + " " + CLOSE))
        else:
            inserts.append((pos, OPEN + "\n" + "\n".join(e["text"]) + "\n" + CLOSE))
    out = src
    for p, t in sorted(inserts, key=lambda x: -x[0]):
        out = out[:p] + t + out[p:]
    if strip(out) != src:
        raise AnnotateError("round trip failed")
    return out, len(entries)


def strip(text):
    out = []
    i = 0
    while True:
        j = text.find(OPEN, i)
        if j < 0:
            out.append(text[i:])
            break
        out.append(text[i:j])
        k = text.find(CLOSE, j)
        if k < 0:
            raise AnnotateError("unterminated insertion")
        i = k + len(CLOSE)
    return "".join(out)


if __name__ == "__main__":
    src = open(sys.argv[1]).read()
    loops = open(sys.argv[2]).read()
    out, n = annotate(src, loops)
    sys.stdout.write(out)
