#!/usr/bin/env python3
"""Regenerate MANIFEST.json from targets/*.json (one check per property that
has a targets file; every other property of properties.jsonl is listed under
not_applicable with the reason recorded in tools/not_claimed.json)."""
import json, os, glob
H = os.path.dirname(os.path.dirname(os.path.abspath(__file__)))
props = [json.loads(l)["id"] for l in open(os.path.join(H, "properties.jsonl"))]
nc = json.load(open(os.path.join(H, "tools", "not_claimed.json")))
claimed = set(json.load(open(os.path.join(H, "tools", "claimed.json"))))
checks, na = [], []
for pid in props:
    p = os.path.join(H, "targets", pid + ".json")
    if pid in claimed and os.path.exists(p):
        s = json.load(open(p))
        m = s.get("manifest", {})
        tiers = sorted({t.get("tier", s.get("common", {}).get("tier", "A")) for t in s["targets"]})
        checks.append({
            "property_id": pid,
            "quick_cmd": "./check %s quick" % pid,
            "thorough_cmd": "./check %s thorough" % pid,
            "evidence_file": "evidence/%s.json" % pid,
            "replay_cmd_template": "./check replay {path}",
            "engine": "cbmc-dfcc",
            "level_claimed": {"category": "proof",
                              "text": m.get("text", s.get("explanation", "")) + " Tiers used: " + ", ".join(tiers) +
                                      " (A = full input domain, A-len = inductive loop proof with a stated cap on input length, B = bounded stand-in, never counted as proved; per target in the evidence).",
                              "design_ref": m.get("design_ref", "DESIGN.md section 6, " + pid)},
            "level_note": m.get("note", "Trusted: CBMC 6.11 (goto-cc, goto-instrument --dfcc, SAT back end), the libc models/contracts and driver stubs named in the evidence, LP64 little-endian machine model, -DNDEBUG as in the pinned build. " + " ".join(s.get("assumptions", []))),
            "technique": m.get("technique", "contract-based deductive verification: CBMC function and loop contracts enforced per function with goto-instrument --dfcc on the real sources"),
        })
    else:
        na.append({"property_id": pid, "reason": nc.get(pid, "no check registered yet")})
man = {
    "version": 1,
    "setup_cmd": "./check selftest",
    "hooks": {"guard": "FT_UFW_VERIF",
              "enable": "none needed: contracts are attached by redeclaration in proof units that #include the real sources; loop contracts are inserted into a staged copy (tools/annotate.py, byte-identity round trip); /repo carries no hooks",
              "baseline_off_cmd": "sh /verif/tools/run_tests.sh",
              "source_commits": [], "add_only": True},
    "engines": [{"name": "cbmc-dfcc", "path": "tools/engine.py", "serves_properties": [c["property_id"] for c in checks],
                 "kind_free_text": "stage /repo working tree -> mechanical loop-contract insertion -> goto-cc -> goto-instrument --dfcc (enforce/replace/apply-loop-contracts) -> cbmc (CaDiCaL) -> classify obligations -> trace extraction + native ASan replay of the contract clauses"}],
    "checks": checks,
    "not_applicable": na,
    "notes": "See DESIGN.md. Exit codes of every check: 0 all obligations discharged; 1 VIOLATION (an obligation failed); 2 undecided (timeout, extraction break, tool error) - never reported as a violation.",
}
json.dump(man, open(os.path.join(H, "MANIFEST.json"), "w"), indent=1)
print("checks:", [c["property_id"] for c in checks], "not claimed:", [x["property_id"] for x in na])
