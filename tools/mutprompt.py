#!/usr/bin/env python3
# tools/mutprompt.py <Cnn> <worktree> [n]  -> prints the prompt for a fresh mutation agent
import json, sys, os
H = os.path.dirname(os.path.dirname(os.path.abspath(__file__)))
pid, wt = sys.argv[1], sys.argv[2]
n = sys.argv[3] if len(sys.argv) > 3 else "2"
for l in open(os.path.join(H, "properties.jsonl")):
    p = json.loads(l)
    if p["id"] == pid:
        t = open(os.path.join(H, "docs", "MUTATION_PROMPT.txt")).read()
        print(t.replace("{WT}", wt).replace("{ID}", pid).replace("{TITLE}", p["title"]).replace("{STATEMENT}", p["statement"]).replace("{N}", n))
