#!/bin/sh
# tools/wt_test.sh <worktree dir>: configure+build the given copy of ft/ufw in <dir>/_build and run its test suite.
d="$1"; [ -d "$d" ] || { echo "usage: wt_test.sh <dir>"; exit 2; }
( cmake -G Ninja -S "$d" -B "$d/_build" -DCMAKE_BUILD_TYPE=RelWithDebInfo -DUFW_USE_BUILTIN_SWAP=ON >/dev/null 2>&1 && cmake --build "$d/_build" 2>&1 | grep -E "error|warning: impl" ; true )
out=$(ctest --test-dir "$d/_build" -j8 --timeout 900 -V 2>&1)
ok=$(echo "$out" | grep -cE "^[0-9]+: ok"); bad=$(echo "$out" | grep -cE "^[0-9]+: not ok")
echo "$out" | grep -E "^[0-9]+: not ok" | head -20
echo "tap subtests ok=$ok not_ok=$bad (baseline: ok=1132 not_ok=0)"
[ "$bad" = 0 ] && [ "$ok" -ge 1132 ]
