#!/usr/bin/env python3
"""tools/seed_confirm.py <worktree> <k> <seed-id>

Confirm a seeded change delivered by a mutation agent in <worktree>/_mut/
(patch<k>.diff, demo<k>.c, meta<k>.json): the patch applies, the library builds,
the whole test suite passes with it, the demo fails with it and passes without
it.  Only then copy it to /verif/seeded/<seed-id>/ (patch.diff, demo.c,
meta.json with what was run).  The worktree is left clean."""
import json, os, re, subprocess, sys, shutil

H = os.path.dirname(os.path.dirname(os.path.abspath(__file__)))
wt, k, sid = sys.argv[1], sys.argv[2], sys.argv[3]
mut = os.path.join(wt, "_mut")
ran = []


def sh(cmd, **kw):
    p = subprocess.run(cmd, shell=True, capture_output=True, text=True, **kw)
    ran.append("%s  # rc=%d" % (cmd, p.returncode))
    return p


def demo_cmd(path):
    """build line from the demo's header comment; fallback: link libufw.a"""
    text = open(path).read()
    head = text[:text.find("*/") if "*/" in text else 3000]
    lines = [re.sub(r"^\s*\*?\s?", "", l) for l in head.splitlines()]
    for i, l in enumerate(lines):
        if re.match(r"^\s*(cc|gcc|clang)\s", l):
            cmd = l.strip()
            j = i
            while cmd.endswith("\\") and j + 1 < len(lines):
                j += 1
                cmd = cmd[:-1] + " " + lines[j].strip()
            cmd = cmd.split("&&")[0].strip()
            return cmd
    return None


def build_and_run_demo(tag):
    src = os.path.join(mut, "demo%s.c" % k)
    exe = os.path.join(mut, "demo%s_%s" % (k, tag))
    cmd = demo_cmd(src)
    if cmd:
        cmd = re.sub(r"-o\s+\S+", "", cmd) + " -o " + exe
        if "-fsanitize" not in cmd:
            cmd += " -fsanitize=address,undefined -g"
    else:
        cmd = ("gcc -std=gnu11 -g -fsanitize=address,undefined -I%s/include -I%s/_build/include "
               "-DSYSTEM_ENDIANNESS_LITTLE -DUFW_USE_BUILTIN_SWAP -D_DEFAULT_SOURCE %s %s/_build/libufw.a -o %s"
               % (wt, wt, src, wt, exe))
    p = sh(cmd, cwd=wt)
    if p.returncode != 0:
        return None, "demo build failed: " + p.stderr[-800:]
    try:
        r = subprocess.run(exe, shell=True, capture_output=True, text=True, timeout=120,
                           env=dict(os.environ, ASAN_OPTIONS="detect_leaks=0"))
        ran.append("%s  # rc=%d" % (exe, r.returncode))
        return r.returncode, (r.stdout + r.stderr)[-600:]
    except subprocess.TimeoutExpired:
        ran.append("%s  # timeout" % exe)
        return 124, "timeout (hang)"
    finally:
        if os.path.exists(exe):
            os.remove(exe)


def main():
    patch = os.path.join(mut, "patch%s.diff" % k)
    sh("git -C %s checkout -- src include" % wt)
    if sh("git -C %s apply --check %s" % (wt, patch)).returncode != 0:
        print("REJECT: patch does not apply")
        return 1
    # baseline demo (without change)
    sh("sh %s/tools/wt_test.sh %s" % (H, wt))
    rc0, out0 = build_and_run_demo("base")
    sh("git -C %s apply %s" % (wt, patch))
    t = sh("sh %s/tools/wt_test.sh %s" % (H, wt))
    tests_ok = t.returncode == 0
    rc1, out1 = build_and_run_demo("mut")
    sh("git -C %s checkout -- src include" % wt)
    sh("cmake --build %s/_build" % wt)
    print("tests with change:", t.stdout.strip().splitlines()[-1] if t.stdout.strip() else t.stderr[-300:])
    print("demo without change rc=%s; with change rc=%s" % (rc0, rc1))
    if not tests_ok:
        print("REJECT: test suite does not pass with the change")
        return 1
    if rc0 != 0:
        print("REJECT: demo does not pass on the unchanged tree:", out0)
        return 1
    if rc1 in (0, None):
        print("REJECT: demo does not fail with the change:", out1)
        return 1
    d = os.path.join(H, "seeded", sid)
    os.makedirs(d, exist_ok=True)
    shutil.copy(patch, os.path.join(d, "patch.diff"))
    shutil.copy(os.path.join(mut, "demo%s.c" % k), os.path.join(d, "demo.c"))
    meta = json.load(open(os.path.join(mut, "meta%s.json" % k)))
    meta["confirmed_by_lead"] = {"worktree": wt, "tests_pass_with_change": True,
                                 "demo_rc_without_change": rc0, "demo_rc_with_change": rc1,
                                 "demo_output_with_change": out1, "commands": ran}
    json.dump(meta, open(os.path.join(d, "meta.json"), "w"), indent=1)
    print("KEPT", d)
    return 0


sys.exit(main())
