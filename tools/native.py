#!/usr/bin/env python3
"""Native replay: turn the contract of the function under test into a checked
wrapper (plain C), compile the *same* harness with -DVERIF_NATIVE against the
real staged sources under ASan/UBSan, feed it the counterexample extracted from
the verifier's trace.  The oracle that is evaluated natively is the text of the
contract clauses themselves, not a second opinion."""
import json
import os
import re
import subprocess
import tempfile
import shutil

import annotate


def find_contract(text, fn):
    """Return (ret_type, params_text, clauses[(kind, expr)]) of the contract-
    carrying redeclaration of fn in text, or None."""
    m = annotate.mask(text)
    for mo in re.finditer(r"\b" + re.escape(fn) + r"\s*\(", m):
        close = annotate.match_paren(m, mo.end() - 1)
        j = close + 1
        rest = m[j:]
        mm = re.match(r"\s*__CPROVER_(requires|ensures|assigns|frees)\b", rest)
        if not mm:
            continue
        # return type: text back to previous ';', '}', or preprocessor line end
        k = mo.start() - 1
        while k >= 0 and m[k] not in ";}":
            k -= 1
        head = text[k + 1:mo.start()]
        head = "\n".join(l for l in head.splitlines() if not l.strip().startswith("#")).strip()
        params = text[mo.end():close]
        clauses = []
        while True:
            mm = re.match(r"\s*__CPROVER_(requires|ensures|assigns|frees)\s*\(", m[j:])
            if not mm:
                break
            op = j + mm.end() - 1
            cl = annotate.match_paren(m, op)
            clauses.append((mm.group(1), text[op + 1:cl]))
            j = cl + 1
        return head, params, clauses
    return None


def split_params(params):
    out, depth, cur = [], 0, ""
    for ch in params:
        if ch in "([":
            depth += 1
        elif ch in ")]":
            depth -= 1
        if ch == "," and depth == 0:
            out.append(cur.strip())
            cur = ""
        else:
            cur += ch
    if cur.strip():
        out.append(cur.strip())
    if out == ["void"]:
        return []
    return out


def param_name(p):
    m = re.search(r"\(\s*\*\s*(\w+)\s*\)", p)  # function pointer
    if m:
        return m.group(1)
    m = re.search(r"(\w+)\s*(\[[^\]]*\])?\s*$", p)
    return m.group(1)


def rewrite_old(expr, olds):
    """replace __CPROVER_old(e) by snapshot variables; collect e."""
    out = ""
    i = 0
    while True:
        j = expr.find("__CPROVER_old", i)
        if j < 0:
            out += expr[i:]
            break
        out += expr[i:j]
        op = expr.index("(", j)
        cl = annotate.match_paren(expr, op)
        e = expr[op + 1:cl]
        if e not in olds:
            olds.append(e)
        out += "verif_old_%d" % olds.index(e)
        i = cl + 1
    return out


def gen_wrapper(fn, head, params, clauses, mode="native"):
    ps = split_params(params)
    names = [param_name(p) for p in ps]
    ret = re.sub(r"\b(static|inline|extern)\b", "", head).strip()
    isvoid = ret == "void"
    olds = []
    ens = []
    # quantified clauses have no plain-C reading: the harness establishes them
    # natively by construction (ghost traces are computed from the spec)
    if mode != "cbmc":
        clauses = [(k, e) for k, e in clauses if "__CPROVER_forall" not in e and "__CPROVER_exists" not in e]
    for kind, e in clauses:
        if kind == "ensures":
            ens.append((e, rewrite_old(e, olds).replace("__CPROVER_return_value", "verif_ret")))
    L = []
    L.append("static %s verif_checked_%s(%s)\n{" % (ret, fn, params if ps else "void"))
    for kind, e in clauses:
        if kind == "requires":
            if mode == "cbmc":
                L.append("  __CPROVER_assume(%s);" % e)
            else:
                L.append("  if (!(%s)) verif_spurious(%s);" % (e, json.dumps(" ".join(e.split())[:200])))
    for i, e in enumerate(olds):
        L.append("  __typeof__(%s) verif_old_%d = (%s);" % (e, i, e))
    call = "%s(%s)" % (fn, ", ".join(names))
    if isvoid:
        L.append("  %s;" % call)
    else:
        L.append("  %s verif_ret = %s;" % (ret, call))
    for raw, e in ens:
        if mode == "cbmc":
            L.append("  __CPROVER_assert(%s, %s);" % (e, json.dumps("ensures (bounded fallback): " + " ".join(raw.split())[:200])))
        else:
            L.append("  if (!(%s)) verif_fail(%s);" % (e, json.dumps("ensures violated: " + " ".join(raw.split())[:300])))
    if not isvoid:
        L.append("  return verif_ret;")
    L.append("}")
    return "\n".join(L) + "\n"


RUNTIME = r'''
#include <stdio.h>
#include <stdlib.h>
#include <string.h>
#include <unistd.h>
#include <sys/wait.h>
struct vr_s { char name[96]; long long v; int used; };
static struct vr_s vr_scal[4096]; static int vr_nscal;
struct vr_m { char name[96]; long idx; int v; };
static struct vr_m vr_mem[4096]; static int vr_nmem;
static int vr_fill = 0;
static int vr_random = 0, vr_logdraws = 0;
static unsigned long long vr_rng = 88172645463325252ull;
static unsigned long long vr_next(void) { vr_rng ^= vr_rng << 13; vr_rng ^= vr_rng >> 7; vr_rng ^= vr_rng << 17; return vr_rng; }
static long long vr_draw(void) {
  unsigned long long r = vr_next(), m = r % 100;
  unsigned long long v;
  if (m < 40) v = vr_next() % 12;
  else if (m < 60) v = vr_next() % 80;
  else if (m < 68) v = vr_next() % 5000;
  else if (m < 80) { unsigned sh = vr_next() % 65; v = (sh >= 64 ? 0ull : (1ull << sh)) + (vr_next() % 5) - 2; }
  else if (m < 86) v = 0ull - (vr_next() % 70);
  else if (m < 90) { static const unsigned long long sp[] = {0xC0,0xDB,0xDC,0xDD,0x7f,0x80,0xff,0x100,0xffff,0x10000,0x7fffffff,0x80000000ull,0xffffffffull,0x7fffffffffffffffull}; v = sp[vr_next() % 14]; }
  else v = vr_next();
  return (long long)v;
}
void verif_spurious(const char *what) { printf("REPLAY-SPURIOUS precondition/assumption not met: %s\n", what); fflush(stdout); _exit(77); }
void verif_fail(const char *what) { printf("REPLAY-FAIL %s\n", what); fflush(stdout); _exit(1); }
long long verif_replay_scalar(const char *name, int *found) {
  if (vr_random) { long long v = vr_draw(); *found = 1; if (vr_logdraws) { printf("DRAW %s = %lld (0x%llx)\n", name, v, (unsigned long long)v); fflush(stdout); } return v; }
  int last = -1;
  for (int i = 0; i < vr_nscal; i++) if (!strcmp(vr_scal[i].name, name)) { last = i; if (!vr_scal[i].used) { vr_scal[i].used = 1; *found = 1; return vr_scal[i].v; } }
  *found = last >= 0; return last >= 0 ? vr_scal[last].v : 0;
}
unsigned char *verif_alloc_exact(const char *name, size_t len) {
  if (len > ((size_t)1 << 28)) { printf("REPLAY-SPURIOUS block of %zu octets\n", len); fflush(stdout); _exit(77); }
  unsigned char *p = malloc(len);
  if (len && !p) { printf("REPLAY-SPURIOUS cannot allocate %zu\n", len); _exit(77); }
  if (vr_random) {
    static const unsigned char sp[] = {0x00,0xff,0xC0,0xDB,0xDC,0xDD,0x80,0x7f,0x01,'(',')',' ','#','x','A','f','9'};
    unsigned mode = vr_next() % 4;
    for (size_t i = 0; i < len; i++) p[i] = mode == 0 ? (unsigned char)vr_next() : (mode == 1 ? sp[vr_next() % sizeof sp] : ((vr_next() & 1) ? sp[vr_next() % sizeof sp] : (unsigned char)vr_next()));
    if (vr_logdraws) { printf("DRAW %s[%zu] =", name, len); for (size_t i = 0; i < len && i < 64; i++) printf(" %02x", p[i]); printf("\n"); fflush(stdout); }
    return p;
  }
  if (len) memset(p, vr_fill, len);
  for (int i = 0; i < vr_nmem; i++) if (!strcmp(vr_mem[i].name, name)) {
    long idx = vr_mem[i].idx;
    if (idx == -1) idx = (long)g_k;
    if (idx == -2) idx = (long)g_j;
    if (idx >= 0 && (size_t)idx < len) p[idx] = (unsigned char)vr_mem[i].v;
  }
  return p;
}
static void vr_load(const char *path) {
  FILE *f = fopen(path, "r"); char k; char name[96]; long long a, b;
  if (!f) { perror(path); _exit(2); }
  while (fscanf(f, " %c %95s %lld %lld", &k, name, &a, &b) == 4) {
    if (k == 'S' && vr_nscal < 4096) { strcpy(vr_scal[vr_nscal].name, name); vr_scal[vr_nscal].v = a; vr_scal[vr_nscal].used = 0; vr_nscal++; }
    if (k == 'M' && vr_nmem < 4096) { strcpy(vr_mem[vr_nmem].name, name); vr_mem[vr_nmem].idx = (long)a; vr_mem[vr_nmem].v = (int)b; vr_nmem++; }
  }
  fclose(f);
}
/* random search: each try in a forked child; a child that fails a contract
 * clause, trips a sanitizer or hangs is a hit and is re-run with its draws
 * printed */
static int vr_search(void (*entry)(void), long tries, unsigned long long seed) {
  long spurious = 0, pass = 0;
  for (long t = 0; t < tries; t++) {
    for (int pass2 = 0; pass2 < 2; pass2++) {
      fflush(stdout);
      pid_t c = fork();
      if (c == 0) {
        vr_random = 1; vr_logdraws = pass2; vr_rng = seed * 6364136223846793005ull + (unsigned long long)t * 1442695040888963407ull + 1;
        (void)vr_next(); (void)vr_next();
        if (!pass2) { FILE *n_ = freopen("/dev/null", "w", stdout); (void)n_; n_ = freopen("/dev/null", "w", stderr); (void)n_; }
        alarm(5);
        entry();
        _exit(0);
      }
      int st = 0; waitpid(c, &st, 0);
      int hit = 0;
      if (WIFEXITED(st)) { int rc = WEXITSTATUS(st); if (rc == 0) pass++; else if (rc == 77) spurious++; else hit = 1; }
      else hit = 1;
      if (!pass2 && !hit) break;
      if (pass2) { printf("REPLAY-RANDOM-HIT try=%ld %s\n", t, WIFSIGNALED(st) && WTERMSIG(st) == 14 ? "HANG" : ""); return 1; }
    }
  }
  printf("REPLAY-RANDOM-NONE tries=%ld pass=%ld spurious=%ld\n", tries, pass, spurious);
  return 0;
}
'''

SHIM = r'''
#define __CPROVER_requires(...)
#define __CPROVER_ensures(...)
#define __CPROVER_assigns(...)
#define __CPROVER_frees(...)
#define __CPROVER_loop_invariant(...)
#define __CPROVER_decreases(...)
#define __CPROVER_rw_ok(...) 1
#define __CPROVER_r_ok(...) 1
#define __CPROVER_w_ok(...) 1
#define __CPROVER_is_fresh(...) 1
#define __CPROVER_same_object(a, b) 0
#define __CPROVER_object_upto(...) 0
#define __CPROVER_object_whole(...) 0
#define __CPROVER_object_from(...) 0
#define __CPROVER_POINTER_OBJECT(p) ((size_t)(p))
#define __CPROVER_POINTER_OFFSET(p) 0
#define __CPROVER_OBJECT_SIZE(p) ((size_t)-1)
#define __CPROVER_initialize() do {} while (0)
'''


def inputs_to_text(inputs):
    lines = []
    for name, seq in (inputs.get("sequences") or {}).items():
        for v in seq:
            try:
                iv = int(v)
                if iv >= 1 << 63:
                    iv -= 1 << 64
                lines.append("S %s %d 0" % (name, iv))
            except Exception:
                pass
    for name, cells in (inputs.get("mem") or {}).items():
        for idx, v in cells.items():
            try:
                val = int(str(v).rstrip("ulUL"), 0) if not isinstance(v, int) else v
            except Exception:
                continue
            i = {"k": -1, "j": -2}.get(idx, None)
            if i is None:
                i = int(idx)
            lines.append("M %s %d %d" % (name, i, val & 0xff))
    # ghost-index cells last so that they override the plain witnesses
    lines.sort(key=lambda l: (l.startswith("M") and " -" in l))
    return "\n".join(lines) + "\n"


def extract_contract(t, scratch, tier, here, defs, outdir, native_mode=True):
    """preprocess the proof unit and return find_contract() of the enforced function"""
    root = os.path.join(scratch, "repo")
    fn = t["enforce"]
    inc = ["-I" + os.path.join(here, "include"), "-I" + here, "-I" + os.path.join(root, "include"),
           "-I" + os.path.join(scratch, "gen"), "-I" + os.path.join(root, "src")]
    pre = (["#define VERIF_NATIVE 1"] if native_mode else []) + ['#include "verif.h"']
    for i_ in t.get("pre", []):
        pre.append('#include "%s"' % i_)
    for s_ in t["sources"]:
        pre.append('#include "%s"' % os.path.join(root, s_))
    pre.append("int verif_contracts_begin_marker;")
    for c in t.get("contracts", []):
        pre.append('#include "%s"' % c)
    prec = os.path.join(outdir, "pre.c")
    open(prec, "w").write("\n".join(pre) + "\n")
    pp = subprocess.run(["gcc", "-E", "-P", "-std=gnu99"] + inc + defs + ["-DVERIF_TIER_%s" % tier.upper(), prec],
                        capture_output=True, text=True)
    if pp.returncode != 0:
        raise RuntimeError("preprocessing failed: " + pp.stderr[-1500:])
    text = pp.stdout
    k = text.find("verif_contracts_begin_marker")
    found = find_contract(text[k:], fn)
    if not found:
        raise RuntimeError("contract of %s not found in %s" % (fn, t.get("contracts")))
    return found


def build_driver(t, scratch, tier, here, defs, unit_text, outdir):
    root = os.path.join(scratch, "repo")
    fn = t.get("enforce")
    wrapper = ""
    inc = ["-I" + os.path.join(here, "include"), "-I" + here, "-I" + os.path.join(root, "include"),
           "-I" + os.path.join(scratch, "gen"), "-I" + os.path.join(root, "src")]
    if fn:
        # preprocess the proof unit (macros of the contract headers expanded,
        # __CPROVER_* left alone) and read the clauses of fn from that text
        pre = ["#define VERIF_NATIVE 1", '#include "verif.h"']
        for i_ in t.get("pre", []):
            pre.append('#include "%s"' % i_)
        for s_ in t["sources"]:
            pre.append('#include "%s"' % os.path.join(root, s_))
        pre.append("/*VERIF-CONTRACTS-BEGIN*/")
        pre.append("int verif_contracts_begin_marker;")
        for c in t.get("contracts", []):
            pre.append('#include "%s"' % c)
        prec = os.path.join(outdir, "pre.c")
        open(prec, "w").write("\n".join(pre) + "\n")
        pp = subprocess.run(["gcc", "-E", "-P", "-std=gnu99"] + inc + defs + ["-DVERIF_TIER_%s" % tier.upper(), prec],
                            capture_output=True, text=True)
        if pp.returncode != 0:
            raise RuntimeError("preprocessing failed: " + pp.stderr[-1500:])
        text = pp.stdout
        k = text.find("verif_contracts_begin_marker")
        found = find_contract(text[k:], fn)
        if not found:
            raise RuntimeError("contract of %s not found in %s" % (fn, t.get("contracts")))
        wrapper = gen_wrapper(fn, *found)
    lines = ["#define VERIF_NATIVE 1", SHIM, '#include "verif.h"', RUNTIME, "VERIF_GHOSTS"]
    for pre_ in t.get("pre", []):
        lines.append('#include "%s"' % pre_)
    for s in t["sources"]:
        p = os.path.join(root, s)
        # native build uses the pristine text (loop-contract insertions removed)
        clean = os.path.join(outdir, "clean_" + s.replace("/", "_"))
        open(clean, "w").write(annotate.strip(open(p).read()))
        lines.append('#line 1 "%s"' % s)
        lines.append('#include "%s"' % clean)
    for c in t.get("contracts", []):
        lines.append('#include "%s"' % c)
    if fn:
        lines.append(wrapper)
        lines.append("#define %s verif_checked_%s" % (fn, fn))
    lines.append('#include "%s"' % t["harness"])
    lines.append("int main(int argc, char **argv) { "
                 "if (argc > 3 && !strcmp(argv[1], \"random\")) return vr_search(%s, atol(argv[2]), strtoull(argv[3], 0, 10)); "
                 "if (argc > 1) vr_load(argv[1]); "
                 "if (argc > 2) vr_fill = atoi(argv[2]); %s(); "
                 "printf(\"REPLAY-PASS no violation observed natively\\n\"); return 0; }" % (t["entry"], t["entry"]))
    src = os.path.join(outdir, "native.c")
    open(src, "w").write("\n".join(lines) + "\n")
    exe = os.path.join(outdir, "native")
    cmd = ["gcc", "-std=gnu99", "-g", "-O0", "-w", "-fsanitize=address,undefined",
           "-fno-sanitize-recover=undefined", "-fno-omit-frame-pointer"] + inc + defs + \
          ["-DVERIF_TIER_%s" % tier.upper(), src, "-o", exe, "-lm"]
    p = subprocess.run(cmd, capture_output=True, text=True)
    if p.returncode != 0:
        raise RuntimeError("native build failed: " + p.stderr[-2500:])
    return exe, " ".join(cmd)


def run_driver(exe, inp, fill, timeout=20, extra=None):
    env = dict(os.environ)
    env["ASAN_OPTIONS"] = "detect_leaks=0:abort_on_error=0:allocator_may_return_null=1:max_allocation_size_mb=4096"
    env["UBSAN_OPTIONS"] = "print_stacktrace=1:halt_on_error=1"
    try:
        p = subprocess.run([exe, inp, str(fill)] + ([extra] if extra else []), capture_output=True, text=True, timeout=timeout, env=env)
    except subprocess.TimeoutExpired:
        return "hang", "native run did not terminate within %ds" % timeout
    out = (p.stdout + p.stderr)
    if "REPLAY-RANDOM-HIT" in out:
        kind = "fail" if "REPLAY-FAIL" in out else ("sanitizer" if ("AddressSanitizer" in out or "runtime error" in out) else "hang-or-crash")
        return kind, out[-5000:]
    if "REPLAY-RANDOM-NONE" in out:
        return "none", out[-300:]
    if "REPLAY-FAIL" in out:
        return "fail", out[-3000:]
    if "REPLAY-SPURIOUS" in out:
        return "spurious", out[-1500:]
    if "AddressSanitizer" in out or "runtime error" in out or p.returncode < 0:
        return "sanitizer", out[-4000:]
    if "REPLAY-PASS" in out:
        return "pass", out[-500:]
    return "other", "rc=%s %s" % (p.returncode, out[-1500:])


def replay(t, scratch, tier, inputs, here, defs, unit_text, keepdir=None):
    outdir = tempfile.mkdtemp(prefix="native_", dir=scratch)
    exe, cmd = build_driver(t, scratch, tier, here, defs, unit_text, outdir)
    inp = os.path.join(outdir, "inputs.txt")
    open(inp, "w").write(inputs_to_text(inputs))
    tried = []
    for fill in (0, 255, 0xC0, 0xDB, 0x80, 0x41):
        verdict, text = run_driver(exe, inp, fill)
        tried.append({"fill": fill, "verdict": verdict})
        if verdict in ("fail", "sanitizer", "hang"):
            return {"replayed": True, "how": verdict, "fill_for_unpinned_cells": fill,
                    "output": text, "build": cmd, "tried": tried}
    # the verifier's counterexample may be an abstract state (loop invariants,
    # replaced callees): search natively for a concrete failing input
    tries = int(os.environ.get("VERIF_RANDOM_TRIES", "3000"))
    seed = int(os.environ.get("VERIF_SEED", "1") or 1)
    verdict2, text2 = run_driver(exe, "random", tries, timeout=120, extra=str(seed))
    tried.append({"random_tries": tries, "seed": seed, "verdict": verdict2})
    if "REPLAY-RANDOM-HIT" in text2:
        return {"replayed": True, "how": "random-search:" + verdict2, "output": text2[-5000:], "build": cmd,
                "tried": tried, "note": "the verifier's counterexample did not replay (abstract state); "
                "a native search over the harness inputs found a concrete failing input (draws listed in output)"}
    return {"replayed": False, "how": "native run of the extracted inputs did not reproduce (%s); random search: %s" % (verdict, text2[-200:]),
            "output": text, "build": cmd, "tried": tried}


def replay_file(path, here, repo):
    """./check replay <file>: restage, rebuild the native driver, run it."""
    import engine
    doc = json.load(open(path))
    t = doc["target_spec"]
    scratch = tempfile.mkdtemp(prefix="verif_replay_", dir=os.environ.get("VERIF_SCRATCH", "/var/tmp"))
    try:
        engine.stage(scratch)
        print("replay of %s: target %s obligation %s [%s]" % (
            doc["property_id"], doc["target"], doc["obligation"], doc["obligation_description"]))
        if not doc.get("inputs"):
            print("no inputs were extracted for this obligation (no-failing-input-found); verifier output:")
            print(json.dumps(doc.get("native"), indent=1)[:3000])
            return 1
        rep = replay(t, scratch, doc.get("tier", "quick"), doc["inputs"], here,
                     engine.BASE_DEFS + engine.defs_of(t, doc.get("tier", "quick")), None)
        print(json.dumps({k: rep[k] for k in rep if k != "build"}, indent=1)[:6000])
        return 1 if rep.get("replayed") else 0
    finally:
        shutil.rmtree(scratch, ignore_errors=True)
