#!/bin/sh
# tools/seed_test.sh <seeded dir> [tier]: apply seeded/<id>/patch.diff to a scratch copy of /repo's
# working tree (never to /repo itself), run the property's check against it, report DETECTED / MISSED.
d="$1"; tier="${2:-quick}"
[ -f "$d/patch.diff" ] && [ -f "$d/meta.json" ] || { echo "usage: seed_test.sh seeded/<id> [tier]"; exit 2; }
pid=$(python3 -c "import json,sys; print(json.load(open('$d/meta.json'))['property'])")
s=$(mktemp -d /var/tmp/seed_XXXXXX)
trap 'rm -rf "$s"' EXIT
cp -r /repo/src /repo/include "$s"/ && (cd "$s" && git init -q . && git apply --whitespace=nowarn "$OLDPWD/$d/patch.diff") || { echo "patch does not apply"; exit 2; }
out=$(VERIF_EVIDENCE_DIR="$s/evidence" VERIF_REPO="$s" "$(dirname "$0")/../check" "$pid" "$tier" 2>/dev/null); rc=$?
echo "$out" | grep -E "^(VIOLATION|UNDECIDED|OK|KNOWN)" | cut -c1-260
case $rc in
 1) echo "DETECTED $d ($pid)";;
 0) echo "MISSED $d ($pid)";;
 *) echo "UNDECIDED $d ($pid) rc=$rc";;
esac
exit $rc
