#!/bin/sh
# tools/apply_fix.sh pending_fixes/<Cnn>-<n>.patch : apply one repair to /repo, run the unedited test suite,
# commit it as "fix: ..." (message from the patch's first comment line), append a `fixed:` line to KNOWN_FINDINGS.txt.
p="$1"; [ -f "$p" ] || { echo "no such patch"; exit 2; }
pid=$(basename "$p" | sed 's/-.*//')
msg=$(sed -n '1s/^# *//p' "$p"); what=$(sed -n '2s/^# *//p' "$p")
case "$msg" in fix:*) ;; *) echo "first line must be '# fix: ...'"; exit 2;; esac
cd /repo || exit 2
[ -z "$(git status --porcelain --untracked-files=no)" ] || { echo "/repo has uncommitted changes"; exit 2; }
grep -v '^#' "$OLDPWD/$p" > /tmp/apply_fix.$$.diff
git apply --whitespace=nowarn /tmp/apply_fix.$$.diff || { echo "does not apply"; rm -f /tmp/apply_fix.$$.diff; exit 1; }
rm -f /tmp/apply_fix.$$.diff
if sh /verif/tools/run_tests.sh; then
  git commit -qam "$msg" && h=$(git rev-parse --short HEAD) && echo "committed $h $msg"
  echo "fixed: property=$pid $h $what" >> /verif/KNOWN_FINDINGS.txt
  mkdir -p /verif/applied_fixes && mv "$OLDPWD/$p" /verif/applied_fixes/
else
  echo "TESTS FAIL with $p; reverting"; git checkout -- .; exit 1
fi
