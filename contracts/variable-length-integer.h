/* Contracts of src/variable-length-integer.c (property C14).
 *
 * Postconditions are the property statement, phrased with the reference
 * definition in spec/varint.h:
 *   encoders   - the octets written are spec_varint_octet(v, 0..L-1) with
 *                L == spec_varint_len(v) == return value == the length query,
 *                L <= 5 (32 bit) resp. 10 (64 bit);
 *   decoders   - buffer decoder and source decoder are both stated against the
 *                SAME spec_varint_decode(octets, avail, max): that is their
 *                agreement on verdict, value and consumed count.  For the
 *                buffer decoder `avail` is size - offset (the tests decode
 *                from buffers whose fill mark is zero, so the buffer's memory
 *                is the only bound): TRUNCATED must be an error that leaves
 *                the offset alone, and since the harness gives the buffer an
 *                exact-size block, a read at or after data[size] fails a
 *                pointer check.
 * Signed values travel as their two's complement pattern of the same width.
 *
 * All ten octet positions are written out (no ghost index), so that the
 * round-trip lemmas can be derived from the contracts alone.
 */
#ifndef CONTRACTS_VARIABLE_LENGTH_INTEGER_H
#define CONTRACTS_VARIABLE_LENGTH_INTEGER_H
#include "spec/varint.h"

#define VI_CL(i, n) ((i) < (n) ? (i) : 0)

/* ---- buffers ---------------------------------------------------------- */

/* decoder side: read mark inside the memory; the fill mark is irrelevant */
#define VI_DEC_BUF_OK(b) (__CPROVER_rw_ok((b), sizeof(ByteBuffer)) && (b)->data != NULL \
    && (b)->size >= 1 && (b)->offset <= (b)->size && __CPROVER_r_ok((b)->data, (b)->size) \
    && !__CPROVER_same_object((b), (b)->data))
/* encoder side: the encoder appends; read mark == write mark (every caller in
 * the tree hands it a fresh byte_buffer_space buffer) */
#define VI_ENC_BUF_OK(b) (__CPROVER_rw_ok((b), sizeof(ByteBuffer)) && (b)->data != NULL \
    && (b)->size >= 1 && (b)->offset == (b)->used && (b)->used <= (b)->size \
    && __CPROVER_rw_ok((b)->data, (b)->size) && !__CPROVER_same_object((b), (b)->data))

#define VI_BUF_DSU_SAME(b) ((b)->data == __CPROVER_old((b)->data) && (b)->size == __CPROVER_old((b)->size) \
    && (b)->used == __CPROVER_old((b)->used))
#define VI_BUF_DSO_SAME(b) ((b)->data == __CPROVER_old((b)->data) && (b)->size == __CPROVER_old((b)->size) \
    && (b)->offset == __CPROVER_old((b)->offset))
#define VI_CELL_SAME(b, i) \
  IMPLIES((i) < (b)->size, (b)->data[VI_CL(i, (b)->size)] == __CPROVER_old((b)->data[VI_CL(i, (b)->size)]))

/* the reference decoder applied to the unread memory of b as it was at entry */
#define VI_DEC(b, max) spec_varint_decode((b)->data + __CPROVER_old((b)->offset), \
    (b)->size - __CPROVER_old((b)->offset), (max))

/* octet k of the image of v sits at data[off + k] */
#define VI_IMG1(mem, off, lim, v, k) \
  IMPLIES((k) < spec_varint_len(v), (mem)[VI_CL((off) + (k), (lim))] == spec_varint_octet((v), (k)))
#define VI_IMG(mem, off, lim, v) \
  (VI_IMG1(mem, off, lim, v, 0u) && VI_IMG1(mem, off, lim, v, 1u) && VI_IMG1(mem, off, lim, v, 2u) \
   && VI_IMG1(mem, off, lim, v, 3u) && VI_IMG1(mem, off, lim, v, 4u) && VI_IMG1(mem, off, lim, v, 5u) \
   && VI_IMG1(mem, off, lim, v, 6u) && VI_IMG1(mem, off, lim, v, 7u) && VI_IMG1(mem, off, lim, v, 8u) \
   && VI_IMG1(mem, off, lim, v, 9u))

/* what a successful typed encoder leaves behind */
#define VI_ENCODED(b, v, ret) \
  ((ret) > 0 && (size_t)(ret) == spec_varint_len(v) \
   && (b)->used == __CPROVER_old((b)->offset) + spec_varint_len(v) \
   && VI_IMG((b)->data, __CPROVER_old((b)->offset), (b)->size, (v)) \
   && IMPLIES(g_j < __CPROVER_old((b)->offset) || g_j >= __CPROVER_old((b)->offset) + spec_varint_len(v), \
              VI_CELL_SAME(b, g_j)))

/* ---- helpers ---------------------------------------------------------- */

static inline bool varint_done(const unsigned char octet)
__CPROVER_assigns()
__CPROVER_ensures(__CPROVER_return_value == ((octet & 0x80u) == 0u))
;

/* appends exactly the image of n; needs room for it.  Stated where read mark
 * and write mark coincide (so it does not matter which of the two an
 * implementation takes as the place to write to; the tree takes the offset) */
static int varint_encode(uint64_t n, ByteBuffer *b)
__CPROVER_requires(VI_ENC_BUF_OK(b) && b->size - b->used >= spec_varint_len(n))
__CPROVER_assigns(b->used, __CPROVER_object_upto(b->data, b->size))
__CPROVER_ensures(VI_BUF_DSO_SAME(b))
__CPROVER_ensures(VI_ENCODED(b, n, __CPROVER_return_value))
__CPROVER_ensures(__CPROVER_return_value <= (int)SPEC_VARINT_MAX64)
;

static int varint_decode(ByteBuffer *b, const size_t maxoctets, union varint64 *n)
__CPROVER_requires(VI_DEC_BUF_OK(b))
__CPROVER_requires(maxoctets <= SPEC_VARINT_MAX64)
__CPROVER_requires(__CPROVER_w_ok(n, sizeof(union varint64))
    && !__CPROVER_same_object(n, b) && !__CPROVER_same_object(n, b->data))
__CPROVER_assigns(b->offset, n->u)
__CPROVER_ensures(VI_BUF_DSU_SAME(b))
__CPROVER_ensures(IMPLIES(VI_DEC(b, maxoctets).verdict == SPEC_VARINT_OK,
    __CPROVER_return_value > 0 && (size_t)__CPROVER_return_value == VI_DEC(b, maxoctets).consumed
    && b->offset == __CPROVER_old(b->offset) + VI_DEC(b, maxoctets).consumed
    && n->u == VI_DEC(b, maxoctets).value))
__CPROVER_ensures(IMPLIES(VI_DEC(b, maxoctets).verdict == SPEC_VARINT_TRUNCATED,
    __CPROVER_return_value < 0 && __CPROVER_return_value != -EILSEQ && b->offset == __CPROVER_old(b->offset)))
__CPROVER_ensures(IMPLIES(VI_DEC(b, maxoctets).verdict == SPEC_VARINT_ILLEGAL,
    __CPROVER_return_value == -EILSEQ && b->offset == __CPROVER_old(b->offset)))
;

/* ---- sources ---------------------------------------------------------- */

#define VI_SRC(s) ((struct st_vsrc *)(s)->driver)
#define VI_SRC_OK(s) (__CPROVER_rw_ok((s), sizeof(Source)) \
    && (((s)->kind == DATA_KIND_OCTET && (s)->source.octet == st_varint_octet_source) \
        || ((s)->kind == DATA_KIND_CHUNK && (s)->source.chunk == st_varint_chunk_source)) \
    && __CPROVER_rw_ok(VI_SRC(s), sizeof(struct st_vsrc)) && !__CPROVER_same_object((s), (s)->driver) \
    && VI_SRC(s)->pos <= VI_SRC(s)->len && VI_SRC(s)->err < 0 \
    && __CPROVER_r_ok(VI_SRC(s)->mem, VI_SRC(s)->len) \
    && !__CPROVER_same_object(VI_SRC(s)->mem, (s)) && !__CPROVER_same_object(VI_SRC(s)->mem, (s)->driver))
/* the reference decoder applied to what the source had left at entry */
#define VI_SDEC(s, max) spec_varint_decode(VI_SRC(s)->mem + __CPROVER_old(VI_SRC(s)->pos), \
    VI_SRC(s)->len - __CPROVER_old(VI_SRC(s)->pos), (max))
#define VI_SRC_REST_SAME(s) ((s)->kind == __CPROVER_old((s)->kind) && (s)->driver == __CPROVER_old((s)->driver) \
    && VI_SRC(s)->mem == __CPROVER_old(VI_SRC(s)->mem) && VI_SRC(s)->len == __CPROVER_old(VI_SRC(s)->len) \
    && VI_SRC(s)->err == __CPROVER_old(VI_SRC(s)->err))

/* OK: exactly the octets of the number were fetched.  TRUNCATED: the source's
 * own error is handed on (all it had was fetched).  ILLEGAL: max octets were
 * fetched, not one more. */
#define VI_SRC_POST(s, max, ret) \
  (IMPLIES(VI_SDEC(s, max).verdict == SPEC_VARINT_OK, \
      (ret) > 0 && (size_t)(ret) == VI_SDEC(s, max).consumed \
      && VI_SRC(s)->pos == __CPROVER_old(VI_SRC(s)->pos) + VI_SDEC(s, max).consumed) \
   && IMPLIES(VI_SDEC(s, max).verdict == SPEC_VARINT_TRUNCATED, \
      (ret) == VI_SRC(s)->err && VI_SRC(s)->pos == VI_SRC(s)->len) \
   && IMPLIES(VI_SDEC(s, max).verdict == SPEC_VARINT_ILLEGAL, \
      (ret) == -EILSEQ && VI_SRC(s)->pos == __CPROVER_old(VI_SRC(s)->pos) + (max)))

static int varint_from_source(Source *source, const size_t maxoctets, union varint64 *n)
__CPROVER_requires(VI_SRC_OK(source))
__CPROVER_requires(maxoctets <= SPEC_VARINT_MAX64)
__CPROVER_requires(__CPROVER_w_ok(n, sizeof(union varint64)) && !__CPROVER_same_object(n, source)
    && !__CPROVER_same_object(n, source->driver) && !__CPROVER_same_object(n, VI_SRC(source)->mem))
__CPROVER_assigns(n->u, VI_SRC(source)->pos)
__CPROVER_ensures(VI_SRC_REST_SAME(source))
__CPROVER_ensures(VI_SRC_POST(source, maxoctets, __CPROVER_return_value))
__CPROVER_ensures(IMPLIES(VI_SDEC(source, maxoctets).verdict == SPEC_VARINT_OK,
    n->u == VI_SDEC(source, maxoctets).value))
;

/* ---- typed buffer decoders -------------------------------------------- */

#define VI_DEC_OUT_OK(b, n) (__CPROVER_w_ok((n), sizeof(*(n))) \
    && !__CPROVER_same_object((n), (b)) && !__CPROVER_same_object((n), (b)->data))
#define VI_DEC_POST(b, max, ret) \
  (IMPLIES(VI_DEC(b, max).verdict == SPEC_VARINT_OK, \
      (ret) > 0 && (size_t)(ret) == VI_DEC(b, max).consumed \
      && (b)->offset == __CPROVER_old((b)->offset) + VI_DEC(b, max).consumed) \
   && IMPLIES(VI_DEC(b, max).verdict == SPEC_VARINT_TRUNCATED, \
      (ret) < 0 && (ret) != -EILSEQ && (b)->offset == __CPROVER_old((b)->offset)) \
   && IMPLIES(VI_DEC(b, max).verdict == SPEC_VARINT_ILLEGAL, \
      (ret) == -EILSEQ && (b)->offset == __CPROVER_old((b)->offset)))

int varint_decode_u32(ByteBuffer *b, uint32_t *n)
__CPROVER_requires(VI_DEC_BUF_OK(b) && VI_DEC_OUT_OK(b, n))
__CPROVER_assigns(b->offset, *n)
__CPROVER_ensures(VI_BUF_DSU_SAME(b))
__CPROVER_ensures(VI_DEC_POST(b, SPEC_VARINT_MAX32, __CPROVER_return_value))
__CPROVER_ensures(IMPLIES(VI_DEC(b, SPEC_VARINT_MAX32).verdict == SPEC_VARINT_OK,
    *n == (uint32_t)(VI_DEC(b, SPEC_VARINT_MAX32).value & 0xffffffffu)))
;

int varint_decode_s32(ByteBuffer *b, int32_t *n)
__CPROVER_requires(VI_DEC_BUF_OK(b) && VI_DEC_OUT_OK(b, n))
__CPROVER_assigns(b->offset, *n)
__CPROVER_ensures(VI_BUF_DSU_SAME(b))
__CPROVER_ensures(VI_DEC_POST(b, SPEC_VARINT_MAX32, __CPROVER_return_value))
__CPROVER_ensures(IMPLIES(VI_DEC(b, SPEC_VARINT_MAX32).verdict == SPEC_VARINT_OK,
    (uint32_t)*n == (uint32_t)(VI_DEC(b, SPEC_VARINT_MAX32).value & 0xffffffffu)))
;

int varint_decode_u64(ByteBuffer *b, uint64_t *n)
__CPROVER_requires(VI_DEC_BUF_OK(b) && VI_DEC_OUT_OK(b, n))
__CPROVER_assigns(b->offset, *n)
__CPROVER_ensures(VI_BUF_DSU_SAME(b))
__CPROVER_ensures(VI_DEC_POST(b, SPEC_VARINT_MAX64, __CPROVER_return_value))
__CPROVER_ensures(IMPLIES(VI_DEC(b, SPEC_VARINT_MAX64).verdict == SPEC_VARINT_OK,
    *n == VI_DEC(b, SPEC_VARINT_MAX64).value))
;

int varint_decode_s64(ByteBuffer *b, int64_t *n)
__CPROVER_requires(VI_DEC_BUF_OK(b) && VI_DEC_OUT_OK(b, n))
__CPROVER_assigns(b->offset, *n)
__CPROVER_ensures(VI_BUF_DSU_SAME(b))
__CPROVER_ensures(VI_DEC_POST(b, SPEC_VARINT_MAX64, __CPROVER_return_value))
__CPROVER_ensures(IMPLIES(VI_DEC(b, SPEC_VARINT_MAX64).verdict == SPEC_VARINT_OK,
    (uint64_t)*n == VI_DEC(b, SPEC_VARINT_MAX64).value))
;

/* ---- typed buffer encoders -------------------------------------------- */

/* without room for the longest image of the width: refused, nothing touched */
#define VI_ENC_POST(b, max, v, ret) \
  (IMPLIES(__CPROVER_old((b)->size) - __CPROVER_old((b)->used) < (max), \
      (ret) < 0 && (b)->used == __CPROVER_old((b)->used) && VI_CELL_SAME(b, g_j)) \
   && IMPLIES(__CPROVER_old((b)->size) - __CPROVER_old((b)->used) >= (max), \
      VI_ENCODED(b, v, ret) && (size_t)(ret) <= (max)))

int varint_encode_u32(ByteBuffer *b, const uint32_t n)
__CPROVER_requires(VI_ENC_BUF_OK(b))
__CPROVER_assigns(b->used, __CPROVER_object_upto(b->data, b->size))
__CPROVER_ensures(VI_BUF_DSO_SAME(b))
__CPROVER_ensures(VI_ENC_POST(b, SPEC_VARINT_MAX32, SPEC_VARINT_OF_U32(n), __CPROVER_return_value))
;

int varint_encode_s32(ByteBuffer *b, const int32_t n)
__CPROVER_requires(VI_ENC_BUF_OK(b))
__CPROVER_assigns(b->used, __CPROVER_object_upto(b->data, b->size))
__CPROVER_ensures(VI_BUF_DSO_SAME(b))
__CPROVER_ensures(VI_ENC_POST(b, SPEC_VARINT_MAX32, SPEC_VARINT_OF_S32(n), __CPROVER_return_value))
;

int varint_encode_u64(ByteBuffer *b, const uint64_t n)
__CPROVER_requires(VI_ENC_BUF_OK(b))
__CPROVER_assigns(b->used, __CPROVER_object_upto(b->data, b->size))
__CPROVER_ensures(VI_BUF_DSO_SAME(b))
__CPROVER_ensures(VI_ENC_POST(b, SPEC_VARINT_MAX64, SPEC_VARINT_OF_U64(n), __CPROVER_return_value))
;

int varint_encode_s64(ByteBuffer *b, const int64_t n)
__CPROVER_requires(VI_ENC_BUF_OK(b))
__CPROVER_assigns(b->used, __CPROVER_object_upto(b->data, b->size))
__CPROVER_ensures(VI_BUF_DSO_SAME(b))
__CPROVER_ensures(VI_ENC_POST(b, SPEC_VARINT_MAX64, SPEC_VARINT_OF_S64(n), __CPROVER_return_value))
;

/* ---- typed source decoders -------------------------------------------- */

#define VI_SRC_OUT_OK(s, n) (__CPROVER_w_ok((n), sizeof(*(n))) && !__CPROVER_same_object((n), (s)) \
    && !__CPROVER_same_object((n), (s)->driver) && !__CPROVER_same_object((n), VI_SRC(s)->mem))

int varint_u32_from_source(Source *source, uint32_t *n)
__CPROVER_requires(VI_SRC_OK(source) && VI_SRC_OUT_OK(source, n))
__CPROVER_assigns(*n, VI_SRC(source)->pos)
__CPROVER_ensures(VI_SRC_REST_SAME(source))
__CPROVER_ensures(VI_SRC_POST(source, SPEC_VARINT_MAX32, __CPROVER_return_value))
__CPROVER_ensures(IMPLIES(VI_SDEC(source, SPEC_VARINT_MAX32).verdict == SPEC_VARINT_OK,
    *n == (uint32_t)(VI_SDEC(source, SPEC_VARINT_MAX32).value & 0xffffffffu)))
;

int varint_s32_from_source(Source *source, int32_t *n)
__CPROVER_requires(VI_SRC_OK(source) && VI_SRC_OUT_OK(source, n))
__CPROVER_assigns(*n, VI_SRC(source)->pos)
__CPROVER_ensures(VI_SRC_REST_SAME(source))
__CPROVER_ensures(VI_SRC_POST(source, SPEC_VARINT_MAX32, __CPROVER_return_value))
__CPROVER_ensures(IMPLIES(VI_SDEC(source, SPEC_VARINT_MAX32).verdict == SPEC_VARINT_OK,
    (uint32_t)*n == (uint32_t)(VI_SDEC(source, SPEC_VARINT_MAX32).value & 0xffffffffu)))
;

int varint_u64_from_source(Source *source, uint64_t *n)
__CPROVER_requires(VI_SRC_OK(source) && VI_SRC_OUT_OK(source, n))
__CPROVER_assigns(*n, VI_SRC(source)->pos)
__CPROVER_ensures(VI_SRC_REST_SAME(source))
__CPROVER_ensures(VI_SRC_POST(source, SPEC_VARINT_MAX64, __CPROVER_return_value))
__CPROVER_ensures(IMPLIES(VI_SDEC(source, SPEC_VARINT_MAX64).verdict == SPEC_VARINT_OK,
    *n == VI_SDEC(source, SPEC_VARINT_MAX64).value))
;

int varint_s64_from_source(Source *source, int64_t *n)
__CPROVER_requires(VI_SRC_OK(source) && VI_SRC_OUT_OK(source, n))
__CPROVER_assigns(*n, VI_SRC(source)->pos)
__CPROVER_ensures(VI_SRC_REST_SAME(source))
__CPROVER_ensures(VI_SRC_POST(source, SPEC_VARINT_MAX64, __CPROVER_return_value))
__CPROVER_ensures(IMPLIES(VI_SDEC(source, SPEC_VARINT_MAX64).verdict == SPEC_VARINT_OK,
    (uint64_t)*n == VI_SDEC(source, SPEC_VARINT_MAX64).value))
;

/* ---- sinks ------------------------------------------------------------ */

#define VI_SINK(s) ((struct st_vsink *)(s)->driver)
#define VI_SINK_OK(s) (__CPROVER_rw_ok((s), sizeof(Sink)) \
    && (((s)->kind == DATA_KIND_OCTET && (s)->sink.octet == st_varint_octet_sink) \
        || ((s)->kind == DATA_KIND_CHUNK && (s)->sink.chunk == st_varint_chunk_sink)) \
    && __CPROVER_rw_ok(VI_SINK(s), sizeof(struct st_vsink)) && !__CPROVER_same_object((s), (s)->driver) \
    && VI_SINK(s)->cnt <= ST_VSINK_CAP - SPEC_VARINT_MAX64)
/* accepted: the sink holds exactly the image of v behind what it held before;
 * refused: the sink's code comes back and nothing was delivered */
#define VI_SINK_POST(s, max, v, ret) \
  ((s)->kind == __CPROVER_old((s)->kind) && (s)->driver == __CPROVER_old((s)->driver) \
   && VI_SINK(s)->rc == __CPROVER_old(VI_SINK(s)->rc) \
   && IMPLIES(VI_SINK(s)->rc >= 0, \
      (ret) > 0 && (size_t)(ret) == spec_varint_len(v) && (size_t)(ret) <= (max) \
      && VI_SINK(s)->cnt == __CPROVER_old(VI_SINK(s)->cnt) + spec_varint_len(v) \
      && VI_IMG(VI_SINK(s)->cap, __CPROVER_old(VI_SINK(s)->cnt), ST_VSINK_CAP, (v))) \
   && IMPLIES(VI_SINK(s)->rc < 0, \
      (ret) == VI_SINK(s)->rc && VI_SINK(s)->cnt == __CPROVER_old(VI_SINK(s)->cnt)) \
   && IMPLIES(g_j < __CPROVER_old(VI_SINK(s)->cnt), \
      VI_SINK(s)->cap[VI_CL(g_j, ST_VSINK_CAP)] == __CPROVER_old(VI_SINK(s)->cap[VI_CL(g_j, ST_VSINK_CAP)])))

int varint_u32_to_sink(Sink *sink, const uint32_t n)
__CPROVER_requires(VI_SINK_OK(sink))
__CPROVER_assigns(VI_SINK(sink)->cnt, __CPROVER_object_upto(VI_SINK(sink)->cap, ST_VSINK_CAP))
__CPROVER_ensures(VI_SINK_POST(sink, SPEC_VARINT_MAX32, SPEC_VARINT_OF_U32(n), __CPROVER_return_value))
;

int varint_s32_to_sink(Sink *sink, const int32_t n)
__CPROVER_requires(VI_SINK_OK(sink))
__CPROVER_assigns(VI_SINK(sink)->cnt, __CPROVER_object_upto(VI_SINK(sink)->cap, ST_VSINK_CAP))
__CPROVER_ensures(VI_SINK_POST(sink, SPEC_VARINT_MAX32, SPEC_VARINT_OF_S32(n), __CPROVER_return_value))
;

int varint_u64_to_sink(Sink *sink, const uint64_t n)
__CPROVER_requires(VI_SINK_OK(sink))
__CPROVER_assigns(VI_SINK(sink)->cnt, __CPROVER_object_upto(VI_SINK(sink)->cap, ST_VSINK_CAP))
__CPROVER_ensures(VI_SINK_POST(sink, SPEC_VARINT_MAX64, SPEC_VARINT_OF_U64(n), __CPROVER_return_value))
;

int varint_s64_to_sink(Sink *sink, const int64_t n)
__CPROVER_requires(VI_SINK_OK(sink))
__CPROVER_assigns(VI_SINK(sink)->cnt, __CPROVER_object_upto(VI_SINK(sink)->cap, ST_VSINK_CAP))
__CPROVER_ensures(VI_SINK_POST(sink, SPEC_VARINT_MAX64, SPEC_VARINT_OF_S64(n), __CPROVER_return_value))
;

/* ---- length queries ---------------------------------------------------- */

size_t varint_u64_length(uint64_t n)
__CPROVER_assigns()
__CPROVER_ensures(__CPROVER_return_value == spec_varint_len(SPEC_VARINT_OF_U64(n))
    && __CPROVER_return_value >= 1 && __CPROVER_return_value <= SPEC_VARINT_MAX64)
;

size_t varint_s64_length(int64_t n)
__CPROVER_assigns()
__CPROVER_ensures(__CPROVER_return_value == spec_varint_len(SPEC_VARINT_OF_S64(n))
    && __CPROVER_return_value >= 1 && __CPROVER_return_value <= SPEC_VARINT_MAX64)
;

size_t varint_u32_length(uint32_t n)
__CPROVER_assigns()
__CPROVER_ensures(__CPROVER_return_value == spec_varint_len(SPEC_VARINT_OF_U32(n))
    && __CPROVER_return_value >= 1 && __CPROVER_return_value <= SPEC_VARINT_MAX32)
;

size_t varint_s32_length(int32_t n)
__CPROVER_assigns()
__CPROVER_ensures(__CPROVER_return_value == spec_varint_len(SPEC_VARINT_OF_S32(n))
    && __CPROVER_return_value >= 1 && __CPROVER_return_value <= SPEC_VARINT_MAX32)
;

#endif
