/* Contracts of the wire side of src/register-protocol.c (properties C08, C07).
 *
 * Oracle: spec/regp.h, the reference header codec and reference verdict
 * written from doc/regp.txt.  Top-level postconditions say
 *   emitters:  the frame handed to the framing layer is, octet for octet, the
 *              one the document prescribes for the given field values
 *              (ghost transmit record g_tx_*), on the framing the transport
 *              demands, through the sink of the instance;
 *   receiver:  the verdict on a de-framed octet sequence and the decoded
 *              fields are those of the reference decoder.
 *
 * Ghost transmit record (shared with contracts/regp-proc.h, defined in
 * harness/regp-wire.c under REGP_TX_GHOSTS_DEFINED):
 *   g_tx_count    frames handed to a framing layer so far
 *   g_tx_framing  SPEC_TX_SLIP / SPEC_TX_LENP of the last one
 *   g_tx_sink     sink it was sent to
 *   g_tx_hs       header octets (12, 14, 16), g_tx_hdr[0..g_tx_hs) their values
 *   g_tx_pl       payload pointer (NULL: none), g_tx_ps payload octets
 *   g_tx_octet    payload octet at the ghost index g_k (when g_k < g_tx_ps)
 *
 * Payload checksums are folds: they are pinned by the ghost trace g_crcT of
 * contracts/crc-16-arc.h (C16), so payload length is capped at CRC_NMAX.
 * The two header checksum calls work on 12 + 2 octets and are verified on the
 * real ufw_crc16_arc_u16 (complete unwinding, crc16_octet by its C16 contract).
 */
#ifndef CONTRACTS_REGP_WIRE_H
#define CONTRACTS_REGP_WIRE_H
#include <limits.h>
#include "spec/regp.h"
#include "contracts/crc-16-arc.h"

extern size_t g_tx_count;
extern uint8_t g_tx_hdr[16];
extern size_t g_tx_hs;
extern const void *g_tx_pl;
extern size_t g_tx_ps;
extern uint8_t g_tx_octet;
extern int g_tx_framing;
extern const Sink *g_tx_sink;

#define RPW_TX_ASSIGNS g_tx_count, g_tx_hs, g_tx_pl, g_tx_ps, g_tx_octet, g_tx_framing, g_tx_sink, \
                       __CPROVER_object_whole(g_tx_hdr)

/* ------------------------------------------------------------ predicates */

#define RPW_U8(b) ((const uint8_t *)(b))
#define RPW_EP_OK(p) ((p)->ep.type == RP_EP_SERIAL || (p)->ep.type == RP_EP_TCP)
#define RPW_MEM_OK(p) ((p)->memory.type == RP_MEMTYPE_8 || (p)->memory.type == RP_MEMTYPE_16)
#define RPW_P_OK(p) (__CPROVER_rw_ok((p), sizeof(RegP)) && RPW_EP_OK(p) && RPW_MEM_OK(p))
#define RPW_SERIAL(p) ((p)->ep.type == RP_EP_SERIAL)
#define RPW_TYPE_OK(t) ((t) == RP_FRAME_READ_REQUEST || (t) == RP_FRAME_READ_RESPONSE \
                        || (t) == RP_FRAME_WRITE_REQUEST || (t) == RP_FRAME_WRITE_RESPONSE || (t) == RP_FRAME_META)
#define RPW_IS_REQ(t) ((t) == RP_FRAME_READ_REQUEST || (t) == RP_FRAME_WRITE_REQUEST)
#define RPW_RESP_OK(c) ((c) >= RP_RESP_ACK && (c) <= RP_RESP_EIO)
/* 16-bit word semantics selected by the msem argument of the encoders */
#define RPW_W16(p, msem) ((msem) == MSEM_16BIT || ((msem) == MSEM_AUTO && (p)->memory.type == RP_MEMTYPE_16))
/* response type answering request type t (2.1: 0 -> 1, 2 -> 3) */
#define RPW_RESP_TYPE(t) ((unsigned)(t) + 1u)
/* option bits the document mandates for this instance / message */
#define RPW_OPTS(p, w16, type, n) SPEC_EMIT_OPTS(RPW_SERIAL(p), (w16), (unsigned)(type), (n))

/* octets 0..11 of header image B are the document's layout of the fields */
#define RPW_HDR12(B, type, opts, meta, seq, addr, bs) \
  ((B)[0] == SPEC_HDR_OCTET(0, type, opts, meta, seq, addr, bs) \
   && (B)[1] == SPEC_HDR_OCTET(1, type, opts, meta, seq, addr, bs) \
   && (B)[2] == SPEC_HDR_OCTET(2, type, opts, meta, seq, addr, bs) \
   && (B)[3] == SPEC_HDR_OCTET(3, type, opts, meta, seq, addr, bs) \
   && (B)[4] == SPEC_HDR_OCTET(4, type, opts, meta, seq, addr, bs) \
   && (B)[5] == SPEC_HDR_OCTET(5, type, opts, meta, seq, addr, bs) \
   && (B)[6] == SPEC_HDR_OCTET(6, type, opts, meta, seq, addr, bs) \
   && (B)[7] == SPEC_HDR_OCTET(7, type, opts, meta, seq, addr, bs) \
   && (B)[8] == SPEC_HDR_OCTET(8, type, opts, meta, seq, addr, bs) \
   && (B)[9] == SPEC_HDR_OCTET(9, type, opts, meta, seq, addr, bs) \
   && (B)[10] == SPEC_HDR_OCTET(10, type, opts, meta, seq, addr, bs) \
   && (B)[11] == SPEC_HDR_OCTET(11, type, opts, meta, seq, addr, bs))

/* checksum words of header image B: header checksum present exactly with
 * WITH-HEADER-CRC and equal to CRC-16/ARC of the rest of the header; payload
 * checksum word present exactly with WITH-PAYLOAD-CRC and equal to plcrc */
#define RPW_HDR_CRCS(B, opts, plcrc) \
  (IMPLIES((opts) & SPEC_O_HDCRC, SPEC_BE16_AT(B, SPEC_HDCRC_OFF) == spec_hdr_crc((B), (opts))) \
   && IMPLIES((opts) & SPEC_O_PLCRC, SPEC_BE16_AT(B, SPEC_PLCRC_OFF(opts)) == (uint16_t)(plcrc)))

/* the transmit record holds exactly one more frame, with this header, sent
 * with the framing of the instance's transport through the instance's sink */
#define RPW_EMITTED(p, type, w16, meta, seq, addr, bs, plcrc) \
  (g_tx_count == __CPROVER_old(g_tx_count) + 1u \
   && g_tx_framing == (RPW_SERIAL(p) ? SPEC_TX_SLIP : SPEC_TX_LENP) \
   && g_tx_sink == &(p)->ep.sink \
   && g_tx_hs == SPEC_HLEN(RPW_OPTS(p, w16, type, bs)) \
   && RPW_HDR12(g_tx_hdr, (unsigned)(type), RPW_OPTS(p, w16, type, bs), meta, seq, addr, bs) \
   && RPW_HDR_CRCS(g_tx_hdr, RPW_OPTS(p, w16, type, bs), plcrc))
#define RPW_NO_PAYLOAD() (g_tx_pl == NULL && g_tx_ps == 0u)

/* ------------------------------------------------------------ header codec */

static inline uint16_t
make_motv(const RegP *p, const unsigned int msem, const uint_least8_t meta,
          const RPFrameType type, const size_t n)
__CPROVER_requires(__CPROVER_r_ok(p, sizeof(RegP)) && RPW_EP_OK(p) && RPW_MEM_OK(p))
__CPROVER_requires(msem <= MSEM_16BIT && meta <= 15u && RPW_TYPE_OK(type))
__CPROVER_assigns()
__CPROVER_ensures(__CPROVER_return_value ==
    (uint16_t)(((unsigned)meta << 12) | (RPW_OPTS(p, RPW_W16(p, msem), type, n) << 8)
               | ((unsigned)type << 4) | SPEC_RP_VERSION))
;

static inline void
populate_header(uint16_t *buf, RegP *p, const unsigned int msem, const RPFrameType type,
                const uint_least8_t meta, const uint16_t seqno, const uint32_t address,
                const size_t n, const uint16_t plcrc)
__CPROVER_requires(__CPROVER_rw_ok(buf, 16u) && RPW_P_OK(p) && !__CPROVER_same_object(buf, p))
__CPROVER_requires(msem <= MSEM_16BIT && meta <= 15u && RPW_TYPE_OK(type) && n <= 0xffffffffu)
__CPROVER_assigns(__CPROVER_object_upto(buf, 16u))
__CPROVER_ensures(RPW_HDR12(RPW_U8(buf), (unsigned)type, RPW_OPTS(p, RPW_W16(p, msem), type, n),
                            meta, seqno, address, n))
__CPROVER_ensures(RPW_U8(buf)[12] == 0u && RPW_U8(buf)[13] == 0u)
__CPROVER_ensures(SPEC_BE16_AT(buf, 14u) == plcrc)
;

/* E(encode_header): the header image is the document's for these fields on
 * this transport; returned length in words */
static size_t
encode_header(uint16_t *buf, RegP *p, const unsigned int msem, const RPFrameType type,
              const uint_least8_t meta, const uint16_t seqno, const uint32_t address,
              const size_t n, const uint16_t plcrc)
__CPROVER_requires(__CPROVER_rw_ok(buf, 16u) && RPW_P_OK(p) && !__CPROVER_same_object(buf, p))
__CPROVER_requires(msem <= MSEM_16BIT && meta <= 15u && RPW_TYPE_OK(type) && n <= 0xffffffffu)
__CPROVER_assigns(__CPROVER_object_upto(buf, 16u))
__CPROVER_ensures(__CPROVER_return_value == SPEC_HLEN(RPW_OPTS(p, RPW_W16(p, msem), type, n)) / 2u)
__CPROVER_ensures(RPW_HDR12(RPW_U8(buf), (unsigned)type, RPW_OPTS(p, RPW_W16(p, msem), type, n),
                            meta, seqno, address, n))
__CPROVER_ensures(RPW_HDR_CRCS(RPW_U8(buf), RPW_OPTS(p, RPW_W16(p, msem), type, n), plcrc))
;

/* frame and buffer may live in one block (parse_frame): then they must not
 * overlap */
#define RPW_APART(frame, buf, n) \
  IMPLIES(__CPROVER_same_object((frame), (buf)), \
          (size_t)__CPROVER_POINTER_OFFSET(buf) >= (size_t)__CPROVER_POINTER_OFFSET(frame) + sizeof(RPFrame) \
          || (size_t)__CPROVER_POINTER_OFFSET(buf) + (size_t)(n) <= (size_t)__CPROVER_POINTER_OFFSET(frame))

#define RPW_FIELDS_DECODED(frame, h) \
  ((frame)->header.version == SPEC_F_VERSION(h) \
   && (unsigned)(frame)->header.type == SPEC_F_TYPE(h) \
   && (frame)->header.options == SPEC_F_OPTS(h) \
   && (frame)->header.meta.raw == SPEC_F_META(h) \
   && (frame)->header.sequence == SPEC_F_SEQ(h) \
   && (frame)->header.address == SPEC_F_ADDR(h) \
   && (frame)->header.blocksize == SPEC_F_BS(h) \
   && (frame)->header.hdcrc == SPEC_F_HDCRC(h) \
   && (frame)->header.plcrc == SPEC_F_PLCRC(h))

/* E(parse_header): verdict of the reference decoder on the n octets at buf
 * (exactly n octets are readable); on success the decoded fields */
static int
parse_header(RPFrame *frame, void *buf, size_t n)
__CPROVER_requires(__CPROVER_rw_ok(frame, sizeof(RPFrame)))
__CPROVER_requires(n <= (size_t)0x7fffffff && (n == 0u || __CPROVER_r_ok(buf, n)))
__CPROVER_requires(RPW_APART(frame, buf, n))
__CPROVER_assigns(frame->header)
__CPROVER_ensures(__CPROVER_return_value == spec_hdr_result(buf, n))
__CPROVER_ensures(IMPLIES(__CPROVER_return_value >= 0, RPW_FIELDS_DECODED(frame, buf)))
;

/* payload size rule of the document on the decoded fields */
static int
payload_plausible(RPFrame *f)
__CPROVER_requires(__CPROVER_r_ok(f, sizeof(RPFrame)) && RPW_TYPE_OK(f->header.type))
__CPROVER_assigns()
__CPROVER_ensures(__CPROVER_return_value ==
    SPEC_PLSIZE_RESULT((unsigned)f->header.type, f->header.options, f->header.blocksize, f->payload.size))
;

/* payload checksum: verified whenever the frame declares one and carries
 * payload; the size rule has been applied by the caller */
#define RPW_CRC_DUE(f) (((f)->header.options & SPEC_O_PLCRC) && (f)->payload.size > 0u)
static int
check_payload(const RPFrame *f)
__CPROVER_requires(__CPROVER_r_ok(f, sizeof(RPFrame)) && RPW_TYPE_OK(f->header.type))
__CPROVER_requires(f->payload.size ==
    SPEC_PAYLOAD_OCTETS((unsigned)f->header.type, f->header.options, f->header.blocksize))
__CPROVER_requires(IMPLIES(f->payload.size > 0u,
    f->payload.size <= CRC_NMAX && __CPROVER_r_ok(f->payload.data, f->payload.size)
    && __CPROVER_r_ok(g_crcT, (f->payload.size + 1u) * sizeof(uint16_t))))
__CPROVER_requires(IMPLIES(f->payload.size > 0u && f->payload.size <= CRC_NMAX,
    CRC_TRACE_OK(g_crcT, 0, f->payload.data, f->payload.size)))
__CPROVER_assigns()
__CPROVER_ensures(IMPLIES(!RPW_CRC_DUE(f), __CPROVER_return_value == 0))
__CPROVER_ensures(IMPLIES(RPW_CRC_DUE(f),
    __CPROVER_return_value == ((g_crcT[f->payload.size] == f->header.plcrc) ? 0 : -EPROTO)))
;

/* view of the receive block of parse_frame: RPFrame, then the raw frame */
#define RPW_PF_RAW(fb) ((fb)->data + sizeof(RPFrame))
#define RPW_PF_N(fb) ((fb)->used - sizeof(RPFrame))
#define RPW_PF_HLEN(fb) SPEC_HLEN(SPEC_F_OPTS(RPW_PF_RAW(fb)))
#define REGP_PF_MAX (16u + CRC_NMAX)
/* the ghost trace describes the checksum of the octets behind the header the
 * option bits announce (established by the caller; a trace exists for every
 * content) */
#define REGP_PF_TRACE_OK(fb) \
  IMPLIES(RPW_PF_N(fb) > RPW_PF_HLEN(fb), \
          CRC_TRACE_OK(g_crcT, 0, RPW_PF_RAW(fb) + RPW_PF_HLEN(fb), RPW_PF_N(fb) - RPW_PF_HLEN(fb)))

/* E(parse_frame): verdict of the reference decoder on the whole frame; the
 * RPFrame at the head of the block describes it; the raw octets are not
 * modified (assigns) */
static int
parse_frame(ByteBuffer *framebuf)
__CPROVER_requires(__CPROVER_r_ok(framebuf, sizeof(ByteBuffer)))
__CPROVER_requires(framebuf->data != NULL && framebuf->used >= sizeof(RPFrame) && framebuf->used <= framebuf->size
    && __CPROVER_rw_ok(framebuf->data, framebuf->used) && !__CPROVER_same_object(framebuf, framebuf->data))
__CPROVER_requires(RPW_PF_N(framebuf) <= REGP_PF_MAX
    && IMPLIES(RPW_PF_N(framebuf) >= 12u, RPW_PF_N(framebuf) <= RPW_PF_HLEN(framebuf) + CRC_NMAX)
    && __CPROVER_r_ok(g_crcT, (REGP_PF_MAX + 1u) * sizeof(uint16_t))
    && !__CPROVER_same_object(g_crcT, framebuf->data))
__CPROVER_requires(IMPLIES(RPW_PF_N(framebuf) >= 12u, REGP_PF_TRACE_OK(framebuf)))
__CPROVER_assigns(__CPROVER_object_upto(framebuf->data, sizeof(RPFrame)))
__CPROVER_ensures(IMPLIES(!spec_frame_open(RPW_PF_RAW(framebuf), RPW_PF_N(framebuf)),
    __CPROVER_return_value == spec_frame_result(RPW_PF_RAW(framebuf), RPW_PF_N(framebuf),
        g_crcT[spec_frame_plen(RPW_PF_RAW(framebuf), RPW_PF_N(framebuf))])))
__CPROVER_ensures(IMPLIES(spec_frame_open(RPW_PF_RAW(framebuf), RPW_PF_N(framebuf)),
    __CPROVER_return_value == 0 || __CPROVER_return_value == -EPROTO))
__CPROVER_ensures(((RPFrame *)framebuf->data)->raw.memory == RPW_PF_RAW(framebuf)
    && ((RPFrame *)framebuf->data)->raw.size == RPW_PF_N(framebuf))
__CPROVER_ensures(IMPLIES(spec_hdr_result(RPW_PF_RAW(framebuf), RPW_PF_N(framebuf)) >= 0,
    RPW_FIELDS_DECODED((RPFrame *)framebuf->data, RPW_PF_RAW(framebuf))
    && ((RPFrame *)framebuf->data)->payload.data == (void *)(RPW_PF_RAW(framebuf) + RPW_PF_HLEN(framebuf))
    && ((RPFrame *)framebuf->data)->payload.size == RPW_PF_N(framebuf) - RPW_PF_HLEN(framebuf)))
;

/* --------------------------------------------------------------- framing */

/* send_memory carries one of three contracts, selected per target:
 *   (default)            the ghost-transmit-record view used by every emitter
 *                        and by contracts/regp-proc.h (C06/C09);
 *   REGP_WIRE_LINK == 1  the wire view on a TCP endpoint: octets the sink
 *                        driver receives, through C13's PROVED contract of
 *                        flenp_chunks_to_sink (contracts/length-prefix.h);
 *   REGP_WIRE_LINK == 2  no contract (bounded whole-stack harness of the
 *                        serial branch, real rfc1055_encode + real chunk source).
 */
#ifndef REGP_WIRE_LINK
/* E(send_memory): header ++ payload is handed, in this order and unchanged,
 * to the framing the transport demands (serial: SLIP, TCP: varint length
 * prefix), towards the sink of the instance */
static int
send_memory(RegP *p, void *hdr, size_t hs, void *pl, size_t ps)
__CPROVER_requires(RPW_P_OK(p))
__CPROVER_requires((hs == 12u || hs == 14u || hs == 16u) && __CPROVER_r_ok(hdr, hs))
__CPROVER_requires(pl == NULL || ps == 0u || __CPROVER_r_ok(pl, ps))
__CPROVER_assigns(RPW_TX_ASSIGNS)
__CPROVER_ensures(g_tx_count == __CPROVER_old(g_tx_count) + 1u)
__CPROVER_ensures(g_tx_framing == (RPW_SERIAL(p) ? SPEC_TX_SLIP : SPEC_TX_LENP) && g_tx_sink == &p->ep.sink)
__CPROVER_ensures(g_tx_hs == hs)
__CPROVER_ensures(g_tx_hdr[0] == RPW_U8(hdr)[0] && g_tx_hdr[1] == RPW_U8(hdr)[1]
    && g_tx_hdr[2] == RPW_U8(hdr)[2] && g_tx_hdr[3] == RPW_U8(hdr)[3]
    && g_tx_hdr[4] == RPW_U8(hdr)[4] && g_tx_hdr[5] == RPW_U8(hdr)[5]
    && g_tx_hdr[6] == RPW_U8(hdr)[6] && g_tx_hdr[7] == RPW_U8(hdr)[7]
    && g_tx_hdr[8] == RPW_U8(hdr)[8] && g_tx_hdr[9] == RPW_U8(hdr)[9]
    && g_tx_hdr[10] == RPW_U8(hdr)[10] && g_tx_hdr[11] == RPW_U8(hdr)[11])
__CPROVER_ensures(IMPLIES(hs >= 14u, g_tx_hdr[12] == RPW_U8(hdr)[12] && g_tx_hdr[13] == RPW_U8(hdr)[13]))
__CPROVER_ensures(IMPLIES(hs >= 16u, g_tx_hdr[14] == RPW_U8(hdr)[14] && g_tx_hdr[15] == RPW_U8(hdr)[15]))
__CPROVER_ensures(g_tx_pl == pl && g_tx_ps == (pl != NULL ? ps : 0u))
__CPROVER_ensures(IMPLIES(pl != NULL && g_k < ps, g_tx_octet == RPW_U8(pl)[g_k]))
__CPROVER_ensures(__CPROVER_return_value <= 0)
;

#elif REGP_WIRE_LINK == 1
/* ------------------------------------------------- wire view, TCP (5.2)
 * doc/regp.txt 5.2: "length prefixing with variable-length integers as
 * specified in Google's protobuf format": the sink receives
 *     varint(N) ++ hdr[0..hs) ++ pl[0..ps)        N = hs + ps  (ps = 0 without payload)
 * stated with the ghost stream idiom of C17/C13 (stubs/endpoint_drivers.h):
 * q0 the sink driver's position at entry, g_b the one observed absolute
 * position (arbitrary, hence every position), g_snk_val the octet the driver
 * received there.  "As far as the driver got": a hard driver error ends the
 * frame early (return value = the driver's, a proper initial part sent).
 * C13's payload clause is stated through the one observed chunk g_lp_c
 * (arbitrary, never assigned): the header clause is what it yields for
 * g_lp_c == 0, the payload clause for g_lp_c == 1; both hold for every value
 * of the ghost, i.e. unconditionally.
 *
 * Glue (RPL_GLUE_OK): C13 describes a chunk list by ghost prefix sums
 * g_lp_sum[] / ghost sink positions g_lp_pos[] that the caller sets up; for the
 * list send_memory builds (header chunk, payload chunk) they are functions of
 * hs, ps and the sink position.  They are specification-only variables (never
 * read or written by code), so requiring these values excludes no behaviour. */
#define RPL_N(hs, pl, ps) ((size_t)(hs) + ((pl) != NULL ? (size_t)(ps) : (size_t)0))
#define RPL_L(hs, pl, ps) spec_varint_len((uint64_t)RPL_N(hs, pl, ps))
#define RPL_PS_MAX ((size_t)0x7fffffffffffff00)
#define RPL_GLUE_OK(hs, pl, ps) \
  (g_lp_sum[0] == 0u && g_lp_sum[1] == (size_t)(hs) && g_lp_sum[2] == RPL_N(hs, pl, ps) \
   && g_snk_pos <= SIZE_MAX - RPL_N(hs, pl, ps) - 16u \
   && g_lp_pos[0] == g_snk_pos + RPL_L(hs, pl, ps) && g_lp_pos[1] == g_lp_pos[0] + (size_t)(hs) \
   && g_lp_pos[2] == g_lp_pos[0] + RPL_N(hs, pl, ps))
#define RPL_Q0 __CPROVER_old(g_snk_pos)
#define RPL_REL ((size_t)(g_b - RPL_Q0))
#define RPL_SEEN (g_b >= RPL_Q0 && g_b < g_snk_pos)
#define RPL_SENT ((size_t)(g_snk_pos - RPL_Q0))

static int
send_memory(RegP *p, void *hdr, size_t hs, void *pl, size_t ps)
__CPROVER_requires(RPW_P_OK(p) && p->ep.type == RP_EP_TCP && EP_SINK_OK(&p->ep.sink) && LP_STATIC_OK())
__CPROVER_requires((hs == 12u || hs == 14u || hs == 16u) && __CPROVER_r_ok(hdr, hs) && LP_SEP(hdr))
__CPROVER_requires(ps <= RPL_PS_MAX && (pl == NULL || ps == 0u || (__CPROVER_r_ok(pl, ps) && LP_SEP(pl))))
__CPROVER_requires(RPL_GLUE_OK(hs, pl, ps))
__CPROVER_assigns(LP_SNK_ASSIGNS)
/* result and counts */
__CPROVER_ensures(__CPROVER_return_value <= 0)
__CPROVER_ensures(g_snk_pos >= RPL_Q0 && RPL_SENT <= RPL_L(hs, pl, ps) + RPL_N(hs, pl, ps))
__CPROVER_ensures(IMPLIES(__CPROVER_return_value == 0,
    RPL_SENT == RPL_L(hs, pl, ps) + RPL_N(hs, pl, ps) && g_snk_nhard == __CPROVER_old(g_snk_nhard)))
__CPROVER_ensures(IMPLIES(__CPROVER_return_value < 0,
    __CPROVER_return_value == g_snk_err && !EP_TRANSIENT(__CPROVER_return_value)
    && g_snk_nhard == (size_t)(__CPROVER_old(g_snk_nhard) + 1u)
    && RPL_SENT < RPL_L(hs, pl, ps) + RPL_N(hs, pl, ps)))
/* the octets: minimal base-128 varint of the frame length ... */
__CPROVER_ensures(IMPLIES(RPL_SEEN && RPL_REL < RPL_L(hs, pl, ps),
    g_snk_val == spec_varint_octet((uint64_t)RPL_N(hs, pl, ps), RPL_REL)))
/* ... the header octets ... */
__CPROVER_ensures(IMPLIES(g_lp_c == 0u && RPL_SEEN && RPL_REL >= RPL_L(hs, pl, ps) && RPL_REL - RPL_L(hs, pl, ps) < hs,
    g_snk_val == RPW_U8(hdr)[RPL_REL - RPL_L(hs, pl, ps)]))
/* ... the payload octets ... */
__CPROVER_ensures(IMPLIES(g_lp_c == 1u && pl != NULL && RPL_SEEN && RPL_REL >= RPL_L(hs, pl, ps) + hs
    && RPL_REL - RPL_L(hs, pl, ps) - hs < ps,
    g_snk_val == RPW_U8(pl)[RPL_REL - RPL_L(hs, pl, ps) - hs]))
/* ... and nothing outside the frame */
__CPROVER_ensures(IMPLIES(!RPL_SEEN, g_snk_val == __CPROVER_old(g_snk_val)))
;
#endif /* REGP_WIRE_LINK */

/* Transmit-record contracts of the two framing entry points: the ghost
 * instrumentation behind the record view of send_memory.  They state only what
 * send_memory's record view needs: the octets handed to the framing layer are
 * the unread octets of the chunk list in order -- recorded in the ghost
 * transmit record (first chunk: at most 16 octets, by value; second chunk:
 * pointer, length, octet at g_k) -- the sink they go to, the framing kind, and
 * the range of result codes.  The real functions do not write ghosts, so these
 * clauses cannot be enforced on them literally; what they stand for is linked
 * to the PROVED contracts of the framing layer:
 *   flenp_chunks_to_sink  target lemma_tx_record_lenp enforces them (and "the
 *       sink receives varint(hs + ps) ++ recorded header ++ recorded payload")
 *       on rpw_lenp_recorded = { write the record; call flenp_chunks_to_sink },
 *       with the call replaced by C13's contract; target send_memory_tcp_wire
 *       proves the wire image of the real send_memory directly from C13's
 *       contract, without the record;
 *   rfc1055_encode        bounded: target send_memory_serial_wire runs the real
 *       stack (tier B).  C12's contract is stated for its own stub source and
 *       cannot replace the call here (send_memory feeds a chunk source over the
 *       chunk list). */
#define RPW_CHUNK_OK(b) ((b)->offset == 0u && (b)->used == (b)->size \
                         && ((b)->used == 0u || ((b)->data != NULL && __CPROVER_r_ok((b)->data, (b)->used))))
#define RPW_CHUNKS_OK(c) \
  (__CPROVER_rw_ok((c), sizeof(ByteChunks)) && (c)->active == 0u && ((c)->chunks == 1u || (c)->chunks == 2u) \
   && __CPROVER_rw_ok((c)->chunk, (c)->chunks * sizeof(ByteBuffer)) \
   && RPW_CHUNK_OK(&(c)->chunk[0]) && (c)->chunk[0].used <= 16u && (c)->chunk[0].used >= 1u \
   && IMPLIES((c)->chunks == 2u, RPW_CHUNK_OK(&(c)->chunk[1])))
#define RPW_CH0(c, i) ((c)->chunk[0].data[(i) < (c)->chunk[0].used ? (i) : 0u])
#define RPW_CHUNKS_RECORDED(c) \
  (g_tx_count == __CPROVER_old(g_tx_count) + 1u && g_tx_hs == (c)->chunk[0].used \
   && g_tx_hdr[0] == RPW_CH0(c, 0) && g_tx_hdr[1] == RPW_CH0(c, 1) && g_tx_hdr[2] == RPW_CH0(c, 2) \
   && g_tx_hdr[3] == RPW_CH0(c, 3) && g_tx_hdr[4] == RPW_CH0(c, 4) && g_tx_hdr[5] == RPW_CH0(c, 5) \
   && g_tx_hdr[6] == RPW_CH0(c, 6) && g_tx_hdr[7] == RPW_CH0(c, 7) && g_tx_hdr[8] == RPW_CH0(c, 8) \
   && g_tx_hdr[9] == RPW_CH0(c, 9) && g_tx_hdr[10] == RPW_CH0(c, 10) && g_tx_hdr[11] == RPW_CH0(c, 11) \
   && g_tx_hdr[12] == RPW_CH0(c, 12) && g_tx_hdr[13] == RPW_CH0(c, 13) && g_tx_hdr[14] == RPW_CH0(c, 14) \
   && g_tx_hdr[15] == RPW_CH0(c, 15) \
   && g_tx_pl == ((c)->chunks == 2u ? (const void *)(c)->chunk[(c)->chunks - 1u].data : (const void *)NULL) \
   && g_tx_ps == ((c)->chunks == 2u ? (c)->chunk[(c)->chunks - 1u].used : 0u) \
   && IMPLIES((c)->chunks == 2u && g_k < (c)->chunk[(c)->chunks - 1u].used, \
              g_tx_octet == (c)->chunk[(c)->chunks - 1u].data[g_k]))
/* result codes: 0 / the total, or a negative value of type int (a driver's value) */
#define RPW_FRAMING_RC_OK(rc) ((rc) >= (ssize_t)INT_MIN)

#if defined(REGP_WIRE_FRAMING) && !defined(REGP_WIRE_LINK)
ssize_t flenp_chunks_to_sink(const LengthPrefixKind k, Sink *sink, ByteChunks *oc)
__CPROVER_requires(k == LENP_VARIABLE && __CPROVER_r_ok(sink, sizeof(Sink)) && RPW_CHUNKS_OK(oc))
__CPROVER_assigns(RPW_TX_ASSIGNS)
__CPROVER_ensures(RPW_CHUNKS_RECORDED(oc) && g_tx_framing == SPEC_TX_LENP && g_tx_sink == sink)
__CPROVER_ensures(RPW_FRAMING_RC_OK(__CPROVER_return_value))
;

int rfc1055_encode(const RFC1055Context *ctx, Source *source, Sink *sink)
__CPROVER_requires(__CPROVER_r_ok(ctx, sizeof(RFC1055Context)) && ctx->flags == RFC1055_DEFAULT)
__CPROVER_requires(__CPROVER_rw_ok(source, sizeof(Source)) && source->kind == DATA_KIND_CHUNK
    && source->source.chunk == read_from_chunks && RPW_CHUNKS_OK((ByteChunks *)source->driver))
__CPROVER_requires(__CPROVER_r_ok(sink, sizeof(Sink)))
__CPROVER_assigns(RPW_TX_ASSIGNS)
__CPROVER_ensures(RPW_CHUNKS_RECORDED((ByteChunks *)source->driver) && g_tx_framing == SPEC_TX_SLIP && g_tx_sink == sink)
__CPROVER_ensures(__CPROVER_return_value <= 0 && RPW_FRAMING_RC_OK(__CPROVER_return_value))
;
#endif /* REGP_WIRE_FRAMING */

#if defined(REGP_WIRE_LINK) && REGP_WIRE_LINK == 1
/* lemma_tx_record_lenp: the instrumented framing call.  Its contract is the
 * transmit-record contract above, word for word, plus the wire clause "the
 * sink receives the varint-prefixed frame OF THE RECORD"; the extra
 * preconditions are the ones C13's contract needs (stub sink of C17, kind
 * table invariant, ghost sums / positions of the list, separation from the
 * ghost state). */
static void rpw_record(const ByteChunks *c, int framing, const Sink *sink)
{
  g_tx_count++; g_tx_framing = framing; g_tx_sink = sink;
  g_tx_hs = c->chunk[0].used;
  for (size_t i = 0; i < 16; i++)
    g_tx_hdr[i] = c->chunk[0].data[i < c->chunk[0].used ? i : 0u];
  g_tx_pl = c->chunks == 2 ? c->chunk[1].data : NULL;
  g_tx_ps = c->chunks == 2 ? c->chunk[1].used : 0;
  if (c->chunks == 2 && g_k < c->chunk[1].used) g_tx_octet = c->chunk[1].data[g_k];
}
ssize_t rpw_lenp_recorded(const LengthPrefixKind k, Sink *sink, ByteChunks *oc)
{
  rpw_record(oc, SPEC_TX_LENP, sink);
  return flenp_chunks_to_sink(k, sink, oc);
}
#define RPR_HS(c) ((c)->chunk[0].used)
#define RPR_PS(c) ((c)->chunks == 2u ? (c)->chunk[(c)->chunks - 1u].used : (size_t)0)
#define RPR_NOT_TX(q) (!__CPROVER_same_object((q), g_tx_hdr) && !__CPROVER_same_object((q), &g_tx_count) \
   && !__CPROVER_same_object((q), &g_tx_hs) && !__CPROVER_same_object((q), &g_tx_pl) && !__CPROVER_same_object((q), &g_tx_ps) \
   && !__CPROVER_same_object((q), &g_tx_octet) && !__CPROVER_same_object((q), &g_tx_framing) && !__CPROVER_same_object((q), &g_tx_sink))
#define RPR_EXTRA_OK(sink, c) \
  (EP_SINK_OK(sink) && LP_STATIC_OK() && RPR_PS(c) <= RPL_PS_MAX \
   && LP_SEP(c) && LP_SEP((c)->chunk) && RPR_NOT_TX(c) && RPR_NOT_TX((c)->chunk) \
   && LP_SEP((c)->chunk[0].data) && RPR_NOT_TX((c)->chunk[0].data) \
   && IMPLIES((c)->chunks == 2u && RPR_PS(c) > 0u, LP_SEP((c)->chunk[(c)->chunks - 1u].data) && RPR_NOT_TX((c)->chunk[(c)->chunks - 1u].data)) \
   && g_lp_sum[0] == 0u && g_lp_sum[1] == RPR_HS(c) && g_lp_sum[2] == RPR_HS(c) + RPR_PS(c) \
   && g_snk_pos <= SIZE_MAX - (RPR_HS(c) + RPR_PS(c)) - 16u \
   && g_lp_pos[0] == g_snk_pos + spec_varint_len((uint64_t)(RPR_HS(c) + RPR_PS(c))) \
   && g_lp_pos[1] == g_lp_pos[0] + RPR_HS(c) && g_lp_pos[2] == g_lp_pos[0] + RPR_HS(c) + RPR_PS(c))
/* the frame length and prefix length OF THE RECORD */
#define RPR_N (g_tx_hs + g_tx_ps)
#define RPR_L spec_varint_len((uint64_t)RPR_N)

ssize_t rpw_lenp_recorded(const LengthPrefixKind k, Sink *sink, ByteChunks *oc)
__CPROVER_requires(k == LENP_VARIABLE && __CPROVER_r_ok(sink, sizeof(Sink)) && RPW_CHUNKS_OK(oc))
__CPROVER_requires(RPR_EXTRA_OK(sink, oc))
__CPROVER_assigns(RPW_TX_ASSIGNS, LP_SNK_ASSIGNS)
/* the transmit-record contract of flenp_chunks_to_sink */
__CPROVER_ensures(RPW_CHUNKS_RECORDED(oc) && g_tx_framing == SPEC_TX_LENP && g_tx_sink == sink)
__CPROVER_ensures(RPW_FRAMING_RC_OK(__CPROVER_return_value))
/* what the sink received is the varint-prefixed frame of the record */
__CPROVER_ensures(__CPROVER_return_value != 0 && g_snk_pos >= RPL_Q0 && RPL_SENT <= RPR_L + RPR_N)
__CPROVER_ensures(IMPLIES(__CPROVER_return_value > 0,
    (size_t)__CPROVER_return_value == RPR_L + RPR_N && RPL_SENT == RPR_L + RPR_N))
__CPROVER_ensures(IMPLIES(__CPROVER_return_value < 0,
    __CPROVER_return_value == g_snk_err && !EP_TRANSIENT(__CPROVER_return_value) && RPL_SENT < RPR_L + RPR_N))
__CPROVER_ensures(IMPLIES(RPL_SEEN && RPL_REL < RPR_L, g_snk_val == spec_varint_octet((uint64_t)RPR_N, RPL_REL)))
__CPROVER_ensures(IMPLIES(g_lp_c == 0u && RPL_SEEN && RPL_REL >= RPR_L && RPL_REL - RPR_L < g_tx_hs,
    g_snk_val == g_tx_hdr[(RPL_REL - RPR_L) < 16u ? (RPL_REL - RPR_L) : 0u]))
__CPROVER_ensures(IMPLIES(g_lp_c == 1u && RPL_SEEN && RPL_REL >= RPR_L + g_tx_hs && RPL_REL - RPR_L - g_tx_hs < g_tx_ps
    && g_k == RPL_REL - RPR_L - g_tx_hs, g_snk_val == g_tx_octet))
__CPROVER_ensures(IMPLIES(!RPL_SEEN, g_snk_val == __CPROVER_old(g_snk_val)))
;
#endif /* REGP_WIRE_LINK == 1 */


/* -------------------------------------------------------------- requests */

/* requests: header sequence == old counter, counter' == old + 1 mod 2^16 */
#define RPW_SEQ_ADVANCED(p) (p->session.sequence == (uint16_t)(__CPROVER_old(p->session.sequence) + 1u))

int regp_req_read8(RegP *p, uint32_t address, size_t n)
__CPROVER_requires(RPW_P_OK(p) && n <= 0xffffffffu)
__CPROVER_assigns(p->session.sequence, RPW_TX_ASSIGNS)
__CPROVER_ensures(RPW_SEQ_ADVANCED(p))
__CPROVER_ensures(RPW_EMITTED(p, RP_FRAME_READ_REQUEST, 0, 0u, __CPROVER_old(p->session.sequence), address, n, 0u)
    && RPW_NO_PAYLOAD())
__CPROVER_ensures(__CPROVER_return_value <= 0)
;

int regp_req_read16(RegP *p, uint32_t address, size_t n)
__CPROVER_requires(RPW_P_OK(p) && n <= 0xffffffffu)
__CPROVER_assigns(p->session.sequence, RPW_TX_ASSIGNS)
__CPROVER_ensures(RPW_SEQ_ADVANCED(p))
__CPROVER_ensures(RPW_EMITTED(p, RP_FRAME_READ_REQUEST, 1, 0u, __CPROVER_old(p->session.sequence), address, n, 0u)
    && RPW_NO_PAYLOAD())
__CPROVER_ensures(__CPROVER_return_value <= 0)
;

/* write requests carry n words of payload exactly as handed over; the payload
 * checksum word is CRC-16/ARC of these octets (ghost trace g_crcT over buf) */
#define RPW_PAYLOAD_IN(buf, octets) \
  ((octets) <= CRC_NMAX && __CPROVER_r_ok((buf), (octets)) \
   && __CPROVER_r_ok(g_crcT, ((octets) + 1u) * sizeof(uint16_t)))
#define RPW_PAYLOAD_SENT(buf, octets) \
  (g_tx_pl == (const void *)(buf) && g_tx_ps == (octets) \
   && IMPLIES(g_k < (octets), g_tx_octet == RPW_U8(buf)[g_k]))

int regp_req_write8(RegP *p, const uint32_t address, const size_t n, const uint8_t *buf)
__CPROVER_requires(RPW_P_OK(p) && buf != NULL && n <= CRC_NMAX && RPW_PAYLOAD_IN(buf, n))
__CPROVER_requires(CRC_TRACE_OK(g_crcT, 0, buf, n))
__CPROVER_assigns(p->session.sequence, RPW_TX_ASSIGNS)
__CPROVER_ensures(RPW_SEQ_ADVANCED(p))
__CPROVER_ensures(RPW_EMITTED(p, RP_FRAME_WRITE_REQUEST, 0, 0u, __CPROVER_old(p->session.sequence), address, n, g_crcT[n])
    && RPW_PAYLOAD_SENT(buf, n))
__CPROVER_ensures(__CPROVER_return_value <= 0)
;

int regp_req_write16(RegP *p, const uint32_t address, const size_t n, const uint16_t *buf)
__CPROVER_requires(RPW_P_OK(p) && buf != NULL && n <= CRC_NMAX / 2u && RPW_PAYLOAD_IN(buf, 2u * n))
__CPROVER_requires(CRC_TRACE_OK(g_crcT, 0, buf, 2u * n))
__CPROVER_assigns(p->session.sequence, RPW_TX_ASSIGNS)
__CPROVER_ensures(RPW_SEQ_ADVANCED(p))
__CPROVER_ensures(RPW_EMITTED(p, RP_FRAME_WRITE_REQUEST, 1, 0u, __CPROVER_old(p->session.sequence), address, n, g_crcT[2u * n])
    && RPW_PAYLOAD_SENT(buf, 2u * n))
__CPROVER_ensures(__CPROVER_return_value <= 0)
;

void regp_reset_session(RegP *p)
__CPROVER_requires(__CPROVER_rw_ok(p, sizeof(RegP)))
__CPROVER_assigns(p->session.sequence)
__CPROVER_ensures(p->session.sequence == 0u)
;

/* ------------------------------------------------------------- responses */
#ifndef REGP_PROC_OWNS_RESPONDERS

#define RPW_REQ_FRAME_OK(f) (__CPROVER_r_ok((f), sizeof(RPFrame)) && RPW_IS_REQ((f)->header.type))

/* response without payload: mirrors sequence and address, block size 0 */
static int
send_resp_0(RegP *p, const RPFrame *frame, const RPResponse code, const unsigned int msem)
__CPROVER_requires(RPW_P_OK(p) && RPW_REQ_FRAME_OK(frame) && RPW_RESP_OK(code) && msem <= MSEM_16BIT)
__CPROVER_assigns(RPW_TX_ASSIGNS)
__CPROVER_ensures(RPW_EMITTED(p, RPW_RESP_TYPE(frame->header.type), RPW_W16(p, msem), (unsigned)code,
                              frame->header.sequence, frame->header.address, 0u, 0u) && RPW_NO_PAYLOAD())
__CPROVER_ensures(__CPROVER_return_value <= 0)
;

/* response with a 32-bit big-endian datum as payload (3.1.5 ...): block size
 * counts these four octets in the announced word size */
#define RPW_BS32(p, msem) (RPW_W16(p, msem) ? 2u : 4u)
#define RPW_PL32_SENT(pl) (g_tx_ps == 4u && g_tx_pl != NULL && IMPLIES(g_k < 4u, g_tx_octet == SPEC_BE32_OCTET(pl, g_k)))
static int
send_resp_32(RegP *p, const RPFrame *frame, RPResponse code, const uint32_t pl, const unsigned int msem)
__CPROVER_requires(RPW_P_OK(p) && RPW_REQ_FRAME_OK(frame) && RPW_RESP_OK(code) && msem <= MSEM_16BIT)
__CPROVER_assigns(RPW_TX_ASSIGNS)
__CPROVER_ensures(RPW_EMITTED(p, RPW_RESP_TYPE(frame->header.type), RPW_W16(p, msem), (unsigned)code,
                              frame->header.sequence, frame->header.address, RPW_BS32(p, msem), spec_crc_be32(pl))
                  && RPW_PL32_SENT(pl))
__CPROVER_ensures(__CPROVER_return_value <= 0)
;

/* ACKNOWLEDGE: n words of the instance's memory word size as payload (none
 * for a write response, 3.1.1) */
#define RPW_ACK_WS(p) ((p)->memory.type == RP_MEMTYPE_16 ? (size_t)2 : (size_t)1)
int regp_resp_ack(RegP *p, const RPFrame *f, const void *pl, const size_t n)
__CPROVER_requires(RPW_P_OK(p) && RPW_REQ_FRAME_OK(f))
__CPROVER_requires(IMPLIES(pl == NULL || f->header.type == RP_FRAME_WRITE_REQUEST, n == 0u))
__CPROVER_requires(n <= CRC_NMAX / 2u)
__CPROVER_requires(IMPLIES(pl != NULL, RPW_PAYLOAD_IN(pl, n * RPW_ACK_WS(p))))
__CPROVER_requires(IMPLIES(pl != NULL, CRC_TRACE_OK(g_crcT, 0, pl, n * RPW_ACK_WS(p))))
__CPROVER_assigns(RPW_TX_ASSIGNS)
__CPROVER_ensures(RPW_EMITTED(p, RPW_RESP_TYPE(f->header.type), p->memory.type == RP_MEMTYPE_16, 0u,
                              f->header.sequence, f->header.address, n,
                              g_crcT[pl != NULL ? n * RPW_ACK_WS(p) : 0u]))
__CPROVER_ensures(g_tx_pl == pl && g_tx_ps == (pl != NULL ? n * RPW_ACK_WS(p) : 0u)
    && IMPLIES(pl != NULL && g_k < n * RPW_ACK_WS(p), g_tx_octet == RPW_U8(pl)[g_k]))
__CPROVER_ensures(__CPROVER_return_value <= 0)
;

/* the eleven error responses: fixed code, octet semantics */
#define RPW_ERESP_0(fn, code) \
  int fn(RegP *p, const RPFrame *f) \
  __CPROVER_requires(RPW_P_OK(p) && RPW_REQ_FRAME_OK(f)) \
  __CPROVER_assigns(RPW_TX_ASSIGNS) \
  __CPROVER_ensures(RPW_EMITTED(p, RPW_RESP_TYPE(f->header.type), 0, (unsigned)(code), \
                                f->header.sequence, f->header.address, 0u, 0u) && RPW_NO_PAYLOAD()) \
  __CPROVER_ensures(__CPROVER_return_value <= 0)
#define RPW_ERESP_32(fn, code, arg) \
  int fn(RegP *p, const RPFrame *f, const uint32_t arg) \
  __CPROVER_requires(RPW_P_OK(p) && RPW_REQ_FRAME_OK(f)) \
  __CPROVER_assigns(RPW_TX_ASSIGNS) \
  __CPROVER_ensures(RPW_EMITTED(p, RPW_RESP_TYPE(f->header.type), 0, (unsigned)(code), \
                                f->header.sequence, f->header.address, 4u, spec_crc_be32(arg)) \
                    && RPW_PL32_SENT(arg)) \
  __CPROVER_ensures(__CPROVER_return_value <= 0)

RPW_ERESP_0(regp_resp_ewordsize, 1u);
RPW_ERESP_0(regp_resp_epayloadcrc, 2u);
RPW_ERESP_0(regp_resp_epayloadsize, 3u);
RPW_ERESP_32(regp_resp_erxoverflow, 4u, size);
RPW_ERESP_32(regp_resp_etxoverflow, 5u, size);
RPW_ERESP_0(regp_resp_ebusy, 6u);
RPW_ERESP_32(regp_resp_eunmapped, 7u, address);
RPW_ERESP_32(regp_resp_eaccess, 8u, address);
RPW_ERESP_32(regp_resp_erange, 9u, address);
RPW_ERESP_32(regp_resp_einvalid, 10u, address);
RPW_ERESP_0(regp_resp_eio, 11u);

/* META message: only the meta field is used (2.1.5) */
int regp_resp_meta(RegP *p, const uint_least8_t meta)
__CPROVER_requires(RPW_P_OK(p) && (meta == RP_META_EHEADERENC || meta == RP_META_EHEADERCRC))
__CPROVER_assigns(RPW_TX_ASSIGNS)
__CPROVER_ensures(RPW_EMITTED(p, RP_FRAME_META, 0, meta, 0u, 0u, 0u, 0u) && RPW_NO_PAYLOAD())
__CPROVER_ensures(__CPROVER_return_value <= 0)
;
#endif /* REGP_PROC_OWNS_RESPONDERS */

#endif
