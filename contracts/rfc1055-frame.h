/* Frame-level contracts of src/rfc1055.c (property C12): rfc1055_encode and
 * rfc1055_decode.  Included by contracts/rfc1055.h.
 *
 * "The encoding of a payload" is the reference encoding of spec/slip.h
 * (RFC 1055), in its streaming form: the sink acceptor and the source
 * generator of stubs/rfc1055_io.h compare / produce it octet by octet.  Both
 * loop proofs are inductive and need no bound on the payload length.
 */
#ifndef CONTRACTS_RFC1055_FRAME_H
#define CONTRACTS_RFC1055_FRAME_H

/* ------------------------------------------------------------------------ */
/* rfc1055_encode: the payload is what the (array-mode) source delivers until
 * it reports -ENODATA: C octets g_sl_src[old(g_sl_src_pos) ..].  With R the
 * number of octets the sink received:
 *   success (0)   the sink received exactly the reference encoding
 *                 [END if start-of-frame] esc(P[0]) .. esc(P[C-1]) END
 *                 (acceptor: closed after C payload octets, nothing wrong),
 *                 R <= 2C+1 (+1); END occurs only as first (start-of-frame)
 *                 and last octet
 *   failure (<0)  the source's value (anything but -ENODATA) or the sink's
 *                 value, unchanged; what the sink received is a prefix of the
 *                 reference encoding (acceptor: nothing wrong, not closed) */
#define SLE_P0 __CPROVER_old(g_sl_src_pos)
#define SLE_Q0 __CPROVER_old(g_sl_snk_pos)
#define SLE_SOFN(ctx) (SL_SOF((ctx)->flags) ? (size_t)1 : (size_t)0)
#define SLE_C ((size_t)(g_sl_src_pos - SLE_P0))
#define SLE_R SL_REL(g_sl_snk_pos, SLE_Q0)
#define SLE_O SL_REL(g_sl_obs, SLE_Q0)

int rfc1055_encode(const RFC1055Context *ctx, Source *source, Sink *sink)
__CPROVER_requires(__CPROVER_r_ok(ctx, sizeof(RFC1055Context)) && SL_SOURCE_OK(source) && SL_SINK_OK(sink))
__CPROVER_requires(!g_gn_on && SL_SRC_WF)
/* acceptor (optional): fresh, expecting the encoding of the rest of the source stream */
__CPROVER_requires(IMPLIES(g_ac_on, g_ac_pay == g_sl_src + g_sl_src_pos && g_ac_n == g_sl_src_len - g_sl_src_pos
    && g_ac_sof == SL_SOF(ctx->flags) && g_ac_i == 0 && g_ac_s == 0 && !g_ac_closed && !g_ac_bad))
__CPROVER_assigns(SL_SRC_ASSIGNS, SL_SNK_ASSIGNS, SL_ACC_ASSIGNS)
__CPROVER_ensures(__CPROVER_return_value <= 0)
__CPROVER_ensures(g_sl_src_pos >= SLE_P0 && g_sl_src_pos <= g_sl_src_len)
/* length: never more than the worst case; a complete frame has at least one
 * octet per payload octet plus the delimiter(s) */
__CPROVER_ensures(SLE_R <= SLIP_WORST(SLE_C, SL_SOF(ctx->flags)))
__CPROVER_ensures(IMPLIES(__CPROVER_return_value == 0, SLE_R >= SLE_C + 1 + SLE_SOFN(ctx)))
/* the delimiter occurs only as delimiter: first octet in start-of-frame
 * mode, last octet of a complete frame, nowhere else */
__CPROVER_ensures(IMPLIES(!(SLE_O < SLE_R), g_sl_snk_val == __CPROVER_old(g_sl_snk_val)))
__CPROVER_ensures(IMPLIES(SL_SOF(ctx->flags) && SLE_O == 0 && SLE_R > 0, g_sl_snk_val == SLIP_END))
__CPROVER_ensures(IMPLIES(__CPROVER_return_value == 0 && SLE_O + 1 == SLE_R, g_sl_snk_val == SLIP_END))
__CPROVER_ensures(IMPLIES(SLE_O < SLE_R && SLE_O >= SLE_SOFN(ctx) && !(__CPROVER_return_value == 0 && SLE_O + 1 == SLE_R),
    g_sl_snk_val != SLIP_END))
/* the reference encoding, octet by octet */
__CPROVER_ensures(IMPLIES(g_ac_on, !g_ac_bad))
__CPROVER_ensures(IMPLIES(g_ac_on && __CPROVER_return_value == 0, g_ac_closed && !g_ac_sof && g_ac_i == SLE_C && g_ac_s == 0))
__CPROVER_ensures(IMPLIES(g_ac_on && __CPROVER_return_value < 0, !g_ac_closed && g_ac_i <= SLE_C))
__CPROVER_ensures(IMPLIES(!g_ac_on, SL_ACC_SAME_O))
/* success: the source reported the end of the payload */
__CPROVER_ensures(IMPLIES(__CPROVER_return_value == 0,
    g_sl_src_err == -ENODATA && g_sl_src_nneg == (size_t)(__CPROVER_old(g_sl_src_nneg) + 1u)))
/* failure: a driver's value, unchanged */
__CPROVER_ensures(IMPLIES(__CPROVER_return_value < 0,
    (__CPROVER_return_value == g_sl_src_err && g_sl_src_nneg == (size_t)(__CPROVER_old(g_sl_src_nneg) + 1u)
         && __CPROVER_return_value != -ENODATA)
    || (__CPROVER_return_value == g_sl_snk_err && g_sl_snk_nneg > __CPROVER_old(g_sl_snk_nneg))))
;

/* ------------------------------------------------------------------------ */
/* rfc1055_decode.
 *
 * For arbitrary input (either source mode, any of the three states, any flags):
 *   - returns 1 (end of frame) or a negative value, never anything else;
 *   - returns 1 exactly after consuming an END, without any driver failure,
 *     in the state in which the next frame is expected;
 *   - a driver failure (source or sink) is returned unchanged, at most one
 *     occurs; any other negative value is the decoder's own -EILSEQ (invalid
 *     escape, or a missing start delimiter in start-of-frame mode);
 *   - never emits more octets than it consumed;
 *   - resynchronisation: whenever the last consumed octet is END the state is
 *     NORMAL (classic) resp. SEARCH_FOR_START or NORMAL (start-of-frame), so
 *     decoding of what follows starts afresh; after an own -EILSEQ whose last
 *     consumed octet is not END the state is SEARCH_FOR_END.  (Exception: a
 *     source *driver* that itself returns -EILSEQ is taken for an invalid
 *     escape by the decoder.)
 *
 * On a generated stream (g_gn_on; stubs/rfc1055_io.h: garbage up to a
 * delimiter when entered in SEARCH_FOR_END, the start delimiter in
 * start-of-frame mode unless entered in NORMAL, then the reference encoding of
 * g_gn_pay[0 .. g_gn_n)), entered with the generator at its beginning:
 *   - without driver failure: returns 1, the sink received exactly the
 *     payload, the stream is consumed through the closing END and no further;
 *   - with a driver failure: what the sink received is a prefix of the payload. */
#define SLD_P0 __CPROVER_old(g_sl_src_pos)
#define SLD_Q0 __CPROVER_old(g_sl_snk_pos)
#define SLD_C ((size_t)(g_sl_src_pos - SLD_P0))
#define SLD_R SL_REL(g_sl_snk_pos, SLD_Q0)
#define SLD_O SL_REL(g_sl_obs, SLD_Q0)
#define SLD_SRC_FAILED (g_sl_src_nneg != __CPROVER_old(g_sl_src_nneg))
#define SLD_SNK_FAILED (g_sl_snk_nneg != __CPROVER_old(g_sl_snk_nneg))
#define SLD_FRAME_AT_ENTRY_O(ctx) (g_gn_on && SL_FRAME_LAYOUT(__CPROVER_old(ctx->state), SL_SOF(ctx->flags)) \
  && __CPROVER_old(g_gn_c) == 0 && __CPROVER_old(g_gn_i) == 0 && __CPROVER_old(g_gn_s) == 0 && !__CPROVER_old(g_gn_done))

int rfc1055_decode(RFC1055Context *ctx, Source *source, Sink *sink)
__CPROVER_requires(__CPROVER_rw_ok(ctx, sizeof(RFC1055Context)) && SL_STATE_OK(ctx->state))
__CPROVER_requires(SL_SOURCE_OK(source) && SL_SINK_OK(sink) && SL_SRC_WF && !g_ac_on)
__CPROVER_requires(SL_SEP(ctx) && !__CPROVER_same_object(ctx, source) && !__CPROVER_same_object(ctx, sink))
__CPROVER_assigns(ctx->state, SL_SRC_ASSIGNS, SL_GEN_ASSIGNS, SL_SNK_ASSIGNS)
/* ---- arbitrary input ---- */
__CPROVER_ensures(SL_STATE_OK(ctx->state) && ctx->flags == __CPROVER_old(ctx->flags))
__CPROVER_ensures(__CPROVER_return_value == 1 || __CPROVER_return_value < 0)
__CPROVER_ensures(g_sl_src_pos >= SLD_P0 && IMPLIES(!g_gn_on, g_sl_src_pos <= g_sl_src_len))
/* never emits more than it consumed */
__CPROVER_ensures(SLD_R <= SLD_C)
__CPROVER_ensures(IMPLIES(!(SLD_O < SLD_R), g_sl_snk_val == __CPROVER_old(g_sl_snk_val)))
/* end of frame */
__CPROVER_ensures(IMPLIES(__CPROVER_return_value == 1,
    SLD_C > 0 && g_sl_src_last == SLIP_END && !SLD_SRC_FAILED && !SLD_SNK_FAILED
    && ctx->state == SL_AFTER_END(SL_SOF(ctx->flags))))
/* driver failures are returned unchanged */
__CPROVER_ensures(IMPLIES(SLD_SRC_FAILED,
    g_sl_src_nneg == (size_t)(__CPROVER_old(g_sl_src_nneg) + 1u) && __CPROVER_return_value == g_sl_src_err && !SLD_SNK_FAILED))
__CPROVER_ensures(IMPLIES(SLD_SNK_FAILED,
    g_sl_snk_nneg == (size_t)(__CPROVER_old(g_sl_snk_nneg) + 1u) && __CPROVER_return_value == g_sl_snk_err && !SLD_SRC_FAILED))
/* the decoder's own error: illegal sequence */
__CPROVER_ensures(IMPLIES(__CPROVER_return_value < 0 && !SLD_SRC_FAILED && !SLD_SNK_FAILED,
    __CPROVER_return_value == -EILSEQ && SLD_C > 0
    && ctx->state == (g_sl_src_last == SLIP_END ? SL_AFTER_END(SL_SOF(ctx->flags)) : RFC1055_SEARCH_FOR_END)))
/* resynchronisation */
__CPROVER_ensures(IMPLIES(SLD_C > 0 && g_sl_src_last == SLIP_END && !(SLD_SRC_FAILED && g_sl_src_err == -EILSEQ),
    ctx->state == RFC1055_NORMAL || (SL_SOF(ctx->flags) && ctx->state == RFC1055_SEARCH_FOR_START)))
__CPROVER_ensures(IMPLIES(SLD_C == 0, g_sl_src_last == __CPROVER_old(g_sl_src_last)))
__CPROVER_ensures(IMPLIES(!g_gn_on, SL_GEN_SAME_O))
/* ---- the encoding of a payload ---- */
__CPROVER_ensures(IMPLIES(SLD_FRAME_AT_ENTRY_O(ctx), SLD_R <= g_gn_n))
__CPROVER_ensures(IMPLIES(SLD_FRAME_AT_ENTRY_O(ctx) && SLD_O < SLD_R, g_sl_snk_val == g_gn_pay[SL_CLI(SLD_O, g_gn_n)]))
__CPROVER_ensures(IMPLIES(SLD_FRAME_AT_ENTRY_O(ctx) && !SLD_SRC_FAILED && !SLD_SNK_FAILED,
    __CPROVER_return_value == 1 && SLD_R == g_gn_n && g_gn_done && g_gn_i == g_gn_n && g_gn_c == SL_GN_PRE))
;

#endif
