/* Frame-level contracts of src/rfc1055.c (property C12): rfc1055_encode and
 * rfc1055_decode.  Included by contracts/rfc1055.h.
 *
 * The encoding of a payload P[0..n) is pinned by a ghost offset map
 * g_sl_off[0..n]:  off[0] = 0,  off[k+1] = off[k] + (special(P[k]) ? 2 : 1)
 * (bounded-forall axiom in `requires`, expanded by the SAT back end over the
 * constant SL_NMAX: tier A-len; the loop proofs themselves are inductive).
 * The encoded stream is then  [END if start-of-frame]  esc(P[0]) at off[0],
 * ..., esc(P[n-1]) at off[n-1],  END at off[n]  (spec/slip.h).
 */
#ifndef CONTRACTS_RFC1055_FRAME_H
#define CONTRACTS_RFC1055_FRAME_H

#define SL_OFFMAP_OK(P, n, off) \
  ((off)[0] == 0 && __CPROVER_forall { size_t k_; (k_ < SL_NMAX) ==> ((k_ < (n)) ==> SLIP_OFF_STEP(P, off, k_)) })

/* ------------------------------------------------------------------------ */
/* rfc1055_encode: the payload is what the source delivers until it reports
 * -ENODATA: c = g_sl_src_pos - old(g_sl_src_pos) octets P[k] =
 * g_sl_src[old(g_sl_src_pos) + k].  With q0 the sink position at entry and
 * sof = 1 in start-of-frame mode, 0 otherwise:
 *   success (0)   the sink received exactly  [END]  esc(P[0]) .. esc(P[c-1])
 *                 END : sof + off[c] + 1 <= 2c + 1 + sof octets; END occurs
 *                 only as the first (sof) and the last octet
 *   failure (<0)  the source's value (anything but -ENODATA) or the sink's
 *                 value, unchanged; what the sink received is a prefix of
 *                 the above */
#define SLE_P0 __CPROVER_old(g_sl_src_pos)
#define SLE_Q0 __CPROVER_old(g_sl_snk_pos)
#define SLE_SOFN(ctx) (SL_SOF((ctx)->flags) ? (size_t)1 : (size_t)0)
#define SLE_C ((size_t)(g_sl_src_pos - SLE_P0))
#define SLE_NNEG0 __CPROVER_old(g_sl_src_nneg)
#define SLE_R SL_REL(g_sl_snk_pos, SLE_Q0)
#define SLE_O SL_REL(g_sl_obs, SLE_Q0)
#define SLE_PAY(k) (g_sl_src[SL_CLI(SLE_P0 + (k), g_sl_src_len)])
#define SLE_OFF(k) (g_sl_off[SL_CLI((k), g_sl_src_len - SLE_P0 + 1)])

int rfc1055_encode(const RFC1055Context *ctx, Source *source, Sink *sink)
__CPROVER_requires(__CPROVER_r_ok(ctx, sizeof(RFC1055Context)) && SL_SOURCE_OK(source) && SL_SINK_OK(sink) && SL_SRC_WF)
__CPROVER_requires(g_sl_src_len - g_sl_src_pos <= SL_NMAX
    && __CPROVER_r_ok(g_sl_off, (g_sl_src_len - g_sl_src_pos + 1) * sizeof(size_t)))
__CPROVER_requires(SL_OFFMAP_OK(g_sl_src + g_sl_src_pos, g_sl_src_len - g_sl_src_pos, g_sl_off))
__CPROVER_assigns(SL_SRC_ASSIGNS, SL_SNK_ASSIGNS)
__CPROVER_ensures(__CPROVER_return_value <= 0)
__CPROVER_ensures(g_sl_src_pos >= SLE_P0 && g_sl_src_pos <= g_sl_src_len)
/* what the sink received is a prefix of the frame, never longer than the
 * worst case */
__CPROVER_ensures(SLE_R <= SLE_SOFN(ctx) + SLE_OFF(SLE_C) + 1 && SLE_R <= SLIP_WORST(SLE_C, SL_SOF(ctx->flags)))
__CPROVER_ensures(IMPLIES(!(SLE_O < SLE_R), g_sl_snk_val == __CPROVER_old(g_sl_snk_val)))
__CPROVER_ensures(IMPLIES(SL_SOF(ctx->flags) && SLE_O == 0 && SLE_R > 0, g_sl_snk_val == SLIP_END))
__CPROVER_ensures(IMPLIES(g_k < SLE_C && SLE_O < SLE_R
    && SLE_SOFN(ctx) + SLE_OFF(g_k) <= SLE_O && SLE_O < SLE_SOFN(ctx) + SLE_OFF(g_k + 1),
    g_sl_snk_val == SLIP_IMG(SLE_PAY(g_k), SLE_O - SLE_SOFN(ctx) - SLE_OFF(g_k))))
/* the delimiter occurs only as delimiter */
__CPROVER_ensures(IMPLIES(SLE_O < SLE_R && SLE_SOFN(ctx) <= SLE_O && SLE_O < SLE_SOFN(ctx) + SLE_OFF(SLE_C),
    g_sl_snk_val != SLIP_END))
/* success: complete frame, the source reported the end of the payload */
__CPROVER_ensures(IMPLIES(__CPROVER_return_value == 0,
    SLE_R == SLE_SOFN(ctx) + SLE_OFF(SLE_C) + 1
    && IMPLIES(SLE_O == SLE_SOFN(ctx) + SLE_OFF(SLE_C), g_sl_snk_val == SLIP_END)
    && g_sl_src_err == -ENODATA && g_sl_src_nneg == (size_t)(SLE_NNEG0 + 1u)))
/* failure: a driver's value, unchanged */
__CPROVER_ensures(IMPLIES(__CPROVER_return_value < 0,
    (__CPROVER_return_value == g_sl_src_err && g_sl_src_nneg == (size_t)(SLE_NNEG0 + 1u)
         && __CPROVER_return_value != -ENODATA && SLE_R == SLE_SOFN(ctx) + SLE_OFF(SLE_C))
    || (__CPROVER_return_value == g_sl_snk_err && g_sl_snk_nneg > __CPROVER_old(g_sl_snk_nneg))))
;

/* ------------------------------------------------------------------------ */
/* rfc1055_decode.
 *
 * For arbitrary input (any source stream, any of the three states, any flags):
 *   - returns 1 (end of frame) or a negative value, never anything else;
 *   - returns 1 exactly after consuming an END, without any driver failure;
 *   - a driver failure (source or sink) is returned unchanged, at most one
 *     occurs; any other negative value is the decoder's own -EILSEQ (invalid
 *     escape, or a missing start delimiter in start-of-frame mode);
 *   - never emits more octets than it consumed;
 *   - resynchronisation: whenever the last consumed octet is END the state is
 *     NORMAL (classic) resp. SEARCH_FOR_START or NORMAL (start-of-frame), so
 *     decoding of what follows starts afresh; after an own -EILSEQ whose last
 *     consumed octet is not END the state is SEARCH_FOR_END.  (Exception: a
 *     source *driver* that itself returns -EILSEQ is taken for an invalid
 *     escape by the decoder.)
 *
 * In frame mode (ghost flag g_sl_fm; see contracts/rfc1055-inv.h for the
 * stream layout: optional garbage up to a delimiter when entered in
 * SEARCH_FOR_END, the start delimiter in start-of-frame mode, then the
 * encoding of g_sl_pay[0..g_sl_n)):
 *   - without driver failure: returns 1, the sink received exactly the
 *     payload, the source is consumed through the closing END, the state is
 *     the one in which the next frame is expected;
 *   - with a driver failure: what the sink received is a prefix of the
 *     payload. */
#define SLD_P0 __CPROVER_old(g_sl_src_pos)
#define SLD_Q0 __CPROVER_old(g_sl_snk_pos)
#define SLD_ST0 __CPROVER_old(ctx->state)
#define SLD_C ((size_t)(g_sl_src_pos - SLD_P0))
#define SLD_R SL_REL(g_sl_snk_pos, SLD_Q0)
#define SLD_O SL_REL(g_sl_obs, SLD_Q0)
#define SLD_SRC_FAILED (g_sl_src_nneg != __CPROVER_old(g_sl_src_nneg))
#define SLD_SNK_FAILED (g_sl_snk_nneg != __CPROVER_old(g_sl_snk_nneg))
#define SLD_LAST (g_sl_src[SL_CLI(g_sl_src_pos - 1, g_sl_src_len)])
/* base of the encoded payload in the source stream (pre-state expression) */
#define SLD_BASE(ctx) (g_sl_src_pos + SL_PRE((ctx)->state, SL_SOF((ctx)->flags)))
#define SLD_BASE_O(ctx) (SLD_P0 + SL_PRE(SLD_ST0, SL_SOF((ctx)->flags)))

int rfc1055_decode(RFC1055Context *ctx, Source *source, Sink *sink)
__CPROVER_requires(__CPROVER_rw_ok(ctx, sizeof(RFC1055Context)) && SL_STATE_OK(ctx->state))
__CPROVER_requires(SL_SOURCE_OK(source) && SL_SINK_OK(sink) && SL_SRC_WF)
__CPROVER_requires(SL_SEP(ctx) && !__CPROVER_same_object(ctx, source) && !__CPROVER_same_object(ctx, sink))
/* frame mode: layout of the stream */
__CPROVER_requires(IMPLIES(g_sl_fm,
    !(ctx->state == RFC1055_SEARCH_FOR_START && !SL_SOF(ctx->flags))
    && g_sl_n <= SL_NMAX && g_sl_g <= SL_NMAX
    && __CPROVER_r_ok(g_sl_off, (g_sl_n + 1) * sizeof(size_t)) && __CPROVER_r_ok(g_sl_pay, g_sl_n)
    && !__CPROVER_same_object(ctx, g_sl_off) && !__CPROVER_same_object(ctx, g_sl_pay)
    && g_sl_off[0] == 0 && g_sl_off[g_sl_n] <= 2 * g_sl_n
    && SLD_BASE(ctx) <= g_sl_src_len && g_sl_off[g_sl_n] < g_sl_src_len - SLD_BASE(ctx)
    && g_sl_src[SLD_BASE(ctx) + g_sl_off[g_sl_n]] == SLIP_END
    && IMPLIES(ctx->state == RFC1055_SEARCH_FOR_END, g_sl_src[g_sl_src_pos + g_sl_g] == SLIP_END)
    && IMPLIES(SL_START(ctx->state, SL_SOF(ctx->flags)) == 1, g_sl_src[SLD_BASE(ctx) - 1] == SLIP_END)))
__CPROVER_requires(IMPLIES(g_sl_fm && ctx->state == RFC1055_SEARCH_FOR_END,
    __CPROVER_forall { size_t j_; (j_ < SL_NMAX) ==> ((j_ < g_sl_g) ==> g_sl_src[g_sl_src_pos + j_] != SLIP_END) }))
__CPROVER_requires(IMPLIES(g_sl_fm,
    __CPROVER_forall { size_t k_; (k_ < SL_NMAX) ==> ((k_ < g_sl_n) ==>
        (g_sl_off[k_ + 1] <= g_sl_off[g_sl_n] && SLIP_ENC_AT(g_sl_src + SLD_BASE(ctx), g_sl_pay, g_sl_off, k_))) }))
__CPROVER_assigns(ctx->state, SL_SRC_ASSIGNS, SL_SNK_ASSIGNS)
/* ---- arbitrary input ---- */
__CPROVER_ensures(SL_STATE_OK(ctx->state) && ctx->flags == __CPROVER_old(ctx->flags))
__CPROVER_ensures(__CPROVER_return_value == 1 || __CPROVER_return_value < 0)
__CPROVER_ensures(g_sl_src_pos >= SLD_P0 && g_sl_src_pos <= g_sl_src_len)
/* never emits more than it consumed */
__CPROVER_ensures(SLD_R <= SLD_C)
__CPROVER_ensures(IMPLIES(!(SLD_O < SLD_R), g_sl_snk_val == __CPROVER_old(g_sl_snk_val)))
/* end of frame */
__CPROVER_ensures(IMPLIES(__CPROVER_return_value == 1,
    SLD_C > 0 && SLD_LAST == SLIP_END && !SLD_SRC_FAILED && !SLD_SNK_FAILED
    && ctx->state == SL_AFTER_END(SL_SOF(ctx->flags))))
/* driver failures are returned unchanged */
__CPROVER_ensures(IMPLIES(SLD_SRC_FAILED,
    g_sl_src_nneg == (size_t)(__CPROVER_old(g_sl_src_nneg) + 1u) && __CPROVER_return_value == g_sl_src_err && !SLD_SNK_FAILED))
__CPROVER_ensures(IMPLIES(SLD_SNK_FAILED,
    g_sl_snk_nneg == (size_t)(__CPROVER_old(g_sl_snk_nneg) + 1u) && __CPROVER_return_value == g_sl_snk_err && !SLD_SRC_FAILED))
/* the decoder's own error: illegal sequence */
__CPROVER_ensures(IMPLIES(__CPROVER_return_value < 0 && !SLD_SRC_FAILED && !SLD_SNK_FAILED,
    __CPROVER_return_value == -EILSEQ && SLD_C > 0
    && ctx->state == (SLD_LAST == SLIP_END ? SL_AFTER_END(SL_SOF(ctx->flags)) : RFC1055_SEARCH_FOR_END)))
/* resynchronisation */
__CPROVER_ensures(IMPLIES(SLD_C > 0 && SLD_LAST == SLIP_END && !(SLD_SRC_FAILED && g_sl_src_err == -EILSEQ),
    ctx->state == RFC1055_NORMAL || (SL_SOF(ctx->flags) && ctx->state == RFC1055_SEARCH_FOR_START)))
/* ---- frame mode ---- */
__CPROVER_ensures(IMPLIES(g_sl_fm, SLD_R <= g_sl_n))
__CPROVER_ensures(IMPLIES(g_sl_fm && SLD_O < SLD_R, g_sl_snk_val == g_sl_pay[SL_CLI(SLD_O, g_sl_n)]))
__CPROVER_ensures(IMPLIES(g_sl_fm && !SLD_SRC_FAILED && !SLD_SNK_FAILED,
    __CPROVER_return_value == 1 && SLD_R == g_sl_n
    && g_sl_src_pos == SLD_BASE_O(ctx) + g_sl_off[g_sl_n] + 1))
;

#endif
