/* Contracts of src/rfc1055.c (property C12, SLIP framing).
 *
 * Postconditions are written from RFC 1055 / the property statement via the
 * reference macros of spec/slip.h, over the abstract streams of
 * stubs/rfc1055_io.h:
 *   source stream  g_sl_src[0 .. g_sl_src_len), next position g_sl_src_pos
 *   sink stream    next position g_sl_snk_pos; "the sink received octet v at
 *                  absolute position p" is stated for the one observed
 *                  position g_sl_obs (arbitrary, hence for every position):
 *                  g_sl_snk_val == v once g_sl_snk_pos has passed g_sl_obs.
 * Sink positions are compared relative to the position at entry (modulo 2^64)
 * so that no precondition on them is needed.
 *
 * "Errors are returned unchanged": a negative return value that is not the
 * decoder's own -EILSEQ equals g_sl_src_err / g_sl_snk_err, the last negative
 * value that driver returned, and that driver's count of negative returns
 * went up.
 */
#ifndef CONTRACTS_RFC1055_H
#define CONTRACTS_RFC1055_H
#include "spec/slip.h"

#ifndef SL_NMAX
#define SL_NMAX 16
#endif

extern const unsigned char *g_sl_src;
extern size_t g_sl_src_len, g_sl_src_pos, g_sl_src_nneg;
extern int g_sl_src_err;
extern size_t g_sl_snk_pos, g_sl_obs, g_sl_snk_nneg, g_sl_snk_budget;
extern unsigned char g_sl_snk_val;
extern int g_sl_snk_err;

#define SL_SOF(flags) (((flags) & RFC1055_WITH_SOF) != 0)
#define SL_STATE_OK(s) ((s) == RFC1055_SEARCH_FOR_START || (s) == RFC1055_SEARCH_FOR_END || (s) == RFC1055_NORMAL)
#define SL_KIND_OK(k) ((k) == DATA_KIND_OCTET || (k) == DATA_KIND_CHUNK)
#define SL_SOURCE_OK(s) (__CPROVER_r_ok((s), sizeof(Source)) && SL_KIND_OK((s)->kind) \
  && IMPLIES((s)->kind == DATA_KIND_OCTET, (s)->source.octet == sl_octet_source) \
  && IMPLIES((s)->kind == DATA_KIND_CHUNK, (s)->source.chunk == sl_chunk_source) \
  && (s)->driver == SL_SRC_DRIVER)
#define SL_SINK_OK(s) (__CPROVER_r_ok((s), sizeof(Sink)) && SL_KIND_OK((s)->kind) \
  && IMPLIES((s)->kind == DATA_KIND_OCTET, (s)->sink.octet == sl_octet_sink) \
  && IMPLIES((s)->kind == DATA_KIND_CHUNK, (s)->sink.chunk == sl_chunk_sink) \
  && (s)->driver == SL_SNK_DRIVER)
/* the source stream is a readable array and the position is inside it */
#define SL_SRC_WF (g_sl_src_pos <= g_sl_src_len && __CPROVER_r_ok(g_sl_src, g_sl_src_len))
/* p is not (part of) the ghost state */
#define SL_SEP(p) (!__CPROVER_same_object((p), &g_sl_src) && !__CPROVER_same_object((p), &g_sl_src_len) \
  && !__CPROVER_same_object((p), &g_sl_src_pos) && !__CPROVER_same_object((p), &g_sl_src_nneg) \
  && !__CPROVER_same_object((p), &g_sl_src_err) && !__CPROVER_same_object((p), &g_sl_snk_pos) \
  && !__CPROVER_same_object((p), &g_sl_obs) && !__CPROVER_same_object((p), &g_sl_snk_nneg) \
  && !__CPROVER_same_object((p), &g_sl_snk_budget) && !__CPROVER_same_object((p), &g_sl_snk_val) \
  && !__CPROVER_same_object((p), &g_sl_snk_err) && !__CPROVER_same_object((p), g_sl_src))

#define SL_SRC_ASSIGNS g_sl_src_pos, g_sl_src_err, g_sl_src_nneg
#define SL_SNK_ASSIGNS g_sl_snk_pos, g_sl_snk_val, g_sl_snk_err, g_sl_snk_nneg, g_sl_snk_budget

/* octet of the source stream at position p (clamped: never reads outside) */
#define SL_CLI(i, n) ((size_t)(i) < (size_t)(n) ? (size_t)(i) : (size_t)0)
#define SL_S(p) (g_sl_src[SL_CLI((p), g_sl_src_len)])
/* sink position relative to q0 */
#define SL_REL(p, q0) ((size_t)((size_t)(p) - (size_t)(q0)))

/* ---- what happened to the sink, relative to the pre-state ---- */
#define SL_SNK_UNTOUCHED_O (g_sl_snk_pos == __CPROVER_old(g_sl_snk_pos) && g_sl_snk_val == __CPROVER_old(g_sl_snk_val) \
  && g_sl_snk_err == __CPROVER_old(g_sl_snk_err) && g_sl_snk_nneg == __CPROVER_old(g_sl_snk_nneg) \
  && g_sl_snk_budget == __CPROVER_old(g_sl_snk_budget))
/* the sink accepted exactly the one octet v as its next octet */
#define SL_SNK_GOT1_O(v) (g_sl_snk_pos == (size_t)(__CPROVER_old(g_sl_snk_pos) + 1u) \
  && g_sl_snk_val == (g_sl_obs == __CPROVER_old(g_sl_snk_pos) ? (unsigned char)(v) : __CPROVER_old(g_sl_snk_val)))
/* a negative return value ret is the sink driver's, returned unchanged */
#define SL_SNK_ERR_O(ret) ((ret) == g_sl_snk_err && g_sl_snk_nneg > __CPROVER_old(g_sl_snk_nneg))
#define SL_SRC_ERR_O(ret) ((ret) == g_sl_src_err && g_sl_src_nneg == (size_t)(__CPROVER_old(g_sl_src_nneg) + 1u))
#define SL_SRC_NOERR_O (g_sl_src_nneg == __CPROVER_old(g_sl_src_nneg) && g_sl_src_err == __CPROVER_old(g_sl_src_err))

/* ------------------------------------------------------------------------ */
/* The two single-octet endpoint functions of src/endpoints/core.c that
 * rfc1055.c calls directly, over the stub drivers of stubs/rfc1055_io.h
 * (enforced here by targets of their own; the frame loops are checked against
 * these contracts).  One driver call: 1 = one octet moved, negative = the
 * driver's value, nothing moved. */
int source_get_octet(Source *source, void *data)
__CPROVER_requires(SL_SOURCE_OK(source) && SL_SRC_WF)
__CPROVER_requires(__CPROVER_w_ok(data, 1) && SL_SEP(data) && !__CPROVER_same_object(data, source))
__CPROVER_assigns(SL_SRC_ASSIGNS, __CPROVER_object_upto(data, 1))
__CPROVER_ensures(__CPROVER_return_value == 1 || __CPROVER_return_value < 0)
__CPROVER_ensures(IMPLIES(__CPROVER_return_value == 1,
    __CPROVER_old(g_sl_src_pos) < g_sl_src_len && g_sl_src_pos == __CPROVER_old(g_sl_src_pos) + 1
    && *(unsigned char *)data == SL_S(__CPROVER_old(g_sl_src_pos)) && SL_SRC_NOERR_O))
__CPROVER_ensures(IMPLIES(__CPROVER_return_value < 0,
    g_sl_src_pos == __CPROVER_old(g_sl_src_pos) && SL_SRC_ERR_O(__CPROVER_return_value)))
/* the end of the stream is reported as a failure (-ENODATA unless the driver
 * fails otherwise) */
__CPROVER_ensures(IMPLIES(__CPROVER_old(g_sl_src_pos) == g_sl_src_len, __CPROVER_return_value < 0))
;

int sink_put_octet(Sink *sink, const unsigned char data)
__CPROVER_requires(SL_SINK_OK(sink))
__CPROVER_assigns(SL_SNK_ASSIGNS)
__CPROVER_ensures(__CPROVER_return_value == 1 || __CPROVER_return_value < 0)
__CPROVER_ensures(IMPLIES(__CPROVER_return_value == 1,
    SL_SNK_GOT1_O(data) && g_sl_snk_nneg == __CPROVER_old(g_sl_snk_nneg) && g_sl_snk_err == __CPROVER_old(g_sl_snk_err)
    && g_sl_snk_budget == __CPROVER_old(g_sl_snk_budget)))
__CPROVER_ensures(IMPLIES(__CPROVER_return_value < 0,
    g_sl_snk_pos == __CPROVER_old(g_sl_snk_pos) && g_sl_snk_val == __CPROVER_old(g_sl_snk_val)
    && __CPROVER_return_value == g_sl_snk_err && g_sl_snk_nneg == (size_t)(__CPROVER_old(g_sl_snk_nneg) + 1u)
    && g_sl_snk_nneg > __CPROVER_old(g_sl_snk_nneg) && g_sl_snk_budget <= __CPROVER_old(g_sl_snk_budget)))
;

/* context set-up: classic mode starts inside a frame (NORMAL), start-of-frame
 * mode waits for the start delimiter */
void rfc1055_context_init(RFC1055Context *ctx, uint32_t flags)
__CPROVER_requires(__CPROVER_rw_ok(ctx, sizeof(RFC1055Context)))
__CPROVER_assigns(ctx->flags, ctx->state)
__CPROVER_ensures(ctx->flags == flags)
__CPROVER_ensures(ctx->state == (SL_SOF(flags) ? RFC1055_SEARCH_FOR_START : RFC1055_NORMAL))
;

/* open: in start-of-frame mode exactly one END, nothing in classic mode */
static inline int rfc1055_open(const RFC1055Context *ctx, Sink *sink)
__CPROVER_requires(__CPROVER_r_ok(ctx, sizeof(RFC1055Context)) && SL_SINK_OK(sink))
__CPROVER_assigns(SL_SNK_ASSIGNS)
__CPROVER_ensures(__CPROVER_return_value <= 0)
__CPROVER_ensures(IMPLIES(!SL_SOF(ctx->flags), __CPROVER_return_value == 0 && SL_SNK_UNTOUCHED_O))
__CPROVER_ensures(IMPLIES(SL_SOF(ctx->flags) && __CPROVER_return_value == 0,
    SL_SNK_GOT1_O(SLIP_END) && g_sl_snk_nneg == __CPROVER_old(g_sl_snk_nneg)))
__CPROVER_ensures(IMPLIES(__CPROVER_return_value < 0,
    SL_SNK_ERR_O(__CPROVER_return_value) && g_sl_snk_pos == __CPROVER_old(g_sl_snk_pos)
    && g_sl_snk_val == __CPROVER_old(g_sl_snk_val)))
;

/* close: exactly one END */
static inline int rfc1055_close(Sink *sink)
__CPROVER_requires(SL_SINK_OK(sink))
__CPROVER_assigns(SL_SNK_ASSIGNS)
__CPROVER_ensures(__CPROVER_return_value <= 0)
__CPROVER_ensures(IMPLIES(__CPROVER_return_value == 0,
    SL_SNK_GOT1_O(SLIP_END) && g_sl_snk_nneg == __CPROVER_old(g_sl_snk_nneg)))
__CPROVER_ensures(IMPLIES(__CPROVER_return_value < 0,
    SL_SNK_ERR_O(__CPROVER_return_value) && g_sl_snk_pos == __CPROVER_old(g_sl_snk_pos)
    && g_sl_snk_val == __CPROVER_old(g_sl_snk_val)))
;

/* encode_octet: the sink receives exactly the image esc(data) -- one octet,
 * or ESC ESC_END / ESC ESC_ESC -- and never an END; on a sink error (returned
 * unchanged) a proper prefix of the image */
static inline int rfc1055_encode_octet(Sink *sink, unsigned char data)
__CPROVER_requires(SL_SINK_OK(sink))
__CPROVER_assigns(SL_SNK_ASSIGNS)
/* what has been accepted is a prefix of the image, in order */
__CPROVER_ensures(SL_REL(g_sl_snk_pos, __CPROVER_old(g_sl_snk_pos)) <= SLIP_ESCLEN(data))
__CPROVER_ensures(IMPLIES(SL_REL(g_sl_obs, __CPROVER_old(g_sl_snk_pos)) < SL_REL(g_sl_snk_pos, __CPROVER_old(g_sl_snk_pos)),
    g_sl_snk_val == SLIP_IMG(data, SL_REL(g_sl_obs, __CPROVER_old(g_sl_snk_pos))) && g_sl_snk_val != SLIP_END))
__CPROVER_ensures(IMPLIES(!(SL_REL(g_sl_obs, __CPROVER_old(g_sl_snk_pos)) < SL_REL(g_sl_snk_pos, __CPROVER_old(g_sl_snk_pos))),
    g_sl_snk_val == __CPROVER_old(g_sl_snk_val)))
/* success: the whole image */
__CPROVER_ensures(IMPLIES(__CPROVER_return_value >= 0,
    SL_REL(g_sl_snk_pos, __CPROVER_old(g_sl_snk_pos)) == SLIP_ESCLEN(data)))
/* failure: the driver's value, a proper prefix */
__CPROVER_ensures(IMPLIES(__CPROVER_return_value < 0,
    SL_SNK_ERR_O(__CPROVER_return_value)
    && SL_REL(g_sl_snk_pos, __CPROVER_old(g_sl_snk_pos)) < SLIP_ESCLEN(data)))
__CPROVER_ensures(g_sl_snk_budget <= __CPROVER_old(g_sl_snk_budget) && g_sl_snk_nneg >= __CPROVER_old(g_sl_snk_nneg))
;

/* decode_octet: with p the source position at entry,
 *   source stream[p] == END                 returns 0 (end of frame), 1 octet consumed
 *   stream[p] plain                          returns 1, *data == stream[p], 1 consumed
 *   stream[p] == ESC, stream[p+1] valid      returns 2, *data == the escaped octet, 2 consumed
 *   stream[p] == ESC, stream[p+1] invalid    returns -EILSEQ, *data == stream[p+1], 2 consumed
 *   the source driver fails                  its value unchanged, *data == 0, the octets
 *                                            delivered before (none, or the ESC) consumed */
static inline int rfc1055_decode_octet(Source *source, unsigned char *data)
__CPROVER_requires(SL_SOURCE_OK(source) && SL_SRC_WF)
__CPROVER_requires(__CPROVER_w_ok(data, 1) && SL_SEP(data) && !__CPROVER_same_object(data, source))
__CPROVER_assigns(SL_SRC_ASSIGNS, *data)
__CPROVER_ensures(g_sl_src_pos >= __CPROVER_old(g_sl_src_pos) && g_sl_src_pos <= g_sl_src_len
    && g_sl_src_pos - __CPROVER_old(g_sl_src_pos) <= 2)
/* no driver failure */
__CPROVER_ensures(IMPLIES(SL_SRC_NOERR_O && SL_S(__CPROVER_old(g_sl_src_pos)) == SLIP_END,
    __CPROVER_return_value == 0 && g_sl_src_pos == __CPROVER_old(g_sl_src_pos) + 1))
__CPROVER_ensures(IMPLIES(SL_SRC_NOERR_O && !SLIP_SPECIAL(SL_S(__CPROVER_old(g_sl_src_pos))),
    __CPROVER_return_value == 1 && g_sl_src_pos == __CPROVER_old(g_sl_src_pos) + 1
    && *data == SL_S(__CPROVER_old(g_sl_src_pos))))
__CPROVER_ensures(IMPLIES(SL_SRC_NOERR_O && SL_S(__CPROVER_old(g_sl_src_pos)) == SLIP_ESC,
    g_sl_src_pos == __CPROVER_old(g_sl_src_pos) + 2))
__CPROVER_ensures(IMPLIES(SL_SRC_NOERR_O && SL_S(__CPROVER_old(g_sl_src_pos)) == SLIP_ESC
    && SLIP_ESC_VALID(SL_S(__CPROVER_old(g_sl_src_pos) + 1)),
    __CPROVER_return_value == 2 && *data == SLIP_UNESC(SL_S(__CPROVER_old(g_sl_src_pos) + 1))))
__CPROVER_ensures(IMPLIES(SL_SRC_NOERR_O && SL_S(__CPROVER_old(g_sl_src_pos)) == SLIP_ESC
    && !SLIP_ESC_VALID(SL_S(__CPROVER_old(g_sl_src_pos) + 1)),
    __CPROVER_return_value == -EILSEQ && *data == SL_S(__CPROVER_old(g_sl_src_pos) + 1)))
/* driver failure: exactly one, returned unchanged */
__CPROVER_ensures(SL_SRC_NOERR_O || SL_SRC_ERR_O(__CPROVER_return_value))
__CPROVER_ensures(IMPLIES(!SL_SRC_NOERR_O,
    __CPROVER_return_value < 0 && *data == 0
    && (g_sl_src_pos == __CPROVER_old(g_sl_src_pos)
        || (g_sl_src_pos == __CPROVER_old(g_sl_src_pos) + 1 && SL_S(__CPROVER_old(g_sl_src_pos)) == SLIP_ESC))))
;

/* transition: consumes one octet and tells whether it is the delimiter */
static inline int transition(Source *source)
__CPROVER_requires(SL_SOURCE_OK(source) && SL_SRC_WF)
__CPROVER_assigns(SL_SRC_ASSIGNS)
__CPROVER_ensures(IMPLIES(SL_SRC_NOERR_O,
    g_sl_src_pos == __CPROVER_old(g_sl_src_pos) + 1 && g_sl_src_pos <= g_sl_src_len
    && __CPROVER_return_value == (SL_S(__CPROVER_old(g_sl_src_pos)) == SLIP_END ? 1 : 0)))
__CPROVER_ensures(SL_SRC_NOERR_O || SL_SRC_ERR_O(__CPROVER_return_value))
__CPROVER_ensures(IMPLIES(!SL_SRC_NOERR_O,
    __CPROVER_return_value < 0 && g_sl_src_pos == __CPROVER_old(g_sl_src_pos)))
;

#include "contracts/rfc1055-frame.h"

#endif
