/* Contracts of src/rfc1055.c (property C12, SLIP framing).
 *
 * Postconditions are written from RFC 1055 / the property statement via the
 * reference macros of spec/slip.h, over the abstract streams of
 * stubs/rfc1055_io.h (read its head comment first):
 *   source   array mode: an arbitrary stream g_sl_src[0 .. g_sl_src_len);
 *            generator mode: the reference encoding of a payload, possibly
 *            behind garbage and delimiters, produced octet by octet;
 *   sink     the octet received at the one observed position g_sl_obs
 *            (arbitrary, hence every position) is g_sl_snk_val; with the
 *            acceptor on, every received octet is compared with the reference
 *            encoding of a payload.
 * Sink positions are compared relative to the position at entry (modulo 2^64)
 * so that no precondition on them is needed.
 *
 * "Errors are returned unchanged": a negative return value that is not the
 * decoder's own -EILSEQ equals g_sl_src_err / g_sl_snk_err, the last negative
 * value that driver returned, and that driver's count of negative returns
 * went up.
 */
#ifndef CONTRACTS_RFC1055_H
#define CONTRACTS_RFC1055_H
#include "spec/slip.h"

#define SL_SOF(flags) (((flags) & RFC1055_WITH_SOF) != 0)
#define SL_STATE_OK(s) ((s) == RFC1055_SEARCH_FOR_START || (s) == RFC1055_SEARCH_FOR_END || (s) == RFC1055_NORMAL)
#define SL_KIND_OK(k) ((k) == DATA_KIND_OCTET || (k) == DATA_KIND_CHUNK)
#define SL_SOURCE_OK(s) (__CPROVER_r_ok((s), sizeof(Source)) && SL_KIND_OK((s)->kind) \
  && IMPLIES((s)->kind == DATA_KIND_OCTET, (s)->source.octet == sl_octet_source) \
  && IMPLIES((s)->kind == DATA_KIND_CHUNK, (s)->source.chunk == sl_chunk_source) \
  && (s)->driver == SL_SRC_DRIVER)
#define SL_SINK_OK(s) (__CPROVER_r_ok((s), sizeof(Sink)) && SL_KIND_OK((s)->kind) \
  && IMPLIES((s)->kind == DATA_KIND_OCTET, (s)->sink.octet == sl_octet_sink) \
  && IMPLIES((s)->kind == DATA_KIND_CHUNK, (s)->sink.chunk == sl_chunk_sink) \
  && (s)->driver == SL_SNK_DRIVER)

/* the generator's cursor is consistent */
#define SL_GN_WF (__CPROVER_r_ok(g_gn_pay, g_gn_n) && g_gn_g < SIZE_MAX - 2 \
  && g_gn_c <= SL_GN_PRE && g_gn_i <= g_gn_n && g_gn_s <= 1 \
  && IMPLIES(g_gn_s == 1, g_gn_i < g_gn_n && SLIP_SPECIAL(g_gn_pay[SL_CLI(g_gn_i, g_gn_n)])) \
  && IMPLIES(g_gn_c < SL_GN_PRE, g_gn_i == 0 && g_gn_s == 0 && !g_gn_done) \
  && IMPLIES(g_gn_done, g_gn_i == g_gn_n && g_gn_s == 0))
/* the source: an array with the position inside it, or a consistent generator */
#define SL_SRC_WF (g_gn_on ? SL_GN_WF : (g_sl_src_pos <= g_sl_src_len && __CPROVER_r_ok(g_sl_src, g_sl_src_len)))
/* the acceptor's cursor is consistent */
#define SL_ACC_WF IMPLIES(g_ac_on, __CPROVER_r_ok(g_ac_pay, g_ac_n) && g_ac_i <= g_ac_n && g_ac_s <= 1 \
  && IMPLIES(g_ac_s == 1, g_ac_i < g_ac_n && SLIP_SPECIAL(g_ac_pay[SL_CLI(g_ac_i, g_ac_n)])))

/* p is not (part of) the ghost state */
#define SL_SEP1(p, g) (!__CPROVER_same_object((p), &(g)))
#define SL_SEP(p) (SL_SEP1(p, g_sl_src) && SL_SEP1(p, g_sl_src_len) && SL_SEP1(p, g_sl_src_pos) && SL_SEP1(p, g_sl_src_nneg) \
  && SL_SEP1(p, g_sl_src_err) && SL_SEP1(p, g_sl_src_last) \
  && SL_SEP1(p, g_gn_on) && SL_SEP1(p, g_gn_skip) && SL_SEP1(p, g_gn_start) && SL_SEP1(p, g_gn_done) && SL_SEP1(p, g_gn_pay) \
  && SL_SEP1(p, g_gn_n) && SL_SEP1(p, g_gn_g) && SL_SEP1(p, g_gn_c) && SL_SEP1(p, g_gn_i) && SL_SEP1(p, g_gn_s) \
  && SL_SEP1(p, g_sl_snk_pos) && SL_SEP1(p, g_sl_obs) && SL_SEP1(p, g_sl_snk_nneg) && SL_SEP1(p, g_sl_snk_budget) \
  && SL_SEP1(p, g_sl_snk_val) && SL_SEP1(p, g_sl_snk_err) \
  && SL_SEP1(p, g_ac_on) && SL_SEP1(p, g_ac_sof) && SL_SEP1(p, g_ac_closed) && SL_SEP1(p, g_ac_bad) && SL_SEP1(p, g_ac_pay) \
  && SL_SEP1(p, g_ac_n) && SL_SEP1(p, g_ac_i) && SL_SEP1(p, g_ac_s) \
  && SL_SEP1(p, g_k) && SL_SEP1(p, g_j) && SL_SEP1(p, g_a) \
  && IMPLIES(!g_gn_on, !__CPROVER_same_object((p), g_sl_src)) && IMPLIES(g_gn_on, !__CPROVER_same_object((p), g_gn_pay)))

#define SL_SRC_ASSIGNS g_sl_src_pos, g_sl_src_err, g_sl_src_nneg, g_sl_src_last
#define SL_GEN_ASSIGNS g_gn_c, g_gn_i, g_gn_s, g_gn_done
#define SL_SNK_ASSIGNS g_sl_snk_pos, g_sl_snk_val, g_sl_snk_err, g_sl_snk_nneg, g_sl_snk_budget
#define SL_ACC_ASSIGNS g_ac_sof, g_ac_closed, g_ac_bad, g_ac_i, g_ac_s

#define SL_CLI(i, n) ((size_t)(i) < (size_t)(n) ? (size_t)(i) : (size_t)0)
/* "octet p of the array-mode source stream exists and is v" (guarded read) */
#define SL_S_IS(p, v) ((size_t)(p) < g_sl_src_len && g_sl_src[(size_t)(p)] == (v))
#define SL_S_PLAIN(p) ((size_t)(p) < g_sl_src_len && !SLIP_SPECIAL(g_sl_src[(size_t)(p)]))
#define SL_S_VALID2(p) ((size_t)(p) < g_sl_src_len && SLIP_ESC_VALID(g_sl_src[(size_t)(p)]))
#define SL_S_INVALID2(p) ((size_t)(p) < g_sl_src_len && !SLIP_ESC_VALID(g_sl_src[(size_t)(p)]))
/* sink position relative to q0 */
#define SL_REL(p, q0) ((size_t)((size_t)(p) - (size_t)(q0)))

/* ---- source, relative to the pre-state ---- */
#define SL_SRC_P0 __CPROVER_old(g_sl_src_pos)
#define SL_SRC_TOOK ((size_t)(g_sl_src_pos - SL_SRC_P0))
#define SL_SRC_ERR_O(ret) ((ret) == g_sl_src_err && g_sl_src_nneg == (size_t)(__CPROVER_old(g_sl_src_nneg) + 1u))
#define SL_SRC_NOERR_O (g_sl_src_nneg == __CPROVER_old(g_sl_src_nneg) && g_sl_src_err == __CPROVER_old(g_sl_src_err))
#define SL_GEN_SAME_O (g_gn_c == __CPROVER_old(g_gn_c) && g_gn_i == __CPROVER_old(g_gn_i) && g_gn_s == __CPROVER_old(g_gn_s) \
  && g_gn_done == __CPROVER_old(g_gn_done))
/* generator at an image boundary of the payload phase (pre-state) */
#define SL_GEN_AT_PAYLOAD_O (g_gn_on && __CPROVER_old(g_gn_c) == SL_GN_PRE && !__CPROVER_old(g_gn_done) && __CPROVER_old(g_gn_s) == 0)
#define SL_GN_PAY(i) (g_gn_pay[SL_CLI((i), g_gn_n)])
/* an upper bound of the octets the generator can still deliver; every
 * delivered octet lowers it by at least one */
#define SL_GEN_LEFT ((SL_GN_PRE - g_gn_c) + 2 * (g_gn_n - g_gn_i) - g_gn_s + (g_gn_done ? (size_t)0 : (size_t)1))
#define SL_GEN_LEFT_O ((SL_GN_PRE - __CPROVER_old(g_gn_c)) + 2 * (g_gn_n - __CPROVER_old(g_gn_i)) - __CPROVER_old(g_gn_s) \
  + (__CPROVER_old(g_gn_done) ? (size_t)0 : (size_t)1))
#define SL_GEN_PROGRESS_O IMPLIES(g_gn_on, SL_GEN_LEFT + SL_SRC_TOOK <= SL_GEN_LEFT_O)

/* ---- sink, relative to the pre-state ---- */
#define SL_SNK_UNTOUCHED_O (g_sl_snk_pos == __CPROVER_old(g_sl_snk_pos) && g_sl_snk_val == __CPROVER_old(g_sl_snk_val) \
  && g_sl_snk_err == __CPROVER_old(g_sl_snk_err) && g_sl_snk_nneg == __CPROVER_old(g_sl_snk_nneg) \
  && g_sl_snk_budget == __CPROVER_old(g_sl_snk_budget))
/* the sink accepted exactly the one octet v as its next octet */
#define SL_SNK_GOT1_O(v) (g_sl_snk_pos == (size_t)(__CPROVER_old(g_sl_snk_pos) + 1u) \
  && g_sl_snk_val == (g_sl_obs == __CPROVER_old(g_sl_snk_pos) ? (unsigned char)(v) : __CPROVER_old(g_sl_snk_val)))
/* a negative return value ret is the sink driver's, returned unchanged */
#define SL_SNK_ERR_O(ret) ((ret) == g_sl_snk_err && g_sl_snk_nneg > __CPROVER_old(g_sl_snk_nneg))
#define SL_SNK_MONO_O (g_sl_snk_nneg >= __CPROVER_old(g_sl_snk_nneg) && g_sl_snk_budget <= __CPROVER_old(g_sl_snk_budget))
#define SL_ACC_SAME_O (g_ac_sof == __CPROVER_old(g_ac_sof) && g_ac_closed == __CPROVER_old(g_ac_closed) \
  && g_ac_bad == __CPROVER_old(g_ac_bad) && g_ac_i == __CPROVER_old(g_ac_i) && g_ac_s == __CPROVER_old(g_ac_s))
/* acceptor (pre-state): on, nothing wrong so far, at an image boundary inside the frame */
#define SL_ACC_AT_BOUNDARY_O (g_ac_on && !__CPROVER_old(g_ac_bad) && !__CPROVER_old(g_ac_closed) && !__CPROVER_old(g_ac_sof) \
  && __CPROVER_old(g_ac_s) == 0)
#define SL_AC_PAY(i) (g_ac_pay[SL_CLI((i), g_ac_n)])

/* ------------------------------------------------------------------------ */
/* The two single-octet endpoint functions of src/endpoints/core.c that
 * rfc1055.c calls directly, over the stub drivers (enforced here by targets
 * of their own; the frame loops are checked against these contracts).  One
 * driver call: 1 = one octet moved, negative = the driver's value, nothing
 * moved.  source_get_octet: array-mode source; sink_put_octet: acceptor off
 * (the modes in which the frame loops call them directly). */
int source_get_octet(Source *source, void *data)
__CPROVER_requires(SL_SOURCE_OK(source) && !g_gn_on && SL_SRC_WF)
__CPROVER_requires(__CPROVER_w_ok(data, 1) && SL_SEP(data) && !__CPROVER_same_object(data, source))
__CPROVER_assigns(SL_SRC_ASSIGNS, __CPROVER_object_upto(data, 1))
__CPROVER_ensures(__CPROVER_return_value == 1 || __CPROVER_return_value < 0)
__CPROVER_ensures(IMPLIES(__CPROVER_return_value == 1,
    g_sl_src_pos == SL_SRC_P0 + 1 && SL_S_IS(SL_SRC_P0, *(unsigned char *)data)
    && g_sl_src_last == *(unsigned char *)data && SL_SRC_NOERR_O))
__CPROVER_ensures(IMPLIES(__CPROVER_return_value < 0,
    g_sl_src_pos == SL_SRC_P0 && g_sl_src_last == __CPROVER_old(g_sl_src_last) && SL_SRC_ERR_O(__CPROVER_return_value)))
/* the end of the stream is reported as a failure (-ENODATA unless the driver
 * fails otherwise) */
__CPROVER_ensures(IMPLIES(SL_SRC_P0 == g_sl_src_len, __CPROVER_return_value < 0))
;

int sink_put_octet(Sink *sink, const unsigned char data)
__CPROVER_requires(SL_SINK_OK(sink) && !g_ac_on)
__CPROVER_assigns(SL_SNK_ASSIGNS)
__CPROVER_ensures(__CPROVER_return_value == 1 || __CPROVER_return_value < 0)
__CPROVER_ensures(IMPLIES(__CPROVER_return_value == 1,
    SL_SNK_GOT1_O(data) && g_sl_snk_nneg == __CPROVER_old(g_sl_snk_nneg) && g_sl_snk_err == __CPROVER_old(g_sl_snk_err)
    && g_sl_snk_budget == __CPROVER_old(g_sl_snk_budget)))
__CPROVER_ensures(IMPLIES(__CPROVER_return_value < 0,
    g_sl_snk_pos == __CPROVER_old(g_sl_snk_pos) && g_sl_snk_val == __CPROVER_old(g_sl_snk_val)
    && __CPROVER_return_value == g_sl_snk_err && g_sl_snk_nneg == (size_t)(__CPROVER_old(g_sl_snk_nneg) + 1u)
    && g_sl_snk_nneg > __CPROVER_old(g_sl_snk_nneg) && g_sl_snk_budget <= __CPROVER_old(g_sl_snk_budget)))
;

/* ------------------------------------------------------------------------ */

/* context set-up: classic mode starts inside a frame (NORMAL), start-of-frame
 * mode waits for the start delimiter */
void rfc1055_context_init(RFC1055Context *ctx, uint32_t flags)
__CPROVER_requires(__CPROVER_rw_ok(ctx, sizeof(RFC1055Context)))
__CPROVER_assigns(ctx->flags, ctx->state)
__CPROVER_ensures(ctx->flags == flags)
__CPROVER_ensures(ctx->state == (SL_SOF(flags) ? RFC1055_SEARCH_FOR_START : RFC1055_NORMAL))
;

/* open: in start-of-frame mode exactly one END, nothing in classic mode */
static inline int rfc1055_open(const RFC1055Context *ctx, Sink *sink)
__CPROVER_requires(__CPROVER_r_ok(ctx, sizeof(RFC1055Context)) && SL_SINK_OK(sink) && SL_ACC_WF)
__CPROVER_assigns(SL_SNK_ASSIGNS, SL_ACC_ASSIGNS)
/* (success is any non-negative value: the only caller tests for < 0) */
__CPROVER_ensures(SL_SNK_MONO_O)
__CPROVER_ensures(IMPLIES(!SL_SOF(ctx->flags), __CPROVER_return_value >= 0 && SL_SNK_UNTOUCHED_O && SL_ACC_SAME_O))
__CPROVER_ensures(IMPLIES(SL_SOF(ctx->flags) && __CPROVER_return_value >= 0,
    SL_SNK_GOT1_O(SLIP_END) && g_sl_snk_nneg == __CPROVER_old(g_sl_snk_nneg)))
__CPROVER_ensures(IMPLIES(__CPROVER_return_value < 0,
    SL_SNK_ERR_O(__CPROVER_return_value) && g_sl_snk_pos == __CPROVER_old(g_sl_snk_pos)
    && g_sl_snk_val == __CPROVER_old(g_sl_snk_val) && SL_ACC_SAME_O))
/* acceptor: the start delimiter it waits for */
__CPROVER_ensures(IMPLIES(g_ac_on && SL_SOF(ctx->flags) && __CPROVER_return_value >= 0
    && __CPROVER_old(g_ac_sof) && !__CPROVER_old(g_ac_bad) && !__CPROVER_old(g_ac_closed),
    !g_ac_sof && !g_ac_bad && !g_ac_closed && g_ac_i == __CPROVER_old(g_ac_i) && g_ac_s == __CPROVER_old(g_ac_s)))
__CPROVER_ensures(IMPLIES(!g_ac_on, SL_ACC_SAME_O))
;

/* close: exactly one END */
static inline int rfc1055_close(Sink *sink)
__CPROVER_requires(SL_SINK_OK(sink) && SL_ACC_WF)
__CPROVER_assigns(SL_SNK_ASSIGNS, SL_ACC_ASSIGNS)
__CPROVER_ensures(__CPROVER_return_value <= 0 && SL_SNK_MONO_O)
__CPROVER_ensures(IMPLIES(__CPROVER_return_value == 0,
    SL_SNK_GOT1_O(SLIP_END) && g_sl_snk_nneg == __CPROVER_old(g_sl_snk_nneg)))
__CPROVER_ensures(IMPLIES(__CPROVER_return_value < 0,
    SL_SNK_ERR_O(__CPROVER_return_value) && g_sl_snk_pos == __CPROVER_old(g_sl_snk_pos)
    && g_sl_snk_val == __CPROVER_old(g_sl_snk_val) && SL_ACC_SAME_O))
/* acceptor: the closing delimiter at an image boundary */
__CPROVER_ensures(IMPLIES(SL_ACC_AT_BOUNDARY_O && __CPROVER_return_value == 0,
    g_ac_closed && !g_ac_bad && !g_ac_sof && g_ac_i == __CPROVER_old(g_ac_i) && g_ac_s == 0))
__CPROVER_ensures(IMPLIES(!g_ac_on, SL_ACC_SAME_O))
;

/* encode_octet: the sink receives exactly the image esc(data) -- one octet,
 * or ESC ESC_END / ESC ESC_ESC -- and never an END; on a sink error (returned
 * unchanged) a proper prefix of the image */
static inline int rfc1055_encode_octet(Sink *sink, unsigned char data)
__CPROVER_requires(SL_SINK_OK(sink) && SL_ACC_WF)
__CPROVER_assigns(SL_SNK_ASSIGNS, SL_ACC_ASSIGNS)
/* what has been accepted is a prefix of the image, in order */
__CPROVER_ensures(SL_REL(g_sl_snk_pos, __CPROVER_old(g_sl_snk_pos)) <= SLIP_ESCLEN(data))
__CPROVER_ensures(IMPLIES(SL_REL(g_sl_obs, __CPROVER_old(g_sl_snk_pos)) < SL_REL(g_sl_snk_pos, __CPROVER_old(g_sl_snk_pos)),
    g_sl_snk_val == SLIP_IMG(data, SL_REL(g_sl_obs, __CPROVER_old(g_sl_snk_pos))) && g_sl_snk_val != SLIP_END))
__CPROVER_ensures(IMPLIES(!(SL_REL(g_sl_obs, __CPROVER_old(g_sl_snk_pos)) < SL_REL(g_sl_snk_pos, __CPROVER_old(g_sl_snk_pos))),
    g_sl_snk_val == __CPROVER_old(g_sl_snk_val)))
/* success: the whole image */
__CPROVER_ensures(IMPLIES(__CPROVER_return_value >= 0,
    SL_REL(g_sl_snk_pos, __CPROVER_old(g_sl_snk_pos)) == SLIP_ESCLEN(data)))
/* failure: the driver's value, a proper prefix */
__CPROVER_ensures(IMPLIES(__CPROVER_return_value < 0,
    SL_SNK_ERR_O(__CPROVER_return_value)
    && SL_REL(g_sl_snk_pos, __CPROVER_old(g_sl_snk_pos)) < SLIP_ESCLEN(data)))
__CPROVER_ensures(SL_SNK_MONO_O)
/* acceptor: the image of the payload octet it expects next */
__CPROVER_ensures(IMPLIES(SL_ACC_AT_BOUNDARY_O && __CPROVER_old(g_ac_i) < g_ac_n && data == SL_AC_PAY(__CPROVER_old(g_ac_i)),
    !g_ac_bad && !g_ac_closed && !g_ac_sof
    && IMPLIES(__CPROVER_return_value >= 0, g_ac_i == __CPROVER_old(g_ac_i) + 1 && g_ac_s == 0)
    && IMPLIES(__CPROVER_return_value < 0, g_ac_i == __CPROVER_old(g_ac_i) && g_ac_s <= 1)))
__CPROVER_ensures(IMPLIES(!g_ac_on, SL_ACC_SAME_O))
;

/* decode_octet.  Whatever the source delivers (k = number of octets taken):
 *   END                        returns 0 (end of frame), k = 1
 *   a plain octet              returns > 0, *data == that octet, k = 1
 *   ESC, then ESC_END/ESC_ESC  returns > 0, *data == END / ESC, k = 2
 *   ESC, then anything else    returns -EILSEQ, *data == the offending octet, k = 2
 *   the source driver fails    its value unchanged, *data == 0, k = 0, or k = 1 after an ESC */
static inline int rfc1055_decode_octet(Source *source, unsigned char *data)
__CPROVER_requires(SL_SOURCE_OK(source) && SL_SRC_WF)
__CPROVER_requires(__CPROVER_w_ok(data, 1) && SL_SEP(data) && !__CPROVER_same_object(data, source))
__CPROVER_assigns(SL_SRC_ASSIGNS, SL_GEN_ASSIGNS, *data)
__CPROVER_ensures(g_sl_src_pos >= SL_SRC_P0 && SL_SRC_TOOK <= 2 && SL_SRC_WF && SL_GEN_PROGRESS_O)
__CPROVER_ensures(SL_SRC_NOERR_O || SL_SRC_ERR_O(__CPROVER_return_value))
/* in terms of the octets delivered (either source mode) */
__CPROVER_ensures(IMPLIES(SL_SRC_NOERR_O && __CPROVER_return_value == 0, SL_SRC_TOOK == 1 && g_sl_src_last == SLIP_END))
__CPROVER_ensures(IMPLIES(SL_SRC_NOERR_O && __CPROVER_return_value > 0,
    SL_SRC_TOOK >= 1 && g_sl_src_last != SLIP_END))
__CPROVER_ensures(IMPLIES(SL_SRC_NOERR_O && __CPROVER_return_value < 0,
    __CPROVER_return_value == -EILSEQ && SL_SRC_TOOK == 2 && *data == g_sl_src_last && !SLIP_ESC_VALID(g_sl_src_last)))
__CPROVER_ensures(IMPLIES(!SL_SRC_NOERR_O,
    __CPROVER_return_value < 0 && *data == 0 && SL_SRC_TOOK <= 1 && IMPLIES(SL_SRC_TOOK == 1, g_sl_src_last == SLIP_ESC)))
__CPROVER_ensures(IMPLIES(SL_SRC_TOOK == 0, g_sl_src_last == __CPROVER_old(g_sl_src_last)))
/* array mode: in terms of the stream content, p the position at entry */
__CPROVER_ensures(IMPLIES(!g_gn_on, g_sl_src_pos <= g_sl_src_len))
__CPROVER_ensures(IMPLIES(!g_gn_on && SL_SRC_NOERR_O && SL_S_IS(SL_SRC_P0, SLIP_END), __CPROVER_return_value == 0))
__CPROVER_ensures(IMPLIES(!g_gn_on && SL_SRC_NOERR_O && SL_S_PLAIN(SL_SRC_P0),
    __CPROVER_return_value > 0 && SL_SRC_TOOK == 1 && SL_S_IS(SL_SRC_P0, *data)))
__CPROVER_ensures(IMPLIES(!g_gn_on && SL_SRC_NOERR_O && SL_S_IS(SL_SRC_P0, SLIP_ESC) && SL_S_VALID2(SL_SRC_P0 + 1),
    __CPROVER_return_value > 0 && *data == SLIP_UNESC(g_sl_src[SL_CLI(SL_SRC_P0 + 1, g_sl_src_len)])))
__CPROVER_ensures(IMPLIES(!g_gn_on && SL_SRC_NOERR_O && SL_S_IS(SL_SRC_P0, SLIP_ESC) && SL_S_INVALID2(SL_SRC_P0 + 1),
    __CPROVER_return_value == -EILSEQ && SL_S_IS(SL_SRC_P0 + 1, *data)))
__CPROVER_ensures(IMPLIES(!g_gn_on && SL_SRC_NOERR_O, SL_SRC_P0 < g_sl_src_len
    && IMPLIES(SL_S_IS(SL_SRC_P0, SLIP_ESC), SL_SRC_P0 + 1 < g_sl_src_len && SL_SRC_TOOK == 2)))
__CPROVER_ensures(IMPLIES(!g_gn_on && SL_SRC_TOOK == 1 && !SL_SRC_NOERR_O, SL_S_IS(SL_SRC_P0, SLIP_ESC)))
__CPROVER_ensures(IMPLIES(!g_gn_on, SL_GEN_SAME_O))
/* generator mode, at the image of payload octet i: decode_octet o esc = id */
__CPROVER_ensures(IMPLIES(SL_GEN_AT_PAYLOAD_O && SL_SRC_NOERR_O && __CPROVER_old(g_gn_i) < g_gn_n,
    __CPROVER_return_value > 0 && SL_SRC_TOOK == SLIP_ESCLEN(SL_GN_PAY(__CPROVER_old(g_gn_i))) && *data == SL_GN_PAY(__CPROVER_old(g_gn_i))
    && g_gn_i == __CPROVER_old(g_gn_i) + 1 && g_gn_s == 0 && !g_gn_done && g_gn_c == __CPROVER_old(g_gn_c)))
__CPROVER_ensures(IMPLIES(SL_GEN_AT_PAYLOAD_O && SL_SRC_NOERR_O && __CPROVER_old(g_gn_i) == g_gn_n,
    __CPROVER_return_value == 0 && g_gn_done && g_gn_i == g_gn_n && g_gn_s == 0 && g_gn_c == __CPROVER_old(g_gn_c)))
__CPROVER_ensures(IMPLIES(SL_GEN_AT_PAYLOAD_O && !SL_SRC_NOERR_O,
    g_gn_i == __CPROVER_old(g_gn_i) && g_gn_s <= 1 && !g_gn_done && g_gn_c == __CPROVER_old(g_gn_c)))
;

/* transition: consumes one octet and tells whether it is the delimiter */
static inline int transition(Source *source)
__CPROVER_requires(SL_SOURCE_OK(source) && SL_SRC_WF)
__CPROVER_assigns(SL_SRC_ASSIGNS, SL_GEN_ASSIGNS)
__CPROVER_ensures(SL_SRC_NOERR_O || SL_SRC_ERR_O(__CPROVER_return_value))
__CPROVER_ensures(SL_SRC_WF && g_sl_src_pos >= SL_SRC_P0 && SL_GEN_PROGRESS_O)
__CPROVER_ensures(IMPLIES(SL_SRC_NOERR_O,
    g_sl_src_pos == SL_SRC_P0 + 1 && __CPROVER_return_value == (g_sl_src_last == SLIP_END ? 1 : 0)))
__CPROVER_ensures(IMPLIES(!SL_SRC_NOERR_O,
    __CPROVER_return_value < 0 && g_sl_src_pos == SL_SRC_P0 && g_sl_src_last == __CPROVER_old(g_sl_src_last) && SL_GEN_SAME_O))
/* array mode */
__CPROVER_ensures(IMPLIES(!g_gn_on && SL_SRC_NOERR_O, SL_S_IS(SL_SRC_P0, g_sl_src_last)))
__CPROVER_ensures(IMPLIES(!g_gn_on, g_sl_src_pos <= g_sl_src_len && SL_GEN_SAME_O))
/* generator mode, in front of the payload: garbage is not a delimiter, then
 * come the delimiter that ends it and the start delimiter */
__CPROVER_ensures(IMPLIES(g_gn_on && SL_SRC_NOERR_O && __CPROVER_old(g_gn_c) < SL_GN_PRE,
    g_gn_c == __CPROVER_old(g_gn_c) + 1 && g_gn_i == 0 && g_gn_s == 0 && !g_gn_done
    && __CPROVER_return_value == ((g_gn_skip && __CPROVER_old(g_gn_c) < g_gn_g) ? 0 : 1)))
;

#include "contracts/rfc1055-frame.h"

#endif
