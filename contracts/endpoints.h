/* Contracts of src/endpoints/core.c (property C17).
 *
 * The postconditions are taken from the property statement: reading / writing
 * N octets through a Source / Sink moves exactly the next N octets of the
 * stream in order whatever the driver does (short counts, 0, -EINTR, -EAGAIN),
 * a hard driver error is returned unchanged with a prefix moved, N == 0 or
 * N > SSIZE_MAX is refused with -EINVAL and nothing moved; the at-most
 * variants never move more than asked and return the count moved; the
 * source-to-sink plumbing moves exactly the requested count (or runs until an
 * endpoint fails) and what reached the sink is a prefix of the stream.
 *
 * The stream is the abstract one of stubs/endpoint_drivers.h: "the driver
 * delivered / accepted the octets [p0, p0+m)" is  g_src_pos / g_snk_pos
 * advanced by m; "in order, no loss, no duplication" is the statement that the
 * octet of absolute stream position g_a (arbitrary) sits at buf[g_a - p0], and
 * that the sink driver received at absolute position g_b (arbitrary) the octet
 * buf[g_b - p0].  Positions never wrap (assumption of the stubs: a stream is
 * shorter than 2^64 octets), which the contracts pass on as "the position has
 * not decreased"; no precondition on positions is needed.
 *
 * Preconditions are only what a caller can establish: a Source / Sink set up
 * with the stub drivers and their cookie (chunk_source_init(&s,
 * ep_chunk_source, EP_SRC_DRIVER) ...), accessible buffers that are distinct
 * from the ghost state.
 */
#ifndef CONTRACTS_ENDPOINTS_H
#define CONTRACTS_ENDPOINTS_H

extern size_t g_src_pos, g_snk_pos, g_b, g_src_nhard, g_snk_nhard;
extern unsigned char g_val, g_snk_val;
extern int g_src_err, g_snk_err;

#define EP_CL(i, n) ((size_t)(i) < (size_t)(n) ? (size_t)(i) : (size_t)0)
#define EP_NVALID(n) ((n) >= 1u && (n) <= (size_t)SSIZE_MAX)
/* p is not (part of) the ghost state */
#define EP_SEP(p) (!__CPROVER_same_object((p), &g_src_pos) && !__CPROVER_same_object((p), &g_snk_pos) \
  && !__CPROVER_same_object((p), &g_a) && !__CPROVER_same_object((p), &g_b) \
  && !__CPROVER_same_object((p), &g_src_nhard) && !__CPROVER_same_object((p), &g_snk_nhard) \
  && !__CPROVER_same_object((p), &g_val) && !__CPROVER_same_object((p), &g_snk_val) \
  && !__CPROVER_same_object((p), &g_src_err) && !__CPROVER_same_object((p), &g_snk_err))

#define EP_KIND_OK(k) ((k) == DATA_KIND_OCTET || (k) == DATA_KIND_CHUNK)
#define EP_SOURCE_OK(s) (__CPROVER_r_ok((s), sizeof(Source)) && EP_KIND_OK((s)->kind) \
  && IMPLIES((s)->kind == DATA_KIND_OCTET, (s)->source.octet == ep_octet_source) \
  && IMPLIES((s)->kind == DATA_KIND_CHUNK, (s)->source.chunk == ep_chunk_source) \
  && (s)->driver == EP_SRC_DRIVER)
#define EP_SINK_OK(s) (__CPROVER_r_ok((s), sizeof(Sink)) && EP_KIND_OK((s)->kind) \
  && IMPLIES((s)->kind == DATA_KIND_OCTET, (s)->sink.octet == ep_octet_sink) \
  && IMPLIES((s)->kind == DATA_KIND_CHUNK, (s)->sink.chunk == ep_chunk_sink) \
  && (s)->driver == EP_SNK_DRIVER)

/* ---- what a call did to the source side, in terms of the pre-state -------
 * p0: g_src_pos before, h0: g_src_nhard before, buf/cap: destination */
/* the octets [p0, p0+m) were delivered in order into buf[0..m) */
#define EP_SRC_MOVED(buf, p0, m) \
  (g_src_pos == (size_t)((p0) + (size_t)(m)) && g_src_pos >= (p0) \
   && IMPLIES(EP_IN(g_a, (p0), (m)), ((const unsigned char *)(buf))[g_a - (p0)] == g_val))
/* the octets [p0, p0+m) of buf were accepted in order by the sink driver;
 * v0: g_snk_val before */
#define EP_SNK_MOVED(buf, p0, m, v0) \
  (g_snk_pos == (size_t)((p0) + (size_t)(m)) && g_snk_pos >= (p0) \
   && IMPLIES(EP_IN(g_b, (p0), (m)), g_snk_val == ((const unsigned char *)(buf))[g_b - (p0)]) \
   && IMPLIES(!EP_IN(g_b, (p0), (m)), g_snk_val == (v0)))
/* number of octets the sink driver accepted / the source driver delivered
 * during the call of the function under contract */
#define EP_DELIVERED ((size_t)(g_snk_pos - __CPROVER_old(g_snk_pos)))
#define EP_TAKEN ((size_t)(g_src_pos - __CPROVER_old(g_src_pos)))
#define EP_HARD(rc) ((rc) < 0 && !EP_TRANSIENT(rc))

/* ------------------------------------------------------------------------ */
/* constructors                                                              */

void octet_source_init(Source *instance, ByteSource source, void *driver)
__CPROVER_requires(__CPROVER_rw_ok(instance, sizeof(Source)))
__CPROVER_assigns(instance->kind, instance->source, instance->driver, instance->ext.getbuffer)
__CPROVER_ensures(instance->kind == DATA_KIND_OCTET && instance->source.octet == source
    && instance->driver == driver && instance->ext.getbuffer == NULL)
;

void chunk_source_init(Source *instance, ChunkSource source, void *driver)
__CPROVER_requires(__CPROVER_rw_ok(instance, sizeof(Source)))
__CPROVER_assigns(instance->kind, instance->source, instance->driver, instance->ext.getbuffer)
__CPROVER_ensures(instance->kind == DATA_KIND_CHUNK && instance->source.chunk == source
    && instance->driver == driver && instance->ext.getbuffer == NULL)
;

void octet_sink_init(Sink *instance, ByteSink sink, void *driver)
__CPROVER_requires(__CPROVER_rw_ok(instance, sizeof(Sink)))
__CPROVER_assigns(instance->kind, instance->sink, instance->driver, instance->ext.getbuffer)
__CPROVER_ensures(instance->kind == DATA_KIND_OCTET && instance->sink.octet == sink
    && instance->driver == driver && instance->ext.getbuffer == NULL)
;

void chunk_sink_init(Sink *instance, ChunkSink sink, void *driver)
__CPROVER_requires(__CPROVER_rw_ok(instance, sizeof(Sink)))
__CPROVER_assigns(instance->kind, instance->sink, instance->driver, instance->ext.getbuffer)
__CPROVER_ensures(instance->kind == DATA_KIND_CHUNK && instance->sink.chunk == sink
    && instance->driver == driver && instance->ext.getbuffer == NULL)
;

/* ------------------------------------------------------------------------ */
/* source side                                                               */

/* one driver call: 1 = the next octet of the stream is in *data, 0 = nothing
 * happened, negative = the driver's return value, nothing moved */
int source_get_octet(Source *source, void *data)
__CPROVER_requires(EP_SOURCE_OK(source))
__CPROVER_requires(__CPROVER_w_ok(data, 1) && EP_SEP(data) && !__CPROVER_same_object(data, source))
__CPROVER_assigns(g_src_pos, g_src_err, g_src_nhard, __CPROVER_object_upto(data, 1))
__CPROVER_ensures(__CPROVER_return_value <= 1)
__CPROVER_ensures(IMPLIES(__CPROVER_return_value == 1,
    EP_SRC_MOVED(data, __CPROVER_old(g_src_pos), 1) && g_src_nhard == __CPROVER_old(g_src_nhard)
    && g_src_err == __CPROVER_old(g_src_err)))
__CPROVER_ensures(IMPLIES(__CPROVER_return_value == 0,
    g_src_pos == __CPROVER_old(g_src_pos) && g_src_nhard == __CPROVER_old(g_src_nhard)
    && g_src_err == __CPROVER_old(g_src_err)))
__CPROVER_ensures(IMPLIES(__CPROVER_return_value < 0,
    g_src_pos == __CPROVER_old(g_src_pos) && __CPROVER_return_value == g_src_err
    && g_src_nhard == (size_t)(__CPROVER_old(g_src_nhard) + (EP_TRANSIENT(__CPROVER_return_value) ? 0u : 1u))))
;

/* common postcondition of the three "up to n octets" functions of the source
 * side (source_adapt, once_source_get_chunk, source_get_chunk_atmost):
 * never more than asked, the return value is the count moved; on a negative
 * return the destination holds a prefix (m < n octets, m == 0 for a chunk
 * driver) and the value is the driver's */
#define EP_SRC_ATMOST_POST(buf, n, ret, p0, h0, chunk) \
  ((ret) <= (ssize_t)(n) \
   && IMPLIES((ret) >= 0, EP_SRC_MOVED((buf), (p0), (size_t)(ret)) && g_src_nhard == (h0)) \
   && IMPLIES((ret) < 0, (ret) == g_src_err \
        && ((size_t)(g_src_pos - (p0)) < (n) || g_src_pos == (p0)) \
        && EP_SRC_MOVED((buf), (p0), (size_t)(g_src_pos - (p0))) \
        && g_src_nhard == (size_t)((h0) + (EP_TRANSIENT(ret) ? 0u : 1u)) \
        && IMPLIES((chunk), g_src_pos == (p0)) \
        && IMPLIES(!(chunk), !EP_TRANSIENT(ret))))

static inline ssize_t source_adapt(ByteSource source, void *driver, void *buf, const size_t n)
__CPROVER_requires(source == ep_octet_source && driver == EP_SRC_DRIVER)
__CPROVER_requires(n <= (size_t)SSIZE_MAX && IMPLIES(n > 0, __CPROVER_w_ok(buf, n) && EP_SEP(buf)))
__CPROVER_assigns(g_src_pos, g_src_err, g_src_nhard; n > 0: __CPROVER_object_upto(buf, n))
__CPROVER_ensures(EP_SRC_ATMOST_POST(buf, n, __CPROVER_return_value,
    __CPROVER_old(g_src_pos), __CPROVER_old(g_src_nhard), 0))
__CPROVER_ensures(IMPLIES(__CPROVER_return_value >= 0, (size_t)__CPROVER_return_value == n))
;

static inline ssize_t once_source_get_chunk(Source *source, void *buf, size_t n)
__CPROVER_requires(EP_SOURCE_OK(source))
__CPROVER_requires(n <= (size_t)SSIZE_MAX
    && IMPLIES(n > 0, __CPROVER_w_ok(buf, n) && EP_SEP(buf) && !__CPROVER_same_object(buf, source)))
__CPROVER_assigns(g_src_pos, g_src_err, g_src_nhard; n > 0: __CPROVER_object_upto(buf, n))
__CPROVER_ensures(EP_SRC_ATMOST_POST(buf, n, __CPROVER_return_value,
    __CPROVER_old(g_src_pos), __CPROVER_old(g_src_nhard), source->kind == DATA_KIND_CHUNK))
;

ssize_t source_get_chunk_atmost(Source *source, void *buf, const size_t n)
__CPROVER_requires(EP_SOURCE_OK(source))
__CPROVER_requires(n <= (size_t)SSIZE_MAX
    && IMPLIES(n > 0, __CPROVER_w_ok(buf, n) && EP_SEP(buf) && !__CPROVER_same_object(buf, source)))
__CPROVER_assigns(g_src_pos, g_src_err, g_src_nhard; n > 0: __CPROVER_object_upto(buf, n))
__CPROVER_ensures(EP_SRC_ATMOST_POST(buf, n, __CPROVER_return_value,
    __CPROVER_old(g_src_pos), __CPROVER_old(g_src_nhard), source->kind == DATA_KIND_CHUNK))
;

/* exactly n octets, or a hard error with a prefix, or -EINVAL with nothing */
ssize_t source_get_chunk(Source *source, void *buf, size_t n)
__CPROVER_requires(EP_SOURCE_OK(source))
__CPROVER_requires(IMPLIES(EP_NVALID(n),
    __CPROVER_w_ok(buf, n) && EP_SEP(buf) && !__CPROVER_same_object(buf, source)))
__CPROVER_assigns(g_src_pos, g_src_err, g_src_nhard; EP_NVALID(n): __CPROVER_object_upto(buf, n))
__CPROVER_ensures(IMPLIES(!EP_NVALID(n),
    __CPROVER_return_value == -EINVAL && g_src_pos == __CPROVER_old(g_src_pos)
    && g_src_nhard == __CPROVER_old(g_src_nhard) && g_src_err == __CPROVER_old(g_src_err)))
__CPROVER_ensures(IMPLIES(EP_NVALID(n),
    __CPROVER_return_value < 0 || (size_t)__CPROVER_return_value == n))
__CPROVER_ensures(IMPLIES(EP_NVALID(n) && __CPROVER_return_value >= 0,
    EP_SRC_MOVED(buf, __CPROVER_old(g_src_pos), n) && g_src_nhard == __CPROVER_old(g_src_nhard)))
__CPROVER_ensures(IMPLIES(EP_NVALID(n) && __CPROVER_return_value < 0,
    __CPROVER_return_value == g_src_err && !EP_TRANSIENT(__CPROVER_return_value)
    && g_src_nhard == (size_t)(__CPROVER_old(g_src_nhard) + 1u)
    && EP_TAKEN < n
    && EP_SRC_MOVED(buf, __CPROVER_old(g_src_pos), EP_TAKEN)))
;

/* ------------------------------------------------------------------------ */
/* sink side                                                                 */

/* one driver call: 1 = the sink driver accepted the octet as the next one of
 * its stream, 0 = nothing happened, negative = the driver's return value */
int sink_put_octet(Sink *sink, const unsigned char data)
__CPROVER_requires(EP_SINK_OK(sink))
__CPROVER_assigns(g_snk_pos, g_snk_val, g_snk_err, g_snk_nhard)
__CPROVER_ensures(__CPROVER_return_value <= 1)
__CPROVER_ensures(IMPLIES(__CPROVER_return_value == 1,
    g_snk_pos == (size_t)(__CPROVER_old(g_snk_pos) + 1u)
    && g_snk_val == (g_b == __CPROVER_old(g_snk_pos) ? data : __CPROVER_old(g_snk_val))
    && g_snk_nhard == __CPROVER_old(g_snk_nhard) && g_snk_err == __CPROVER_old(g_snk_err)))
__CPROVER_ensures(IMPLIES(__CPROVER_return_value == 0,
    g_snk_pos == __CPROVER_old(g_snk_pos) && g_snk_val == __CPROVER_old(g_snk_val)
    && g_snk_nhard == __CPROVER_old(g_snk_nhard) && g_snk_err == __CPROVER_old(g_snk_err)))
__CPROVER_ensures(IMPLIES(__CPROVER_return_value < 0,
    g_snk_pos == __CPROVER_old(g_snk_pos) && g_snk_val == __CPROVER_old(g_snk_val)
    && __CPROVER_return_value == g_snk_err
    && g_snk_nhard == (size_t)(__CPROVER_old(g_snk_nhard) + (EP_TRANSIENT(__CPROVER_return_value) ? 0u : 1u))))
;

/* common postcondition of sink_adapt, once_sink_put_chunk,
 * sink_put_chunk_atmost (see EP_SRC_ATMOST_POST) */
#define EP_SNK_ATMOST_POST(buf, n, ret, p0, h0, v0, chunk) \
  ((ret) <= (ssize_t)(n) \
   && IMPLIES((ret) >= 0, EP_SNK_MOVED((buf), (p0), (size_t)(ret), (v0)) && g_snk_nhard == (h0)) \
   && IMPLIES((ret) < 0, (ret) == g_snk_err \
        && ((size_t)(g_snk_pos - (p0)) < (n) || g_snk_pos == (p0)) \
        && EP_SNK_MOVED((buf), (p0), (size_t)(g_snk_pos - (p0)), (v0)) \
        && g_snk_nhard == (size_t)((h0) + (EP_TRANSIENT(ret) ? 0u : 1u)) \
        && IMPLIES((chunk), g_snk_pos == (p0)) \
        && IMPLIES(!(chunk), !EP_TRANSIENT(ret))))

static inline ssize_t sink_adapt(ByteSink sink, void *driver, const void *buf, const size_t n)
__CPROVER_requires(sink == ep_octet_sink && driver == EP_SNK_DRIVER)
__CPROVER_requires(n <= (size_t)SSIZE_MAX && IMPLIES(n > 0, __CPROVER_r_ok(buf, n) && EP_SEP(buf)))
__CPROVER_assigns(g_snk_pos, g_snk_val, g_snk_err, g_snk_nhard)
__CPROVER_ensures(EP_SNK_ATMOST_POST(buf, n, __CPROVER_return_value,
    __CPROVER_old(g_snk_pos), __CPROVER_old(g_snk_nhard), __CPROVER_old(g_snk_val), 0))
__CPROVER_ensures(IMPLIES(__CPROVER_return_value >= 0, (size_t)__CPROVER_return_value == n))
;

static inline ssize_t once_sink_put_chunk(Sink *sink, const void *buf, size_t n)
__CPROVER_requires(EP_SINK_OK(sink))
__CPROVER_requires(n <= (size_t)SSIZE_MAX && IMPLIES(n > 0, __CPROVER_r_ok(buf, n) && EP_SEP(buf)))
__CPROVER_assigns(g_snk_pos, g_snk_val, g_snk_err, g_snk_nhard)
__CPROVER_ensures(EP_SNK_ATMOST_POST(buf, n, __CPROVER_return_value,
    __CPROVER_old(g_snk_pos), __CPROVER_old(g_snk_nhard), __CPROVER_old(g_snk_val), sink->kind == DATA_KIND_CHUNK))
;

ssize_t sink_put_chunk_atmost(Sink *sink, const void *buf, const size_t n)
__CPROVER_requires(EP_SINK_OK(sink))
__CPROVER_requires(n <= (size_t)SSIZE_MAX && IMPLIES(n > 0, __CPROVER_r_ok(buf, n) && EP_SEP(buf)))
__CPROVER_assigns(g_snk_pos, g_snk_val, g_snk_err, g_snk_nhard)
__CPROVER_ensures(EP_SNK_ATMOST_POST(buf, n, __CPROVER_return_value,
    __CPROVER_old(g_snk_pos), __CPROVER_old(g_snk_nhard), __CPROVER_old(g_snk_val), sink->kind == DATA_KIND_CHUNK))
;

/* exactly n octets, or a hard error with a prefix, or -EINVAL with nothing */
ssize_t sink_put_chunk(Sink *sink, const void *buf, size_t n)
__CPROVER_requires(EP_SINK_OK(sink))
__CPROVER_requires(IMPLIES(EP_NVALID(n), __CPROVER_r_ok(buf, n) && EP_SEP(buf)))
__CPROVER_assigns(g_snk_pos, g_snk_val, g_snk_err, g_snk_nhard)
__CPROVER_ensures(IMPLIES(!EP_NVALID(n),
    __CPROVER_return_value == -EINVAL && g_snk_pos == __CPROVER_old(g_snk_pos)
    && g_snk_val == __CPROVER_old(g_snk_val)
    && g_snk_nhard == __CPROVER_old(g_snk_nhard) && g_snk_err == __CPROVER_old(g_snk_err)))
__CPROVER_ensures(IMPLIES(EP_NVALID(n),
    __CPROVER_return_value < 0 || (size_t)__CPROVER_return_value == n))
__CPROVER_ensures(IMPLIES(EP_NVALID(n) && __CPROVER_return_value >= 0,
    EP_SNK_MOVED(buf, __CPROVER_old(g_snk_pos), n, __CPROVER_old(g_snk_val))
    && g_snk_nhard == __CPROVER_old(g_snk_nhard)))
__CPROVER_ensures(IMPLIES(EP_NVALID(n) && __CPROVER_return_value < 0,
    __CPROVER_return_value == g_snk_err && !EP_TRANSIENT(__CPROVER_return_value)
    && g_snk_nhard == (size_t)(__CPROVER_old(g_snk_nhard) + 1u)
    && EP_DELIVERED < n
    && EP_SNK_MOVED(buf, __CPROVER_old(g_snk_pos), EP_DELIVERED, __CPROVER_old(g_snk_val))))
;

/* ------------------------------------------------------------------------ */
/* source-to-sink plumbing                                                   */

/* the sink driver accepted, as its positions [kp0, kp0+m), exactly the octets
 * [sp0, sp0+m) of the source stream, in order (v0: g_snk_val before): the
 * octet it received at position g_b is the stream's octet at g_a whenever the
 * two observed positions correspond, g_b - kp0 == g_a - sp0.  (Positions do
 * not wrap, so the range test is the plain one.) */
#define EP_PIPE_MOVED(sp0, kp0, v0, m) \
  (g_snk_pos == (size_t)((kp0) + (size_t)(m)) && g_snk_pos >= (kp0) \
   && IMPLIES((kp0) <= g_b && g_b < g_snk_pos && (size_t)(g_a - g_b) == (size_t)((sp0) - (kp0)), g_snk_val == g_val) \
   && IMPLIES(!((kp0) <= g_b && g_b < g_snk_pos), g_snk_val == (v0)))
/* the source driver delivered exactly t octets */
#define EP_SRC_TOOK(sp0, t) (g_src_pos == (size_t)((sp0) + (size_t)(t)) && g_src_pos >= (sp0))
/* a negative return value ret is the one hard error that one of the two
 * drivers returned (sh0, kh0: hard-error counts before) */
#define EP_SRC_FAILED(ret, sh0, kh0) \
  (g_src_nhard == (size_t)((sh0) + 1u) && g_snk_nhard == (kh0) && (ret) == g_src_err && EP_HARD(ret))
#define EP_SNK_FAILED(ret, sh0, kh0) \
  (g_src_nhard == (sh0) && g_snk_nhard == (size_t)((kh0) + 1u) && (ret) == g_snk_err && EP_HARD(ret))
#define EP_NO_FAILURE(sh0, kh0) (g_src_nhard == (sh0) && g_snk_nhard == (kh0))
#define EP_PIPE_ASSIGNS g_src_pos, g_src_err, g_src_nhard, g_snk_pos, g_snk_val, g_snk_err, g_snk_nhard
/* the getbuffer extension is not in use (every constructor of the library
 * leaves it NULL, nothing in the library implements it) */
#define EP_NOEXT(source, sink) ((source)->ext.getbuffer == NULL && (sink)->ext.getbuffer == NULL)

/* the same relative to the pre-state of the function under contract */
#define EP_PIPE_MOVED_O(m) EP_PIPE_MOVED(__CPROVER_old(g_src_pos), __CPROVER_old(g_snk_pos), __CPROVER_old(g_snk_val), (m))
#define EP_SRC_TOOK_O(t) EP_SRC_TOOK(__CPROVER_old(g_src_pos), (t))
#define EP_SRC_FAILED_O(ret) EP_SRC_FAILED((ret), __CPROVER_old(g_src_nhard), __CPROVER_old(g_snk_nhard))
#define EP_SNK_FAILED_O(ret) EP_SNK_FAILED((ret), __CPROVER_old(g_src_nhard), __CPROVER_old(g_snk_nhard))
#define EP_NO_FAILURE_O EP_NO_FAILURE(__CPROVER_old(g_src_nhard), __CPROVER_old(g_snk_nhard))
#define EP_MONOTONE_O (g_src_pos >= __CPROVER_old(g_src_pos) && g_snk_pos >= __CPROVER_old(g_snk_pos))
/* EP_LAG_O: octets taken from the source during the call minus octets
 * delivered to the sink during the call, written as the change of the distance
 * between the two positions (this form lets the loop proofs of the callers go
 * through without 64-bit cancellation lemmas).  EP_LAG_O == 0: both positions
 * advanced by the same amount. */
#define EP_DIST (size_t)(g_src_pos - g_snk_pos)
#define EP_DIST_O (size_t)(__CPROVER_old(g_src_pos) - __CPROVER_old(g_snk_pos))
#define EP_LAG_O ((size_t)(EP_DIST - EP_DIST_O))

/* exactly one octet, or a hard error: of the source (nothing taken) or of the
 * sink (one octet taken from the source, none delivered) */
#define EP_STS_ONE_POST(ret) \
  (((ret) == 1 || (ret) < 0) \
   && IMPLIES((ret) == 1, EP_SRC_TOOK_O(1) && EP_PIPE_MOVED_O(1) && EP_NO_FAILURE_O && EP_LAG_O == 0) \
   && IMPLIES((ret) < 0, EP_PIPE_MOVED_O(0) \
        && ((EP_SRC_FAILED_O((ret)) && EP_SRC_TOOK_O(0) && EP_LAG_O == 0) \
         || (EP_SNK_FAILED_O((ret)) && EP_SRC_TOOK_O(1) && EP_LAG_O == 1))))

ssize_t sts_cbc(Source *source, Sink *sink)
__CPROVER_requires(EP_SOURCE_OK(source) && EP_SINK_OK(sink))
__CPROVER_assigns(EP_PIPE_ASSIGNS)
__CPROVER_ensures(EP_STS_ONE_POST(__CPROVER_return_value))
;

/* exactly n octets (return n); or a hard error with a prefix of m < n octets
 * delivered and m (source failed) or m + 1 (sink failed) taken.  A count
 * n > SSIZE_MAX cannot be reported: only the prefix property is stated then. */
#define EP_STS_N_POST_OK(n, ret) \
  IMPLIES((ret) >= 0, (size_t)(ret) == (n) && EP_SRC_TOOK_O((n)) && EP_PIPE_MOVED_O((n)) && EP_NO_FAILURE_O)
#define EP_STS_N_POST_PREFIX(n, ret) \
  IMPLIES((ret) < 0, EP_MONOTONE_O && EP_DELIVERED <= (n) && EP_PIPE_MOVED_O(EP_DELIVERED))
#define EP_STS_N_POST_CAUSE(n, ret) \
  IMPLIES((ret) < 0 && (n) <= (size_t)SSIZE_MAX, EP_DELIVERED < (n) \
        && ((EP_SRC_FAILED_O((ret)) && EP_LAG_O == 0) || (EP_SNK_FAILED_O((ret)) && EP_LAG_O == 1)))

ssize_t sts_n_cbc(Source *source, Sink *sink, const size_t n)
__CPROVER_requires(EP_SOURCE_OK(source) && EP_SINK_OK(sink))
__CPROVER_assigns(EP_PIPE_ASSIGNS)
__CPROVER_ensures(EP_STS_N_POST_OK(n, __CPROVER_return_value))
__CPROVER_ensures(EP_STS_N_POST_PREFIX(n, __CPROVER_return_value))
__CPROVER_ensures(EP_STS_N_POST_CAUSE(n, __CPROVER_return_value))
;

/* runs until a driver fails: the return value is that hard error (ret is the
 * error itself, or alt when the error is -ENOMEM: sts_drain reports -EPIPE
 * then); what reached the sink is a prefix; when it was the source that failed
 * (its end), everything taken from it has been delivered */
#define EP_STS_DRAIN_POST(ret, alt) \
  ((ret) < 0 && EP_MONOTONE_O && EP_PIPE_MOVED_O(EP_DELIVERED) \
   && ((EP_SRC_FAILED_O(g_src_err) && ((ret) == g_src_err || (g_src_err == -ENOMEM && (ret) == (alt))) \
        && EP_LAG_O == 0) \
    || (EP_SNK_FAILED_O(g_snk_err) && ((ret) == g_snk_err || (g_snk_err == -ENOMEM && (ret) == (alt))) \
        && EP_LAG_O == 1)))

ssize_t sts_drain_cbc(Source *source, Sink *sink)
__CPROVER_requires(EP_SOURCE_OK(source) && EP_SINK_OK(sink))
__CPROVER_assigns(EP_PIPE_ASSIGNS)
__CPROVER_ensures(EP_STS_DRAIN_POST(__CPROVER_return_value, -ENOMEM))
;

/* without the getbuffer extension the two buffer paths refuse */
static ssize_t sts_atmost_via_sink(Source *source, Sink *sink, const size_t n)
__CPROVER_requires(__CPROVER_r_ok(source, sizeof(Source)) && __CPROVER_r_ok(sink, sizeof(Sink)) && EP_NOEXT(source, sink))
__CPROVER_assigns()
__CPROVER_ensures(__CPROVER_return_value == -ENOMEM)
;

static ssize_t sts_atmost_via_source(Source *source, Sink *sink, const size_t n)
__CPROVER_requires(__CPROVER_r_ok(source, sizeof(Source)) && __CPROVER_r_ok(sink, sizeof(Sink)) && EP_NOEXT(source, sink))
__CPROVER_assigns()
__CPROVER_ensures(__CPROVER_return_value == -EPIPE)
;

/* without the extension: one octet (n == 0 means "as much as is convenient") */
ssize_t sts_atmost(Source *source, Sink *sink, size_t n)
__CPROVER_requires(EP_SOURCE_OK(source) && EP_SINK_OK(sink) && EP_NOEXT(source, sink))
__CPROVER_assigns(EP_PIPE_ASSIGNS)
__CPROVER_ensures(EP_STS_ONE_POST(__CPROVER_return_value))
;

ssize_t sts_some(Source *source, Sink *sink)
__CPROVER_requires(EP_SOURCE_OK(source) && EP_SINK_OK(sink) && EP_NOEXT(source, sink))
__CPROVER_assigns(EP_PIPE_ASSIGNS)
__CPROVER_ensures(EP_STS_ONE_POST(__CPROVER_return_value))
;

ssize_t sts_n(Source *source, Sink *sink, const size_t n)
__CPROVER_requires(EP_SOURCE_OK(source) && EP_SINK_OK(sink) && EP_NOEXT(source, sink))
__CPROVER_assigns(EP_PIPE_ASSIGNS)
__CPROVER_ensures(EP_STS_N_POST_OK(n, __CPROVER_return_value))
__CPROVER_ensures(EP_STS_N_POST_PREFIX(n, __CPROVER_return_value))
__CPROVER_ensures(EP_STS_N_POST_CAUSE(n, __CPROVER_return_value))
;

ssize_t sts_drain(Source *source, Sink *sink)
__CPROVER_requires(EP_SOURCE_OK(source) && EP_SINK_OK(sink) && EP_NOEXT(source, sink))
__CPROVER_assigns(EP_PIPE_ASSIGNS)
__CPROVER_ensures(EP_STS_DRAIN_POST(__CPROVER_return_value, -EPIPE))
;

/* ------------------------------------------------------------------------ */
/* plumbing through an auxiliary buffer                                      */

/* the auxiliary buffer: a well-formed ByteBuffer whose storage is distinct
 * from the endpoints and the ghost state.  sts_some_aux / sts_atmost_aux use
 * its window data[offset .. used) as scratch space and leave the buffer's
 * fields alone; sts_n_aux / sts_drain_aux may rewind it first (the window
 * moves to data[0 .. used - offset)); the designated region of these two is
 * data[0 .. used), they never touch data[used .. size). */
#define EP_AUX_OK(b, source, sink) \
  (__CPROVER_rw_ok((b), sizeof(ByteBuffer)) && (b)->data != NULL && (b)->size >= 1u \
   && (b)->size <= (size_t)SSIZE_MAX && (b)->offset <= (b)->used && (b)->used <= (b)->size \
   && __CPROVER_rw_ok((b)->data, (b)->size) && EP_SEP((b)->data) && EP_SEP(b) \
   && !__CPROVER_same_object((b)->data, (b)) && !__CPROVER_same_object((b)->data, (source)) \
   && !__CPROVER_same_object((b)->data, (sink)) && !__CPROVER_same_object((b), (source)) \
   && !__CPROVER_same_object((b), (sink)))
#define EP_MIN(a, b) ((a) < (b) ? (a) : (b))
#define EP_AUX_FIELDS_SAME(b) ((b)->data == __CPROVER_old((b)->data) && (b)->size == __CPROVER_old((b)->size) \
   && (b)->used == __CPROVER_old((b)->used) && (b)->offset == __CPROVER_old((b)->offset))
/* the cell g_k of the storage is unchanged unless it lies in [lo, lo + w) */
#define EP_AUX_CELL_SAME(b, lo, w) \
  IMPLIES(g_k < (b)->size && !(g_k >= (lo) && g_k - (lo) < (w)), \
    (b)->data[EP_CL(g_k, (b)->size)] == __CPROVER_old((b)->data[EP_CL(g_k, (b)->size)]))
#define EP_WINDOW_O(b) (__CPROVER_old((b)->used) - __CPROVER_old((b)->offset))
/* the buffer stays well-formed, its window keeps its size and does not move
 * towards the end (sts_n_aux / sts_drain_aux may rewind the buffer) */
#define EP_AUX_WINDOW_KEPT(b) ((b)->offset <= (b)->used && (b)->used <= (b)->size \
   && (b)->used - (b)->offset == EP_WINDOW_O(b) && (b)->used <= __CPROVER_old((b)->used))

/* one transfer of at most w octets through the window.  ret >= 1: that many
 * octets taken and delivered.  Negative: the source driver's value (nothing
 * delivered; a chunk driver has delivered nothing either, an octet driver
 * fewer than w octets, which stay in the window), or -EINVAL when the source
 * delivered nothing / the window is empty, or the sink driver's hard error (a
 * proper prefix of what was taken is delivered). */
#define EP_STS_AUX_ONCE_OK(w, ret) \
  ((ret) != 0 && (ret) <= (ssize_t)(w) \
   && IMPLIES((ret) > 0, EP_SRC_TOOK_O((size_t)(ret)) && EP_PIPE_MOVED_O((size_t)(ret)) && EP_NO_FAILURE_O \
        && EP_LAG_O == 0))
#define EP_STS_AUX_ONCE_FAIL(source, w, ret) \
   IMPLIES((ret) < 0, EP_MONOTONE_O && EP_LAG_O <= (w) && EP_TAKEN <= (w) && EP_DELIVERED <= (w) \
        && EP_PIPE_MOVED_O(EP_DELIVERED) \
        && (((ret) == g_src_err && EP_DELIVERED == 0 && g_snk_nhard == __CPROVER_old(g_snk_nhard) \
             && IMPLIES((source)->kind == DATA_KIND_CHUNK, EP_TAKEN == 0 && EP_LAG_O == 0)) \
         || ((ret) == -EINVAL && EP_TAKEN == 0 && EP_DELIVERED == 0 && EP_LAG_O == 0 && EP_NO_FAILURE_O) \
         || (EP_SNK_FAILED_O(ret) && EP_LAG_O >= 1)))

ssize_t sts_some_aux(Source *source, Sink *sink, ByteBuffer *b)
__CPROVER_requires(EP_SOURCE_OK(source) && EP_SINK_OK(sink) && EP_AUX_OK(b, source, sink))
__CPROVER_assigns(EP_PIPE_ASSIGNS;
    b->used > b->offset: __CPROVER_object_upto(b->data + b->offset, b->used - b->offset))
__CPROVER_ensures(EP_STS_AUX_ONCE_OK(EP_WINDOW_O(b), __CPROVER_return_value))
__CPROVER_ensures(EP_STS_AUX_ONCE_FAIL(source, EP_WINDOW_O(b), __CPROVER_return_value))
__CPROVER_ensures(EP_AUX_FIELDS_SAME(b))
__CPROVER_ensures(EP_AUX_CELL_SAME(b, __CPROVER_old(b->offset), EP_WINDOW_O(b)))
;

/* at most n octets: the window is cut down to its first n octets */
ssize_t sts_atmost_aux(Source *source, Sink *sink, ByteBuffer *b, const size_t n)
__CPROVER_requires(EP_SOURCE_OK(source) && EP_SINK_OK(sink) && EP_AUX_OK(b, source, sink))
__CPROVER_assigns(EP_PIPE_ASSIGNS;
    b->used > b->offset && n > 0: __CPROVER_object_upto(b->data + b->offset, b->used - b->offset))
__CPROVER_ensures(EP_STS_AUX_ONCE_OK(EP_MIN(EP_WINDOW_O(b), n), __CPROVER_return_value))
__CPROVER_ensures(EP_STS_AUX_ONCE_FAIL(source, EP_MIN(EP_WINDOW_O(b), n), __CPROVER_return_value))
__CPROVER_ensures(EP_AUX_FIELDS_SAME(b))
__CPROVER_ensures(EP_AUX_CELL_SAME(b, __CPROVER_old(b->offset), EP_MIN(EP_WINDOW_O(b), n)))
;

/* exactly n octets (return n), or a negative value with a prefix delivered:
 * never more than n taken, at most a window's worth of taken octets not
 * delivered */
#define EP_STS_N_AUX_POST_OK(n, ret) \
  IMPLIES((ret) >= 0, (size_t)(ret) == (n) && EP_SRC_TOOK_O((n)) && EP_PIPE_MOVED_O((n)) && EP_NO_FAILURE_O)
#define EP_STS_N_AUX_POST_PREFIX(n, w, ret) \
  IMPLIES((ret) < 0, EP_MONOTONE_O && EP_LAG_O <= (w) && EP_TAKEN <= (n) && EP_DELIVERED <= (n) \
        && EP_PIPE_MOVED_O(EP_DELIVERED))
#define EP_STS_N_AUX_POST_CAUSE(n, ret) \
   IMPLIES((ret) < 0 && (n) <= (size_t)SSIZE_MAX, EP_DELIVERED < (n) \
        && (((ret) == g_src_err && g_snk_nhard == __CPROVER_old(g_snk_nhard)) \
         || ((ret) == -EINVAL && EP_LAG_O == 0 && EP_NO_FAILURE_O) \
         || (EP_SNK_FAILED_O(ret) && EP_LAG_O >= 1)))

ssize_t sts_n_aux(Source *source, Sink *sink, ByteBuffer *b, const size_t n)
__CPROVER_requires(EP_SOURCE_OK(source) && EP_SINK_OK(sink) && EP_AUX_OK(b, source, sink))
__CPROVER_assigns(EP_PIPE_ASSIGNS;
    n > 0: b->used; n > 0: b->offset;
    n > 0 && b->used > 0: __CPROVER_object_upto(b->data, b->used))
__CPROVER_ensures(EP_STS_N_AUX_POST_OK(n, __CPROVER_return_value))
__CPROVER_ensures(EP_STS_N_AUX_POST_PREFIX(n, EP_WINDOW_O(b), __CPROVER_return_value))
__CPROVER_ensures(EP_STS_N_AUX_POST_CAUSE(n, __CPROVER_return_value))
__CPROVER_ensures(b->data == __CPROVER_old(b->data) && b->size == __CPROVER_old(b->size))
__CPROVER_ensures(IMPLIES(n == 0, EP_AUX_FIELDS_SAME(b)))
__CPROVER_ensures(EP_AUX_WINDOW_KEPT(b))
__CPROVER_ensures(EP_AUX_CELL_SAME(b, 0, __CPROVER_old(b->used)))
;

/* runs until a transfer fails; what reached the sink is a prefix.  When it
 * was the source that ended the run and its driver is a chunk driver,
 * everything taken has been delivered (lag 0); an octet driver's hard error
 * arrives in the middle of a window: the lag < window octets read before it
 * stay in the auxiliary buffer. */
#define EP_STS_DRAIN_AUX_POST(source, w, ret) \
  ((ret) < 0 && EP_MONOTONE_O && EP_LAG_O <= (w) && EP_PIPE_MOVED_O(EP_DELIVERED) \
   && (((ret) == g_src_err && g_snk_nhard == __CPROVER_old(g_snk_nhard) \
        && IMPLIES((source)->kind == DATA_KIND_CHUNK, EP_LAG_O == 0)) \
    || ((ret) == -EINVAL && EP_LAG_O == 0 && EP_NO_FAILURE_O) \
    || (EP_SNK_FAILED_O(ret) && EP_LAG_O >= 1)))

ssize_t sts_drain_aux(Source *source, Sink *sink, ByteBuffer *b)
__CPROVER_requires(EP_SOURCE_OK(source) && EP_SINK_OK(sink) && EP_AUX_OK(b, source, sink))
__CPROVER_assigns(EP_PIPE_ASSIGNS; b->used; b->offset;
    b->used > 0: __CPROVER_object_upto(b->data, b->used))
__CPROVER_ensures(EP_STS_DRAIN_AUX_POST(source, EP_WINDOW_O(b), __CPROVER_return_value))
__CPROVER_ensures(b->data == __CPROVER_old(b->data) && b->size == __CPROVER_old(b->size))
__CPROVER_ensures(EP_AUX_WINDOW_KEPT(b))
__CPROVER_ensures(EP_AUX_CELL_SAME(b, 0, __CPROVER_old(b->used)))
;

/* ------------------------------------------------------------------------ */
/* src/endpoints/buffer.c: the drivers of buffer endpoints, against the      */
/* byte-buffer contracts of contracts/byte-buffer.h (C18).  They are chunk    */
/* drivers of the kind the stubs model: a count 1..n of the next unread       */
/* octets, in order, or -ENODATA / -ENOMEM, nothing moved.                    */
#ifdef EP_UNIT_BUFFER

#define EP_BB(driver) ((ByteBuffer *)(driver))
#define EP_BB_REST_O(b) (__CPROVER_old((b)->used) - __CPROVER_old((b)->offset))

/* source driver of a ByteBuffer: the oldest unread octets, at most n */
static ssize_t read_from_buffer(void *driver, void *data, size_t n)
__CPROVER_requires(BB_MEM_OK(EP_BB(driver)) && EP_BB(driver)->size <= (size_t)SSIZE_MAX)
__CPROVER_requires(IMPLIES(EP_BB(driver)->used - EP_BB(driver)->offset > 0,
    __CPROVER_w_ok(data, BB_MIN(n, EP_BB(driver)->used - EP_BB(driver)->offset))
    && !__CPROVER_same_object(EP_BB(driver)->data, data)))
__CPROVER_requires(!__CPROVER_same_object(driver, data))
__CPROVER_assigns(EP_BB(driver)->offset;
    n <= EP_BB(driver)->used - EP_BB(driver)->offset: __CPROVER_object_upto(data, n);
    n > EP_BB(driver)->used - EP_BB(driver)->offset && EP_BB(driver)->used > EP_BB(driver)->offset:
        __CPROVER_object_upto(data, EP_BB(driver)->used - EP_BB(driver)->offset))
__CPROVER_ensures(EP_BB(driver)->data == __CPROVER_old(EP_BB(driver)->data)
    && EP_BB(driver)->size == __CPROVER_old(EP_BB(driver)->size)
    && EP_BB(driver)->used == __CPROVER_old(EP_BB(driver)->used) && BB_WF(EP_BB(driver))
    && BB_CELL_SAME(EP_BB(driver), g_j))
__CPROVER_ensures(IMPLIES(EP_BB_REST_O(EP_BB(driver)) == 0,
    __CPROVER_return_value == -ENODATA && EP_BB(driver)->offset == __CPROVER_old(EP_BB(driver)->offset)))
__CPROVER_ensures(IMPLIES(EP_BB_REST_O(EP_BB(driver)) != 0,
    __CPROVER_return_value >= 0
    && (size_t)__CPROVER_return_value == BB_MIN(n, EP_BB_REST_O(EP_BB(driver)))
    && EP_BB(driver)->offset == __CPROVER_old(EP_BB(driver)->offset) + (size_t)__CPROVER_return_value))
__CPROVER_ensures(IMPLIES(EP_BB_REST_O(EP_BB(driver)) != 0 && g_k < BB_MIN(n, EP_BB_REST_O(EP_BB(driver))),
    ((unsigned char *)data)[g_k]
      == EP_BB(driver)->data[BB_CL(__CPROVER_old(EP_BB(driver)->offset) + g_k, EP_BB(driver)->size)]))
;

/* sink driver of a ByteBuffer: all n octets are appended, or none (-ENOMEM) */
static ssize_t write_to_buffer(void *driver, const void *data, size_t n)
__CPROVER_requires(BB_MEM_OK(EP_BB(driver)) && EP_BB(driver)->size <= (size_t)SSIZE_MAX)
__CPROVER_requires(IMPLIES(n <= EP_BB(driver)->size - EP_BB(driver)->used,
    __CPROVER_r_ok(data, n) && !__CPROVER_same_object(EP_BB(driver)->data, data)))
__CPROVER_requires(!__CPROVER_same_object(driver, data))
__CPROVER_assigns(EP_BB(driver)->used;
    n <= EP_BB(driver)->size - EP_BB(driver)->used: __CPROVER_object_upto(EP_BB(driver)->data, EP_BB(driver)->size))
__CPROVER_ensures(EP_BB(driver)->data == __CPROVER_old(EP_BB(driver)->data)
    && EP_BB(driver)->size == __CPROVER_old(EP_BB(driver)->size)
    && EP_BB(driver)->offset == __CPROVER_old(EP_BB(driver)->offset) && BB_WF(EP_BB(driver)))
__CPROVER_ensures(IMPLIES(n <= __CPROVER_old(EP_BB(driver)->size) - __CPROVER_old(EP_BB(driver)->used),
    __CPROVER_return_value >= 0 && (size_t)__CPROVER_return_value == n
    && EP_BB(driver)->used == __CPROVER_old(EP_BB(driver)->used) + n))
__CPROVER_ensures(IMPLIES(n <= __CPROVER_old(EP_BB(driver)->size) - __CPROVER_old(EP_BB(driver)->used) && g_k < n,
    EP_BB(driver)->data[BB_CL(__CPROVER_old(EP_BB(driver)->used) + g_k, EP_BB(driver)->size)]
      == ((const unsigned char *)data)[g_k]))
__CPROVER_ensures(IMPLIES(n <= __CPROVER_old(EP_BB(driver)->size) - __CPROVER_old(EP_BB(driver)->used)
    && g_j < __CPROVER_old(EP_BB(driver)->used), BB_CELL_SAME(EP_BB(driver), g_j)))
__CPROVER_ensures(IMPLIES(n > __CPROVER_old(EP_BB(driver)->size) - __CPROVER_old(EP_BB(driver)->used),
    __CPROVER_return_value == -ENOMEM && EP_BB(driver)->used == __CPROVER_old(EP_BB(driver)->used)
    && BB_CELL_SAME(EP_BB(driver), g_j)))
;

/* read_from_chunks (a backward-goto loop over the chunk list) carries no
 * contract: CBMC 6.11 cannot attach a loop contract to a goto loop, and
 * unwinding it under state merging reads the loop-local `rc` stale.  Its
 * obligations are asserted by the plain harness h_read_from_chunks, explored
 * path by path (tier B, at most EP_CHUNKS_MAX chunks). */

void source_from_buffer(Source *instance, ByteBuffer *buffer)
__CPROVER_requires(__CPROVER_rw_ok(instance, sizeof(Source)))
__CPROVER_assigns(instance->kind, instance->source, instance->driver, instance->ext.getbuffer)
__CPROVER_ensures(instance->kind == DATA_KIND_CHUNK && instance->source.chunk == read_from_buffer
    && instance->driver == (void *)buffer && instance->ext.getbuffer == NULL)
;

void source_from_chunks(Source *instance, ByteChunks *chunks)
__CPROVER_requires(__CPROVER_rw_ok(instance, sizeof(Source)))
__CPROVER_assigns(instance->kind, instance->source, instance->driver, instance->ext.getbuffer)
__CPROVER_ensures(instance->kind == DATA_KIND_CHUNK && instance->source.chunk == read_from_chunks
    && instance->driver == (void *)chunks && instance->ext.getbuffer == NULL)
;

void sink_to_buffer(Sink *instance, ByteBuffer *buffer)
__CPROVER_requires(__CPROVER_rw_ok(instance, sizeof(Sink)))
__CPROVER_assigns(instance->kind, instance->sink, instance->driver, instance->ext.getbuffer)
__CPROVER_ensures(instance->kind == DATA_KIND_CHUNK && instance->sink.chunk == write_to_buffer
    && instance->driver == (void *)buffer && instance->ext.getbuffer == NULL)
;
#endif /* EP_UNIT_BUFFER */

/* ------------------------------------------------------------------------ */
/* src/endpoints/trivial.c                                                   */
#ifdef EP_UNIT_TRIVIAL

static ssize_t run_source_zero(void *driver, void *data, size_t n)
__CPROVER_requires(n <= (size_t)SSIZE_MAX && IMPLIES(n > 0, __CPROVER_w_ok(data, n)))
__CPROVER_assigns(n > 0: __CPROVER_object_upto(data, n))
__CPROVER_ensures(__CPROVER_return_value >= 0 && (size_t)__CPROVER_return_value == n)
__CPROVER_ensures(IMPLIES(g_k < n, ((unsigned char *)data)[g_k] == 0))
;

static ssize_t run_sink_null(void *driver, const void *data, size_t n)
__CPROVER_requires(n <= (size_t)SSIZE_MAX)
__CPROVER_assigns()
__CPROVER_ensures(__CPROVER_return_value >= 0 && (size_t)__CPROVER_return_value == n)
;

static ssize_t run_source_empty(void *driver, void *data, size_t n)
__CPROVER_assigns()
__CPROVER_ensures(__CPROVER_return_value == -ENODATA)
;

/* static-state invariant of the three predefined endpoints (mutable objects of
 * static lifetime: nondeterministic under dfcc, so every user states it; the
 * base target proves it of the initialisers) */
#define EP_STATIC_OK() \
  (source_empty.kind == DATA_KIND_CHUNK && source_empty.source.chunk == run_source_empty \
   && source_empty.driver == NULL && source_empty.ext.getbuffer == NULL \
   && source_zero.kind == DATA_KIND_CHUNK && source_zero.source.chunk == run_source_zero \
   && source_zero.driver == NULL && source_zero.ext.getbuffer == NULL \
   && sink_null.kind == DATA_KIND_CHUNK && sink_null.sink.chunk == run_sink_null \
   && sink_null.driver == NULL && sink_null.ext.getbuffer == NULL)
#endif /* EP_UNIT_TRIVIAL */

#endif
