/* Contracts of src/sx.c (property C20: the s-expression reader inverts
 * printing and fails cleanly on anything else).
 *
 * Input is the octet block s[0..n) -- r_ok(s, n) and nothing more, so a read
 * of s[n] or beyond fails a pointer check in every function below, for
 * NUL-terminated and length-delimited callers alike.
 *
 * Three layers of clauses:
 *  (1) all input lengths: reads, positions, the status/node relation, the
 *      allocation ledger g_sx_live; facts about "every octet of a range" at
 *      the ghost index g_k; loops by inductive loop contracts with
 *      `decreases` (contracts/sx.loops);
 *  (2) input length <= SX_QMAX: status, position and node type EXACTLY as a
 *      function of the text, through the ghost tables of spec/sx.h (clauses
 *      of the form IMPLIES(SX_RUNS_OK / SX_GRAMMAR_OK, ...), conditional on
 *      the ghost flag that says the tables satisfy their equations);
 *  (3) bounded targets for what a non-recursive contract cannot state
 *      (integer values, sx_destroy on whole trees): harness/sx.c.
 *
 * Static state: `digits` and `syminitchtab` are non-const pointers, hence
 * nondeterministic inside a function checked under dfcc.  Their expected
 * content is the static-state invariant SX_STATIC_*_OK, assumed by the two
 * functions that read them and proved at program start by the base target
 * `static_tables` (plain harness after __CPROVER_initialize()).  No assigns
 * clause lists them, so they are preserved.
 */
#ifndef CONTRACTS_SX_H
#define CONTRACTS_SX_H
#include "spec/sx.h"

/* the allocation ledger (stubs/sx_alloc.h) wraps the allocator inside sx.c
 * only; harness code below uses the plain functions again */
#undef union   /* stubs/sx_union.h */
#undef malloc
#undef calloc
#undef free

#define SX_STATIC_DIGITS_IS(MEM) (MEM(digits, 17) \
   && digits[0] == '0' && digits[1] == '1' && digits[2] == '2' && digits[3] == '3' \
   && digits[4] == '4' && digits[5] == '5' && digits[6] == '6' && digits[7] == '7' \
   && digits[8] == '8' && digits[9] == '9' && digits[10] == 'a' && digits[11] == 'b' \
   && digits[12] == 'c' && digits[13] == 'd' && digits[14] == 'e' && digits[15] == 'f' \
   && digits[16] == '\0')

#define SX_STATIC_SYMTAB_IS(MEM) (MEM(syminitchtab, 70) \
   && syminitchtab[0] == 'a' && syminitchtab[1] == 'b' && syminitchtab[2] == 'c' && syminitchtab[3] == 'd' \
   && syminitchtab[4] == 'e' && syminitchtab[5] == 'f' && syminitchtab[6] == 'g' && syminitchtab[7] == 'h' \
   && syminitchtab[8] == 'i' && syminitchtab[9] == 'j' && syminitchtab[10] == 'k' && syminitchtab[11] == 'l' \
   && syminitchtab[12] == 'm' && syminitchtab[13] == 'n' && syminitchtab[14] == 'o' && syminitchtab[15] == 'p' \
   && syminitchtab[16] == 'q' && syminitchtab[17] == 'r' && syminitchtab[18] == 's' && syminitchtab[19] == 't' \
   && syminitchtab[20] == 'u' && syminitchtab[21] == 'v' && syminitchtab[22] == 'w' && syminitchtab[23] == 'x' \
   && syminitchtab[24] == 'y' && syminitchtab[25] == 'z' && syminitchtab[26] == 'A' && syminitchtab[27] == 'B' \
   && syminitchtab[28] == 'C' && syminitchtab[29] == 'D' && syminitchtab[30] == 'E' && syminitchtab[31] == 'F' \
   && syminitchtab[32] == 'G' && syminitchtab[33] == 'H' && syminitchtab[34] == 'I' && syminitchtab[35] == 'J' \
   && syminitchtab[36] == 'K' && syminitchtab[37] == 'L' && syminitchtab[38] == 'M' && syminitchtab[39] == 'N' \
   && syminitchtab[40] == 'O' && syminitchtab[41] == 'P' && syminitchtab[42] == 'Q' && syminitchtab[43] == 'R' \
   && syminitchtab[44] == 'S' && syminitchtab[45] == 'T' && syminitchtab[46] == 'U' && syminitchtab[47] == 'V' \
   && syminitchtab[48] == 'W' && syminitchtab[49] == 'X' && syminitchtab[50] == 'Y' && syminitchtab[51] == 'Z' \
   && syminitchtab[52] == '+' && syminitchtab[53] == '%' && syminitchtab[54] == '|' && syminitchtab[55] == '/' \
   && syminitchtab[56] == '_' && syminitchtab[57] == ':' && syminitchtab[58] == ';' && syminitchtab[59] == '.' \
   && syminitchtab[60] == '!' && syminitchtab[61] == '?' && syminitchtab[62] == '$' && syminitchtab[63] == '&' \
   && syminitchtab[64] == '=' && syminitchtab[65] == '*' && syminitchtab[66] == '<' && syminitchtab[67] == '>' \
   && syminitchtab[68] == '~' && syminitchtab[69] == '\0')

/* in a contract the (havoced) pointer is re-established by is_fresh; the base
 * target checks plain readability */
#define SX_STATIC_DIGITS_OK SX_STATIC_DIGITS_IS(__CPROVER_is_fresh)
#define SX_STATIC_SYMTAB_OK SX_STATIC_SYMTAB_IS(__CPROVER_is_fresh)

/* The two functions that read the tables are proved under the invariant
 * (targets digit2int / issyminitch, built with -DSX_ENFORCE_LEAF).  Because
 * the invariant holds in every reachable state (base target + preservation),
 * their callers use the contracts without re-establishing it at each call. */
#ifdef SX_ENFORCE_LEAF
#define SX_LEAF_REQUIRES(p) __CPROVER_requires(p)
#else
#define SX_LEAF_REQUIRES(p)
#endif

/* ---- character classes ------------------------------------------------- */

/* every hexadecimal digit character maps to its value IN EITHER CASE; any
 * other octet maps to 0 (parse_integer_ relies on that for the "#x" prefix) */
static inline uint64_t digit2int(const char c)
SX_LEAF_REQUIRES(SX_STATIC_DIGITS_OK)
__CPROVER_assigns()
__CPROVER_ensures(__CPROVER_return_value == SPEC_SX_DIGITVAL(c))
;

static bool issyminitch(const char c)
SX_LEAF_REQUIRES(SX_STATIC_SYMTAB_OK)
__CPROVER_assigns()
__CPROVER_ensures(__CPROVER_return_value == SPEC_SX_ISSYMINIT(c))
;

static bool issymch(const char c)
__CPROVER_assigns()
__CPROVER_ensures(__CPROVER_return_value == SPEC_SX_ISSYMCH(c))
;

static bool nextisdelimiter(const char c)
__CPROVER_assigns()
__CPROVER_ensures(__CPROVER_return_value == SPEC_SX_ISDELIM(c))
;

/* ---- allocation ---------------------------------------------------------
 * Every constructor returns a fresh node; the ledger says how many blocks it
 * took.  CBMC's malloc may fail; sx.c then calls sxoom (fprintf, _Exit), which
 * ends the path: a constructor that returns has allocated. */

/* (the bounded fallback of the engine evaluates the clauses in plain cbmc,
 * where is_fresh has no meaning: there "fresh" is read as "readable") */
#ifdef VERIF_FALLBACK
#define SX_FRESH(p, n) __CPROVER_r_ok((p), (n))
#else
#define SX_FRESH(p, n) __CPROVER_is_fresh((p), (n))
#endif
#define SX_NODE_FRESH(p) SX_FRESH((p), sizeof(struct sx_node))

static struct sx_node *make_node(void)
__CPROVER_assigns(g_sx_live)
__CPROVER_ensures(SX_NODE_FRESH(__CPROVER_return_value))
__CPROVER_ensures(g_sx_live == __CPROVER_old(g_sx_live) + 1)
;

struct sx_node *sx_make_integer(uint64_t n)
__CPROVER_assigns(g_sx_live)
__CPROVER_ensures(SX_NODE_FRESH(__CPROVER_return_value))
__CPROVER_ensures(__CPROVER_return_value->type == SXT_INTEGER && __CPROVER_return_value->data.u64 == n)
__CPROVER_ensures(g_sx_live == __CPROVER_old(g_sx_live) + 1)
;

struct sx_node *sx_make_empty_list(void)
__CPROVER_assigns(g_sx_live)
__CPROVER_ensures(SX_NODE_FRESH(__CPROVER_return_value))
__CPROVER_ensures(__CPROVER_return_value->type == SXT_EMPTY_LIST)
__CPROVER_ensures(g_sx_live == __CPROVER_old(g_sx_live) + 1)
;

/* the symbol text is a fresh NUL-terminated copy of exactly s[0..len); no
 * octet at or beyond s[len] is read (the source need not be terminated) */
static struct sx_node *sx_make_symboln(const char *s, size_t len)
__CPROVER_requires(__CPROVER_r_ok(s, len) && len < SIZE_MAX)
__CPROVER_assigns(g_sx_live)
__CPROVER_ensures(SX_NODE_FRESH(__CPROVER_return_value))
__CPROVER_ensures(__CPROVER_return_value->type == SXT_SYMBOL)
__CPROVER_ensures(SX_FRESH(__CPROVER_return_value->data.symbol, len + 1))
__CPROVER_ensures(__CPROVER_return_value->data.symbol[len] == '\0')
__CPROVER_ensures(IMPLIES(g_k < len, __CPROVER_return_value->data.symbol[g_k] == s[g_k]))
__CPROVER_ensures(g_sx_live == __CPROVER_old(g_sx_live) + 2)
;

static struct sx_node *make_pair(void)
__CPROVER_assigns(g_sx_live)
__CPROVER_ensures(SX_NODE_FRESH(__CPROVER_return_value))
__CPROVER_ensures(__CPROVER_return_value->type == SXT_PAIR)
__CPROVER_ensures(SX_FRESH(__CPROVER_return_value->data.pair, sizeof(struct sx_pair)))
__CPROVER_ensures(__CPROVER_return_value->data.pair->car == NULL && __CPROVER_return_value->data.pair->cdr == NULL)
__CPROVER_ensures(g_sx_live == __CPROVER_old(g_sx_live) + 2)
;

struct sx_node *sx_cons(struct sx_node *car, struct sx_node *cdr)
__CPROVER_assigns(g_sx_live)
__CPROVER_ensures(SX_NODE_FRESH(__CPROVER_return_value))
__CPROVER_ensures(__CPROVER_return_value->type == SXT_PAIR)
__CPROVER_ensures(SX_FRESH(__CPROVER_return_value->data.pair, sizeof(struct sx_pair)))
__CPROVER_ensures(__CPROVER_return_value->data.pair->car == car && __CPROVER_return_value->data.pair->cdr == cdr)
__CPROVER_ensures(g_sx_live == __CPROVER_old(g_sx_live) + 2)
;

/* ---- scanners ----------------------------------------------------------- */

/* first position >= i that is not whitespace, or n; i beyond n is returned
 * unchanged */
static size_t skip_ws(const char *s, const size_t n, size_t i)
__CPROVER_requires(__CPROVER_r_ok(s, n))
SX_RUNS_REQUIRES(s, n)
__CPROVER_assigns()
__CPROVER_ensures(IMPLIES(i >= n, __CPROVER_return_value == i))
__CPROVER_ensures(IMPLIES(i < n, i <= __CPROVER_return_value && __CPROVER_return_value <= n))
__CPROVER_ensures(IMPLIES(i <= g_k && g_k < __CPROVER_return_value && g_k < n, SPEC_SX_ISSPACE(s[g_k])))
__CPROVER_ensures(IMPLIES(i < n && __CPROVER_return_value < n, !SPEC_SX_ISSPACE(s[__CPROVER_return_value])))
/* exactly: the table entry (spec/sx.h, input length <= SX_QMAX) */
__CPROVER_ensures(IMPLIES(SX_RUNS_OK(s, n) && i <= n, __CPROVER_return_value == g_sxW[i]))
;

/* token class at s[i]; reads only below n */
static enum sx_what looking_at(const char *s, const size_t n, const size_t i)
__CPROVER_requires(__CPROVER_r_ok(s, n) && i < n)
__CPROVER_assigns()
__CPROVER_ensures((int)__CPROVER_return_value == spec_sx_looking_at(s, n, i))
;

/* symbol at s[*i]: the maximal run of symbol characters; it must be followed
 * by a delimiter or the end of the input, otherwise NULL with *i at the
 * offending octet */
static struct sx_node *parse_symbol(const char *s, const size_t n, size_t *i)
__CPROVER_requires(__CPROVER_r_ok(s, n) && __CPROVER_rw_ok(i, sizeof(*i)) && *i < n)
__CPROVER_requires(SPEC_SX_ISSYMINIT(s[*i]))
SX_RUNS_REQUIRES(s, n)
__CPROVER_assigns(*i, g_sx_live)
__CPROVER_ensures(__CPROVER_old(*i) < *i && *i <= n)
__CPROVER_ensures(IMPLIES(__CPROVER_old(*i) <= g_k && g_k < *i, SPEC_SX_ISSYMCH(s[g_k])))
__CPROVER_ensures(IMPLIES(*i < n, !SPEC_SX_ISSYMCH(s[*i])))
__CPROVER_ensures(SPEC_SX_ISSYMCH(s[*i - 1]))
__CPROVER_ensures(IMPLIES(SX_RUNS_OK(s, n), *i == g_sxS[__CPROVER_old(*i)]))
__CPROVER_ensures((__CPROVER_return_value == NULL) == (*i < n && !SPEC_SX_ISDELIM(s[*i])))
__CPROVER_ensures(IMPLIES(__CPROVER_return_value != NULL,
    SX_NODE_FRESH(__CPROVER_return_value) && __CPROVER_return_value->type == SXT_SYMBOL
    && SX_FRESH(__CPROVER_return_value->data.symbol, *i - __CPROVER_old(*i) + 1)
    && __CPROVER_return_value->data.symbol[*i - __CPROVER_old(*i)] == '\0'
    && IMPLIES(g_k < *i - __CPROVER_old(*i),
               __CPROVER_return_value->data.symbol[g_k] == s[__CPROVER_old(*i) + g_k])))
__CPROVER_ensures(g_sx_live == __CPROVER_old(g_sx_live) + (__CPROVER_return_value != NULL ? 2 : 0))
;

/* ---- integers -----------------------------------------------------------
 * parse_integer_ scans the digit run s[d0..e) (d0 = *i + offset; the prefix
 * "#x" has offset 2), demands a delimiter or the end of the input behind it
 * and returns an integer node.  This contract (all input lengths, inductive
 * loop invariants, `decreases`) covers reads, the position, the NULL/non-NULL
 * relation and the ledger.  The VALUE of the node -- the positional value of
 * the digit run, hex digits in either case, modulo 2^64 because the reader has
 * no overflow status -- is a fold that a contract cannot state without a
 * ghost trace; the trace formulation was measured (64-bit multiplier
 * equivalences under symbolic indices: no answer in 5 min for 4 digits) and
 * dropped.  The value is decided on the real function by the bounded targets
 * `integer_value_dec` / `integer_value_hex` (tier B, up to SX_VDIGITS digits)
 * against spec_sx_value(), the most-significant-digit-first reading. */
#define SX_INT_REQUIRES(s, n, i, offset, base) \
  (__CPROVER_r_ok(s, n) && __CPROVER_rw_ok(i, sizeof(*(i))) && *(i) < (n) \
   && (((offset) == 0 && (base) == 10 && SPEC_SX_ISDIGIT((s)[*(i)])) \
       || ((offset) == 2 && (base) == 16 && (n) - *(i) > 2 && (s)[*(i)] == '#' \
           && (s)[*(i) + 1 < (n) ? *(i) + 1 : 0] == 'x' \
           && SPEC_SX_ISXDIGIT((s)[*(i) + 2 < (n) ? *(i) + 2 : 0]))))

#define SX_INT_ENSURES(s, n, i, offset, base) \
__CPROVER_ensures(__CPROVER_old(*i) + (offset) < *i && *i <= n) \
__CPROVER_ensures(IMPLIES(__CPROVER_old(*i) + (offset) <= g_k && g_k < *i, SX_ISBASEDIGIT(base, s[g_k]))) \
__CPROVER_ensures(IMPLIES(*i < n, !SX_ISBASEDIGIT(base, s[*i]))) \
__CPROVER_ensures(SX_ISBASEDIGIT(base, s[*i - 1])) \
__CPROVER_ensures(IMPLIES(SX_RUNS_OK(s, n), \
    *i == ((base) == 10 ? g_sxD[__CPROVER_old(*i) + (offset)] : g_sxX[__CPROVER_old(*i) + (offset)]))) \
__CPROVER_ensures((__CPROVER_return_value == NULL) == (*i < n && !SPEC_SX_ISDELIM(s[*i]))) \
__CPROVER_ensures(IMPLIES(__CPROVER_return_value != NULL, \
    SX_NODE_FRESH(__CPROVER_return_value) && __CPROVER_return_value->type == SXT_INTEGER)) \
__CPROVER_ensures(g_sx_live == __CPROVER_old(g_sx_live) + (__CPROVER_return_value != NULL ? 1 : 0))

static struct sx_node *parse_integer_(const char *s, const size_t n, size_t *i, size_t offset,
                                      int (*digitpredicate)(int), uint64_t base)
__CPROVER_requires(SX_INT_REQUIRES(s, n, i, offset, base))
__CPROVER_requires(digitpredicate == ((base) == 10 ? isdigit : isxdigit))
SX_RUNS_REQUIRES(s, n)
__CPROVER_assigns(*i, g_sx_live)
SX_INT_ENSURES(s, n, i, offset, base)
;

static inline struct sx_node *parse_integer(const char *s, const size_t n, size_t *i)
__CPROVER_requires(SX_INT_REQUIRES(s, n, i, 0, 10))
SX_RUNS_REQUIRES(s, n)
__CPROVER_assigns(*i, g_sx_live)
SX_INT_ENSURES(s, n, i, 0, 10)
;

static inline struct sx_node *parse_hinteger(const char *s, const size_t n, size_t *i)
__CPROVER_requires(SX_INT_REQUIRES(s, n, i, 2, 16))
SX_RUNS_REQUIRES(s, n)
__CPROVER_assigns(*i, g_sx_live)
SX_INT_ENSURES(s, n, i, 2, 16)
;

/* ---- one token ------------------------------------------------------------
 * Status / node / position relation of sx_parse_token (public).  "Nothing but
 * whitespace" is NOT an error at this level (test suite: SXS_SUCCESS with a
 * NULL node); the expression level turns it into SXS_UNEXPECTED_END.
 *   success + node  : i < position <= n, fresh symbol / integer / empty-list
 *                     node, the token ends at position
 *   SXS_FOUND_LIST  : '(' at position-1, no node
 *   error           : no node, nothing allocated, position = offending octet
 */
#define SX_STATUS_IS_ERROR(st) ((st) == SXS_BROKEN_INTEGER || (st) == SXS_BROKEN_SYMBOL \
                                || (st) == SXS_UNKNOWN_INPUT || (st) == SXS_UNEXPECTED_END)
#define SX_RV __CPROVER_return_value

/* The relation is written as C predicates over the returned structure (each
 * input octet and node field is read once; the clause-per-fact form of the
 * same text produced some 20 000 pointer-check side conditions and exhausted
 * memory).  k is the ghost index: the predicate holds for every k. */

/* status / node / position */
static inline bool sx_token_post_status(const char *s, size_t n, size_t i, struct sx_parse_result r)
{
  const enum sx_status st = r.status;
  const size_t p = r.position;
  if (!(st == SXS_SUCCESS || st == SXS_FOUND_LIST || st == SXS_BROKEN_INTEGER
        || st == SXS_BROKEN_SYMBOL || st == SXS_UNKNOWN_INPUT)) return false;
  if (p > n) return false;
  if (st == SXS_SUCCESS && r.node == NULL) return p == 0;          /* nothing but whitespace */
  if (st == SXS_SUCCESS) {                                          /* a token ending at p */
    const enum sx_node_type ty = r.node->type;
    if (!(i < p)) return false;
    if (ty == SXT_EMPTY_LIST) return s[p - 1] == ')';
    if (!(p == n || SPEC_SX_ISDELIM(s[p]))) return false;
    if (ty == SXT_INTEGER) return SPEC_SX_ISXDIGIT(s[p - 1]);
    return ty == SXT_SYMBOL && SPEC_SX_ISSYMCH(s[p - 1]);
  }
  if (r.node != NULL) return false;                                 /* no node otherwise */
  if (st == SXS_FOUND_LIST) return i < p && s[p - 1] == '(';
  /* errors: position is the offending octet */
  if (!(i <= p && p < n)) return false;
  if (st == SXS_UNKNOWN_INPUT)
    return !SPEC_SX_ISSPACE(s[p]) && spec_sx_looking_at(s, n, p) == SPEC_SX_AT_UNKNOWN;
  if (st == SXS_BROKEN_SYMBOL)
    return i < p && SPEC_SX_ISSYMCH(s[p - 1]) && !SPEC_SX_ISSYMCH(s[p]) && !SPEC_SX_ISDELIM(s[p]);
  /* SXS_BROKEN_INTEGER */
  return i < p && SPEC_SX_ISXDIGIT(s[p - 1]) && !SPEC_SX_ISDELIM(s[p]);
}

/* only whitespace in front of a parenthesis / an unknown octet, or up to the
 * end when there is no token.  (The text of a symbol node and the digits of
 * an integer are the business of parse_symbol / parse_integer_, whose
 * results are passed on unchanged; a fresh block of unknown size cannot be
 * described in a postcondition that callers assume.) */
static inline bool sx_token_post_text(const char *s, size_t n, size_t i, struct sx_parse_result r, size_t k)
{
  const enum sx_status st = r.status;
  const size_t p = r.position;
  size_t ws_end;                       /* s[i..ws_end) must be whitespace */
  if (st == SXS_SUCCESS && r.node == NULL) ws_end = n;
  else if (st == SXS_FOUND_LIST || st == SXS_UNKNOWN_INPUT) ws_end = (st == SXS_FOUND_LIST) ? p - 1 : p;
  else if (st == SXS_SUCCESS && r.node->type == SXT_EMPTY_LIST) ws_end = p - 1;
  else return true;
  if (i <= k && k < ws_end) return SPEC_SX_ISSPACE(s[k]);
  return true;
}

/* exactly (input length <= SX_QMAX): status, position and node type as a
 * function of the text, through the tables of spec/sx.h */
static inline bool sx_token_post_exact(const char *s, size_t n, size_t i, struct sx_parse_result r)
{
  const size_t j = g_sxW[i];
  if (j >= n) return r.status == SXS_SUCCESS && r.node == NULL && r.position == 0;
  const int c = spec_sx_looking_at(s, n, j);
  if (c == SPEC_SX_AT_OPEN) return r.status == SXS_FOUND_LIST && r.node == NULL && r.position == j + 1;
  if (c == SPEC_SX_AT_CLOSE)
    return r.status == SXS_SUCCESS && r.node != NULL && r.node->type == SXT_EMPTY_LIST && r.position == j + 1;
  if (c == SPEC_SX_AT_UNKNOWN) return r.status == SXS_UNKNOWN_INPUT && r.node == NULL && r.position == j;
  const size_t e = (c == SPEC_SX_AT_SYMBOL) ? g_sxS[j] : (c == SPEC_SX_AT_INT_DEC) ? g_sxD[j] : g_sxX[j + 2];
  if (r.position != e) return false;
  if (e < n && !SPEC_SX_ISDELIM(s[e]))
    return r.node == NULL && r.status == ((c == SPEC_SX_AT_SYMBOL) ? SXS_BROKEN_SYMBOL : SXS_BROKEN_INTEGER);
  return r.status == SXS_SUCCESS && r.node != NULL
         && r.node->type == ((c == SPEC_SX_AT_SYMBOL) ? SXT_SYMBOL : SXT_INTEGER);
}

struct sx_parse_result sx_parse_token(const char *s, const size_t n, const size_t i)
__CPROVER_requires(__CPROVER_r_ok(s, n) && i <= n)
SX_RUNS_REQUIRES(s, n)
__CPROVER_assigns(g_sx_live)
__CPROVER_ensures(IMPLIES(SX_RV.node != NULL, SX_NODE_FRESH(SX_RV.node)))
__CPROVER_ensures(sx_token_post_status(s, n, i, SX_RV))
__CPROVER_ensures(sx_token_post_text(s, n, i, SX_RV, g_k))
__CPROVER_ensures(IMPLIES(SX_RUNS_OK(s, n), sx_token_post_exact(s, n, i, SX_RV)))
/* ledger */
__CPROVER_ensures(g_sx_live == __CPROVER_old(g_sx_live)
    + (SX_RV.node == NULL ? 0 : SX_RV.node->type == SXT_SYMBOL ? 2 : 1))
;

/* ---- expressions (mutually recursive) ------------------------------------
 * sx_parse_ reads one expression starting at or after i; sx_parse_list reads
 * the rest of a list whose '(' has been consumed, up to and including its
 * ')'.  Checked with --enforce-contract-rec: each recursive call is replaced
 * by the contract below, the other function of the pair by its own.
 *   - never SXS_FOUND_LIST; position <= n; nothing outside s[0..n) is read
 *   - success: a fresh non-NULL node, i < position, and position is just past
 *     the last octet of the expression (that octet is not whitespace: ')' for
 *     a list, a constituent for a symbol, a digit for an integer).  Input
 *     that holds nothing but whitespace is therefore never a success.
 *   - error: no node, or the fresh head of the partial list built so far
 *     (sx_parse destroys it); every node obtained is linked into the result.
 * The shape of the tree below its root is outside a non-recursive contract:
 * see the bounded targets (roundtrip_*, reject_*).  Termination: every
 * recursive call is made at a position > i (proved as postcondition
 * `i < position`) and positions are bounded by n; CBMC has no `decreases`
 * for recursion, so that argument is stated, not machine-checked. */
static inline bool sx_expr_post(const char *s, size_t n, size_t i, struct sx_parse_result r, bool list_tail)
{
  const enum sx_status st = r.status;
  const size_t p = r.position;
  if (!(st == SXS_SUCCESS || st == SXS_BROKEN_INTEGER || st == SXS_BROKEN_SYMBOL
        || st == SXS_UNKNOWN_INPUT || st == SXS_UNEXPECTED_END)) return false;
  if (p > n) return false;
  if (st != SXS_SUCCESS) return r.node == NULL || r.node->type == SXT_PAIR;
  if (r.node == NULL || !(i < p)) return false;
  const enum sx_node_type ty = r.node->type;
  const char last = s[p - 1];
  if (ty == SXT_PAIR || ty == SXT_EMPTY_LIST) return last == ')';
  if (list_tail) return false;                    /* the rest of a list is a list */
  if (ty == SXT_SYMBOL) return SPEC_SX_ISSYMCH(last);
  return ty == SXT_INTEGER && SPEC_SX_ISXDIGIT(last);
}

/* exactly (input length <= SX_QMAX): the tables E / L of spec/sx.h say where
 * the expression / the rest of the list ends, or that there is none */
static inline enum sx_node_type sx_tail_root_type(const char *s, size_t n, size_t k)
{
  const size_t j = g_sxW[k];
  return (j < n && s[j] == ')') ? SXT_EMPTY_LIST : SXT_PAIR;
}
static inline enum sx_node_type sx_expr_root_type(const char *s, size_t n, size_t j)
{
  const int c = spec_sx_looking_at(s, n, j);
  if (c == SPEC_SX_AT_SYMBOL) return SXT_SYMBOL;
  if (c == SPEC_SX_AT_OPEN) return sx_tail_root_type(s, n, j + 1);
  return SXT_INTEGER;
}
/* sx_parse_: a closing parenthesis is reported as an empty-list node (it is
 * the terminator that sx_parse_list consumes and that sx_parse rejects) */
static inline bool sx_expr_post_exact(const char *s, size_t n, size_t i, struct sx_parse_result r)
{
  const size_t j = g_sxW[i];
  if (j < n && s[j] == ')')
    return r.status == SXS_SUCCESS && r.node != NULL && r.node->type == SXT_EMPTY_LIST && r.position == j + 1;
  const size_t e = g_sxE[i];
  if (e > n) return r.status != SXS_SUCCESS;
  return r.status == SXS_SUCCESS && r.node != NULL && r.position == e
         && r.node->type == sx_expr_root_type(s, n, j);
}
/* sx_parse_list: the list is the expression at i consed onto the rest of the
 * list behind it -- the induction step of "the tree is the expression" */
static inline bool sx_tail_post_exact(const char *s, size_t n, size_t i, struct sx_parse_result r)
{
  const size_t e = g_sxL[i];
  if (e > n) return r.status != SXS_SUCCESS;
  if (!(r.status == SXS_SUCCESS && r.node != NULL && r.position == e)) return false;
  const enum sx_node_type ty = sx_tail_root_type(s, n, i);
  if (r.node->type != ty) return false;
  if (ty == SXT_EMPTY_LIST) return true;
  const struct sx_node *car = r.node->data.pair->car, *cdr = r.node->data.pair->cdr;
  if (car == NULL || cdr == NULL) return false;
  const enum sx_node_type car_type = car->type, cdr_type = cdr->type;
  const enum sx_node_type car_want = sx_expr_root_type(s, n, g_sxW[i]);
  const enum sx_node_type cdr_want = sx_tail_root_type(s, n, g_sxE[i]);
  return car_type == car_want && cdr_type == cdr_want;
}
#define SX_IS_PAIR_RESULT(r) ((r).status == SXS_SUCCESS && (r).node != NULL && (r).node->type == SXT_PAIR)

static struct sx_parse_result sx_parse_(const char *s, size_t n, size_t i)
__CPROVER_requires(__CPROVER_r_ok(s, n) && i <= n)
SX_TABS_REQUIRES(s, n)
__CPROVER_assigns(g_sx_live)
__CPROVER_ensures(IMPLIES(SX_RV.node != NULL, SX_NODE_FRESH(SX_RV.node)))
__CPROVER_ensures(sx_expr_post(s, n, i, SX_RV, false))
/* no node returned => no block retained (whatever was obtained is linked
 * into the returned partial tree, never dropped) */
__CPROVER_ensures(IMPLIES(SX_RV.node == NULL, g_sx_live == __CPROVER_old(g_sx_live)))
__CPROVER_ensures(IMPLIES(SX_GRAMMAR_OK(s, n), sx_expr_post_exact(s, n, i, SX_RV)))
;

static struct sx_parse_result sx_parse_list(const char *s, size_t n, size_t i)
__CPROVER_requires(__CPROVER_r_ok(s, n) && i <= n)
SX_TABS_REQUIRES(s, n)
__CPROVER_assigns(g_sx_live)
__CPROVER_ensures(IMPLIES(SX_RV.node != NULL, SX_NODE_FRESH(SX_RV.node)))
__CPROVER_ensures(sx_expr_post(s, n, i, SX_RV, true))
__CPROVER_ensures(IMPLIES(i >= n, SX_RV.status == SXS_UNEXPECTED_END && SX_RV.node == NULL))
__CPROVER_ensures(IMPLIES(SX_RV.node == NULL, g_sx_live == __CPROVER_old(g_sx_live)))
/* a successfully read non-empty list: fresh pair cell, fresh children */
__CPROVER_ensures(IMPLIES(SX_IS_PAIR_RESULT(SX_RV),
    SX_FRESH(SX_RV.node->data.pair, sizeof(struct sx_pair))
    && SX_NODE_FRESH(SX_RV.node->data.pair->car) && SX_NODE_FRESH(SX_RV.node->data.pair->cdr)))
__CPROVER_ensures(IMPLIES(SX_GRAMMAR_OK(s, n), sx_tail_post_exact(s, n, i, SX_RV)))
;

/* ---- public entry points --------------------------------------------------
 * From the property statement: the input begins (after whitespace) with a
 * complete expression  <=>  SXS_SUCCESS; then a tree is returned whose root
 * is that expression's, and position is just past the expression.  Otherwise
 * an error status and NO tree.  position <= n, nothing outside s[0..n) is
 * read.  (sx_destroy is used through its contract; "nothing leaked" needs
 * the size of the partial tree and is decided by the bounded targets.) */
static inline bool sx_parse_post(const char *s, size_t n, size_t i, struct sx_parse_result r)
{
  const enum sx_status st = r.status;
  if (!(st == SXS_SUCCESS || st == SXS_BROKEN_INTEGER || st == SXS_BROKEN_SYMBOL
        || st == SXS_UNKNOWN_INPUT || st == SXS_UNEXPECTED_END)) return false;
  if (r.position > n) return false;
  if (st != SXS_SUCCESS) return r.node == NULL;
  return r.node != NULL && i < r.position && !SPEC_SX_ISSPACE(s[r.position - 1]);
}
static inline bool sx_parse_post_exact(const char *s, size_t n, size_t i, struct sx_parse_result r)
{
  const size_t e = g_sxE[i];
  if (e > n) return r.status != SXS_SUCCESS && r.node == NULL;
  return r.status == SXS_SUCCESS && r.node != NULL && r.position == e
         && r.node->type == sx_expr_root_type(s, n, g_sxW[i]);
}

/* every node and symbol of the tree is given back; the caller's pointer is
 * cleared.  The tree below *n must be one built by this module (constructors
 * / reader): a data-structure invariant that a non-recursive precondition
 * cannot state; targets sx_destroy_trees and whole_* exercise the real
 * function on real trees (tier B). */
void sx_destroy(struct sx_node **n)
__CPROVER_requires(__CPROVER_rw_ok(n, sizeof(*n)))
__CPROVER_assigns(*n, g_sx_live)
__CPROVER_ensures(*n == NULL)
;

struct sx_parse_result sx_parse(const char *s, const size_t n, const size_t i)
__CPROVER_requires(__CPROVER_r_ok(s, n) && i <= n)
SX_TABS_REQUIRES(s, n)
__CPROVER_assigns(g_sx_live)
__CPROVER_ensures(IMPLIES(SX_RV.node != NULL, SX_NODE_FRESH(SX_RV.node)))
__CPROVER_ensures(sx_parse_post(s, n, i, SX_RV))
__CPROVER_ensures(IMPLIES(SX_GRAMMAR_OK(s, n), sx_parse_post_exact(s, n, i, SX_RV)))
;

struct sx_parse_result sx_parse_stringn(const char *s, const size_t n)
__CPROVER_requires(__CPROVER_r_ok(s, n))
SX_TABS_REQUIRES(s, n)
__CPROVER_assigns(g_sx_live)
__CPROVER_ensures(IMPLIES(SX_RV.node != NULL, SX_NODE_FRESH(SX_RV.node)))
__CPROVER_ensures(sx_parse_post(s, n, 0, SX_RV))
__CPROVER_ensures(IMPLIES(SX_GRAMMAR_OK(s, n), sx_parse_post_exact(s, n, 0, SX_RV)))
;

/* NUL-terminated entry point: g_a is the length (the position of the first
 * NUL); the result is that of the length-delimited reader on s[0..g_a) */
struct sx_parse_result sx_parse_string(const char *s)
__CPROVER_requires(g_a <= SX_QMAX && __CPROVER_r_ok(s, g_a + 1) && s[g_a] == '\0')
__CPROVER_requires(__CPROVER_forall { size_t k_; (k_ < SX_QMAX) ==> ((k_ < g_a) ==> s[k_] != '\0') })
SX_TABS_REQUIRES(s, g_a)
__CPROVER_assigns(g_sx_live)
__CPROVER_ensures(IMPLIES(SX_RV.node != NULL, SX_NODE_FRESH(SX_RV.node)))
__CPROVER_ensures(sx_parse_post(s, g_a, 0, SX_RV))
__CPROVER_ensures(IMPLIES(SX_GRAMMAR_OK(s, g_a), sx_parse_post_exact(s, g_a, 0, SX_RV)))
;

#endif
