/* Contracts of the table-walking part of src/registers/core.c and of
 * src/registers/internal.h (properties C04, C03, C02).
 *
 * Layers
 *   1. leaf predicates: loop-free, BIT-PRECISE (the 32-bit wrap-around of the
 *      code's address arithmetic is part of the contract), no table-wide
 *      preconditions.  The mathematical reading (base <= a < base+size) is
 *      RB_A_HAS() of spec/registers-block.h; it coincides with the bit-precise
 *      one exactly for areas/registers whose end does not wrap (RB_A_NOWRAP /
 *      RB_E_NOWRAP, which table well-formedness supplies).
 *   2. walkers: ghost-index loop contracts (contracts/registers-core.loops):
 *      reg_count_areas, reg_count_entries, ra_find_area_by_addr,
 *      ra_first_entry_of_next, reg_entry_is_in_memory.
 *   3. register_init, block read/write, iteration: NOT through dfcc (see the
 *      note at the end of this file); their postconditions from the property
 *      statements are spec functions over a value model of the table
 *      (spec/registers-block.h) that the harness asserts right after the real
 *      call (harness/registers-block.c), discharged by bounded model checking.
 */
#ifndef CONTRACTS_REGISTERS_BLOCK_H
#define CONTRACTS_REGISTERS_BLOCK_H
#include "spec/registers-block.h"

#if VERIF_IS_NATIVE            /* object identity has no native reading: both claims hold */
#define RB_SAME_OBJECT(p, q) 1
#define RB_DISTINCT_OBJECT(p, q) 1
#else
#define RB_SAME_OBJECT(p, q) __CPROVER_same_object(p, q)
#define RB_DISTINCT_OBJECT(p, q) (!__CPROVER_same_object(p, q))
#endif
#define RB_INITIALISED(t) (((t)->flags & REG_TF_INITIALISED) != 0)
#define RB_BE(t) (((t)->flags & REG_TF_BIG_ENDIAN) != 0)
#define RB_AREA_R_OK(a) __CPROVER_r_ok((a), sizeof(RegisterArea))
#define RB_ENTRY_R_OK(e) __CPROVER_r_ok((e), sizeof(RegisterEntry))

/* ---- layer 1: leaf predicates (tier A) -------------------------------- */

static inline bool is_end_of_areas(RegisterArea *a)
__CPROVER_requires(RB_AREA_R_OK(a))
__CPROVER_assigns()
__CPROVER_ensures(__CPROVER_return_value == RB_AREA_IS_END(a))
;

static inline bool is_end_of_entries(RegisterEntry *e)
__CPROVER_requires(RB_ENTRY_R_OK(e))
__CPROVER_assigns()
__CPROVER_ensures(__CPROVER_return_value == RB_ENTRY_IS_END(e))
;

static inline size_t reg_min(size_t a, size_t b)
__CPROVER_assigns()
__CPROVER_ensures(__CPROVER_return_value == (a < b ? a : b))
;

static inline bool register_area_can_write(const RegisterArea *a)
__CPROVER_requires(RB_AREA_R_OK(a))
__CPROVER_assigns()
__CPROVER_ensures(__CPROVER_return_value == (a->write != NULL))
;

static inline bool register_area_is_writeable(const RegisterArea *a)
__CPROVER_requires(RB_AREA_R_OK(a))
__CPROVER_assigns()
__CPROVER_ensures(__CPROVER_return_value == RB_AREA_WRITABLE(a))
;

static inline bool register_area_is_readable(const RegisterArea *a)
__CPROVER_requires(RB_AREA_R_OK(a))
__CPROVER_assigns()
__CPROVER_ensures(__CPROVER_return_value == RB_AREA_READABLE(a))
;

/* bit-precise; equals RB_A_HAS(a, addr) when RB_A_NOWRAP(a) */
static bool ra_addr_is_part_of(RegisterArea *a, RegisterAddress addr)
__CPROVER_requires(RB_AREA_R_OK(a))
__CPROVER_assigns()
__CPROVER_ensures(__CPROVER_return_value == RB_PART_OF32(a, addr))
__CPROVER_ensures(IMPLIES(RB_A_NOWRAP(a), __CPROVER_return_value == RB_A_HAS(a, addr)))
;

static inline bool ra_reg_is_part_of(RegisterArea *a, RegisterEntry *e)
__CPROVER_requires(RB_AREA_R_OK(a) && RB_ENTRY_R_OK(e))
__CPROVER_assigns()
__CPROVER_ensures(__CPROVER_return_value == RB_PART_OF32(a, e->address))
;

static bool ra_reg_fits_into(RegisterArea *a, RegisterEntry *e)
__CPROVER_requires(RB_AREA_R_OK(a) && RB_ENTRY_R_OK(e) && RB_TYPE_IS_ENUM(e->type))
__CPROVER_assigns()
__CPROVER_ensures(__CPROVER_return_value == RB_FITS32(a, e))
__CPROVER_ensures(IMPLIES(RB_A_NOWRAP(a) && RB_E_NOWRAP(e) && RB_A_HAS(a, e->address),
    __CPROVER_return_value == RB_E_INSIDE(e, a)))
;

/* -1: area wholly below [addr, addr+n), +1: wholly above, 0: touched */
static inline int ra_range_touches(RegisterArea *a, RegisterAddress addr, RegisterOffset n)
__CPROVER_requires(RB_AREA_R_OK(a))
__CPROVER_assigns()
__CPROVER_ensures(__CPROVER_return_value == RB_RANGE_TOUCHES32(RB_A_END32(a), a->base, addr, n))
__CPROVER_ensures(IMPLIES(RB_A_NOWRAP(a) && RB_M64(addr) + RB_M64(n) <= 0xffffffffull,
    (__CPROVER_return_value == 0) == (RB_M64(a->base) < RB_M64(addr) + RB_M64(n) && RB_M64(addr) < RB_A_END(a))))
;

static inline int reg_range_touches(RegisterEntry *e, RegisterAddress addr, RegisterOffset n)
__CPROVER_requires(RB_ENTRY_R_OK(e) && RB_TYPE_IS_ENUM(e->type))
__CPROVER_assigns()
__CPROVER_ensures(__CPROVER_return_value == RB_RANGE_TOUCHES32(RB_E_END32(e), e->address, addr, n))
__CPROVER_ensures(IMPLIES(RB_E_NOWRAP(e) && n != 0 && RB_M64(addr) + RB_M64(n) <= 0xffffffffull,
    (__CPROVER_return_value == 0) == RB_E_OVERLAPS(e, addr, n)))
;

static bool need_to_load_default(const RegisterEntry *e)
__CPROVER_requires(RB_ENTRY_R_OK(e) && RB_AREA_R_OK(e->area))
__CPROVER_assigns()
__CPROVER_ensures(__CPROVER_return_value == RB_AREA_LOADS_DEFAULTS(e->area))
;

size_t register_entry_size(const RegisterEntry *e)
__CPROVER_requires(RB_ENTRY_R_OK(e) && RB_TYPE_IS_ENUM(e->type))
__CPROVER_assigns()
__CPROVER_ensures(__CPROVER_return_value == RB_WORDS(e->type))
;

/* ---- layer 2: walkers with ghost-index loop contracts (tier A) ----------
 * g_rb_na / g_rb_ne: position of A terminator in the list handed to the
 * counter (any one; the contract holds for every choice, a caller picks the
 * position it knows).  g_j: arbitrary index (universal statement). */
extern size_t g_rb_na, g_rb_ne;

static AreaHandle reg_count_areas(RegisterArea *a)
__CPROVER_requires(g_rb_na <= AREA_HANDLE_MAX)
__CPROVER_requires(__CPROVER_r_ok(a, (g_rb_na + 1) * sizeof(RegisterArea)))
__CPROVER_requires(RB_AREA_IS_END(&a[g_rb_na]))
__CPROVER_assigns()
/* the first terminator: nothing before it is one */
__CPROVER_ensures(__CPROVER_return_value <= g_rb_na)
__CPROVER_ensures(__CPROVER_return_value == AREA_HANDLE_MAX || RB_AREA_IS_END(&a[__CPROVER_return_value]))
__CPROVER_ensures(IMPLIES(g_j < __CPROVER_return_value, !RB_AREA_IS_END(&a[g_j])))
;

static RegisterHandle reg_count_entries(RegisterEntry *e)
__CPROVER_requires(g_rb_ne <= REGISTER_HANDLE_MAX)
__CPROVER_requires(__CPROVER_r_ok(e, (g_rb_ne + 1) * sizeof(RegisterEntry)))
__CPROVER_requires(RB_ENTRY_IS_END(&e[g_rb_ne]))
__CPROVER_assigns()
__CPROVER_ensures(__CPROVER_return_value <= g_rb_ne)
__CPROVER_ensures(__CPROVER_return_value == REGISTER_HANDLE_MAX || RB_ENTRY_IS_END(&e[__CPROVER_return_value]))
__CPROVER_ensures(IMPLIES(g_j < __CPROVER_return_value, !RB_ENTRY_IS_END(&e[g_j])))
;

/* first area (in list order) whose bit-precise address test holds, or areas */
static AreaHandle ra_find_area_by_addr(RegisterTable *t, RegisterAddress addr)
__CPROVER_requires(__CPROVER_r_ok(t, sizeof(RegisterTable)))
__CPROVER_requires(__CPROVER_r_ok(t->area, (size_t)t->areas * sizeof(RegisterArea)))
__CPROVER_assigns()
__CPROVER_ensures(__CPROVER_return_value <= t->areas)
__CPROVER_ensures(IMPLIES(__CPROVER_return_value < t->areas, RB_PART_OF32(&t->area[__CPROVER_return_value], addr)))
__CPROVER_ensures(IMPLIES(g_j < __CPROVER_return_value, !RB_PART_OF32(&t->area[g_j], addr)))
;

/* first register at or behind `start` whose address is not in area a */
static RegisterHandle ra_first_entry_of_next(RegisterTable *t, RegisterArea *a, RegisterHandle start)
__CPROVER_requires(__CPROVER_r_ok(t, sizeof(RegisterTable)) && RB_AREA_R_OK(a))
__CPROVER_requires(__CPROVER_r_ok(t->entry, (size_t)t->entries * sizeof(RegisterEntry)))
__CPROVER_assigns()
__CPROVER_ensures(IMPLIES(start <= t->entries, start <= __CPROVER_return_value && __CPROVER_return_value <= t->entries))
__CPROVER_ensures(IMPLIES(start > t->entries, __CPROVER_return_value == t->entries))
__CPROVER_ensures(IMPLIES(__CPROVER_return_value < t->entries,
    !RB_PART_OF32(a, t->entry[__CPROVER_return_value].address)))
__CPROVER_ensures(IMPLIES(start <= g_j && g_j < __CPROVER_return_value, RB_PART_OF32(a, t->entry[g_j].address)))
;

/* links a register to the FIRST area (in list order) whose bit-precise
 * address test accepts the register's address, provided the register also
 * fits into it; otherwise leaves the register alone.  (With disjoint areas
 * "first" is "the"; that is C04's layer-3 business.) */
static bool reg_entry_is_in_memory(RegisterTable *t, RegisterEntry *e)
__CPROVER_requires(__CPROVER_r_ok(t, sizeof(RegisterTable)))
__CPROVER_requires(__CPROVER_r_ok(t->area, (size_t)t->areas * sizeof(RegisterArea)))
__CPROVER_requires(__CPROVER_rw_ok(e, sizeof(RegisterEntry)) && RB_TYPE_IS_ENUM(e->type))
__CPROVER_requires(RB_DISTINCT_OBJECT(e, t) && RB_DISTINCT_OBJECT(e, t->area))
__CPROVER_assigns(e->area, e->offset)
__CPROVER_ensures(IMPLIES(__CPROVER_return_value,
    RB_SAME_OBJECT(e->area, t->area) && (size_t)(e->area - t->area) < t->areas
    && e->area == &t->area[(size_t)(e->area - t->area)]
    && RB_PART_OF32(e->area, e->address) && RB_FITS32(e->area, e)
    && e->offset == e->address - e->area->base))
__CPROVER_ensures(IMPLIES(__CPROVER_return_value && g_j < (size_t)(e->area - t->area),
    !RB_PART_OF32(&t->area[g_j], e->address)))
__CPROVER_ensures(IMPLIES(!__CPROVER_return_value,
    e->area == __CPROVER_old(e->area) && e->offset == __CPROVER_old(e->offset)))
/* refused: no area claims the address (ghost area g_j), or the first claimant is too small;
 * in particular the first area of the list is never passed over */
__CPROVER_ensures(IMPLIES(!__CPROVER_return_value && t->areas > 0,
    !(RB_PART_OF32(&t->area[0], e->address) && RB_FITS32(&t->area[0], e))))
__CPROVER_ensures(e->type == __CPROVER_old(e->type) && e->address == __CPROVER_old(e->address))
;

/* ---- ghost record: expected outcomes computed by the spec functions ---- */
struct rb_ghost {
  uint32_t na, ne;                  /* positions of the list terminators of the description */
  /* C04 */
  struct rb_init_expect init;       /* rb_spec_first_violation(model before the call) */
};
extern struct rb_ghost g_rb;


/* ---- C04: register_init ------------------------------------------------
 * Statement: succeeds exactly for the well-formed descriptions, otherwise
 * names the first violated rule and its offender and leaves the table
 * uninitialised; after success the table is well-formed (every area records
 * exactly its run of registers), every word of a memory-backed area is the
 * image word of the default located there (areas that load defaults) or zero,
 * and the description itself is unchanged.
 * register_init, register_block_read/write and register_foreach_in are NOT
 * checked through `goto-instrument --dfcc`: measured here, the write-set
 * instrumentation of a function that walks the whole table made the query
 * 3-5 times larger than the un-instrumented whole stack and did not finish
 * (2 areas x 2 registers: > 15 min).  Their postconditions, written from the
 * statement as spec functions over the value model of the table
 * (spec/registers-block.h), are asserted by the harness right after the real
 * call (RB_INIT_POST etc. in harness/registers-block.c) and discharged by
 * bounded model checking of the real code: tier B.  The frame is covered by
 * "unchanged" clauses over every list element and every stored word plus the
 * exact-size blocks. */

#endif
