/* Contracts of the table-walking part of src/registers/core.c and of
 * src/registers/internal.h (properties C04, C03, C02).
 *
 * Layers
 *   1. leaf predicates: loop-free, BIT-PRECISE (the 32-bit wrap-around of the
 *      code's address arithmetic is part of the contract), no table-wide
 *      preconditions.  The mathematical reading (base <= a < base+size) is
 *      RB_A_HAS() of spec/registers-block.h; it coincides with the bit-precise
 *      one exactly for areas/registers whose end does not wrap (RB_A_NOWRAP /
 *      RB_E_NOWRAP, which table well-formedness supplies).
 *   2. walkers: ghost-index loop contracts (contracts/registers-core.loops).
 *   3. register_init, block read/write, iteration: postconditions from the
 *      property statements; the expected outcome is computed by the spec
 *      functions of spec/registers-block.h in the harness and handed to the
 *      contract in the ghost record g_rb (enforce-only contracts).
 */
#ifndef CONTRACTS_REGISTERS_BLOCK_H
#define CONTRACTS_REGISTERS_BLOCK_H
#include "spec/registers-block.h"

#define RB_U32(x) ((uint32_t)(x))
/* the code's (wrapping) end of an area / a register */
#define RB_A_END32(a) RB_U32((a)->base + (a)->size)
#define RB_E_END32(e) RB_U32((e)->address + RB_WORDS((e)->type))
#define RB_A_NOWRAP(a) (RB_A_END(a) <= 0xffffffffull)
#define RB_E_NOWRAP(e) (RB_E_END(e) <= 0xffffffffull)
#define RB_AREA_R_OK(a) __CPROVER_r_ok((a), sizeof(RegisterArea))
#define RB_ENTRY_R_OK(e) __CPROVER_r_ok((e), sizeof(RegisterEntry))

/* ---- layer 1: leaf predicates (tier A) -------------------------------- */

static inline bool is_end_of_areas(RegisterArea *a)
__CPROVER_requires(RB_AREA_R_OK(a))
__CPROVER_assigns()
__CPROVER_ensures(__CPROVER_return_value == RB_AREA_IS_END(a))
;

static inline bool is_end_of_entries(RegisterEntry *e)
__CPROVER_requires(RB_ENTRY_R_OK(e))
__CPROVER_assigns()
__CPROVER_ensures(__CPROVER_return_value == RB_ENTRY_IS_END(e))
;

static inline size_t reg_min(size_t a, size_t b)
__CPROVER_assigns()
__CPROVER_ensures(__CPROVER_return_value == (a < b ? a : b))
;

static inline bool register_area_can_write(const RegisterArea *a)
__CPROVER_requires(RB_AREA_R_OK(a))
__CPROVER_assigns()
__CPROVER_ensures(__CPROVER_return_value == (a->write != NULL))
;

static inline bool register_area_is_writeable(const RegisterArea *a)
__CPROVER_requires(RB_AREA_R_OK(a))
__CPROVER_assigns()
__CPROVER_ensures(__CPROVER_return_value == RB_AREA_WRITABLE(a))
;

static inline bool register_area_is_readable(const RegisterArea *a)
__CPROVER_requires(RB_AREA_R_OK(a))
__CPROVER_assigns()
__CPROVER_ensures(__CPROVER_return_value == RB_AREA_READABLE(a))
;

/* bit-precise; equals RB_A_HAS(a, addr) when RB_A_NOWRAP(a) */
#define RB_PART_OF32(a, addr) ((a)->base <= (addr) && !(RB_A_END32(a) <= (addr)))
static bool ra_addr_is_part_of(RegisterArea *a, RegisterAddress addr)
__CPROVER_requires(RB_AREA_R_OK(a))
__CPROVER_assigns()
__CPROVER_ensures(__CPROVER_return_value == RB_PART_OF32(a, addr))
__CPROVER_ensures(IMPLIES(RB_A_NOWRAP(a), __CPROVER_return_value == RB_A_HAS(a, addr)))
;

static inline bool ra_reg_is_part_of(RegisterArea *a, RegisterEntry *e)
__CPROVER_requires(RB_AREA_R_OK(a) && RB_ENTRY_R_OK(e))
__CPROVER_assigns()
__CPROVER_ensures(__CPROVER_return_value == RB_PART_OF32(a, e->address))
;

#define RB_FITS32(a, e) (RB_E_END32(e) <= RB_A_END32(a))
static bool ra_reg_fits_into(RegisterArea *a, RegisterEntry *e)
__CPROVER_requires(RB_AREA_R_OK(a) && RB_ENTRY_R_OK(e) && RB_TYPE_IS_ENUM(e->type))
__CPROVER_assigns()
__CPROVER_ensures(__CPROVER_return_value == RB_FITS32(a, e))
__CPROVER_ensures(IMPLIES(RB_A_NOWRAP(a) && RB_E_NOWRAP(e) && RB_A_HAS(a, e->address),
    __CPROVER_return_value == RB_E_INSIDE(e, a)))
;

/* -1: area wholly below [addr, addr+n), +1: wholly above, 0: touched */
#define RB_RANGE_TOUCHES32(end32, start, addr, n) \
  (((end32) <= (addr)) ? -1 : ((RB_U32((addr) + (n)) <= (start)) ? 1 : 0))
static inline int ra_range_touches(RegisterArea *a, RegisterAddress addr, RegisterOffset n)
__CPROVER_requires(RB_AREA_R_OK(a))
__CPROVER_assigns()
__CPROVER_ensures(__CPROVER_return_value == RB_RANGE_TOUCHES32(RB_A_END32(a), a->base, addr, n))
__CPROVER_ensures(IMPLIES(RB_A_NOWRAP(a) && RB_M64(addr) + RB_M64(n) <= 0xffffffffull,
    (__CPROVER_return_value == 0) == (RB_M64(a->base) < RB_M64(addr) + RB_M64(n) && RB_M64(addr) < RB_A_END(a))))
;

static inline int reg_range_touches(RegisterEntry *e, RegisterAddress addr, RegisterOffset n)
__CPROVER_requires(RB_ENTRY_R_OK(e) && RB_TYPE_IS_ENUM(e->type))
__CPROVER_assigns()
__CPROVER_ensures(__CPROVER_return_value == RB_RANGE_TOUCHES32(RB_E_END32(e), e->address, addr, n))
__CPROVER_ensures(IMPLIES(RB_E_NOWRAP(e) && RB_M64(addr) + RB_M64(n) <= 0xffffffffull,
    (__CPROVER_return_value == 0) == RB_E_OVERLAPS(e, addr, n)))
;

static bool need_to_load_default(const RegisterEntry *e)
__CPROVER_requires(RB_ENTRY_R_OK(e) && RB_AREA_R_OK(e->area))
__CPROVER_assigns()
__CPROVER_ensures(__CPROVER_return_value == RB_AREA_LOADS_DEFAULTS(e->area))
;

size_t register_entry_size(const RegisterEntry *e)
__CPROVER_requires(RB_ENTRY_R_OK(e) && RB_TYPE_IS_ENUM(e->type))
__CPROVER_assigns()
__CPROVER_ensures(__CPROVER_return_value == RB_WORDS(e->type))
;

/* ---- ghost record: expected outcomes computed by the spec functions ---- */
struct rb_ghost {
  /* the table description as handed to the function under proof */
  uint32_t na, ne;                  /* positions of the list terminators */
  const RegisterArea *area0;        /* snapshot of the area list before the call */
  const RegisterEntry *entry0;      /* snapshot of the register list before the call */
  /* C04 */
  struct rb_init_expect init;       /* rb_spec_first_violation(description) */
};
extern struct rb_ghost g_rb;

#define RB_INITIALISED(t) (((t)->flags & REG_TF_INITIALISED) != 0)
#define RB_BE(t) (((t)->flags & REG_TF_BIG_ENDIAN) != 0)

/* ---- C04: register_init ------------------------------------------------
 * Statement: succeeds exactly for the well-formed descriptions, otherwise
 * names the first violated rule and its offender (g_rb.init, computed by
 * rb_spec_first_violation) and leaves the table uninitialised; after success
 * the table is well-formed (rb_table_wf: every area records exactly its run of
 * registers), every word of a memory-backed area is the image word of the
 * default located there (areas that load defaults) or zero, and the
 * description itself is unchanged.  The clauses are spec FUNCTIONS with
 * constant-bounded loops over the table dimension (tier B); g_rb is filled by
 * the harness from the spec functions (enforce-only contract). */
#define RB_ASSIGN_MEM(t, i) \
    (i) < g_rb.na && (t)->area[i].mem != NULL: __CPROVER_object_upto((t)->area[i].mem, (t)->area[i].size * sizeof(RegisterAtom))

RegisterInit register_init(RegisterTable *t)
__CPROVER_requires(__CPROVER_rw_ok(t, sizeof(RegisterTable)) && t->area != NULL && t->entry != NULL)
__CPROVER_requires(g_rb.na <= RB_NA && g_rb.ne <= RB_NE)
__CPROVER_requires(__CPROVER_rw_ok(t->area, (g_rb.na + 1) * sizeof(RegisterArea)))
__CPROVER_requires(__CPROVER_rw_ok(t->entry, (g_rb.ne + 1) * sizeof(RegisterEntry)))
__CPROVER_requires(RB_AREA_IS_END(&t->area[g_rb.na]) && RB_ENTRY_IS_END(&t->entry[g_rb.ne]))
__CPROVER_assigns(t->flags, t->areas, t->entries, st_wr_verdict;
    g_rb.na > 0: __CPROVER_object_upto(t->area, g_rb.na * sizeof(RegisterArea));
    g_rb.ne > 0: __CPROVER_object_upto(t->entry, g_rb.ne * sizeof(RegisterEntry));
    RB_ASSIGN_MEM(t, 0); RB_ASSIGN_MEM(t, 1); RB_ASSIGN_MEM(t, 2); RB_ASSIGN_MEM(t, 3); RB_ASSIGN_MEM(t, 4); RB_ASSIGN_MEM(t, 5))
/* verdict: the first violated rule and its offender, or success */
__CPROVER_ensures(rb_init_verdict_ok(__CPROVER_return_value, g_rb.init))
/* failure: the table stays uninitialised */
__CPROVER_ensures(IMPLIES(g_rb.init.code != REG_INIT_SUCCESS, !RB_INITIALISED(t)))
/* success: initialised, dimensions recorded, init phase over */
__CPROVER_ensures(IMPLIES(g_rb.init.code == REG_INIT_SUCCESS,
    RB_INITIALISED(t) && (t->flags & REG_TF_DURING_INIT) == 0 && t->areas == g_rb.na && t->entries == g_rb.ne))
/* byte order kept, lists not re-seated, description unchanged */
__CPROVER_ensures(RB_BE(t) == ((__CPROVER_old(t->flags) & REG_TF_BIG_ENDIAN) != 0))
__CPROVER_ensures(t->area == __CPROVER_old(t->area) && t->entry == __CPROVER_old(t->entry))
__CPROVER_ensures(rb_description_same(t, g_rb.area0, g_rb.na, g_rb.entry0, g_rb.ne))
/* success: well-formed, each area records its run */
__CPROVER_ensures(IMPLIES(g_rb.init.code == REG_INIT_SUCCESS, rb_table_wf(t)))
/* success: defaults loaded, everything else zero */
__CPROVER_ensures(IMPLIES(g_rb.init.code == REG_INIT_SUCCESS, rb_init_words_ok(t, g_rb.na, g_rb.ne, RB_BE(t))))
;

#endif
