/* Contracts of the table-walking part of src/registers/core.c and of
 * src/registers/internal.h (properties C04, C03, C02).
 *
 * Layers
 *   1. leaf predicates: loop-free, BIT-PRECISE (the 32-bit wrap-around of the
 *      code's address arithmetic is part of the contract), no table-wide
 *      preconditions.  The mathematical reading (base <= a < base+size) is
 *      RB_A_HAS() of spec/registers-block.h; it coincides with the bit-precise
 *      one exactly for areas/registers whose end does not wrap (RB_A_NOWRAP /
 *      RB_E_NOWRAP, which table well-formedness supplies).
 *   2. walkers: ghost-index loop contracts (contracts/registers-core.loops):
 *      reg_count_areas, reg_count_entries, ra_find_area_by_addr,
 *      ra_first_entry_of_next, reg_entry_is_in_memory.
 *   2b. walkers of block access and iteration (builder regblock2): dfcc function
 *      contracts + loop contracts, tables capped in length (tier A-len) but any
 *      number of loop iterations: register_block_touches_hole, ra_writeable,
 *      reg_taint_in_range, find_area (tier A), find_reg, reg_iterate.  Their
 *      postconditions are the flat address-space statements of C02/C03 on a
 *      plain-value map of the table (g_rb_ab/g_rb_ae/..., spec/registers-block.h)
 *      that the requires clauses tie to the real lists.
 *   3. register_init, block read/write, iteration: NOT through dfcc (see the
 *      note at the end of this file); their postconditions from the property
 *      statements are spec functions over a value model of the table
 *      (spec/registers-block.h) that the harness asserts right after the real
 *      call (harness/registers-block.c), discharged by bounded model checking.
 *      A contract of register_foreach_in over the walker contracts is written
 *      down below (layer 3a) but NOT discharged and not used by replacement.
 */
#ifndef CONTRACTS_REGISTERS_BLOCK_H
#define CONTRACTS_REGISTERS_BLOCK_H
#include "spec/registers-block.h"

#if VERIF_IS_NATIVE            /* object identity has no native reading: both claims hold */
#define RB_SAME_OBJECT(p, q) 1
#define RB_DISTINCT_OBJECT(p, q) 1
#else
#define RB_SAME_OBJECT(p, q) __CPROVER_same_object(p, q)
#define RB_DISTINCT_OBJECT(p, q) (!__CPROVER_same_object(p, q))
#endif
#define RB_INITIALISED(t) (((t)->flags & REG_TF_INITIALISED) != 0)
#define RB_BE(t) (((t)->flags & REG_TF_BIG_ENDIAN) != 0)
#define RB_AREA_R_OK(a) __CPROVER_r_ok((a), sizeof(RegisterArea))
#define RB_ENTRY_R_OK(e) __CPROVER_r_ok((e), sizeof(RegisterEntry))

/* ---- layer 1: leaf predicates (tier A) -------------------------------- */

static inline bool is_end_of_areas(RegisterArea *a)
__CPROVER_requires(RB_AREA_R_OK(a))
__CPROVER_assigns()
__CPROVER_ensures(__CPROVER_return_value == RB_AREA_IS_END(a))
;

static inline bool is_end_of_entries(RegisterEntry *e)
__CPROVER_requires(RB_ENTRY_R_OK(e))
__CPROVER_assigns()
__CPROVER_ensures(__CPROVER_return_value == RB_ENTRY_IS_END(e))
;

static inline size_t reg_min(size_t a, size_t b)
__CPROVER_assigns()
__CPROVER_ensures(__CPROVER_return_value == (a < b ? a : b))
;

static inline bool register_area_can_write(const RegisterArea *a)
__CPROVER_requires(RB_AREA_R_OK(a))
__CPROVER_assigns()
__CPROVER_ensures(__CPROVER_return_value == (a->write != NULL))
;

static inline bool register_area_is_writeable(const RegisterArea *a)
__CPROVER_requires(RB_AREA_R_OK(a))
__CPROVER_assigns()
__CPROVER_ensures(__CPROVER_return_value == RB_AREA_WRITABLE(a))
;

static inline bool register_area_is_readable(const RegisterArea *a)
__CPROVER_requires(RB_AREA_R_OK(a))
__CPROVER_assigns()
__CPROVER_ensures(__CPROVER_return_value == RB_AREA_READABLE(a))
;

/* bit-precise; equals RB_A_HAS(a, addr) when RB_A_NOWRAP(a) */
static bool ra_addr_is_part_of(RegisterArea *a, RegisterAddress addr)
__CPROVER_requires(RB_AREA_R_OK(a))
__CPROVER_assigns()
__CPROVER_ensures(__CPROVER_return_value == RB_PART_OF32(a, addr))
__CPROVER_ensures(IMPLIES(RB_A_NOWRAP(a), __CPROVER_return_value == RB_A_HAS(a, addr)))
;

static inline bool ra_reg_is_part_of(RegisterArea *a, RegisterEntry *e)
__CPROVER_requires(RB_AREA_R_OK(a) && RB_ENTRY_R_OK(e))
__CPROVER_assigns()
__CPROVER_ensures(__CPROVER_return_value == RB_PART_OF32(a, e->address))
;

static bool ra_reg_fits_into(RegisterArea *a, RegisterEntry *e)
__CPROVER_requires(RB_AREA_R_OK(a) && RB_ENTRY_R_OK(e) && RB_TYPE_IS_ENUM(e->type))
__CPROVER_assigns()
__CPROVER_ensures(__CPROVER_return_value == RB_FITS32(a, e))
__CPROVER_ensures(IMPLIES(RB_A_NOWRAP(a) && RB_E_NOWRAP(e) && RB_A_HAS(a, e->address),
    __CPROVER_return_value == RB_E_INSIDE(e, a)))
;

/* -1: area wholly below [addr, addr+n), +1: wholly above, 0: touched */
static inline int ra_range_touches(RegisterArea *a, RegisterAddress addr, RegisterOffset n)
__CPROVER_requires(RB_AREA_R_OK(a))
__CPROVER_assigns()
__CPROVER_ensures(__CPROVER_return_value == RB_RANGE_TOUCHES32(RB_A_END32(a), a->base, addr, n))
__CPROVER_ensures(IMPLIES(RB_A_NOWRAP(a) && RB_M64(addr) + RB_M64(n) <= 0xffffffffull,
    (__CPROVER_return_value == 0) == (RB_M64(a->base) < RB_M64(addr) + RB_M64(n) && RB_M64(addr) < RB_A_END(a))))
;

static inline int reg_range_touches(RegisterEntry *e, RegisterAddress addr, RegisterOffset n)
__CPROVER_requires(RB_ENTRY_R_OK(e) && RB_TYPE_IS_ENUM(e->type))
__CPROVER_assigns()
__CPROVER_ensures(__CPROVER_return_value == RB_RANGE_TOUCHES32(RB_E_END32(e), e->address, addr, n))
__CPROVER_ensures(IMPLIES(RB_E_NOWRAP(e) && n != 0 && RB_M64(addr) + RB_M64(n) <= 0xffffffffull,
    (__CPROVER_return_value == 0) == RB_E_OVERLAPS(e, addr, n)))
;

static bool need_to_load_default(const RegisterEntry *e)
__CPROVER_requires(RB_ENTRY_R_OK(e) && RB_AREA_R_OK(e->area))
__CPROVER_assigns()
__CPROVER_ensures(__CPROVER_return_value == RB_AREA_LOADS_DEFAULTS(e->area))
;

size_t register_entry_size(const RegisterEntry *e)
__CPROVER_requires(RB_ENTRY_R_OK(e) && RB_TYPE_IS_ENUM(e->type))
__CPROVER_assigns()
__CPROVER_ensures(__CPROVER_return_value == RB_WORDS(e->type))
;

/* ---- layer 2: walkers with ghost-index loop contracts (tier A) ----------
 * g_rb_na / g_rb_ne: position of A terminator in the list handed to the
 * counter (any one; the contract holds for every choice, a caller picks the
 * position it knows).  g_j: arbitrary index (universal statement). */
extern size_t g_rb_na, g_rb_ne;

static AreaHandle reg_count_areas(RegisterArea *a)
__CPROVER_requires(g_rb_na <= AREA_HANDLE_MAX)
__CPROVER_requires(__CPROVER_r_ok(a, (g_rb_na + 1) * sizeof(RegisterArea)))
__CPROVER_requires(RB_AREA_IS_END(&a[g_rb_na]))
__CPROVER_assigns()
/* the first terminator: nothing before it is one */
__CPROVER_ensures(__CPROVER_return_value <= g_rb_na)
__CPROVER_ensures(__CPROVER_return_value == AREA_HANDLE_MAX || RB_AREA_IS_END(&a[__CPROVER_return_value]))
__CPROVER_ensures(IMPLIES(g_j < __CPROVER_return_value, !RB_AREA_IS_END(&a[g_j])))
;

static RegisterHandle reg_count_entries(RegisterEntry *e)
__CPROVER_requires(g_rb_ne <= REGISTER_HANDLE_MAX)
__CPROVER_requires(__CPROVER_r_ok(e, (g_rb_ne + 1) * sizeof(RegisterEntry)))
__CPROVER_requires(RB_ENTRY_IS_END(&e[g_rb_ne]))
__CPROVER_assigns()
__CPROVER_ensures(__CPROVER_return_value <= g_rb_ne)
__CPROVER_ensures(__CPROVER_return_value == REGISTER_HANDLE_MAX || RB_ENTRY_IS_END(&e[__CPROVER_return_value]))
__CPROVER_ensures(IMPLIES(g_j < __CPROVER_return_value, !RB_ENTRY_IS_END(&e[g_j])))
;

/* first area (in list order) whose bit-precise address test holds, or areas */
static AreaHandle ra_find_area_by_addr(RegisterTable *t, RegisterAddress addr)
__CPROVER_requires(__CPROVER_r_ok(t, sizeof(RegisterTable)))
__CPROVER_requires(__CPROVER_r_ok(t->area, (size_t)t->areas * sizeof(RegisterArea)))
__CPROVER_assigns()
__CPROVER_ensures(__CPROVER_return_value <= t->areas)
__CPROVER_ensures(IMPLIES(__CPROVER_return_value < t->areas, RB_PART_OF32(&t->area[__CPROVER_return_value], addr)))
__CPROVER_ensures(IMPLIES(g_j < __CPROVER_return_value, !RB_PART_OF32(&t->area[g_j], addr)))
/* the same for every index at once when the list is short (for callers whose
 * own loop variable plays the role of the index).  Compiled in for the
 * A-len targets only (RB_SHORT_TABLES): target walk_ra_find_area_by_addr_short. */
__CPROVER_ensures(RB_FIND_NONE_BELOW(t, __CPROVER_return_value, addr))
;

/* first register at or behind `start` whose address is not in area a */
static RegisterHandle ra_first_entry_of_next(RegisterTable *t, RegisterArea *a, RegisterHandle start)
__CPROVER_requires(__CPROVER_r_ok(t, sizeof(RegisterTable)) && RB_AREA_R_OK(a))
__CPROVER_requires(__CPROVER_r_ok(t->entry, (size_t)t->entries * sizeof(RegisterEntry)))
__CPROVER_assigns()
__CPROVER_ensures(IMPLIES(start <= t->entries, start <= __CPROVER_return_value && __CPROVER_return_value <= t->entries))
__CPROVER_ensures(IMPLIES(start > t->entries, __CPROVER_return_value == t->entries))
__CPROVER_ensures(IMPLIES(__CPROVER_return_value < t->entries,
    !RB_PART_OF32(a, t->entry[__CPROVER_return_value].address)))
__CPROVER_ensures(IMPLIES(start <= g_j && g_j < __CPROVER_return_value, RB_PART_OF32(a, t->entry[g_j].address)))
;

/* links a register to the FIRST area (in list order) whose bit-precise
 * address test accepts the register's address, provided the register also
 * fits into it; otherwise leaves the register alone.  (With disjoint areas
 * "first" is "the"; that is C04's layer-3 business.) */
static bool reg_entry_is_in_memory(RegisterTable *t, RegisterEntry *e)
__CPROVER_requires(__CPROVER_r_ok(t, sizeof(RegisterTable)))
__CPROVER_requires(__CPROVER_r_ok(t->area, (size_t)t->areas * sizeof(RegisterArea)))
__CPROVER_requires(__CPROVER_rw_ok(e, sizeof(RegisterEntry)) && RB_TYPE_IS_ENUM(e->type))
__CPROVER_requires(RB_DISTINCT_OBJECT(e, t) && RB_DISTINCT_OBJECT(e, t->area))
__CPROVER_assigns(e->area, e->offset)
__CPROVER_ensures(IMPLIES(__CPROVER_return_value,
    RB_SAME_OBJECT(e->area, t->area) && (size_t)(e->area - t->area) < t->areas
    && e->area == &t->area[(size_t)(e->area - t->area)]
    && RB_PART_OF32(e->area, e->address) && RB_FITS32(e->area, e)
    && e->offset == e->address - e->area->base))
__CPROVER_ensures(IMPLIES(__CPROVER_return_value && g_j < (size_t)(e->area - t->area),
    !RB_PART_OF32(&t->area[g_j], e->address)))
__CPROVER_ensures(IMPLIES(!__CPROVER_return_value,
    e->area == __CPROVER_old(e->area) && e->offset == __CPROVER_old(e->offset)))
/* refused: no area claims the address (ghost area g_j), or the first claimant is too small;
 * in particular the first area of the list is never passed over */
__CPROVER_ensures(IMPLIES(!__CPROVER_return_value && t->areas > 0,
    !(RB_PART_OF32(&t->area[0], e->address) && RB_FITS32(&t->area[0], e))))
__CPROVER_ensures(e->type == __CPROVER_old(e->type) && e->address == __CPROVER_old(e->address))
;

/* ---- layer 2b: walkers of block access and iteration (tier A-len) ---------
 * Tables with at most RB_AMAX areas / RB_EMAX registers; the area map
 * g_rb_an/g_rb_ab/g_rb_ae (spec/registers-block.h) is tied to the table by
 * RB_LINKED_A in every requires.  Further ghosts:
 *   g_k      arbitrary register index     g_rb_x   arbitrary address */
extern uint32_t g_rb_x;

#define RB_TABLE_AREAS_OK(t) \
  (__CPROVER_r_ok(t, sizeof(RegisterTable)) && (t)->areas <= RB_AMAX \
   && __CPROVER_r_ok((t)->area, (size_t)(t)->areas * sizeof(RegisterArea)))
#define RB_RV (__CPROVER_return_value)
#define RB_REQ_END(addr, n) (RB_M64(addr) + RB_M64(n))

/* C03/C02 "every addressed word is mapped ... otherwise the first unmapped
 * address": flat address-space reading, for EVERY request (addr, n) -- also one
 * whose end addr+n lies beyond the 32-bit address space: such a request can
 * never be all mapped (areas end inside the address space, so 0xffffffff is
 * never mapped).  The result is SUCCESS or NOENTRY; NOENTRY names an address
 * of the request that no area maps, and every address of the request below it
 * (all n on SUCCESS) is mapped.  g_rb_x: any address. */
RegisterAccess register_block_touches_hole(RegisterTable *t, RegisterAddress addr, RegisterOffset n)
__CPROVER_requires(RB_TABLE_AREAS_OK(t))
__CPROVER_requires(RB_LINKED_A(t))
__CPROVER_requires(RB_MAP_WF)
__CPROVER_assigns()
__CPROVER_ensures(RB_RV.code == REG_ACCESS_SUCCESS || RB_RV.code == REG_ACCESS_NOENTRY)
__CPROVER_ensures(IMPLIES(RB_RV.code == REG_ACCESS_SUCCESS, RB_RV.address == 0u && RB_REQ_END(addr, n) <= 0xffffffffull))
__CPROVER_ensures(IMPLIES(RB_RV.code == REG_ACCESS_NOENTRY,
    addr <= RB_RV.address && RB_M64(RB_RV.address) < RB_REQ_END(addr, n) && !RB_MAPPED(RB_RV.address)))
__CPROVER_ensures(IMPLIES(RB_RV.code == REG_ACCESS_NOENTRY && addr <= g_rb_x && g_rb_x < RB_RV.address, RB_MAPPED(g_rb_x)))
__CPROVER_ensures(IMPLIES(RB_RV.code == REG_ACCESS_SUCCESS && addr <= g_rb_x && RB_M64(g_rb_x) < RB_REQ_END(addr, n),
    RB_MAPPED(g_rb_x)))
;

/* C02 "every touched area is writable ... the first address inside the request
 * at which that failure arises": SUCCESS or READONLY; READONLY names an address
 * of the request that lies in an area that is not writable, and no address of
 * the request below it (none at all on SUCCESS) lies in such an area. */
static RegisterAccess ra_writeable(RegisterTable *t, RegisterAddress addr, RegisterOffset n)
__CPROVER_requires(RB_TABLE_AREAS_OK(t))
__CPROVER_requires(RB_LINKED_A(t))
__CPROVER_requires(RB_LINKED_AW(t))
__CPROVER_requires(RB_MAP_WF)
__CPROVER_requires(RB_MAP_SORTED)
__CPROVER_requires(n >= 1u && RB_REQ_END(addr, n) <= 0xffffffffull)
__CPROVER_assigns()
__CPROVER_ensures(RB_RV.code == REG_ACCESS_SUCCESS || RB_RV.code == REG_ACCESS_READONLY)
__CPROVER_ensures(IMPLIES(RB_RV.code == REG_ACCESS_SUCCESS, RB_RV.address == 0u))
__CPROVER_ensures(IMPLIES(RB_RV.code == REG_ACCESS_READONLY,
    addr <= RB_RV.address && RB_RV.address < RB_U32(addr + n) && RB_READONLY_AT(RB_RV.address)))
__CPROVER_ensures(IMPLIES(RB_RV.code == REG_ACCESS_READONLY && addr <= g_rb_x && g_rb_x < RB_RV.address, !RB_READONLY_AT(g_rb_x)))
__CPROVER_ensures(IMPLIES(RB_RV.code == REG_ACCESS_SUCCESS && addr <= g_rb_x && g_rb_x < RB_U32(addr + n), !RB_READONLY_AT(g_rb_x)))
/* the form register_block_write passes on: every area overlapping the request is writable */
__CPROVER_ensures(IMPLIES(RB_RV.code == REG_ACCESS_SUCCESS, RB_WRITABLE_BELOW(g_rb_an, addr, RB_U32(addr + n))))
;

/* C02 "the overlapped registers are marked touched" -- exactly those: register
 * g_k (any) carries the mark iff it overlaps [addr, addr+n) or carried it
 * before; nothing else of it changes.  g_rb_e0: the register before the call. */
extern RegisterEntry g_rb_e0;
extern uint16_t g_rb_f0;      /* flags of register g_k before the call */
#define RB_TABLE_ENTRIES_RW_OK(t) \
  (__CPROVER_r_ok(t, sizeof(RegisterTable)) && (t)->entries <= RB_EMAX \
   && __CPROVER_rw_ok((t)->entry, (size_t)(t)->entries * sizeof(RegisterEntry)) && RB_DISTINCT_OBJECT(t, (t)->entry))
#define RB_TABLE_ENTRIES_OK(t) \
  (__CPROVER_r_ok(t, sizeof(RegisterTable)) && (t)->entries <= RB_EMAX \
   && __CPROVER_r_ok((t)->entry, (size_t)(t)->entries * sizeof(RegisterEntry)))

static void reg_taint_in_range(RegisterTable *t, RegisterAddress addr, RegisterOffset n)
__CPROVER_requires(RB_TABLE_ENTRIES_RW_OK(t))
__CPROVER_requires(RB_LINKED_E(t))
__CPROVER_requires(RB_EMAP_SORTED_AT(g_k))
__CPROVER_requires(n >= 1u && RB_REQ_END(addr, n) <= 0xffffffffull)
__CPROVER_requires(IMPLIES(g_k < t->entries, t->entry[g_k].flags == g_rb_f0))
/* frame: nothing but the flags fields of the registers */
__CPROVER_assigns(RB_ALL_FLAGS_TGT(t))
__CPROVER_ensures(IMPLIES(g_k < t->entries && RB_ME_OVERLAPS(g_k, addr, RB_U32(addr + n)), t->entry[g_k].flags == (g_rb_f0 | REG_EF_TOUCHED)))
__CPROVER_ensures(IMPLIES(g_k < t->entries && !RB_ME_OVERLAPS(g_k, addr, RB_U32(addr + n)), t->entry[g_k].flags == g_rb_f0))
;

/* C03 iteration, step 1: the first area of [first, last] (list order) that claims addr */
static struct maybe_area find_area(const RegisterTable *t, AreaHandle first, AreaHandle last, RegisterAddress addr)
__CPROVER_requires(__CPROVER_r_ok(t, sizeof(RegisterTable)) && last < t->areas)
__CPROVER_requires(__CPROVER_r_ok(t->area, (size_t)t->areas * sizeof(RegisterArea)))
__CPROVER_assigns()
__CPROVER_ensures(IMPLIES(RB_RV.valid, first <= RB_RV.handle && RB_RV.handle <= last && RB_PART_OF32(&t->area[RB_RV.handle], addr)))
__CPROVER_ensures(IMPLIES(first <= g_j && g_j <= last && (!RB_RV.valid || g_j < RB_RV.handle), !RB_PART_OF32(&t->area[g_j], addr)))
__CPROVER_ensures(IMPLIES(first > last, !RB_RV.valid))
;

/* step 2: the first register of [first, last] that does not lie wholly below addr */
#define RB_EI(i) ((i) < 64u ? (i) : 64u)
static struct maybe_register find_reg(const RegisterTable *t, RegisterHandle first, RegisterHandle last, RegisterAddress addr)
__CPROVER_requires(RB_TABLE_ENTRIES_OK(t) && last < t->entries)
__CPROVER_requires(RB_ALL_ENTRIES_ENUM(t))
__CPROVER_assigns()
__CPROVER_ensures(IMPLIES(RB_RV.valid, first <= RB_RV.handle && RB_RV.handle <= last && !(RB_E_END32(&t->entry[RB_RV.handle]) <= addr)))
__CPROVER_ensures(IMPLIES(first <= g_k && g_k <= last && (!RB_RV.valid || g_k < RB_RV.handle), RB_E_END32(&t->entry[g_k]) <= addr))
__CPROVER_ensures(IMPLIES(first > last, !RB_RV.valid))
;

/* step 3: the callback (stub rb_stub_iter, stubs/register_area_callbacks.h) is
 * called for start, start+1, ... in this order (the stub flags any other
 * sequence, a wrong table/argument and a call after a non-zero result in
 * g_it_bad), every register visited begins at or below `end`, and the walk
 * stops only at a non-zero result, at the end of the list or at the first
 * register that begins behind `end`. */
static RegisterAccess reg_iterate(RegisterTable *t, RegisterHandle start, RegisterAddress end, registerCallback f, void *arg)
__CPROVER_requires(__CPROVER_r_ok(t, sizeof(RegisterTable)) && t->entries >= 1u)
__CPROVER_requires(__CPROVER_r_ok(t->entry, (size_t)t->entries * sizeof(RegisterEntry)))
__CPROVER_requires(f == rb_stub_iter && g_it_table == t && g_it_arg == arg && g_it_calls == 0u && !g_it_bad && !g_it_stopped)
__CPROVER_assigns(g_it_calls, g_it_first, g_it_bad, g_it_stopped, g_it_last_rc)
__CPROVER_ensures(!g_it_bad)
__CPROVER_ensures(IMPLIES(g_it_calls > 0u, g_it_first == start))
__CPROVER_ensures(RB_M64(start) + g_it_calls <= RB_M64(t->entries) || g_it_calls == 0u)
__CPROVER_ensures(IMPLIES(start <= g_k && RB_M64(g_k) < RB_M64(start) + g_it_calls, g_k < t->entries && t->entry[g_k].address <= end))
__CPROVER_ensures(IMPLIES(!g_it_stopped && RB_M64(start) + g_it_calls < RB_M64(t->entries), t->entry[start + g_it_calls].address > end))
__CPROVER_ensures(IMPLIES(g_it_stopped, g_it_calls > 0u && g_it_last_rc != 0))
__CPROVER_ensures(IMPLIES(g_it_stopped && g_it_last_rc < 0,
    RB_RV.code == REG_ACCESS_FAILURE && RB_RV.address == t->entry[start + g_it_calls - 1u].address))
__CPROVER_ensures(IMPLIES(!(g_it_stopped && g_it_last_rc < 0), RB_RV.code == REG_ACCESS_SUCCESS && RB_RV.address == 0u))
;

/* ---- layer 3a: callers, modular -- NOT DISCHARGED -----------------------------
 * register_foreach_in is loop-free once find_area / find_reg / reg_iterate are
 * replaced by their contracts, and the clauses below are what the statement
 * says; but the query (harness h_register_foreach_in_contract, 4 areas x 8
 * registers: 11.6 M clauses) did not finish in 5 minutes, so no target
 * enforces this contract and nothing uses it by replacement.  The property is
 * decided for register_foreach_in by the bounded target C03/foreach_in only. */

/* What register_init establishes (C04) as far as iteration relies on it, on the
 * area map / register map:  areas inside the 32-bit space; registers of value
 * type inside the 32-bit space, ascending and disjoint; an area that records
 * registers records a valid first handle, and every register before that
 * handle ends at or below the area's base (it is located in an earlier area). */
#define RB_RUNS_OK_AT(t, k) \
  RB_ALL_A(q_ru, IMPLIES(q_ru < g_rb_an && (t)->area[q_ru].entry.count > 0u, \
      (t)->area[q_ru].entry.first < g_rb_en && IMPLIES((k) < (t)->area[q_ru].entry.first, g_rb_ee[(k) < 64u ? (k) : 64u] <= g_rb_ab[q_ru])))
#define RB_ITER_TABLE_WF(t) \
  (RB_TABLE_AREAS_OK(t) && (t)->areas >= 1u && RB_LINKED_A(t) && RB_MAP_WF \
   && RB_TABLE_ENTRIES_OK(t) && RB_LINKED_E(t) && RB_EMAP_SORTED_AT(g_k) && RB_RUNS_OK_AT(t, g_k))
#define RB_STUB_FRESH(t, f, arg) \
  ((f) == rb_stub_iter && g_it_table == (t) && g_it_arg == (arg) && g_it_calls == 0u && !g_it_bad && !g_it_stopped)
#define RB_GK_OVERLAPS(addr, off) ((off) != 0u && g_k < g_rb_en && RB_ME_OVERLAPS(g_k < 64u ? g_k : 64u, addr, RB_U32((addr) + (off))))

/* C03 iteration: "calls the callback exactly for the registers that overlap the
 * range, in ascending order, stopping at the first non-zero callback result
 * (negative meaning failure at that register's address)"; C04: an
 * uninitialised table is reported as such and nothing is called.
 * The callback is the stub rb_stub_iter; !g_it_bad = the calls came with the
 * caller's table and argument, for g_it_first, g_it_first+1, ... without gaps,
 * and none after a non-zero result.  g_k: any register. */
RegisterAccess register_foreach_in(RegisterTable *t, RegisterAddress addr, RegisterOffset off, registerCallback f, void *arg)
__CPROVER_requires(__CPROVER_r_ok(t, sizeof(RegisterTable)))
__CPROVER_requires(IMPLIES(RB_INITIALISED(t), RB_TABLE_AREAS_OK(t) && t->areas >= 1u && RB_TABLE_ENTRIES_OK(t)))
__CPROVER_requires(IMPLIES(RB_INITIALISED(t), RB_LINKED_A(t)))
__CPROVER_requires(IMPLIES(RB_INITIALISED(t), RB_MAP_WF))
__CPROVER_requires(IMPLIES(RB_INITIALISED(t), RB_LINKED_E(t)))
__CPROVER_requires(IMPLIES(RB_INITIALISED(t), RB_EMAP_SORTED_AT(g_k)))
__CPROVER_requires(IMPLIES(RB_INITIALISED(t), RB_RUNS_OK_AT(t, g_k)))
__CPROVER_requires(RB_REQ_END(addr, off) <= 0xffffffffull)
__CPROVER_requires(RB_STUB_FRESH(t, f, arg))
__CPROVER_assigns(g_it_calls, g_it_first, g_it_bad, g_it_stopped, g_it_last_rc)
__CPROVER_ensures(IMPLIES(!RB_INITIALISED(t), RB_RV.code == REG_ACCESS_UNINITIALISED && g_it_calls == 0u))
__CPROVER_ensures(!g_it_bad)
/* only overlapping registers are visited */
__CPROVER_ensures(IMPLIES(RB_INITIALISED(t) && g_it_calls > 0u && g_it_first <= g_k && RB_M64(g_k) < RB_M64(g_it_first) + g_it_calls,
    RB_GK_OVERLAPS(addr, off)))
/* every overlapping register is visited, unless the callback stopped the walk before it */
__CPROVER_ensures(IMPLIES(RB_INITIALISED(t) && RB_GK_OVERLAPS(addr, off),
    g_it_calls > 0u && g_it_first <= g_k && (RB_M64(g_k) < RB_M64(g_it_first) + g_it_calls || g_it_stopped)))
__CPROVER_ensures(IMPLIES(g_it_stopped, g_it_calls > 0u && g_it_last_rc != 0))
__CPROVER_ensures(IMPLIES(RB_INITIALISED(t) && g_it_stopped && g_it_last_rc < 0,
    RB_RV.code == REG_ACCESS_FAILURE && RB_RV.address == g_rb_ea[RB_EI(g_it_first + g_it_calls - 1u)]))
__CPROVER_ensures(IMPLIES(RB_INITIALISED(t) && !(g_it_stopped && g_it_last_rc < 0), RB_RV.code == REG_ACCESS_SUCCESS))
;

/* ---- ghost record: expected outcomes computed by the spec functions ---- */
struct rb_ghost {
  uint32_t na, ne;                  /* positions of the list terminators of the description */
  /* C04 */
  struct rb_init_expect init;       /* rb_spec_first_violation(model before the call) */
};
extern struct rb_ghost g_rb;


/* ---- C04: register_init ------------------------------------------------
 * Statement: succeeds exactly for the well-formed descriptions, otherwise
 * names the first violated rule and its offender and leaves the table
 * uninitialised; after success the table is well-formed (every area records
 * exactly its run of registers), every word of a memory-backed area is the
 * image word of the default located there (areas that load defaults) or zero,
 * and the description itself is unchanged.
 * register_init, register_block_read/write and register_foreach_in are NOT
 * checked through `goto-instrument --dfcc`: measured here, the write-set
 * instrumentation of a function that walks the whole table made the query
 * 3-5 times larger than the un-instrumented whole stack and did not finish
 * (2 areas x 2 registers: > 15 min).  Their postconditions, written from the
 * statement as spec functions over the value model of the table
 * (spec/registers-block.h), are asserted by the harness right after the real
 * call (RB_INIT_POST etc. in harness/registers-block.c) and discharged by
 * bounded model checking of the real code: tier B.  The frame is covered by
 * "unchanged" clauses over every list element and every stored word plus the
 * exact-size blocks. */

#endif
