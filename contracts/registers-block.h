/* Contracts of the table-walking part of src/registers/core.c and of
 * src/registers/internal.h (properties C04, C03, C02).
 *
 * Layers
 *   1. leaf predicates: loop-free, BIT-PRECISE (the 32-bit wrap-around of the
 *      code's address arithmetic is part of the contract), no table-wide
 *      preconditions.  The mathematical reading (base <= a < base+size) is
 *      RB_A_HAS() of spec/registers-block.h; it coincides with the bit-precise
 *      one exactly for areas/registers whose end does not wrap (RB_A_NOWRAP /
 *      RB_E_NOWRAP, which table well-formedness supplies).
 *   2. walkers: ghost-index loop contracts (contracts/registers-core.loops).
 *   3. register_init, block read/write, iteration: postconditions from the
 *      property statements; the expected outcome is computed by the spec
 *      functions of spec/registers-block.h in the harness and handed to the
 *      contract in the ghost record g_rb (enforce-only contracts).
 */
#ifndef CONTRACTS_REGISTERS_BLOCK_H
#define CONTRACTS_REGISTERS_BLOCK_H
#include "spec/registers-block.h"

#define RB_U32(x) ((uint32_t)(x))
/* the code's (wrapping) end of an area / a register */
#define RB_A_END32(a) RB_U32((a)->base + (a)->size)
#define RB_E_END32(e) RB_U32((e)->address + RB_WORDS((e)->type))
#define RB_A_NOWRAP(a) (RB_A_END(a) <= 0xffffffffull)
#define RB_E_NOWRAP(e) (RB_E_END(e) <= 0xffffffffull)
#define RB_AREA_R_OK(a) __CPROVER_r_ok((a), sizeof(RegisterArea))
#define RB_ENTRY_R_OK(e) __CPROVER_r_ok((e), sizeof(RegisterEntry))

/* ---- layer 1: leaf predicates (tier A) -------------------------------- */

static inline bool is_end_of_areas(RegisterArea *a)
__CPROVER_requires(RB_AREA_R_OK(a))
__CPROVER_assigns()
__CPROVER_ensures(__CPROVER_return_value == RB_AREA_IS_END(a))
;

static inline bool is_end_of_entries(RegisterEntry *e)
__CPROVER_requires(RB_ENTRY_R_OK(e))
__CPROVER_assigns()
__CPROVER_ensures(__CPROVER_return_value == RB_ENTRY_IS_END(e))
;

static inline size_t reg_min(size_t a, size_t b)
__CPROVER_assigns()
__CPROVER_ensures(__CPROVER_return_value == (a < b ? a : b))
;

static inline bool register_area_can_write(const RegisterArea *a)
__CPROVER_requires(RB_AREA_R_OK(a))
__CPROVER_assigns()
__CPROVER_ensures(__CPROVER_return_value == (a->write != NULL))
;

static inline bool register_area_is_writeable(const RegisterArea *a)
__CPROVER_requires(RB_AREA_R_OK(a))
__CPROVER_assigns()
__CPROVER_ensures(__CPROVER_return_value == RB_AREA_WRITABLE(a))
;

static inline bool register_area_is_readable(const RegisterArea *a)
__CPROVER_requires(RB_AREA_R_OK(a))
__CPROVER_assigns()
__CPROVER_ensures(__CPROVER_return_value == RB_AREA_READABLE(a))
;

/* bit-precise; equals RB_A_HAS(a, addr) when RB_A_NOWRAP(a) */
#define RB_PART_OF32(a, addr) ((a)->base <= (addr) && !(RB_A_END32(a) <= (addr)))
static bool ra_addr_is_part_of(RegisterArea *a, RegisterAddress addr)
__CPROVER_requires(RB_AREA_R_OK(a))
__CPROVER_assigns()
__CPROVER_ensures(__CPROVER_return_value == RB_PART_OF32(a, addr))
__CPROVER_ensures(IMPLIES(RB_A_NOWRAP(a), __CPROVER_return_value == RB_A_HAS(a, addr)))
;

static inline bool ra_reg_is_part_of(RegisterArea *a, RegisterEntry *e)
__CPROVER_requires(RB_AREA_R_OK(a) && RB_ENTRY_R_OK(e))
__CPROVER_assigns()
__CPROVER_ensures(__CPROVER_return_value == RB_PART_OF32(a, e->address))
;

#define RB_FITS32(a, e) (RB_E_END32(e) <= RB_A_END32(a))
static bool ra_reg_fits_into(RegisterArea *a, RegisterEntry *e)
__CPROVER_requires(RB_AREA_R_OK(a) && RB_ENTRY_R_OK(e) && RB_TYPE_IS_ENUM(e->type))
__CPROVER_assigns()
__CPROVER_ensures(__CPROVER_return_value == RB_FITS32(a, e))
__CPROVER_ensures(IMPLIES(RB_A_NOWRAP(a) && RB_E_NOWRAP(e) && RB_A_HAS(a, e->address),
    __CPROVER_return_value == RB_E_INSIDE(e, a)))
;

/* -1: area wholly below [addr, addr+n), +1: wholly above, 0: touched */
#define RB_RANGE_TOUCHES32(end32, start, addr, n) \
  (((end32) <= (addr)) ? -1 : ((RB_U32((addr) + (n)) <= (start)) ? 1 : 0))
static inline int ra_range_touches(RegisterArea *a, RegisterAddress addr, RegisterOffset n)
__CPROVER_requires(RB_AREA_R_OK(a))
__CPROVER_assigns()
__CPROVER_ensures(__CPROVER_return_value == RB_RANGE_TOUCHES32(RB_A_END32(a), a->base, addr, n))
__CPROVER_ensures(IMPLIES(RB_A_NOWRAP(a) && RB_M64(addr) + RB_M64(n) <= 0xffffffffull,
    (__CPROVER_return_value == 0) == (RB_M64(a->base) < RB_M64(addr) + RB_M64(n) && RB_M64(addr) < RB_A_END(a))))
;

static inline int reg_range_touches(RegisterEntry *e, RegisterAddress addr, RegisterOffset n)
__CPROVER_requires(RB_ENTRY_R_OK(e) && RB_TYPE_IS_ENUM(e->type))
__CPROVER_assigns()
__CPROVER_ensures(__CPROVER_return_value == RB_RANGE_TOUCHES32(RB_E_END32(e), e->address, addr, n))
__CPROVER_ensures(IMPLIES(RB_E_NOWRAP(e) && RB_M64(addr) + RB_M64(n) <= 0xffffffffull,
    (__CPROVER_return_value == 0) == RB_E_OVERLAPS(e, addr, n)))
;

static bool need_to_load_default(const RegisterEntry *e)
__CPROVER_requires(RB_ENTRY_R_OK(e) && RB_AREA_R_OK(e->area))
__CPROVER_assigns()
__CPROVER_ensures(__CPROVER_return_value == RB_AREA_LOADS_DEFAULTS(e->area))
;

size_t register_entry_size(const RegisterEntry *e)
__CPROVER_requires(RB_ENTRY_R_OK(e) && RB_TYPE_IS_ENUM(e->type))
__CPROVER_assigns()
__CPROVER_ensures(__CPROVER_return_value == RB_WORDS(e->type))
;

/* ---- ghost record: expected outcomes computed by the spec functions ---- */

struct rb_ghost {
  /* the table description as handed to the function under proof */
  uint32_t na, ne;                  /* positions of the list terminators */
  const RegisterArea *area0;        /* snapshot of the area list before the call */
  const RegisterEntry *entry0;      /* snapshot of the register list before the call */
  /* C04 */
  struct rb_init_expect init;       /* rb_spec_first_violation(description) */
  uint16_t init_word;               /* rb_spec_init_word(description, g_a, g_k) */
};
extern struct rb_ghost g_rb;

/* ---- table well-formedness = what register_init establishes (C04) and
 * what block access and iteration rely on (C02, C03); stated per index */
#if VERIF_IS_NATIVE
#define RB_SAME_OBJECT(p, q) 1
#else
#define RB_SAME_OBJECT(p, q) __CPROVER_same_object(p, q)
#endif
#define RB_INITIALISED(t) (((t)->flags & REG_TF_INITIALISED) != 0)
#define RB_AI(t, e) ((size_t)((e)->area - (t)->area))
#define RB_WF_AREA(t, i) IMPLIES((i) < (t)->areas, \
    (t)->area[i].size >= 1 && RB_A_NOWRAP(&(t)->area[i]) \
    && IMPLIES((i) + 1 < (t)->areas, RB_A_END(&(t)->area[i]) <= RB_M64((t)->area[(i) + 1].base)))
#define RB_WF_ENTRY(t, j) IMPLIES((j) < (t)->entries, \
    RB_TYPE_IS_VALUE((t)->entry[j].type) && RB_E_NOWRAP(&(t)->entry[j]) \
    && IMPLIES((j) + 1 < (t)->entries, RB_E_END(&(t)->entry[j]) <= RB_M64((t)->entry[(j) + 1].address)) \
    && RB_SAME_OBJECT((t)->entry[j].area, (t)->area) \
    && RB_AI(t, &(t)->entry[j]) < (t)->areas \
    && (t)->entry[j].area == &(t)->area[RB_AI(t, &(t)->entry[j])] \
    && RB_E_INSIDE(&(t)->entry[j], (t)->entry[j].area) \
    && (t)->entry[j].offset == (t)->entry[j].address - (t)->entry[j].area->base)
/* area i records exactly the contiguous run of registers located in it */
#define RB_WF_RUN(t, i, j) (IMPLIES((i) < (t)->areas && (j) < (t)->entries, \
      ((t)->entry[j].area == &(t)->area[i]) \
      == ((t)->area[i].entry.count > 0 && (t)->area[i].entry.first <= (j) && (j) <= (t)->area[i].entry.last)) \
    && IMPLIES((i) < (t)->areas && (t)->area[i].entry.count > 0, \
      (t)->area[i].entry.first <= (t)->area[i].entry.last && (t)->area[i].entry.last < (t)->entries \
      && (t)->area[i].entry.count == (t)->area[i].entry.last - (t)->area[i].entry.first + 1u))

/* ---- C04: register_init ------------------------------------------------
 * Statement: succeeds exactly for the well-formed descriptions, otherwise
 * names the first violated rule and its offender (g_rb.init, computed by
 * rb_spec_first_violation) and leaves the table uninitialised; after success
 * the table is well-formed, every word of a memory-backed area is the image
 * word of the default located there (areas that load defaults) or zero, each
 * area records its run of registers, and the description itself is unchanged.
 * Enforce-only: g_rb is filled by the harness from the spec functions. */
#define RB_CLA(i) ((i) < g_rb.na ? (i) : 0)
#define RB_CLE(j) ((j) < g_rb.ne ? (j) : 0)
#define RB_CLA1(i) ((i) <= g_rb.na ? (i) : 0)
#define RB_CLE1(j) ((j) <= g_rb.ne ? (j) : 0)
#define RB_ASSIGN_MEM(t, i) \
    (i) < g_rb.na && (t)->area[i].mem != NULL: __CPROVER_object_upto((t)->area[i].mem, (t)->area[i].size * sizeof(RegisterAtom))
#define RB_INIT_IS_AREA_CODE(c) ((c) == REG_INIT_NO_AREAS || (c) == REG_INIT_AREA_INVALID_ORDER || (c) == REG_INIT_AREA_ADDRESS_OVERLAP)
#define RB_INIT_IS_ENTRY_CODE(c) ((c) == REG_INIT_ENTRY_INVALID_ORDER || (c) == REG_INIT_ENTRY_ADDRESS_OVERLAP \
    || (c) == REG_INIT_ENTRY_IN_MEMORY_HOLE || (c) == REG_INIT_ENTRY_INVALID_DEFAULT)
#define RB_AREA_DESC_SAME(a, b) ((a)->read == (b)->read && (a)->write == (b)->write && (a)->flags == (b)->flags \
    && (a)->base == (b)->base && (a)->size == (b)->size && (a)->mem == (b)->mem)
#define RB_ENTRY_DESC_SAME(a, b) ((a)->type == (b)->type && (a)->default_value.u64 == (b)->default_value.u64 \
    && (a)->address == (b)->address && (a)->check.type == (b)->check.type \
    && (a)->check.arg.range.min.u64 == (b)->check.arg.range.min.u64 \
    && (a)->check.arg.range.max.u64 == (b)->check.arg.range.max.u64 \
    && (a)->name == (b)->name && (a)->flags == (b)->flags && (a)->user == (b)->user)

RegisterInit register_init(RegisterTable *t)
__CPROVER_requires(__CPROVER_rw_ok(t, sizeof(RegisterTable)) && t->area != NULL && t->entry != NULL)
__CPROVER_requires(g_rb.na <= RB_NA && g_rb.ne <= RB_NE)
__CPROVER_requires(__CPROVER_rw_ok(t->area, (g_rb.na + 1) * sizeof(RegisterArea)))
__CPROVER_requires(__CPROVER_rw_ok(t->entry, (g_rb.ne + 1) * sizeof(RegisterEntry)))
__CPROVER_requires(RB_AREA_IS_END(&t->area[g_rb.na]) && RB_ENTRY_IS_END(&t->entry[g_rb.ne]))
__CPROVER_assigns(t->flags, t->areas, t->entries, st_wr_verdict;
    g_rb.na > 0: __CPROVER_object_upto(t->area, g_rb.na * sizeof(RegisterArea));
    g_rb.ne > 0: __CPROVER_object_upto(t->entry, g_rb.ne * sizeof(RegisterEntry));
    RB_ASSIGN_MEM(t, 0); RB_ASSIGN_MEM(t, 1); RB_ASSIGN_MEM(t, 2); RB_ASSIGN_MEM(t, 3); RB_ASSIGN_MEM(t, 4); RB_ASSIGN_MEM(t, 5))
/* verdict */
__CPROVER_ensures(__CPROVER_return_value.code == g_rb.init.code)
__CPROVER_ensures(IMPLIES(RB_INIT_IS_AREA_CODE(g_rb.init.code), __CPROVER_return_value.pos.area == g_rb.init.index))
__CPROVER_ensures(IMPLIES(RB_INIT_IS_ENTRY_CODE(g_rb.init.code), __CPROVER_return_value.pos.entry == g_rb.init.index))
/* failure: the table stays uninitialised */
__CPROVER_ensures(IMPLIES(g_rb.init.code != REG_INIT_SUCCESS, !RB_INITIALISED(t)))
/* success: initialised, dimensions recorded, byte order kept, init phase over */
__CPROVER_ensures(IMPLIES(g_rb.init.code == REG_INIT_SUCCESS,
    RB_INITIALISED(t) && (t->flags & REG_TF_DURING_INIT) == 0 && t->areas == g_rb.na && t->entries == g_rb.ne))
__CPROVER_ensures((t->flags & REG_TF_BIG_ENDIAN) == (__CPROVER_old(t->flags) & REG_TF_BIG_ENDIAN))
__CPROVER_ensures(t->area == __CPROVER_old(t->area) && t->entry == __CPROVER_old(t->entry))
/* the description is unchanged (ghost area g_a, ghost register g_j) */
__CPROVER_ensures(RB_AREA_DESC_SAME(&t->area[RB_CLA1(g_a)], &g_rb.area0[RB_CLA1(g_a)]))
__CPROVER_ensures(RB_ENTRY_DESC_SAME(&t->entry[RB_CLE1(g_j)], &g_rb.entry0[RB_CLE1(g_j)]))
/* success: well-formed, each area records its run */
__CPROVER_ensures(IMPLIES(g_rb.init.code == REG_INIT_SUCCESS,
    RB_WF_AREA(t, RB_CLA(g_a)) && RB_WF_ENTRY(t, RB_CLE(g_j)) && RB_WF_RUN(t, RB_CLA(g_a), RB_CLE(g_j))))
/* success: defaults loaded, everything else zero */
__CPROVER_ensures(IMPLIES(g_rb.init.code == REG_INIT_SUCCESS && g_a < g_rb.na
    && t->area[RB_CLA(g_a)].mem != NULL && g_k < t->area[RB_CLA(g_a)].size,
    t->area[RB_CLA(g_a)].mem[g_k] == g_rb.init_word))
;

#endif
