/* Macros used by the loop invariants of contracts/rfc1055.loops (included
 * *before* the real source, because the invariants are inserted into it).
 * Ghost state: stubs/rfc1055_io.h. */
#ifndef CONTRACTS_RFC1055_INV_H
#define CONTRACTS_RFC1055_INV_H

#define SLI_SOF(ctx) ((((ctx)->flags) & RFC1055_WITH_SOF) != 0)
#define SL_AFTER_END(sof) ((sof) ? RFC1055_SEARCH_FOR_START : RFC1055_NORMAL)

/* ---- rfc1055_encode, loop 0: I payload octets taken from the source, R
 * octets received by the sink since the loop was entered ---- */
#define SLI_E_I ((size_t)(g_sl_src_pos - __CPROVER_loop_entry(g_sl_src_pos)))
#define SLI_E_R ((size_t)(g_sl_snk_pos - __CPROVER_loop_entry(g_sl_snk_pos)))
#define SLI_E_O ((size_t)(g_sl_obs - __CPROVER_loop_entry(g_sl_snk_pos)))

/* ---- rfc1055_decode, loop 0: C octets consumed, R octets emitted ---- */
#define SLI_D_C ((size_t)(g_sl_src_pos - __CPROVER_loop_entry(g_sl_src_pos)))
#define SLI_D_R ((size_t)(g_sl_snk_pos - __CPROVER_loop_entry(g_sl_snk_pos)))
#define SLI_D_O ((size_t)(g_sl_obs - __CPROVER_loop_entry(g_sl_snk_pos)))

/* generator mode: an upper bound of the octets the generator can still deliver */
#define SLI_D_GEN_LEFT ((SL_GN_PRE - g_gn_c) + 2 * (g_gn_n - g_gn_i) - g_gn_s + (g_gn_done ? (size_t)0 : (size_t)1))
/* generator mode: the layout of the generated stream matches the decoder
 * state at entry, and the generator is at its beginning */
#define SL_FRAME_LAYOUT(st0, sof) (!((st0) == RFC1055_SEARCH_FOR_START && !(sof)) \
  && g_gn_skip == ((st0) == RFC1055_SEARCH_FOR_END) && g_gn_start == ((sof) && (st0) != RFC1055_NORMAL))
#define SL_FRAME_AT_ENTRY_LE(ctx) (SL_FRAME_LAYOUT(__CPROVER_loop_entry(ctx->state), SLI_SOF(ctx)) \
  && __CPROVER_loop_entry(g_gn_c) == 0 && __CPROVER_loop_entry(g_gn_i) == 0 && __CPROVER_loop_entry(g_gn_s) == 0 \
  && !__CPROVER_loop_entry(g_gn_done))

#endif
