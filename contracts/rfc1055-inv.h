/* Ghost data of the frame-level SLIP contracts and the macros used by the
 * loop invariants of contracts/rfc1055.loops (included *before* the real
 * source, because the invariants are inserted into it).  See
 * contracts/rfc1055-frame.h for the meaning. */
#ifndef CONTRACTS_RFC1055_INV_H
#define CONTRACTS_RFC1055_INV_H

/* offset map off[0..n] of the payload (encode: payload = rest of the source
 * stream; decode in frame mode: payload g_sl_pay[0..g_sl_n)) */
extern const size_t *g_sl_off;
/* decode, frame mode: the source stream continues with
 *   [g_sl_g octets != END, END]   when entered in SEARCH_FOR_END
 *   [END]                         start delimiter, start-of-frame mode unless entered in NORMAL
 *   esc(g_sl_pay[0]) .. esc(g_sl_pay[g_sl_n - 1]) END */
extern _Bool g_sl_fm;
extern const unsigned char *g_sl_pay;
extern size_t g_sl_n, g_sl_g;

#define SLI_SOF(ctx) ((((ctx)->flags) & RFC1055_WITH_SOF) != 0)

/* ---- rfc1055_encode, loop 0 ---- */
#define SLI_E_P0 __CPROVER_loop_entry(g_sl_src_pos)
#define SLI_E_I ((size_t)(g_sl_src_pos - SLI_E_P0))
#define SLI_E_Q1 __CPROVER_loop_entry(g_sl_snk_pos)
#define SLI_E_R ((size_t)(g_sl_snk_pos - SLI_E_Q1))
#define SLI_E_O ((size_t)(g_sl_obs - SLI_E_Q1))
#define SLI_E_PAY(k) (g_sl_src[SLI_E_P0 + (k)])

/* ---- rfc1055_decode, loop 0 ---- */
#define SLI_D_P0 __CPROVER_loop_entry(g_sl_src_pos)
#define SLI_D_C ((size_t)(g_sl_src_pos - SLI_D_P0))
#define SLI_D_Q0 __CPROVER_loop_entry(g_sl_snk_pos)
#define SLI_D_R ((size_t)(g_sl_snk_pos - SLI_D_Q0))
#define SLI_D_O ((size_t)(g_sl_obs - SLI_D_Q0))
#define SLI_D_ST0 __CPROVER_loop_entry(ctx->state)
/* octets in front of the encoded payload, as a function of the state at entry */
#define SL_SKIP(st0) ((st0) == RFC1055_SEARCH_FOR_END ? g_sl_g + 1 : (size_t)0)
#define SL_START(st0, sof) (((sof) && (st0) != RFC1055_NORMAL) ? (size_t)1 : (size_t)0)
#define SL_PRE(st0, sof) (SL_SKIP(st0) + SL_START(st0, sof))
#define SL_AFTER_END(sof) ((sof) ? RFC1055_SEARCH_FOR_START : RFC1055_NORMAL)
#define SL_LAST (g_sl_src[g_sl_src_pos - 1])

#endif
