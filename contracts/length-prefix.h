/* Contracts of src/length-prefix.c (property C13).
 *
 * Postconditions are the property statement, phrased with the reference
 * definition of spec/length-prefix.h, over the abstract streams of
 * stubs/endpoint_drivers.h (C17):
 *
 *   sink side    "the sink receives F" == the sink driver's position advanced
 *                by |F| and the octet it received at the one observed position
 *                g_b (arbitrary, hence every position) is F[g_b - q0], q0 the
 *                position at entry; outside the frame g_snk_val keeps its
 *                value.  F = prefix(kind, n) ++ designated payload octets.
 *   source side  the source driver delivers an arbitrary stream in arbitrary
 *                fragments; g_val is the stream's octet at the one observed
 *                position g_a (arbitrary).  "The m octets at p0 are a prefix
 *                of value v" is lp_dec_shape(kind, v, m) and, when g_a lies in
 *                [p0, p0+m), lp_dec_octet(kind, v, m, g_a - p0, g_val).
 *                "mem holds exactly the payload" is mem[g_a - p0 - m] == g_val
 *                when g_a lies in the payload range; the position after the
 *                call is p0 + m + v, where the next frame starts.
 *                The drivers are those of C17 as wrapped by
 *                stubs/length_prefix_io.h: the value of a VARINT prefix (read
 *                with one driver call per octet) is claimed under the switch
 *                g_lp_dof, "single-octet reads deliver or fail"; everything
 *                else for the unrestricted drivers.
 *
 * Callees: byte_buffer_* (C18), sink_put_chunk / source_get_chunk / sts_n
 * (C17) are used through their contracts; the codecs of binary-format.h (C15)
 * and varint_encode_u64 / varint_u64_from_source (C14) are loop-free resp.
 * 10-group code that is executed as it is (their C15/C14 contracts are stated
 * over ghost blocks / stub drivers of their own units that a caller with a
 * local prefix object cannot establish).
 *
 * kind[] is a mutable static table: LP_STATIC_OK() is its static-state
 * invariant (base target static_kind_table).
 */
#ifndef CONTRACTS_LENGTH_PREFIX_H
#define CONTRACTS_LENGTH_PREFIX_H
#include "spec/length-prefix.h"

#define LP_CL(i, n) ((size_t)(i) < (size_t)(n) ? (size_t)(i) : (size_t)0)

/* ---- static-state invariant of the kind table --------------------------- */
#define LP_STATIC_OK() \
  (kind[LENP_VARIABLE].size == 0u \
   && kind[LENP_OCTET].size == 1u && kind[LENP_OCTET].maximum == UINT64_C(255) \
   && kind[LENP_OCTET].cb.u8.parse == ref_u8 && kind[LENP_OCTET].cb.u8.generate == set_u8 \
   && kind[LENP_LE_16BIT].size == 2u && kind[LENP_LE_16BIT].maximum == UINT64_C(65535) \
   && kind[LENP_LE_16BIT].cb.u16.parse == bf_ref_u16l && kind[LENP_LE_16BIT].cb.u16.generate == bf_set_u16l \
   && kind[LENP_BE_16BIT].size == 2u && kind[LENP_BE_16BIT].maximum == UINT64_C(65535) \
   && kind[LENP_BE_16BIT].cb.u16.parse == bf_ref_u16b && kind[LENP_BE_16BIT].cb.u16.generate == bf_set_u16b \
   && kind[LENP_LE_32BIT].size == 4u && kind[LENP_LE_32BIT].maximum == UINT64_C(4294967295) \
   && kind[LENP_LE_32BIT].cb.u32.parse == bf_ref_u32l && kind[LENP_LE_32BIT].cb.u32.generate == bf_set_u32l \
   && kind[LENP_BE_32BIT].size == 4u && kind[LENP_BE_32BIT].maximum == UINT64_C(4294967295) \
   && kind[LENP_BE_32BIT].cb.u32.parse == bf_ref_u32b && kind[LENP_BE_32BIT].cb.u32.generate == bf_set_u32b)

/* ---- leaf codecs --------------------------------------------------------- */

static unsigned char ref_u8(const void *buf)
__CPROVER_requires(__CPROVER_r_ok(buf, 1))
__CPROVER_assigns()
__CPROVER_ensures(__CPROVER_return_value == *(const unsigned char *)buf)
;

static void *set_u8(void *buf, const unsigned char value)
__CPROVER_requires(__CPROVER_w_ok(buf, 1))
__CPROVER_assigns(__CPROVER_object_upto(buf, 1))
__CPROVER_ensures(*(unsigned char *)buf == value
    && __CPROVER_return_value == (void *)((unsigned char *)buf + 1))
;

/* ---- prefix image -------------------------------------------------------- */

/* octet i of prefix(k, n) sits at mem[i] */
#define LP_IMG1(mem, k, n, i) \
  IMPLIES((i) < lp_spec_len((k), (n)), (mem)[i] == lp_spec_octet((k), (n), (i)))
#define LP_IMG(mem, k, n) \
  (LP_IMG1(mem, k, n, 0u) && LP_IMG1(mem, k, n, 1u) && LP_IMG1(mem, k, n, 2u) && LP_IMG1(mem, k, n, 3u) \
   && LP_IMG1(mem, k, n, 4u) && LP_IMG1(mem, k, n, 5u) && LP_IMG1(mem, k, n, 6u) && LP_IMG1(mem, k, n, 7u) \
   && LP_IMG1(mem, k, n, 8u) && LP_IMG1(mem, k, n, 9u))

/* b and mem[0..10) do not overlap (they are members of one prefix object) */
#define LP_NO_OVERLAP(b, mem) \
  (!__CPROVER_same_object((b), (mem)) \
   || (size_t)__CPROVER_POINTER_OFFSET(b) >= (size_t)__CPROVER_POINTER_OFFSET(mem) + (size_t)LP_PREFIX_ROOM \
   || (size_t)__CPROVER_POINTER_OFFSET(b) + sizeof(ByteBuffer) <= (size_t)__CPROVER_POINTER_OFFSET(mem))

#define LP_BUF_SAME(b) ((b)->data == __CPROVER_old((b)->data) && (b)->size == __CPROVER_old((b)->size) \
   && (b)->used == __CPROVER_old((b)->used) && (b)->offset == __CPROVER_old((b)->offset))
/* the ByteBuffer b is the view of prefix(k, n) stored in mem */
#define LP_PREFIX_VIEW(b, mem, k, n) \
  ((b)->data == (unsigned char *)(mem) && (b)->offset == 0u && (b)->used == lp_spec_len((k), (n)) \
   && (b)->size == ((k) == LENP_VARIABLE ? (size_t)LP_PREFIX_ROOM : lp_spec_len((k), (n))) \
   && LP_IMG((mem), (k), (n)))

/* lengths beyond the kind's maximum (or SSIZE_MAX) are refused and nothing is
 * touched; otherwise mem holds prefix(k, n), b is its view, the octets of mem
 * behind the prefix keep their values */
static int encode_prefix(const LengthPrefixKind k, ByteBuffer *b, unsigned char *mem, size_t n)
__CPROVER_requires(LP_KIND_OK(k) && LP_STATIC_OK())
__CPROVER_requires(__CPROVER_rw_ok(b, sizeof(ByteBuffer)) && __CPROVER_rw_ok(mem, LP_PREFIX_ROOM)
    && LP_NO_OVERLAP(b, mem))
__CPROVER_assigns(LP_FITS(k, n): b->data, b->size, b->used, b->offset;
    LP_FITS(k, n): __CPROVER_object_upto(mem, LP_PREFIX_ROOM))
__CPROVER_ensures(IMPLIES(!LP_FITS(k, n), __CPROVER_return_value == -EINVAL && LP_BUF_SAME(b)))
__CPROVER_ensures(IMPLIES(LP_FITS(k, n), __CPROVER_return_value == 0 && LP_PREFIX_VIEW(b, mem, k, n)))
__CPROVER_ensures(IMPLIES(g_j < LP_PREFIX_ROOM && (!LP_FITS(k, n) || g_j >= lp_spec_len(k, n)),
    mem[LP_CL(g_j, LP_PREFIX_ROOM)] == __CPROVER_old(mem[LP_CL(g_j, LP_PREFIX_ROOM)])))
;

/* ---- prefix objects ------------------------------------------------------ */

#define LP_LPB_OK(lpb) (__CPROVER_rw_ok((lpb), sizeof(LengthPrefixBuffer)))
#define LP_LPB_SAME(lpb) (LP_BUF_SAME(&(lpb)->prefix) && LP_BUF_SAME(&(lpb)->payload) \
   && (lpb)->prefix_[LP_CL(g_j, LP_PREFIX_ROOM)] == __CPROVER_old((lpb)->prefix_[LP_CL(g_j, LP_PREFIX_ROOM)]))
#define LP_LPB_ASSIGNS(lpb, cond) \
  cond: __CPROVER_object_upto((lpb)->prefix_, LP_PREFIX_ROOM); \
  cond: (lpb)->prefix.data, (lpb)->prefix.size, (lpb)->prefix.used, (lpb)->prefix.offset; \
  cond: (lpb)->payload.data, (lpb)->payload.size, (lpb)->payload.used, (lpb)->payload.offset
/* the prefix object frames the n octets at buf */
#define LP_LPB_FRAMES(lpb, k, buf, n) \
  (LP_PREFIX_VIEW(&(lpb)->prefix, (lpb)->prefix_, (k), (n)) \
   && (lpb)->payload.data == (unsigned char *)(buf) && (lpb)->payload.size == (n) \
   && (lpb)->payload.used == (n) && (lpb)->payload.offset == 0u)

/* the octets are designated, not copied: buf is not accessed */
int flenp_memory_encode(const LengthPrefixKind k, LengthPrefixBuffer *lpb, void *buf, size_t n)
__CPROVER_requires(LP_KIND_OK(k) && LP_STATIC_OK() && LP_LPB_OK(lpb))
__CPROVER_assigns(LP_LPB_ASSIGNS(lpb, LP_FITS(k, n)))
__CPROVER_ensures(IMPLIES(!LP_FITS(k, n), __CPROVER_return_value == -EINVAL && LP_LPB_SAME(lpb)))
__CPROVER_ensures(IMPLIES(LP_FITS(k, n) && n >= 1u && buf != NULL,
    __CPROVER_return_value == 0 && LP_LPB_FRAMES(lpb, k, buf, n)))
__CPROVER_ensures(__CPROVER_return_value <= 0)
;

/* a readable buffer; its memory is not accessed by the *_encode functions */
#define LP_BB_OK(b) (__CPROVER_r_ok((b), sizeof(ByteBuffer)) && BB_WF(b) && __CPROVER_r_ok((b)->data, (b)->size) \
   && !__CPROVER_same_object((b), (b)->data))
#define LP_REST_O(b) (__CPROVER_old((b)->used) - __CPROVER_old((b)->offset))

/* the unread content data[offset .. used) is designated; b is left alone */
int flenp_buffer_encode(const LengthPrefixKind k, LengthPrefixBuffer *lpb, ByteBuffer *b)
__CPROVER_requires(LP_KIND_OK(k) && LP_STATIC_OK() && LP_LPB_OK(lpb))
__CPROVER_requires(LP_BB_OK(b) && !__CPROVER_same_object(b, lpb) && !__CPROVER_same_object(b->data, lpb))
__CPROVER_assigns(LP_LPB_ASSIGNS(lpb, LP_FITS(k, b->used - b->offset)))
__CPROVER_ensures(IMPLIES(!LP_FITS(k, b->used - b->offset), __CPROVER_return_value == -EINVAL && LP_LPB_SAME(lpb)))
__CPROVER_ensures(IMPLIES(LP_FITS(k, b->used - b->offset) && b->used - b->offset >= 1u,
    __CPROVER_return_value == 0 && LP_LPB_FRAMES(lpb, k, b->data + b->offset, b->used - b->offset)))
__CPROVER_ensures(__CPROVER_return_value <= 0)
;

/* the first n unread octets are designated and the buffer is advanced by n;
 * more than the unread count is refused, nothing changes.  (A length the kind
 * cannot frame is refused with the prefix object unchanged; whether the buffer
 * is advanced then is not specified by the statement.) */
int flenp_buffer_encode_n(const LengthPrefixKind k, LengthPrefixBuffer *lpb, ByteBuffer *b, size_t n)
__CPROVER_requires(LP_KIND_OK(k) && LP_STATIC_OK() && LP_LPB_OK(lpb))
__CPROVER_requires(LP_BB_OK(b) && __CPROVER_w_ok(b, sizeof(ByteBuffer))
    && !__CPROVER_same_object(b, lpb) && !__CPROVER_same_object(b->data, lpb))
__CPROVER_assigns(LP_LPB_ASSIGNS(lpb, n <= b->used - b->offset && LP_FITS(k, n));
    n <= b->used - b->offset: b->offset)
__CPROVER_ensures(b->data == __CPROVER_old(b->data) && b->size == __CPROVER_old(b->size)
    && b->used == __CPROVER_old(b->used) && b->offset <= b->used)
__CPROVER_ensures(IMPLIES(n > LP_REST_O(b),
    __CPROVER_return_value == -EINVAL && LP_LPB_SAME(lpb) && b->offset == __CPROVER_old(b->offset)))
__CPROVER_ensures(IMPLIES(n <= LP_REST_O(b) && !LP_FITS(k, n),
    __CPROVER_return_value == -EINVAL && LP_LPB_SAME(lpb)))
__CPROVER_ensures(IMPLIES(n <= LP_REST_O(b) && LP_FITS(k, n) && n >= 1u,
    __CPROVER_return_value == 0 && LP_LPB_FRAMES(lpb, k, b->data + __CPROVER_old(b->offset), n)
    && b->offset == __CPROVER_old(b->offset) + n))
__CPROVER_ensures(__CPROVER_return_value <= 0)
;

/* ---- chunk lists ---------------------------------------------------------- */

/* Ghost prefix sums of the unread counts (set up by the harness, described by
 * LP_CHUNKS_OK in `requires`): g_lp_sum[i] is the number of unread octets in the
 * chunks active .. i-1.  The designated payload of a chunk list is the
 * concatenation of the unread parts from `active` on; octet t of it lies in
 * the chunk c with g_lp_sum[c] <= t < g_lp_sum[c+1], at data[offset + t -
 * g_lp_sum[c]].  g_lp_c is the one observed chunk (arbitrary, hence every
 * chunk).  Lists of at most LP_CMAX chunks (bound of the expanded quantifier;
 * the loop proofs themselves are inductive). */
#ifndef LP_CMAX
#define LP_CMAX 4
#endif
extern size_t g_lp_sum[9]; /* LP_CMAX + 1 <= 9 slots in use */
extern size_t g_lp_c;
/* for the encoder into a sink, the same in absolute sink positions:
 * g_lp_pos[i] is the position in the sink's stream at which the unread part of
 * chunk i starts when the frame is sent from the position at entry
 * (g_lp_pos[active] == position at entry + prefix length); the loop contract
 * of the emitting loop is stated on these (the driver's position IS
 * g_lp_pos[i] at the head of iteration i) */
extern size_t g_lp_pos[9];

#define LP_CH(oc, i) ((oc)->chunk[LP_CL((i), (oc)->chunks)])
#define LP_CH_REST(oc, i) (LP_CH(oc, i).used - LP_CH(oc, i).offset)
/* chunk i, if it is one of the list's unread chunks, is a well-formed buffer
 * (offset <= used <= size, readable memory that is not part of the ghost
 * state; BYTE_BUFFER(p, 0), size 0 with any pointer, is an empty chunk), and
 * the ghost sums add up without wrapping (the designated octets
 * number fewer than 2^64); the last conjunct, every partial sum is at most the
 * total, follows from the others and is spelt out for the solver */
#define LP_CHUNK_OK(oc, i) \
  IMPLIES((oc)->active <= (size_t)(i) && (size_t)(i) < (oc)->chunks, \
    LP_CH(oc, i).offset <= LP_CH(oc, i).used && LP_CH(oc, i).used <= LP_CH(oc, i).size \
    && IMPLIES(LP_CH(oc, i).size > 0u, LP_CH(oc, i).data != NULL \
         && __CPROVER_r_ok(LP_CH(oc, i).data, LP_CH(oc, i).size) && LP_SEP(LP_CH(oc, i).data)) \
    && g_lp_sum[(i) + 1] == g_lp_sum[i] + LP_CH_REST(oc, i) && g_lp_sum[(i) + 1] >= g_lp_sum[i] \
    && g_lp_sum[(i) + 1] <= LP_TOTAL(oc))
#define LP_CHUNKS_OK(oc) \
  (__CPROVER_r_ok((oc), sizeof(ByteChunks)) && (oc)->chunks <= LP_CMAX && (oc)->active <= (oc)->chunks \
   && IMPLIES((oc)->chunks > 0u, __CPROVER_r_ok((oc)->chunk, (oc)->chunks * sizeof(ByteBuffer))) \
   && LP_SEP(oc) && IMPLIES((oc)->chunks > 0u, LP_SEP((oc)->chunk)) \
   && g_lp_sum[LP_CL((oc)->active, LP_CMAX + 1)] == 0u \
   && LP_CHUNKS_EACH(oc))
/* total number of designated octets */
#define LP_TOTAL(oc) (g_lp_sum[LP_CL((oc)->chunks, LP_CMAX + 1)])
#if LP_CMAX == 2
#define LP_CHUNKS_EACH(oc) (LP_CHUNK_OK(oc, 0) && LP_CHUNK_OK(oc, 1))
#elif LP_CMAX == 3
#define LP_CHUNKS_EACH(oc) (LP_CHUNK_OK(oc, 0) && LP_CHUNK_OK(oc, 1) && LP_CHUNK_OK(oc, 2))
#elif LP_CMAX == 4
#define LP_CHUNKS_EACH(oc) (LP_CHUNK_OK(oc, 0) && LP_CHUNK_OK(oc, 1) && LP_CHUNK_OK(oc, 2) && LP_CHUNK_OK(oc, 3))
#elif LP_CMAX == 6
#define LP_CHUNKS_EACH(oc) (LP_CHUNK_OK(oc, 0) && LP_CHUNK_OK(oc, 1) && LP_CHUNK_OK(oc, 2) && LP_CHUNK_OK(oc, 3) \
   && LP_CHUNK_OK(oc, 4) && LP_CHUNK_OK(oc, 5))
#elif LP_CMAX == 8
#define LP_CHUNKS_EACH(oc) (LP_CHUNK_OK(oc, 0) && LP_CHUNK_OK(oc, 1) && LP_CHUNK_OK(oc, 2) && LP_CHUNK_OK(oc, 3) \
   && LP_CHUNK_OK(oc, 4) && LP_CHUNK_OK(oc, 5) && LP_CHUNK_OK(oc, 6) && LP_CHUNK_OK(oc, 7))
#else
#error "LP_CMAX must be 2, 3, 4, 6 or 8"
#endif

/* the ghost positions of a list that is framed with kind k from the sink's
 * current position: g_lp_pos[active] is behind the prefix, consecutive chunks
 * are adjacent, nothing wraps (a stream is shorter than 2^64 octets, as in
 * C17); "every chunk ends at or before the frame's end" and "the frame's end
 * is payload start + total" follow from the recurrences (target
 * lemma_chunk_ghosts) and are spelt out for the solver */
#define LP_END(oc) (g_lp_pos[LP_CL((oc)->chunks, LP_CMAX + 1)])
#define LP_START(oc) (g_lp_pos[LP_CL((oc)->active, LP_CMAX + 1)])
#define LP_CHUNK_POS_OK(oc, i) \
  IMPLIES((oc)->active <= (size_t)(i) && (size_t)(i) < (oc)->chunks, \
    g_lp_pos[(i) + 1] == g_lp_pos[i] + LP_CH_REST(oc, i) && g_lp_pos[(i) + 1] >= g_lp_pos[i] \
    && g_lp_pos[(i) + 1] <= LP_END(oc))
#define LP_CHUNKS_POS_OK(k, oc) \
  (LP_START(oc) == (size_t)(g_snk_pos + lp_spec_len((k), LP_TOTAL(oc))) && LP_START(oc) >= g_snk_pos \
   && LP_END(oc) == (size_t)(LP_START(oc) + LP_TOTAL(oc)) && LP_END(oc) >= LP_START(oc) \
   && LP_CHUNKS_POS_EACH(oc))
#if LP_CMAX == 2
#define LP_CHUNKS_POS_EACH(oc) (LP_CHUNK_POS_OK(oc, 0) && LP_CHUNK_POS_OK(oc, 1))
#elif LP_CMAX == 3
#define LP_CHUNKS_POS_EACH(oc) (LP_CHUNK_POS_OK(oc, 0) && LP_CHUNK_POS_OK(oc, 1) && LP_CHUNK_POS_OK(oc, 2))
#elif LP_CMAX == 4
#define LP_CHUNKS_POS_EACH(oc) (LP_CHUNK_POS_OK(oc, 0) && LP_CHUNK_POS_OK(oc, 1) && LP_CHUNK_POS_OK(oc, 2) && LP_CHUNK_POS_OK(oc, 3))
#elif LP_CMAX == 6
#define LP_CHUNKS_POS_EACH(oc) (LP_CHUNK_POS_OK(oc, 0) && LP_CHUNK_POS_OK(oc, 1) && LP_CHUNK_POS_OK(oc, 2) && LP_CHUNK_POS_OK(oc, 3) \
   && LP_CHUNK_POS_OK(oc, 4) && LP_CHUNK_POS_OK(oc, 5))
#elif LP_CMAX == 8
#define LP_CHUNKS_POS_EACH(oc) (LP_CHUNK_POS_OK(oc, 0) && LP_CHUNK_POS_OK(oc, 1) && LP_CHUNK_POS_OK(oc, 2) && LP_CHUNK_POS_OK(oc, 3) \
   && LP_CHUNK_POS_OK(oc, 4) && LP_CHUNK_POS_OK(oc, 5) && LP_CHUNK_POS_OK(oc, 6) && LP_CHUNK_POS_OK(oc, 7))
#endif
/* sink position p holds an octet of the observed chunk c; the octet */
#define LP_POS_IN_CHUNK(oc, c, p) ((oc)->active <= (c) && (c) < (oc)->chunks \
   && g_lp_pos[LP_CL((c), LP_CMAX)] <= (p) && (p) < g_lp_pos[LP_CL((c), LP_CMAX) + 1])
#define LP_POS_OCTET(oc, c, p) \
  (LP_CH(oc, c).data[LP_CH(oc, c).offset + ((p) - g_lp_pos[LP_CL((c), LP_CMAX)])])

/* p is not (part of) the ghost state of this unit or of the endpoint stubs */
#define LP_SEP(p) (EP_SEP(p) && !__CPROVER_same_object((p), g_lp_sum) && !__CPROVER_same_object((p), &g_lp_c) \
   && !__CPROVER_same_object((p), g_lp_pos) \
   && !__CPROVER_same_object((p), &g_k) && !__CPROVER_same_object((p), &g_j))

#define LP_LPC_OK(lpc) (__CPROVER_rw_ok((lpc), sizeof(LengthPrefixChunks)))

/* the prefix of the list's total is stored; the list itself is left alone */
int flenp_chunks_use(const LengthPrefixKind k, LengthPrefixChunks *lpc)
__CPROVER_requires(LP_KIND_OK(k) && LP_STATIC_OK() && LP_LPC_OK(lpc) && LP_CHUNKS_OK(&lpc->payload))
__CPROVER_requires(IMPLIES(lpc->payload.chunks > 0u, !__CPROVER_same_object(lpc->payload.chunk, lpc)))
__CPROVER_assigns(LP_FITS(k, g_lp_sum[lpc->payload.chunks]): __CPROVER_object_upto(lpc->prefix_, LP_PREFIX_ROOM);
    LP_FITS(k, g_lp_sum[lpc->payload.chunks]): lpc->prefix.data, lpc->prefix.size, lpc->prefix.used, lpc->prefix.offset)
__CPROVER_ensures(IMPLIES(!LP_FITS(k, LP_TOTAL(&lpc->payload)),
    __CPROVER_return_value == -EINVAL && LP_BUF_SAME(&lpc->prefix)
    && lpc->prefix_[LP_CL(g_j, LP_PREFIX_ROOM)] == __CPROVER_old(lpc->prefix_[LP_CL(g_j, LP_PREFIX_ROOM)])))
__CPROVER_ensures(IMPLIES(LP_FITS(k, LP_TOTAL(&lpc->payload)),
    __CPROVER_return_value == 0 && LP_PREFIX_VIEW(&lpc->prefix, lpc->prefix_, k, LP_TOTAL(&lpc->payload))))
;

/* ---- encoders into a sink -------------------------------------------------- */

#define LP_SNK_ASSIGNS g_snk_pos, g_snk_val, g_snk_err, g_snk_nhard
#define LP_SNK_UNTOUCHED (g_snk_pos == __CPROVER_old(g_snk_pos) && g_snk_val == __CPROVER_old(g_snk_val) \
   && g_snk_nhard == __CPROVER_old(g_snk_nhard) && g_snk_err == __CPROVER_old(g_snk_err))
/* position of g_b relative to the sink position at entry */
#define LP_B_REL ((size_t)(g_b - __CPROVER_old(g_snk_pos)))
#define LP_B_SEEN (g_b >= __CPROVER_old(g_snk_pos) && g_b < g_snk_pos)
/* sink position of the first payload octet of the frame (stream positions do
 * not wrap, assumption of the C17 stubs: where this sum wraps the driver
 * cannot have accepted the prefix) */
#define LP_PAY0(k, n) ((size_t)(__CPROVER_old(g_snk_pos) + lp_spec_len((k), (n))))
#define LP_PAY0_OK(k, n) (LP_PAY0(k, n) >= __CPROVER_old(g_snk_pos))
/* g_b is a payload position the driver has got to; its payload index */
#define LP_B_IN_PAYLOAD(k, n) (LP_PAY0_OK(k, n) && g_b >= LP_PAY0(k, n) && g_b < g_snk_pos)
#define LP_B_PAY(k, n) ((size_t)(g_b - LP_PAY0(k, n)))
/* the driver accepted at most / fewer than  prefix length + n  octets */
#define LP_SNK_WITHIN(k, n) (g_snk_pos >= __CPROVER_old(g_snk_pos) \
   && (!LP_PAY0_OK(k, n) || g_snk_pos <= LP_PAY0(k, n) || (size_t)(g_snk_pos - LP_PAY0(k, n)) <= (size_t)(n)))
#define LP_SNK_PARTIAL(k, n) \
  (!LP_PAY0_OK(k, n) || g_snk_pos < LP_PAY0(k, n) || (size_t)(g_snk_pos - LP_PAY0(k, n)) < (size_t)(n))
/* the octet the sink driver received at the observed position belongs to the
 * frame prefix(k, n) ++ buf[0..n): checked as far as the driver got (g_b below
 * the current position); elsewhere the observed value is the old one */
#define LP_SNK_FRAME_MEM(k, n, buf) \
  (LP_SNK_WITHIN(k, n) \
   && IMPLIES(LP_B_SEEN && LP_B_REL < lp_spec_len((k), (n)), g_snk_val == lp_spec_octet((k), (n), LP_B_REL)) \
   && IMPLIES(LP_B_IN_PAYLOAD(k, n) && LP_B_PAY(k, n) < (size_t)(n), \
        g_snk_val == ((const unsigned char *)(buf))[LP_B_PAY(k, n)]) \
   && IMPLIES(!LP_B_SEEN, g_snk_val == __CPROVER_old(g_snk_val)))
/* all of it arrived and the total is reported */
#define LP_SNK_DONE(k, n, ret) \
  ((size_t)(ret) == lp_spec_len((k), (n)) + (size_t)(n) \
   && LP_PAY0_OK(k, n) && g_snk_pos == (size_t)(LP_PAY0(k, n) + (size_t)(n)) && g_snk_pos >= LP_PAY0(k, n) \
   && g_snk_nhard == __CPROVER_old(g_snk_nhard))
/* the sink driver failed hard: its value comes back, a proper part arrived */
#define LP_SNK_BROKE(k, n, ret) \
  ((ret) == g_snk_err && !EP_TRANSIENT(ret) && g_snk_nhard == (size_t)(__CPROVER_old(g_snk_nhard) + 1u) \
   && LP_SNK_PARTIAL(k, n))

/* memory: the n octets at buf */
ssize_t flenp_memory_to_sink(const LengthPrefixKind k, Sink *sink, void *buf, size_t n)
__CPROVER_requires(LP_KIND_OK(k) && LP_STATIC_OK() && EP_SINK_OK(sink))
__CPROVER_requires(IMPLIES(LP_FITS_TOTAL(k, n) && n >= 1u, __CPROVER_r_ok(buf, n) && LP_SEP(buf)))
__CPROVER_assigns(LP_SNK_ASSIGNS)
__CPROVER_ensures(IMPLIES(!LP_FITS_TOTAL(k, n), __CPROVER_return_value == -EINVAL && LP_SNK_UNTOUCHED))
__CPROVER_ensures(IMPLIES(LP_FITS_TOTAL(k, n) && n >= 1u,
    __CPROVER_return_value != 0 && LP_SNK_FRAME_MEM(k, n, buf)
    && IMPLIES(__CPROVER_return_value > 0, LP_SNK_DONE(k, n, __CPROVER_return_value))
    && IMPLIES(__CPROVER_return_value < 0, LP_SNK_BROKE(k, n, __CPROVER_return_value))))
;

/* a buffer whose unread part is going to be read */
#define LP_BB_SRC_OK(b) (LP_BB_OK(b) && LP_SEP((b)->data) && LP_SEP(b))

/* buffer: its unread content data[offset .. used); the buffer is left alone */
ssize_t flenp_buffer_to_sink(const LengthPrefixKind k, Sink *sink, ByteBuffer *b)
__CPROVER_requires(LP_KIND_OK(k) && LP_STATIC_OK() && EP_SINK_OK(sink) && LP_BB_SRC_OK(b))
__CPROVER_assigns(LP_SNK_ASSIGNS)
__CPROVER_ensures(IMPLIES(!LP_FITS_TOTAL(k, b->used - b->offset),
    __CPROVER_return_value == -EINVAL && LP_SNK_UNTOUCHED))
__CPROVER_ensures(IMPLIES(LP_FITS_TOTAL(k, b->used - b->offset) && b->used - b->offset >= 1u,
    __CPROVER_return_value != 0 && LP_SNK_FRAME_MEM(k, b->used - b->offset, b->data + b->offset)
    && IMPLIES(__CPROVER_return_value > 0, LP_SNK_DONE(k, b->used - b->offset, __CPROVER_return_value))
    && IMPLIES(__CPROVER_return_value < 0, LP_SNK_BROKE(k, b->used - b->offset, __CPROVER_return_value))))
;

/* buffer-n: its first n unread octets data[offset .. offset + n); on success
 * the buffer is advanced by n.  More than the unread count: refused, nothing
 * happens. */
ssize_t flenp_buffer_to_sink_n(const LengthPrefixKind k, Sink *sink, ByteBuffer *b, size_t n)
__CPROVER_requires(LP_KIND_OK(k) && LP_STATIC_OK() && EP_SINK_OK(sink) && LP_BB_SRC_OK(b)
    && __CPROVER_w_ok(b, sizeof(ByteBuffer)) && !__CPROVER_same_object(b, sink))
__CPROVER_assigns(LP_SNK_ASSIGNS; n <= b->used - b->offset: b->offset)
__CPROVER_ensures(b->data == __CPROVER_old(b->data) && b->size == __CPROVER_old(b->size)
    && b->used == __CPROVER_old(b->used) && b->offset <= b->used)
__CPROVER_ensures(IMPLIES(n > LP_REST_O(b),
    __CPROVER_return_value == -EINVAL && LP_SNK_UNTOUCHED && b->offset == __CPROVER_old(b->offset)))
__CPROVER_ensures(IMPLIES(n <= LP_REST_O(b) && !LP_FITS_TOTAL(k, n),
    __CPROVER_return_value == -EINVAL && LP_SNK_UNTOUCHED))
__CPROVER_ensures(IMPLIES(n <= LP_REST_O(b) && LP_FITS_TOTAL(k, n) && n >= 1u,
    __CPROVER_return_value != 0 && LP_SNK_FRAME_MEM(k, n, b->data + __CPROVER_old(b->offset))
    && IMPLIES(__CPROVER_return_value > 0, LP_SNK_DONE(k, n, __CPROVER_return_value)
         && b->offset == __CPROVER_old(b->offset) + n)
    && IMPLIES(__CPROVER_return_value < 0, LP_SNK_BROKE(k, n, __CPROVER_return_value))))
;

/* chunk list: the concatenation of the unread parts from `active` on (empty
 * chunks allowed); the list is left alone */
/* the octet received at the observed position is the prefix's ... */
#define LP_SNK_CHUNKS_PREFIX(k, oc) \
  IMPLIES(LP_B_SEEN && LP_B_REL < lp_spec_len((k), LP_TOTAL(oc)), \
        g_snk_val == lp_spec_octet((k), LP_TOTAL(oc), LP_B_REL))
/* ... or the payload's, seen through the observed chunk */
#define LP_SNK_CHUNKS_PAYLOAD(k, oc) \
  IMPLIES(g_b < g_snk_pos && LP_POS_IN_CHUNK(oc, g_lp_c, g_b), g_snk_val == LP_POS_OCTET(oc, g_lp_c, g_b))
/* counts in terms of the frame's end (== position at entry + prefix length +
 * total, LP_CHUNKS_POS_OK) */
#define LP_SNK_CHUNKS_WITHIN(oc) (g_snk_pos >= __CPROVER_old(g_snk_pos) && g_snk_pos <= __CPROVER_old(LP_END_RAW(oc)))
#define LP_SNK_CHUNKS_DONE(k, oc, ret) \
  ((size_t)(ret) == lp_spec_len((k), LP_TOTAL(oc)) + LP_TOTAL(oc) && g_snk_pos == __CPROVER_old(LP_END_RAW(oc)) \
   && g_snk_nhard == __CPROVER_old(g_snk_nhard))
#define LP_SNK_CHUNKS_BROKE(oc, ret) \
  ((ret) == g_snk_err && !EP_TRANSIENT(ret) && g_snk_nhard == (size_t)(__CPROVER_old(g_snk_nhard) + 1u) \
   && g_snk_pos < __CPROVER_old(LP_END_RAW(oc)))
#define LP_END_RAW(oc) g_lp_pos[(oc)->chunks]

/* The proof of this contract is split over three targets (LP_PART 1..3), each
 * enforcing a part of the ensures clauses (and all of the frame / safety
 * obligations); without LP_PART -- wherever the contract is used by
 * replacement -- it is the whole contract. */
#if !defined(LP_PART) || LP_PART == 1
#define LP_ENSURES_COUNT(x) __CPROVER_ensures(x)
#else
#define LP_ENSURES_COUNT(x)
#endif
#if !defined(LP_PART) || LP_PART == 2
#define LP_ENSURES_PREFIX(x) __CPROVER_ensures(x)
#else
#define LP_ENSURES_PREFIX(x)
#endif
#if !defined(LP_PART) || LP_PART == 3
#define LP_ENSURES_PAYLOAD(x) __CPROVER_ensures(x)
#else
#define LP_ENSURES_PAYLOAD(x)
#endif
#define LP_CHUNKS_FRAMED(k, oc) (LP_FITS_TOTAL(k, LP_TOTAL(oc)) && LP_TOTAL(oc) >= 1u)

ssize_t flenp_chunks_to_sink(const LengthPrefixKind k, Sink *sink, ByteChunks *oc)
__CPROVER_requires(LP_KIND_OK(k) && LP_STATIC_OK() && EP_SINK_OK(sink) && LP_CHUNKS_OK(oc))
__CPROVER_requires(IMPLIES(LP_FITS_TOTAL(k, LP_TOTAL(oc)), LP_CHUNKS_POS_OK(k, oc)))
__CPROVER_assigns(LP_SNK_ASSIGNS)
/* refusal, counts, result */
LP_ENSURES_COUNT(IMPLIES(!LP_FITS_TOTAL(k, LP_TOTAL(oc)), __CPROVER_return_value == -EINVAL && LP_SNK_UNTOUCHED))
LP_ENSURES_COUNT(IMPLIES(LP_CHUNKS_FRAMED(k, oc), __CPROVER_return_value != 0))
LP_ENSURES_COUNT(IMPLIES(LP_CHUNKS_FRAMED(k, oc), LP_SNK_CHUNKS_WITHIN(oc)))
LP_ENSURES_COUNT(IMPLIES(LP_CHUNKS_FRAMED(k, oc) && __CPROVER_return_value > 0,
    LP_SNK_CHUNKS_DONE(k, oc, __CPROVER_return_value)))
LP_ENSURES_COUNT(IMPLIES(LP_CHUNKS_FRAMED(k, oc) && __CPROVER_return_value < 0,
    LP_SNK_CHUNKS_BROKE(oc, __CPROVER_return_value)))
/* what the sink received: the prefix, nothing outside the frame */
LP_ENSURES_PREFIX(IMPLIES(LP_CHUNKS_FRAMED(k, oc), LP_SNK_CHUNKS_PREFIX(k, oc)))
LP_ENSURES_PREFIX(IMPLIES(LP_CHUNKS_FRAMED(k, oc), IMPLIES(!LP_B_SEEN, g_snk_val == __CPROVER_old(g_snk_val))))
/* ... and the designated payload octets */
LP_ENSURES_PAYLOAD(IMPLIES(LP_CHUNKS_FRAMED(k, oc), LP_SNK_CHUNKS_PAYLOAD(k, oc)))
;

/* ---- decoders --------------------------------------------------------------- */

#define LP_SRC_ASSIGNS g_src_pos, g_src_err, g_src_nhard
#define LP_A_REL ((size_t)(g_a - __CPROVER_old(g_src_pos)))
/* the m octets the source delivered first are a prefix of value v */
#define LP_SRC_PREFIX(k, v, m) \
  (lp_dec_shape((k), (v), (m)) \
   && IMPLIES(g_a >= __CPROVER_old(g_src_pos) && LP_A_REL < (m), lp_dec_octet((k), (v), (m), LP_A_REL, g_val)))
#define LP_SRC_NO_FAILURE (g_src_nhard == __CPROVER_old(g_src_nhard))

/* the value of a varint prefix is claimed for drivers that deliver or fail on
 * single-octet reads (stubs/length_prefix_io.h); fixed-width prefixes are read
 * through source_get_chunk and need no such condition */
#define LP_PREFIX_CLAIMED(k) ((k) != LENP_VARIABLE || g_lp_dof)
/* a negative driver value comes back unchanged (a transient one, -EINTR or
 * -EAGAIN, only from the single-octet reads of a varint prefix) */
#define LP_SRC_FAILED(k, ret) \
  ((ret) == g_src_err && g_src_nhard == (size_t)(__CPROVER_old(g_src_nhard) + (EP_TRANSIENT(ret) ? 0u : 1u)) \
   && IMPLIES((k) != LENP_VARIABLE, !EP_TRANSIENT(ret)))

/* reads one prefix: on success (return >= 0) exactly its m octets were taken
 * (m the kind's width; for the varint kind the return value) and *len is
 * their value; a varint without terminator within 10 octets is -EILSEQ (10
 * octets taken); a negative driver value comes back unchanged, fewer octets
 * than a whole prefix were taken then */
static ssize_t decode_prefix(const LengthPrefixKind k, Source *source, uint64_t *len)
__CPROVER_requires(LP_KIND_OK(k) && LP_STATIC_OK() && EP_SOURCE_OK(source))
__CPROVER_requires(__CPROVER_rw_ok(len, sizeof(uint64_t)) && LP_SEP(len) && !__CPROVER_same_object(len, source))
__CPROVER_assigns(LP_SRC_ASSIGNS, *len)
__CPROVER_ensures(g_src_pos >= __CPROVER_old(g_src_pos) && EP_TAKEN <= SPEC_VARINT_MAX64)
__CPROVER_ensures(IMPLIES(__CPROVER_return_value >= 0, LP_SRC_NO_FAILURE
    && IMPLIES(k == LENP_VARIABLE && g_lp_dof, (size_t)__CPROVER_return_value == EP_TAKEN)
    && IMPLIES(k != LENP_VARIABLE || (size_t)__CPROVER_return_value == EP_TAKEN, LP_SRC_PREFIX(k, *len, EP_TAKEN))))
__CPROVER_ensures(IMPLIES(__CPROVER_return_value < 0,
    (LP_SRC_FAILED(k, __CPROVER_return_value) && EP_TAKEN < (k == LENP_VARIABLE ? SPEC_VARINT_MAX64 : LP_WIDTH(k)))
    || (k == LENP_VARIABLE && __CPROVER_return_value == -EILSEQ && LP_SRC_NO_FAILURE
        && IMPLIES(g_lp_dof, EP_TAKEN == SPEC_VARINT_MAX64))))
;

/* m: the number of prefix octets, from the positions (success: taken - L) */
#define LP_M_OF(ret) ((size_t)(EP_TAKEN - (size_t)(ret)))
/* a frame of payload length L == ret was taken: L payload octets behind an
 * m-octet prefix, m >= 1, which is a prefix of value L */
#define LP_FRAME_HEAD(k, ret) \
  (EP_TAKEN >= (size_t)(ret) \
   && IMPLIES(LP_PREFIX_CLAIMED(k), EP_TAKEN > (size_t)(ret) && LP_SRC_PREFIX((k), (uint64_t)(ret), LP_M_OF(ret))))
/* the payload octet of the stream observed at g_a sits in mem */
#define LP_PAYLOAD_AT(mem, m, L) \
  IMPLIES(g_a >= __CPROVER_old(g_src_pos) && LP_A_REL >= (m) && LP_A_REL - (m) < (L), \
    ((const unsigned char *)(mem))[LP_A_REL - (m)] == g_val)

/* "out-of-memory exactly when the announced length exceeds the room": the
 * announced length is a function of up to ten stream octets of which the
 * abstract stream shows one, so the exact boundary is stated where one octet
 * decides it (one-octet kind, observed position == position of the prefix);
 * for every kind a positive return L comes with "the prefix has value L" and
 * L <= room, and the bounded target roundtrip_buffers runs all kinds against
 * capacities around the length on concrete streams. */
#define LP_ENOMEM_EXACT(k, room, ret) \
  IMPLIES((k) == LENP_OCTET && g_a == __CPROVER_old(g_src_pos) && EP_TAKEN >= 1u, \
    ((ret) == -ENOMEM && LP_SRC_NO_FAILURE) == ((size_t)g_val > (size_t)(room)))

/* one frame into memory of `size` octets.
 *   return L >= 1: the stream held  <m-octet prefix of value L> ++ payload,
 *       mem[0..L) is exactly that payload, the position is behind the frame;
 *   L > size: -ENOMEM, the prefix (only) was taken, mem is untouched;
 *   otherwise negative: the driver's negative value unchanged (mem[0..size)
 *       may hold a part of the payload), -EILSEQ (varint), or -EINVAL for an
 *       empty frame (L == 0, outside the statement).
 * The value of a varint prefix is claimed under g_lp_dof (LP_PREFIX_CLAIMED).
 * Nothing is ever written outside mem[0..size). */
ssize_t flenp_memory_from_source(const LengthPrefixKind k, Source *source, void *mem, size_t size)
__CPROVER_requires(LP_KIND_OK(k) && LP_STATIC_OK() && EP_SOURCE_OK(source))
__CPROVER_requires(size <= (size_t)SSIZE_MAX
    && IMPLIES(size > 0u, __CPROVER_w_ok(mem, size) && LP_SEP(mem) && !__CPROVER_same_object(mem, source)))
__CPROVER_assigns(LP_SRC_ASSIGNS; size > 0u: __CPROVER_object_upto(mem, size))
__CPROVER_ensures(g_src_pos >= __CPROVER_old(g_src_pos) && __CPROVER_return_value != 0)
__CPROVER_ensures(IMPLIES(__CPROVER_return_value > 0,
    (size_t)__CPROVER_return_value <= size && LP_SRC_NO_FAILURE
    && LP_FRAME_HEAD(k, __CPROVER_return_value)
    && LP_PAYLOAD_AT(mem, LP_M_OF(__CPROVER_return_value), (size_t)__CPROVER_return_value)))
__CPROVER_ensures(IMPLIES(__CPROVER_return_value < 0,
    LP_SRC_FAILED(k, __CPROVER_return_value)
    || (LP_SRC_NO_FAILURE && EP_TAKEN <= SPEC_VARINT_MAX64
        && (__CPROVER_return_value == -ENOMEM || __CPROVER_return_value == -EINVAL
            || (k == LENP_VARIABLE && __CPROVER_return_value == -EILSEQ)))))
/* out-of-memory: exactly when the prefix read announces more than `size`;
 * the destination is untouched */
__CPROVER_ensures(IMPLIES(__CPROVER_return_value == -ENOMEM && LP_SRC_NO_FAILURE,
    IMPLIES(g_k < size, ((unsigned char *)mem)[LP_CL(g_k, size)] == __CPROVER_old(((unsigned char *)mem)[LP_CL(g_k, size)]))))
__CPROVER_ensures(LP_ENOMEM_EXACT(k, size, __CPROVER_return_value))
;

/* one frame appended to a buffer: on success the payload sits at
 * data[used .. used + L), used' = used + L, everything else of the buffer is
 * unchanged; L > size - used: -ENOMEM and the buffer is unchanged */
ssize_t flenp_buffer_from_source(const LengthPrefixKind k, Source *source, ByteBuffer *b)
__CPROVER_requires(LP_KIND_OK(k) && LP_STATIC_OK() && EP_SOURCE_OK(source))
__CPROVER_requires(BB_MEM_OK(b) && b->size <= (size_t)SSIZE_MAX && LP_SEP(b) && LP_SEP(b->data)
    && !__CPROVER_same_object(b, source) && !__CPROVER_same_object(b->data, source))
__CPROVER_assigns(LP_SRC_ASSIGNS, b->used;
    b->size > b->used: __CPROVER_object_upto(b->data + b->used, b->size - b->used))
__CPROVER_ensures(g_src_pos >= __CPROVER_old(g_src_pos) && __CPROVER_return_value != 0)
__CPROVER_ensures(b->data == __CPROVER_old(b->data) && b->size == __CPROVER_old(b->size)
    && b->offset == __CPROVER_old(b->offset))
__CPROVER_ensures(IMPLIES(g_j < __CPROVER_old(b->used), BB_CELL_SAME(b, g_j)))
__CPROVER_ensures(IMPLIES(__CPROVER_return_value > 0,
    (size_t)__CPROVER_return_value <= __CPROVER_old(b->size) - __CPROVER_old(b->used) && LP_SRC_NO_FAILURE
    && b->used == __CPROVER_old(b->used) + (size_t)__CPROVER_return_value
    && LP_FRAME_HEAD(k, __CPROVER_return_value)
    && LP_PAYLOAD_AT(b->data + __CPROVER_old(b->used), LP_M_OF(__CPROVER_return_value), (size_t)__CPROVER_return_value)))
__CPROVER_ensures(IMPLIES(__CPROVER_return_value < 0,
    b->used == __CPROVER_old(b->used)
    && (LP_SRC_FAILED(k, __CPROVER_return_value)
        || (LP_SRC_NO_FAILURE && EP_TAKEN <= SPEC_VARINT_MAX64
            && (__CPROVER_return_value == -ENOMEM || __CPROVER_return_value == -EINVAL
                || (k == LENP_VARIABLE && __CPROVER_return_value == -EILSEQ))))))
__CPROVER_ensures(IMPLIES(__CPROVER_return_value == -ENOMEM && LP_SRC_NO_FAILURE
    && g_k < __CPROVER_old(b->size) - __CPROVER_old(b->used),
    b->data[BB_CL(__CPROVER_old(b->used) + g_k, b->size)] == __CPROVER_old(b->data[BB_CL(b->used + g_k, b->size)])))
__CPROVER_ensures(LP_ENOMEM_EXACT(k, __CPROVER_old(b->size) - __CPROVER_old(b->used), __CPROVER_return_value))
;

/* one frame from a source into a sink: on success (return L) the sink driver
 * received exactly the L payload octets that follow the m-octet prefix of
 * value L, in order; on failure what it received is a prefix of that payload
 * and the value is the failing driver's (or -EILSEQ) */
#define LP_PIPE_PAYLOAD(m, cnt) \
  EP_PIPE_MOVED((size_t)(__CPROVER_old(g_src_pos) + (m)), __CPROVER_old(g_snk_pos), __CPROVER_old(g_snk_val), (cnt))

ssize_t flenp_decode_source_to_sink(const LengthPrefixKind k, Source *source, Sink *sink)
__CPROVER_requires(LP_KIND_OK(k) && LP_STATIC_OK() && EP_SOURCE_OK(source) && EP_SINK_OK(sink) && EP_NOEXT(source, sink))
__CPROVER_assigns(EP_PIPE_ASSIGNS)
__CPROVER_ensures(EP_MONOTONE_O)
__CPROVER_ensures(IMPLIES(__CPROVER_return_value >= 0,
    EP_NO_FAILURE_O && EP_DELIVERED == (size_t)__CPROVER_return_value
    && LP_FRAME_HEAD(k, __CPROVER_return_value)
    && LP_PIPE_PAYLOAD(LP_M_OF(__CPROVER_return_value), (size_t)__CPROVER_return_value)))
__CPROVER_ensures(IMPLIES(__CPROVER_return_value < 0 && k != LENP_VARIABLE,
    (EP_SRC_FAILED_O(__CPROVER_return_value) && LP_PIPE_PAYLOAD((size_t)(EP_TAKEN - EP_DELIVERED), EP_DELIVERED))
    || (EP_SNK_FAILED_O(__CPROVER_return_value) && LP_PIPE_PAYLOAD((size_t)(EP_TAKEN - EP_DELIVERED - 1u), EP_DELIVERED))))
;

#endif
