/* Contracts of src/byte-buffer.c (property C18).
 *
 * Postconditions are taken from the property statement: a byte buffer is a
 * FIFO of octets with  offset <= used <= size; unread = data[offset..used),
 * free = size - used.  Arithmetic in the contracts is arranged so that it is
 * the mathematical reading (no sum that can wrap).  Array facts are stated at
 * the ghost indices g_k / g_j (arbitrary, hence universal).
 */
#ifndef CONTRACTS_BYTE_BUFFER_H
#define CONTRACTS_BYTE_BUFFER_H

#define BB_WF(b) ((b)->data != NULL && (b)->size >= 1 \
                  && (b)->offset <= (b)->used && (b)->used <= (b)->size)
/* clamp an index so that a pre-state snapshot never reads out of bounds */
#define BB_CL(i, n) ((i) < (n) ? (i) : 0)
#define BB_MEM_OK(b) (__CPROVER_rw_ok((b), sizeof(ByteBuffer)) && BB_WF(b) \
                      && __CPROVER_rw_ok((b)->data, (b)->size) \
                      && !__CPROVER_same_object((b), (b)->data))
#define BB_FIELDS_SAME(b) ((b)->data == __CPROVER_old((b)->data) \
                           && (b)->size == __CPROVER_old((b)->size) \
                           && (b)->used == __CPROVER_old((b)->used) \
                           && (b)->offset == __CPROVER_old((b)->offset))
#define BB_CELL_SAME(b, i) \
  IMPLIES((i) < (b)->size, (b)->data[BB_CL(i, (b)->size)] == __CPROVER_old((b)->data[BB_CL(i, (b)->size)]))

void byte_buffer_null(ByteBuffer *b)
__CPROVER_requires(__CPROVER_rw_ok(b, sizeof(ByteBuffer)))
__CPROVER_assigns(b->data, b->size, b->used, b->offset)
__CPROVER_ensures(b->data == NULL && b->size == 0 && b->used == 0 && b->offset == 0)
;

int byte_buffer_set(ByteBuffer *b, void *data, size_t size, size_t used, size_t offset)
__CPROVER_requires(__CPROVER_rw_ok(b, sizeof(ByteBuffer)))
__CPROVER_assigns(b->data, b->size, b->used, b->offset)
__CPROVER_ensures(IMPLIES(data == NULL || size == 0 || used > size || offset > used,
    __CPROVER_return_value == -EINVAL && BB_FIELDS_SAME(b)))
__CPROVER_ensures(IMPLIES(!(data == NULL || size == 0 || used > size || offset > used),
    __CPROVER_return_value == 0 && b->data == (unsigned char *)data && b->size == size
    && b->used == used && b->offset == offset && BB_WF(b)))
;

int byte_buffer_use(ByteBuffer *b, void *data, size_t size)
__CPROVER_requires(__CPROVER_rw_ok(b, sizeof(ByteBuffer)))
__CPROVER_assigns(b->data, b->size, b->used, b->offset)
__CPROVER_ensures(IMPLIES(data == NULL || size == 0,
    __CPROVER_return_value == -EINVAL && BB_FIELDS_SAME(b)))
__CPROVER_ensures(IMPLIES(data != NULL && size != 0,
    __CPROVER_return_value == 0 && b->data == (unsigned char *)data && b->size == size
    && b->used == size && b->offset == 0))
;

int byte_buffer_space(ByteBuffer *b, void *data, size_t size)
__CPROVER_requires(__CPROVER_rw_ok(b, sizeof(ByteBuffer)))
__CPROVER_assigns(b->data, b->size, b->used, b->offset)
__CPROVER_ensures(IMPLIES(data == NULL || size == 0,
    __CPROVER_return_value == -EINVAL && BB_FIELDS_SAME(b)))
__CPROVER_ensures(IMPLIES(data != NULL && size != 0,
    __CPROVER_return_value == 0 && b->data == (unsigned char *)data && b->size == size
    && b->used == 0 && b->offset == 0))
;

size_t byte_buffer_avail(const ByteBuffer *b)
__CPROVER_requires(__CPROVER_r_ok(b, sizeof(ByteBuffer)))
__CPROVER_assigns()
__CPROVER_ensures(__CPROVER_return_value == b->size - b->used)
;

size_t byte_buffer_rest(const ByteBuffer *b)
__CPROVER_requires(__CPROVER_r_ok(b, sizeof(ByteBuffer)))
__CPROVER_assigns()
__CPROVER_ensures(__CPROVER_return_value == b->used - b->offset)
;

/* add: appends exactly the given octets, or fails without change when the
 * free space (size - used, in mathematical integers) is insufficient */
int byte_buffer_add(ByteBuffer *b, const void *data, size_t size)
__CPROVER_requires(BB_MEM_OK(b))
__CPROVER_requires(IMPLIES(size <= b->size - b->used,
    __CPROVER_r_ok(data, size) && !__CPROVER_same_object(b->data, data)))
__CPROVER_requires(!__CPROVER_same_object(b, data))
__CPROVER_assigns(b->used; size <= b->size - b->used: __CPROVER_object_upto(b->data, b->size))
__CPROVER_ensures(b->data == __CPROVER_old(b->data) && b->size == __CPROVER_old(b->size)
    && b->offset == __CPROVER_old(b->offset) && BB_WF(b))
__CPROVER_ensures(IMPLIES(size <= __CPROVER_old(b->size) - __CPROVER_old(b->used),
    __CPROVER_return_value == 0 && b->used == __CPROVER_old(b->used) + size))
__CPROVER_ensures(IMPLIES(size <= __CPROVER_old(b->size) - __CPROVER_old(b->used) && g_k < size,
    b->data[BB_CL(__CPROVER_old(b->used) + g_k, b->size)] == ((const unsigned char *)data)[g_k]))
__CPROVER_ensures(IMPLIES(size <= __CPROVER_old(b->size) - __CPROVER_old(b->used) && g_j < __CPROVER_old(b->used),
    BB_CELL_SAME(b, g_j)))
__CPROVER_ensures(IMPLIES(size > __CPROVER_old(b->size) - __CPROVER_old(b->used),
    __CPROVER_return_value == -ENOMEM && b->used == __CPROVER_old(b->used) && BB_CELL_SAME(b, g_j)))
;

/* consume: exactly the oldest unread octets in order, or no change */
int byte_buffer_consume(ByteBuffer *b, void *data, size_t size)
__CPROVER_requires(BB_MEM_OK(b))
__CPROVER_requires(IMPLIES(size <= b->used - b->offset,
    __CPROVER_w_ok(data, size) && !__CPROVER_same_object(b->data, data)))
__CPROVER_requires(!__CPROVER_same_object(b, data))
__CPROVER_assigns(b->offset; size <= b->used - b->offset: __CPROVER_object_upto(data, size))
__CPROVER_ensures(b->data == __CPROVER_old(b->data) && b->size == __CPROVER_old(b->size)
    && b->used == __CPROVER_old(b->used) && BB_WF(b) && BB_CELL_SAME(b, g_j))
__CPROVER_ensures(IMPLIES(size <= __CPROVER_old(b->used) - __CPROVER_old(b->offset),
    __CPROVER_return_value == 0 && b->offset == __CPROVER_old(b->offset) + size))
__CPROVER_ensures(IMPLIES(size <= __CPROVER_old(b->used) - __CPROVER_old(b->offset) && g_k < size,
    ((unsigned char *)data)[g_k] == b->data[BB_CL(__CPROVER_old(b->offset) + g_k, b->size)]))
__CPROVER_ensures(IMPLIES(size > __CPROVER_old(b->used) - __CPROVER_old(b->offset),
    __CPROVER_return_value == -ENODATA && b->offset == __CPROVER_old(b->offset)))
;

#define BB_MIN(a, b) ((a) < (b) ? (a) : (b))
ssize_t byte_buffer_consume_at_most(ByteBuffer *b, void *data, size_t size)
__CPROVER_requires(BB_MEM_OK(b))
__CPROVER_requires(b->size <= (size_t)SSIZE_MAX)
__CPROVER_requires(IMPLIES(b->used - b->offset > 0,
    __CPROVER_w_ok(data, BB_MIN(size, b->used - b->offset)) && !__CPROVER_same_object(b->data, data)))
__CPROVER_requires(!__CPROVER_same_object(b, data))
__CPROVER_assigns(b->offset;
    size <= b->used - b->offset: __CPROVER_object_upto(data, size);
    size > b->used - b->offset && b->used > b->offset: __CPROVER_object_upto(data, b->used - b->offset))
__CPROVER_ensures(b->data == __CPROVER_old(b->data) && b->size == __CPROVER_old(b->size)
    && b->used == __CPROVER_old(b->used) && BB_WF(b) && BB_CELL_SAME(b, g_j))
__CPROVER_ensures(IMPLIES(__CPROVER_old(b->used) == __CPROVER_old(b->offset),
    __CPROVER_return_value == -ENODATA && b->offset == __CPROVER_old(b->offset)))
__CPROVER_ensures(IMPLIES(__CPROVER_old(b->used) != __CPROVER_old(b->offset),
    __CPROVER_return_value >= 0
    && (size_t)__CPROVER_return_value == BB_MIN(size, __CPROVER_old(b->used) - __CPROVER_old(b->offset))
    && b->offset == __CPROVER_old(b->offset) + (size_t)__CPROVER_return_value))
__CPROVER_ensures(IMPLIES(__CPROVER_old(b->used) != __CPROVER_old(b->offset)
    && g_k < BB_MIN(size, __CPROVER_old(b->used) - __CPROVER_old(b->offset)),
    ((unsigned char *)data)[g_k] == b->data[BB_CL(__CPROVER_old(b->offset) + g_k, b->size)]))
;

/* rewind: keeps exactly the unread octets, now starting at offset zero, with
 * the space behind them free again */
int byte_buffer_rewind(ByteBuffer *b)
__CPROVER_requires(BB_MEM_OK(b))
__CPROVER_assigns(b->offset, b->used, __CPROVER_object_upto(b->data, b->size))
__CPROVER_ensures(__CPROVER_return_value == 0)
__CPROVER_ensures(b->data == __CPROVER_old(b->data) && b->size == __CPROVER_old(b->size) && BB_WF(b))
__CPROVER_ensures(b->offset == 0 && b->used == __CPROVER_old(b->used) - __CPROVER_old(b->offset))
__CPROVER_ensures(IMPLIES(g_k < __CPROVER_old(b->used) - __CPROVER_old(b->offset),
    b->data[BB_CL(g_k, b->size)] == __CPROVER_old(b->data[BB_CL(b->offset + g_k, b->size)])))
;

void byte_buffer_clear(ByteBuffer *b)
__CPROVER_requires(BB_MEM_OK(b))
__CPROVER_assigns(b->offset, b->used, __CPROVER_object_upto(b->data, b->size))
__CPROVER_ensures(b->data == __CPROVER_old(b->data) && b->size == __CPROVER_old(b->size))
__CPROVER_ensures(b->offset == 0 && b->used == 0)
__CPROVER_ensures(IMPLIES(g_k < b->size, b->data[BB_CL(g_k, b->size)] == 0))
;

void byte_buffer_reset(ByteBuffer *b)
__CPROVER_requires(__CPROVER_rw_ok(b, sizeof(ByteBuffer)))
__CPROVER_assigns(b->offset, b->used)
__CPROVER_ensures(b->data == __CPROVER_old(b->data) && b->size == __CPROVER_old(b->size))
__CPROVER_ensures(b->offset == 0 && b->used == 0)
;

void byte_buffer_repeat(ByteBuffer *b)
__CPROVER_requires(__CPROVER_rw_ok(b, sizeof(ByteBuffer)))
__CPROVER_assigns(b->offset)
__CPROVER_ensures(b->data == __CPROVER_old(b->data) && b->size == __CPROVER_old(b->size)
    && b->used == __CPROVER_old(b->used) && b->offset == 0)
;

#endif
