/* Contract template of one ring-buffer instance (no include guard: included
 * once per instance by contracts/ring-buffer.h with RB_N = instance name,
 * RB_T = element type).  See contracts/ring-buffer.h for the abstract view. */

#ifndef RB_CAT
#define RB_CAT_(a, b) a##b
#define RB_CAT(a, b) RB_CAT_(a, b)
#define RB_F(s) RB_CAT(RB_N, s)
/* an object cannot be larger than PTRDIFF_MAX octets */
#define RB_NLIMIT ((size_t)PTRDIFF_MAX / sizeof(RB_T))
#define RB_MEM_OK(c) (__CPROVER_rw_ok((c), sizeof(RB_N)) && RB_WF(c) && (c)->datasize <= RB_NLIMIT \
    && __CPROVER_rw_ok((c)->data, (c)->datasize * sizeof(RB_T)) && !__CPROVER_same_object((c), (c)->data))
#define RB_MEM_OK_R(c) (__CPROVER_r_ok((c), sizeof(RB_N)) && RB_WF(c) && (c)->datasize <= RB_NLIMIT \
    && __CPROVER_r_ok((c)->data, (c)->datasize * sizeof(RB_T)))
#endif

/* init: an empty, non-overriding queue of capacity `size` over `buf`, all
 * cells zero */
void RB_F(_init)(RB_N *c, RB_T *buf, size_t size)
__CPROVER_requires(__CPROVER_rw_ok(c, sizeof(RB_N)))
__CPROVER_requires(size >= 1 && size <= RB_NLIMIT && __CPROVER_rw_ok(buf, size * sizeof(RB_T))
    && !__CPROVER_same_object(c, buf))
__CPROVER_assigns(c->data, c->head, c->tail, c->datasize, c->override_if_full,
    __CPROVER_object_upto(buf, size * sizeof(RB_T)))
__CPROVER_ensures(c->data == buf && c->datasize == size && RB_WF(c))
__CPROVER_ensures(RB_LEN(c) == 0)
__CPROVER_ensures(c->override_if_full == false)
__CPROVER_ensures(IMPLIES(g_j < size, buf[RB_CL(g_j, size)] == 0))
;

/* helper (from the code): head moves one slot forward, cyclically */
static inline void RB_F(_advance_head)(RB_N *c)
__CPROVER_requires(RB_MEM_OK(c))
__CPROVER_assigns(c->head)
__CPROVER_ensures(c->head == RB_SLOT_(__CPROVER_old(c->head), 1, c->datasize))
__CPROVER_ensures(RB_SHAPE_SAME(c) && RB_POLICY_SAME(c) && c->tail == __CPROVER_old(c->tail))
;

/* helper (from the code): the oldest element of a non-empty queue is dropped;
 * tail moves one slot forward, or to `datasize` (empty) when it meets head */
static inline void RB_F(_advance_tail)(RB_N *c)
__CPROVER_requires(RB_MEM_OK(c) && c->tail < c->datasize)
__CPROVER_assigns(c->tail)
__CPROVER_ensures(IMPLIES(RB_SLOT_(__CPROVER_old(c->tail), 1, c->datasize) == c->head, c->tail == c->datasize))
__CPROVER_ensures(IMPLIES(RB_SLOT_(__CPROVER_old(c->tail), 1, c->datasize) != c->head,
    c->tail == RB_SLOT_(__CPROVER_old(c->tail), 1, c->datasize)))
__CPROVER_ensures(RB_SHAPE_SAME(c) && RB_POLICY_SAME(c) && c->head == __CPROVER_old(c->head))
/* the same in terms of the view: one element less, the others move up */
__CPROVER_ensures(RB_LEN(c) == RB_OLD_LEN(c) - 1)
__CPROVER_ensures(IMPLIES(g_k < RB_OLD_LEN(c) - 1, RB_Q(c, g_k) == RB_OLD_Q(c, g_k + 1)))
;

/* size / empty / full report the view */
size_t RB_F(_size)(const RB_N *c)
__CPROVER_requires(RB_MEM_OK_R(c))
__CPROVER_assigns()
__CPROVER_ensures(__CPROVER_return_value == RB_LEN(c))
__CPROVER_ensures(__CPROVER_return_value <= c->datasize)
;

bool RB_F(_empty)(const RB_N *c)
__CPROVER_requires(RB_MEM_OK_R(c))
__CPROVER_assigns()
__CPROVER_ensures(__CPROVER_return_value == (RB_LEN(c) == 0))
;

bool RB_F(_full)(const RB_N *c)
__CPROVER_requires(RB_MEM_OK_R(c))
__CPROVER_assigns()
__CPROVER_ensures(__CPROVER_return_value == (RB_LEN(c) == c->datasize))
;

/* clear: the queue is empty afterwards; capacity, policy and cells unchanged
 * (the frame admits an implementation that also resets the write slot) */
void RB_F(_clear)(RB_N *c)
__CPROVER_requires(RB_MEM_OK(c))
__CPROVER_assigns(c->head, c->tail)
__CPROVER_ensures(RB_SHAPE_SAME(c) && RB_POLICY_SAME(c) && RB_WF(c))
__CPROVER_ensures(RB_LEN(c) == 0)
__CPROVER_ensures(RB_CELL_SAME(c, g_j))
;

/* get: the oldest element (zero when empty); the remaining elements keep
 * their order */
RB_T RB_F(_get)(RB_N *c)
__CPROVER_requires(RB_MEM_OK(c))
__CPROVER_assigns(c->tail)
__CPROVER_ensures(RB_SHAPE_SAME(c) && RB_POLICY_SAME(c) && RB_WF(c))
__CPROVER_ensures(RB_CELL_SAME(c, g_j))
__CPROVER_ensures(IMPLIES(RB_OLD_LEN(c) == 0, __CPROVER_return_value == 0 && RB_LEN(c) == 0))
__CPROVER_ensures(IMPLIES(RB_OLD_LEN(c) > 0, __CPROVER_return_value == RB_OLD_Q(c, 0)))
__CPROVER_ensures(IMPLIES(RB_OLD_LEN(c) > 0, RB_LEN(c) == RB_OLD_LEN(c) - 1))
__CPROVER_ensures(IMPLIES(RB_OLD_LEN(c) > 0 && g_k < RB_OLD_LEN(c) - 1, RB_Q(c, g_k) == RB_OLD_Q(c, g_k + 1)))
;

/* put: appended when not full; dropped without any change when full and not
 * overriding; when full and overriding the oldest element is evicted */
void RB_F(_put)(RB_N *c, RB_T item)
__CPROVER_requires(RB_MEM_OK(c))
__CPROVER_assigns(c->head, c->tail, c->data[c->head])
__CPROVER_ensures(RB_SHAPE_SAME(c) && RB_POLICY_SAME(c) && RB_WF(c))
/* not full: append */
__CPROVER_ensures(IMPLIES(RB_OLD_LEN(c) < c->datasize, RB_LEN(c) == RB_OLD_LEN(c) + 1))
__CPROVER_ensures(IMPLIES(RB_OLD_LEN(c) < c->datasize && g_k < RB_OLD_LEN(c), RB_Q(c, g_k) == RB_OLD_Q(c, g_k)))
__CPROVER_ensures(IMPLIES(RB_OLD_LEN(c) < c->datasize, RB_Q(c, RB_OLD_LEN(c)) == item))
/* full, not overriding: dropped */
__CPROVER_ensures(IMPLIES(RB_OLD_LEN(c) == c->datasize && !__CPROVER_old(c->override_if_full),
    c->head == __CPROVER_old(c->head) && c->tail == __CPROVER_old(c->tail) && RB_CELL_SAME(c, g_j)))
/* full, overriding: oldest evicted, item is the newest */
__CPROVER_ensures(IMPLIES(RB_OLD_LEN(c) == c->datasize && __CPROVER_old(c->override_if_full),
    RB_LEN(c) == c->datasize))
__CPROVER_ensures(IMPLIES(RB_OLD_LEN(c) == c->datasize && __CPROVER_old(c->override_if_full) && g_k < c->datasize - 1,
    RB_Q(c, g_k) == RB_OLD_Q(c, g_k + 1)))
__CPROVER_ensures(IMPLIES(RB_OLD_LEN(c) == c->datasize && __CPROVER_old(c->override_if_full),
    RB_Q(c, c->datasize - 1) == item))
/* frame: no cell but the old write slot changes */
__CPROVER_ensures(IMPLIES(g_j != __CPROVER_old(c->head), RB_CELL_SAME(c, g_j)))
;

/* override policy: only the flag changes */
void RB_F(_override_if_full)(RB_N *c, bool state)
__CPROVER_requires(RB_MEM_OK(c))
__CPROVER_assigns(c->override_if_full)
__CPROVER_ensures(c->override_if_full == state)
__CPROVER_ensures(RB_SHAPE_SAME(c) && RB_WF(c) && c->head == __CPROVER_old(c->head) && c->tail == __CPROVER_old(c->tail))
__CPROVER_ensures(RB_CELL_SAME(c, g_j))
;

/* iterator construction: exactly len steps; the start slot is the slot of
 * the oldest (old-to-new) resp. newest (new-to-old) element */
void RB_F(_iter)(rb_iter *iter, const RB_N *c, rb_iter_mode mode)
__CPROVER_requires(__CPROVER_rw_ok(iter, sizeof(rb_iter)) && RB_MEM_OK_R(c) && RB_MODE_OK(mode))
__CPROVER_requires(!__CPROVER_same_object(iter, c) && !__CPROVER_same_object(iter, c->data))
__CPROVER_assigns(iter->steps, iter->index, iter->size, iter->mode)
__CPROVER_ensures(iter->size == c->datasize && iter->mode == mode)
__CPROVER_ensures(iter->steps == RB_LEN(c))
__CPROVER_ensures(IMPLIES(RB_LEN(c) > 0 && mode == RING_BUFFER_ITER_OLD_TO_NEW,
    iter->index == RB_SLOT_(c->tail, 0, c->datasize)))
__CPROVER_ensures(IMPLIES(RB_LEN(c) > 0 && mode == RING_BUFFER_ITER_NEW_TO_OLD,
    iter->index == RB_SLOT_(c->tail, RB_LEN(c) - 1, c->datasize)))
;

/* inspect: the cell under the iterator */
RB_T RB_F(_inspect)(const RB_N *c, const rb_iter *iter)
__CPROVER_requires(RB_MEM_OK_R(c) && __CPROVER_r_ok(iter, sizeof(rb_iter)) && iter->index < c->datasize)
__CPROVER_assigns()
__CPROVER_ensures(__CPROVER_return_value == c->data[RB_CL(iter->index, c->datasize)])
;
