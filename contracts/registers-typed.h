/* Contracts of the typed-access part of src/registers/core.c (properties C01
 * and C05): the 16 serialisers/deserialisers, the constraint checks, the
 * memory-area callbacks, register_set / register_set_unsafe (their common body
 * register_setx is proved inlined into both), register_get,
 * register_bit_set / register_bit_clear, reg_entry_sane,
 * reg_entry_load_default, register_sanitise.
 *
 * Top-level postconditions are the property statements (spec/registers.h is
 * the oracle).  The table preconditions are POINTWISE: `entries` is arbitrary
 * and only the entry that is addressed is required to be well formed (what
 * register_init establishes for every entry), so the proofs do not depend on
 * the table size.  Nothing at all is required of an uninitialised table or of
 * a handle >= entries.
 *
 * Storage frames: every write is checked against `assigns`; in addition
 * "unchanged" is stated for the ghost cell g_cell, an ARBITRARY valid word
 * anywhere (pre-state snapshots need an lvalue that is valid in every case,
 * also for uninitialised tables, hence a ghost pointer and not a path through
 * the table): a refused operation leaves it unchanged wherever it lies, a
 * successful one leaves it unchanged unless it is one of the written
 * register's own words (rt_cell_outside).
 */
#ifndef CONTRACTS_REGISTERS_TYPED_H
#define CONTRACTS_REGISTERS_TYPED_H
#ifdef RT_LOOP_KEYWORDS_HIDDEN   /* see stubs/register_callbacks_pre.h */
#undef __CPROVER_loop_invariant
#undef __CPROVER_decreases
#undef __CPROVER_assigns
#undef RT_LOOP_KEYWORDS_HIDDEN
#endif
#include "spec/registers.h"
#include "stubs/register_callbacks.h"

extern RegisterAtom *g_cell;     /* arbitrary valid word (ghost) */

#define RT_INIT(t) (((t)->flags & REG_TF_INITIALISED) != 0)
#define RT_BE(t) (((t)->flags & REG_TF_BIG_ENDIAN) != 0)
#define RT_DURING(t) (((t)->flags & REG_TF_DURING_INIT) != 0)
#define RT_E(t, i) ((t)->entry + (i))
#define RT_A(t, i) ((t)->entry[i].area)
#define RT_TY(t, i) ((t)->entry[i].type)
#define RT_W(t, i) (RT_A(t, i)->mem + (t)->entry[i].offset)
#define RT_ADDRESSED(t, i) (RT_INIT(t) && (i) < (t)->entries)

/* Discipline: every helper copies the entry (and its area) BY VALUE first and
 * works on the copies.  Symbolic execution pays for each dereference of a path
 * like t->entry[idx].area->mem (a fresh "invalid object" symbol per
 * dereference, found by a linear search: quadratic over a clause), so a
 * clause dereferences such a path once per helper call, not once per use. */

/* entry e of area a is well formed (established by register_init) */
static inline bool rt_entry_wf(RegisterEntry e, RegisterArea a)
{
  return SPEC_REG_TYPE_OK(e.type) && SPEC_REGV_TYPE_OK(e.check.type)
      && IMPLIES(e.check.type == REGV_TYPE_CALLBACK, e.check.arg.cb == st_validator)
      && e.offset <= a.size && SPEC_REG_WORDS(e.type) <= a.size - e.offset;
}

/* entry i is well formed, its area and storage are valid objects distinct from
 * the table, and (on demand) the area's write / read callback is one of the
 * known ones: memory backed, callback backed, or -- write only -- absent */
static inline bool rt_entry_ok(const RegisterTable *t, RegisterHandle i, bool need_w, bool need_r)
{
  const RegisterEntry *ep = t->entry + i;
  if (!__CPROVER_r_ok(ep, sizeof(RegisterEntry)))
    return false;
  const RegisterEntry e = *ep;
  if (!__CPROVER_r_ok(e.area, sizeof(RegisterArea)))
    return false;
  const RegisterArea a = *e.area;
  if (need_w && !(a.write == NULL || a.write == reg_mem_write || a.write == st_area_write))
    return false;
  if (need_r && !(a.read == reg_mem_read || a.read == st_area_read))
    return false;
  return rt_entry_wf(e, a)
      && __CPROVER_rw_ok(a.mem, (size_t)a.size * sizeof(RegisterAtom))
      && !__CPROVER_same_object(a.mem, t) && !__CPROVER_same_object(a.mem, t->entry)
      && !__CPROVER_same_object(a.mem, e.area);
}
#define RT_ENTRY_W_OK(t, i) rt_entry_ok(t, i, true, false)
#define RT_ENTRY_R_OK(t, i) rt_entry_ok(t, i, false, true)
#define RT_ENTRY_RW_OK(t, i) rt_entry_ok(t, i, true, true)

/* the words of register i hold exactly the image of `bits` */
static inline bool rt_holds(const RegisterTable *t, RegisterHandle i, uint64_t bits)
{
  const RegisterEntry e = t->entry[i];
  const RegisterAtom *w = e.area->mem + e.offset;
  const unsigned n = SPEC_REG_WORDS(e.type);
  const bool be = RT_BE(t);
  return SPEC_WORDS_ARE(w, n, bits, be);
}

/* the pattern whose image the words of register i are */
static inline uint64_t rt_bits(const RegisterTable *t, RegisterHandle i)
{
  const RegisterEntry e = t->entry[i];
  const RegisterAtom *w = e.area->mem + e.offset;
  const unsigned n = SPEC_REG_WORDS(e.type);
  const bool be = RT_BE(t);
  return SPEC_DECODE(w, n, be);
}

/* cell is not one of the words of register i (it may lie anywhere: in the same
 * area, in another object).  Written on the integer images of the pointers so
 * that the same text is meaningful natively and in the verifier (where the
 * image is object number and offset: cells of other objects are outside). */
static inline bool rt_cell_outside(const RegisterTable *t, RegisterHandle i, const RegisterAtom *cell)
{
  const RegisterEntry e = t->entry[i];
  const RegisterAtom *w = e.area->mem + e.offset;
  return !((uintptr_t)cell - (uintptr_t)w < (uintptr_t)(SPEC_REG_WORDS(e.type) * sizeof(RegisterAtom)));
}

/* v is valid for register e (spec/registers.h) */
static inline bool rt_valid(RegisterEntry e, RegisterValue v, bool during)
{
  return SPEC_VALID(&e, v.type, v.value, during);
}

/* ---- serialisers / deserialisers -------------------------------------- */

#define RT_CLW(w, n) ((w) < (n) ? (w) : 0u)
#define RDS_SER_CONTRACT(fn, TY, NW) \
static bool fn(const RegisterValue v, RegisterAtom *r, const bool bigendian) \
__CPROVER_requires(__CPROVER_rw_ok(r, NW * sizeof(RegisterAtom))) \
__CPROVER_assigns(__CPROVER_object_upto(r, NW * sizeof(RegisterAtom))) \
__CPROVER_ensures(__CPROVER_return_value == SPEC_FLOAT_OK(TY, v.value)) \
__CPROVER_ensures(IMPLIES(__CPROVER_return_value, \
    SPEC_WORDS_ARE(r, NW, SPEC_BITS(TY, v.value), bigendian))) \
__CPROVER_ensures(IMPLIES(!__CPROVER_return_value, \
    r[0] == __CPROVER_old(r[0]) \
    && r[RT_CLW(1u, NW)] == __CPROVER_old(r[RT_CLW(1u, NW)]) \
    && r[RT_CLW(2u, NW)] == __CPROVER_old(r[RT_CLW(2u, NW)]) \
    && r[RT_CLW(3u, NW)] == __CPROVER_old(r[RT_CLW(3u, NW)]))) \
;

#define RDS_DES_CONTRACT(fn, TY, NW) \
static bool fn(const RegisterAtom *r, RegisterValue *v, const bool bigendian) \
__CPROVER_requires(__CPROVER_r_ok(r, NW * sizeof(RegisterAtom))) \
__CPROVER_requires(__CPROVER_rw_ok(v, sizeof(RegisterValue)) && !__CPROVER_same_object(r, v)) \
__CPROVER_assigns(v->type, v->value) \
__CPROVER_ensures(v->type == TY) \
__CPROVER_ensures(SPEC_WORDS_ARE(r, NW, SPEC_BITS(TY, v->value), bigendian)) \
__CPROVER_ensures(__CPROVER_return_value == SPEC_FLOAT_OK(TY, v->value)) \
;

RDS_SER_CONTRACT(rds_u16_ser, REG_TYPE_UINT16, 1u)
RDS_SER_CONTRACT(rds_u32_ser, REG_TYPE_UINT32, 2u)
RDS_SER_CONTRACT(rds_u64_ser, REG_TYPE_UINT64, 4u)
RDS_SER_CONTRACT(rds_s16_ser, REG_TYPE_SINT16, 1u)
RDS_SER_CONTRACT(rds_s32_ser, REG_TYPE_SINT32, 2u)
RDS_SER_CONTRACT(rds_s64_ser, REG_TYPE_SINT64, 4u)
RDS_SER_CONTRACT(rds_f32_ser, REG_TYPE_FLOAT32, 2u)
RDS_SER_CONTRACT(rds_f64_ser, REG_TYPE_FLOAT64, 4u)
RDS_DES_CONTRACT(rds_u16_des, REG_TYPE_UINT16, 1u)
RDS_DES_CONTRACT(rds_u32_des, REG_TYPE_UINT32, 2u)
RDS_DES_CONTRACT(rds_u64_des, REG_TYPE_UINT64, 4u)
RDS_DES_CONTRACT(rds_s16_des, REG_TYPE_SINT16, 1u)
RDS_DES_CONTRACT(rds_s32_des, REG_TYPE_SINT32, 2u)
RDS_DES_CONTRACT(rds_s64_des, REG_TYPE_SINT64, 4u)
RDS_DES_CONTRACT(rds_f32_des, REG_TYPE_FLOAT32, 2u)
RDS_DES_CONTRACT(rds_f64_des, REG_TYPE_FLOAT64, 4u)

/* ---- constraint checks -------------------------------------------------- */

static inline bool rv_check_min_value(const RegisterValueU limit, const RegisterValue v)
__CPROVER_assigns()
__CPROVER_ensures(__CPROVER_return_value == SPEC_MIN_OK(v.type, v.value, limit))
;

static inline bool rv_check_max_value(const RegisterValueU limit, const RegisterValue v)
__CPROVER_assigns()
__CPROVER_ensures(__CPROVER_return_value == SPEC_MAX_OK(v.type, v.value, limit))
;

static inline bool rt_range_ok(RegisterEntry e, RegisterValue v)
{
  return SPEC_MIN_OK(v.type, v.value, e.check.arg.range.min) && SPEC_MAX_OK(v.type, v.value, e.check.arg.range.max);
}

static inline bool rv_check_range(RegisterEntry *e, const RegisterValue v)
__CPROVER_requires(__CPROVER_r_ok(e, sizeof(RegisterEntry)))
__CPROVER_assigns()
__CPROVER_ensures(__CPROVER_return_value == rt_range_ok(*e, v))
;

static inline bool rt_validator_known(RegisterEntry e)
{
  return SPEC_REG_TYPE_OK(e.type) && SPEC_REGV_TYPE_OK(e.check.type)
      && IMPLIES(e.check.type == REGV_TYPE_CALLBACK, e.check.arg.cb == st_validator);
}

static bool rv_validate(RegisterTable *t, RegisterEntry *e, const RegisterValue v)
__CPROVER_requires(__CPROVER_r_ok(t, sizeof(RegisterTable)) && __CPROVER_r_ok(e, sizeof(RegisterEntry)))
__CPROVER_requires(rt_validator_known(*e))
__CPROVER_assigns()
__CPROVER_ensures(__CPROVER_return_value == rt_valid(*e, v, RT_DURING(t)))
;

/* ---- memory-area callbacks ---------------------------------------------- */

static inline bool rt_mem_ok(const RegisterArea *ap, RegisterOffset offset, RegisterOffset n)
{
  if (!__CPROVER_r_ok(ap, sizeof(RegisterArea)))
    return false;
  const RegisterArea a = *ap;
  return a.size >= 1u && offset <= a.size && n <= a.size - offset
      && __CPROVER_rw_ok(a.mem, (size_t)a.size * sizeof(RegisterAtom))
      && !__CPROVER_same_object(a.mem, ap);
}
#define RT_MEM_OK(a, offset, n) rt_mem_ok(a, offset, n)

/* word k of the transfer, for every k (ghost g_k) and, spelled out, for the
 * first four words (one register) */
#define RT_COPIED(dst, src, n, k) IMPLIES((k) < (n), (dst)[k] == (src)[k])
#define RT_COPIED4(dst, src, n) \
  (RT_COPIED(dst, src, n, 0u) && RT_COPIED(dst, src, n, 1u) && RT_COPIED(dst, src, n, 2u) && RT_COPIED(dst, src, n, 3u))

RegisterAccess reg_mem_read(const RegisterArea *a, RegisterAtom *dest,
                            RegisterOffset offset, RegisterOffset n)
__CPROVER_requires(RT_MEM_OK(a, offset, n))
__CPROVER_requires(IMPLIES(n > 0u, __CPROVER_rw_ok(dest, (size_t)n * sizeof(RegisterAtom))))
__CPROVER_requires(!__CPROVER_same_object(dest, a->mem) && !__CPROVER_same_object(dest, a))
__CPROVER_assigns(n > 0u: __CPROVER_object_upto(dest, (size_t)n * sizeof(RegisterAtom)))
__CPROVER_ensures(__CPROVER_return_value.code == REG_ACCESS_SUCCESS)
__CPROVER_ensures(IMPLIES(g_k < n, dest[g_k] == a->mem[(size_t)offset + g_k]))
__CPROVER_ensures(RT_COPIED4(dest, a->mem + offset, n))
;

RegisterAccess reg_mem_write(RegisterArea *a, const RegisterAtom *src,
                             RegisterOffset offset, RegisterOffset n)
__CPROVER_requires(RT_MEM_OK(a, offset, n))
__CPROVER_requires(IMPLIES(n > 0u, __CPROVER_r_ok(src, (size_t)n * sizeof(RegisterAtom))))
__CPROVER_requires(!__CPROVER_same_object(src, a->mem))
__CPROVER_assigns(n > 0u: __CPROVER_object_upto(a->mem + offset, (size_t)n * sizeof(RegisterAtom)))
__CPROVER_ensures(__CPROVER_return_value.code == REG_ACCESS_SUCCESS)
__CPROVER_ensures(IMPLIES(g_k < n, a->mem[(size_t)offset + g_k] == src[g_k]))
__CPROVER_ensures(RT_COPIED4(a->mem + offset, src, n))
__CPROVER_ensures(IMPLIES(g_j < a->size && (g_j < offset || g_j - offset >= n),
    a->mem[RT_CLW(g_j, a->size)] == __CPROVER_old(a->mem[RT_CLW(g_j, a->size)])))
;

/* ---- typed set ------------------------------------------------------------ */

/* Inv(i): a register constrained by min/max/range/callback holds a value that
 * decodes and satisfies its constraint (table in normal operation: not during
 * initialisation) */
static inline bool rt_constrained(const RegisterTable *t, RegisterHandle i)
{
  const RegisterValidatorType c = t->entry[i].check.type;
  return c == REGV_TYPE_MIN || c == REGV_TYPE_MAX || c == REGV_TYPE_RANGE || c == REGV_TYPE_CALLBACK;
}

/* the pattern `bits` read as register i's type decodes and is valid for it */
static inline bool rt_bits_acceptable(const RegisterTable *t, RegisterHandle i, uint64_t bits)
{
  const RegisterEntry e = t->entry[i];
  RegisterValue v;
  v.type = e.type;
  v.value.u64 = bits;
  return SPEC_FLOAT_OK(e.type, v.value) && rt_valid(e, v, false);
}

static inline bool rt_inv(const RegisterTable *t, RegisterHandle i)
{
  return !rt_constrained(t, i) || rt_bits_acceptable(t, i, rt_bits(t, i));
}


/* Reasons for which the statement says a typed set is refused.  Several may
 * apply at once; the statement fixes no precedence among the last three, so
 * the contract only requires the reported code to name ONE reason that
 * applies.  An uninitialised table and a handle that is not a register of the
 * table are decided before anything of an entry is looked at. */
#define RT_R_UNINIT   1u
#define RT_R_NOENTRY  2u
#define RT_R_RANGE    4u    /* wrong type or constraint violated (checked variant only) */
#define RT_R_READONLY 8u    /* the area has no write callback */
#define RT_R_INVALID  16u   /* float NaN, infinite or subnormal, read as the register's type */

static inline unsigned rt_set_reasons(const RegisterTable *t, RegisterHandle idx, RegisterValue v, bool checked)
{
  if (!RT_INIT(t))
    return RT_R_UNINIT;
  if (idx >= t->entries)
    return RT_R_NOENTRY;
  const RegisterEntry e = t->entry[idx];
  unsigned r = 0u;
  if (checked && !rt_valid(e, v, RT_DURING(t)))
    r |= RT_R_RANGE;
  if (e.area->write == NULL)
    r |= RT_R_READONLY;
  if (!SPEC_FLOAT_OK(e.type, v.value))
    r |= RT_R_INVALID;
  return r;
}

/* the code of a typed set is what the statement says: one of the reasons that
 * apply; else the device's refusal (stub verdict at entry); else success */
static inline bool rt_set_code_ok(const RegisterTable *t, RegisterHandle idx, RegisterValue v, bool checked,
                                  uint8_t wr_verdict, RegisterAccessCode code)
{
  const unsigned r = rt_set_reasons(t, idx, v, checked);
  if (r != 0u)
    return (code == REG_ACCESS_UNINITIALISED && (r & RT_R_UNINIT) != 0u)
        || (code == REG_ACCESS_NOENTRY && (r & RT_R_NOENTRY) != 0u)
        || (code == REG_ACCESS_RANGE && (r & RT_R_RANGE) != 0u)
        || (code == REG_ACCESS_READONLY && (r & RT_R_READONLY) != 0u)
        || (code == REG_ACCESS_INVALID && (r & RT_R_INVALID) != 0u);
  if (t->entry[idx].area->write == st_area_write && ST_REFUSES(wr_verdict))
    return code == ST_CODE(wr_verdict);
  return code == REG_ACCESS_SUCCESS;
}

/* the value as the register's own type reads it */
#define RT_VBITS(t, i, v) SPEC_BITS(RT_TY(t, i), (v).value)

#define RT_SET_CONTRACT(t, idx, v, wv) \
__CPROVER_requires(__CPROVER_r_ok(t, sizeof(RegisterTable))) \
__CPROVER_requires(__CPROVER_rw_ok(g_cell, sizeof(RegisterAtom))) \
__CPROVER_requires(IMPLIES(RT_ADDRESSED(t, idx), RT_ENTRY_W_OK(t, idx))) \
__CPROVER_assigns(st_wr_verdict; \
    RT_ADDRESSED(t, idx) && SPEC_REG_W1(RT_TY(t, idx)): __CPROVER_object_upto(RT_W(t, idx), 1u * sizeof(RegisterAtom)); \
    RT_ADDRESSED(t, idx) && SPEC_REG_W2(RT_TY(t, idx)): __CPROVER_object_upto(RT_W(t, idx), 2u * sizeof(RegisterAtom)); \
    RT_ADDRESSED(t, idx) && SPEC_REG_W4(RT_TY(t, idx)): __CPROVER_object_upto(RT_W(t, idx), 4u * sizeof(RegisterAtom))) \
/* refused -- uninitialised table; not a register of the table ("no such \
 * entry"); wrong type or constraint violated (checked variant); no write \
 * callback; NaN, infinite or subnormal float; the device refuses -- or success */ \
__CPROVER_ensures(rt_set_code_ok(t, idx, v, wv, __CPROVER_old(st_wr_verdict), __CPROVER_return_value.code)) \
/* success: the backing words hold exactly the value in the table's byte order */ \
__CPROVER_ensures(IMPLIES(__CPROVER_return_value.code == REG_ACCESS_SUCCESS, rt_holds(t, idx, RT_VBITS(t, idx, v)))) \
/* C05: the register a checked set wrote decodes and satisfies its constraint */ \
__CPROVER_ensures(IMPLIES(__CPROVER_return_value.code == REG_ACCESS_SUCCESS && (wv), rt_inv(t, idx))) \
/* a refused set leaves every word unchanged; a successful one every other word */ \
__CPROVER_ensures(IMPLIES(__CPROVER_return_value.code != REG_ACCESS_SUCCESS, *g_cell == __CPROVER_old(*g_cell))) \
__CPROVER_ensures(IMPLIES(__CPROVER_return_value.code == REG_ACCESS_SUCCESS && rt_cell_outside(t, idx, g_cell), \
    *g_cell == __CPROVER_old(*g_cell))) \
__CPROVER_ensures(t->flags == __CPROVER_old(t->flags) && t->entries == __CPROVER_old(t->entries) \
    && t->entry == __CPROVER_old(t->entry))

/* register_setx (static) is the common body of both variants; it is proved
 * inlined into each of them (no contract of its own: "assume the clause, then
 * assert the same clause" costs a second evaluation of the whole spec). */
RegisterAccess register_set(RegisterTable *t, const RegisterHandle idx, const RegisterValue v)
RT_SET_CONTRACT(t, idx, v, true)
;

RegisterAccess register_set_unsafe(RegisterTable *t, const RegisterHandle idx, const RegisterValue v)
RT_SET_CONTRACT(t, idx, v, false)
;

/* ---- typed get ------------------------------------------------------------ */

#define RT_V_SAME(v) ((v)->type == __CPROVER_old((v)->type) && (v)->value.u64 == __CPROVER_old((v)->value.u64))

/* outcome of a typed get, given the value it left in *v (out) */
static inline bool rt_get_ok(const RegisterTable *t, RegisterHandle idx, uint8_t rd_verdict,
                             RegisterValue out, bool out_same, RegisterAccessCode code)
{
  if (!RT_INIT(t))
    return code == REG_ACCESS_UNINITIALISED && out_same;
  if (idx >= t->entries)
    return code == REG_ACCESS_NOENTRY && out_same;
  const RegisterEntry e = t->entry[idx];
  if (e.area->read == st_area_read && ST_REFUSES(rd_verdict))
    return code == ST_RD_CODE(rd_verdict) && out_same;
  /* the returned value is the one whose image the backing words are; it is
   * reported invalid iff it is a NaN, infinite or subnormal float */
  return out.type == e.type && rt_holds(t, idx, SPEC_BITS(e.type, out.value))
      && code == (SPEC_FLOAT_OK(e.type, out.value) ? REG_ACCESS_SUCCESS : REG_ACCESS_INVALID);
}

RegisterAccess register_get(RegisterTable *t, RegisterHandle idx, RegisterValue *v)
__CPROVER_requires(__CPROVER_r_ok(t, sizeof(RegisterTable)))
__CPROVER_requires(__CPROVER_rw_ok(v, sizeof(RegisterValue)))
__CPROVER_requires(__CPROVER_rw_ok(g_cell, sizeof(RegisterAtom)) && !__CPROVER_same_object(g_cell, v))
__CPROVER_requires(IMPLIES(RT_ADDRESSED(t, idx), RT_ENTRY_R_OK(t, idx)
    && !__CPROVER_same_object(RT_A(t, idx)->mem, v)))
__CPROVER_assigns(st_rd_verdict; RT_ADDRESSED(t, idx): v->type, v->value)
__CPROVER_ensures(rt_get_ok(t, idx, __CPROVER_old(st_rd_verdict), *v, RT_V_SAME(v), __CPROVER_return_value.code))
__CPROVER_ensures(*g_cell == __CPROVER_old(*g_cell))
__CPROVER_ensures(t->flags == __CPROVER_old(t->flags) && t->entries == __CPROVER_old(t->entries)
    && t->entry == __CPROVER_old(t->entry))
;

/* ---- C05: invariant, bit operations, sanitise ---------------------------------- */

extern uint64_t g_old_bits;      /* ghost: the pattern a register holds at entry */

/* registers i and j do not share storage words (what register_init
 * establishes for any two registers: distinct areas have distinct storage,
 * registers of one area do not overlap) */
static inline bool rt_disjoint(const RegisterTable *t, RegisterHandle i, RegisterHandle j)
{
  if (i == j)
    return false;
  const RegisterEntry a = t->entry[i], b = t->entry[j];
  if (a.area != b.area)
    return !__CPROVER_same_object(a.area->mem, b.area->mem);
  return a.offset + (uint64_t)SPEC_REG_WORDS(a.type) <= b.offset
      || b.offset + (uint64_t)SPEC_REG_WORDS(b.type) <= a.offset;
}

/* bit set / bit clear.  g_old_bits names the pattern held at entry (bound in
 * `requires`; __CPROVER_old cannot go through the table of an uninitialised
 * table).  Outcome per the statement: exactly the requested bits of an
 * unsigned register change (new == old | mask resp. old & ~mask); signed,
 * float and type-mismatched operands are refused; the new value goes through
 * the checked set, so a constraint violation (or an area without write
 * callback) is refused; every refusal leaves all storage unchanged. */
static inline uint64_t rt_bitop_new(const RegisterTable *t, RegisterHandle idx, RegisterValue v, bool set, uint64_t old_bits)
{
  const uint64_t mask = SPEC_BITS(t->entry[idx].type, v.value);
  return set ? (old_bits | mask) : (old_bits & ~mask);
}

static inline bool rt_bitop_code_ok(const RegisterTable *t, RegisterHandle idx, RegisterValue v, bool set,
                                    uint8_t rd_verdict, uint8_t wr_verdict, uint64_t old_bits,
                                    RegisterAccessCode code)
{
  if (!RT_INIT(t))
    return code == REG_ACCESS_UNINITIALISED;
  if (idx >= t->entries)
    return code == REG_ACCESS_NOENTRY;
  const RegisterEntry e = t->entry[idx];
  const RegisterArea a = *e.area;
  const bool rd_refused = a.read == st_area_read && ST_REFUSES(rd_verdict);
  const bool operand_ok = SPEC_REG_IS_UNSIGNED(e.type) && v.type == e.type;
  if (rd_refused || !operand_ok)
    return (rd_refused && code == ST_RD_CODE(rd_verdict)) || (!operand_ok && code == REG_ACCESS_INVALID);
  const uint64_t mask = SPEC_BITS(e.type, v.value);
  RegisterValue nv;
  nv.type = e.type;
  nv.value.u64 = set ? (old_bits | mask) : (old_bits & ~mask);
  const bool r_range = !rt_valid(e, nv, RT_DURING(t));
  const bool r_readonly = a.write == NULL;
  if (r_range || r_readonly)
    return (r_range && code == REG_ACCESS_RANGE) || (r_readonly && code == REG_ACCESS_READONLY);
  if (a.write == st_area_write && ST_REFUSES(wr_verdict))
    return code == ST_CODE(wr_verdict);
  return code == REG_ACCESS_SUCCESS;
}

#define RT_BITOP_CONTRACT(t, idx, v, SET) \
__CPROVER_requires(__CPROVER_r_ok(t, sizeof(RegisterTable))) \
__CPROVER_requires(__CPROVER_rw_ok(g_cell, sizeof(RegisterAtom))) \
__CPROVER_requires(IMPLIES(RT_ADDRESSED(t, idx), RT_ENTRY_RW_OK(t, idx))) \
__CPROVER_requires(IMPLIES(RT_ADDRESSED(t, idx), g_old_bits == rt_bits(t, idx))) \
__CPROVER_assigns(st_rd_verdict, st_wr_verdict; \
    RT_ADDRESSED(t, idx) && SPEC_REG_W1(RT_TY(t, idx)): __CPROVER_object_upto(RT_W(t, idx), 1u * sizeof(RegisterAtom)); \
    RT_ADDRESSED(t, idx) && SPEC_REG_W2(RT_TY(t, idx)): __CPROVER_object_upto(RT_W(t, idx), 2u * sizeof(RegisterAtom)); \
    RT_ADDRESSED(t, idx) && SPEC_REG_W4(RT_TY(t, idx)): __CPROVER_object_upto(RT_W(t, idx), 4u * sizeof(RegisterAtom))) \
__CPROVER_ensures(rt_bitop_code_ok(t, idx, v, SET, __CPROVER_old(st_rd_verdict), __CPROVER_old(st_wr_verdict), \
    g_old_bits, __CPROVER_return_value.code)) \
__CPROVER_ensures(IMPLIES(__CPROVER_return_value.code == REG_ACCESS_SUCCESS, \
    rt_holds(t, idx, rt_bitop_new(t, idx, v, SET, g_old_bits)) && rt_inv(t, idx))) \
__CPROVER_ensures(IMPLIES(__CPROVER_return_value.code != REG_ACCESS_SUCCESS, *g_cell == __CPROVER_old(*g_cell))) \
__CPROVER_ensures(IMPLIES(__CPROVER_return_value.code == REG_ACCESS_SUCCESS && rt_cell_outside(t, idx, g_cell), \
    *g_cell == __CPROVER_old(*g_cell))) \
__CPROVER_ensures(t->flags == __CPROVER_old(t->flags) && t->entries == __CPROVER_old(t->entries) \
    && t->entry == __CPROVER_old(t->entry))

RegisterAccess register_bit_set(RegisterTable *t, const RegisterHandle idx, const RegisterValue v)
RT_BITOP_CONTRACT(t, idx, v, true)
;

RegisterAccess register_bit_clear(RegisterTable *t, const RegisterHandle idx, const RegisterValue v)
RT_BITOP_CONTRACT(t, idx, v, false)
;

/* ---- sanitise: the two per-register steps (pointwise, tier A) ------------------- */

/* RT_ACC(t, reg, bits): the pattern `bits` is acceptable content of register
 * reg (decodes and meets the constraint).  The contracts of the two steps and
 * of register_sanitise mention acceptability only through this macro.  The
 * steps are ENFORCED with the real definition.  The composition
 * (register_sanitise over the step contracts) is proved with RT_ABSTRACT_ACC:
 * acceptability is then an uninterpreted predicate of (handle, pattern), so
 * the solver does not compare several copies of the constraint semantics.
 * That proof holds for every predicate of (handle, pattern), hence for the
 * real one, which is such a predicate as long as no entry field other than
 * `flags` changes -- and no assigns clause involved lists any. */
#if defined(RT_ABSTRACT_ACC) && !VERIF_IS_NATIVE
unsigned __CPROVER_uninterpreted_rt_acc(uint32_t reg, uint64_t bits);
#define RT_ACC(t, reg, bits) ((__CPROVER_uninterpreted_rt_acc((uint32_t)(reg), (uint64_t)(bits)) & 1u) != 0u)
#else
#define RT_ACC(t, reg, bits) rt_bits_acceptable(t, reg, bits)
#endif

/* reg_entry_sane: SUCCESS iff the content of the register is acceptable, else
 * INVALID (does not decode) or RANGE (violates the constraint); nothing is
 * written */
static inline bool rt_sane_code_ok(const RegisterTable *t, RegisterHandle reg, uint8_t rd_verdict, RegisterAccessCode code)
{
  if (!RT_INIT(t))
    return code == REG_ACCESS_UNINITIALISED;
  if (reg >= t->entries)
    return code == REG_ACCESS_NOENTRY;
  const RegisterEntry e = t->entry[reg];
  if (e.area->read == st_area_read && ST_REFUSES(rd_verdict))
    return code == ST_RD_CODE(rd_verdict);
  const uint64_t bits = rt_bits(t, reg);
  if (RT_ACC(t, reg, bits))
    return code == REG_ACCESS_SUCCESS;
#if defined(RT_ABSTRACT_ACC) && !VERIF_IS_NATIVE
  return code == REG_ACCESS_INVALID || code == REG_ACCESS_RANGE;
#else
  RegisterValueU u;
  u.u64 = bits;
  return code == (SPEC_FLOAT_OK(e.type, u) ? REG_ACCESS_RANGE : REG_ACCESS_INVALID);
#endif
}

static RegisterAccess reg_entry_sane(RegisterTable *t, RegisterHandle reg)
__CPROVER_requires(__CPROVER_r_ok(t, sizeof(RegisterTable)))
__CPROVER_requires(IMPLIES(RT_ADDRESSED(t, reg), RT_ENTRY_R_OK(t, reg) && t->entry[reg].check.type != REGV_TYPE_FAIL))
__CPROVER_assigns(st_rd_verdict)
__CPROVER_ensures(rt_sane_code_ok(t, reg, __CPROVER_old(st_rd_verdict), __CPROVER_return_value.code))
;

/* reg_entry_load_default: a checked set of the register's default value: it
 * succeeds only with an acceptable default, which the register then holds;
 * it cannot fail with an acceptable default unless the area has no write
 * callback or the device refuses; a failure changes nothing */
static inline uint64_t rt_default_bits(const RegisterTable *t, RegisterHandle reg)
{
  const RegisterEntry e = t->entry[reg];
  return SPEC_BITS(e.type, e.default_value);
}

static inline bool rt_write_possible(const RegisterTable *t, RegisterHandle reg, uint8_t wr_verdict)
{
  const registerWrite w = t->entry[reg].area->write;
  return w != NULL && !(w == st_area_write && ST_REFUSES(wr_verdict));
}

static RegisterAccess reg_entry_load_default(RegisterTable *t, RegisterHandle reg)
__CPROVER_requires(__CPROVER_r_ok(t, sizeof(RegisterTable)))
__CPROVER_requires(__CPROVER_rw_ok(g_cell, sizeof(RegisterAtom)))
__CPROVER_requires(RT_ADDRESSED(t, reg) && RT_ENTRY_W_OK(t, reg) && t->entry[reg].check.type != REGV_TYPE_FAIL)
__CPROVER_assigns(st_wr_verdict;
    SPEC_REG_W1(RT_TY(t, reg)): __CPROVER_object_upto(RT_W(t, reg), 1u * sizeof(RegisterAtom));
    SPEC_REG_W2(RT_TY(t, reg)): __CPROVER_object_upto(RT_W(t, reg), 2u * sizeof(RegisterAtom));
    SPEC_REG_W4(RT_TY(t, reg)): __CPROVER_object_upto(RT_W(t, reg), 4u * sizeof(RegisterAtom)))
__CPROVER_ensures(IMPLIES(__CPROVER_return_value.code == REG_ACCESS_SUCCESS,
    RT_ACC(t, reg, rt_default_bits(t, reg)) && rt_holds(t, reg, rt_default_bits(t, reg))))
__CPROVER_ensures(IMPLIES(RT_ACC(t, reg, rt_default_bits(t, reg)) && rt_write_possible(t, reg, __CPROVER_old(st_wr_verdict)),
    __CPROVER_return_value.code == REG_ACCESS_SUCCESS))
__CPROVER_ensures(IMPLIES(__CPROVER_return_value.code != REG_ACCESS_SUCCESS, *g_cell == __CPROVER_old(*g_cell)))
__CPROVER_ensures(IMPLIES(__CPROVER_return_value.code == REG_ACCESS_SUCCESS && rt_cell_outside(t, reg, g_cell),
    *g_cell == __CPROVER_old(*g_cell)))
;

/* ---- sanitise: the whole function (tier A-len: tables of at most RT_SAN_EMAX
 * registers; inductive over the entries by the loop contract in
 * contracts/registers-sanitise.loops) ----------------------------------------
 *
 * Everything is stated for ONE arbitrary register g_reg and ONE arbitrary
 * valid word g_cell; the ghosts of spec/registers-sanitise.h name the facts
 * about them that do not change while sanitise runs.  What is required of
 * EVERY register (universal preconditions cannot be stated at a ghost index)
 * is spelled out for the handles 0 .. RT_SAN_EMAX-1, hence the cap. */
#include "spec/registers-sanitise.h"

extern bool g_rs_all_cf;         /* ghost: no register can make sanitise fail */

#if RT_SAN_EMAX <= 2
#define RT_SAN_ALL(P) (P(0u) && P(1u))
#elif RT_SAN_EMAX <= 4
#define RT_SAN_ALL(P) (P(0u) && P(1u) && P(2u) && P(3u))
#elif RT_SAN_EMAX <= 8
#define RT_SAN_ALL(P) (P(0u) && P(1u) && P(2u) && P(3u) && P(4u) && P(5u) && P(6u) && P(7u))
#else
#define RT_SAN_ALL(P) (P(0u) && P(1u) && P(2u) && P(3u) && P(4u) && P(5u) && P(6u) && P(7u) \
  && P(8u) && P(9u) && P(10u) && P(11u) && P(12u) && P(13u) && P(14u) && P(15u))
#endif

/* register i is memory backed and its default is acceptable: then nothing can
 * make sanitise fail at it */
static inline bool rt_san_cannot_fail(const RegisterTable *t, RegisterHandle i)
{
  const RegisterArea a = *t->entry[i].area;
  return a.read == reg_mem_read && a.write == reg_mem_write && RT_ACC(t, i, rt_default_bits(t, i));
}

/* what is required of register k (if the table has one): it is well formed,
 * readable and writable through a known callback, constrained by
 * none/min/max/range/callback (as in the statement), its flag word is
 * writable, it shares no storage word with register g_reg (table
 * well-formedness, C04) -- and what the ghost booleans claim about it */
static inline bool rt_san_entry_pre(const RegisterTable *t, RegisterHandle k)
{
  if (k >= t->entries)
    return true;
  if (!rt_entry_ok(t, k, true, true))
    return false;
  if (t->entry[k].check.type == REGV_TYPE_FAIL)
    return false;
  if (!__CPROVER_rw_ok(&t->entry[k].flags, sizeof(uint16_t)))
    return false;
  if (g_reg < t->entries && k != g_reg && !rt_disjoint(t, k, g_reg))
    return false;
  if (g_rs_cell_free && !rt_cell_outside(t, k, g_cell))
    return false;
  if (g_rs_all_cf && !rt_san_cannot_fail(t, k))
    return false;
  return true;
}
#define RT_SAN_ENTRY_PRE(k) rt_san_entry_pre(t, k)

/* the ghosts say what they are named after (register g_reg of table t) */
static inline bool rt_san_ghosts_ok(const RegisterTable *t)
{
  const RegisterEntry e = t->entry[g_reg];
  return g_rs_w == e.area->mem + e.offset
      && g_rs_fl == &t->entry[g_reg].flags
      && g_rs_n == SPEC_REG_WORDS(e.type)
      && g_rs_be == RT_BE(t)
      && g_rs_flags0 == e.flags
      && g_old_bits == rt_bits(t, g_reg)
      && g_rs_defbits == SPEC_BITS(e.type, e.default_value)
      && g_rs_old_acc == RT_ACC(t, g_reg, g_old_bits)
      && g_rs_def_acc == RT_ACC(t, g_reg, g_rs_defbits);
}

RegisterAccess register_sanitise(RegisterTable *t)
__CPROVER_requires(__CPROVER_r_ok(t, sizeof(RegisterTable)))
__CPROVER_requires(__CPROVER_rw_ok(g_cell, sizeof(RegisterAtom)))
__CPROVER_requires(IMPLIES(RT_INIT(t), t->entries <= RT_SAN_EMAX && RT_SAN_ALL(RT_SAN_ENTRY_PRE)))
/* nothing is required of the CONTENT of the storage: arbitrary corruption */
__CPROVER_requires(IMPLIES(RT_INIT(t) && g_reg < t->entries, rt_san_ghosts_ok(t)))
__CPROVER_assigns(st_rd_verdict, st_wr_verdict; RS_ALL_TGT(t))
__CPROVER_ensures(IMPLIES(!RT_INIT(t),
    __CPROVER_return_value.code == REG_ACCESS_UNINITIALISED && *g_cell == __CPROVER_old(*g_cell)))
/* success: a register whose content decoded and met its constraint keeps its
 * value, any other is reset to its default; all touched marks are cleared (no
 * other flag changes); hence every register now decodes and satisfies its
 * constraint */
__CPROVER_ensures(IMPLIES(RT_INIT(t) && __CPROVER_return_value.code == REG_ACCESS_SUCCESS && g_reg < t->entries,
    (RT_ACC(t, g_reg, g_old_bits)
       ? rt_bits(t, g_reg) == g_old_bits
       : rt_holds(t, g_reg, rt_default_bits(t, g_reg)))
    && (t->entry[g_reg].flags & REG_EF_TOUCHED) == 0
    && (t->entry[g_reg].flags | REG_EF_TOUCHED) == (g_rs_flags0 | REG_EF_TOUCHED)
    && RT_ACC(t, g_reg, rt_bits(t, g_reg))))
/* it can only fail where a default cannot be loaded or a device refuses */
__CPROVER_ensures(IMPLIES(RT_INIT(t) && g_rs_all_cf, __CPROVER_return_value.code == REG_ACCESS_SUCCESS))
/* words that belong to no register are never touched (success or not) */
__CPROVER_ensures(IMPLIES(RT_INIT(t) && g_rs_cell_free, *g_cell == __CPROVER_old(*g_cell)))
__CPROVER_ensures(t->flags == __CPROVER_old(t->flags) && t->entries == __CPROVER_old(t->entries)
    && t->entry == __CPROVER_old(t->entry))
;

#endif /* CONTRACTS_REGISTERS_TYPED_H */
