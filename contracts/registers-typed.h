/* Contracts of the typed-access part of src/registers/core.c (properties C01
 * and C05): the 16 serialisers/deserialisers, the constraint checks, the
 * memory-area callbacks, register_setx / register_set / register_set_unsafe /
 * register_get, register_bit_set / register_bit_clear, reg_entry_sane,
 * reg_entry_load_default, register_sanitise.
 *
 * Top-level postconditions are the property statements (spec/registers.h is
 * the oracle).  The table preconditions are POINTWISE: `entries` is arbitrary
 * and only the entry that is addressed is required to be well formed (what
 * register_init establishes for every entry), so the proofs do not depend on
 * the table size.  Nothing at all is required of an uninitialised table or of
 * a handle >= entries.
 *
 * Storage frames: every write is checked against `assigns`; in addition
 * "unchanged" is stated for the ghost cell g_cell, an ARBITRARY valid word
 * anywhere (pre-state snapshots need an lvalue that is valid in every case,
 * also for uninitialised tables, hence a ghost pointer and not a path through
 * the table).  g_k is the index of that word in the addressed register's
 * area when it lies there.
 */
#ifndef CONTRACTS_REGISTERS_TYPED_H
#define CONTRACTS_REGISTERS_TYPED_H
#include "spec/registers.h"
#include "stubs/register_callbacks.h"

extern RegisterAtom *g_cell;     /* arbitrary valid word (ghost) */

#define RT_INIT(t) (((t)->flags & REG_TF_INITIALISED) != 0)
#define RT_BE(t) (((t)->flags & REG_TF_BIG_ENDIAN) != 0)
#define RT_DURING(t) (((t)->flags & REG_TF_DURING_INIT) != 0)
#define RT_E(t, i) ((t)->entry + (i))
#define RT_A(t, i) ((t)->entry[i].area)
#define RT_N(t, i) SPEC_REG_WORDS((t)->entry[i].type)
#define RT_OFF(t, i) ((t)->entry[i].offset)
#define RT_W(t, i) (RT_A(t, i)->mem + RT_OFF(t, i))
#define RT_TY(t, i) ((t)->entry[i].type)
#define RT_ADDRESSED(t, i) (RT_INIT(t) && (i) < (t)->entries)

/* entry i is well formed (established by register_init for every entry) */
#define RT_ENTRY_OK(t, i) \
  (__CPROVER_r_ok(RT_E(t, i), sizeof(RegisterEntry)) \
   && SPEC_REG_TYPE_OK(RT_TY(t, i)) && SPEC_REGV_TYPE_OK((t)->entry[i].check.type) \
   && IMPLIES((t)->entry[i].check.type == REGV_TYPE_CALLBACK, (t)->entry[i].check.arg.cb == st_validator) \
   && __CPROVER_r_ok(RT_A(t, i), sizeof(RegisterArea)) \
   && RT_OFF(t, i) <= RT_A(t, i)->size && RT_N(t, i) <= RT_A(t, i)->size - RT_OFF(t, i) \
   && __CPROVER_rw_ok(RT_A(t, i)->mem, (size_t)RT_A(t, i)->size * sizeof(RegisterAtom)) \
   && !__CPROVER_same_object(RT_A(t, i)->mem, (t)) && !__CPROVER_same_object(RT_A(t, i)->mem, (t)->entry) \
   && !__CPROVER_same_object(RT_A(t, i)->mem, RT_A(t, i)))
/* its area is memory backed or callback backed (or has no write callback) */
#define RT_AREA_W_OK(t, i) \
  (RT_A(t, i)->write == NULL || RT_A(t, i)->write == reg_mem_write || RT_A(t, i)->write == st_area_write)
#define RT_AREA_R_OK(t, i) \
  (RT_A(t, i)->read == reg_mem_read || RT_A(t, i)->read == st_area_read)

/* ---- serialisers / deserialisers -------------------------------------- */

#define RT_CLW(w, n) ((w) < (n) ? (w) : 0u)
#define RDS_SER_CONTRACT(fn, TY, NW) \
static bool fn(const RegisterValue v, RegisterAtom *r, const bool bigendian) \
__CPROVER_requires(__CPROVER_rw_ok(r, NW * sizeof(RegisterAtom))) \
__CPROVER_assigns(__CPROVER_object_upto(r, NW * sizeof(RegisterAtom))) \
__CPROVER_ensures(__CPROVER_return_value == spec_float_ok(TY, spec_bits(TY, v.value))) \
__CPROVER_ensures(IMPLIES(__CPROVER_return_value, \
    SPEC_WORDS_ARE(r, NW, spec_bits(TY, v.value), bigendian))) \
__CPROVER_ensures(IMPLIES(!__CPROVER_return_value, \
    r[0] == __CPROVER_old(r[0]) \
    && r[RT_CLW(1u, NW)] == __CPROVER_old(r[RT_CLW(1u, NW)]) \
    && r[RT_CLW(2u, NW)] == __CPROVER_old(r[RT_CLW(2u, NW)]) \
    && r[RT_CLW(3u, NW)] == __CPROVER_old(r[RT_CLW(3u, NW)]))) \
;

#define RDS_DES_CONTRACT(fn, TY, NW) \
static bool fn(const RegisterAtom *r, RegisterValue *v, const bool bigendian) \
__CPROVER_requires(__CPROVER_r_ok(r, NW * sizeof(RegisterAtom))) \
__CPROVER_requires(__CPROVER_rw_ok(v, sizeof(RegisterValue)) && !__CPROVER_same_object(r, v)) \
__CPROVER_assigns(v->type, v->value) \
__CPROVER_ensures(v->type == TY) \
__CPROVER_ensures(SPEC_WORDS_ARE(r, NW, spec_bits(TY, v->value), bigendian)) \
__CPROVER_ensures(__CPROVER_return_value == spec_float_ok(TY, spec_bits(TY, v->value))) \
;

RDS_SER_CONTRACT(rds_u16_ser, REG_TYPE_UINT16, 1u)
RDS_SER_CONTRACT(rds_u32_ser, REG_TYPE_UINT32, 2u)
RDS_SER_CONTRACT(rds_u64_ser, REG_TYPE_UINT64, 4u)
RDS_SER_CONTRACT(rds_s16_ser, REG_TYPE_SINT16, 1u)
RDS_SER_CONTRACT(rds_s32_ser, REG_TYPE_SINT32, 2u)
RDS_SER_CONTRACT(rds_s64_ser, REG_TYPE_SINT64, 4u)
RDS_SER_CONTRACT(rds_f32_ser, REG_TYPE_FLOAT32, 2u)
RDS_SER_CONTRACT(rds_f64_ser, REG_TYPE_FLOAT64, 4u)
RDS_DES_CONTRACT(rds_u16_des, REG_TYPE_UINT16, 1u)
RDS_DES_CONTRACT(rds_u32_des, REG_TYPE_UINT32, 2u)
RDS_DES_CONTRACT(rds_u64_des, REG_TYPE_UINT64, 4u)
RDS_DES_CONTRACT(rds_s16_des, REG_TYPE_SINT16, 1u)
RDS_DES_CONTRACT(rds_s32_des, REG_TYPE_SINT32, 2u)
RDS_DES_CONTRACT(rds_s64_des, REG_TYPE_SINT64, 4u)
RDS_DES_CONTRACT(rds_f32_des, REG_TYPE_FLOAT32, 2u)
RDS_DES_CONTRACT(rds_f64_des, REG_TYPE_FLOAT64, 4u)

/* ---- constraint checks -------------------------------------------------- */

static inline bool rv_check_min_value(const RegisterValueU limit, const RegisterValue v)
__CPROVER_assigns()
__CPROVER_ensures(__CPROVER_return_value == spec_min_ok(v.type, v.value, limit))
;

static inline bool rv_check_max_value(const RegisterValueU limit, const RegisterValue v)
__CPROVER_assigns()
__CPROVER_ensures(__CPROVER_return_value == spec_max_ok(v.type, v.value, limit))
;

static inline bool rv_check_range(RegisterEntry *e, const RegisterValue v)
__CPROVER_requires(__CPROVER_r_ok(e, sizeof(RegisterEntry)))
__CPROVER_assigns()
__CPROVER_ensures(__CPROVER_return_value ==
    (spec_min_ok(v.type, v.value, e->check.arg.range.min) && spec_max_ok(v.type, v.value, e->check.arg.range.max)))
;

static bool rv_validate(RegisterTable *t, RegisterEntry *e, const RegisterValue v)
__CPROVER_requires(__CPROVER_r_ok(t, sizeof(RegisterTable)) && __CPROVER_r_ok(e, sizeof(RegisterEntry)))
__CPROVER_requires(SPEC_REG_TYPE_OK(e->type) && SPEC_REGV_TYPE_OK(e->check.type))
__CPROVER_requires(IMPLIES(e->check.type == REGV_TYPE_CALLBACK, e->check.arg.cb == st_validator))
__CPROVER_assigns()
__CPROVER_ensures(__CPROVER_return_value == spec_valid(e, v, RT_DURING(t)))
;

/* ---- memory-area callbacks ---------------------------------------------- */

#define RT_MEM_OK(a, offset, n) \
  (__CPROVER_r_ok((a), sizeof(RegisterArea)) && (a)->size >= 1u \
   && (offset) <= (a)->size && (n) <= (a)->size - (offset) \
   && __CPROVER_rw_ok((a)->mem, (size_t)(a)->size * sizeof(RegisterAtom)) \
   && !__CPROVER_same_object((a)->mem, (a)))

RegisterAccess reg_mem_read(const RegisterArea *a, RegisterAtom *dest,
                            RegisterOffset offset, RegisterOffset n)
__CPROVER_requires(RT_MEM_OK(a, offset, n))
__CPROVER_requires(IMPLIES(n > 0u, __CPROVER_rw_ok(dest, (size_t)n * sizeof(RegisterAtom))))
__CPROVER_requires(!__CPROVER_same_object(dest, a->mem) && !__CPROVER_same_object(dest, a))
__CPROVER_assigns(n > 0u: __CPROVER_object_upto(dest, (size_t)n * sizeof(RegisterAtom)))
__CPROVER_ensures(__CPROVER_return_value.code == REG_ACCESS_SUCCESS)
__CPROVER_ensures(IMPLIES(g_k < n, dest[g_k] == a->mem[(size_t)offset + g_k]))
;

RegisterAccess reg_mem_write(RegisterArea *a, const RegisterAtom *src,
                             RegisterOffset offset, RegisterOffset n)
__CPROVER_requires(RT_MEM_OK(a, offset, n))
__CPROVER_requires(IMPLIES(n > 0u, __CPROVER_r_ok(src, (size_t)n * sizeof(RegisterAtom))))
__CPROVER_requires(!__CPROVER_same_object(src, a->mem))
__CPROVER_assigns(n > 0u: __CPROVER_object_upto(a->mem + offset, (size_t)n * sizeof(RegisterAtom)))
__CPROVER_ensures(__CPROVER_return_value.code == REG_ACCESS_SUCCESS)
__CPROVER_ensures(IMPLIES(g_k < n, a->mem[(size_t)offset + g_k] == src[g_k]))
__CPROVER_ensures(IMPLIES(g_j < a->size && (g_j < offset || g_j - offset >= n),
    a->mem[RT_CLW(g_j, a->size)] == __CPROVER_old(a->mem[RT_CLW(g_j, a->size)])))
;

/* ---- typed set ------------------------------------------------------------ */

/* the value as the register's own type reads it */
#define RT_VBITS(t, i, v) spec_bits(RT_TY(t, i), (v).value)
#define RT_WR_REFUSED(t, i) (RT_A(t, i)->write == st_area_write && ST_REFUSES(__CPROVER_old(st_wr_verdict)))

#define RT_SET_CONTRACT(t, idx, v, wv) \
__CPROVER_requires(__CPROVER_r_ok(t, sizeof(RegisterTable))) \
__CPROVER_requires(__CPROVER_rw_ok(g_cell, sizeof(RegisterAtom))) \
__CPROVER_requires(IMPLIES(RT_ADDRESSED(t, idx), RT_ENTRY_OK(t, idx) && RT_AREA_W_OK(t, idx))) \
__CPROVER_assigns(st_wr_verdict; \
    spec_set_reasons(t, idx, v, wv) == 0u && SPEC_REG_W1(RT_TY(t, idx)): __CPROVER_object_upto(RT_W(t, idx), 1u * sizeof(RegisterAtom)); \
    spec_set_reasons(t, idx, v, wv) == 0u && SPEC_REG_W2(RT_TY(t, idx)): __CPROVER_object_upto(RT_W(t, idx), 2u * sizeof(RegisterAtom)); \
    spec_set_reasons(t, idx, v, wv) == 0u && SPEC_REG_W4(RT_TY(t, idx)): __CPROVER_object_upto(RT_W(t, idx), 4u * sizeof(RegisterAtom))) \
/* refused: uninitialised table; not a register of the table ("no such entry"); \
 * wrong type or constraint violated (checked variant); no write callback; \
 * NaN, infinite or subnormal float */ \
__CPROVER_ensures(IMPLIES(spec_set_reasons(t, idx, v, wv) != 0u, \
    spec_code_names_reason(__CPROVER_return_value.code, spec_set_reasons(t, idx, v, wv)))) \
/* the device refuses */ \
__CPROVER_ensures(IMPLIES(spec_set_reasons(t, idx, v, wv) == 0u && RT_WR_REFUSED(t, idx), \
    __CPROVER_return_value.code == ST_CODE(__CPROVER_old(st_wr_verdict)))) \
/* success: the backing words hold exactly the value in the table's byte order */ \
__CPROVER_ensures(IMPLIES(spec_set_reasons(t, idx, v, wv) == 0u && !RT_WR_REFUSED(t, idx), \
    __CPROVER_return_value.code == REG_ACCESS_SUCCESS && spec_reg_holds(t, idx, RT_VBITS(t, idx, v)))) \
/* a refused set leaves every word unchanged; a successful one every other word */ \
__CPROVER_ensures(IMPLIES(__CPROVER_return_value.code != REG_ACCESS_SUCCESS, *g_cell == __CPROVER_old(*g_cell))) \
__CPROVER_ensures(IMPLIES(__CPROVER_return_value.code == REG_ACCESS_SUCCESS \
    && g_k < RT_A(t, idx)->size && g_cell == RT_A(t, idx)->mem + g_k \
    && (g_k < RT_OFF(t, idx) || g_k - RT_OFF(t, idx) >= RT_N(t, idx)), *g_cell == __CPROVER_old(*g_cell))) \
__CPROVER_ensures(t->flags == __CPROVER_old(t->flags) && t->entries == __CPROVER_old(t->entries) \
    && t->entry == __CPROVER_old(t->entry))

static RegisterAccess register_setx(RegisterTable *t, const RegisterHandle idx,
                                    const RegisterValue v, const bool withvalidator)
RT_SET_CONTRACT(t, idx, v, withvalidator)
;

RegisterAccess register_set(RegisterTable *t, const RegisterHandle idx, const RegisterValue v)
RT_SET_CONTRACT(t, idx, v, true)
;

RegisterAccess register_set_unsafe(RegisterTable *t, const RegisterHandle idx, const RegisterValue v)
RT_SET_CONTRACT(t, idx, v, false)
;

/* ---- typed get ------------------------------------------------------------ */

#define RT_RD_REFUSED(t, i) (RT_A(t, i)->read == st_area_read && ST_REFUSES(__CPROVER_old(st_rd_verdict)))
#define RT_V_SAME(v) ((v)->type == __CPROVER_old((v)->type) && (v)->value.u64 == __CPROVER_old((v)->value.u64))

RegisterAccess register_get(RegisterTable *t, RegisterHandle idx, RegisterValue *v)
__CPROVER_requires(__CPROVER_r_ok(t, sizeof(RegisterTable)))
__CPROVER_requires(__CPROVER_rw_ok(v, sizeof(RegisterValue)))
__CPROVER_requires(__CPROVER_rw_ok(g_cell, sizeof(RegisterAtom)) && !__CPROVER_same_object(g_cell, v))
__CPROVER_requires(IMPLIES(RT_ADDRESSED(t, idx), RT_ENTRY_OK(t, idx) && RT_AREA_R_OK(t, idx)
    && !__CPROVER_same_object(RT_A(t, idx)->mem, v)))
__CPROVER_assigns(st_rd_verdict; RT_ADDRESSED(t, idx): v->type, v->value)
__CPROVER_ensures(IMPLIES(!RT_INIT(t), __CPROVER_return_value.code == REG_ACCESS_UNINITIALISED && RT_V_SAME(v)))
__CPROVER_ensures(IMPLIES(RT_INIT(t) && idx >= t->entries,
    __CPROVER_return_value.code == REG_ACCESS_NOENTRY && RT_V_SAME(v)))
__CPROVER_ensures(IMPLIES(RT_ADDRESSED(t, idx) && RT_RD_REFUSED(t, idx),
    __CPROVER_return_value.code == ST_CODE(__CPROVER_old(st_rd_verdict)) && RT_V_SAME(v)))
/* the returned value is the one whose image the backing words are */
__CPROVER_ensures(IMPLIES(RT_ADDRESSED(t, idx) && !RT_RD_REFUSED(t, idx),
    v->type == RT_TY(t, idx) && spec_reg_holds(t, idx, spec_bits(v->type, v->value))
    && __CPROVER_return_value.code ==
       (spec_float_ok(v->type, spec_bits(v->type, v->value)) ? REG_ACCESS_SUCCESS : REG_ACCESS_INVALID)))
__CPROVER_ensures(*g_cell == __CPROVER_old(*g_cell))
__CPROVER_ensures(t->flags == __CPROVER_old(t->flags) && t->entries == __CPROVER_old(t->entries)
    && t->entry == __CPROVER_old(t->entry))
;

#endif /* CONTRACTS_REGISTERS_TYPED_H */
