/* Contracts of the ring buffer (property C19): include/ufw/ring-buffer.h,
 * include/ufw/ring-buffer-iter.h, src/ring-buffer-iter.c, src/octet-ring.c.
 *
 * The ring buffer is a macro-generated API.  The contracts are written once
 * (contracts/ring-buffer.tpl.h, parameterised by RB_N = instance name and
 * RB_T = element type) and instantiated for `octet_ring` (uint8_t, the
 * instance compiled into the library) and for `word_ring` (uint32_t, a second
 * instance of the very same macros, harness/word-ring.h).
 *
 * Abstract view (property statement): a queue of at most `datasize` elements.
 *   len        number of queued elements
 *   Q[k]       k-th oldest element, k < len
 * Representation (helper fact derived from the code): head = next write
 * slot, tail = slot of the oldest element, tail == datasize encodes "empty",
 * head == tail encodes "full":
 *   len  = tail == n ? 0 : (head > tail ? head - tail : n - tail + head)
 *   Q[k] = data[(tail + k) mod n]
 * Every state with data != NULL, 1 <= n, head < n, tail <= n is reachable
 * (put/get move head and tail independently, clear sets tail = n), so RB_WF
 * is exactly the reachable set; every operation is proved to preserve it,
 * which is the induction over "every sequence of put, get, clear and
 * override-mode changes".
 *
 * Element facts are stated at the ghost queue position g_k (arbitrary, hence
 * universal), cell frames at the ghost slot g_j.
 */
#ifndef CONTRACTS_RING_BUFFER_H
#define CONTRACTS_RING_BUFFER_H

#include <stdint.h>
#include <limits.h>

#define RB_WF(c) ((c)->data != NULL && (c)->datasize >= 1 \
                  && (c)->head < (c)->datasize && (c)->tail <= (c)->datasize)
/* (t + k) mod n for t <= n, k <= n, without a division */
#define RB_SLOT_(t, k, n) ((t) + (k) < (n) ? (t) + (k) : (t) + (k) - (n))
#define RB_LEN_(h, t, n) ((t) == (n) ? (size_t)0 : ((h) > (t) ? (h) - (t) : (n) - (t) + (h)))
#define RB_LEN(c) RB_LEN_((c)->head, (c)->tail, (c)->datasize)
#define RB_OLD_LEN(c) RB_LEN_(__CPROVER_old((c)->head), __CPROVER_old((c)->tail), __CPROVER_old((c)->datasize))
/* clamp so that a pre-state snapshot never reads out of bounds */
#define RB_CL(i, n) ((i) < (n) ? (i) : 0)
/* k-th oldest element in the current state / in the pre-state */
#define RB_Q(c, k) ((c)->data[RB_CL(RB_SLOT_((c)->tail, (k), (c)->datasize), (c)->datasize)])
#define RB_OLD_Q(c, k) __CPROVER_old((c)->data[RB_CL(RB_SLOT_((c)->tail, (k), (c)->datasize), (c)->datasize)])
#define RB_CELL_SAME(c, i) \
  IMPLIES((i) < (c)->datasize, (c)->data[RB_CL(i, (c)->datasize)] == __CPROVER_old((c)->data[RB_CL(i, (c)->datasize)]))
#define RB_SHAPE_SAME(c) ((c)->data == __CPROVER_old((c)->data) && (c)->datasize == __CPROVER_old((c)->datasize))
#define RB_POLICY_SAME(c) ((c)->override_if_full == __CPROVER_old((c)->override_if_full))
#define RB_MODE_OK(m) ((m) == RING_BUFFER_ITER_OLD_TO_NEW || (m) == RING_BUFFER_ITER_NEW_TO_OLD)

/* ---- type-agnostic iterator functions (src/ring-buffer-iter.c) ---- */

/* done <=> no step left */
bool rb_iter_done(const rb_iter *iter)
__CPROVER_requires(__CPROVER_r_ok(iter, sizeof(rb_iter)))
__CPROVER_assigns()
__CPROVER_ensures(__CPROVER_return_value == (iter->steps == 0))
;

/* advance: one step less; the index moves one slot towards newer elements
 * (old-to-new) or older elements (new-to-old), cyclically */
size_t rb_iter_advance(rb_iter *iter)
__CPROVER_requires(__CPROVER_rw_ok(iter, sizeof(rb_iter)))
__CPROVER_requires(RB_MODE_OK(iter->mode) && iter->size >= 1 && iter->index < iter->size && iter->steps > 0)
__CPROVER_assigns(iter->index, iter->steps)
__CPROVER_ensures(iter->steps == __CPROVER_old(iter->steps) - 1)
__CPROVER_ensures(iter->size == __CPROVER_old(iter->size) && iter->mode == __CPROVER_old(iter->mode))
__CPROVER_ensures(IMPLIES(iter->mode == RING_BUFFER_ITER_OLD_TO_NEW,
    iter->index == RB_SLOT_(__CPROVER_old(iter->index), 1, iter->size)))
__CPROVER_ensures(IMPLIES(iter->mode == RING_BUFFER_ITER_NEW_TO_OLD,
    iter->index == (__CPROVER_old(iter->index) == 0 ? iter->size - 1 : __CPROVER_old(iter->index) - 1)))
__CPROVER_ensures(__CPROVER_return_value == iter->index && iter->index < iter->size)
;

/* ---- instance: octet_ring (uint8_t), src/octet-ring.c ---- */
#define RB_N octet_ring
#define RB_T uint8_t
#include "contracts/ring-buffer.tpl.h"
#undef RB_N
#undef RB_T

/* ---- instance: word_ring (uint32_t), harness/word-ring.h ---- */
#ifdef RB_HAVE_WORD_RING
#define RB_N word_ring
#define RB_T uint32_t
#include "contracts/ring-buffer.tpl.h"
#undef RB_N
#undef RB_T
#endif

#endif
