/* Contracts of src/crc-16-arc.c (property C16).
 *
 * The checksum of an octet sequence is a fold; the contract language has no
 * recursion, so the fold is pinned by a ghost trace: g_crcT[0] is the
 * starting value and g_crcT[k+1] == spec_crc16_step(g_crcT[k], octet k) for
 * every k < n (bounded-forall axiom in `requires`, expanded by the SAT back end
 * over the constant CRC_NMAX: tier A-len).  The loop proof itself is
 * inductive.  g_crcT is a ghost *pointer* so that a lemma can apply the
 * contract to a slice of a longer trace (concatenation).
 */
#ifndef CONTRACTS_CRC16_H
#define CONTRACTS_CRC16_H
#include "spec/crc16.h"
#ifndef CRC_NMAX
#define CRC_NMAX 64
#endif
extern const uint16_t *g_crcT;

#define CRC_TRACE_OK(T, start, bytes, n) \
  ((T)[0] == (start) && __CPROVER_forall { size_t k_; (k_ < CRC_NMAX) ==> \
      ((k_ < (n)) ==> (T)[k_ + 1] == SPEC_CRC16_STEP((T)[k_], ((const uint8_t *)(bytes))[k_])) })

static inline uint16_t crc16_octet(uint16_t crc, const uint_least8_t data)
__CPROVER_assigns()
__CPROVER_ensures(__CPROVER_return_value == spec_crc16_step(crc, (uint8_t)(data & 0xffu)))
;

uint16_t ufw_crc16_arc(uint16_t crc, const void *buffer, size_t n)
__CPROVER_requires(n <= CRC_NMAX && __CPROVER_r_ok(buffer, n))
__CPROVER_requires(__CPROVER_r_ok(g_crcT, (n + 1) * sizeof(uint16_t)))
__CPROVER_requires(CRC_TRACE_OK(g_crcT, crc, buffer, n))
__CPROVER_assigns()
__CPROVER_ensures(__CPROVER_return_value == g_crcT[n])
;

uint16_t ufw_buffer_crc16_arc(const void *buffer, size_t len)
__CPROVER_requires(len <= CRC_NMAX && __CPROVER_r_ok(buffer, len))
__CPROVER_requires(__CPROVER_r_ok(g_crcT, (len + 1) * sizeof(uint16_t)))
__CPROVER_requires(CRC_TRACE_OK(g_crcT, 0, buffer, len))
__CPROVER_assigns()
__CPROVER_ensures(__CPROVER_return_value == g_crcT[len])
;

/* word variant == octet variant over the words' in-memory octet image: the
 * trace axiom is the same one, stated over ((uint8_t *)buffer)[0 .. 2*len) */
uint16_t ufw_crc16_arc_u16(uint16_t crc, const uint16_t *buffer, size_t len)
__CPROVER_requires(2 * len <= CRC_NMAX && len <= CRC_NMAX && __CPROVER_r_ok(buffer, 2 * len))
__CPROVER_requires(__CPROVER_r_ok(g_crcT, (2 * len + 1) * sizeof(uint16_t)))
__CPROVER_requires(CRC_TRACE_OK(g_crcT, crc, buffer, 2 * len))
__CPROVER_assigns()
__CPROVER_ensures(__CPROVER_return_value == g_crcT[2 * len])
;

uint16_t ufw_buffer_crc16_arc_u16(const uint16_t *buffer, size_t len)
__CPROVER_requires(2 * len <= CRC_NMAX && len <= CRC_NMAX && __CPROVER_r_ok(buffer, 2 * len))
__CPROVER_requires(__CPROVER_r_ok(g_crcT, (2 * len + 1) * sizeof(uint16_t)))
__CPROVER_requires(CRC_TRACE_OK(g_crcT, 0, buffer, 2 * len))
__CPROVER_assigns()
__CPROVER_ensures(__CPROVER_return_value == g_crcT[2 * len])
;
#endif
