/* Contracts of src/persistent-storage.c (properties C10 and C11).
 *
 * Top-level postconditions are taken from the property statements:
 *   C10  store => medium data == new image, checksum field == configured
 *        algorithm applied to the data image on the medium (however the
 *        library chunks its reads); validate succeeds <=> field == algorithm
 *        applied to the medium's data image; fetch returns the image; part
 *        accesses with offset + n > data size IN MATHEMATICAL INTEGERS are
 *        refused without touching the medium; every medium access inside the
 *        instance's region (monitor in the stubs); reset sets every octet of
 *        the region to the fill value and nothing else.
 *   C11  the medium writes of a store are a prefix of <data write, checksum
 *        write>, in this order, each at most once (ghost write log); a medium
 *        call that fails or transfers short makes the operation return
 *        PERSISTENT_ACCESS_IO_ERROR, never success.
 *
 * The medium, the write log, the fault flag and the checksum fold are ghost
 * state owned by stubs/persistent_medium.h (read its head comment first).
 * Medium content is stated for the checksum field octets g_ps_f0..3 and for
 * the octet g_ps_cell at the arbitrary address g_a (= every other octet).
 */
#ifndef CONTRACTS_PERSISTENT_STORAGE_H
#define CONTRACTS_PERSISTENT_STORAGE_H
#include "spec/persistent.h"
#include "stubs/persistent_medium.h"

#ifndef TS_NMAX
#define TS_NMAX 64
#endif

/* ---- well-formed instance (type invariant + binding of the ghost region) ---- */
#define PS_16(s) ((s)->checksum.type == PERSISTENT_CHECKSUM_16BIT)
#define PS_CSZ(s) (PS_16(s) ? (size_t)2 : (size_t)4)
#define PS_TYPE_OK(s) ((s)->checksum.type == PERSISTENT_CHECKSUM_16BIT || (s)->checksum.type == PERSISTENT_CHECKSUM_32BIT)
/* layout as established by persistent_init/sum16/sum32/place (target
 * lemma_config), data size >= 1, the region does not wrap the 32-bit
 * address space (standing assumption) */
#define PS_CFG_OK(s) (PS_TYPE_OK(s) && (s)->checksum.size == PS_CSZ(s) \
    && (s)->data.address == (uint32_t)((s)->checksum.address + (uint32_t)(s)->checksum.size) \
    && (s)->data.size >= 1 \
    && (uint64_t)(s)->checksum.address + (uint64_t)PS_CSZ(s) <= 0x100000000ull \
    && (uint64_t)(s)->data.size <= 0x100000000ull - ((uint64_t)(s)->checksum.address + (uint64_t)PS_CSZ(s)))
#define PS_CB_OK(s) ((s)->block.read == st_medium_read && (s)->block.write == st_medium_write \
    && (PS_16(s) ? (s)->checksum.process.c16 == st_sum16 : (s)->checksum.process.c32 == st_sum32))
/* auxiliary buffer: none, or ANY size including 0 */
#define PS_BUF_OK(s) ((s)->buffer.data == NULL \
    || (__CPROVER_rw_ok((s)->buffer.data, (s)->buffer.size) && !__CPROVER_same_object((s)->buffer.data, (s))))
#define PS_GHOST_OK(s) (g_ps_lo == (uint64_t)(s)->checksum.address && g_ps_dlo == g_ps_lo + (uint64_t)PS_CSZ(s) \
    && g_ps_hi == g_ps_dlo + (uint64_t)(s)->data.size && g_ps_fault == 0)
#define PS_OK(s) (__CPROVER_rw_ok((s), sizeof(PersistentStorage)) && PS_CFG_OK(s) && PS_CB_OK(s) \
    && PS_BUF_OK(s) && PS_GHOST_OK(s))
/* no fold in progress: the next call of the algorithm starts at the configured initial value */
#define PS_FOLD_FRESH(s) (g_ps_cpos == 0 \
    && (PS_16(s) ? (uint16_t)g_ps_crun == (s)->checksum.initial.sum16 : g_ps_crun == (s)->checksum.initial.sum32))

/* value of the checksum field on the medium / the algorithm applied to the medium's data image */
#define PS_FIELD(s) (PS_16(s) ? SPEC_PS_LE16(g_ps_f0, g_ps_f1) : SPEC_PS_LE32(g_ps_f0, g_ps_f1, g_ps_f2, g_ps_f3))
#define PS_FINAL(s) (PS_16(s) ? (uint32_t)(uint16_t)g_ps_cfinal : g_ps_cfinal)
#define PS_SUMVAL(s, u) (PS_16(s) ? (uint32_t)(u).sum16 : (u).sum32)

#define PS_IO(fault) ((fault) ? PERSISTENT_ACCESS_IO_ERROR : PERSISTENT_ACCESS_SUCCESS)
/* g_a lies in [start, start+len) (absolute medium addresses), outside the checksum field */
#define PS_GA_IN(start, len) (PM_CELL_ADDR() && PM_IN(g_a, (start), (len)))
#define PS_BUF_ASSIGN(s) __CPROVER_object_upto((s)->buffer.data, (s)->buffer.size)
#define PS_WLOG g_ps_nwr, g_ps_w0a, g_ps_w0n, g_ps_w0r, g_ps_w1a, g_ps_w1n, g_ps_w1r
#define PS_FIELD_SAME() (g_ps_f0 == __CPROVER_old(g_ps_f0) && g_ps_f1 == __CPROVER_old(g_ps_f1) \
    && g_ps_f2 == __CPROVER_old(g_ps_f2) && g_ps_f3 == __CPROVER_old(g_ps_f3))

/* ------------------------------------------------------------------------ */
/* configuration                                                             */

static inline size_t checksum_size(const PersistentStorage *store)
__CPROVER_requires(__CPROVER_r_ok(store, sizeof(PersistentStorage)) && PS_TYPE_OK(store))
__CPROVER_assigns()
__CPROVER_ensures(__CPROVER_return_value == (PS_16(store) ? (size_t)2 : (size_t)4))
;

static inline void set_data_address(PersistentStorage *store)
__CPROVER_requires(__CPROVER_rw_ok(store, sizeof(PersistentStorage)))
__CPROVER_assigns(store->data.address)
__CPROVER_ensures(store->data.address == (uint32_t)(store->checksum.address + (uint32_t)store->checksum.size))
;

void persistent_sum16(PersistentStorage *store, PersistentChksum16 f, uint16_t init)
__CPROVER_requires(__CPROVER_rw_ok(store, sizeof(PersistentStorage)))
__CPROVER_assigns(store->checksum.initial, store->checksum.type, store->checksum.size,
                  store->checksum.process, store->data.address)
__CPROVER_ensures(store->checksum.type == PERSISTENT_CHECKSUM_16BIT && store->checksum.size == 2
    && store->checksum.initial.sum16 == init && store->checksum.process.c16 == f
    && store->data.address == (uint32_t)(store->checksum.address + 2u))
;

void persistent_sum32(PersistentStorage *store, PersistentChksum32 f, uint32_t init)
__CPROVER_requires(__CPROVER_rw_ok(store, sizeof(PersistentStorage)))
__CPROVER_assigns(store->checksum.initial, store->checksum.type, store->checksum.size,
                  store->checksum.process, store->data.address)
__CPROVER_ensures(store->checksum.type == PERSISTENT_CHECKSUM_32BIT && store->checksum.size == 4
    && store->checksum.initial.sum32 == init && store->checksum.process.c32 == f
    && store->data.address == (uint32_t)(store->checksum.address + 4u))
;

void persistent_init(PersistentStorage *store, const size_t size,
                     const PersistentBlockRead rd, const PersistentBlockWrite wr)
__CPROVER_requires(__CPROVER_rw_ok(store, sizeof(PersistentStorage)))
__CPROVER_assigns(store->checksum.address, store->checksum.initial, store->checksum.type,
                  store->checksum.size, store->checksum.process, store->data.address,
                  store->data.size, store->block.read, store->block.write,
                  store->buffer.size, store->buffer.data)
__CPROVER_ensures(store->checksum.address == 0 && store->checksum.type == PERSISTENT_CHECKSUM_16BIT
    && store->checksum.size == 2 && store->checksum.initial.sum16 == 0
    && store->checksum.process.c16 == trivialsum
    && store->data.address == 2 && store->data.size == size
    && store->block.read == rd && store->block.write == wr
    && store->buffer.data == NULL)
;

void persistent_place(PersistentStorage *store, uint32_t address)
__CPROVER_requires(__CPROVER_rw_ok(store, sizeof(PersistentStorage)))
__CPROVER_assigns(store->checksum.address, store->data.address)
__CPROVER_ensures(store->checksum.address == address
    && store->data.address == (uint32_t)(address + (uint32_t)store->checksum.size))
;

void persistent_buffer(PersistentStorage *store, unsigned char *buffer, size_t n)
__CPROVER_requires(__CPROVER_rw_ok(store, sizeof(PersistentStorage)))
__CPROVER_assigns(store->buffer.data, store->buffer.size)
__CPROVER_ensures(store->buffer.data == buffer && store->buffer.size == n)
;

/* ------------------------------------------------------------------------ */
/* the default algorithm: 16-bit sum of the octets.  Fold pinned by a ghost
 * trace as in C16 (tier A-len: the trace axiom is a bounded quantifier). */
extern const uint16_t *g_tsT;
#define TS_TRACE_OK(T, start, bytes, n) \
  ((T)[0] == (start) && __CPROVER_forall { size_t k_; (k_ < TS_NMAX) ==> \
      ((k_ < (n)) ==> (T)[k_ + 1] == SPEC_BYTESUM16_STEP((T)[k_], ((const unsigned char *)(bytes))[k_])) })

static uint16_t trivialsum(const unsigned char *data, size_t n, uint16_t init)
__CPROVER_requires(n <= TS_NMAX && __CPROVER_r_ok(data, n))
__CPROVER_requires(__CPROVER_r_ok(g_tsT, (n + 1) * sizeof(uint16_t)))
__CPROVER_requires(TS_TRACE_OK(g_tsT, init, data, n))
__CPROVER_assigns()
__CPROVER_ensures(__CPROVER_return_value == g_tsT[n])
;

/* ------------------------------------------------------------------------ */
/* checksum helpers                                                          */

/* one-shot checksum of a memory image that IS the medium's data image */
static PersistentChecksum persistent_checksum(const PersistentStorage *store, const void *src)
__CPROVER_requires(PS_OK(store) && PS_FOLD_FRESH(store))
__CPROVER_requires(__CPROVER_r_ok(src, store->data.size))
__CPROVER_requires(IMPLIES(PS_GA_IN(g_ps_dlo, store->data.size),
    ((const unsigned char *)src)[(uint64_t)g_a - g_ps_dlo] == g_ps_cell))
__CPROVER_assigns(g_ps_cpos, g_ps_crun)
__CPROVER_ensures(g_ps_cpos == store->data.size)
__CPROVER_ensures(PS_SUMVAL(store, __CPROVER_return_value) == PS_FINAL(store))
;

/* chunked checksum of the medium's data image: the result is the algorithm
 * applied to the image, for every auxiliary buffer (none, or any size),
 * unless a read failed */
static struct maybe_sum persistent_calculate_checksum(PersistentStorage *store)
__CPROVER_requires(PS_OK(store) && PS_FOLD_FRESH(store))
__CPROVER_assigns(g_ps_fault, g_ps_nrd, g_ps_cpos, g_ps_crun;
    store->buffer.data != NULL && store->buffer.size > 0: PS_BUF_ASSIGN(store))
__CPROVER_ensures(__CPROVER_return_value.access == PS_IO(g_ps_fault))
__CPROVER_ensures(IMPLIES(!g_ps_fault, g_ps_cpos == store->data.size
    && PS_SUMVAL(store, __CPROVER_return_value.value) == PS_FINAL(store)))
;

/* the checksum field is written by ONE medium write; a short (torn) write
 * leaves a prefix of the new octets followed by the old ones; the write is
 * logged with its address, length and the number of octets transferred */
#define PS_NEW_F(s, sum, i) SPEC_PS_OCTET(PS_SUMVAL(s, sum), i)
#define PS_SC_OCTET(s, f, i, sum, r) \
  (((size_t)(i) < PS_CSZ(s) && (uint64_t)(i) < (r)) ? (f) == PS_NEW_F(s, sum, i) : (f) == __CPROVER_old(f))
#define PS_SC_FIELD(s, sum, r) (PS_SC_OCTET(s, g_ps_f0, 0, sum, r) && PS_SC_OCTET(s, g_ps_f1, 1, sum, r) \
    && PS_SC_OCTET(s, g_ps_f2, 2, sum, r) && PS_SC_OCTET(s, g_ps_f3, 3, sum, r))
#define PS_SC_ANY(s, f, i, sum) \
  (((size_t)(i) < PS_CSZ(s)) ? ((f) == PS_NEW_F(s, sum, i) || (g_ps_fault && (f) == __CPROVER_old(f))) : (f) == __CPROVER_old(f))
static PersistentAccess persistent_store_checksum(PersistentStorage *store, PersistentChecksum sum)
__CPROVER_requires(PS_OK(store))
__CPROVER_assigns(g_ps_fault, PS_WLOG, g_ps_f0, g_ps_f1, g_ps_f2, g_ps_f3)
__CPROVER_ensures(__CPROVER_return_value == PS_IO(g_ps_fault))
__CPROVER_ensures(PS_SC_ANY(store, g_ps_f0, 0, sum) && PS_SC_ANY(store, g_ps_f1, 1, sum)
    && PS_SC_ANY(store, g_ps_f2, 2, sum) && PS_SC_ANY(store, g_ps_f3, 3, sum))
__CPROVER_ensures(IMPLIES(!g_ps_fault, PS_FIELD(store) == PS_SUMVAL(store, sum)))
/* write log: exactly one more write, the checksum field */
__CPROVER_ensures(g_ps_nwr == PM_SAT3(__CPROVER_old(g_ps_nwr)))
__CPROVER_ensures(IMPLIES(__CPROVER_old(g_ps_nwr) == 0,
    g_ps_w0a == g_ps_lo && g_ps_w0n == PS_CSZ(store)
    && (g_ps_fault ? g_ps_w0r < g_ps_w0n : g_ps_w0r == g_ps_w0n) && PS_SC_FIELD(store, sum, g_ps_w0r)
    && g_ps_w1a == __CPROVER_old(g_ps_w1a) && g_ps_w1n == __CPROVER_old(g_ps_w1n) && g_ps_w1r == __CPROVER_old(g_ps_w1r)))
__CPROVER_ensures(IMPLIES(__CPROVER_old(g_ps_nwr) == 1,
    g_ps_w1a == g_ps_lo && g_ps_w1n == PS_CSZ(store)
    && (g_ps_fault ? g_ps_w1r < g_ps_w1n : g_ps_w1r == g_ps_w1n) && PS_SC_FIELD(store, sum, g_ps_w1r)
    && g_ps_w0a == __CPROVER_old(g_ps_w0a) && g_ps_w0n == __CPROVER_old(g_ps_w0n) && g_ps_w0r == __CPROVER_old(g_ps_w0r)))
__CPROVER_ensures(IMPLIES(__CPROVER_old(g_ps_nwr) >= 2,
    g_ps_w0a == __CPROVER_old(g_ps_w0a) && g_ps_w0n == __CPROVER_old(g_ps_w0n) && g_ps_w0r == __CPROVER_old(g_ps_w0r)
    && g_ps_w1a == __CPROVER_old(g_ps_w1a) && g_ps_w1n == __CPROVER_old(g_ps_w1n) && g_ps_w1r == __CPROVER_old(g_ps_w1r)))
;

static struct maybe_sum persistent_fetch_checksum(PersistentStorage *store)
__CPROVER_requires(PS_OK(store))
__CPROVER_assigns(g_ps_fault, g_ps_nrd)
__CPROVER_ensures(__CPROVER_return_value.access == PS_IO(g_ps_fault))
__CPROVER_ensures(IMPLIES(!g_ps_fault, PS_SUMVAL(store, __CPROVER_return_value.value) == PS_FIELD(store)))
;

static bool persistent_match(const PersistentStorage *store, PersistentChecksum a, PersistentChecksum b)
__CPROVER_requires(__CPROVER_r_ok(store, sizeof(PersistentStorage)) && PS_TYPE_OK(store))
__CPROVER_assigns()
__CPROVER_ensures(__CPROVER_return_value == (PS_SUMVAL(store, a) == PS_SUMVAL(store, b)))
;

/* ------------------------------------------------------------------------ */
/* public operations                                                         */

/* C10: success <=> the field on the medium equals the algorithm applied to
 * the medium's data image, for ANY medium content (hence for every crash
 * state, C11); the medium is not written.  C11: a failed read => I/O error. */
PersistentAccess persistent_validate(PersistentStorage *store)
__CPROVER_requires(PS_OK(store) && PS_FOLD_FRESH(store))
__CPROVER_assigns(g_ps_fault, g_ps_nrd, g_ps_cpos, g_ps_crun;
    store->buffer.data != NULL && store->buffer.size > 0: PS_BUF_ASSIGN(store))
__CPROVER_ensures(IMPLIES(g_ps_fault, __CPROVER_return_value == PERSISTENT_ACCESS_IO_ERROR))
__CPROVER_ensures(IMPLIES(!g_ps_fault, __CPROVER_return_value ==
    (PS_FIELD(store) == PS_FINAL(store) ? PERSISTENT_ACCESS_SUCCESS : PERSISTENT_ACCESS_INVALID_DATA)))
;

PersistentAccess persistent_fetch_part(void *dst, PersistentStorage *store, size_t offset, size_t n)
__CPROVER_requires(PS_OK(store))
__CPROVER_requires(IMPLIES(SPEC_PS_IN_RANGE(offset, n, store->data.size) && n > 0,
    __CPROVER_w_ok(dst, n) && !__CPROVER_same_object(dst, store)))
__CPROVER_assigns(g_ps_fault, g_ps_nrd;
    SPEC_PS_IN_RANGE(offset, n, store->data.size) && n > 0: __CPROVER_object_upto(dst, n))
/* beyond the data size in mathematical integers: refused, medium untouched */
__CPROVER_ensures(IMPLIES(!SPEC_PS_IN_RANGE(offset, n, store->data.size),
    __CPROVER_return_value == PERSISTENT_ACCESS_ADDRESS_OUT_OF_RANGE
    && g_ps_nrd == __CPROVER_old(g_ps_nrd) && !g_ps_fault))
__CPROVER_ensures(IMPLIES(SPEC_PS_IN_RANGE(offset, n, store->data.size),
    __CPROVER_return_value == PS_IO(g_ps_fault)))
/* returns the image */
__CPROVER_ensures(IMPLIES(SPEC_PS_IN_RANGE(offset, n, store->data.size) && !g_ps_fault
    && PS_GA_IN(g_ps_dlo + offset, n),
    ((const unsigned char *)dst)[(uint64_t)g_a - (g_ps_dlo + offset)] == g_ps_cell))
;

PersistentAccess persistent_fetch(void *dst, PersistentStorage *store)
__CPROVER_requires(PS_OK(store))
__CPROVER_requires(__CPROVER_w_ok(dst, store->data.size) && !__CPROVER_same_object(dst, store))
__CPROVER_assigns(g_ps_fault, g_ps_nrd; __CPROVER_object_upto(dst, store->data.size))
__CPROVER_ensures(__CPROVER_return_value == PS_IO(g_ps_fault))
__CPROVER_ensures(IMPLIES(!g_ps_fault && PS_GA_IN(g_ps_dlo, store->data.size),
    ((const unsigned char *)dst)[(uint64_t)g_a - g_ps_dlo] == g_ps_cell))
;

#define PS_NEW_OCTET(src, offset) (((const unsigned char *)(src))[(uint64_t)g_a - (g_ps_dlo + (offset))])
/* octet i of the checksum field after a store whose checksum write (if it was
 * issued) transferred g_ps_w1r octets: new value = algorithm applied to the
 * medium's data image */
#define PS_SP_OCTET(s, f, i) \
  ((g_ps_nwr == 2 && (size_t)(i) < PS_CSZ(s) && (uint64_t)(i) < g_ps_w1r) \
    ? (f) == SPEC_PS_OCTET(PS_FINAL(s), i) : (f) == __CPROVER_old(f))
/* C11 write-log clause: the medium writes of a store are a prefix of <data
 * write of the part, checksum write>, in this order, each at most once; the
 * checksum write is issued only after the data write transferred everything;
 * a short transfer is the last write */
#define PS_SP_LOG(s, offset, n) \
  ((g_ps_nwr == 1 || g_ps_nwr == 2) \
   && g_ps_w0a == (uint32_t)(g_ps_dlo + (offset)) && g_ps_w0n == (n) && g_ps_w0r <= (n) \
   && IMPLIES(g_ps_nwr == 2, g_ps_w0r == (n) && g_ps_w1a == g_ps_lo && g_ps_w1n == PS_CSZ(s) && g_ps_w1r <= PS_CSZ(s)) \
   && IMPLIES(!g_ps_fault, g_ps_nwr == 2 && g_ps_w1r == PS_CSZ(s)) \
   && PS_SP_OCTET(s, g_ps_f0, 0) && PS_SP_OCTET(s, g_ps_f1, 1) && PS_SP_OCTET(s, g_ps_f2, 2) && PS_SP_OCTET(s, g_ps_f3, 3))
PersistentAccess persistent_store_part(PersistentStorage *store, const void *src, size_t offset, size_t n)
__CPROVER_requires(PS_OK(store) && PS_FOLD_FRESH(store) && g_ps_nwr == 0)
__CPROVER_requires(IMPLIES(SPEC_PS_IN_RANGE(offset, n, store->data.size) && n > 0,
    __CPROVER_r_ok(src, n) && !__CPROVER_same_object(src, store)
    && (store->buffer.data == NULL || !__CPROVER_same_object(src, store->buffer.data))))
__CPROVER_assigns(g_ps_fault, g_ps_nrd, PS_WLOG,
                  g_ps_cell, g_ps_f0, g_ps_f1, g_ps_f2, g_ps_f3, g_ps_cpos, g_ps_crun;
    store->buffer.data != NULL && store->buffer.size > 0: PS_BUF_ASSIGN(store))
/* C10: beyond the data size in mathematical integers: refused, medium untouched */
__CPROVER_ensures(IMPLIES(!SPEC_PS_IN_RANGE(offset, n, store->data.size),
    __CPROVER_return_value == PERSISTENT_ACCESS_ADDRESS_OUT_OF_RANGE
    && g_ps_nwr == 0 && g_ps_nrd == __CPROVER_old(g_ps_nrd) && !g_ps_fault
    && g_ps_cell == __CPROVER_old(g_ps_cell) && PS_FIELD_SAME()))
/* C11: write log */
__CPROVER_ensures(IMPLIES(SPEC_PS_IN_RANGE(offset, n, store->data.size), PS_SP_LOG(store, offset, n)))
/* C11: a failing or short medium call is reported as I/O error; C10: otherwise success */
__CPROVER_ensures(IMPLIES(SPEC_PS_IN_RANGE(offset, n, store->data.size),
    __CPROVER_return_value == PS_IO(g_ps_fault)))
/* C10: medium data == new image: the part from src (as far as the data write got: all of it unless it
 * failed), everything else (rest of the data, everything outside the region) unchanged */
__CPROVER_ensures(IMPLIES(SPEC_PS_IN_RANGE(offset, n, store->data.size) && PS_GA_IN(g_ps_dlo + offset, g_ps_w0r),
    g_ps_cell == PS_NEW_OCTET(src, offset)))
__CPROVER_ensures(IMPLIES(SPEC_PS_IN_RANGE(offset, n, store->data.size) && !PS_GA_IN(g_ps_dlo + offset, g_ps_w0r),
    g_ps_cell == __CPROVER_old(g_ps_cell)))
/* C10: checksum field == the algorithm applied to the data image now on the medium */
__CPROVER_ensures(IMPLIES(SPEC_PS_IN_RANGE(offset, n, store->data.size) && !g_ps_fault,
    PS_FIELD(store) == PS_FINAL(store)))
;

PersistentAccess persistent_store(PersistentStorage *store, const void *src)
__CPROVER_requires(PS_OK(store) && PS_FOLD_FRESH(store) && g_ps_nwr == 0)
__CPROVER_requires(__CPROVER_r_ok(src, store->data.size) && !__CPROVER_same_object(src, store)
    && (store->buffer.data == NULL || !__CPROVER_same_object(src, store->buffer.data)))
__CPROVER_assigns(g_ps_fault, g_ps_nrd, PS_WLOG,
                  g_ps_cell, g_ps_f0, g_ps_f1, g_ps_f2, g_ps_f3, g_ps_cpos, g_ps_crun;
    store->buffer.data != NULL && store->buffer.size > 0: PS_BUF_ASSIGN(store))
__CPROVER_ensures(__CPROVER_return_value == PS_IO(g_ps_fault))
__CPROVER_ensures(PS_SP_LOG(store, 0, store->data.size))
__CPROVER_ensures(IMPLIES(PS_GA_IN(g_ps_dlo, g_ps_w0r), g_ps_cell == PS_NEW_OCTET(src, 0)))
__CPROVER_ensures(IMPLIES(!PS_GA_IN(g_ps_dlo, g_ps_w0r), g_ps_cell == __CPROVER_old(g_ps_cell)))
__CPROVER_ensures(IMPLIES(!g_ps_fault, PS_FIELD(store) == PS_FINAL(store)))
;

/* fill [address, address+k) with item, chunked through the auxiliary buffer
 * (none, or any size); nothing else changes */
#define PS_WN_OCTET(f, i, address, k, item) \
  ((g_ps_lo + (i) < g_ps_dlo && PM_IN(g_ps_lo + (i), (address), (k))) \
    ? ((f) == (item) || (g_ps_fault && (f) == __CPROVER_old(f))) \
    : (f) == __CPROVER_old(f))
static PersistentAccess persistent_writen(PersistentStorage *store, uint32_t address, unsigned char item, size_t k)
__CPROVER_requires(PS_OK(store))
/* helper precondition from its two call sites (persistent_reset): the whole
 * checksum field or the whole data area */
__CPROVER_requires(((uint64_t)address == g_ps_lo && (uint64_t)k == g_ps_dlo - g_ps_lo)
    || ((uint64_t)address == g_ps_dlo && (uint64_t)k == g_ps_hi - g_ps_dlo))
__CPROVER_assigns(g_ps_fault, PS_WLOG,
                  g_ps_cell, g_ps_f0, g_ps_f1, g_ps_f2, g_ps_f3;
    store->buffer.data != NULL && store->buffer.size > 0: PS_BUF_ASSIGN(store))
__CPROVER_ensures(__CPROVER_return_value == PS_IO(g_ps_fault))
__CPROVER_ensures(IMPLIES(PS_GA_IN(address, k),
    g_ps_cell == item || (g_ps_fault && g_ps_cell == __CPROVER_old(g_ps_cell))))
__CPROVER_ensures(IMPLIES(!PS_GA_IN(address, k), g_ps_cell == __CPROVER_old(g_ps_cell)))
__CPROVER_ensures(PS_WN_OCTET(g_ps_f0, 0, address, k, item) && PS_WN_OCTET(g_ps_f1, 1, address, k, item)
    && PS_WN_OCTET(g_ps_f2, 2, address, k, item) && PS_WN_OCTET(g_ps_f3, 3, address, k, item))
;

/* C10: every octet of the region == fill value, nothing outside; C11: fault => I/O error */
#define PS_RS_OCTET(s, f, i, item) \
  (((size_t)(i) < PS_CSZ(s)) ? IMPLIES(!g_ps_fault, (f) == (item)) : (f) == __CPROVER_old(f))
PersistentAccess persistent_reset(PersistentStorage *store, unsigned char item)
__CPROVER_requires(PS_OK(store))
__CPROVER_assigns(g_ps_fault, PS_WLOG,
                  g_ps_cell, g_ps_f0, g_ps_f1, g_ps_f2, g_ps_f3;
    store->buffer.data != NULL && store->buffer.size > 0: PS_BUF_ASSIGN(store))
__CPROVER_ensures(__CPROVER_return_value == PS_IO(g_ps_fault))
__CPROVER_ensures(PS_RS_OCTET(store, g_ps_f0, 0, item) && PS_RS_OCTET(store, g_ps_f1, 1, item)
    && PS_RS_OCTET(store, g_ps_f2, 2, item) && PS_RS_OCTET(store, g_ps_f3, 3, item))
__CPROVER_ensures(IMPLIES(!g_ps_fault && PS_GA_IN(g_ps_dlo, store->data.size), g_ps_cell == item))
__CPROVER_ensures(IMPLIES(PM_CELL_ADDR() && !PM_IN(g_a, g_ps_dlo, store->data.size), g_ps_cell == __CPROVER_old(g_ps_cell)))
;
#endif
