/* Contracts of the PROCESSING side of src/register-protocol.c, of
 * src/endpoints/continuable-sink.c and src/allocator.c (properties C06, C09).
 *
 * C06  "a valid request is executed exactly once and answered faithfully"
 * C09  "receiving and processing arbitrary input is memory-safe and
 *       resource-exact"
 *
 * Observation points (ghost state, see stubs/regp_backend.h and the transmit
 * record of contracts/regp-wire.h):
 *   g_be_*   log of the memory back end (calls, kind, address, block size,
 *            buffer, ghost-indexed octet seen / delivered, verdict returned)
 *   g_tx_*   the TRANSMIT RECORD: one emitted frame = one call of send_memory
 *            (g_tx_count, the header octets as handed to the framing layer,
 *            payload pointer / length, payload octet at the ghost index g_k).
 *            C08 proves that what reaches the sink is framing(header++payload).
 *   g_al_*   allocator ledger (attempts, frees, live blocks, the block)
 *   g_dec_*  what the (assumed) frame decoder reported: its return value, the
 *            sink's error id and the number of frame octets stored
 *
 * Top-level postconditions are written from the property statements and
 * doc/regp.txt (header layout through spec/regp.h, an independent reading of
 * the document); helper preconditions / frames come from the code.
 *
 * The header is sectioned by proof unit: a target defines RPP_UNIT_REGP when
 * src/register-protocol.c is part of its unit and RPP_UNIT_SINK when
 * src/endpoints/continuable-sink.c is too (src/allocator.c is a unit of its
 * own), and REGP_USE_WIRE_H to take the wire-side contracts from
 * contracts/regp-wire.h instead of the locally ASSUMED ones.
 *
 * Array facts at the ghost index g_k = "octet k of the payload" throughout
 * (request payload, back-end buffer, transmitted payload), g_j = "another
 * cell" for frames.
 */
#ifndef CONTRACTS_REGP_PROC_H
#define CONTRACTS_REGP_PROC_H

#include <ufw/register-protocol.h>
#include <ufw/endpoints/continuable-sink.h>
#include "spec/regp.h"
#include "stubs/regp_backend.h"
#include "contracts/byte-buffer.h"

#ifndef RPP_BSMAX
#define RPP_BSMAX 1024            /* cap on the allocator block size (object bound) */
#endif
#ifndef RPP_FBMAX
#define RPP_FBMAX 64              /* cap on the fallback buffer of the generic sink */
#endif

/* The CRC functions are stand-ins defined in stubs/regp_backend.h ("reads
 * buffer[0..len), writes nothing, any value"): checksum fields are C08's
 * subject, C16 proves the real functions. */

/* ASSUMED (same text as contracts/endpoints.h, enforced in C17) */
void chunk_sink_init(Sink *instance, ChunkSink sink, void *driver)
__CPROVER_requires(__CPROVER_rw_ok(instance, sizeof(Sink)))
__CPROVER_assigns(instance->kind, instance->sink, instance->driver, instance->ext.getbuffer)
__CPROVER_ensures(instance->kind == DATA_KIND_CHUNK && instance->sink.chunk == sink
    && instance->driver == driver && instance->ext.getbuffer == NULL)
;

/* ------------------------------------------------------------------------ */
/* vocabulary                                                                 */

#define RPP_MEMT_OK(p) ((p)->memory.type == RP_MEMTYPE_8 || (p)->memory.type == RP_MEMTYPE_16)
#define RPP_EPT_OK(p)  ((p)->ep.type == RP_EP_SERIAL || (p)->ep.type == RP_EP_TCP)
/* a protocol instance as far as the responders need it */
#define RPP_P_MIN(p) (__CPROVER_rw_ok((p), sizeof(RegP)) && RPP_MEMT_OK(p) && RPP_EPT_OK(p))
#define RPP_M16(p) ((p)->memory.type == RP_MEMTYPE_16)
#define RPP_WS(p) (RPP_M16(p) ? (size_t)2 : (size_t)1)

#define RPP_TYPE_OK(t) ((t) == RP_FRAME_READ_REQUEST || (t) == RP_FRAME_READ_RESPONSE \
  || (t) == RP_FRAME_WRITE_REQUEST || (t) == RP_FRAME_WRITE_RESPONSE || (t) == RP_FRAME_META)
#define RPP_T_IS_REQ(t) ((t) == RP_FRAME_READ_REQUEST || (t) == RP_FRAME_WRITE_REQUEST)
/* response type that answers a request type (doc 2.1.2 / 2.1.4) */
#define RPP_RESP_OF(t) ((t) == RP_FRAME_READ_REQUEST ? SPEC_T_READ_RESP : SPEC_T_WRITE_RESP)
#define RPP_CODE_OK(c) ((int)(c) >= 0 && (unsigned)(c) <= SPEC_RESP_MAX)
/* WORD-SIZE-16 as selected by the emitters' msem argument */
#define RPP_MSEM16(p, msem) ((msem) == MSEM_16BIT || ((msem) == MSEM_AUTO && RPP_M16(p)))

/* allocator: stub drivers, configured block size */
#define RPP_ALLOC_OK(a) (__CPROVER_r_ok((a), sizeof(BlockAllocator)) \
  && ((a)->type == UFW_ALLOC_GENERIC || (a)->type == UFW_ALLOC_SLAB) \
  && (a)->blocksize > sizeof(RPFrame) && (a)->blocksize <= RPP_BSMAX && (a)->blocksize == g_al_bs \
  && IMPLIES((a)->type == UFW_ALLOC_GENERIC, (a)->alloc.generic == st_al_generic) \
  && IMPLIES((a)->type == UFW_ALLOC_SLAB, (a)->alloc.slab == st_al_slab) \
  && (a)->free == st_al_free)
/* memory back end: stub accessors of the attached word size */
#define RPP_BACKEND_OK(p) \
  (IMPLIES(RPP_M16(p), (p)->memory.access.m16.read == st_be_read16 && (p)->memory.access.m16.write == st_be_write16) \
   && IMPLIES(!RPP_M16(p), (p)->memory.access.m8.read == st_be_read8 && (p)->memory.access.m8.write == st_be_write8))

/* ---- the transmit record --------------------------------------------------
 * header octets 0..11 as doc/regp.txt section 2 lays out (version, type, meta,
 * sequence, address, block size), option bit WORD-SIZE-16 and the reserved
 * option bit; the two checksum option bits and the checksum words belong to
 * C08 (section 5 of the document) */
/* The transmit record and the decoder report are written by CONTRACTS (of
 * send_memory, of the decoders); a native replay runs the real functions,
 * which do not write them.  Natively every predicate about them is vacuous;
 * what a native replay observes is ASan/UBSan, the back-end log, the
 * allocator ledger and the non-ghost results. */
#if VERIF_IS_NATIVE
#define RPP_GHOSTLY(e) 1
#define RPP_GHOSTLY0(e) 0
#else
#define RPP_GHOSTLY(e) (e)
#define RPP_GHOSTLY0(e) (e)
#endif
#define RPP_TX_ONE RPP_GHOSTLY(g_tx_count == __CPROVER_old(g_tx_count) + 1)
#define RPP_TX_NONE RPP_GHOSTLY(g_tx_count == __CPROVER_old(g_tx_count))
#define RPP_TX_GHOSTS g_tx_count, __CPROVER_object_whole(g_tx_hdr), g_tx_hs, g_tx_pl, g_tx_ps, g_tx_octet, \
                      g_tx_framing, g_tx_sink
#define RPP_TX_FIXED(type, meta, w16, seq, addr, bs) RPP_GHOSTLY( \
  (unsigned)(g_tx_hdr[0] >> 4) == (unsigned)(meta) \
   && (g_tx_hdr[0] & SPEC_O_W16) == ((w16) ? SPEC_O_W16 : 0u) && (g_tx_hdr[0] & SPEC_O_RESERVED) == 0u \
   && g_tx_hdr[1] == SPEC_HDR_OCTET(1, type, 0, 0, 0, 0, 0) \
   && g_tx_hdr[2] == SPEC_HDR_OCTET(2, 0, 0, 0, seq, 0, 0) && g_tx_hdr[3] == SPEC_HDR_OCTET(3, 0, 0, 0, seq, 0, 0) \
   && g_tx_hdr[4] == SPEC_HDR_OCTET(4, 0, 0, 0, 0, addr, 0) && g_tx_hdr[5] == SPEC_HDR_OCTET(5, 0, 0, 0, 0, addr, 0) \
   && g_tx_hdr[6] == SPEC_HDR_OCTET(6, 0, 0, 0, 0, addr, 0) && g_tx_hdr[7] == SPEC_HDR_OCTET(7, 0, 0, 0, 0, addr, 0) \
   && g_tx_hdr[8] == SPEC_HDR_OCTET(8, 0, 0, 0, 0, 0, bs) && g_tx_hdr[9] == SPEC_HDR_OCTET(9, 0, 0, 0, 0, 0, bs) \
   && g_tx_hdr[10] == SPEC_HDR_OCTET(10, 0, 0, 0, 0, 0, bs) && g_tx_hdr[11] == SPEC_HDR_OCTET(11, 0, 0, 0, 0, 0, bs))
#define RPP_TX_NOPAYLOAD RPP_GHOSTLY(g_tx_pl == NULL && g_tx_ps == 0)
/* four-octet payload: the 32-bit datum, most significant octet first */
#define RPP_TX_BE32(v) RPP_GHOSTLY(g_tx_pl != NULL && g_tx_ps == 4u \
   && IMPLIES(g_k < 4u, g_tx_octet == SPEC_BE32_OCTET(v, g_k)))
#define RPP_TX_TYPE (SPEC_F_TYPE(g_tx_hdr))
#define RPP_TX_META (SPEC_F_META(g_tx_hdr))

/* response of type answering f, code c in octet semantics without payload */
#define RPP_TX_ERR0(f, c) \
  (RPP_TX_FIXED(RPP_RESP_OF((f)->header.type), c, 0, (f)->header.sequence, (f)->header.address, 0u) && RPP_TX_NOPAYLOAD)
/* ... with the four-octet datum v, block size 4 (octets) */
#define RPP_TX_ERR32(f, c, v) \
  (RPP_TX_FIXED(RPP_RESP_OF((f)->header.type), c, 0, (f)->header.sequence, (f)->header.address, 4u) && RPP_TX_BE32(v))
/* a META message (doc 2.1.5): only the meta field is used */
#define RPP_TX_IS_META(m) (RPP_TX_FIXED(SPEC_T_META, m, 0, 0u, 0u, 0u) && RPP_TX_NOPAYLOAD)

/* ---- a received frame as regp_recv hands it to regp_process ----------------
 * The frame structure sits at the start of the allocator block, the raw
 * octets behind it, the payload behind the 12/14/16-octet header. */
#define RPP_ID_PARSED(id) ((id) == 0 || (id) == EPROTO || (id) == EFAULT)
/* octets between two pointers into the frame block */
#if VERIF_IS_NATIVE
#define RPP_PDIFF(a, b) ((size_t)((const unsigned char *)(a) - (const unsigned char *)(b)))
#define RPP_SAME_BLOCK(a, b) 1
#else
#define RPP_PDIFF(a, b) ((size_t)__CPROVER_POINTER_OFFSET(a) - (size_t)__CPROVER_POINTER_OFFSET(b))
#define RPP_SAME_BLOCK(a, b) __CPROVER_same_object((a), (b))
#endif
#define RPP_HLEN(f) RPP_PDIFF((f)->payload.data, (f)->raw.memory)
#define RPP_HDR_PARSED(f) \
  (RPP_TYPE_OK((f)->header.type) && (f)->header.version == SPEC_RP_VERSION \
   && ((f)->header.options & SPEC_O_RESERVED) == 0u && (f)->header.options <= 15u \
   && RPP_SAME_BLOCK((f)->raw.memory, (f)) && RPP_PDIFF((f)->raw.memory, (f)) == sizeof(RPFrame) \
   && RPP_SAME_BLOCK((f)->payload.data, (f)) \
   && (RPP_HLEN(f) == 12u || RPP_HLEN(f) == 14u || RPP_HLEN(f) == 16u) \
   && RPP_HLEN(f) <= (f)->raw.size && (f)->payload.size == (f)->raw.size - RPP_HLEN(f))
#define RPP_F_WS(f) ((((f)->header.options) & SPEC_O_W16) ? (size_t)2 : (size_t)1)
/* payload size rule as far as processing relies on it: a write request
 * carries at least the announced block */
#define RPP_PLAUSIBLE(f) \
  IMPLIES((f)->header.type == RP_FRAME_WRITE_REQUEST, \
          (size_t)(f)->header.blocksize * RPP_F_WS(f) <= (f)->payload.size)
/* what the receiver relies on from the frame parser: verdict range, raw view,
 * "shorter than a header is bad header encoding", structure of a frame whose
 * header was accepted, payload size rule of an accepted frame */
#define RPP_PF_STRUCT(fb, rc) \
  (((rc) == 0 || (rc) == -EBADMSG || (rc) == -EILSEQ || (rc) == -EFAULT || (rc) == -EPROTO) \
   && ((RPFrame *)(fb)->data)->raw.memory == (void *)((fb)->data + sizeof(RPFrame)) \
   && ((RPFrame *)(fb)->data)->raw.size == (fb)->used - sizeof(RPFrame) \
   && IMPLIES((fb)->used - sizeof(RPFrame) < 12u, (rc) == -EBADMSG) \
   && IMPLIES((rc) == 0 || (rc) == -EFAULT || (rc) == -EPROTO, RPP_HDR_PARSED((RPFrame *)(fb)->data)) \
   && IMPLIES((rc) == 0, RPP_PLAUSIBLE((RPFrame *)(fb)->data)))
#define RPP_FRAME_WF(p, mf) \
  ((mf)->frame == NULL \
   || (__CPROVER_rw_ok((mf)->frame, (p)->alloc->blocksize) \
       && (const unsigned char *)(mf)->frame == g_blk_base && g_blk_size == (p)->alloc->blocksize \
       && IMPLIES(RPP_ID_PARSED((mf)->error.id), \
                  RPP_HDR_PARSED((mf)->frame) && (mf)->frame->raw.size <= (p)->alloc->blocksize - sizeof(RPFrame) \
                  && g_blk_used == sizeof(RPFrame) + (mf)->frame->raw.size) \
       && IMPLIES((mf)->error.id == 0, RPP_PLAUSIBLE((mf)->frame))))

#define RPP_IS_REQ(mf)   (RPP_T_IS_REQ((mf)->frame->header.type))
#define RPP_IS_READ(mf)  ((mf)->frame->header.type == RP_FRAME_READ_REQUEST)
/* request word size matches the attached memory */
#define RPP_WS_MATCH(p, mf) (((((mf)->frame->header.options) & SPEC_O_W16) != 0u) == RPP_M16(p))
/* "a successfully received request for the attached memory" */
#define RPP_VALID(p, mf) ((mf)->frame != NULL && (mf)->error.id == 0 && RPP_IS_REQ(mf) && RPP_WS_MATCH(p, mf))
#define RPP_BS(mf) ((size_t)(mf)->frame->header.blocksize)
/* largest message the instance announces (payload of ERX/ETXOVERFLOW) */
#define RPP_TRXSIZE(p) ((p)->alloc->blocksize - sizeof(RPFrame))
/* octets available behind the request header in the frame block */
#define RPP_ROOM(p, mf) (RPP_TRXSIZE(p) - RPP_HLEN((mf)->frame))
/* the answer to a read cannot be placed in the block */
#define RPP_READ_CANNOT_FIT(p, mf) (RPP_BS(mf) * RPP_WS(p) > RPP_ROOM(p, mf))
/* the answer (full 16-octet header + payload) is within the announced
 * largest message: such a read must be served */
#define RPP_READ_MUST_SERVE(p, mf) (RPP_BS(mf) * RPP_WS(p) + 16u <= RPP_TRXSIZE(p))
#define RPP_KIND(p, mf) (RPP_IS_READ(mf) ? (RPP_M16(p) ? BE_READ16 : BE_READ8) : (RPP_M16(p) ? BE_WRITE16 : BE_WRITE8))

#define RPP_BE_GHOSTS g_be
extern uint8_t g_rx_octet;   /* octet g_k of the request payload at entry (pinned in requires) */

#ifdef RPP_UNIT_REGP   /* src/register-protocol.c is part of the unit */

/* ------------------------------------------------------------------------ */
/* wire side: contracts owned by contracts/regp-wire.h (properties C08/C07).  */
/* Until they are used by inclusion, the ones this side needs are ASSUMED     */
/* here in the agreed form (listed in `assumptions`).                         */

#ifdef REGP_USE_WIRE_H
#define REGP_PROC_OWNS_RESPONDERS 1
#include "contracts/regp-wire.h"
/* parse_frame's contract (C07) pins the payload checksum by the ghost trace of
 * C16, so it wants the trace of the frame's payload octets and caps the frame
 * at 16 + CRC_NMAX octets.  A trace exists for every content; the (assumed)
 * decoder contract hands the receiver a block whose content the trace
 * describes.  This caps the length of frames that reach parse_frame (tier
 * A-len), not the block size. */
#define RPP_DEC_FRAME_CAP(sink) \
  IMPLIES(RPP_DEC_CS(sink)->buffer.data != NULL && RPP_DEC_CS(sink)->error.id == 0, \
    !__CPROVER_same_object(g_crcT, RPP_DEC_CS(sink)->buffer.data) \
    && RPW_PF_N(&RPP_DEC_CS(sink)->buffer) <= REGP_PF_MAX \
    && IMPLIES(RPW_PF_N(&RPP_DEC_CS(sink)->buffer) >= 12u, \
         RPW_PF_N(&RPP_DEC_CS(sink)->buffer) <= RPW_PF_HLEN(&RPP_DEC_CS(sink)->buffer) + CRC_NMAX \
         && REGP_PF_TRACE_OK(&RPP_DEC_CS(sink)->buffer)))
#define RPP_RECV_TRACE_REQ (__CPROVER_r_ok(g_crcT, (REGP_PF_MAX + 1u) * sizeof(uint16_t)))
#else
#define RPP_RECV_TRACE_REQ 1
extern size_t g_tx_count;
extern uint8_t g_tx_hdr[16];
extern size_t g_tx_hs;
extern const void *g_tx_pl;
extern size_t g_tx_ps;
extern uint8_t g_tx_octet;
extern int g_tx_framing;
extern const Sink *g_tx_sink;

#define RPW_HDR_COPIED(i, hdr, hs) IMPLIES((size_t)(i) < (hs), g_tx_hdr[i] == ((const uint8_t *)(hdr))[i])

/* ASSUMED (wire side, C08): one call = one transmit record */
static int send_memory(RegP *p, void *hdr, size_t hs, void *pl, size_t ps)
__CPROVER_requires(__CPROVER_rw_ok(p, sizeof(RegP)))
__CPROVER_requires(p->ep.type == RP_EP_SERIAL || p->ep.type == RP_EP_TCP)
__CPROVER_requires((hs == 12u || hs == 14u || hs == 16u) && __CPROVER_r_ok(hdr, hs))
__CPROVER_requires(pl == NULL || ps == 0 || __CPROVER_r_ok(pl, ps))
__CPROVER_assigns(g_tx_count, __CPROVER_object_whole(g_tx_hdr), g_tx_hs, g_tx_pl, g_tx_ps, g_tx_octet,
                  g_tx_framing, g_tx_sink)
__CPROVER_ensures(RPP_TX_ONE && g_tx_hs == hs)
__CPROVER_ensures(RPW_HDR_COPIED(0, hdr, hs) && RPW_HDR_COPIED(1, hdr, hs) && RPW_HDR_COPIED(2, hdr, hs)
    && RPW_HDR_COPIED(3, hdr, hs) && RPW_HDR_COPIED(4, hdr, hs) && RPW_HDR_COPIED(5, hdr, hs)
    && RPW_HDR_COPIED(6, hdr, hs) && RPW_HDR_COPIED(7, hdr, hs) && RPW_HDR_COPIED(8, hdr, hs)
    && RPW_HDR_COPIED(9, hdr, hs) && RPW_HDR_COPIED(10, hdr, hs) && RPW_HDR_COPIED(11, hdr, hs)
    && RPW_HDR_COPIED(12, hdr, hs) && RPW_HDR_COPIED(13, hdr, hs) && RPW_HDR_COPIED(14, hdr, hs)
    && RPW_HDR_COPIED(15, hdr, hs))
__CPROVER_ensures(g_tx_pl == pl && g_tx_ps == (pl != NULL ? ps : (size_t)0))
__CPROVER_ensures(IMPLIES(pl != NULL && g_k < ps, g_tx_octet == ((const uint8_t *)pl)[BB_CL(g_k, ps)]))
__CPROVER_ensures(__CPROVER_return_value <= 0)
;

/* ASSUMED in the receiver's proof (target regp_recv): the STRUCTURE of a
 * parsed frame, RPP_PF_STRUCT.  Target lemma_parse_frame_structure proves that
 * the reference-decoder contract of contracts/regp-wire.h (enforced on the
 * real parse_frame in C07, frames up to 16 + CRC_NMAX octets) implies it; the
 * checksum trace that contract needs makes it unusable directly on the
 * receiver's symbolic-size block (measured: out of memory). */
static int parse_frame(ByteBuffer *framebuf)
__CPROVER_requires(__CPROVER_rw_ok(framebuf, sizeof(ByteBuffer)) && framebuf->data != NULL
    && sizeof(RPFrame) <= framebuf->used && framebuf->used <= framebuf->size
    && __CPROVER_rw_ok(framebuf->data, framebuf->size) && !__CPROVER_same_object(framebuf, framebuf->data))
__CPROVER_assigns(__CPROVER_object_upto(framebuf->data, sizeof(RPFrame)))
__CPROVER_ensures(RPP_PF_STRUCT(framebuf, __CPROVER_return_value))
;

/* ASSUMED (wire side, C07): verdict of the reference decoder on a header */
static int parse_header(RPFrame *frame, void *buf, size_t n)
__CPROVER_requires(__CPROVER_rw_ok(frame, sizeof(RPFrame)) && (n == 0 || __CPROVER_r_ok(buf, n)))
__CPROVER_assigns(frame->header)
__CPROVER_ensures(__CPROVER_return_value == -EBADMSG || __CPROVER_return_value == -EILSEQ
    || __CPROVER_return_value == 6 || __CPROVER_return_value == 7 || __CPROVER_return_value == 8)
__CPROVER_ensures(IMPLIES(n < 12u, __CPROVER_return_value == -EBADMSG))
__CPROVER_ensures(IMPLIES(__CPROVER_return_value >= 0,
    2u * (size_t)__CPROVER_return_value <= n
    && frame->header.version == SPEC_F_VERSION(buf) && (unsigned)frame->header.type == SPEC_F_TYPE(buf)
    && RPP_TYPE_OK(frame->header.type)
    && frame->header.options == SPEC_F_OPTS(buf) && frame->header.meta.raw == SPEC_F_META(buf)
    && frame->header.sequence == SPEC_F_SEQ(buf) && frame->header.address == SPEC_F_ADDR(buf)
    && frame->header.blocksize == SPEC_F_BS(buf)))
;
#endif /* REGP_USE_WIRE_H */

/* ------------------------------------------------------------------------ */
/* C06: matching API and small helpers                                        */

#define RPP_IS_CONTRACT(fn, cond) \
bool fn(const RPFrame *f) \
__CPROVER_requires(f == NULL || __CPROVER_r_ok(f, sizeof(RPFrame))) \
__CPROVER_assigns() \
__CPROVER_ensures(__CPROVER_return_value == (f != NULL && (cond)))

RPP_IS_CONTRACT(regp_is_valid, f->header.type != RP_FRAME_INVALID);
RPP_IS_CONTRACT(regp_is_request, f->header.type == RP_FRAME_READ_REQUEST || f->header.type == RP_FRAME_WRITE_REQUEST);
RPP_IS_CONTRACT(regp_is_response, f->header.type == RP_FRAME_READ_RESPONSE || f->header.type == RP_FRAME_WRITE_RESPONSE);
RPP_IS_CONTRACT(regp_is_read_request, f->header.type == RP_FRAME_READ_REQUEST);
RPP_IS_CONTRACT(regp_is_write_request, f->header.type == RP_FRAME_WRITE_REQUEST);
RPP_IS_CONTRACT(regp_is_read_response, f->header.type == RP_FRAME_READ_RESPONSE);
RPP_IS_CONTRACT(regp_is_write_response, f->header.type == RP_FRAME_WRITE_RESPONSE);
RPP_IS_CONTRACT(regp_is_meta_message, f->header.type == RP_FRAME_META);

#define RPP_OPT_CONTRACT(fn, bit) \
bool fn(const RPFrame *f) \
__CPROVER_requires(__CPROVER_r_ok(f, sizeof(RPFrame))) \
__CPROVER_assigns() \
__CPROVER_ensures(__CPROVER_return_value == ((f->header.options & (bit)) != 0u))

RPP_OPT_CONTRACT(regp_is_16bitsem, SPEC_O_W16);
RPP_OPT_CONTRACT(regp_has_hdcrc, SPEC_O_HDCRC);
RPP_OPT_CONTRACT(regp_has_plcrc, SPEC_O_PLCRC);

static inline bool memtype_valid(const RegP *p, const RPFrame *f)
__CPROVER_requires(__CPROVER_r_ok(p, sizeof(RegP)) && RPP_MEMT_OK(p) && __CPROVER_r_ok(f, sizeof(RPFrame)))
__CPROVER_assigns()
__CPROVER_ensures(__CPROVER_return_value == (((f->header.options & SPEC_O_W16) != 0u) == RPP_M16(p)))
;

static RPFrameType req2resp(const RPFrameType type)
__CPROVER_assigns()
__CPROVER_ensures(IMPLIES(type == RP_FRAME_READ_REQUEST, __CPROVER_return_value == RP_FRAME_READ_RESPONSE))
__CPROVER_ensures(IMPLIES(type == RP_FRAME_WRITE_REQUEST, __CPROVER_return_value == RP_FRAME_WRITE_RESPONSE))
__CPROVER_ensures(IMPLIES(!RPP_T_IS_REQ(type), __CPROVER_return_value == RP_FRAME_META))
;

/* n 16-bit units expressed in the word size the message announces */
static inline size_t msem_size(RegP *p, const unsigned int msem, const size_t n)
__CPROVER_requires(__CPROVER_r_ok(p, sizeof(RegP)) && RPP_MEMT_OK(p) && msem <= MSEM_16BIT && n <= 0x7fffffffu)
__CPROVER_assigns()
__CPROVER_ensures(__CPROVER_return_value == (RPP_MSEM16(p, msem) ? n : 2u * n))
;

static inline size_t trxbufsize(const RegP *p)
__CPROVER_requires(__CPROVER_r_ok(p, sizeof(RegP)) && __CPROVER_r_ok(p->alloc, sizeof(BlockAllocator))
    && p->alloc->blocksize >= sizeof(RPFrame))
__CPROVER_assigns()
__CPROVER_ensures(__CPROVER_return_value == p->alloc->blocksize - sizeof(RPFrame))
;

/* register-table verdict -> response code (anchor of C06): success is
 * acknowledged, a missing / uninitialised entry is unmapped memory, range and
 * validity refusals keep their meaning, a read-only refusal is an access
 * error, everything else is an i/o error; the address is passed on */
static inline RPBlockAccess regaccess2blockaccess(const RegisterAccess access)
__CPROVER_assigns()
__CPROVER_ensures(__CPROVER_return_value.address == access.address)
__CPROVER_ensures(__CPROVER_return_value.status ==
    (access.code == REG_ACCESS_SUCCESS ? RP_RESP_ACK
     : (access.code == REG_ACCESS_UNINITIALISED || access.code == REG_ACCESS_NOENTRY) ? RP_RESP_EUNMAPPED
     : access.code == REG_ACCESS_RANGE ? RP_RESP_ERANGE
     : access.code == REG_ACCESS_INVALID ? RP_RESP_EINVALID
     : access.code == REG_ACCESS_READONLY ? RP_RESP_EACCESS
     : RP_RESP_EIO))
;

/* ------------------------------------------------------------------------ */
/* C06: responders.  Each emits exactly one frame.                            */

#define RPP_RESPONDER_REQ(p, f) \
  (RPP_P_MIN(p) && __CPROVER_r_ok((f), sizeof(RPFrame)) && RPP_T_IS_REQ((f)->header.type) \
   && !__CPROVER_same_object((p), (f)))

static int send_resp_0(RegP *p, const RPFrame *frame, const RPResponse code, const unsigned int msem)
__CPROVER_requires(RPP_RESPONDER_REQ(p, frame) && RPP_CODE_OK(code) && msem <= MSEM_16BIT)
__CPROVER_assigns(RPP_TX_GHOSTS)
__CPROVER_ensures(RPP_TX_ONE)
__CPROVER_ensures(RPP_TX_FIXED(RPP_RESP_OF(frame->header.type), code, RPP_MSEM16(p, msem),
                               frame->header.sequence, frame->header.address, 0u))
__CPROVER_ensures(RPP_TX_NOPAYLOAD)
__CPROVER_ensures(__CPROVER_return_value <= 0)
;

static int send_resp_32(RegP *p, const RPFrame *frame, RPResponse code, const uint32_t pl, const unsigned int msem)
__CPROVER_requires(RPP_RESPONDER_REQ(p, frame) && RPP_CODE_OK(code) && msem <= MSEM_16BIT)
__CPROVER_assigns(RPP_TX_GHOSTS)
__CPROVER_ensures(RPP_TX_ONE)
__CPROVER_ensures(RPP_TX_FIXED(RPP_RESP_OF(frame->header.type), code, RPP_MSEM16(p, msem),
                               frame->header.sequence, frame->header.address,
                               (RPP_MSEM16(p, msem) ? 2u : 4u)))
__CPROVER_ensures(RPP_TX_BE32(pl))
__CPROVER_ensures(__CPROVER_return_value <= 0)
;

/* acknowledgement: block size n in the attached memory's word size, payload
 * exactly the caller's n words (none when pl is NULL) */
int regp_resp_ack(RegP *p, const RPFrame *f, const void *pl, const size_t n)
__CPROVER_requires(RPP_RESPONDER_REQ(p, f) && n <= 0xffffffffu)
__CPROVER_requires(IMPLIES(pl == NULL, n == 0) && IMPLIES(pl != NULL && n > 0, __CPROVER_r_ok(pl, n * RPP_WS(p))))
__CPROVER_assigns(RPP_TX_GHOSTS)
__CPROVER_ensures(RPP_TX_ONE)
__CPROVER_ensures(RPP_TX_FIXED(RPP_RESP_OF(f->header.type), RP_RESP_ACK, RPP_M16(p),
                               f->header.sequence, f->header.address, n))
__CPROVER_ensures(RPP_GHOSTLY(g_tx_pl == pl && g_tx_ps == (pl != NULL ? n * RPP_WS(p) : (size_t)0)))
__CPROVER_ensures(RPP_GHOSTLY(IMPLIES(pl != NULL && g_k < n * RPP_WS(p),
    g_tx_octet == ((const uint8_t *)pl)[BB_CL(g_k, n * RPP_WS(p))])))
__CPROVER_ensures(__CPROVER_return_value <= 0)
;

#define RPP_ERR0_CONTRACT(fn, code) \
int fn(RegP *p, const RPFrame *f) \
__CPROVER_requires(RPP_RESPONDER_REQ(p, f)) \
__CPROVER_assigns(RPP_TX_GHOSTS) \
__CPROVER_ensures(RPP_TX_ONE && RPP_TX_ERR0(f, code)) \
__CPROVER_ensures(__CPROVER_return_value <= 0)

#define RPP_ERR32_CONTRACT(fn, code, arg) \
int fn(RegP *p, const RPFrame *f, const uint32_t arg) \
__CPROVER_requires(RPP_RESPONDER_REQ(p, f)) \
__CPROVER_assigns(RPP_TX_GHOSTS) \
__CPROVER_ensures(RPP_TX_ONE && RPP_TX_ERR32(f, code, arg)) \
__CPROVER_ensures(__CPROVER_return_value <= 0)

/* doc 3.1.2-3.1.4, 3.1.7, 3.1.11(EIO): no payload */
RPP_ERR0_CONTRACT(regp_resp_ewordsize, RP_RESP_EWORDSIZE);
RPP_ERR0_CONTRACT(regp_resp_epayloadcrc, RP_RESP_EPAYLOADCRC);
RPP_ERR0_CONTRACT(regp_resp_epayloadsize, RP_RESP_EPAYLOADSIZE);
RPP_ERR0_CONTRACT(regp_resp_ebusy, RP_RESP_EBUSY);
RPP_ERR0_CONTRACT(regp_resp_eio, RP_RESP_EIO);
/* doc 3.1.5, 3.1.6: largest supported message; 3.1.8-3.1.11: offending address */
RPP_ERR32_CONTRACT(regp_resp_erxoverflow, RP_RESP_ERXOVERFLOW, size);
RPP_ERR32_CONTRACT(regp_resp_etxoverflow, RP_RESP_ETXOVERFLOW, size);
RPP_ERR32_CONTRACT(regp_resp_eunmapped, RP_RESP_EUNMAPPED, address);
RPP_ERR32_CONTRACT(regp_resp_eaccess, RP_RESP_EACCESS, address);
RPP_ERR32_CONTRACT(regp_resp_erange, RP_RESP_ERANGE, address);
RPP_ERR32_CONTRACT(regp_resp_einvalid, RP_RESP_EINVALID, address);

int regp_resp_meta(RegP *p, const uint_least8_t meta)
__CPROVER_requires(RPP_P_MIN(p) && meta >= SPEC_META_MIN && meta <= SPEC_META_MAX)
__CPROVER_assigns(RPP_TX_GHOSTS)
__CPROVER_ensures(RPP_TX_ONE && RPP_TX_IS_META(meta))
__CPROVER_ensures(__CPROVER_return_value <= 0)
;

/* ------------------------------------------------------------------------ */
/* C06 + C09: regp_process                                                    */

#define RPP_CALLED (g_be_calls == __CPROVER_old(g_be_calls) + 1)
#define RPP_NOT_CALLED (g_be_calls == __CPROVER_old(g_be_calls))

int regp_process(RegP *p, const RPMaybeFrame *mf)
__CPROVER_requires(RPP_P_MIN(p) && RPP_ALLOC_OK(p->alloc) && RPP_BACKEND_OK(p))
__CPROVER_requires(__CPROVER_r_ok(mf, sizeof(RPMaybeFrame)) && !__CPROVER_same_object(p, mf))
__CPROVER_requires(RPP_FRAME_WF(p, mf))
__CPROVER_requires(IMPLIES(mf->frame != NULL,
    !__CPROVER_same_object(mf->frame, p) && !__CPROVER_same_object(mf->frame, mf)
    && !__CPROVER_same_object(mf->frame, p->alloc)))
/* names the request payload octet at the ghost index */
__CPROVER_requires(IMPLIES(RPP_VALID(p, mf) && !RPP_IS_READ(mf) && g_k < RPP_BS(mf) * RPP_WS(p),
    ((const uint8_t *)mf->frame->payload.data)[BB_CL(g_k, mf->frame->payload.size)] == g_rx_octet))
__CPROVER_assigns(RPP_TX_GHOSTS, RPP_BE_GHOSTS;
    RPP_VALID(p, mf) && RPP_IS_READ(mf): __CPROVER_object_from(mf->frame->payload.data))
/* --- the session (sequence counter) is not touched: interleavings of
 *     requests on one session do not interact --- */
__CPROVER_ensures(p->session.sequence == __CPROVER_old(p->session.sequence))
/* --- memory access: exactly one for a valid request, none otherwise --- */
__CPROVER_ensures(RPP_CALLED || RPP_NOT_CALLED)
__CPROVER_ensures(IMPLIES(!RPP_VALID(p, mf), RPP_NOT_CALLED))
__CPROVER_ensures(IMPLIES(RPP_VALID(p, mf) && !RPP_IS_READ(mf), RPP_CALLED))
__CPROVER_ensures(IMPLIES(RPP_VALID(p, mf) && RPP_IS_READ(mf) && RPP_READ_MUST_SERVE(p, mf), RPP_CALLED))
__CPROVER_ensures(IMPLIES(RPP_VALID(p, mf) && RPP_IS_READ(mf) && RPP_READ_CANNOT_FIT(p, mf), RPP_NOT_CALLED))
/* ... with the request's address and block size, on the payload area */
__CPROVER_ensures(IMPLIES(RPP_CALLED,
    g_be_kind == RPP_KIND(p, mf) && g_be_addr == mf->frame->header.address && g_be_n == RPP_BS(mf)
    && g_be_buf == mf->frame->payload.data))
/* ... for writes: exactly the received payload */
__CPROVER_ensures(IMPLIES(RPP_CALLED && !RPP_IS_READ(mf) && g_k < RPP_BS(mf) * RPP_WS(p), g_be_in == g_rx_octet))
/* --- replies: at most one; none for absent frames, frames that failed
 *     reception early, responses and meta messages --- */
__CPROVER_ensures(RPP_TX_ONE || RPP_TX_NONE)
__CPROVER_ensures(IMPLIES(mf->frame == NULL || !RPP_ID_PARSED(mf->error.id), RPP_TX_NONE))
__CPROVER_ensures(IMPLIES(mf->frame != NULL && RPP_ID_PARSED(mf->error.id) && !RPP_IS_REQ(mf), RPP_TX_NONE))
/* requests whose payload failed its checks (verdict is C07's subject) */
__CPROVER_ensures(IMPLIES(mf->frame != NULL && mf->error.id == EPROTO && RPP_IS_REQ(mf),
    RPP_TX_ONE && RPP_TX_ERR0(mf->frame, RP_RESP_EPAYLOADCRC)))
__CPROVER_ensures(IMPLIES(mf->frame != NULL && mf->error.id == EFAULT && RPP_IS_REQ(mf),
    RPP_TX_ONE && RPP_TX_ERR0(mf->frame, RP_RESP_EPAYLOADSIZE)))
/* word size of the request does not match the attached memory */
__CPROVER_ensures(IMPLIES(mf->frame != NULL && mf->error.id == 0 && RPP_IS_REQ(mf) && !RPP_WS_MATCH(p, mf),
    RPP_TX_ONE && RPP_TX_ERR0(mf->frame, RP_RESP_EWORDSIZE)))
/* a read whose answer cannot be placed: transmit overflow with the buffer size */
__CPROVER_ensures(IMPLIES(RPP_VALID(p, mf) && RPP_NOT_CALLED,
    RPP_TX_ONE && RPP_TX_ERR32(mf->frame, RP_RESP_ETXOVERFLOW, (uint32_t)RPP_TRXSIZE(p))))
/* the back end's verdict is the response code */
__CPROVER_ensures(IMPLIES(RPP_CALLED && g_be_status >= 0 && g_be_status <= (int)SPEC_RESP_MAX,
    RPP_TX_ONE && RPP_GHOSTLY(RPP_TX_TYPE == RPP_RESP_OF(mf->frame->header.type) && RPP_TX_META == (unsigned)g_be_status)))
/* ACK of a read: the words the back end delivered, in the memory's word size */
__CPROVER_ensures(IMPLIES(RPP_CALLED && g_be_status == RP_RESP_ACK && RPP_IS_READ(mf),
    RPP_TX_FIXED(SPEC_T_READ_RESP, RP_RESP_ACK, RPP_M16(p), mf->frame->header.sequence,
                 mf->frame->header.address, RPP_BS(mf))
    && RPP_GHOSTLY(g_tx_pl == mf->frame->payload.data && g_tx_ps == RPP_BS(mf) * RPP_WS(p)
                   && IMPLIES(g_k < RPP_BS(mf) * RPP_WS(p), g_tx_octet == g_be_out))))
/* ACK of a write: no payload */
__CPROVER_ensures(IMPLIES(RPP_CALLED && g_be_status == RP_RESP_ACK && !RPP_IS_READ(mf),
    RPP_TX_FIXED(SPEC_T_WRITE_RESP, RP_RESP_ACK, RPP_M16(p), mf->frame->header.sequence,
                 mf->frame->header.address, 0u) && RPP_TX_NOPAYLOAD))
/* error verdicts without datum (doc 3.1.2-3.1.4, 3.1.7, EIO) */
__CPROVER_ensures(IMPLIES(RPP_CALLED && (g_be_status == RP_RESP_EWORDSIZE || g_be_status == RP_RESP_EPAYLOADCRC
        || g_be_status == RP_RESP_EPAYLOADSIZE || g_be_status == RP_RESP_EBUSY || g_be_status == RP_RESP_EIO),
    RPP_TX_ERR0(mf->frame, g_be_status)))
/* overflow verdicts: the buffer size (doc 3.1.5, 3.1.6) */
__CPROVER_ensures(IMPLIES(RPP_CALLED && (g_be_status == RP_RESP_ERXOVERFLOW || g_be_status == RP_RESP_ETXOVERFLOW),
    RPP_TX_ERR32(mf->frame, g_be_status, (uint32_t)RPP_TRXSIZE(p))))
/* address verdicts: the address the back end reported (doc 3.1.8-3.1.11) */
__CPROVER_ensures(IMPLIES(RPP_CALLED && (g_be_status == RP_RESP_EUNMAPPED || g_be_status == RP_RESP_EACCESS
        || g_be_status == RP_RESP_ERANGE || g_be_status == RP_RESP_EINVALID),
    RPP_TX_ERR32(mf->frame, g_be_status, g_be_raddr)))
;

#endif /* RPP_UNIT_REGP (first part) */

/* ------------------------------------------------------------------------ */
/* C09: allocator front end                                                   */

int block_alloc(BlockAllocator *ba, void **m)
__CPROVER_requires(RPP_ALLOC_OK(ba) && __CPROVER_rw_ok(m, sizeof(void *)) && g_al_live == 0)
__CPROVER_assigns(*m, g_al_allocs, g_al_live, g_al_block)
__CPROVER_ensures(g_al_allocs == __CPROVER_old(g_al_allocs) + 1)
__CPROVER_ensures(__CPROVER_return_value <= 0)
__CPROVER_ensures(IMPLIES(__CPROVER_return_value < 0, g_al_live == 0 && g_al_block == __CPROVER_old(g_al_block)))
__CPROVER_ensures(IMPLIES(__CPROVER_return_value == 0,
    __CPROVER_is_fresh(*m, ba->blocksize) && g_al_live == 1 && g_al_block == *m))
;

void block_free(BlockAllocator *ba, void *m)
__CPROVER_requires(RPP_ALLOC_OK(ba) && g_al_live == 1 && m == g_al_block)
__CPROVER_assigns(g_al_live, g_al_frees)
__CPROVER_ensures(g_al_live == 0 && g_al_frees == __CPROVER_old(g_al_frees) + 1)
;

#ifdef RPP_UNIT_REGP
/* the documented release of a returned frame: frees exactly once */
void regp_free(RegP *p, RPFrame *f)
__CPROVER_requires(__CPROVER_r_ok(p, sizeof(RegP)) && RPP_ALLOC_OK(p->alloc))
__CPROVER_requires(f == NULL || (g_al_live == 1 && (void *)f == g_al_block))
__CPROVER_assigns(g_al_live, g_al_frees)
__CPROVER_ensures(IMPLIES(f != NULL, g_al_live == 0 && g_al_frees == __CPROVER_old(g_al_frees) + 1))
__CPROVER_ensures(IMPLIES(f == NULL, g_al_live == __CPROVER_old(g_al_live) && g_al_frees == __CPROVER_old(g_al_frees)))
;

static void setup_buffer(ByteBuffer *b)
__CPROVER_requires(__CPROVER_rw_ok(b, sizeof(ByteBuffer)) && sizeof(RPFrame) < b->size)
__CPROVER_assigns(b->used)
__CPROVER_ensures(b->used == sizeof(RPFrame))
;
#endif /* RPP_UNIT_REGP (release) */

#if defined(RPP_UNIT_REGP) && defined(RPP_UNIT_SINK)   /* + src/endpoints/continuable-sink.c */

/* ------------------------------------------------------------------------ */
/* C09: the continuable sink (configuration used by the receiver: allocator,  */
/* fallback buffer and post-allocation hook all present)                      */

#define RPP_FB_OK(fb) (__CPROVER_rw_ok((fb), sizeof(ByteBuffer)) && BB_WF(fb) && (fb)->size <= RPP_FBMAX \
  && __CPROVER_rw_ok((fb)->data, (fb)->size) && !__CPROVER_same_object((fb), (fb)->data))
#define RPP_CS_SEP(cs) (!__CPROVER_same_object((cs), (cs)->fallback) && !__CPROVER_same_object((cs), (cs)->fallback->data) \
  && !__CPROVER_same_object((cs), (cs)->alloc) && !__CPROVER_same_object((cs)->fallback, (cs)->alloc) \
  && !__CPROVER_same_object((cs)->fallback->data, (cs)->alloc))
#define RPP_CS_CONF_OK(cs) (__CPROVER_rw_ok((cs), sizeof(ContinuableSink)) && RPP_ALLOC_OK((cs)->alloc) \
  && RPP_FB_OK((cs)->fallback) && (cs)->postalloc == setup_buffer && RPP_CS_SEP(cs))
/* state invariant, in pieces (each is its own obligation where it is ensured);
 * BLOCK says how the block is known to be a block */
#define RPP_CS_ST_ID(cs) \
  (((cs)->error.id == 0 || (cs)->error.id == EBUSY || (cs)->error.id == ENOMEM) && g_al_allocs <= 1)
/* no block (yet, or allocation failed) */
#define RPP_CS_ST_NOBLOCK(cs) \
  IMPLIES((cs)->buffer.data == NULL, \
    (cs)->buffer.size == 0 && (cs)->buffer.used == 0 && (cs)->buffer.offset == 0 && g_al_live == 0 \
    && (cs)->error.id != ENOMEM \
    && IMPLIES((cs)->error.id == 0, g_al_allocs == 0 && (cs)->error.datacount == 0 \
               && (cs)->fallback->used == 0 && (cs)->fallback->offset == 0) \
    && IMPLIES((cs)->error.id == EBUSY, g_al_allocs == 1 && (cs)->fallback->offset == 0))
/* the block: the one live block of the ledger, exactly blocksize octets */
#define RPP_CS_ST_BLOCK_LEDGER(cs) \
  IMPLIES((cs)->buffer.data != NULL, \
    (void *)(cs)->buffer.data == g_al_block && g_al_live == 1 && g_al_allocs == 1)
#define RPP_CS_ST_BLOCK_SEP(cs) \
  IMPLIES((cs)->buffer.data != NULL, \
    !__CPROVER_same_object((cs)->buffer.data, (cs)) && !__CPROVER_same_object((cs)->buffer.data, (cs)->fallback) \
    && !__CPROVER_same_object((cs)->buffer.data, (cs)->fallback->data) \
    && !__CPROVER_same_object((cs)->buffer.data, (cs)->alloc))
#define RPP_CS_ST_BLOCK_FILL(cs) \
  IMPLIES((cs)->buffer.data != NULL, \
    (cs)->buffer.size == (cs)->alloc->blocksize && (cs)->buffer.offset == 0 \
    && sizeof(RPFrame) <= (cs)->buffer.used && (cs)->buffer.used <= (cs)->buffer.size \
    && (cs)->error.id != EBUSY \
    && IMPLIES((cs)->error.id == 0, (cs)->error.datacount == 0) \
    && IMPLIES((cs)->error.id == ENOMEM, (cs)->buffer.used == (cs)->buffer.size) \
    && (cs)->fallback->used == 0 && (cs)->fallback->offset == 0)
/* BLOCK first: as an assumed is_fresh it *chooses* the block pointer */
#define RPP_CS_STATE_(cs, BLOCK) \
  (IMPLIES((cs)->buffer.data != NULL, (BLOCK)) \
   && RPP_CS_ST_ID(cs) && RPP_CS_ST_NOBLOCK(cs) && RPP_CS_ST_BLOCK_LEDGER(cs) \
   && RPP_CS_ST_BLOCK_SEP(cs) && RPP_CS_ST_BLOCK_FILL(cs))
#define RPP_CS_WF(cs) (RPP_CS_CONF_OK(cs) \
  && RPP_CS_STATE_(cs, __CPROVER_rw_ok((cs)->buffer.data, (cs)->alloc->blocksize)))
#define RPP_MIN(a, b) ((a) < (b) ? (a) : (b))
/* pre-state cell i of the active buffer (block if present, else fallback) */
#define RPP_CS_ACTIVE(cs) ((cs)->buffer.data != NULL ? &(cs)->buffer : (cs)->fallback)
#define RPP_CS_OLD_CELL(cs, i) \
  __CPROVER_old(RPP_CS_ACTIVE(cs)->data[BB_CL(i, RPP_CS_ACTIVE(cs)->size)])

/* store as much of the data as the active buffer has FREE SPACE for; report
 * -ENOMEM exactly when something had to be dropped */
static int cs_add(ContinuableSink *cs, const void *data, const size_t n)
__CPROVER_requires(__CPROVER_rw_ok(cs, sizeof(ContinuableSink)) && RPP_FB_OK(cs->fallback)
    && !__CPROVER_same_object(cs, cs->fallback) && !__CPROVER_same_object(cs, cs->fallback->data))
__CPROVER_requires(IMPLIES(cs->buffer.data != NULL, BB_WF(&cs->buffer) && cs->buffer.size <= RPP_BSMAX
    && __CPROVER_rw_ok(cs->buffer.data, cs->buffer.size)
    && !__CPROVER_same_object(cs->buffer.data, cs) && !__CPROVER_same_object(cs->buffer.data, cs->fallback)
    && !__CPROVER_same_object(cs->buffer.data, cs->fallback->data)))
__CPROVER_requires(n == 0 || __CPROVER_r_ok(data, n))
__CPROVER_requires(!__CPROVER_same_object(data, cs) && !__CPROVER_same_object(data, cs->fallback)
    && !__CPROVER_same_object(data, cs->fallback->data)
    && IMPLIES(cs->buffer.data != NULL, !__CPROVER_same_object(data, cs->buffer.data)))
__CPROVER_assigns(cs->buffer.data != NULL: cs->buffer.used, __CPROVER_object_upto(cs->buffer.data, cs->buffer.size);
    cs->buffer.data == NULL: cs->fallback->used, __CPROVER_object_upto(cs->fallback->data, cs->fallback->size))
/* block present: it is the active buffer, the fallback is not touched */
__CPROVER_ensures(IMPLIES(cs->buffer.data != NULL,
    cs->buffer.used == __CPROVER_old(cs->buffer.used)
        + RPP_MIN(n, __CPROVER_old(cs->buffer.size) - __CPROVER_old(cs->buffer.used))
    && __CPROVER_return_value == (n > __CPROVER_old(cs->buffer.size) - __CPROVER_old(cs->buffer.used) ? -ENOMEM : 0)
    && cs->fallback->used == __CPROVER_old(cs->fallback->used)))
__CPROVER_ensures(IMPLIES(cs->buffer.data != NULL
        && g_k < RPP_MIN(n, __CPROVER_old(cs->buffer.size) - __CPROVER_old(cs->buffer.used)),
    cs->buffer.data[BB_CL(__CPROVER_old(cs->buffer.used) + g_k, cs->buffer.size)] == ((const unsigned char *)data)[g_k]))
__CPROVER_ensures(IMPLIES(cs->buffer.data != NULL && g_j < __CPROVER_old(cs->buffer.used),
    cs->buffer.data[BB_CL(g_j, cs->buffer.size)] == RPP_CS_OLD_CELL(cs, g_j)))
/* no block: the fallback is the active buffer */
__CPROVER_ensures(IMPLIES(cs->buffer.data == NULL,
    cs->fallback->used == __CPROVER_old(cs->fallback->used)
        + RPP_MIN(n, __CPROVER_old(cs->fallback->size) - __CPROVER_old(cs->fallback->used))
    && __CPROVER_return_value == (n > __CPROVER_old(cs->fallback->size) - __CPROVER_old(cs->fallback->used) ? -ENOMEM : 0)))
__CPROVER_ensures(IMPLIES(cs->buffer.data == NULL
        && g_k < RPP_MIN(n, __CPROVER_old(cs->fallback->size) - __CPROVER_old(cs->fallback->used)),
    cs->fallback->data[BB_CL(__CPROVER_old(cs->fallback->used) + g_k, cs->fallback->size)] == ((const unsigned char *)data)[g_k]))
__CPROVER_ensures(IMPLIES(cs->buffer.data == NULL && g_j < __CPROVER_old(cs->fallback->used),
    cs->fallback->data[BB_CL(g_j, cs->fallback->size)] == RPP_CS_OLD_CELL(cs, g_j)))
__CPROVER_ensures(cs->buffer.data == __CPROVER_old(cs->buffer.data) && cs->buffer.size == __CPROVER_old(cs->buffer.size)
    && cs->buffer.offset == __CPROVER_old(cs->buffer.offset)
    && cs->fallback->data == __CPROVER_old(cs->fallback->data) && cs->fallback->size == __CPROVER_old(cs->fallback->size)
    && cs->fallback->offset == __CPROVER_old(cs->fallback->offset))
;

/* free space of the active buffer the chunk meets: a block allocated by this
 * very call starts behind the reserved frame structure */
#define RPP_CS_AVAIL0(cs) \
  (__CPROVER_old((cs)->buffer.data) != NULL ? __CPROVER_old((cs)->buffer.size) - __CPROVER_old((cs)->buffer.used) \
   : (cs)->buffer.data != NULL ? (cs)->buffer.size - sizeof(RPFrame) \
   : __CPROVER_old((cs)->fallback->size) - __CPROVER_old((cs)->fallback->used))

static ssize_t run_continuable_sink(void *driver, const void *data, size_t n)
__CPROVER_requires(RPP_CS_WF((ContinuableSink *)driver))
__CPROVER_requires(n <= (size_t)SSIZE_MAX && (n == 0 || __CPROVER_r_ok(data, n)))
__CPROVER_requires(!__CPROVER_same_object(data, driver) && !__CPROVER_same_object(data, ((ContinuableSink *)driver)->fallback)
    && !__CPROVER_same_object(data, ((ContinuableSink *)driver)->fallback->data)
    && !__CPROVER_same_object(data, ((ContinuableSink *)driver)->alloc)
    && IMPLIES(((ContinuableSink *)driver)->buffer.data != NULL,
               !__CPROVER_same_object(data, ((ContinuableSink *)driver)->buffer.data)))
__CPROVER_assigns(((ContinuableSink *)driver)->buffer, ((ContinuableSink *)driver)->error,
    ((ContinuableSink *)driver)->fallback->used,
    __CPROVER_object_upto(((ContinuableSink *)driver)->fallback->data, ((ContinuableSink *)driver)->fallback->size),
    g_al_allocs, g_al_live, g_al_block;
    ((ContinuableSink *)driver)->buffer.data != NULL:
        __CPROVER_object_upto(((ContinuableSink *)driver)->buffer.data, ((ContinuableSink *)driver)->buffer.size))
/* accepts everything */
__CPROVER_ensures(__CPROVER_return_value == (ssize_t)n)
/* preserves the invariant (never outside block / fallback: exact-size objects + assigns) */
__CPROVER_ensures(RPP_CS_CONF_OK((ContinuableSink *)driver))
__CPROVER_ensures(RPP_CS_ST_ID((ContinuableSink *)driver))
__CPROVER_ensures(RPP_CS_ST_NOBLOCK((ContinuableSink *)driver))
__CPROVER_ensures(RPP_CS_ST_BLOCK_LEDGER((ContinuableSink *)driver))
__CPROVER_ensures(IMPLIES(((ContinuableSink *)driver)->buffer.data != NULL,
    __CPROVER_rw_ok(((ContinuableSink *)driver)->buffer.data, ((ContinuableSink *)driver)->alloc->blocksize)))
__CPROVER_ensures(RPP_CS_ST_BLOCK_SEP((ContinuableSink *)driver))
__CPROVER_ensures(RPP_CS_ST_BLOCK_FILL((ContinuableSink *)driver))
/* allocates at most once, and only when there is no block and no error yet */
__CPROVER_ensures(g_al_allocs == __CPROVER_old(g_al_allocs)
    + ((__CPROVER_old(((ContinuableSink *)driver)->buffer.data) == NULL
        && __CPROVER_old(((ContinuableSink *)driver)->error.id) == 0) ? 1u : 0u))
/* a block once obtained stays */
__CPROVER_ensures(IMPLIES(__CPROVER_old(((ContinuableSink *)driver)->buffer.data) != NULL,
    ((ContinuableSink *)driver)->buffer.data == __CPROVER_old(((ContinuableSink *)driver)->buffer.data)))
/* error state is sticky and counts what arrives */
__CPROVER_ensures(IMPLIES(__CPROVER_old(((ContinuableSink *)driver)->error.id) != 0,
    ((ContinuableSink *)driver)->error.id == __CPROVER_old(((ContinuableSink *)driver)->error.id)
    && ((ContinuableSink *)driver)->error.datacount == __CPROVER_old(((ContinuableSink *)driver)->error.datacount) + n))
/* EBUSY exactly when the allocation failed */
__CPROVER_ensures(IMPLIES(__CPROVER_old(((ContinuableSink *)driver)->error.id) == 0,
    (((ContinuableSink *)driver)->error.id == EBUSY)
    == (__CPROVER_old(((ContinuableSink *)driver)->buffer.data) == NULL && ((ContinuableSink *)driver)->buffer.data == NULL)))
__CPROVER_ensures(IMPLIES(__CPROVER_old(((ContinuableSink *)driver)->error.id) == 0
        && ((ContinuableSink *)driver)->error.id == EBUSY,
    ((ContinuableSink *)driver)->error.datacount == n))
/* ENOMEM exactly when the frame exceeds the capacity of the block */
__CPROVER_ensures(IMPLIES(__CPROVER_old(((ContinuableSink *)driver)->error.id) == 0
        && ((ContinuableSink *)driver)->buffer.data != NULL,
    (((ContinuableSink *)driver)->error.id == ENOMEM) == (n > RPP_CS_AVAIL0((ContinuableSink *)driver))
    && (((ContinuableSink *)driver)->error.id == 0) == (n <= RPP_CS_AVAIL0((ContinuableSink *)driver))))
/* stores as much as fits, in order, behind what is there */
__CPROVER_ensures(IMPLIES(((ContinuableSink *)driver)->buffer.data != NULL,
    ((ContinuableSink *)driver)->buffer.used == ((ContinuableSink *)driver)->buffer.size - RPP_CS_AVAIL0((ContinuableSink *)driver)
        + RPP_MIN(n, RPP_CS_AVAIL0((ContinuableSink *)driver))))
__CPROVER_ensures(IMPLIES(((ContinuableSink *)driver)->buffer.data != NULL
        && g_k < RPP_MIN(n, RPP_CS_AVAIL0((ContinuableSink *)driver)),
    ((ContinuableSink *)driver)->buffer.data[BB_CL(((ContinuableSink *)driver)->buffer.size
        - RPP_CS_AVAIL0((ContinuableSink *)driver) + g_k, ((ContinuableSink *)driver)->buffer.size)]
    == ((const unsigned char *)data)[g_k]))
__CPROVER_ensures(IMPLIES(((ContinuableSink *)driver)->buffer.data == NULL,
    ((ContinuableSink *)driver)->fallback->used == __CPROVER_old(((ContinuableSink *)driver)->fallback->used)
        + RPP_MIN(n, RPP_CS_AVAIL0((ContinuableSink *)driver))))
__CPROVER_ensures(IMPLIES(((ContinuableSink *)driver)->buffer.data == NULL
        && g_k < RPP_MIN(n, RPP_CS_AVAIL0((ContinuableSink *)driver)),
    ((ContinuableSink *)driver)->fallback->data[BB_CL(__CPROVER_old(((ContinuableSink *)driver)->fallback->used) + g_k,
        ((ContinuableSink *)driver)->fallback->size)] == ((const unsigned char *)data)[g_k]))
;

void continuable_sink_init(Sink *instance, ContinuableSink *driver)
__CPROVER_requires(__CPROVER_rw_ok(instance, sizeof(Sink)) && __CPROVER_rw_ok(driver, sizeof(ContinuableSink))
    && !__CPROVER_same_object(instance, driver))
__CPROVER_assigns(instance->kind, instance->sink, instance->driver, instance->ext.getbuffer,
    driver->buffer, driver->error)
__CPROVER_ensures(driver->buffer.data == NULL && driver->buffer.size == 0 && driver->buffer.used == 0
    && driver->buffer.offset == 0 && driver->error.id == 0 && driver->error.datacount == 0)
__CPROVER_ensures(instance->kind == DATA_KIND_CHUNK && instance->sink.chunk == run_continuable_sink
    && instance->driver == (void *)driver && instance->ext.getbuffer == NULL)
;

/* ------------------------------------------------------------------------ */
/* C09: the frame decoders as regp_recv sees them -- ASSUMED.                 */
/* "Calls the sink driver any number of times with any chunks, then returns   */
/* any value": the sink is left in ANY state of the invariant that            */
/* continuable_sink_init establishes and run_continuable_sink preserves       */
/* (targets cs_init / run_continuable_sink), the block -- if one was obtained */
/* -- is a fresh exact-size object with arbitrary content.  That the decoders */
/* touch the sink only through its driver is an obligation of C12 / C13.      */

#define RPP_DEC_RAN RPP_GHOSTLY0(g_dec_rc >= 0)
#define RPP_DEC_FAILED RPP_GHOSTLY0(g_dec_rc < 0)
extern int g_dec_rc;        /* what the decoder returned */
extern int g_dec_id;        /* the sink's error id when it returned */
extern size_t g_dec_len;    /* frame octets stored in the block (0 without block) */
#define RPP_DEC_CS(sink) ((ContinuableSink *)(sink)->driver)
#define RPP_DEC_REQ(sink) (__CPROVER_r_ok((sink), sizeof(Sink)) && (sink)->kind == DATA_KIND_CHUNK \
  && (sink)->sink.chunk == run_continuable_sink && RPP_CS_WF(RPP_DEC_CS(sink)) \
  && RPP_DEC_CS(sink)->buffer.data == NULL && RPP_DEC_CS(sink)->error.id == 0)
#define RPP_DEC_ASSIGNS(sink) RPP_DEC_CS(sink)->buffer, RPP_DEC_CS(sink)->error, \
  RPP_DEC_CS(sink)->fallback->used, \
  __CPROVER_object_upto(RPP_DEC_CS(sink)->fallback->data, RPP_DEC_CS(sink)->fallback->size), \
  g_al_allocs, g_al_live, g_al_block, g_dec_rc, g_dec_id, g_dec_len
#ifndef RPP_DEC_FRAME_CAP
#define RPP_DEC_FRAME_CAP(sink) 1
#endif
#define RPP_DEC_ENS(sink, rc) \
  (RPP_CS_STATE_(RPP_DEC_CS(sink), __CPROVER_is_fresh(RPP_DEC_CS(sink)->buffer.data, RPP_DEC_CS(sink)->alloc->blocksize)) \
   && BB_WF(RPP_DEC_CS(sink)->fallback) \
   && g_dec_rc == (int)(rc) && g_dec_id == RPP_DEC_CS(sink)->error.id \
   && g_dec_len == (RPP_DEC_CS(sink)->buffer.data != NULL ? RPP_DEC_CS(sink)->buffer.used - sizeof(RPFrame) : (size_t)0) \
   && RPP_DEC_FRAME_CAP(sink))

int rfc1055_decode(RFC1055Context *ctx, Source *source, Sink *sink)
__CPROVER_requires(__CPROVER_rw_ok(ctx, sizeof(RFC1055Context)) && __CPROVER_rw_ok(source, sizeof(Source)))
__CPROVER_requires(RPP_DEC_REQ(sink))
__CPROVER_assigns(ctx->state, RPP_DEC_ASSIGNS(sink))
__CPROVER_ensures(RPP_DEC_ENS(sink, __CPROVER_return_value))
;

ssize_t flenp_decode_source_to_sink(LengthPrefixKind k, Source *source, Sink *sink)
__CPROVER_requires(__CPROVER_rw_ok(source, sizeof(Source)))
__CPROVER_requires(RPP_DEC_REQ(sink))
__CPROVER_assigns(RPP_DEC_ASSIGNS(sink))
__CPROVER_ensures(RPP_DEC_ENS(sink, __CPROVER_return_value))
__CPROVER_ensures(__CPROVER_return_value >= -0x7fffffff && __CPROVER_return_value <= 0x7fffffff)
;

#endif /* RPP_UNIT_REGP && RPP_UNIT_SINK (sink, decoders) */

#ifdef RPP_UNIT_REGP
/* ------------------------------------------------------------------------ */
/* C09: early replies and the receiver                                        */

/* a reply built from the first octets of a frame that could not be stored:
 * a request is answered with the given code echoing sequence and address, a
 * header that does not parse is reported by the matching META message,
 * responses and meta messages are not answered (doc 2.1) */
#define RPP_EARLY_ENS(hdrbuf, code) RPP_GHOSTLY( \
  IMPLIES((hdrbuf)->used < 12u, RPP_TX_ONE && RPP_TX_IS_META(RP_META_EHEADERENC)) \
   && IMPLIES(RPP_TX_ONE && RPP_TX_TYPE != SPEC_T_META, \
        (hdrbuf)->used >= 12u && SPEC_T_IS_REQUEST(SPEC_F_TYPE((hdrbuf)->data)) \
        && RPP_TX_FIXED(SPEC_F_TYPE((hdrbuf)->data) == SPEC_T_READ_REQ ? SPEC_T_READ_RESP : SPEC_T_WRITE_RESP, code, 0, \
                        SPEC_F_SEQ((hdrbuf)->data), SPEC_F_ADDR((hdrbuf)->data), 0u) && RPP_TX_NOPAYLOAD) \
   && IMPLIES(RPP_TX_ONE && RPP_TX_TYPE == SPEC_T_META, \
        RPP_TX_IS_META(RP_META_EHEADERENC) || RPP_TX_IS_META(RP_META_EHEADERCRC)))

static int send_early_response(RegP *p, ByteBuffer *hdrbuf, RPResponse code)
__CPROVER_requires(RPP_P_MIN(p) && RPP_CODE_OK(code))
__CPROVER_requires(__CPROVER_r_ok(hdrbuf, sizeof(ByteBuffer)) && BB_WF(hdrbuf) && hdrbuf->size <= RPP_FBMAX
    && __CPROVER_r_ok(hdrbuf->data, hdrbuf->size))
__CPROVER_assigns(RPP_TX_GHOSTS)
__CPROVER_ensures(RPP_TX_ONE || RPP_TX_NONE)
__CPROVER_ensures(RPP_EARLY_ENS(hdrbuf, code))
;

static int early_ebusy(RegP *p, ByteBuffer *hdrbuf)
__CPROVER_requires(RPP_P_MIN(p))
__CPROVER_requires(__CPROVER_r_ok(hdrbuf, sizeof(ByteBuffer)) && BB_WF(hdrbuf) && hdrbuf->size <= RPP_FBMAX
    && __CPROVER_r_ok(hdrbuf->data, hdrbuf->size))
__CPROVER_assigns(RPP_TX_GHOSTS)
__CPROVER_ensures(RPP_TX_ONE || RPP_TX_NONE)
__CPROVER_ensures(RPP_EARLY_ENS(hdrbuf, RP_RESP_EBUSY))
;

static int early_erxoverflow(RegP *p, ByteBuffer *hdrbuf)
__CPROVER_requires(RPP_P_MIN(p))
__CPROVER_requires(__CPROVER_r_ok(hdrbuf, sizeof(ByteBuffer)) && BB_WF(hdrbuf) && hdrbuf->size <= RPP_FBMAX
    && __CPROVER_r_ok(hdrbuf->data, hdrbuf->size))
__CPROVER_assigns(RPP_TX_GHOSTS)
__CPROVER_ensures(RPP_TX_ONE || RPP_TX_NONE)
__CPROVER_ensures(RPP_EARLY_ENS(hdrbuf, RP_RESP_ERXOVERFLOW))
;

#endif /* RPP_UNIT_REGP (early replies) */

#if defined(RPP_UNIT_REGP) && defined(RPP_UNIT_SINK)
/* the reply to an early error, as visible without the receiver's local
 * fallback buffer: a response of the given code or a META report, at most one */
#define RPP_EARLY_CLASS(code) RPP_GHOSTLY( \
  (RPP_TX_ONE || RPP_TX_NONE) \
  && IMPLIES(RPP_TX_ONE, (SPEC_T_IS_RESPONSE(RPP_TX_TYPE) && RPP_TX_META == (unsigned)(code) && RPP_TX_NOPAYLOAD) \
                         || RPP_TX_IS_META(RP_META_EHEADERENC) || RPP_TX_IS_META(RP_META_EHEADERCRC)))

int regp_recv(RegP *p, RPMaybeFrame *mf)
__CPROVER_requires(RPP_P_MIN(p) && RPP_ALLOC_OK(p->alloc))
__CPROVER_requires(__CPROVER_rw_ok(mf, sizeof(RPMaybeFrame)) && !__CPROVER_same_object(p, mf)
    && !__CPROVER_same_object(mf, p->alloc) && !__CPROVER_same_object(p, p->alloc))
__CPROVER_requires(RPP_RECV_TRACE_REQ)
/* ledger of this receive starts clean */
__CPROVER_requires(g_al_allocs == 0 && g_al_live == 0 && g_al_frees == 0)
__CPROVER_assigns(mf->frame, mf->error, RPP_TX_GHOSTS, g_al_allocs, g_al_live, g_al_block, g_al_frees,
    g_dec_rc, g_dec_id, g_dec_len)
/* --- a returned frame is a block of exactly the allocator's size (first: as
 *     an assumed clause it chooses the pointer) --- */
__CPROVER_ensures(mf->frame == NULL || __CPROVER_is_fresh(mf->frame, p->alloc->blocksize))
/* --- resource exactness: at most one block is obtained; it is either handed
 *     to the caller in mf->frame (to be released by regp_free) or was
 *     released by the receiver --- */
__CPROVER_ensures(g_al_allocs <= 1 && g_al_frees + g_al_live <= g_al_allocs)
__CPROVER_ensures(g_al_live == (mf->frame != NULL ? 1u : 0u))
__CPROVER_ensures(IMPLIES(mf->frame != NULL, (void *)mf->frame == g_al_block))
__CPROVER_ensures(g_dec_id == 0 || g_dec_id == EBUSY || g_dec_id == ENOMEM)
/* --- channel error: returned unchanged, nothing handed out, nothing kept,
 *     nothing sent --- */
__CPROVER_ensures(IMPLIES(RPP_DEC_FAILED,
    __CPROVER_return_value == g_dec_rc && mf->frame == NULL && g_al_live == 0 && RPP_TX_NONE))
/* --- allocation failure: busy reply --- */
__CPROVER_ensures(IMPLIES(RPP_DEC_RAN && g_dec_id == EBUSY,
    mf->error.id == EBUSY && mf->frame == NULL && RPP_EARLY_CLASS(RP_RESP_EBUSY)))
/* --- frame too large for the block: receive-overflow reply --- */
__CPROVER_ensures(IMPLIES(RPP_DEC_RAN && g_dec_id == ENOMEM,
    mf->error.id == ENOMEM && mf->frame != NULL && RPP_EARLY_CLASS(RP_RESP_ERXOVERFLOW)))
/* --- a frame shorter than a header, including the empty one: bad header
 *     encoding, reported by the META message --- */
__CPROVER_ensures(IMPLIES(RPP_DEC_RAN && g_dec_id == 0 && g_dec_len < 12u,
    mf->error.id == EBADMSG && RPP_TX_ONE && RPP_TX_IS_META(RP_META_EHEADERENC)))
/* --- otherwise the classification of the frame parser; header problems are
 *     reported by META messages, everything else is left to regp_process --- */
__CPROVER_ensures(IMPLIES(RPP_DEC_RAN && g_dec_id == 0,
    mf->error.id == 0 || mf->error.id == EBADMSG || mf->error.id == EILSEQ
    || mf->error.id == EFAULT || mf->error.id == EPROTO))
__CPROVER_ensures(IMPLIES(RPP_DEC_RAN && g_dec_id == 0 && mf->error.id == EBADMSG,
    RPP_TX_ONE && RPP_TX_IS_META(RP_META_EHEADERENC)))
__CPROVER_ensures(IMPLIES(RPP_DEC_RAN && g_dec_id == 0 && mf->error.id == EILSEQ,
    RPP_TX_ONE && RPP_TX_IS_META(RP_META_EHEADERCRC)))
__CPROVER_ensures(IMPLIES(RPP_DEC_RAN && g_dec_id == 0 && RPP_ID_PARSED(mf->error.id),
    RPP_TX_NONE && __CPROVER_return_value == 0 && mf->frame != NULL))
/* --- what regp_process relies on --- */
__CPROVER_ensures(IMPLIES(RPP_DEC_RAN && mf->frame != NULL,
    IMPLIES(RPP_ID_PARSED(mf->error.id),
               RPP_HDR_PARSED(mf->frame) && mf->frame->raw.size <= p->alloc->blocksize - sizeof(RPFrame)
               && mf->frame->raw.size == g_dec_len)
    && IMPLIES(mf->error.id == 0, RPP_PLAUSIBLE(mf->frame))))
;

#endif /* RPP_UNIT_REGP && RPP_UNIT_SINK (receiver) */

#endif
